#!/usr/bin/env python3
"""Regenerates MANIFEST.json from lib/props.py and lib/manifest_meta.py (run from /verif)."""
import json, os, sys
sys.path.insert(0, os.path.dirname(os.path.abspath(__file__)))
from props import PROPS
from manifest_meta import META, NOT_APPLICABLE, HOOK_COMMITS
try:
    from ready import READY
except ImportError:
    READY = None

ROOT = os.path.dirname(os.path.dirname(os.path.abspath(__file__)))
ids = [json.loads(l)["id"] for l in open(os.path.join(ROOT, "properties.jsonl"))]
checks = []
for pid in ids:
    if pid not in PROPS or pid not in META or (READY is not None and pid not in READY):
        continue
    m = META[pid]
    checks.append({
        "property_id": pid,
        "quick_cmd": "./check %s --tier quick" % pid,
        "thorough_cmd": "./check %s --tier thorough" % pid,
        "evidence_file": "/verif/evidence/%s.json" % pid,
        "replay_cmd_template": "./check %s --replay {path}" % pid,
        "engine": "rapid-harness",
        "level_claimed": {"category": PROPS[pid].get("level", "exploration"), "text": m["text"], "design_ref": m["design_ref"]},
        "level_note": m["note"],
        "technique": m["technique"],
    })
na = [{"property_id": p, "reason": r} for p, r in NOT_APPLICABLE.items() if p not in {c["property_id"] for c in checks}]
for pid in ids:
    if pid not in {c["property_id"] for c in checks} and pid not in NOT_APPLICABLE:
        na.append({"property_id": pid, "reason": "check not yet registered (under construction; see DESIGN.md section 6)"})
man = {
    "version": 1,
    "setup_cmd": "./check setup",
    "hooks": {"guard": "verif", "enable": "none needed: checks build /repo with -tags purego only; no guarded source changes exist",
              "baseline_off_cmd": "./baseline_off.sh", "source_commits": HOOK_COMMITS, "add_only": True},
    "engines": [{"name": "rapid-harness", "path": "/verif/harness", "serves_properties": [c["property_id"] for c in checks],
                 "kind_free_text": "Go module with pgregory.net/rapid v1.3.0 property tests, state machines and native fuzz targets; replace => /repo; driven by ./check (python3) which shards over 16 cores and writes evidence"}],
    "checks": checks,
    "not_applicable": sorted(na, key=lambda x: x["property_id"]),
    "notes": "All checks are generated-input search against explicit oracles (see DESIGN.md). Exit 2 of ./check means infrastructure trouble, never a verdict.",
}
json.dump(man, open(os.path.join(ROOT, "MANIFEST.json"), "w"), indent=1)
print("wrote MANIFEST.json with %d checks, %d not_applicable" % (len(checks), len(na)))
