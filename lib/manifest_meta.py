# Human-written part of MANIFEST.json per property.
HOOK_COMMITS = []
NOT_APPLICABLE = {}
META = {
    "C19": {
        "text": ("Exploration: rapid-generated pairs of transcript histories differing by one edit of 14 classes (metamorphic "
                 "oracle: equal histories agree, different ones differ in every later extraction; clones independent), and "
                 "generated (curve, message, DST) inputs to hash-to-curve judged by an independent math/big curve model for "
                 "subgroup membership plus pinned RFC 9380 vectors. A sample, not a proof; injectivity is tested per edit class."),
        "design_ref": "DESIGN.md section 6, C19",
        "note": "Trusts crypto/sha3 and math/big; collision resistance of cSHAKE256 is assumed (16-byte comparison).",
        "technique": "property-based testing (rapid): metamorphic pair generator over operation histories + differential against an independent curve model and pinned vectors",
    },
}
