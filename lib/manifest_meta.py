# Human-written part of MANIFEST.json per property (level text, trusted base, technique).
HOOK_COMMITS = []
NOT_APPLICABLE = {}

_T_RAPID = "property-based testing (pgregory.net/rapid generators + shrinking)"

META = {
    "C01": {
        "text": ("Exploration: every supported threshold signing protocol is run end to end through its network runner over a harness-owned "
                 "Delivery for drawn (policy of any of the five families incl. non-ideal ones, shareholder-ID regime, key generation method, "
                 "qualified quorum minimal or not, curve/hash/Schnorr flavour, message class, compiler, seeds); the resulting signature must "
                 "be identical for all aggregators/parties, accepted by the library verifier and by an INDEPENDENT verifier (crypto/ecdsa, "
                 "math/big curve model) for exactly that message. Sampling, not proof; Mina's Poseidon challenge has no independent check."),
        "design_ref": "DESIGN.md section 6, C01",
        "note": "Trusts math/big, crypto/ecdsa and the harness reference curve model (self-tested against crypto/elliptic, RFC vectors); Paillier-based protocols use 1024-2048-bit test keys.",
        "technique": _T_RAPID + "; oracle = independent signature verifiers (differential)",
    },
    "C02": {
        "text": ("Exploration with exhaustive small scopes: all threshold/unanimity policies up to 6 holders, every CNF antichain up to 4 (5 in "
                 "thorough), every hierarchical layout up to 6, small gate trees, each under two ID maps and for EVERY subset of holders, plus "
                 "drawn larger policies: IsQualified / MSP.Accepts / CanReconstruct equal a brute-force policy evaluator written from the "
                 "definitions; the target vector lies in the row span of a set's MSP rows exactly for qualified sets (independent Gaussian "
                 "elimination = the privacy criterion), with constructive privacy witnesses; reconstruction, linearity and additive "
                 "conversion for KW, Shamir, additive, ISN, Tassa, Feldman, Pedersen; refused policies refuse with an error; Tassa admission "
                 "against an exact big-integer evaluation of the documented bound with a guard band."),
        "design_ref": "DESIGN.md section 6, C02",
        "note": "Privacy is decided by the algebraic span criterion plus sampled witnesses, not statistically; all fields are ~255-bit.",
        "technique": "exhaustive enumeration of small scopes + " + _T_RAPID + "; oracle = independent policy evaluator and math/big linear algebra",
    },
    "C03": {
        "text": ("Exploration: trusted dealing, Gennaro (three NIZK compilers) and Canetti DKGs run through their network runners for drawn "
                 "(policy, IDs, group among seven, seeds); all parties must end with identical public key / verification vector / MSP / public "
                 "shares, private shares lifting to public shares, every subset reconstructing dlog(pk) iff qualified (scalar and in the "
                 "exponent), byte-identical CBOR reload, and keys that never repeat and change with any single party's random stream."),
        "design_ref": "DESIGN.md section 6, C03",
        "note": "Lifting uses the library's scalar multiplication (checked separately by C14); lindell17/cggmp21 key generation at production size is not run.",
        "technique": _T_RAPID + "; oracle = agreement invariants over all subsets + independent policy model",
    },
    "C04": {
        "text": ("Fault enumeration: for every protocol scenario (session, AOR, Gennaro, Canetti, redistribution x3, Lindell22, DKLs23, "
                 "Lindell17) one party's outgoing message of a drawn round is altered ON THE WIRE by a structure-aware CBOR mutator: every "
                 "leaf path class of every message type x operators {bit flip, replace by a same-field value of another sender/recipient/"
                 "parallel session, swap, zero, int+-1, truncate/extend arrays, whole-message replay of another sender or a parallel session, "
                 "swap recipients, drop}; unicasts for one recipient, broadcasts identically for all (through echo broadcast). Oracle: no "
                 "honest party panics or hangs; every blamed identity is the deviator; whatever honest parties/aggregators output passes the "
                 "C01/C03 output oracles; an alteration of a bound leaf is rejected by the recipient (unicast) or some honest party "
                 "(broadcast) - the explicit free-list names the leaves a sender may choose afresh."),
        "design_ref": "DESIGN.md section 6, C04",
        "note": "Single static deviator, wire-level faults only (no adaptive prover); detection that is probabilistic with 2^-128 error is treated as certain; the free-list is part of the trusted base and is justified entry by entry in harness/c04/freelist_test.go.",
        "technique": "fault injection driven by " + _T_RAPID + " over an enumerated (message type x leaf class x operator) space; oracle = blame/validity invariants",
    },
    "C05": {
        "text": ("Exploration: Feldman and Pedersen VSS over drawn policies (all families, non-ideal rows), groups, dealers and 1-4 combined "
                 "dealings; unaltered shares verify (also against Op-combined vectors), every single alteration of a share coordinate, length, "
                 "claimed holder or blinding fails, an altered verification-vector entry fails EXACTLY for the holders whose MSP rows have a "
                 "non-zero coefficient in that column (decided with math/big on the matrix), wrong-length vectors are refused, reconstruction "
                 "in the exponent gives the committed value, NewBaseShard accepts iff the share matches."),
        "design_ref": "DESIGN.md section 6, C05",
        "note": "Lifting of reference values uses the library's scalar multiplication (C14 covers it).",
        "technique": _T_RAPID + "; oracle = two-directional accept/reject predicate computed from the MSP matrix",
    },
    "C06": {
        "text": ("Exploration of operation HISTORIES with a rapid state machine: refresh / recover / redistribute (new family, holder set, "
                 "anchor on/off) / sign / reload in any order; after every step the public key is unchanged, new shards verify, every subset of "
                 "current holders reconstructs exactly the model secret iff qualified, signatures verify under the original key, and "
                 "mixed-epoch share sets never yield the secret or a valid signature."),
        "design_ref": "DESIGN.md section 6, C06",
        "note": "Histories are finite and short; a full OLD quorum legitimately still works and is not asserted against.",
        "technique": "stateful (model-based) " + _T_RAPID + "; oracle = invariant against a reference model of the secret",
    },
    "C07": {
        "text": ("Exploration by paired runs: same keys, message and contexts, streams differing for exactly one party; that party's first "
                 "randomised message and the joint random value must change, other parties' first messages must not, nonce commitments never "
                 "repeat over the campaign, a starved reader yields an error, and for the protocols shown to be sequential identical streams "
                 "give byte-identical transcripts (which fails as soon as a site reads crypto/rand or the clock)."),
        "design_ref": "DESIGN.md section 6, C07",
        "note": "Statistical quality of sampling is out of scope; replay determinism is only an oracle for protocols without goroutine fan-out over the reader.",
        "technique": _T_RAPID + "; oracle = metamorphic relations between paired runs",
    },
    "C08": {
        "text": ("Exploration: for each sigma protocol x compiler x AND/OR composition: completeness in a cloned context; the same proof is "
                 "rejected under another session, transcript state, prover label, statement or compiler; structure-aware mutation of the "
                 "proof bytes (every leaf class) is rejected iff the decoded values change; special soundness (Extract from two accepting "
                 "transcripts), simulator transcripts verify, OR proofs verify with exactly one witness; verifiers never panic."),
        "design_ref": "DESIGN.md section 6, C08",
        "note": "Soundness against an adaptive cheating prover and zero-knowledge are not decidable by generation; Paillier/CGGMP21 proofs use 1024-bit fixtures.",
        "technique": _T_RAPID + " + structure-aware CBOR mutation; oracle = accept/reject metamorphic relations",
    },
    "C09": {
        "text": ("Exploration: base OTs, SoftSpoken extension and both random-VOLE multipliers driven round by round through CBOR for drawn "
                 "sizes, curves, choice vectors and inputs: receiver output equals the chosen sender message, the two sender messages differ, "
                 "multiplier outputs sum to the product (math/big); every single-field alteration of the consistency-check messages makes the "
                 "other side abort."),
        "design_ref": "DESIGN.md section 6, C09",
        "note": "ecbbot has no consistency check of its own (its alterations are exercised inside DKLs23 under C04).",
        "technique": _T_RAPID + " + field-level fault injection; oracle = correlation equations",
    },
    "C10": {
        "text": ("Exploration: session setup (round-by-round and runner API) for drawn quorums and ID maps: equal session id and transcript "
                 "state, symmetric and pairwise-distinct seeds, sub-contexts agreeing inside and differing across sub-quorums, zero shares "
                 "summing to the identity; wire faults in every leaf of every setup message with a bound/free table derived from the protocol: "
                 "a non-matching opening is rejected and blamed by the recipient."),
        "design_ref": "DESIGN.md section 6, C10",
        "note": "Group addition used for the zero-sum check is the library's (C14).",
        "technique": _T_RAPID + " + wire-level fault injection; oracle = agreement/symmetry invariants",
    },
    "C11": {
        "text": ("Exploration of SCHEDULES with a rapid state machine whose Delivery is owned by the property: send / deliver in any order / "
                 "duplicate / conflict / inject / receive / cancel+retry / close against a reference mailbox model, with an exact hook-free "
                 "deposit signal for the lost-wake-up check; echo broadcast with an equivocating sender; protocol runners under reordering and "
                 "retransmission; thorough tier repeats under the race detector."),
        "design_ref": "DESIGN.md section 6, C11",
        "note": "Goroutine interleavings inside the router are sampled by the Go scheduler, not enumerated; liveness only as bounded waiting (ratio-based bound).",
        "technique": "stateful (model-based) " + _T_RAPID + " with a property-controlled scheduler; oracle = reference mailbox model",
    },
    "C12": {
        "text": ("Exploration: a registry of serialisable types with valid samples harvested from real protocol runs: deterministic canonical "
                 "round trip; mechanically derived malformed containers (duplicate key, unknown field, indefinite length, trailing bytes) are "
                 "rejected; structure-preserving mutations and raw bytes never panic and, if accepted, satisfy the validity predicate of the "
                 "type's constructor; a non-test probe binary checks the key-size floor; native fuzz targets per family in the thorough tier."),
        "design_ref": "DESIGN.md section 6, C12",
        "note": "Validity predicates are as complete as the reading of each constructor; the registry lists the decoders it does not cover.",
        "technique": _T_RAPID + " + structure-aware CBOR mutation + Go native coverage-guided fuzzing (thorough); oracle = round trip and validity predicates",
    },
    "C13": {
        "text": ("Exploration with exhaustive flag/tag scopes: every curve x format x element class (identity, multiples, zero-coordinate, "
                 "small-order, mixed-order, out-of-subgroup, twist) and mutated byte strings; encode/decode round trip and injectivity judged "
                 "against an independent math/big curve model with its own decoders; every accepted byte string must denote a valid element "
                 "of the type; wrong lengths/tags/off-curve inputs rejected; no panics; native fuzz targets per curve in the thorough tier."),
        "design_ref": "DESIGN.md section 6, C13",
        "note": "Trusts the harness curve model (constants typed in from the standards, self-tested against crypto/elliptic, crypto/ecdh, published encodings).",
        "technique": _T_RAPID + " + exhaustive tag/flag enumeration + native fuzzing (thorough); oracle = differential against an independent curve model",
    },
    "C14": {
        "text": ("Exploration with exhaustive exceptional-operand scopes: point and field operations of every curve against an independent "
                 "math/big model (P-256 also crypto/elliptic, X25519 crypto/ecdh), all ordered pairs/triples of exceptional operand classes, "
                 "edge scalars, MSM lengths 0..64; pairing judged by bilinearity / non-degeneracy laws."),
        "design_ref": "DESIGN.md section 6, C14",
        "note": "No independent pairing implementation exists offline: the pairing value itself is judged by algebraic laws only.",
        "technique": _T_RAPID + " + enumeration of exceptional operand tuples; oracle = differential against an independent curve model, algebraic laws for the pairing",
    },
    "C15": {
        "text": ("Exploration: ECDSA, BIP-340, configurable Schnorr, Mina and BLS: sign then verify with the library and an independent verifier; "
                 "every single-component alteration rejected by both, with the documented ECDSA equivalence class handled two-directionally; "
                 "agreement with crypto/ecdsa on drawn (r,s); recovery and normalisation; pinned published vectors; BLS aggregate/batch/PoP "
                 "accept honest aggregates and reject each bad-contributor class."),
        "design_ref": "DESIGN.md section 6, C15",
        "note": "Mina (Poseidon) and the BLS pairing have no independent implementation offline; vectors are pinned copies under harness/c15/testdata.",
        "technique": _T_RAPID + "; oracle = differential against crypto/ecdsa and a reference curve model + pinned vectors",
    },
    "C16": {
        "text": ("Exploration: Paillier keys built from fixture primes (ordinary/Blum/safe, 1024-3072-bit N), plaintext and nonce edge classes, "
                 "drawn sequences of homomorphic operations tracked in a math/big model: ciphertexts equal the textbook formula, decryption "
                 "and opening return model values after every step, secret-key and public-key paths agree; ElGamal likewise over four groups."),
        "design_ref": "DESIGN.md section 6, C16",
        "note": "Key generation itself is not exercised here (fixtures from openssl); math/big is trusted.",
        "technique": _T_RAPID + " with model-tracked operation sequences; oracle = math/big reference of the textbook formulas",
    },
    "C17": {
        "text": ("Exploration plus one exhaustive small scope (Jacobi symbol for |x|<=64, odd y<=129): every exported arithmetic method of "
                 "numct / num / modular / crt / znstar and nt.Jacobi differentially against math/big over operands of 0-4096 bits with "
                 "announced-capacity, aliasing, sign and modulus classes; generated primes checked for primality, exact length and form."),
        "design_ref": "DESIGN.md section 6, C17",
        "note": "math/big is the trusted reference; degenerate conventions (zero ring, undocumented rounding) are recorded, not asserted.",
        "technique": _T_RAPID + "; oracle = differential against math/big",
    },
    "C18": {
        "text": ("Exploration: hash, Pedersen, integer and encryption-based commitments over drawn keys (sampled, extracted, trapdoor, exported), "
                 "messages and witnesses: the committed triple opens under every view, every single semantic change of message, witness, key "
                 "or commitment fails to open, equivocation opens under the exported key, drawn homomorphic operation sequences open to the "
                 "tracked pair, transcript-derived keys are equal iff the transcripts are."),
        "design_ref": "DESIGN.md section 6, C18",
        "note": "Hiding is not testable by generation; internal formulas are deliberately not asserted.",
        "technique": _T_RAPID + " with model-tracked operation sequences; oracle = open/reject metamorphic relations",
    },
    "C19": {
        "text": ("Exploration: rapid-generated pairs of transcript histories differing by one edit of 14 classes (equal histories agree, different "
                 "ones differ in every later extraction; clones independent); hash-to-curve for ten curve types: deterministic, DST- and "
                 "message-dependent, output in the prime-order subgroup of an independent curve model; full independent RFC 9380 implementations "
                 "for P-256 and curve25519/edwards25519, independent expand_message and hash_to_field for all suites, 121 pinned vectors."),
        "design_ref": "DESIGN.md section 6, C19",
        "note": "Collision resistance of cSHAKE256 is assumed (16-byte comparison); isogeny-based maps (k256, BLS, pasta) rest on vectors plus structural checks.",
        "technique": _T_RAPID + "; oracle = metamorphic pair relation + differential against independent RFC 9380 code and pinned vectors",
    },
    "C20": {
        "text": ("Exploration: polynomial evaluation, Lagrange / Vandermonde / Birkhoff interpolation (scalar and in the exponent) and matrix "
                 "product, transpose, determinant, inverse, minor, lifting and SolveLeft/SolveRight over five scalar fields, with CONSTRUCTED "
                 "rank deficiency and right-hand sides inside/outside the span: a solution is returned iff the reference rank test says one "
                 "exists and every returned solution satisfies the system."),
        "design_ref": "DESIGN.md section 6, C20",
        "note": "Trusts the harness math/big linear algebra (self-tested by brute force over small primes).",
        "technique": _T_RAPID + "; oracle = differential against independent math/big linear algebra + validity predicate for non-unique solutions",
    },
}
