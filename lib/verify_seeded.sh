#!/bin/bash
# usage: verify_seeded.sh <name> <PROPERTY> <agent_out_dir> <demo_dest_relpath> <go test args for the demo (quoted)> [extra ./check args]
# Confirms a seeded change in a fresh scratch worktree: (1) patch applies and builds, (2) the demo
# fails with it and passes without it, (3) the pinned baseline still passes with it, (4) runs the
# property's check against the changed tree. Writes /verif/seeded/<name>/{patch.diff,demo_test.go,meta.json}.
set -u
name=$1; prop=$2; out=$3; demo_dest=$4; demo_args=$5; shift 5
wt=/tmp/vfy_$name
git -C /repo worktree remove --force $wt 2>/dev/null
git -C /repo worktree add -q $wt HEAD || exit 2
cd $wt
cp "$out/demo_test.go" "$wt/$demo_dest"
echo "== demo on clean tree"
GOPROXY=off go test -tags purego -count=1 $demo_args > /tmp/vfy_$name.clean.log 2>&1; rc_clean=$?
tail -3 /tmp/vfy_$name.clean.log
git apply "$out/patch.diff" || { echo "PATCH DOES NOT APPLY"; exit 2; }
echo "== build with change"
GOPROXY=off go build -tags purego ./pkg/... > /tmp/vfy_$name.build.log 2>&1; rc_build=$?
echo "== demo with change"
GOPROXY=off go test -tags purego -count=1 $demo_args > /tmp/vfy_$name.mut.log 2>&1; rc_mut=$?
tail -5 /tmp/vfy_$name.mut.log
rm -f "$wt/$demo_dest"
echo "== pinned baseline with change"
( env -u GOFLAGS GOPROXY=off go test -json -vet=off -count=1 -timeout 25m ./... 2>/dev/null ) > /tmp/vfy_$name.base.json
missing=$(python3 - /tmp/vfy_$name.base.json <<'PY'
import json,sys
passed=set()
for ln in open(sys.argv[1],errors='replace'):
    try: e=json.loads(ln)
    except Exception: continue
    if e.get('Action')=='pass' and e.get('Test'): passed.add('%s::%s'%(e['Package'],e['Test']))
base=json.load(open('/root/.vp/BASELINE.json'))['stable_pass']
print(len([t for t in base if t not in passed]))
PY
)
echo "clean_demo_rc=$rc_clean build_rc=$rc_build mutated_demo_rc=$rc_mut baseline_missing=$missing"
echo "== check $prop against the changed tree"
cd /verif
VERIF_REPO=$wt ./check $prop "$@" > /tmp/vfy_$name.check.log 2>&1; rc_check=$?
grep -E "^VIOLATION|^OK|^INFRA|^KNOWN" /tmp/vfy_$name.check.log | head -12
echo "check_rc=$rc_check"
mkdir -p /verif/seeded/$name
cp "$out/patch.diff" "$out/demo_test.go" /verif/seeded/$name/
[ -f "$out/notes.md" ] && cp "$out/notes.md" /verif/seeded/$name/
python3 - "$name" "$prop" "$demo_dest" "$demo_args" "$rc_clean" "$rc_build" "$rc_mut" "$missing" "$rc_check" <<'PY'
import json,sys,subprocess
name,prop,dest,args,rc_clean,rc_build,rc_mut,missing,rc_check=sys.argv[1:]
viol=[l.strip() for l in open('/tmp/vfy_%s.check.log'%name,errors='replace') if l.startswith('VIOLATION')]
json.dump({"name":name,"breaks_property":prop,"demo_placement":dest,"demo_command":"GOPROXY=off go test -tags purego -count=1 "+args,
 "confirmed":{"demo_passes_on_clean_tree":rc_clean=="0","builds_with_change":rc_build=="0","demo_fails_with_change":rc_mut!="0","pinned_baseline_tests_missing_with_change":int(missing)},
 "check_command":"VERIF_REPO=<worktree with patch> ./check %s"%prop,"check_exit":int(rc_check),"caught":rc_check=="1","violation_lines":viol[:6],
 "repo_head":subprocess.check_output(['git','-C','/repo','rev-parse','--short','HEAD']).decode().strip()},
 open('/verif/seeded/%s/meta.json'%name,'w'),indent=1)
PY
rm -f /verif/evidence/replays/${prop}__*  2>/dev/null
git -C /verif checkout -- evidence/$prop.json 2>/dev/null
git -C /repo worktree remove --force $wt
rm -f /tmp/vfy_$name.base.json
