# Per-property configuration of the ./check driver: harness package, evidence level, the
# generation / non-triviality rule quoted in the evidence, tier sizes.
COMMON_ASSUME = [
    "the repository is built with -tags purego (BoringSSL is not available in the sandbox)",
    "math/big, crypto/* and golang.org/x/crypto of the Go toolchain are trusted as reference implementations",
    "pgregory.net/rapid v1.3.0 generates and shrinks the cases; a run is a function of VERIF_SEED",
]

PROPS = {
    # temporary entry added by the C09 builder (lead: replace/adjust as needed)
    "C09": {
        "pkg": "c09",
        "level": "exploration",
        "rule": ("two parties driven round by round, every message through serde.MarshalCBOR -> bytes -> UnmarshalCBOR; session "
                 "contexts from a drawn seed, one SHAKE stream per party. ecbbot: group {k256, p256, edwards25519 prime subgroup, "
                 "pallas, BLS12-381 G1}, xi in {8,16,24,32,64,128}, L in 1..4; VSOT: curve {k256, p256, pallas}, hash {sha256, sha512, "
                 "sha3-256}, same sizes; SoftSpoken: xi = 8k (k in {1,2,3,4,8,16,17,32,64}), L a multiple of 128/gcd(xi,128), hash, "
                 "base seeds either constructed (128 pairs of distinct 16/32/64-byte strings, Delta in {drawn, all-1, alternating, "
                 "single 1, single 0}; all-zero Delta excluded) or taken from a real 128-instance ecbbot(+ToBitsOutput) / VSOT run that "
                 "is itself checked; rvole over the extension (k256, p256, pallas; xi = 512) and over ecbbot (k256, p256, ed25519, "
                 "pallas; xi = 416), l in 1..3, input entries from {0, 1, 2, q-1, drawn}, Bob's choice vector beta served as the first "
                 "read of his random source. Choice vectors: all-0, all-1, both alternations, single 1, single 0, drawn. Oracle: output "
                 "sizes as configured; for every instance j and block l the receiver's message equals the sender's message selected by "
                 "bit j (bit j mod 8 of byte j/8) and the two sender messages differ (byte encodings); rvole: c[i]+d[i] == a[i]*b mod q "
                 "on math/big with typed-in group orders, b as output by Bob, b == 0 for beta = 0. Faults: ONE field of the decoded "
                 "message altered (bit flip of a byte string, scalar +1 / negated / zeroed / copied from a neighbour, B replaced by "
                 "B+G / 2B / -B), re-encoded (the encoding must change), delivered: SoftSpoken X (every byte), T[i] (drawn rows by "
                 "Delta_i; stratified sample of 20 rows x Delta_i in quick, all 128 in thorough), U[i] (payload / check bits, by Delta_i); "
                 "rvole ATilde[j][i] (beta_j = 0 / 1 x payload / check column), Eta[k] (beta != 0), Mu, and the inner extension "
                 "message; VSOT Xi, RhoPrime, Rho0Digest, Rho1Digest (by the instance's choice bit), B, proof: the consuming round "
                 "(VSOT: or a later round) must return an error and the run must not complete; panics are violations. ot.Pack / Unpack "
                 "/ Get / Repeat / TransposePackedBits (both code paths) against an unpacked reference. Non-trivial: a fault case, or "
                 "choices not all-equal, or L > 1; distinct = (protocol, xi, L, curve or seed kind, choice class, fault field class)."),
        "assumptions": COMMON_ASSUME + [
            "scalar-field orders are typed in from SEC 2, FIPS 186-4, RFC 8032, the Pasta and BLS12-381 specifications and compared with the library's at start-up",
            "collisions of the hash functions / the transcript and 2^-128 coincidences of the GF(2^128) check are treated as impossible",
            "Bob's choice vector is the first read of his random source in both rvole variants (verified on every run by the scripted source)",
        ],
        "quick": {"scale": 1, "shards": 16, "timeout_s": 1800},
        "thorough": {"scale": 8, "shards": 16, "timeout_s": 3600},
    },
    "C02": {
        "pkg": "c02",
        "level": "exploration",
        "rule": ("access policies of five families (threshold, unanimity, antichain CNF, hierarchical levels, threshold/AND/OR gate "
                 "trees with repeated leaves) from an independent model (vlib/policy): ENUMERATED every threshold/unanimity n<=6 (x5 "
                 "fields), every antichain CNF n<=4, every hierarchical layout n<=6 into <=3 levels, every gate tree depth<=2 with <=5 "
                 "leaves over n<=4, each under ordinal and one sparse ID map, EVERY subset of holders; DRAWN policies n<=7 with "
                 "ordinal / sparse / large (up to 2^64-1) IDs over the scalar fields of k256, p256, ed25519, pallas, BLS12-381. "
                 "Oracles: IsQualified, MaximalUnqualifiedSetsIter, MSP.Accepts, CanReconstruct == brute-force policy evaluator; "
                 "e0 in rowspan(M_S) <=> qualified by math/big elimination on the matrix bytes (privacy criterion); every share == "
                 "reference M*r / f(id) / f^(j)(id); Reconstruct == dealt secret for qualified, error for unqualified, wrong-length and "
                 "foreign shares; ReconstructionVector*shares recomputed; Add/ScalarMul linear; additive conversion sums to the secret "
                 "(lifted variants agree with lifting); constructive privacy witness r' through kw.NewDealerFunc; refused-by-design "
                 "policies return errors; Tassa admission vs exact big-integer bound with a factor-2 guard band incl. IDs 2^64-2, "
                 "2^64-1. One case = one (policy, ID map, scheme, subset). Non-trivial: subset neither empty nor full, or policy not a "
                 "plain threshold; distinct = distinct (family, policy, scheme, subset class, field, secret class, ID regime)."),
        "assumptions": COMMON_ASSUME,
        "quick": {"scale": 1, "shards": 12, "timeout_s": 1800},
        "thorough": {"scale": 8, "shards": 16, "timeout_s": 3600},
    },
    # temporary entry added by the C08 builder (lead: replace/adjust as needed)
    "C08": {
        "pkg": "c08",
        "level": "exploration",
        "rule": ("sigma protocols Schnorr, batch Schnorr (k 2-4), Okamoto (1-3 generators), elcomop, elog and AND / OR compositions of "
                 "depth <= 2 (sigand.Compose / CartesianCompose, sigor.Compose / CartesianCompose; true branch drawn) over k256, p256, "
                 "edwards25519 prime subgroup, pallas, vesta, BLS12-381 G1 / G2 with a drawn witness class (0, 1, q-1, small, uniform) and "
                 "generator (standard / random); Paillier nthroot / range, prm, cggmp21 enc / fac / blummod on 1024-bit and affg / affgstar / "
                 "dec on 2048-bit moduli built from openssl prime fixtures through the library's constructors; pailliern, lp, lpdl through "
                 "their own APIs. Compilers: Fiat-Shamir, Fischlin, randomised Fischlin (NI), zk compiler and plain sigma prover/verifier "
                 "(interactive). Session contexts from a drawn seed via session.NewContext, 0-2 drawn transcript appends, prover identity "
                 "bound by AppendBytes(label, id) as the callers do. Per case: completeness in a clone of the context, then ONE negative: "
                 "another session seed / extra, missing, altered append / verifier reused after a successful verification / other, missing, "
                 "extra prover id / another valid statement / one statement component altered, permuted, dropped, duplicated / another "
                 "compiler / the same protocol under another sigma.Name - the SAME proof bytes must be rejected; or ONE structure-aware CBOR "
                 "mutation (bit flip, leaf of a second valid proof, swap, array +-1, integer +-1, byte string +-1 byte, null, map key flip / "
                 "drop, non-minimal head, scalar + group order): rejected iff the library's typed decoding changes or fails, still accepted "
                 "when the canonical re-encoding is unchanged, never a panic (value + k*modulus kept by the decoder and a zero byte prepended "
                 "to a natural number: both verdicts allowed). Every site class x 12 deterministic operator variants is enumerated on one "
                 "proof per kind x compiler. Sigma level: two honest transcripts on one commitment verify and Extract returns a witness "
                 "accepted by ValidateStatement (maurer09-based protocols); RunSimulator output verifies; an OR transcript of simulated "
                 "branches only is rejected under another challenge; wrong witness: error or a proof that does not verify (n-ary OR must "
                 "refuse); every OR shape x true branch x compiler enumerated. Non-trivial: every negative / tamper case whose mutation is "
                 "not the identity; distinct = (protocol, compiler, composition shape, group, negative-case kind | operator, verdict)."),
        "assumptions": COMMON_ASSUME + [
            "prime fixtures were generated with openssl and re-checked with math/big; key material is built by the library's constructors, not its generators",
            "2^-128 coincidences of transcript / hash outputs are treated as impossible; a Fischlin-compiled mutant that meets the 8-bit hash target again is still caught by the sigma relation",
        ],
        "quick": {"scale": 1, "shards": 16, "timeout_s": 3600},
        "thorough": {"scale": 10, "shards": 16, "timeout_s": 14400},
    },
    # temporary entry added by the C13 builder (lead: replace/adjust as needed)
    "C13": {
        "pkg": "c13",
        "level": "exploration",
        "rule": ("10 group types (k256, p256, pallas, vesta, edwards25519 and its prime subgroup, curve25519 and its prime subgroup, "
                 "BLS12-381 G1, G2) x formats (ToCompressed/FromCompressed, ToUncompressed/FromUncompressed, Bytes/FromBytes, CBOR via "
                 "serde, FromAffine, FromAffineX), 11 fields (scalar and base fields; FromBytes, FromBytesBE, FromWideBytes, "
                 "FromBytesBEReduce, CBOR) and BLS12-381 GT. Elements: identity, G, 2G, 3G, (n-1)G, drawn kG and -kG, the x = 0 points "
                 "(P-256; BLS12-381 E(Fp) order 3), the 8 small-order points and mixed-order points kG+T of edwards25519/curve25519, "
                 "points of E(Fp)/E'(Fp2) outside G1/G2 and cofactor points, built through FromAffine of the model's coordinates or "
                 "ScalarMul. Byte strings: model-made valid encodings, every tag / flag-bit value, coordinate + p and = p, length +-1, "
                 "empty, all-ff, zero, drawn strings of the right and of any length, twist abscissae, off-curve ordinates, bit flips, "
                 "well-formed and malformed CBOR frames. Oracle = independent math/big model vlib/refcurve (SEC 1, pasta_curves, RFC 8032, "
                 "RFC 7748, ZCash codecs; curve equation; [N]P subgroup test): (1) encode -> decode gives an Equal element, the model's "
                 "encoder produces the same bytes and the model reads them back to the same coordinates; (2) elements unequal in the "
                 "model have unequal encodings (P/-P, +G, vs identity, independent pairs); (3) whatever a decoder accepts is on the curve, "
                 "has the coordinates the model reads (reduced mod p where the code reduces), is in the prime-order subgroup for the "
                 "types that promise it, and on BLS12-381 carries no flag combination the ZCash format forbids; canonical encodings "
                 "of valid elements must be accepted; (4) wrong length, undefined tags/flags, off-curve coordinates must be errors; "
                 "(5) no panic (vlib.NoPanic around every decoder and encoder). Harmless non-canonical acceptances are counted in classes "
                 "of their own. Non-trivial: everything except a round trip of a plain drawn multiple kG; distinct = distinct (group or "
                 "field, format/decoder, element class or byte-string class, constructor/relation)."),
        "assumptions": COMMON_ASSUME + [
            "the model vlib/refcurve is independent of the library (constants typed in from the standards, self-tested against crypto/elliptic, crypto/ecdh, crypto/ed25519 and published vectors)",
            "library points are read out through AffineX/AffineY and the base field's Bytes(), library elements are built through FromAffine / ScalarMul; these are not point encoders",
        ],
        "env": {"GOMAXPROCS": "2", "GOGC": "400"},
        "quick": {"scale": 1, "shards": 8, "timeout_s": 1500},
        "thorough": {"scale": 10, "shards": 16, "timeout_s": 3600},
    },
    # temporary entry added by the C14 builder (lead: replace/adjust as needed)
    "C14": {
        "pkg": "c14",
        "level": "exploration",
        "rule": ("public point types k256, p256, pallas, vesta, edwards25519 (full curve and prime subgroup), curve25519 (full and prime "
                 "subgroup), BLS12-381 G1, G2 and their scalar / base fields; oracle = vlib/refcurve (affine math/big model, typed-in "
                 "constants) after reading AffineX/AffineY out of every library result and re-checking the curve equation; P-256 also "
                 "against crypto/elliptic, X25519 against crypto/ecdh. Operands: exceptional classes {identity, G, -G, 2G, 3G, -2G, P, -P, "
                 "2P, P+G, the points with x = 0 where the curve has them, on the full 25519 types the 7 small-order points and 9 "
                 "mixed-order points} each as an affine (FromAffine) and a projective (reached through library additions, Z != 1) "
                 "representation, plus drawn multiples of G (a per-seed pool of 16, single / sum / difference). ENUMERATED: every "
                 "unary operation on every class x representation, Add/Op/Sub/Equal on all ordered pairs x 4 representation "
                 "combinations, associativity on all ordered triples. Drawn: straight-line programs of 1-5 operations (add, sub, "
                 "reversed, neg, double, self-add, self-sub, add-negation, Equal); scalar multiplication by every entry point "
                 "(ScalarMul, ScalarOp, ScalarBaseMul/Op, algebrautils.ScalarMul with field scalars and unreduced naturals, "
                 "IsTorsionFree, ClearCofactor) with scalar classes {0,1,2,3,N-1,N-2,N,N+1,2N-1,(N+-1)/2,2^k,2^k+-1,8k, constant "
                 "nibbles, low weight, small, drawn} through 6 constructors (the reducing ones with k + mN); multi-scalar "
                 "multiplication of lengths 0,1,2,3,7,8,9,17,64 (Curve.MultiScalarMul/Op, algebrautils.MultiScalarMul with field scalars "
                 "and naturals of mixed byte length; the generic algebrautils routine is not defined on length 0) with shapes {mixed, "
                 "all-same-point, all-zero-scalars, one-nonzero, cancelling pairs, all-identity}. Fields: all ordered pairs of 14 boundary classes and drawn "
                 "values: Add Sub Mul Square Double Neg Inv Div EuclideanDiv predicates Compare Cardinal, low-level Sqrt (ok iff "
                 "Jacobi symbol 1 or 0, root squares back, root choice not asserted) and Pow, FromWideBytes / FromBytesBEReduce / "
                 "FromCardinal on wide inputs {drawn, all-ff, multiples of p, p*2^k+a, short}; F_p^2 against refcurve.Fp2. Pairing "
                 "(no second implementation): e([a]G1,[b]G2) = e(G1,G2)^(ab) with a, b known by construction, bilinearity in each "
                 "argument, negation, e^r = 1, e != 1, MultiPair / MultiPairAndInvertDuals / product engine = product of single "
                 "pairings, identity arguments refused or absorbed, GT Mul/Square/Inv/Div/exponent laws. BLS points outside G1/G2 "
                 "(built through the exported impl value): IsTorsionFree and the group law on E(F_p), E'(F_p^2). Non-trivial: some "
                 "operand is not a plain drawn multiple of G, or the operation is scalar / multi-scalar multiplication, a pairing, or "
                 "a field operation on a boundary class; distinct = (curve, operation / method, operand class tuple, scalar class)."),
        "assumptions": COMMON_ASSUME + [
            "the pasta model uses the MINA generators (1, sqrt 6) that the library documents, typed in from the Mina specification; "
            "the curve25519 model uses (9, p - V_RFC7748) as generator (the library's Edwards->Montgomery map is the RFC 7748 map "
            "composed with the negation automorphism)",
            "multi-scalar vectors longer than 3 are judged by [sum k_i a_i]G + [sum k_i e_i]T8 with the discrete logarithms (a_i, e_i) of "
            "the pool points known by construction (one reference scalar multiplication); a drawn sixth of them is also judged by the "
            "naive reference sum",
            "Sqrt and Pow exist only on the exported low-level field values (Fp()), the public wrappers have no such methods",
        ],
        "env": {"GOMAXPROCS": "2", "GOGC": "400"},
        "quick": {"scale": 1, "shards": 16, "timeout_s": 900},
        "thorough": {"scale": 10, "shards": 16, "timeout_s": 3600},
    },
    # temporary entry added by the C16 builder (lead: replace/adjust as needed)
    "C16": {
        "pkg": "c16",
        "level": "exploration",
        "rule": ("Paillier: secret keys built through znstar.NewPaillierGroup / paillier.NewSecretKey from two distinct fixture primes "
                 "(openssl; flavour ord / Blum / safe; N of 1024, 1536, 2048, 3072 bits; ordered pair of drawn indices), public key from N "
                 "alone or sk.Public(); plaintext class {0, 1, N-1, floor(N/2), -floor(N/2), floor(N/2)-1, small, drawn} through a drawn "
                 "constructor (FromNat / Symmetric / Uint); nonce class {1, N-1, 2, drawn unit}; a drawn sequence of 0-8 operations "
                 "{Op with a fresh / the same / an earlier ciphertext, Op with 3-5 operands, OpInv, ScalarOp with scalar class {0, +-1, 2, "
                 "small+-, +-N, N+-1, drawn+-, beyond +-N, about +-N^2}, Shift by a plaintext class, ReRandomise with a nonce class}. "
                 "Oracle: a math/big model (m, r) updated by +, *, negation, modular powers; after EVERY step the ciphertext equals the "
                 "textbook (1+N)^m r^N mod N^2 (both factors by big.Int.Exp), Decrypt = m, Open = (m, r), Normalise is the symmetric "
                 "representative, the library's Plaintext*/Nonce* operations equal the model, and every operation run on the secret key "
                 "equals the same operation on the public key. Arbitrary units of Z_{N^2} (not produced by encryption): Decrypt / Open "
                 "against lambda / L-function decryption and N-th-root nonce recovery, and re-encryption gives the unit back. Rejections: "
                 "plaintexts outside [0,N) / the symmetric range, non-unit nonces and ciphertexts (multiples of p, q, N), objects of another "
                 "key (same or other size) in every operation must be errors. ElGamal over k256, p256, edwards25519 prime subgroup, "
                 "BLS12-381 G1 and G2, pallas, vesta: key x class, plaintext g^a P^b with P a hashed point, nonce class incl. 0, the same "
                 "operation sequences; model (a, b, r) in Z_q^3 over math/big, ciphertext must equal (g^r, g^(a+xr) P^b) after every step, "
                 "Decrypt = g^a P^b, sk path = pk path, re-randomisation changes the ciphertext iff the nonce is not the identity. "
                 "Non-trivial: at least one homomorphic operation after the encryption (sequence tests) / every case (other tests); "
                 "distinct = (key flavour and size | group, plaintext class, nonce class, operation-sequence shape with scalar / shift / "
                 "nonce classes)."),
        "assumptions": COMMON_ASSUME + [
            "prime fixtures were generated with openssl and re-checked with math/big; keys are built by the library's constructors, its key generators are not exercised here (C17)",
            "conversions between math/big and num.{Nat,NatPlus,Int} / curve scalars go through big-endian bytes and are guarded by round-trip checks; they are the subject of C17 / C14",
            "ElGamal: the library's curve arithmetic evaluates g^e P^f for the model's exponents (curve arithmetic is C14); group orders are typed in from the standards",
        ],
        "quick": {"scale": 1, "shards": 16, "timeout_s": 1200},
        "thorough": {"scale": 12, "shards": 16, "timeout_s": 3600},
    },
    # temporary entry added by the C17 builder (lead: replace/adjust as needed)
    "C17": {
        "pkg": "c17",
        "level": "exploration",
        "rule": ("big-number arithmetic, differential against math/big: per case ONE drawn operation of numct.Nat / numct.Int / "
                 "numct.Modulus (every exported arithmetic, comparison, bit/byte conversion method), num.{Nat,NatPlus,Int,Rat,Uint/ZMod}, "
                 "modular.{SimpleModulus,OddPrimeFactors,OddPrimeSquareFactors} (CRT exponentiation mod pq and p^2q^2, ExpToN, Fermat "
                 "quotients), crt.{Params,ParamsExtended,ParamsMulti}.Recombine/Decompose, znstar RSA and Paillier groups (known/unknown "
                 "order), nt.Jacobi, nt prime generators, cardinal. Operands: drawn bit lengths 0-4096 (2048 for quadratic-cost ops) biased "
                 "to 0, 1, 63-65, 127-129, 255-257, limb boundaries and 2^k+-1, shapes 2^k / 2^k-1 / 2^k+1 / sparse / random; announced "
                 "capacity smaller (value truncated), equal or larger than the true length; explicit capacity arguments -1 / exact / larger / "
                 "smaller; negatives; aliasing out=x, out=y, x=y, all, dirty (previously longer) outputs; moduli 1, 2, 2^k, even, odd prime, "
                 "p^2, pq, odd composite with operands below / equal / above the modulus; primes = next-prime of drawn numbers (math/big) and "
                 "openssl fixtures of 512-1536 bits (ordinary, Blum, safe). Oracle: math/big (Add, Sub, Mul, QuoRem/DivMod by the documented "
                 "rounding, Mod, Exp, ModInverse with ok <=> gcd = 1, Sqrt, GCD, Jacobi, Cmp, BitLen, Bytes round trips, Lsh/Rsh) plus "
                 "inputs-unchanged; modular square roots: returned => squares back, modulo an odd prime returned <=> Euler criterion = 1; CRT: "
                 "Recombine(a mod p_i) = a mod prod p_i; register-machine sequences over three moduli against a model (outputs reused as inputs); "
                 "generated primes: ProbablyPrime(32), exact length, form, p != q, product length. Zero ring inversion verdicts, negative right "
                 "shifts, Int values under truncating capacities and LshCap beyond capacity are recorded, not asserted. Non-trivial: operands "
                 "non-zero (modulus > 1); distinct = distinct (package, op, size class, capacity class, aliasing class, sign class, note)."),
        "assumptions": COMMON_ASSUME,
        "quick": {"scale": 1, "shards": 8, "timeout_s": 600},
        "thorough": {"scale": 10, "shards": 16, "timeout_s": 3600},
    },
    # temporary entry added by the C18 builder (lead: replace/adjust as needed)
    "C18": {
        "pkg": "c18",
        "level": "exploration",
        "rule": ("schemes: hashcom, pedersencom over k256 / p256 / edwards25519 prime subgroup / BLS12-381 G1 / pallas, intcom "
                 "(ring-Pedersen over moduli built from openssl fixture primes, 1024-2048 bit, safe / Blum / ordinary, plus 256-bit keys from the library's own SampleCommitmentKey / SampleTrapdoorKey), indcpacom "
                 "over Paillier (fixture primes; public-key, secret-key and plain view) and ElGamal (k256, ed25519, p256; public / "
                 "secret view). Keys: sampled, ExtractCommitmentKey from a transcript (given or drawn base point), explicit (g,h), "
                 "trapdoor (sampled / NewTrapdoorKey with drawn g and lambda) and Export(). Per case: key kind, message class "
                 "(empty / 1 B / block boundary / long; field 0, 1, q-1, 2^k, unreduced; integers 0, +-1, +-2^k, +-N+d, large), "
                 "witness class (Commit-sampled or 0 / 1 / -1 / 2^k / drawn), then ONE change of message, witness, key or "
                 "commitment (bit flip, +-1, negation, other value, other generator, swapped generators, other modulus, other valid "
                 "commitment, re-encoded element). Oracle: the committed triple opens under every view of the key; a change that "
                 "is semantic (decided on math/big values / element equality, e.g. changing g alone only when m != 0) makes Open "
                 "return an error; a re-encoded equal element still opens. Equivocation: Equivocate(m,w,m') opens the same "
                 "commitment to m' under Export(), w' != w iff m' != m, and neither mixed pair opens. Homomorphism: drawn "
                 "sequences of 1-6 operations (Op in both orders and with 3 operands, self-Op, OpInv, ScalarOp incl. 0 / 1 / -1 / "
                 "2^k / q-1 / N+-1 / negative, Shift, ReRandomise) applied in parallel to message, witness and commitment; after "
                 "every step the commitment opens to the tracked pair under every view and equals CommitWithWitness of it. "
                 "Transcript keys: drawn history of 0-5 operations and ONE of 15 edits (label, label suffix, name, extra append / "
                 "empty append / separator / extraction, message bit, extra empty message, operation label, separator tag, drop, "
                 "swap, re-split label|message) or none / Clone: keys equal iff no edit; Pedersen h != g, != identity, torsion-free. "
                 "Non-trivial: a negative case (semantic change or rejected re-encoding), an operation sequence of length >= 2, an "
                 "equivocation, an edited transcript pair; distinct = (scheme, group / modulus size and prime kind, key kind or "
                 "view, change kind or operation-sequence shape incl. scalar classes or edit, message class, witness class)."),
        "assumptions": COMMON_ASSUME + [
            "whether a single change is semantic is decided from the documented shape of each scheme (which generator carries the "
            "message, injectivity of (m,r) -> ciphertext); collisions of BLAKE2b, discrete-log coincidences and exponent differences "
            "that are multiples of a hidden group order are treated as impossible",
            "the homomorphism laws are checked as relations between the library's own Message/Witness/Commitment operations (stated "
            "metamorphic relation), not against an independent formula",
        ],
        "quick": {"scale": 1, "shards": 8, "timeout_s": 600},
        "thorough": {"scale": 10, "shards": 16, "timeout_s": 3000},
    },
    "C19": {
        "pkg": "c19",
        "level": "exploration",
        "rule": ("transcripts: a drawn history of 1-8 labelled operations (domain separator / append with 0-4 messages / "
                 "extract) plus ONE drawn edit out of 14 classes (re-split label|message, re-split / merge messages, insert "
                 "empty message, move a message across two appends, swap, drop, duplicate, change length / label / separator, "
                 "insert an earlier extraction, strict prefix, flip a message bit); oracle: equal histories give equal outputs, "
                 "structurally different histories differ in EVERY extraction after the edit (first 16 bytes compared); clones "
                 "equal a fresh transcript with the same history and never affect the original. hash-to-curve: drawn (curve, "
                 "message class, DST class): deterministic, DST-dependent, on curve and of prime order in an independent "
                 "math/big curve model, RFC 9380 vectors. Non-trivial: history of >= 3 operations with >= 1 compared later "
                 "extraction, resp. a non-empty message or non-default DST; distinct = distinct (edit class, length, "
                 "compared count) resp. (curve, message class, DST class, message hash)."),
        "assumptions": COMMON_ASSUME,
        "env": {"GOMAXPROCS": "2", "GOGC": "400"},
        "quick": {"scale": 1, "shards": 16, "timeout_s": 600},
        "thorough": {"scale": 12, "shards": 16, "timeout_s": 2400},
    },
    # temporary entry added by the C20 builder (lead: replace/adjust as needed)
    "C20": {
        "pkg": "c20",
        "level": "exploration",
        "rule": ("scalar fields of k256, p256, edwards25519, pallas, BLS12-381 (drawn per case); every library result is recomputed "
                 "in vlib/refmat (plain Gaussian elimination, Horner, falling-factorial derivatives, Lagrange/Newton formulas on "
                 "math/big; self-tested by brute force over F_7/F_11 and Leibniz determinants) on values read out through Bytes(). "
                 "Polynomials: 1-9 coefficients incl. zero leading ones / monomials / zero polynomial; Eval, Degree, iterated "
                 "Derivative, LiftPolynomial(.., k*G).Eval vs lift of the reference value. Interpolation: 1-8 distinct unsorted nodes "
                 "mixing 0, small IDs, IDs up to 2^64-1 (via FromUint64), near-p and uniform elements, evaluation point 0 / a node / "
                 "small / uniform; lagrange.InterpolateAt, BasisAt, InterpolateInExponentAt, vandermonde.Interpolate and "
                 "BuildVandermondeMatrix recover the drawn polynomial; repeated nodes (consistent / inconsistent values) and length "
                 "mismatches as negative cases. Birkhoff: k <= 7 nodes laid out like the hierarchical access structure (1-3 levels, "
                 "strictly increasing thresholds, order of a level = previous threshold, cumulative counts >= thresholds), ordered "
                 "small / spread / arbitrary / field-sized identifiers, plus unqualified, no-order-0, repeated-node and free-order "
                 "patterns; regularity decided by the reference determinant: regular => Interpolate and InterpolateInExponent return "
                 "exactly the polynomial (coefficients, Eval), singular => error or an answer meeting every interpolation condition. "
                 "Matrices: shapes 1-7 x 1-7 (0 is refused by the constructors: checked as an error), constructed rank: product of "
                 "r x k and k x c factors with entries from {0,+-1,+-2} / mixed / uniform, zero, all-small, uniform, then up to two "
                 "edits (duplicate / zero / scaled row, duplicate / zero column, row swap, zero pivot); right-hand sides: zero, M*x0, "
                 "perturbed M*x0, unit, drawn. Oracle for SolveRight/SolveLeft: a solution is returned IFF the reference rank test "
                 "says one exists, and any returned solution satisfies the equation (never compared with the reference solution). "
                 "Determinant, TryInv (error iff det = 0), TryMul, Transpose, Minor, Augment, Stack, AsSquare equal the reference; "
                 "Lift / LeftAction / RightAction entries equal the library ScalarBaseOp of the reference product; dimension "
                 "mismatches must be errors, not panics. Non-trivial: >= 2 nodes / coefficients / a system with r+c >= 3 / n >= 2; "
                 "distinct = (field, operation, shape, rank class incl. deficient / over- / under-determined, consistency class) "
                 "resp. (field, mode, node-class mix, polynomial class, point class) resp. (field, mode, layout, regularity, k)."),
        "assumptions": COMMON_ASSUME + [
            "group-valued results are compared with the library's own ScalarBaseOp/Equal applied to the reference scalar (curve arithmetic is C14)",
            "scalar-field orders are typed in from SEC 2, FIPS 186-4, RFC 8032, the Pasta and BLS12-381 specifications",
        ],
        "quick": {"scale": 1, "shards": 8, "timeout_s": 600},
        "thorough": {"scale": 12, "shards": 16, "timeout_s": 2400},
    },
    # temporary entry added by the C05 builder (lead: replace/adjust as needed)
    "C05": {
        "pkg": "c05",
        "level": "exploration",
        "rule": ("Feldman and Pedersen VSS (drawn) over a drawn access structure of the five families (threshold, unanimity, CNF, "
                 "hierarchical, threshold-gate trees; n <= 5; non-ideal CNF / gate structures in which a holder owns several MSP rows), a "
                 "drawn holder->ID map (ordinal / sparse / up to 2^64-1), a drawn group (k256, p256, edwards25519 prime subgroup, pallas, "
                 "BLS12-381 G1 and G2), k in 1..4 dealings from vlib.NewPRNG seeds (secret 0 / 1 / q-1 / drawn / DealRandom; optionally one "
                 "all-zero dealing) combined with VerificationVector.Op and Share.Add. Oracle (math/big, from the MSP matrix read entry by "
                 "entry and the dealer's revealed column r): a presented (ID, value vector[, blinding vector]) is accepted by Verify (and "
                 "mpc.NewBaseShard, ReconstructAndVerify) IFF the ID is a holder's and the vectors equal M_i.r of the (summed) committed "
                 "column(s). Alterations: a coordinate +1 / random / zero / negated, coordinates swapped, length -1 / +1, another holder's "
                 "ID with this value, that holder's own value, an unknown ID, the share of another dealing / of the combination, Pedersen "
                 "blinding altered / swapped with the secret / length mismatch. A replaced vector entry j (random point, identity, "
                 "another entry, +G, negated, doubled) must be rejected exactly by the holders with a non-zero coefficient in column j of "
                 "their rows and still accepted by the others; a vector of length != D (truncated, extended by identity / random point, "
                 "front-extended, doubled; also CBOR-decoded) must be refused by NewVerificationVector(.., msp) and accepted nowhere "
                 "(Verify, NewLiftedDealerFunc, NewBasePublicMaterial, NewBaseShard, ReconstructAndVerify, Op) without a panic. "
                 "ReconstructAndVerify over drawn qualified sets returns the secret; ReconstructInTheExponent of public shares equals V[0] "
                 "= library ScalarBaseOp(secret). Plus a completely enumerated small scope on k256. Non-trivial: every case with an "
                 "expected rejection and every k >= 2 case; distinct = (scheme, family, canonical policy, group, alteration kind, k, "
                 "holder-has-several-rows)."),
        "assumptions": COMMON_ASSUME + [
            "group elements are compared with the library's Equal and built with its ScalarBaseOp / ScalarOp / Op (curve arithmetic is another property)",
            "the access-structure -> MSP construction is taken as given (its matrix is read entry by entry; which sets it accepts is C02)",
            "Pedersen: the second generator is sampled by pedersencom.SampleCommitmentKey from a seeded stream; no alteration uses its discrete logarithm",
        ],
        "quick": {"scale": 1, "shards": 12, "timeout_s": 900},
        "thorough": {"scale": 10, "shards": 16, "timeout_s": 3600},
    },
    # temporary entry added by the C11 builder (lead: replace/adjust as needed)
    "C11": {
        "pkg": "c11",
        "level": "exploration",
        "rule": ("router: a rapid state machine over ONE router whose transport is owned by the property (2-5 members, 2-5 exchanges "
                 "drawn from 20 (namespace chain, correlation id) pairs that are prefixes of each other / concatenate identically "
                 "without the separator; no honest id contains '/'); actions: send by a member (through real peer routers or the "
                 "router's own SendTo), deliver in-flight message k (any order), back-to-back bursts, identical duplicate, conflicting "
                 "duplicate (hand-encoded CBOR, same sender + wire id, other payload of same / other length), injection from a "
                 "non-member or under an id nobody receives, receive (subset of senders, rarely a non-member or nobody) started "
                 "before or after the deliveries, cancel, cancel racing with a delivery, retry, close, receive after close. The "
                 "reader re-entering Delivery.Receive is the exact deposit signal; a reference mailbox model (keyed by components, "
                 "not by concatenation) decides after every step which receives must have completed (waited for with a bound of "
                 "max(30 s, 200 x slowest honest receive): reaching it = lost wake-up) and with what (first payload per sender / "
                 "ErrDuplicateMessage blaming a conflicting sender / context error / ErrRouterClosed), and that all others are still "
                 "pending; at the end everything in flight is delivered and every cancelled receive retried (nothing lost). Plus "
                 "wake-up stress (two interleaved ids, back-to-back deposits with drawn tiny delays), buffer accounting (> 10 000 "
                 "dropped / absorbed / consumed messages with < 10 000 outstanding never fail the router), all pairs of the alphabet "
                 "have distinct wire ids. echo broadcast: n = 3-5 over the shared switch, one equivocating sender played in the "
                 "interceptor (per-recipient round-1 versions incl. undecodable, conflicting retransmissions, altered echoes), drawn "
                 "delivery permutation and identical retransmissions: no two honest parties return different payloads for a sender, "
                 "honest senders' payloads are exact, honest-only runs all succeed. runners: session setup, agree-on-random, Gennaro, "
                 "Canetti (k256, threshold policies, n = 2-4) through Runner.Run under drawn delivery permutations and identical "
                 "retransmissions: all complete, session ids / samples agree, C03 key-material oracle. Non-trivial: >= 2 correlation "
                 "ids in flight concurrently and a reordering, duplicate, conflict or cancel (router); an equivocator, reordering or "
                 "retransmission (echo, runners); distinct = abstracted action string (first 28 action kinds) resp. (n, api, split "
                 "pattern, echo alteration, shuffle, duplication) resp. (protocol, n, t, duplication rate, namespaced)."),
        "assumptions": COMMON_ASSUME + [
            "each correlation identifier is used for one exchange (one ReceiveFrom, retried only after a cancellation); fewer than 10 000 undelivered messages are outstanding",
            "goroutine interleavings inside the router are sampled by the Go scheduler (perturbed by drawn yields / spins), not enumerated; liveness is checked as bounded waiting",
        ],
        "quick": {"scale": 1, "shards": 8, "timeout_s": 900},
        "thorough": {"scale": 8, "shards": 16, "timeout_s": 3600,
                     "extra_variants": [{"name": "race", "race": True, "shards": 8, "env": {"VERIF_SCALE": "1"}}]},
    },
    # temporary entry added by the C10 builder (lead: replace/adjust as needed)
    "C10": {
        "pkg": "c10",
        "level": "exploration",
        "rule": ("session setup: quorum of 2-7 parties, identifiers drawn unsorted in three regimes (ordinal permuted / sparse <= 64 / "
                 "large incl. 2^32+-1, 2^63, 2^64-1), one PRNG seed per party; run (i) round by round with every message through "
                 "serde CBOR or (ii) with session.NewSessionRunner over the harness switch; a PARALLEL session over the same "
                 "quorum in which all parties - or exactly one party - use fresh randomness. Oracle (comparisons only, nothing is "
                 "recomputed): equal SessionID and transcript output (also after identical appends) for all parties, pairwise seed "
                 "streams symmetric (first 64 bytes), all pair seeds / transcript outputs of the session, the parallel session and "
                 "every sub-context pairwise different; SubContext for ALL sub-quorums of size >= 2 (n <= 5; 4-8 drawn ones for "
                 "n = 6, 7; members list the sub-quorum in different orders) agrees between members, one nested derivation; "
                 "przs.SampleZeroShare over the full quorum (k256 points and scalars, p256, ed25519 prime subgroup, BLS12-381 "
                 "scalars and G1; library group law) and over every sub-quorum (drawn group) sums to the identity, is not all "
                 "identity, is reproducible, differs between the sessions; parents unchanged by derivations. Faults: runner API, "
                 "ONE deviator whose message of one round is altered on the wire: every leaf of every message type (7 leaves) x "
                 "{bit flip, all-zero, replace by the same / another field of the parallel session, of another sender (reflected "
                 "for two parties), of the message for another recipient}; unicast for one drawn recipient, broadcast identically "
                 "in every copy. Oracle: no panic / hang, honest parties blame nobody but the deviator, completed honest parties "
                 "agree (incl. zero shares of their sub-context); for the leaves bound by a commitment (Round2Broadcast, "
                 "Round2P2P, Round3P2P) the recipient - for a broadcast every honest party with a verdict, at least one - rejects "
                 "with an error that blames the deviator and outputs no context; Round1Broadcast leaves are fresh choices of the "
                 "sender: only consistency is required. Non-trivial: every case (each contains sub-quorum and zero-share checks, "
                 "or a fault); distinct = (API, n, ID regime, parallel mode, group, sub-quorum shape) resp. (n, ID regime, message "
                 "type, leaf, operator)."),
        "assumptions": COMMON_ASSUME + [
            "zero shares are added with the library's own group law (curve and field arithmetic are C14/C15)",
            "hash collisions (BLAKE2b-256, SHA3, cSHAKE256) do not occur among the drawn cases",
            "a party that sends nothing for 3 s while another party has finished is waiting for a message that will never come (no verdict)",
        ],
        "quick": {"scale": 1, "shards": 16, "timeout_s": 600},
        "thorough": {"scale": 10, "shards": 16, "timeout_s": 3000},
    },
}

PROPS["C01"] = {
    "pkg": "c01",
    "level": "exploration",
    "rule": ("drawn (protocol in {Lindell22 x {BIP-340, Mina, configurable Schnorr over k256/p256/ed25519/pallas x 3 hashes x sign x "
             "endianness}, DKLs23 x {BBOT, SoftSpoken}, Lindell17, Boldyreva, CGGMP21} x key generation in {trusted dealer, Gennaro, "
             "Canetti, protocol dealers} x access policy from an independent model of the five families (non-ideal CNF / gate trees "
             "included) x shareholder-ID regime {ordinal, sparse<=64, large<=2^64-1} x qualified quorum (minimal or with extra members) "
             "x message class x NIZK compiler x per-party seeds); every run goes through the protocols' network runners over a "
             "harness-owned Delivery (messages pass through CBOR); oracle: run terminates, all aggregators/parties obtain the same "
             "signature, the library verifier accepts, and an independent verifier (crypto/ecdsa, math/big curve model: textbook ECDSA, "
             "BIP-340 from the BIP text, Schnorr group equation) accepts for this message and rejects another. Non-trivial: structure "
             "is not threshold(2,3) with ordinal IDs, or the quorum is non-minimal; distinct = (protocol variant, family, policy, ID "
             "regime, keygen, minimality, message class)."),
    "assumptions": COMMON_ASSUME + ["Paillier-based protocols run with 1024-2048-bit fixture/test keys (key-size floors are disabled inside test binaries)",
                                    "Mina signatures are judged by the library verifier only (no independent Poseidon implementation offline)"],
    "quick": {"scale": 1, "shards": 16, "timeout_s": 1500},
    "thorough": {"scale": 6, "shards": 16, "timeout_s": 7200},
}

PROPS["C03"] = {
    "pkg": "c03",
    "level": "exploration",
    "rule": ("drawn (key generation in {trusted dealer, Gennaro x {Fiat-Shamir, Fischlin, randomised Fischlin}, Canetti} x policy of "
             "the five families x ID regime x group in {k256, p256, ed25519 prime subgroup, pallas, vesta, BLS12-381 G1, G2} x per-party "
             "seeds), run through the network runners over a harness Delivery; oracle: every party ends with the same public key, "
             "verification vector, span programme and public shares; each private share lifts to its public share; for EVERY subset of "
             "holders: qualified <=> reconstructs one secret s with [s]G = pk (and reconstruction in the exponent gives pk), unqualified "
             "=> error; shards survive encode/decode byte-identically; public keys never repeat across the campaign and change when one "
             "party's random stream changes. Non-trivial: n >= 3 or non-threshold family; distinct = (keygen, family, policy, ID regime, group)."),
    "assumptions": COMMON_ASSUME,
    "quick": {"scale": 1, "shards": 16, "timeout_s": 1500},
    "thorough": {"scale": 6, "shards": 16, "timeout_s": 7200},
}

# temporary entry added by the C15 builder (lead: replace/adjust as needed)
PROPS["C15"] = {
    "pkg": "c15",
    "level": "exploration",
    "rule": ("per case: scheme/variant x curve/hash x key class {drawn, 1, 2, order-1, library KeyGen} x message class {empty where "
             "allowed, 1 B, block-boundary lengths 55/56/63/64/65/111/112/128, long <= 4 KiB, all-zero, all-0xff} x ONE alteration of one "
             "component. ECDSA (k256, p256, pallas, vesta x SHA-1/224/256/384/512, SHA3-256, BLAKE2b-256; RFC 6979 on P-256): sign -> "
             "library verify and the textbook equation + SEC 1 recovery in the math/big curve model (and crypto/ecdsa on elliptic.P256()) "
             "accept; the documented equivalence class {(r,s,v), (r,n-s,v^1), both without v} is accepted by the default verifier and "
             "exactly its low-S members by VerifyNonMalleably; Normalise (low-S, v adjusted, idempotent, validity kept); RecoverPublicKey for "
             "both forms; 19 alteration classes of message / r / s / v / key (with and without v) rejected by all verifiers; differential: "
             "(r,s,v) made in the reference model (edge nonces, mismatched key / message, edge and random pairs) get the same verdict from "
             "library, model and crypto/ecdsa. BIP-340: library signature == reference signer of the BIP text, verdict == reference verifier "
             "on 25 wire- and object-level alteration classes, BatchVerify on 1-5 triples. Configurable Schnorr over k256 / p256 / pallas / "
             "vesta / edwards25519 prime subgroup / BLS12-381 G1 x 5 hashes x sign x byte order x parity callback: challenge recomputed as "
             "H(enc(R) || enc(P) || m) with independent point encoders, group equation in the model, 20 alteration classes incl. a forgery "
             "that relies on a supplied challenge. Mina: group equation in the model with the library's Poseidon challenge, even-y R, wire "
             "round trip, 20 alteration classes modulo ROInput packing. BLS short / long keys x {Basic, MessageAugmentation, POP}: pk = [sk]G, "
             "sig = [sk]H(m), PoP and aggregation recomputed in the model byte for byte; verdict expected by construction == harness "
             "recomposition of CoreVerify / PopVerify / CoreAggregateVerify (draft DSTs typed in, library pairing) == library, for single "
             "signatures (17 classes incl. identity key / signature, key + cofactor-torsion point, PoP under the message DST, DST and "
             "mode mismatch) and aggregates of 1-6 signers x {distinct, equal, one duplicate message} x 18 classes (dropped / foreign "
             "signer, identity / out-of-subgroup key, swapped keys or messages, wrong / missing proofs, duplicate message under Basic), "
             "BatchSign / AggregateSign. Pinned vectors: BIP-340 (19), RFC 6979 A.2.5 (10), o1js Mina legacy (18), Ethereum BLS (54). "
             "Non-trivial: every altered case and every aggregate; distinct = (scheme, variant, curve, hash, alteration class, signer count)."),
    "assumptions": COMMON_ASSUME + [
        "vlib/refcurve (math/big curve model, textbook ECDSA, BIP-340 from the BIP text, point encoders) is the independent verifier; the library's Pasta curves use the Mina generators (1, y), typed in from the Mina documentation",
        "Mina: no independent Poseidon - the challenge is the library's, the group equation and the published o1js vectors are independent",
        "BLS: no second pairing or BLS12-381 hash-to-curve offline - verdicts are expected by construction and cross-checked by a harness recomposition that uses the library's HashWithDst and MultiPair (C19 / C14 own those); scalar multiplications, encodings and aggregation are recomputed in the model",
    ],
    "env": {"GOMAXPROCS": "2", "GOGC": "400"},
    "quick": {"scale": 1, "shards": 16, "timeout_s": 900},
    "thorough": {"scale": 10, "shards": 16, "timeout_s": 5400},
}

# temporary entry added by the C06 builder (lead: replace/adjust as needed)
PROPS["C06"] = {
    "pkg": "c06",
    "level": "exploration",
    "rule": ("rapid state machine (t.Repeat) over histories of 3-6 (thorough 3-12) drawn actions on one key: the model knows the secret s "
             "(reconstructed once from the initial trusted dealing and confirmed to be the discrete logarithm of the public key, in the "
             "library group and in the math/big curve model), the public key, the current policy / holder IDs / shards and an archive of "
             "every epoch's shards. Actions: refresh (prev = all holders or a drawn qualified subset driving; the others as next-only "
             "parties), recover (a drawn dispensable holder takes part without a previous shard; prev = all others or a qualified subset "
             "of them), redistribute (new policy of any of the five families, n <= 5 (7), over a holder set that is the same / extended / "
             "shrunk / overlapping / disjoint, fresh IDs ordinal / sparse / up to 2^64-1, hierarchical IDs level-ordered inside the "
             "documented Tassa bound; prev = all or a qualified subset; trusted anchor off / on / per newcomer, anchor drawn from prev), "
             "sign (drawn qualified quorum of the CURRENT structure, Lindell22 BIP-340 / Mina / configurable Schnorr or DKLs23-SoftSpoken, "
             "judged under the ORIGINAL key by the library verifier and the independent one: BIP-340 of the BIP text, Schnorr group "
             "equation, textbook ECDSA / crypto/ecdsa), mix (a set qualified by the policy assembled from two epochs of the same "
             "structure, neither part qualified alone, tries to sign), stale (a refresh / redistribution in which 1..|prev|-1 of the "
             "driving holders use their shard of an EARLIER epoch of the same structure: any party may abort, but a next holder that "
             "completes must hold the ORIGINAL key and a share matching its public share, and if all complete the full invariant must "
             "hold), reload (CBOR round trip of all current shards; continue with the decoded ones). Every protocol run of a history has "
             "its own random tapes (drawn seed + run ordinal). All runs go through the network runners over the harness Delivery. Invariant after every epoch change: every "
             "party finishes without error, every next holder has a shard with its own ID, the ORIGINAL public key, the same "
             "verification vector / span programme / public shares as the others; private share lifts to its public share; for EVERY "
             "subset of holders: qualified <=> Reconstruct == s exactly and reconstruction in the exponent == pk, unqualified => error; "
             "for EVERY (Q, A) with Q qualified and neither A nor Q\\A qualified: shares of A from an earlier epoch of the same structure "
             "plus shares of Q\\A from the current one fail to reconstruct or give a value != s; mixed-epoch signing never yields a valid "
             "signature. A history without a signature ends with one on the final shards. Non-trivial: >= 2 epoch changes and >= 1 "
             "signature or mix check; distinct = sorted multiset of (action, old family > new family, anchor flag, prev all/subset | "
             "signer kind, family) + length."),
    "assumptions": COMMON_ASSUME + [
        "a full quorum of an OLD epoch still works by design (README: shares are not erased) - nothing is asserted about it; only sets that need shares of two epochs are claimed not to combine",
        "a mixed-epoch set reconstructing s by chance is a 1/q event and treated as impossible",
        "mixed-epoch signing and stale-shard epoch changes: any failure (constructor, run, aggregation, verification) is accepted; parties that send nothing for 4-5 s are cancelled without a verdict",
        "two protocol runs never share a random tape (re-running a refresh on the same tapes with the same drivers re-deals the same sharing; that is randomness reuse by the caller, not a defect)",
        "Mina signatures are judged by the library verifier only (no independent Poseidon implementation offline); vesta and BLS12-381 G1/G2 have no threshold signing protocol, their histories are judged by reconstruction only",
    ],
    "quick": {"scale": 1, "shards": 16, "timeout_s": 1500},
    "thorough": {"scale": 7, "shards": 16, "timeout_s": 7200},
}

# temporary entry added by the C07 builder (lead: replace/adjust as needed)
PROPS["C07"] = {
    "pkg": "c07",
    "level": "exploration",
    "rule": ("every protocol with a network runner (session set-up, agree-on-random, Gennaro and Canetti DKG over threshold and CNF "
             "policies, HJKY zero sharing, redistribution as refresh and as change of policy, Lindell22 as BIP-340 / Mina / "
             "configurable Schnorr with 2 and 3 signers, DKLs23 with both multipliers, Lindell17 signing, CGGMP21 signing on fixture aux info - P1/P3/P7 only, it reads its reader concurrently) run over the harness "
             "switch on FIXED key material, with the session seed (3 values) and the message (3 values) reused on purpose and one "
             "SHAKE stream per party as the only randomness. Per case a party position i and fresh stream seeds are drawn; every "
             "scenario x every sampling position is also enumerated. P1: changing ONLY party i's stream changes the messages of i's "
             "first sending round and every joint random value (signature R / r, DKG public key and all shares, session id, "
             "agreed random value, zero shares, all redistributed shares while the public key stays). P2: it does not change the "
             "opening-round messages of the other parties (only for scenarios whose first messages were identical in 60 "
             "identical-stream runs). P3: a process-wide seen-set per scenario - no first-round message, R, r, public key, share or "
             "session id repeats between runs whose streams differ. P4: the party's total byte consumption is measured, then its "
             "reader fails after 0 / need-1 / need/2 / a drawn fraction of it: the party must end with an error (constructor or "
             "run), never a panic, never an output. P5: identical streams give identical wire logs (multiset of from, to, round, "
             "body), outputs and byte counts for the scenarios frozen as sequential (all but Gennaro, whose batch proofs read the "
             "reader from several goroutines). P6: every sampling party reads > 0 bytes of ITS reader (counts reported). "
             "Oblivious transfer (ecbbot, VSOT, SoftSpoken extension; driven round by round, bytes counted PER ROUND): P1/P2/P3/P5/P6 "
             "as above and P4 aimed at one consuming round - the error must surface in exactly that round. "
             "Samplers outside protocols: KW / Feldman / Pedersen dealing (same stream => same shares; other stream => every "
             "holder's share differs; starved => error), hash and Pedersen commitments, Paillier and ElGamal encryption, ElGamal / "
             "Blum / safe-prime / ring-Pedersen key generation (RSA-style prime generation is the catalogued finding "
             "C07-prime-generation-ignores-reader and is excluded); Boldyreva BLS partial signatures as the deterministic control. Non-trivial: every case (the two streams "
             "differ by construction and every scenario is randomised); distinct = (scenario, party position, check kind, starvation mode)."),
    "assumptions": COMMON_ASSUME + [
        "the harness random source is a mutex-protected SHAKE256 stream per party; a 2^-128 coincidence of two sampled values is treated as impossible",
        "the lists of scenarios admitted to P2 / P4-completion / P5 are measured on the unchanged tree (60 identical-stream runs each, all agreeing) and frozen in c07/calibrate_test.go",
    ],
    "quick": {"scale": 1, "shards": 16, "timeout_s": 1200},
    "thorough": {"scale": 8, "shards": 16, "timeout_s": 7200},
}

PROPS["C04"] = {
    "pkg": "c04",
    "level": "fault_enumeration",
    "rule": ("fault space = protocol scenario (session, AOR, Gennaro and Canetti over threshold and CNF structures, redistribution refresh / "
             "to-unanimity / anchored / hand-over to a disjoint anchorless holder set, Lindell22 BIP-340 with 2 and 3 signers, DKLs23 SoftSpoken (BBOT in thorough), Lindell17) x deviator "
             "x outgoing message slot (round, unicast-to-recipient or broadcast) x leaf path class of the message's CBOR tree (nested "
             "encodings such as proofs opened recursively) x operator {bitflip, replace by same-field value of another sender / recipient / "
             "parallel session, swap, zero, int+-1, truncate, extend, replay-other-sender, replay-parallel-session, swap-recipient, drop}; "
             "the deviator's own state stays honest (wire fault); unicast faults hit one recipient, broadcast faults all recipients "
             "identically (through echo broadcast). A case is non-trivial iff the operator applied and changed a decoded value (a re-encoding of the same value, e.g. the two SEC1 spellings of the identity, is a no-op); distinct = "
             "(scenario, round, unicast/broadcast, leaf class, operator, deviator position). Oracles: S1 no panic / no hang, S2 every blamed "
             "identity is the deviator, S3 every output released by honest parties or aggregators passes the output oracle (independent "
             "signature verification, share-vs-public-key consistency, unchanged public key), D a bound leaf's alteration is rejected by the "
             "recipient (unicast) or an honest party (broadcast); free leaves are listed explicitly. TestBoldyrevaPartialFaults: the same operators on every component of a threshold-BLS partial signature (three rogue-key modes, both key sizes, threshold / CNF / gate structures with multi-row holders): the aggregator must reject or release a signature that passes the pairing equation."),
    "assumptions": COMMON_ASSUME + ["single static deviator; wire-level faults only", "the free-list in harness/c04/freelist_test.go (leaves a sender may choose afresh) is part of the trusted base"],
    "quick": {"scale": 1, "shards": 16, "timeout_s": 1500},
    "thorough": {"scale": 8, "shards": 16, "timeout_s": 7200},
}


# native fuzz campaigns in the thorough tier (one per Fuzz* target of the package)
if "C13" in PROPS:
    PROPS["C13"]["thorough"]["fuzz"] = {"targets": "^Fuzz", "fuzztime": "40s"}

# temporary entry added by the C12 builder (lead: replace/adjust as needed)
PROPS["C12"] = {
    "pkg": "c12",
    "level": "exploration",
    "rule": ("one REGISTRY of serialisable types (c12/entries_test.go, gen_test.go): every round message of session, AOR, Gennaro "
             "(k256 x 3 NI compilers, ed25519, BLS12-381 G1), Canetti, redistribute, HJKY, Lindell22 (BIP-340 x 3 compilers), DKLs23 "
             "(SoftSpoken and BBOT, with the ecbbot / SoftSpoken / rvole messages inside), Lindell17 signing (Fischlin, randomised "
             "Fischlin) and DKG, VSOT, echo-broadcast envelopes and the router message (judged by a REAL network.Router), harvested "
             "from honest runs over vlib/netsim and decoded with the type of their round; the proofs inside them under the three "
             "compilers; KW / Shamir / ISN / Pedersen / lifted shares, verification vectors, MSPs, the five access structures "
             "(enumerated policies, three ID regimes), base shards / public material and the Lindell22, DKLs23, Lindell17 (+ auxiliary "
             "info), BLS shards; ECDSA / Schnorr / BLS keys, signatures, PoP, key-agreement keys; hash / Pedersen / IND-CPA commitments, "
             "keys, witnesses; Paillier and ElGamal keys, plaintexts, nonces, ciphertexts (fixture primes through the constructors); "
             "num / numct / modular / znstar values; matrices, polynomials; points, scalars and base-field elements of every curve. "
             "Components are harvested from the produced values by walking them (also through unexported fields). Oracles: (R) encode "
             "twice = same bytes, wire bytes = re-encoding, decode Equal and re-encoded to the same bytes; (M) duplicate key, unknown "
             "field, indefinite-length array / map / byte / text string (also as map key), trailing bytes at up to 4-6 positions per "
             "sample are rejected (bignum tag, removed / foreign tag, non-minimal integers, byte-string field names only recorded); "
             "(V) every (field class x structural operator: null, undefined, missing field, empty array / map / bytes, 0, tag 55799 "
             "wrap, 55799(null)) placement, 20 drawn cbormut mutations per type over a drawn leaf class, 8 drawn raw / truncated / "
             "byte-edited strings and 34 hostile constants per type: no panic, an accepted object satisfies the validity rules written "
             "from its constructor (walked recursively; curve membership judged by vlib/refcurve), re-encodes, decodes again to the "
             "same encoding; (F) Paillier keys / Lindell17 material with sub-floor moduli are refused and a 3072-bit key accepted by a "
             "separately built non-test program. Fuzz targets FuzzDecode_<family> run over their seed corpus. Non-trivial: the altered "
             "bytes are still well-formed CBOR, or an R / M case of a composite type; distinct = (type, oracle, operator, field class)."),
    "assumptions": COMMON_ASSUME + [
        "vlib/cbormut (own CBOR reader / writer) produces the malformed and altered encodings; vlib/refcurve is the independent curve model for point validity",
        "validity rules are as complete as the reading of each constructor (c12/valid_test.go names the constructor behind every rule); types without a constructor (plain message structs) are valid iff their components are",
        "catalogued decoder deviations (known_findings.json, c12/pinned_test.go) are excluded per (type, operator group, failure kind) while they are still observed",
    ],
    "env": {"GOMAXPROCS": "2", "GOGC": "400"},
    "quick": {"scale": 1, "shards": 16, "timeout_s": 1800},
    "thorough": {"scale": 6, "shards": 16, "timeout_s": 7200},
}

if "C12" in PROPS:
    PROPS["C12"]["thorough"]["fuzz"] = {"targets": "^FuzzDecode_", "fuzztime": "30s"}

# thorough tiers bounded so that the whole thorough sweep completes within a session
PROPS["C08"]["thorough"].update({"scale": 4, "timeout_s": 7200})
PROPS["C04"]["thorough"].update({"scale": 5})

# Size tails added by the generator size audit (DESIGN 12.7): appended to the rules so that the
# evidence states the ranges that are actually generated.
_TAILS = {
    "C20": " Size tails (low weight): interpolation nodes up to 33, polynomial coefficient counts up to 65, Birkhoff k up to 16 with up to 5 levels, matrix dimensions up to 24, lifted dimensions up to 17.",
    "C02": " Size tails (low weight): 9-17 holders (33 for Shamir / additive / Tassa), up to 5 levels, gate fan-in up to 9, up to 10 CNF clauses; Tassa admission n up to 24 (k = 19..21 cross the library's cut); subsets are sampled instead of enumerated above 12 holders.",
    "C05": " Size tails (low weight): up to 12 holders and up to 9 dealings on the fast groups.",
    "C17": " Size tails (low weight): CRT with up to 17 factors, decomposition arguments of 4095-5000 bits (the parallel switch), multi-base exponentiation with up to 17 bases.",
    "C19": " Size tails (low weight): labels / messages of 135-4096 bytes (rate and length-prefix boundaries), up to 257 parts per append, histories of up to 33 operations, hash_to_field counts up to 32.",
    "C16": " Size tails (low weight): homomorphic combinations of up to 17 operands, sequences of up to 16 steps, Paillier batches of up to 33 items.",
    "C15": " Size tails (low weight): BIP-340 batch verification of up to 300 triples (window-width boundaries of the multi-scalar multiplication), BLS aggregates of up to 12 signers, same-key batches of up to 16.",
    "C09": " Size tails (low weight): base OT with xi up to 264 and L up to 33, SoftSpoken xi up to 2048, transposition of up to 520 rows, rVOLE l up to 16 (BBOT variant up to 5).",
    "C01": " Size tail (low weight): threshold quorums over 8-16 dealt holders for Lindell22 and Boldyreva.",
    "C03": " Size tail (low weight): threshold key generation with 8-10 parties (dealer, Gennaro-FS, Canetti).",
    "C10": " Quorum sizes 2-7 and a tail of 8-16.",
    "C14": " Multi-scalar multiplication lengths up to 512 (window widths 8/9/10).",
    "C08": " Composition arities up to 9, batch sizes up to 9.",
}
for _k, _v in _TAILS.items():
    if _k in PROPS and _v not in PROPS[_k]["rule"]:
        PROPS[_k]["rule"] = PROPS[_k]["rule"] + _v

# cheap properties explore deeper in the thorough tier (each still a few minutes)
PROPS["C17"]["thorough"].update({"scale": 50})
PROPS["C19"]["thorough"].update({"scale": 50})
PROPS["C02"]["thorough"].update({"scale": 16})
