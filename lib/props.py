# Per-property configuration of the ./check driver: harness package, evidence level, the
# generation / non-triviality rule quoted in the evidence, tier sizes.
COMMON_ASSUME = [
    "the repository is built with -tags purego (BoringSSL is not available in the sandbox)",
    "math/big, crypto/* and golang.org/x/crypto of the Go toolchain are trusted as reference implementations",
    "pgregory.net/rapid v1.3.0 generates and shrinks the cases; a run is a function of VERIF_SEED",
]

PROPS = {
    "C19": {
        "pkg": "c19",
        "level": "exploration",
        "rule": ("transcripts: a drawn history of 1-8 labelled operations (domain separator / append with 0-4 messages / "
                 "extract) plus ONE drawn edit out of 14 classes (re-split label|message, re-split / merge messages, insert "
                 "empty message, move a message across two appends, swap, drop, duplicate, change length / label / separator, "
                 "insert an earlier extraction, strict prefix, flip a message bit); oracle: equal histories give equal outputs, "
                 "structurally different histories differ in EVERY extraction after the edit (first 16 bytes compared); clones "
                 "equal a fresh transcript with the same history and never affect the original. hash-to-curve: drawn (curve, "
                 "message class, DST class): deterministic, DST-dependent, on curve and of prime order in an independent "
                 "math/big curve model, RFC 9380 vectors. Non-trivial: history of >= 3 operations with >= 1 compared later "
                 "extraction, resp. a non-empty message or non-default DST; distinct = distinct (edit class, length, "
                 "compared count) resp. (curve, message class, DST class, message hash)."),
        "assumptions": COMMON_ASSUME,
        "quick": {"scale": 1, "shards": 8, "timeout_s": 600},
        "thorough": {"scale": 12, "shards": 16, "timeout_s": 2400},
    },
    # temporary entry added by the C20 builder (lead: replace/adjust as needed)
    "C20": {
        "pkg": "c20",
        "level": "exploration",
        "rule": ("scalar fields of k256, p256, edwards25519, pallas, BLS12-381 (drawn per case); every library result is recomputed "
                 "in vlib/refmat (plain Gaussian elimination, Horner, falling-factorial derivatives, Lagrange/Newton formulas on "
                 "math/big; self-tested by brute force over F_7/F_11 and Leibniz determinants) on values read out through Bytes(). "
                 "Polynomials: 1-9 coefficients incl. zero leading ones / monomials / zero polynomial; Eval, Degree, iterated "
                 "Derivative, LiftPolynomial(.., k*G).Eval vs lift of the reference value. Interpolation: 1-8 distinct unsorted nodes "
                 "mixing 0, small IDs, IDs up to 2^64-1 (via FromUint64), near-p and uniform elements, evaluation point 0 / a node / "
                 "small / uniform; lagrange.InterpolateAt, BasisAt, InterpolateInExponentAt, vandermonde.Interpolate and "
                 "BuildVandermondeMatrix recover the drawn polynomial; repeated nodes (consistent / inconsistent values) and length "
                 "mismatches as negative cases. Birkhoff: k <= 7 nodes laid out like the hierarchical access structure (1-3 levels, "
                 "strictly increasing thresholds, order of a level = previous threshold, cumulative counts >= thresholds), ordered "
                 "small / spread / arbitrary / field-sized identifiers, plus unqualified, no-order-0, repeated-node and free-order "
                 "patterns; regularity decided by the reference determinant: regular => Interpolate and InterpolateInExponent return "
                 "exactly the polynomial (coefficients, Eval), singular => error or an answer meeting every interpolation condition. "
                 "Matrices: shapes 1-7 x 1-7 (0 is refused by the constructors: checked as an error), constructed rank: product of "
                 "r x k and k x c factors with entries from {0,+-1,+-2} / mixed / uniform, zero, all-small, uniform, then up to two "
                 "edits (duplicate / zero / scaled row, duplicate / zero column, row swap, zero pivot); right-hand sides: zero, M*x0, "
                 "perturbed M*x0, unit, drawn. Oracle for SolveRight/SolveLeft: a solution is returned IFF the reference rank test "
                 "says one exists, and any returned solution satisfies the equation (never compared with the reference solution). "
                 "Determinant, TryInv (error iff det = 0), TryMul, Transpose, Minor, Augment, Stack, AsSquare equal the reference; "
                 "Lift / LeftAction / RightAction entries equal the library ScalarBaseOp of the reference product; dimension "
                 "mismatches must be errors, not panics. Non-trivial: >= 2 nodes / coefficients / a system with r+c >= 3 / n >= 2; "
                 "distinct = (field, operation, shape, rank class incl. deficient / over- / under-determined, consistency class) "
                 "resp. (field, mode, node-class mix, polynomial class, point class) resp. (field, mode, layout, regularity, k)."),
        "assumptions": COMMON_ASSUME + [
            "group-valued results are compared with the library's own ScalarBaseOp/Equal applied to the reference scalar (curve arithmetic is C14)",
            "scalar-field orders are typed in from SEC 2, FIPS 186-4, RFC 8032, the Pasta and BLS12-381 specifications",
        ],
        "quick": {"scale": 1, "shards": 8, "timeout_s": 600},
        "thorough": {"scale": 12, "shards": 16, "timeout_s": 2400},
    },
}
