# Per-property configuration of the ./check driver: harness package, evidence level, the
# generation / non-triviality rule quoted in the evidence, tier sizes.
COMMON_ASSUME = [
    "the repository is built with -tags purego (BoringSSL is not available in the sandbox)",
    "math/big, crypto/* and golang.org/x/crypto of the Go toolchain are trusted as reference implementations",
    "pgregory.net/rapid v1.3.0 generates and shrinks the cases; a run is a function of VERIF_SEED",
]

PROPS = {
    "C19": {
        "pkg": "c19",
        "level": "exploration",
        "rule": ("transcripts: a drawn history of 1-8 labelled operations (domain separator / append with 0-4 messages / "
                 "extract) plus ONE drawn edit out of 14 classes (re-split label|message, re-split / merge messages, insert "
                 "empty message, move a message across two appends, swap, drop, duplicate, change length / label / separator, "
                 "insert an earlier extraction, strict prefix, flip a message bit); oracle: equal histories give equal outputs, "
                 "structurally different histories differ in EVERY extraction after the edit (first 16 bytes compared); clones "
                 "equal a fresh transcript with the same history and never affect the original. hash-to-curve: drawn (curve, "
                 "message class, DST class): deterministic, DST-dependent, on curve and of prime order in an independent "
                 "math/big curve model, RFC 9380 vectors. Non-trivial: history of >= 3 operations with >= 1 compared later "
                 "extraction, resp. a non-empty message or non-default DST; distinct = distinct (edit class, length, "
                 "compared count) resp. (curve, message class, DST class, message hash)."),
        "assumptions": COMMON_ASSUME,
        "quick": {"scale": 1, "shards": 8, "timeout_s": 600},
        "thorough": {"scale": 12, "shards": 16, "timeout_s": 2400},
    },
}
