# Per-property configuration of the ./check driver: harness package, evidence level, the
# generation / non-triviality rule quoted in the evidence, tier sizes.
COMMON_ASSUME = [
    "the repository is built with -tags purego (BoringSSL is not available in the sandbox)",
    "math/big, crypto/* and golang.org/x/crypto of the Go toolchain are trusted as reference implementations",
    "pgregory.net/rapid v1.3.0 generates and shrinks the cases; a run is a function of VERIF_SEED",
]

PROPS = {
    # temporary entry added by the C08 builder (lead: replace/adjust as needed)
    "C08": {
        "pkg": "c08",
        "level": "exploration",
        "rule": ("sigma protocols (Schnorr, batch Schnorr, Okamoto, elcomop, elog, AND / OR compositions of depth <= 2, Paillier and "
                 "CGGMP21 proofs on fixture primes) x compiler (Fiat-Shamir, Fischlin, randomised Fischlin, interactive zk compiler, plain "
                 "interactive sigma) x group x drawn statement/witness x drawn session context: completeness in a clone of the context; the "
                 "same proof bytes rejected under another session id, another transcript state, another prover-id label, another valid "
                 "statement, a statement with one component altered, another compiler or sigma-protocol name; one structure-aware CBOR "
                 "mutation of the proof bytes must be rejected iff the typed decoding changes (same canonical re-encoding => still accepted), "
                 "never a panic; extractor on two honest transcripts with one commitment returns a valid witness; simulated transcripts "
                 "verify; OR proves with exactly one witness (each branch) and refuses with none. Non-trivial: every negative case and every "
                 "completeness case with a drawn context; distinct = (protocol, compiler, composition shape, group, negative-case kind)."),
        "assumptions": COMMON_ASSUME,
        "quick": {"scale": 1, "shards": 16, "timeout_s": 900},
        "thorough": {"scale": 10, "shards": 16, "timeout_s": 7200},
    },
    # temporary entry added by the C16 builder (lead: replace/adjust as needed)
    "C16": {
        "pkg": "c16",
        "level": "exploration",
        "rule": ("Paillier: secret keys built through znstar.NewPaillierGroup / paillier.NewSecretKey from two distinct fixture primes "
                 "(openssl; flavour ord / Blum / safe; N of 1024, 1536, 2048, 3072 bits; ordered pair of drawn indices), public key from N "
                 "alone or sk.Public(); plaintext class {0, 1, N-1, floor(N/2), -floor(N/2), floor(N/2)-1, small, drawn} through a drawn "
                 "constructor (FromNat / Symmetric / Uint); nonce class {1, N-1, 2, drawn unit}; a drawn sequence of 0-8 operations "
                 "{Op with a fresh / the same / an earlier ciphertext, Op with 3-5 operands, OpInv, ScalarOp with scalar class {0, +-1, 2, "
                 "small+-, +-N, N+-1, drawn+-, beyond +-N, about +-N^2}, Shift by a plaintext class, ReRandomise with a nonce class}. "
                 "Oracle: a math/big model (m, r) updated by +, *, negation, modular powers; after EVERY step the ciphertext equals the "
                 "textbook (1+N)^m r^N mod N^2 (both factors by big.Int.Exp), Decrypt = m, Open = (m, r), Normalise is the symmetric "
                 "representative, the library's Plaintext*/Nonce* operations equal the model, and every operation run on the secret key "
                 "equals the same operation on the public key. Arbitrary units of Z_{N^2} (not produced by encryption): Decrypt / Open "
                 "against lambda / L-function decryption and N-th-root nonce recovery, and re-encryption gives the unit back. Rejections: "
                 "plaintexts outside [0,N) / the symmetric range, non-unit nonces and ciphertexts (multiples of p, q, N), objects of another "
                 "key (same or other size) in every operation must be errors. ElGamal over k256, p256, edwards25519 prime subgroup, "
                 "BLS12-381 G1 and G2, pallas, vesta: key x class, plaintext g^a P^b with P a hashed point, nonce class incl. 0, the same "
                 "operation sequences; model (a, b, r) in Z_q^3 over math/big, ciphertext must equal (g^r, g^(a+xr) P^b) after every step, "
                 "Decrypt = g^a P^b, sk path = pk path, re-randomisation changes the ciphertext iff the nonce is not the identity. "
                 "Non-trivial: at least one homomorphic operation after the encryption (sequence tests) / every case (other tests); "
                 "distinct = (key flavour and size | group, plaintext class, nonce class, operation-sequence shape with scalar / shift / "
                 "nonce classes)."),
        "assumptions": COMMON_ASSUME + [
            "prime fixtures were generated with openssl and re-checked with math/big; keys are built by the library's constructors, its key generators are not exercised here (C17)",
            "conversions between math/big and num.{Nat,NatPlus,Int} / curve scalars go through big-endian bytes and are guarded by round-trip checks; they are the subject of C17 / C14",
            "ElGamal: the library's curve arithmetic evaluates g^e P^f for the model's exponents (curve arithmetic is C14); group orders are typed in from the standards",
        ],
        "quick": {"scale": 1, "shards": 16, "timeout_s": 600},
        "thorough": {"scale": 12, "shards": 16, "timeout_s": 3600},
    },
    # temporary entry added by the C17 builder (lead: replace/adjust as needed)
    "C17": {
        "pkg": "c17",
        "level": "exploration",
        "rule": ("big-number arithmetic, differential against math/big: per case ONE drawn operation of numct.Nat / numct.Int / "
                 "numct.Modulus (every exported arithmetic, comparison, bit/byte conversion method), num.{Nat,NatPlus,Int,Rat,Uint/ZMod}, "
                 "modular.{SimpleModulus,OddPrimeFactors,OddPrimeSquareFactors} (CRT exponentiation mod pq and p^2q^2, ExpToN, Fermat "
                 "quotients), crt.{Params,ParamsExtended,ParamsMulti}.Recombine/Decompose, znstar RSA and Paillier groups (known/unknown "
                 "order), nt.Jacobi, nt prime generators, cardinal. Operands: drawn bit lengths 0-4096 (2048 for quadratic-cost ops) biased "
                 "to 0, 1, 63-65, 127-129, 255-257, limb boundaries and 2^k+-1, shapes 2^k / 2^k-1 / 2^k+1 / sparse / random; announced "
                 "capacity smaller (value truncated), equal or larger than the true length; explicit capacity arguments -1 / exact / larger / "
                 "smaller; negatives; aliasing out=x, out=y, x=y, all, dirty (previously longer) outputs; moduli 1, 2, 2^k, even, odd prime, "
                 "p^2, pq, odd composite with operands below / equal / above the modulus; primes = next-prime of drawn numbers (math/big) and "
                 "openssl fixtures of 512-1536 bits (ordinary, Blum, safe). Oracle: math/big (Add, Sub, Mul, QuoRem/DivMod by the documented "
                 "rounding, Mod, Exp, ModInverse with ok <=> gcd = 1, Sqrt, GCD, Jacobi, Cmp, BitLen, Bytes round trips, Lsh/Rsh) plus "
                 "inputs-unchanged; modular square roots: returned => squares back, modulo an odd prime returned <=> Euler criterion = 1; CRT: "
                 "Recombine(a mod p_i) = a mod prod p_i; register-machine sequences over three moduli against a model (outputs reused as inputs); "
                 "generated primes: ProbablyPrime(32), exact length, form, p != q, product length. Zero ring inversion verdicts, negative right "
                 "shifts, Int values under truncating capacities and LshCap beyond capacity are recorded, not asserted. Non-trivial: operands "
                 "non-zero (modulus > 1); distinct = distinct (package, op, size class, capacity class, aliasing class, sign class, note)."),
        "assumptions": COMMON_ASSUME,
        "quick": {"scale": 1, "shards": 8, "timeout_s": 600},
        "thorough": {"scale": 10, "shards": 16, "timeout_s": 3600},
    },
    # temporary entry added by the C18 builder (lead: replace/adjust as needed)
    "C18": {
        "pkg": "c18",
        "level": "exploration",
        "rule": ("schemes: hashcom, pedersencom over k256 / p256 / edwards25519 prime subgroup / BLS12-381 G1 / pallas, intcom "
                 "(ring-Pedersen over moduli built from openssl fixture primes, 1024-2048 bit, safe / Blum / ordinary), indcpacom "
                 "over Paillier (fixture primes; public-key, secret-key and plain view) and ElGamal (k256, ed25519, p256; public / "
                 "secret view). Keys: sampled, ExtractCommitmentKey from a transcript (given or drawn base point), explicit (g,h), "
                 "trapdoor (sampled / NewTrapdoorKey with drawn g and lambda) and Export(). Per case: key kind, message class "
                 "(empty / 1 B / block boundary / long; field 0, 1, q-1, 2^k, unreduced; integers 0, +-1, +-2^k, +-N+d, large), "
                 "witness class (Commit-sampled or 0 / 1 / -1 / 2^k / drawn), then ONE change of message, witness, key or "
                 "commitment (bit flip, +-1, negation, other value, other generator, swapped generators, other modulus, other valid "
                 "commitment, re-encoded element). Oracle: the committed triple opens under every view of the key; a change that "
                 "is semantic (decided on math/big values / element equality, e.g. changing g alone only when m != 0) makes Open "
                 "return an error; a re-encoded equal element still opens. Equivocation: Equivocate(m,w,m') opens the same "
                 "commitment to m' under Export(), w' != w iff m' != m, and neither mixed pair opens. Homomorphism: drawn "
                 "sequences of 1-6 operations (Op in both orders and with 3 operands, self-Op, OpInv, ScalarOp incl. 0 / 1 / -1 / "
                 "2^k / q-1 / N+-1 / negative, Shift, ReRandomise) applied in parallel to message, witness and commitment; after "
                 "every step the commitment opens to the tracked pair under every view and equals CommitWithWitness of it. "
                 "Transcript keys: drawn history of 0-5 operations and ONE of 15 edits (label, label suffix, name, extra append / "
                 "empty append / separator / extraction, message bit, extra empty message, operation label, separator tag, drop, "
                 "swap, re-split label|message) or none / Clone: keys equal iff no edit; Pedersen h != g, != identity, torsion-free. "
                 "Non-trivial: a negative case (semantic change or rejected re-encoding), an operation sequence of length >= 2, an "
                 "equivocation, an edited transcript pair; distinct = (scheme, group / modulus size and prime kind, key kind or "
                 "view, change kind or operation-sequence shape incl. scalar classes or edit, message class, witness class)."),
        "assumptions": COMMON_ASSUME + [
            "whether a single change is semantic is decided from the documented shape of each scheme (which generator carries the "
            "message, injectivity of (m,r) -> ciphertext); collisions of BLAKE2b, discrete-log coincidences and exponent differences "
            "that are multiples of a hidden group order are treated as impossible",
            "the homomorphism laws are checked as relations between the library's own Message/Witness/Commitment operations (stated "
            "metamorphic relation), not against an independent formula",
        ],
        "quick": {"scale": 1, "shards": 8, "timeout_s": 600},
        "thorough": {"scale": 10, "shards": 16, "timeout_s": 3000},
    },
    "C19": {
        "pkg": "c19",
        "level": "exploration",
        "rule": ("transcripts: a drawn history of 1-8 labelled operations (domain separator / append with 0-4 messages / "
                 "extract) plus ONE drawn edit out of 14 classes (re-split label|message, re-split / merge messages, insert "
                 "empty message, move a message across two appends, swap, drop, duplicate, change length / label / separator, "
                 "insert an earlier extraction, strict prefix, flip a message bit); oracle: equal histories give equal outputs, "
                 "structurally different histories differ in EVERY extraction after the edit (first 16 bytes compared); clones "
                 "equal a fresh transcript with the same history and never affect the original. hash-to-curve: drawn (curve, "
                 "message class, DST class): deterministic, DST-dependent, on curve and of prime order in an independent "
                 "math/big curve model, RFC 9380 vectors. Non-trivial: history of >= 3 operations with >= 1 compared later "
                 "extraction, resp. a non-empty message or non-default DST; distinct = distinct (edit class, length, "
                 "compared count) resp. (curve, message class, DST class, message hash)."),
        "assumptions": COMMON_ASSUME,
        "env": {"GOMAXPROCS": "2", "GOGC": "400"},
        "quick": {"scale": 1, "shards": 16, "timeout_s": 600},
        "thorough": {"scale": 12, "shards": 16, "timeout_s": 2400},
    },
    # temporary entry added by the C20 builder (lead: replace/adjust as needed)
    "C20": {
        "pkg": "c20",
        "level": "exploration",
        "rule": ("scalar fields of k256, p256, edwards25519, pallas, BLS12-381 (drawn per case); every library result is recomputed "
                 "in vlib/refmat (plain Gaussian elimination, Horner, falling-factorial derivatives, Lagrange/Newton formulas on "
                 "math/big; self-tested by brute force over F_7/F_11 and Leibniz determinants) on values read out through Bytes(). "
                 "Polynomials: 1-9 coefficients incl. zero leading ones / monomials / zero polynomial; Eval, Degree, iterated "
                 "Derivative, LiftPolynomial(.., k*G).Eval vs lift of the reference value. Interpolation: 1-8 distinct unsorted nodes "
                 "mixing 0, small IDs, IDs up to 2^64-1 (via FromUint64), near-p and uniform elements, evaluation point 0 / a node / "
                 "small / uniform; lagrange.InterpolateAt, BasisAt, InterpolateInExponentAt, vandermonde.Interpolate and "
                 "BuildVandermondeMatrix recover the drawn polynomial; repeated nodes (consistent / inconsistent values) and length "
                 "mismatches as negative cases. Birkhoff: k <= 7 nodes laid out like the hierarchical access structure (1-3 levels, "
                 "strictly increasing thresholds, order of a level = previous threshold, cumulative counts >= thresholds), ordered "
                 "small / spread / arbitrary / field-sized identifiers, plus unqualified, no-order-0, repeated-node and free-order "
                 "patterns; regularity decided by the reference determinant: regular => Interpolate and InterpolateInExponent return "
                 "exactly the polynomial (coefficients, Eval), singular => error or an answer meeting every interpolation condition. "
                 "Matrices: shapes 1-7 x 1-7 (0 is refused by the constructors: checked as an error), constructed rank: product of "
                 "r x k and k x c factors with entries from {0,+-1,+-2} / mixed / uniform, zero, all-small, uniform, then up to two "
                 "edits (duplicate / zero / scaled row, duplicate / zero column, row swap, zero pivot); right-hand sides: zero, M*x0, "
                 "perturbed M*x0, unit, drawn. Oracle for SolveRight/SolveLeft: a solution is returned IFF the reference rank test "
                 "says one exists, and any returned solution satisfies the equation (never compared with the reference solution). "
                 "Determinant, TryInv (error iff det = 0), TryMul, Transpose, Minor, Augment, Stack, AsSquare equal the reference; "
                 "Lift / LeftAction / RightAction entries equal the library ScalarBaseOp of the reference product; dimension "
                 "mismatches must be errors, not panics. Non-trivial: >= 2 nodes / coefficients / a system with r+c >= 3 / n >= 2; "
                 "distinct = (field, operation, shape, rank class incl. deficient / over- / under-determined, consistency class) "
                 "resp. (field, mode, node-class mix, polynomial class, point class) resp. (field, mode, layout, regularity, k)."),
        "assumptions": COMMON_ASSUME + [
            "group-valued results are compared with the library's own ScalarBaseOp/Equal applied to the reference scalar (curve arithmetic is C14)",
            "scalar-field orders are typed in from SEC 2, FIPS 186-4, RFC 8032, the Pasta and BLS12-381 specifications",
        ],
        "quick": {"scale": 1, "shards": 8, "timeout_s": 600},
        "thorough": {"scale": 12, "shards": 16, "timeout_s": 2400},
    },
}
