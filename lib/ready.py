# Properties whose check has been validated on the unchanged tree and is registered in MANIFEST.json.
READY = ["C01", "C02", "C03", "C05", "C09", "C13", "C14", "C15", "C16", "C17", "C18", "C19", "C20", "C06", "C07", "C04", "C10", "C11", "C12", "C08"]
