# Properties whose check has been validated on the unchanged tree and is registered in MANIFEST.json.
READY = ["C19", "C20"]
