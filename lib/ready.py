# Properties whose check has been validated on the unchanged tree and is registered in MANIFEST.json.
READY = ["C13", "C17", "C18", "C19", "C20"]
