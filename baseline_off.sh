#!/bin/sh
# Runs the repository's pinned baseline (tag-less build, i.e. with the verification guard OFF)
# and compares the set of passing tests with /root/.vp/BASELINE.json (stable_pass).
# Exit 0 iff every pinned test passes.
set -u
OUT=$(mktemp)
trap 'rm -f "$OUT"' EXIT
(cd /repo && env -u GOFLAGS GOPROXY=off go test -json -vet=off -count=1 -timeout 25m ./... >"$OUT" 2>/dev/null)
python3 - "$OUT" <<'PY'
import json, sys
passed = set()
for ln in open(sys.argv[1], errors="replace"):
    try:
        e = json.loads(ln)
    except Exception:
        continue
    if e.get("Action") == "pass" and e.get("Test"):
        passed.add("%s::%s" % (e["Package"], e["Test"]))
base = json.load(open("/root/.vp/BASELINE.json"))["stable_pass"]
missing = [t for t in base if t not in passed]
print("baseline: %d pinned, %d passing now, %d missing" % (len(base), len(passed & set(base)), len(missing)))
for t in missing[:50]:
    print("MISSING", t)
sys.exit(1 if missing else 0)
PY
