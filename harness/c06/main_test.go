package c06

import (
	"testing"

	"verif/harness/vlib"
)

func TestMain(m *testing.M) { vlib.Main(m) }
