package c06

import (
	"bytes"
	"flag"
	"fmt"
	"math/big"
	"os"
	"sort"
	"strings"
	"testing"
	"time"

	"pgregory.net/rapid"

	"github.com/bronlabs/bron-crypto/pkg/network"
	"verif/harness/vlib"
	"verif/harness/vlib/netsim"
	"verif/harness/vlib/policy"
	"verif/harness/vlib/proto"
)

// C06 — refresh, recovery and redistribution never change the key.
//
// A rapid state machine (t.Repeat). The model knows the secret s (reconstructed once from the
// initial trusted dealing and confirmed to be the discrete logarithm of the public key, which
// pins it uniquely), the public key, the current policy / holder IDs / shards, and keeps every
// epoch's shards. Actions: refresh, recover, redistribute, sign, mix (mixed-epoch signing),
// stale (an epoch change in which some drivers use a shard of an earlier epoch), reload. After every epoch-changing action the full invariant is checked (see checkEpoch and
// checkMixReconstruct).

const test = "History"

type epoch struct {
	no     int
	p      *policy.Policy
	ids    []uint64
	key    string // identifies the structure: policy + holder -> ID map
	shards map[proto.ID]any
}

func structKey(p *policy.Policy, ids []uint64) string { return fmt.Sprintf("%s|%v", p, ids) }

type machine struct {
	g       proto.Group
	s       *big.Int
	pk      []byte
	cur     *epoch
	archive []*epoch // all earlier epochs, oldest first

	maxN, maxECDSA int
	steps, limit   int
	runNo          int // ordinal of the protocol run inside the history (part of every random stream label)

	epochChanges, signs, mixChecks, mixSigns int
	desc                                     []string // descriptor entries (abstracted)
	trace                                    []string // readable history for failure messages
	classes                                  []string
}

func (m *machine) what(step string) string {
	return fmt.Sprintf("[%s; history: %s] %s", m.g.Name(), strings.Join(m.trace, " -> "), step)
}

func (m *machine) class(format string, a ...any) {
	m.classes = append(m.classes, fmt.Sprintf(format, a...))
}

// budget reports whether the history may take another step; once the drawn length is reached
// every action is a no-op (rapid's Repeat draws a geometric number of steps).
func (m *machine) budget() bool { return m.steps < m.limit }

// ---- generators ---------------------------------------------------------------------------------

// drawQuorum draws a qualified set of holders of p: minimal with probability 1/2, otherwise with extras.
func drawQuorum(t *rapid.T, p *policy.Policy, within uint64, label string) (mask uint64, minimal bool) {
	perm := rapid.Permutation(policy.Members(within)).Draw(t, label+"Order")
	for _, i := range perm {
		mask |= 1 << uint(i)
		if p.Qualified(mask) {
			break
		}
	}
	for _, i := range perm {
		if mask&(1<<uint(i)) != 0 && p.Qualified(mask&^(1<<uint(i))) {
			mask &^= 1 << uint(i)
		}
	}
	minimal = true
	var spare []int
	for _, i := range perm {
		if mask&(1<<uint(i)) == 0 {
			spare = append(spare, i)
		}
	}
	if len(spare) > 0 && rapid.Bool().Draw(t, label+"NonMinimal") {
		extra := rapid.IntRange(1, len(spare)).Draw(t, label+"Extras")
		for _, i := range spare[:extra] {
			mask |= 1 << uint(i)
		}
		minimal = false
	}
	return mask, minimal
}

// minimalWithin shrinks the set of the given holders (qualified) to a minimal qualified set, trying
// to drop holders in the given order.
func minimalWithin(p *policy.Policy, order []int) uint64 {
	mask := policy.MaskOf(order...)
	for _, i := range order {
		if p.Qualified(mask &^ (1 << uint(i))) {
			mask &^= 1 << uint(i)
		}
	}
	return mask
}

// drawPrev draws the set of previous holders that drives an epoch change: all of `within`, or a
// qualified subset of it. (Every qualified set has >= 2 members: policy.Draw returns no policy
// with a qualified singleton, and the library's unanimity structure over prev needs two.)
func drawPrev(t *rapid.T, p *policy.Policy, within uint64) (mask uint64, mode string) {
	if rapid.Bool().Draw(t, "prevAll") && rapid.Bool().Draw(t, "prevAll2") { // 1/4 (rapid's small integer ranges are not uniform)
		return within, "all"
	}
	mask, _ = drawQuorum(t, p, within, "prev")
	if mask == within && properSubsetExists(p, within) {
		// the extras filled the set up (frequent for small n): take a minimal quorum instead
		mask = minimalWithin(p, rapid.Permutation(policy.Members(within)).Draw(t, "prevMinimalOrder"))
	}
	if mask == within {
		return mask, "all"
	}
	return mask, "subset"
}

func drawFreshIDs(t *rapid.T, n int, avoid map[uint64]bool, regime string) []uint64 {
	var out []uint64
	seen := map[uint64]bool{}
	for i := 0; len(out) < n; i++ {
		var v uint64
		switch regime {
		case policy.Ordinal:
			v = rapid.Uint64Range(1, 12).Draw(t, fmt.Sprintf("fresh%d", i))
		case policy.Sparse:
			v = rapid.Uint64Range(1, 64).Draw(t, fmt.Sprintf("fresh%d", i))
		default:
			v = rapid.Uint64Range(1, ^uint64(0)).Draw(t, fmt.Sprintf("fresh%d", i))
		}
		for avoid[v] || seen[v] || v == 0 { // deterministic probing keeps the number of draws bounded
			v++
		}
		seen[v] = true
		out = append(out, v)
	}
	return out
}

// assign maps the holders 0..N-1 of p to the given set of IDs: a drawn permutation, except for
// hierarchical policies where IDs must increase from level to level (documented requirement).
func assign(t *rapid.T, p *policy.Policy, idset []uint64) []uint64 {
	ids := append([]uint64(nil), idset...)
	if p.Family != policy.Hier {
		return rapid.Permutation(ids).Draw(t, "idPerm")
	}
	sort.Slice(ids, func(i, j int) bool { return ids[i] < ids[j] })
	for _, l := range p.Levels {
		if len(l.Members) > 1 {
			perm := rapid.Permutation(l.Members).Draw(t, "lvlPerm")
			tmp := make([]uint64, len(perm))
			for k, h := range perm {
				tmp[k] = ids[h]
			}
			for k, h := range l.Members {
				ids[h] = tmp[k]
			}
		}
	}
	return ids
}

// relation classifies the next holder set against the current one.
func relation(cur, next []uint64) string {
	in := map[uint64]bool{}
	for _, v := range cur {
		in[v] = true
	}
	common := 0
	for _, v := range next {
		if in[v] {
			common++
		}
	}
	switch {
	case common == 0:
		return "disjoint"
	case common == len(cur) && common == len(next):
		return "same"
	case common == len(cur):
		return "extended"
	case common == len(next):
		return "shrunk"
	}
	return "overlap"
}

// ---- running one redistribution ---------------------------------------------------------------

// runEpochChange runs the redistribution protocol: prev (mask over the current holders) drives,
// the next structure is (np, nids). lost holders take part without a previous shard. anchors
// gives the trusted anchor of next-only parties (0 = none). Returns the next holders' shards.
func (m *machine) runEpochChange(t *rapid.T, what string, prevMask uint64, np *policy.Policy, nids []uint64, lost map[proto.ID]bool, anchors map[proto.ID]proto.ID, seed uint64) map[proto.ID]any {
	out, _ := m.runEpochChangeWith(t, what, prevMask, np, nids, lost, anchors, seed, nil)
	return out
}

// runEpochChangeWith: stale (may be nil) replaces the previous shard of some parties by a shard of
// an EARLIER epoch; with stale shards the run is not honest any more: party errors are returned
// (failed[id]) instead of being violations, and idle parties are cancelled after a short while.
func (m *machine) runEpochChangeWith(t *rapid.T, what string, prevMask uint64, np *policy.Policy, nids []uint64, lost map[proto.ID]bool, anchors map[proto.ID]proto.ID, seed uint64, stale map[proto.ID]any) (map[proto.ID]any, map[proto.ID]string) {
	honest := len(stale) == 0
	ac, err := policy.Build(np, nids)
	if err != nil {
		t.Fatalf("%s: building the next structure %s ids=%v: %v", what, np, nids, err)
	}
	prev := policy.IDList(m.cur.ids, prevMask)
	next := proto.ToIDs(nids)
	isNext := map[proto.ID]bool{}
	for _, id := range next {
		isNext[id] = true
	}
	seen := map[proto.ID]bool{}
	var all []proto.ID
	for _, id := range append(append([]proto.ID{}, prev...), next...) {
		if !seen[id] {
			seen[id] = true
			all = append(all, id)
		}
	}
	all = proto.SortedIDs(all)
	// every protocol run of a history has its own random tapes: the drawn seed AND the ordinal of
	// the run go into the stream labels (rapid likes to draw the same small seed twice; two runs on
	// the same tapes with the same drivers would deal the same "fresh" sharing again, which is the
	// harness repeating randomness, not the library failing to refresh)
	m.runNo++
	label := fmt.Sprintf("redistribute#%d", m.runNo)
	ctxs, err := proto.Contexts(all, seed, label)
	if err != nil {
		t.Fatalf("%s: contexts: %v", what, err)
	}
	runners := map[proto.ID]network.Runner[any]{}
	for _, id := range all {
		var prevShard any
		if sh, ok := m.cur.shards[id]; ok && !lost[id] {
			prevShard = sh
		}
		if sh, ok := stale[id]; ok {
			prevShard = sh
		}
		r, err := m.g.RedistributeRunner(ctxs[id], prev, prevShard, ac, proto.PartyPRNG(seed, label, id), anchors[id])
		if err != nil {
			// (a stale shard has the same span programme as the current one, so the constructor's
			// precondition "prev is qualified under the shard's MSP" holds for it as well)
			t.Fatalf("%s: party %d refused a documented-valid configuration (prev=%v next=%v anchor=%d): %v", what, id, prev, next, anchors[id], err)
		}
		runners[id] = r
	}
	opt := netsim.Options{Idle: 60 * time.Second, Hard: 15 * time.Minute}
	if !honest {
		opt.Idle = 5 * time.Second
		opt.StallOK = func() bool { return true }
	}
	res, oc := netsim.RunAll(netsim.New(all), runners, opt)
	if timing {
		fmt.Fprintf(os.Stderr, "TIMING %-40s %8.3fs\n", fmt.Sprintf("protocol %s parties=%d", m.g.Name(), len(all)), oc.Wall.Seconds())
	}
	if oc.HardStop {
		t.Fatalf("%s: the protocol did not terminate", what)
	}
	out := map[proto.ID]any{}
	failed := map[proto.ID]string{}
	for _, id := range all {
		r := res[id]
		if r.Panic != nil {
			t.Fatalf("%s: party %d panicked: %v\n%s", what, id, r.Panic, r.Stack)
		}
		if r.Err != nil || !r.Done {
			if !honest {
				failed[id] = fmt.Sprint(r.Err)
				continue
			}
			t.Fatalf("%s: honest run failed at party %d (prev=%v next=%v anchor=%d next-holder=%v): %v", what, id, prev, next, anchors[id], isNext[id], r.Err)
		}
		if isNext[id] {
			if r.Out == nil {
				t.Fatalf("%s: next holder %d finished without a shard", what, id)
			}
			out[id] = r.Out
		}
	}
	return out, failed
}

// ---- invariants -----------------------------------------------------------------------------------

// checkEpoch is the invariant of an epoch: same public key as the ORIGINAL one, shards carry the
// right identity, all holders agree on the public data, every private share lifts to its
// published public share, and for EVERY subset of holders: qualified <=> reconstructs exactly
// the model secret (and the public key in the exponent); unqualified => error.
func (m *machine) checkEpoch(t *rapid.T, what string, e *epoch) {
	holders := proto.ToIDs(e.ids)
	infos := map[proto.ID]*proto.ShardInfo{}
	for _, id := range holders {
		sh, ok := e.shards[id]
		if !ok {
			t.Fatalf("%s: no shard for holder %d", what, id)
		}
		info, err := m.g.Info(sh)
		if err != nil {
			t.Fatalf("%s: reading the shard of %d: %v", what, id, err)
		}
		if info.Holder != id {
			t.Fatalf("%s: shard of %d carries id %d", what, id, info.Holder)
		}
		if !bytes.Equal(info.PK, m.pk) {
			t.Fatalf("%s: PUBLIC KEY CHANGED: holder %d now has %x, the original key is %x", what, id, info.PK, m.pk)
		}
		infos[id] = info
	}
	ref := infos[holders[0]]
	if fmt.Sprint(ref.Holders) != fmt.Sprint(proto.SortedIDs(holders)) {
		t.Fatalf("%s: the span programme of the new shards is over holders %v, the next structure has %v", what, ref.Holders, proto.SortedIDs(holders))
	}
	for _, id := range holders[1:] {
		in := infos[id]
		if fmt.Sprint(in.VV) != fmt.Sprint(ref.VV) {
			t.Fatalf("%s: holders %d and %d have different verification vectors", what, holders[0], id)
		}
		if fmt.Sprint(in.MSPRows) != fmt.Sprint(ref.MSPRows) || fmt.Sprint(in.RowOwner) != fmt.Sprint(ref.RowOwner) {
			t.Fatalf("%s: holders %d and %d have different span programmes", what, holders[0], id)
		}
		if fmt.Sprint(in.PKShares) != fmt.Sprint(ref.PKShares) {
			t.Fatalf("%s: holders %d and %d have different public key shares", what, holders[0], id)
		}
	}
	for _, id := range holders {
		ok, err := m.g.LiftedShareMatches(e.shards[id])
		if err != nil || !ok {
			t.Fatalf("%s: the private share of %d does not lift to its published public share (err=%v)", what, id, err)
		}
	}
	for set := uint64(1); set <= e.p.Full(); set++ {
		var sub []any
		var subIDs []proto.ID
		for _, i := range policy.Members(set) {
			sub = append(sub, e.shards[holders[i]])
			subIDs = append(subIDs, holders[i])
		}
		s, err := m.g.Reconstruct(sub)
		pkx, errx := m.g.ReconstructInExponent(e.shards[holders[0]], subIDs)
		if e.p.Qualified(set) {
			if err != nil {
				t.Fatalf("%s: qualified set %v of %s cannot reconstruct: %v", what, subIDs, e.p, err)
			}
			if s.Cmp(m.s) != 0 {
				t.Fatalf("%s: SECRET CHANGED: qualified set %v of %s reconstructs %x, the secret is %x", what, subIDs, e.p, s, m.s)
			}
			if errx != nil || !bytes.Equal(pkx, m.pk) {
				t.Fatalf("%s: reconstruction in the exponent over %v does not give the original public key (err=%v)", what, subIDs, errx)
			}
		} else {
			if err == nil {
				t.Fatalf("%s: unqualified set %v of %s reconstructed a value (%x; secret=%v)", what, subIDs, e.p, s, s.Cmp(m.s) == 0)
			}
			if errx == nil {
				t.Fatalf("%s: unqualified set %v of %s reconstructed in the exponent", what, subIDs, e.p)
			}
		}
	}
}

// mixPairs lists all (Q, A): Q qualified, A a non-empty proper subset of Q, and neither A nor
// Q\A qualified. Taking the holders of A from one epoch and those of Q\A from another epoch of
// the same structure gives a set that is qualified by the policy but whose every recombination
// must use shares of both epochs.
func mixPairs(p *policy.Policy, maxQ int) [][2]uint64 {
	var out [][2]uint64
	for q := uint64(1); q <= p.Full(); q++ {
		if !p.Qualified(q) || (maxQ > 0 && policy.PopCount(q) > maxQ) {
			continue
		}
		// enumerate non-empty proper submasks a of q
		for a := (q - 1) & q; a != 0; a = (a - 1) & q {
			if !p.Qualified(a) && !p.Qualified(q&^a) {
				out = append(out, [2]uint64{q, a})
			}
		}
	}
	return out
}

// sameStructureEpochs returns the archived epochs that have exactly the current structure and
// are connected to the current epoch by refresh / recovery steps only.
func (m *machine) sameStructureEpochs() []*epoch {
	var out []*epoch
	for i := len(m.archive) - 1; i >= 0; i-- {
		if m.archive[i].key != m.cur.key {
			break
		}
		out = append(out, m.archive[i])
	}
	return out
}

func mixedShards(oldE, newE *epoch, q, a uint64) (ids []proto.ID, shards map[proto.ID]any, list []any) {
	holders := proto.ToIDs(newE.ids)
	shards = map[proto.ID]any{}
	for _, i := range policy.Members(q) {
		id := holders[i]
		src := newE
		if a&(1<<uint(i)) != 0 {
			src = oldE
		}
		ids = append(ids, id)
		shards[id] = src.shards[id]
		list = append(list, src.shards[id])
	}
	return ids, shards, list
}

// checkMixReconstruct: for EVERY pair (Q, A) of mixPairs, the shares of A taken from the older
// epoch together with the shares of Q\A from the current one must not reconstruct the secret:
// an error or a different value (equality is a 1/q event: the two epochs' sharing vectors are
// independent outside the secret coordinate).
func (m *machine) checkMixReconstruct(t *rapid.T, what string, old *epoch) {
	pairs := mixPairs(m.cur.p, 0)
	errs, wrong := 0, 0
	for _, pr := range pairs {
		ids, _, list := mixedShards(old, m.cur, pr[0], pr[1])
		s, err := m.g.Reconstruct(list)
		if err != nil {
			errs++
			continue
		}
		if s.Cmp(m.s) == 0 {
			t.Fatalf("%s: EPOCH MIXING RECONSTRUCTS THE SECRET: holders %v of %s with the shares of %v from epoch %d and the rest from epoch %d",
				what, ids, m.cur.p, policy.IDList(m.cur.ids, pr[1]), old.no, m.cur.no)
		}
		wrong++
	}
	m.mixChecks++
	vlib.Class(test, "mix-reconstruct:pairs="+bucket(len(pairs)))
	if errs > 0 {
		vlib.Class(test, "mix-reconstruct:some-error")
	}
	if wrong > 0 {
		vlib.Class(test, "mix-reconstruct:some-wrong-value")
	}
}

// drawPolicy draws a policy; rapid's small-value bias makes policy.Draw return "rigid" policies
// (only the full holder set is qualified: n = 2, unanimity, t = n ...) most of the time, in which
// nobody can be recovered and no subset can drive a step, so a rigid draw is retried up to twice.
func drawPolicy(t *rapid.T, maxN int) *policy.Policy {
	p := policy.Draw(t, policy.Opts{MaxN: maxN})
	for i := 0; i < 2 && !properSubsetExists(p, p.Full()); i++ {
		p = policy.Draw(t, policy.Opts{MaxN: maxN})
	}
	return p
}

// properSubsetExists: some qualified set strictly inside `within`.
func properSubsetExists(p *policy.Policy, within uint64) bool {
	for _, i := range policy.Members(within) {
		if p.Qualified(within &^ (1 << uint(i))) {
			return true
		}
	}
	return false
}

func containsID(ids []proto.ID, id proto.ID) bool {
	for _, v := range ids {
		if v == id {
			return true
		}
	}
	return false
}

func firstLine(s string) string {
	if i := strings.IndexByte(s, '\n'); i >= 0 {
		s = s[:i]
	}
	if len(s) > 300 {
		s = s[:300]
	}
	return s
}

func bucket(n int) string {
	switch {
	case n == 0:
		return "0"
	case n <= 2:
		return "1-2"
	case n <= 10:
		return "3-10"
	case n <= 50:
		return "11-50"
	}
	return ">50"
}

// ---- the state machine ------------------------------------------------------------------------

var timing = os.Getenv("C06_TIMING") != ""

func lap(label string, start time.Time) {
	if timing {
		fmt.Fprintf(os.Stderr, "TIMING %-40s %8.3fs\n", label, time.Since(start).Seconds())
	}
}

func (m *machine) commit(t *rapid.T, what string, np *policy.Policy, nids []uint64, shards map[proto.ID]any) {
	defer lap(fmt.Sprintf("invariants %s n=%d", m.g.Name(), np.N), time.Now())
	m.archive = append(m.archive, m.cur)
	m.cur = &epoch{no: m.cur.no + 1, p: np, ids: nids, key: structKey(np, nids), shards: shards}
	m.epochChanges++
	m.checkEpoch(t, what, m.cur)
	if olds := m.sameStructureEpochs(); len(olds) > 0 {
		old := olds[0]
		if len(olds) > 1 {
			old = olds[rapid.IntRange(0, len(olds)-1).Draw(t, "mixAgainst")]
		}
		m.checkMixReconstruct(t, what, old)
	}
}

func (m *machine) drawAnchors(t *rapid.T, prevMask uint64, participants []proto.ID) (map[proto.ID]proto.ID, string) {
	prev := policy.IDList(m.cur.ids, prevMask)
	inPrev := map[proto.ID]bool{}
	for _, id := range prev {
		inPrev[id] = true
	}
	var newcomers []proto.ID
	for _, id := range participants {
		if !inPrev[id] {
			newcomers = append(newcomers, id)
		}
	}
	anchors := map[proto.ID]proto.ID{}
	if len(newcomers) == 0 {
		return anchors, "n/a"
	}
	switch rapid.SampledFrom([]string{"off", "on", "some", "off"}).Draw(t, "anchorMode") {
	case "off":
		return anchors, "off"
	case "on":
		for i, id := range newcomers {
			anchors[id] = rapid.SampledFrom(prev).Draw(t, fmt.Sprintf("anchor%d", i))
		}
		return anchors, "on"
	}
	flag := "off"
	for i, id := range newcomers {
		if rapid.Bool().Draw(t, fmt.Sprintf("anchored%d", i)) {
			anchors[id] = rapid.SampledFrom(prev).Draw(t, fmt.Sprintf("anchor%d", i))
			flag = "on"
		}
	}
	return anchors, flag
}

func (m *machine) refresh(t *rapid.T) {
	if !m.budget() {
		return
	}
	m.steps++
	p, ids := m.cur.p, m.cur.ids
	prevMask, mode := drawPrev(t, p, p.Full())
	anchors, aflag := m.drawAnchors(t, prevMask, proto.ToIDs(ids))
	seed := rapid.Uint64().Draw(t, "seed")
	step := fmt.Sprintf("refresh#%d(%s ids=%v prev=%v anchors=%v)", m.cur.no+1, p, ids, policy.IDList(ids, prevMask), anchors)
	what := m.what(step)
	shards := m.runEpochChange(t, what, prevMask, p, ids, nil, anchors, seed)
	m.trace = append(m.trace, step)
	m.desc = append(m.desc, vlib.Desc("refresh", p.Family+">"+p.Family, "anchor="+aflag, "prev="+mode))
	m.class("action=refresh")
	m.class("refresh:prev=%s", mode)
	m.class("refresh:proper-qualified-subset-exists=%v", properSubsetExists(p, p.Full()))
	m.class("refresh:anchor=%s", aflag)
	m.class("transition=%s>%s", p.Family, p.Family)
	m.commit(t, what, p, ids, shards)
}

func (m *machine) recover(t *rapid.T) {
	if !m.budget() {
		return
	}
	p, ids := m.cur.p, m.cur.ids
	var candidates []int
	for i := 0; i < p.N; i++ {
		if p.Qualified(p.Full() &^ (1 << uint(i))) {
			candidates = append(candidates, i)
		}
	}
	if len(candidates) == 0 {
		t.Skip("nobody can be recovered: every holder is indispensable")
	}
	m.steps++
	lostIdx := rapid.SampledFrom(candidates).Draw(t, "lost")
	lostID := proto.ID(ids[lostIdx])
	prevMask, mode := drawPrev(t, p, p.Full()&^(1<<uint(lostIdx)))
	if mode == "all" {
		mode = "all-others"
	}
	anchors, aflag := m.drawAnchors(t, prevMask, proto.ToIDs(ids))
	seed := rapid.Uint64().Draw(t, "seed")
	step := fmt.Sprintf("recover#%d(%s ids=%v lost=%d prev=%v anchors=%v)", m.cur.no+1, p, ids, lostID, policy.IDList(ids, prevMask), anchors)
	what := m.what(step)
	shards := m.runEpochChange(t, what, prevMask, p, ids, map[proto.ID]bool{lostID: true}, anchors, seed)
	m.trace = append(m.trace, step)
	m.desc = append(m.desc, vlib.Desc("recover", p.Family+">"+p.Family, "anchor="+aflag, "prev="+mode))
	m.class("action=recover")
	m.class("recover:prev=%s", mode)
	m.class("recover:anchor=%s", aflag)
	m.class("transition=%s>%s", p.Family, p.Family)
	m.commit(t, what, p, ids, shards)
}

func (m *machine) redistribute(t *rapid.T) {
	if !m.budget() {
		return
	}
	m.steps++
	cp, cids := m.cur.p, m.cur.ids
	np := drawPolicy(t, m.maxN)
	// how many current holders stay
	maxKeep := len(cids)
	if np.N < maxKeep {
		maxKeep = np.N
	}
	keep := 0
	switch rapid.SampledFrom([]string{"disjoint", "max", "some", "some"}).Draw(t, "holderMode") {
	case "max":
		keep = maxKeep
	case "some":
		keep = rapid.IntRange(1, maxKeep).Draw(t, "keep")
	}
	kept := rapid.Permutation(cids).Draw(t, "keptOrder")[:keep]
	avoid := map[uint64]bool{}
	for _, v := range cids {
		avoid[v] = true
	}
	regime := rapid.SampledFrom([]string{policy.Ordinal, policy.Sparse, policy.Large}).Draw(t, "freshRegime")
	fresh := drawFreshIDs(t, np.N-keep, avoid, regime)
	nids := assign(t, np, append(append([]uint64{}, kept...), fresh...))
	if np.Family == policy.Hier && policy.TassaVerdict(np, nids, m.g.Order()) != 1 {
		// outside the documented admission bound of the hierarchical scheme: use the threshold
		// policy with the same top threshold instead
		np = &policy.Policy{Family: policy.Threshold, N: np.N, T: np.Levels[len(np.Levels)-1].T}
		m.class("redistribute:hier-fallback")
	}
	rel := relation(cids, nids)
	prevMask, mode := drawPrev(t, cp, cp.Full())
	prevIDs := policy.IDList(cids, prevMask)
	var participants []proto.ID
	seen := map[proto.ID]bool{}
	for _, id := range append(append([]proto.ID{}, prevIDs...), proto.ToIDs(nids)...) {
		if !seen[id] {
			seen[id] = true
			participants = append(participants, id)
		}
	}
	anchors, aflag := m.drawAnchors(t, prevMask, participants)
	seed := rapid.Uint64().Draw(t, "seed")
	step := fmt.Sprintf("redistribute#%d(%s ids=%v => %s ids=%v prev=%v anchors=%v)", m.cur.no+1, cp, cids, np, nids, prevIDs, anchors)
	what := m.what(step)
	shards := m.runEpochChange(t, what, prevMask, np, nids, nil, anchors, seed)
	m.trace = append(m.trace, step)
	m.desc = append(m.desc, vlib.Desc("redistribute", cp.Family+">"+np.Family, "anchor="+aflag, "prev="+mode))
	m.class("action=redistribute")
	m.class("redistribute:prev=%s", mode)
	m.class("redistribute:anchor=%s", aflag)
	m.class("redistribute:holders=%s", rel)
	m.class("redistribute:n=%d>%d", cp.N, np.N)
	m.class("redistribute:ids=%s", regime)
	m.class("transition=%s>%s", cp.Family, np.Family)
	m.commit(t, what, np, nids, shards)
}

// stale: an epoch change (refresh of the same structure, or redistribution to a new one) in which
// some of the driving previous holders use their shard of an EARLIER epoch of the same structure
// (a holder restored from a backup) while the others use the current one. Shares of different
// epochs must not combine: the run may abort at any party; whoever completes must still hold the
// ORIGINAL public key and a share that lifts to its public share; if every next holder completes,
// the new epoch must satisfy the whole invariant (it is then adopted), otherwise the state stays.
func (m *machine) stale(t *rapid.T) {
	if !m.budget() {
		return
	}
	olds := m.sameStructureEpochs()
	if len(olds) == 0 {
		t.Skip("no earlier epoch of the current structure")
	}
	m.steps++
	cp, cids := m.cur.p, m.cur.ids
	old := olds[rapid.IntRange(0, len(olds)-1).Draw(t, "oldEpoch")]
	np, nids, target := cp, cids, "same"
	if rapid.Bool().Draw(t, "newStructure") {
		np = policy.Draw(t, policy.Opts{MaxN: m.maxN, Families: []string{policy.Threshold, policy.Unanimity, policy.CNF, policy.Gate}})
		avoid := map[uint64]bool{}
		for _, v := range cids {
			avoid[v] = true
		}
		keep := rapid.IntRange(0, min(np.N, len(cids))).Draw(t, "keep")
		kept := rapid.Permutation(cids).Draw(t, "keptOrder")[:keep]
		nids = assign(t, np, append(append([]uint64{}, kept...), drawFreshIDs(t, np.N-keep, avoid, policy.Sparse)...))
		target = "new:" + relation(cids, nids)
	}
	prevMask, mode := drawPrev(t, cp, cp.Full())
	if target == "same" && mode == "all" {
		// prefer a proper qualified subset, so that the remaining holders are next-only parties
		if q, _ := drawQuorum(t, cp, cp.Full(), "stalePrev"); q != cp.Full() {
			prevMask, mode = q, "subset"
		}
	}
	prevIdx := policy.Members(prevMask)
	nStale := rapid.IntRange(1, len(prevIdx)-1).Draw(t, "nStale") // at least one stale, at least one current
	staleIdx := rapid.Permutation(prevIdx).Draw(t, "staleOrder")[:nStale]
	stale := map[proto.ID]any{}
	var staleMask uint64
	for _, i := range staleIdx {
		id := proto.ID(cids[i])
		stale[id] = old.shards[id]
		staleMask |= 1 << uint(i)
	}
	// neither the stale nor the current part of prev qualified alone => the contributions cannot add up to the secret
	separated := !cp.Qualified(staleMask) && !cp.Qualified(prevMask&^staleMask)
	prevIDs := policy.IDList(cids, prevMask)
	var participants []proto.ID
	seen := map[proto.ID]bool{}
	for _, id := range append(append([]proto.ID{}, prevIDs...), proto.ToIDs(nids)...) {
		if !seen[id] {
			seen[id] = true
			participants = append(participants, id)
		}
	}
	anchors, aflag := m.drawAnchors(t, prevMask, participants)
	seed := rapid.Uint64().Draw(t, "seed")
	step := fmt.Sprintf("stale#%d(%s ids=%v => %s ids=%v prev=%v of which %v use their epoch-%d shard, anchors=%v)", m.cur.no+1, cp, cids, np, nids, prevIDs, policy.IDList(cids, staleMask), old.no, anchors)
	what := m.what(step)
	shards, failed := m.runEpochChangeWith(t, what, prevMask, np, nids, nil, anchors, seed, stale)
	for _, id := range proto.ToIDs(nids) {
		sh, ok := shards[id]
		if !ok {
			continue
		}
		info, err := m.g.Info(sh)
		if err != nil {
			t.Fatalf("%s: reading the shard of %d: %v", what, id, err)
		}
		if !bytes.Equal(info.PK, m.pk) {
			t.Fatalf("%s: PUBLIC KEY CHANGED: next holder %d accepted a shard for %x, the original key is %x (shares of epochs %d and %d were combined)", what, id, info.PK, m.pk, old.no, m.cur.no)
		}
		if ok, err := m.g.LiftedShareMatches(sh); err != nil || !ok {
			t.Fatalf("%s: next holder %d accepted a share that does not lift to its published public share (err=%v)", what, id, err)
		}
	}
	m.mixChecks++
	m.trace = append(m.trace, step)
	m.desc = append(m.desc, vlib.Desc("stale", cp.Family+">"+np.Family, "anchor="+aflag, "prev="+mode))
	m.class("action=stale")
	m.class("stale:target=%s", target)
	m.class("stale:anchor=%s", aflag)
	m.class("stale:separated=%v", separated)
	anchorless := 0
	for _, id := range proto.ToIDs(nids) {
		if _, isPrev := stale[id]; !isPrev && anchors[id] == 0 && !containsID(prevIDs, id) {
			anchorless++
		}
	}
	m.class("stale:anchorless-newcomers>0=%v", anchorless > 0)
	outcome := "all-abort"
	switch {
	case len(shards) == np.N && len(failed) == 0:
		outcome = "completed"
	case len(shards) > 0:
		outcome = "some-next-holders-completed"
	case len(failed) < len(participants):
		outcome = "next-holders-abort"
	}
	if outcome == "completed" && separated {
		// every party accepted although the secret-carrying contributions come from two epochs:
		// the invariant below decides (the reconstruction would have to give s)
		m.class("stale:separated-yet-completed")
	}
	m.class("stale:outcome=%s", outcome)
	if outcome == "completed" {
		m.commit(t, what, np, nids, shards)
	}
}

// sign: a drawn qualified quorum of the CURRENT structure signs a drawn message on the current
// shards; the signature must verify under the ORIGINAL public key.
func (m *machine) sign(t *rapid.T) {
	if !m.budget() {
		return
	}
	if !canSign(m.g.Name()) {
		t.Skip("no threshold signing protocol over this group")
	}
	m.steps++
	m.doSign(t)
}

func (m *machine) doSign(t *rapid.T) {
	p, ids := m.cur.p, m.cur.ids
	qmask, minimal := drawQuorum(t, p, p.Full(), "quorum")
	quorum := policy.IDList(ids, qmask)
	sg := drawSigner(t, m.g.Name(), len(quorum), m.maxECDSA)
	msg, mcls := drawMessage(t)
	seed := rapid.Uint64().Draw(t, "seed")
	step := fmt.Sprintf("sign(%s epoch=%d quorum=%v msg=%s/%d)", sg.name(), m.cur.no, quorum, mcls, len(msg))
	what := m.what(step)
	start := time.Now()
	m.runNo++
	out, panicked := trySign(sg, quorum, m.cur.shards, m.cur.shards[quorum[0]], m.pk, msg, seed, m.runNo, 60*time.Second, false)
	lap(fmt.Sprintf("sign %s q=%d", sg.kind(), len(quorum)), start)
	if panicked != "" {
		t.Fatalf("%s: %s", what, panicked)
	}
	if !out.valid() {
		t.Fatalf("%s: a qualified quorum of the current structure (%s) did not produce a valid signature under the original public key %x: stage=%s err=%s sig=%s",
			what, p, m.pk, out.stage, out.err, out.sig)
	}
	m.signs++
	m.trace = append(m.trace, step)
	m.desc = append(m.desc, vlib.Desc("sign", sg.kind(), p.Family))
	m.class("action=sign")
	m.class("sign:%s", sg.kind())
	m.class("sign:epoch>0=%v", m.cur.no > 0)
	m.class("sign:minimal=%v", minimal)
	m.class("sign:independent=%s", out.indep)
	m.class("sign:msg=%s", mcls)
}

// mix: a set that is qualified by the policy, assembled from the shares of two different epochs
// of the same structure (neither epoch's part qualified alone), tries to sign. Any failure is
// fine; a signature that verifies under the public key is a violation.
func (m *machine) mix(t *rapid.T) {
	if !m.budget() {
		return
	}
	olds := m.sameStructureEpochs()
	if len(olds) == 0 || !canSign(m.g.Name()) {
		t.Skip("no earlier epoch of the current structure")
	}
	pairs := mixPairs(m.cur.p, 4)
	if len(pairs) == 0 {
		t.Skip("no mixed set of at most four holders")
	}
	m.steps++
	old := olds[rapid.IntRange(0, len(olds)-1).Draw(t, "oldEpoch")]
	pr := pairs[rapid.IntRange(0, len(pairs)-1).Draw(t, "mixPair")]
	quorum, shards, _ := mixedShards(old, m.cur, pr[0], pr[1])
	sg := drawSigner(t, m.g.Name(), len(quorum), m.maxECDSA)
	msg, mcls := drawMessage(t)
	seed := rapid.Uint64().Draw(t, "seed")
	// the aggregator / verifier material comes from a current shard (either epoch has the same key)
	ref := m.cur.shards[quorum[0]]
	step := fmt.Sprintf("mix-sign(%s quorum=%v: %v from epoch %d, rest from epoch %d, msg=%s/%d)", sg.name(), quorum, policy.IDList(m.cur.ids, pr[1]), old.no, m.cur.no, mcls, len(msg))
	what := m.what(step)
	start := time.Now()
	m.runNo++
	out, panicked := trySign(sg, quorum, shards, ref, m.pk, msg, seed, m.runNo, 4*time.Second, true)
	lap(fmt.Sprintf("mix-sign %s q=%d", sg.kind(), len(quorum)), start)
	if panicked != "" {
		t.Fatalf("%s: %s", what, panicked)
	}
	if out.valid() {
		t.Fatalf("%s: SHARES OF DIFFERENT EPOCHS PRODUCED A VALID SIGNATURE under %x: %s", what, m.pk, out.sig)
	}
	m.mixSigns++
	m.trace = append(m.trace, step)
	m.desc = append(m.desc, vlib.Desc("mix", sg.kind(), m.cur.p.Family))
	m.class("action=mix")
	m.class("mix:%s:fails-at=%s", sg.kind(), out.stage)
	m.class("mix:epoch-distance=%d", m.cur.no-old.no)
	vlib.Sample("mix-sign:"+sg.kind()+":"+out.stage, map[string]any{"step": step, "stage": out.stage, "err": firstLine(out.err)})
}

// reload: every current shard goes through its CBOR encoding; the history continues with the
// decoded shards.
func (m *machine) reload(t *rapid.T) {
	if !m.budget() {
		return
	}
	m.steps++
	step := fmt.Sprintf("reload(epoch=%d)", m.cur.no)
	what := m.what(step)
	re := map[proto.ID]any{}
	for _, id := range proto.ToIDs(m.cur.ids) {
		before, err := m.g.Info(m.cur.shards[id])
		if err != nil {
			t.Fatalf("%s: reading the shard of %d: %v", what, id, err)
		}
		sh, err := m.g.Reload(m.cur.shards[id])
		if err != nil {
			t.Fatalf("%s: the shard of %d (epoch %d, %s) does not survive encode/decode: %v", what, id, m.cur.no, m.cur.p, err)
		}
		after, err := m.g.Info(sh)
		if err != nil {
			t.Fatalf("%s: reloaded shard of %d unreadable: %v", what, id, err)
		}
		if !bytes.Equal(before.CBOR, after.CBOR) || fmt.Sprint(before.Share) != fmt.Sprint(after.Share) || !bytes.Equal(after.PK, m.pk) {
			t.Fatalf("%s: the shard of %d changed by encode/decode", what, id)
		}
		re[id] = sh
	}
	m.cur = &epoch{no: m.cur.no, p: m.cur.p, ids: m.cur.ids, key: m.cur.key, shards: re}
	m.trace = append(m.trace, step)
	m.desc = append(m.desc, "reload")
	m.class("action=reload")
}

var quickGroups = []string{"k256", "k256", "k256", "p256", "p256", "p256", "ed25519", "ed25519", "pallas", "pallas", "vesta", "bls12381g1", "bls12381g2"}

func TestHistory(t *testing.T) {
	// rapid's Repeat draws a geometric number of steps with this mean; the drawn `limit` below is
	// the real bound (further steps are no-ops), the large mean only makes early stops rare.
	if err := flag.Set("rapid.steps", "100"); err != nil {
		t.Fatal(err)
	}
	vlib.Check(t, 60, func(t *rapid.T) {
		maxN, maxSteps, maxECDSA := 5, 6, 3
		groups := quickGroups
		if vlib.Thorough() {
			maxN, maxSteps, maxECDSA = 7, 12, 4
			groups = proto.GroupNames()
		}
		g := proto.GroupByName(rapid.SampledFrom(groups).Draw(t, "group"))
		if g.Name() == "bls12381g2" {
			// G2 arithmetic (purego) makes one protocol step 10-50x dearer than in the other groups
			maxN, maxSteps = 3, 4
			if vlib.Thorough() {
				maxN, maxSteps = 4, 6
			}
		}
		m := &machine{g: g, maxN: maxN, maxECDSA: maxECDSA}
		m.limit = rapid.IntRange(3, maxSteps).Draw(t, "steps")

		// epoch 0: trusted dealing
		p := drawPolicy(t, maxN)
		regime := rapid.SampledFrom([]string{policy.Ordinal, policy.Sparse, policy.Large}).Draw(t, "regime")
		ids := policy.DrawIDs(t, p, regime)
		if p.Family == policy.Hier && policy.TassaVerdict(p, ids, g.Order()) != 1 {
			regime = policy.Ordinal
			ids = policy.DrawIDs(t, p, regime)
		}
		ac, err := policy.Build(p, ids)
		if err != nil {
			t.Fatalf("building %s ids=%v: %v", p, ids, err)
		}
		shards, err := g.Deal(ac, vlib.NewPRNG(rapid.Uint64().Draw(t, "dealSeed"), "dealer"))
		if err != nil {
			t.Fatalf("trusted dealer failed (%s ids=%v %s): %v", p, ids, g.Name(), err)
		}
		m.cur = &epoch{no: 0, p: p, ids: ids, key: structKey(p, ids), shards: shards}
		m.trace = append(m.trace, fmt.Sprintf("deal(%s ids=%v)", p, ids))
		// the model secret: reconstructed once from the full dealing and confirmed to be THE
		// discrete logarithm of the public key (unique), in the library's group and, where the
		// reference model has the curve, independently of it
		var all []any
		for _, id := range proto.ToIDs(ids) {
			all = append(all, shards[id])
		}
		m.s, err = g.Reconstruct(all)
		if err != nil {
			t.Fatalf("the full holder set of a fresh dealing cannot reconstruct (%s ids=%v): %v", p, ids, err)
		}
		info, err := g.Info(shards[proto.ID(ids[0])])
		if err != nil {
			t.Fatalf("reading a dealt shard: %v", err)
		}
		m.pk = info.PK
		if !bytes.Equal(g.Lift(m.s), m.pk) {
			t.Fatalf("harness precondition: the secret reconstructed from the trusted dealing is not the discrete logarithm of its public key (%s ids=%v)", p, ids)
		}
		if eq, ok := refLiftEquals(g.Name(), m.s, m.pk); ok && !eq {
			t.Fatalf("harness precondition: [s]G != pk in the reference model (%s)", g.Name())
		} else {
			m.class("secret-confirmed-in-reference-model=%v", ok)
		}
		m.checkEpoch(t, m.what("initial dealing"), m.cur)

		t.Repeat(map[string]func(*rapid.T){
			"refresh":      m.refresh,
			"recover":      m.recover,
			"redistribute": m.redistribute,
			"sign":         m.sign,
			"mix":          m.mix,
			"stale":        m.stale,
			"reload":       m.reload,
			"": func(t *rapid.T) {
				if len(m.cur.shards) != m.cur.p.N || len(m.archive) != m.epochChanges {
					t.Fatalf("harness bookkeeping broken")
				}
			},
		})
		// a history that changed the epoch but never signed ends with a signature on the final shards
		if m.epochChanges > 0 && m.signs == 0 && canSign(g.Name()) {
			m.doSign(t)
			m.class("final-sign")
		}

		nt := m.epochChanges >= 2 && (m.signs+m.mixChecks+m.mixSigns) >= 1
		d := append([]string(nil), m.desc...)
		sort.Strings(d)
		classes := append([]string{
			"group=" + g.Name(), "initial-family=" + p.Family, "initial-ids=" + regime,
			fmt.Sprintf("length=%d", len(m.desc)), fmt.Sprintf("epoch-changes=%d", m.epochChanges),
			fmt.Sprintf("signs=%d", m.signs), fmt.Sprintf("mix-reconstruct-checks=%d", m.mixChecks), fmt.Sprintf("mix-signs=%d", m.mixSigns),
			fmt.Sprintf("nontrivial=%v", nt),
		}, m.classes...)
		vlib.Case(test, vlib.Desc(len(d), strings.Join(d, ";")), nt, classes...)
		vlib.Sample("history:"+g.Name(), map[string]any{"group": g.Name(), "history": m.trace})
	})
}
