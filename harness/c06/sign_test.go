package c06

import (
	"bytes"
	"crypto/ecdsa"
	"crypto/elliptic"
	"fmt"
	"math/big"
	"strings"
	"time"

	"pgregory.net/rapid"

	"github.com/bronlabs/bron-crypto/pkg/network"
	"github.com/bronlabs/bron-crypto/pkg/proofs/sigma/compiler/fiatshamir"
	"verif/harness/vlib/netsim"
	"verif/harness/vlib/proto"
	"verif/harness/vlib/refcurve"
)

// ---- signing on base shards (the C01 oracle, reused) -------------------------------------------
//
// signOutcome says how far a signing attempt got. For an honest quorum of the current epoch the
// only acceptable outcome is "valid"; for a mixed-epoch quorum every outcome but "valid" is fine.

type signOutcome struct {
	stage string // "constructor", "run", "aggregate", "verify-lib", "verify-indep", "valid"
	err   string
	sig   string
	indep string // level of independence reached by the reference verifier
}

func (o signOutcome) valid() bool { return o.stage == "valid" }

// signerChoice is one signing configuration applicable to a group.
type signerChoice struct {
	schnorr proto.SchnorrSigner
	ecdsa   proto.ECDSASigner
}

func (c signerChoice) name() string {
	if c.schnorr != nil {
		return c.schnorr.Name()
	}
	return "dkls23-softspoken-" + c.ecdsa.Name()
}

func (c signerChoice) kind() string {
	if c.schnorr != nil {
		switch {
		case c.schnorr.Name() == "lindell22-bip340":
			return "lindell22-bip340"
		case c.schnorr.Name() == "lindell22-mina":
			return "lindell22-mina"
		}
		return "lindell22-schnorr"
	}
	return "dkls23-softspoken"
}

var (
	allSchnorr = proto.SchnorrSigners()
	allECDSA   = proto.ECDSASigners()
)

func schnorrFor(group string) []proto.SchnorrSigner {
	var out []proto.SchnorrSigner
	for _, s := range allSchnorr {
		if s.GroupName() == group {
			out = append(out, s)
		}
	}
	return out
}

func ecdsaFor(group string) []proto.ECDSASigner {
	var out []proto.ECDSASigner
	for _, s := range allECDSA {
		if s.Curve() == group {
			out = append(out, s)
		}
	}
	return out
}

// canSign reports whether the library has a threshold signing protocol over the group.
func canSign(group string) bool { return len(schnorrFor(group)) > 0 }

// drawSigner draws a signing configuration for the group; DKLs23 only for quorums of at most
// maxECDSA members (the pairwise multiplications dominate the cost).
func drawSigner(t *rapid.T, group string, quorumSize, maxECDSA int) signerChoice {
	sch := schnorrFor(group)
	ecd := ecdsaFor(group)
	if len(ecd) > 0 && quorumSize <= maxECDSA && rapid.IntRange(0, 2).Draw(t, "ecdsa?") == 0 {
		return signerChoice{ecdsa: rapid.SampledFrom(ecd).Draw(t, "ecdsaSuite")}
	}
	// the named flavours (BIP-340 / Mina) take half of the Schnorr cases where they exist
	if (sch[0].Name() == "lindell22-bip340" || sch[0].Name() == "lindell22-mina") && rapid.Bool().Draw(t, "named") {
		return signerChoice{schnorr: sch[0]}
	}
	return signerChoice{schnorr: rapid.SampledFrom(sch).Draw(t, "schnorrSuite")}
}

// trySign runs one threshold signing over the given shards (one per quorum member; they may come
// from different epochs) and judges the result against the ORIGINAL public key pk, with the
// library verifier and the independent one. refShard supplies the public material for the
// aggregator / library verifier (its public key is asserted by the caller to be pk).
func trySign(c signerChoice, quorum []proto.ID, shards map[proto.ID]any, refShard any, pk, msg []byte, seed uint64, runNo int, idle time.Duration, mixed bool) (out signOutcome, panicked string) {
	label := fmt.Sprintf("sign#%d", runNo) // fresh random tapes for every run of a history
	ctxs, err := proto.Contexts(quorum, seed, label)
	if err != nil {
		return signOutcome{stage: "constructor", err: "contexts: " + err.Error()}, ""
	}
	runners := map[proto.ID]network.Runner[any]{}
	for _, id := range quorum {
		var r network.Runner[any]
		if c.schnorr != nil {
			r, err = c.schnorr.Runner(ctxs[id], shards[id], fiatshamir.Name, msg, proto.PartyPRNG(seed, label+"/l22", id))
		} else {
			r, err = c.ecdsa.DKLS23Runner("softspoken", ctxs[id], shards[id], msg, proto.PartyPRNG(seed, label+"/dkls", id))
		}
		if err != nil {
			return signOutcome{stage: "constructor", err: fmt.Sprintf("party %d: %v", id, err)}, ""
		}
		runners[id] = r
	}
	opt := netsim.Options{Idle: idle, Hard: 15 * time.Minute}
	if mixed {
		// parties holding inconsistent material may all wait for each other: no verdict, not a hang
		opt.StallOK = func() bool { return true }
	}
	res, oc := netsim.RunAll(netsim.New(quorum), runners, opt)
	if oc.HardStop {
		return signOutcome{stage: "run", err: "hard stop: signing did not terminate"}, ""
	}
	partials := map[proto.ID]any{}
	for _, id := range quorum {
		r := res[id]
		if r.Panic != nil {
			return signOutcome{stage: "run"}, fmt.Sprintf("party %d panicked: %v\n%s", id, r.Panic, r.Stack)
		}
		if r.Err != nil || r.Cancelled || !r.Done {
			return signOutcome{stage: "run", err: fmt.Sprintf("party %d: err=%v cancelled=%v", id, r.Err, r.Cancelled)}, ""
		}
		partials[id] = r.Out
	}
	if c.schnorr != nil {
		sig, err := c.schnorr.Aggregate(refShard, msg, partials)
		if err != nil {
			return signOutcome{stage: "aggregate", err: err.Error()}, ""
		}
		if err := c.schnorr.VerifyLib(refShard, msg, sig); err != nil {
			return signOutcome{stage: "verify-lib", err: err.Error(), sig: sig.String()}, ""
		}
		ok, indep, why := schnorrValid(c.schnorr, pk, msg, sig)
		if !ok {
			return signOutcome{stage: "verify-indep", err: why, sig: sig.String(), indep: indep}, ""
		}
		return signOutcome{stage: "valid", sig: sig.String(), indep: indep}, ""
	}
	var order []any
	for _, id := range quorum {
		order = append(order, partials[id])
	}
	sig, err := c.ecdsa.DKLS23Aggregate(refShard, msg, order)
	if err != nil {
		return signOutcome{stage: "aggregate", err: err.Error()}, ""
	}
	if err := c.ecdsa.VerifyLib(refShard, msg, sig); err != nil {
		return signOutcome{stage: "verify-lib", err: err.Error(), sig: sig.String()}, ""
	}
	ok, why := ecdsaValid(c.ecdsa, pk, msg, sig)
	if !ok {
		return signOutcome{stage: "verify-indep", err: why, sig: sig.String(), indep: "reference-ecdsa"}, ""
	}
	return signOutcome{stage: "valid", sig: sig.String(), indep: "reference-ecdsa"}, ""
}

// ---- independent verifiers (as in c01, returning a verdict instead of failing) ---------------

// refPoint decodes a library point encoding (Bytes()) into the reference model.
func refPoint(curve string, b []byte) (*refcurve.Curve, refcurve.Point, error) {
	switch curve {
	case "k256":
		c := refcurve.K256()
		p, _, err := c.DecodeSEC1(b)
		return c, p, err
	case "p256":
		c := refcurve.P256()
		p, _, err := c.DecodeSEC1(b)
		return c, p, err
	case "ed25519":
		c := refcurve.Ed25519()
		p, _, err := refcurve.DecodeEd25519(b)
		return c, p, err
	case "pallas":
		c := minaPallas()
		p, _, err := c.DecodePasta(b)
		return c, p, err
	}
	return nil, refcurve.Point{}, fmt.Errorf("no reference decoder for %s", curve)
}

// minaPallas is the Pallas curve of the reference model with the base point the library (and
// Mina) uses, (1, 0x1b74...2abb), instead of the pasta_curves generator (-1, 2). Same group,
// different conventional generator; the constant is typed in and checked in the model.
func minaPallas() *refcurve.Curve {
	c := *refcurve.Pallas()
	y, _ := new(big.Int).SetString("1b74b5a30a12937c53dfa9f06378ee548f655bd4333d477119cf7a23caed2abb", 16)
	g, err := c.FromAffine(big.NewInt(1), y)
	if err != nil || !c.IsInPrimeSubgroup(g) {
		panic("mina pallas generator is not a valid point of the model")
	}
	c.G = g
	return &c
}

// schnorrValid judges a Schnorr-like signature under the public key encoding pkb in the reference
// model: the full BIP-340 verifier of the BIP text, or the group equation [s]G = R ± [e]P for the
// configurable variants (Mina: library verifier only, no independent Poseidon offline).
func schnorrValid(sg proto.SchnorrSigner, pkb, msg []byte, sig *proto.SchnorrSig) (ok bool, level, why string) {
	name := sg.Name()
	if name == "lindell22-bip340" {
		c, P, err := refPoint("k256", pkb)
		if err != nil {
			return false, "bip340-full", "public key does not decode in the reference model: " + err.Error()
		}
		_, R, err := refPoint("k256", sig.R)
		if err != nil {
			return false, "bip340-full", "R does not decode in the reference model: " + err.Error()
		}
		px, _ := c.AffineBytesBE(P)
		rx, _ := c.AffineBytesBE(R)
		s := make([]byte, 32)
		sig.S.FillBytes(s)
		if !refcurve.BIP340Verify(px, msg, append(append([]byte{}, rx...), s...)) {
			return false, "bip340-full", fmt.Sprintf("BIP-340 reference verifier rejects (R=%x s=%x)", rx, s)
		}
		if refcurve.BIP340Verify(px, append(append([]byte{}, msg...), 1), append(append([]byte{}, rx...), s...)) {
			return false, "bip340-full", "BIP-340 reference verifier accepts the signature for another message"
		}
		return true, "bip340-full", ""
	}
	if name == "lindell22-mina" {
		return true, "library-only", ""
	}
	c, P, err := refPoint(sg.GroupName(), pkb)
	if err != nil {
		return false, "equation", "public key does not decode in the reference model: " + err.Error()
	}
	_, R, err := refPoint(sg.GroupName(), sig.R)
	if err != nil {
		return false, "equation", "R does not decode in the reference model: " + err.Error()
	}
	if sig.E == nil {
		return true, "library-only", ""
	}
	e := new(big.Int).Set(sig.E)
	if strings.Contains(name, "neg=true") {
		e.Neg(e) // s = k - e x  <=>  [s]G = R + [-e]P
	}
	if !c.SchnorrEquation(sig.S, R, e, P) {
		return false, "equation", "group equation [s]G = R ± [e]P fails in the reference model"
	}
	return true, "equation", ""
}

// ecdsaValid: textbook ECDSA over the public key encoding pkb (compressed SEC 1), with crypto/ecdsa
// for P-256 and the math/big curve model for secp256k1; also rejects another message.
func ecdsaValid(sg proto.ECDSASigner, pkb, msg []byte, sig *proto.ECDSASig) (bool, string) {
	c, Q, err := refPoint(sg.Curve(), pkb)
	if err != nil {
		return false, "public key does not decode in the reference model: " + err.Error()
	}
	xb, yb := c.AffineBytesBE(Q)
	x, y := new(big.Int).SetBytes(xb), new(big.Int).SetBytes(yb)
	h := sg.HashFunc()()
	h.Write(msg)
	digest := h.Sum(nil)
	h2 := sg.HashFunc()()
	h2.Write(append(append([]byte{}, msg...), 0x01))
	digest2 := h2.Sum(nil)
	switch sg.Curve() {
	case "p256":
		pub := &ecdsa.PublicKey{Curve: elliptic.P256(), X: x, Y: y}
		if !ecdsa.Verify(pub, digest, sig.R, sig.S) {
			return false, "crypto/ecdsa rejects the signature"
		}
		if ecdsa.Verify(pub, digest2, sig.R, sig.S) {
			return false, "crypto/ecdsa accepts the signature for another message"
		}
	case "k256":
		if !c.ECDSAVerify(Q, digest, sig.R, sig.S) {
			return false, "reference ECDSA verifier rejects the signature"
		}
		if c.ECDSAVerify(Q, digest2, sig.R, sig.S) {
			return false, "reference ECDSA verifier accepts the signature for another message"
		}
	default:
		return false, "no reference ECDSA for " + sg.Curve()
	}
	return true, ""
}

// refLiftEquals checks [s]G == pk in the reference model (independent of the library's group
// arithmetic); ok=false when the model has no decoder for the group.
func refLiftEquals(group string, s *big.Int, pk []byte) (equal, ok bool) {
	c, P, err := refPoint(group, pk)
	if err != nil {
		return false, false
	}
	return c.Equal(c.ScalarBaseMul(s), P), true
}

var msgClasses = []string{"empty", "1byte", "32", "64", "65", "long", "zeros", "ones"}

func drawMessage(t *rapid.T) ([]byte, string) {
	cls := rapid.SampledFrom(msgClasses).Draw(t, "msgClass")
	n := 0
	switch cls {
	case "empty":
		return []byte{}, cls
	case "1byte":
		n = 1
	case "long":
		n = rapid.IntRange(129, 1024).Draw(t, "msgLen")
	case "zeros":
		return make([]byte, 32), cls
	case "ones":
		return bytes.Repeat([]byte{0xff}, 32), cls
	default:
		fmt.Sscan(cls, &n)
	}
	return rapid.SliceOfN(rapid.Byte(), n, n).Draw(t, "msg"), cls
}
