package c19

import (
	"testing"

	"verif/harness/vlib"
)

func TestMain(m *testing.M) { vlib.Main(m) }
