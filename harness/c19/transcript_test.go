package c19

import (
	"bytes"
	"encoding/hex"
	"fmt"
	"reflect"
	"testing"

	"pgregory.net/rapid"

	"github.com/bronlabs/bron-crypto/pkg/transcripts"
	"github.com/bronlabs/bron-crypto/pkg/transcripts/hagrid"
	"verif/harness/vlib"
)

// A history is a list of labelled operations. The oracle is metamorphic and needs no model of
// the framing: two structurally equal histories must give equal outputs, two structurally
// different ones must differ in every extraction after the first point of difference.

type op struct {
	Kind  string   // "dom", "app", "ext"
	Label string   // tag for dom, label for app/ext
	Msgs  [][]byte // app
	N     uint     // ext
}

func (o op) String() string {
	switch o.Kind {
	case "dom":
		return fmt.Sprintf("dom(%q)", o.Label)
	case "app":
		ms := make([]string, len(o.Msgs))
		for i, m := range o.Msgs {
			ms[i] = hex.EncodeToString(m)
			if len(m) > 600 { // long-message tail: keep failure messages and samples readable
				ms[i] = fmt.Sprintf("%s..(%d bytes)", hex.EncodeToString(m[:32]), len(m))
			}
		}
		return fmt.Sprintf("app(%q,%v)", o.Label, ms)
	default:
		return fmt.Sprintf("ext(%q,%d)", o.Label, o.N)
	}
}

func opsEqual(a, b op) bool {
	if a.Kind != b.Kind || a.Label != b.Label || a.N != b.N || len(a.Msgs) != len(b.Msgs) {
		return false
	}
	for i := range a.Msgs {
		if !bytes.Equal(a.Msgs[i], b.Msgs[i]) {
			return false
		}
	}
	return true
}

var labelGenUsual = rapid.OneOf(
	rapid.SampledFrom([]string{"", "a", "ab", "abc", "b", "bc", "c", "label", "label2", "\x00", "\x00\x00", "\xa1"}),
	rapid.StringN(0, 12, 40),
)

var smallMsgs = [][]byte{{}, {0}, {0, 0}, []byte("a"), []byte("ab"), []byte("abc"), []byte("b"), []byte("bc"), []byte("c"),
	{0, 0, 0, 0, 0, 0, 0, 1}, {0xa0}, {0xa1}, {0xa2}, {0xa3}, {0xa4}}

var msgGenUsual = rapid.OneOf(
	rapid.SampledFrom(smallMsgs),
	rapid.SliceOfN(rapid.Byte(), 0, 200),
)

// Low-weight tails of LONG labels and messages. The transcript frames every label, message and
// message count with an 8-byte big-endian length and absorbs into cSHAKE256 (rate 136 bytes);
// it imposes no limit on any length. Lengths up to 200 keep seven of the eight prefix bytes zero,
// so the tails cross 255/256/257 (second prefix byte), the rate (135..137, 271..273) and reach a
// few thousand bytes.
var longLens = []int{135, 136, 137, 255, 256, 257, 271, 272, 273, 300, 512, 1000, 4096}

var labelGen = rapid.Custom(func(t *rapid.T) string {
	if rapid.IntRange(1, 30).Draw(t, "longLabel") == 30 {
		n := rapid.SampledFrom(longLens[:11]).Draw(t, "labelLen")
		return string(h2cStream(rapid.Uint64().Draw(t, "labelSeed"), "label", n))
	}
	return labelGenUsual.Draw(t, "label")
})

var msgGen = rapid.Custom(func(t *rapid.T) []byte {
	if rapid.IntRange(1, 30).Draw(t, "longMsg") == 30 {
		n := rapid.SampledFrom(longLens).Draw(t, "msgLen")
		return h2cStream(rapid.Uint64().Draw(t, "msgSeed"), "msg", n)
	}
	return msgGenUsual.Draw(t, "msg")
})

// genMsgs: 0..4 messages per append, rarely many (the message count is framed like a length;
// 255/256/257 messages cross its second byte) - then of the small fixed messages only.
func genMsgs(t *rapid.T, name string) [][]byte {
	if rapid.IntRange(1, 40).Draw(t, name+"manyMsgs") == 40 {
		n := rapid.SampledFrom([]int{5, 9, 17, 255, 256, 257}).Draw(t, name+"msgCount")
		out := make([][]byte, n)
		for i := range out {
			out[i] = smallMsgs[rapid.IntRange(0, len(smallMsgs)-1).Draw(t, fmt.Sprintf("%sm%d", name, i))]
		}
		return out
	}
	return rapid.SliceOfN(msgGen, 0, 4).Draw(t, name+"msgs")
}

func genOp(t *rapid.T, name string) op {
	switch rapid.IntRange(0, 9).Draw(t, name+"kind") {
	case 0, 1:
		return op{Kind: "dom", Label: labelGen.Draw(t, name+"tag")}
	case 2, 3:
		ns := []uint{1, 2, 15, 16, 17, 31, 32, 33, 64, 136, 137, 272, 300}
		return op{Kind: "ext", Label: labelGen.Draw(t, name+"label"), N: rapid.SampledFrom(ns).Draw(t, name+"n")}
	default:
		return op{Kind: "app", Label: labelGen.Draw(t, name+"label"), Msgs: genMsgs(t, name)}
	}
}

// run executes a history on a fresh library transcript and returns the extraction outputs in order.
func run(t *rapid.T, name string, h []op) [][]byte {
	tr := hagrid.NewTranscript(name)
	return runOn(t, tr, h)
}

func runOn(t *rapid.T, tr transcripts.Transcript, h []op) [][]byte {
	var outs [][]byte
	for _, o := range h {
		switch o.Kind {
		case "dom":
			tr.AppendDomainSeparator(o.Label)
		case "app":
			tr.AppendBytes(o.Label, o.Msgs...)
		case "ext":
			b, err := tr.ExtractBytes(o.Label, o.N)
			if err != nil {
				t.Fatalf("ExtractBytes(%q,%d) failed: %v", o.Label, o.N, err)
			}
			if uint(len(b)) != o.N {
				t.Fatalf("ExtractBytes(%q,%d) returned %d bytes", o.Label, o.N, len(b))
			}
			outs = append(outs, b)
		}
	}
	return outs
}

const cmpLen = 16

// minimal prefix comparison: outputs shorter than cmpLen are not compared for inequality
// (a 1-byte extraction collides by chance with probability 2^-8).
func comparable16(a, b []byte) bool { return len(a) >= cmpLen && len(b) >= cmpLen }

// edit derives a structurally different history; returns the new history, the index (in the
// new history) from which all extractions must differ, the matching index in the old one and the
// name of the edit class. ok=false when the drawn edit is not applicable.
func edit(t *rapid.T, h []op) (h2 []op, from2, from1 int, class string, ok bool) {
	cp := func() []op {
		c := make([]op, len(h))
		for i, o := range h {
			o.Msgs = append([][]byte(nil), o.Msgs...)
			c[i] = o
		}
		return c
	}
	pickKind := func(kind string) int {
		var idx []int
		for i, o := range h {
			if o.Kind == kind {
				idx = append(idx, i)
			}
		}
		if len(idx) == 0 {
			return -1
		}
		return rapid.SampledFrom(idx).Draw(t, "at")
	}
	class = rapid.SampledFrom([]string{
		"resplit-label-msg", "resplit-msgs", "merge-msgs", "insert-empty-msg", "swap-ops", "drop-op", "dup-op",
		"change-len", "change-label", "change-dom", "insert-extract", "prefix", "move-msg-across-ops", "change-msg-byte",
	}).Draw(t, "edit")
	h2 = cp()
	switch class {
	case "resplit-label-msg":
		// label "ab" + first message "c..."  <->  label "a" + first message "bc..."
		i := pickKind("app")
		if i < 0 || len(h[i].Msgs) == 0 {
			return nil, 0, 0, class, false
		}
		whole := append([]byte(h[i].Label), h[i].Msgs[0]...)
		if len(whole) == 0 {
			return nil, 0, 0, class, false
		}
		cut := rapid.IntRange(0, len(whole)).Draw(t, "cut")
		if cut == len(h[i].Label) {
			return nil, 0, 0, class, false
		}
		h2[i].Label = string(whole[:cut])
		h2[i].Msgs[0] = append([]byte(nil), whole[cut:]...)
		return h2, i, i, class, true
	case "resplit-msgs":
		// one message -> two messages with the same concatenation
		i := pickKind("app")
		if i < 0 || len(h[i].Msgs) == 0 {
			return nil, 0, 0, class, false
		}
		j := rapid.IntRange(0, len(h[i].Msgs)-1).Draw(t, "j")
		m := h[i].Msgs[j]
		cut := rapid.IntRange(0, len(m)).Draw(t, "cut")
		nm := append([][]byte{}, h[i].Msgs[:j]...)
		nm = append(nm, append([]byte(nil), m[:cut]...), append([]byte(nil), m[cut:]...))
		nm = append(nm, h[i].Msgs[j+1:]...)
		h2[i].Msgs = nm
		return h2, i, i, class, true
	case "merge-msgs":
		i := pickKind("app")
		if i < 0 || len(h[i].Msgs) < 2 {
			return nil, 0, 0, class, false
		}
		j := rapid.IntRange(0, len(h[i].Msgs)-2).Draw(t, "j")
		nm := append([][]byte{}, h[i].Msgs[:j]...)
		nm = append(nm, append(append([]byte(nil), h[i].Msgs[j]...), h[i].Msgs[j+1]...))
		nm = append(nm, h[i].Msgs[j+2:]...)
		h2[i].Msgs = nm
		return h2, i, i, class, true
	case "insert-empty-msg":
		i := pickKind("app")
		if i < 0 {
			return nil, 0, 0, class, false
		}
		j := rapid.IntRange(0, len(h[i].Msgs)).Draw(t, "j")
		nm := append([][]byte{}, h[i].Msgs[:j]...)
		nm = append(nm, []byte{})
		nm = append(nm, h[i].Msgs[j:]...)
		h2[i].Msgs = nm
		return h2, i, i, class, true
	case "move-msg-across-ops":
		// app(l; a, b) app(l; c)  ->  app(l; a) app(l; b, c): same label, same concatenated messages
		for i := 0; i+1 < len(h); i++ {
			if h[i].Kind == "app" && h[i+1].Kind == "app" && h[i].Label == h[i+1].Label && len(h[i].Msgs) > 0 {
				last := h[i].Msgs[len(h[i].Msgs)-1]
				h2[i].Msgs = h2[i].Msgs[:len(h2[i].Msgs)-1]
				h2[i+1].Msgs = append([][]byte{last}, h2[i+1].Msgs...)
				return h2, i, i, class, true
			}
		}
		return nil, 0, 0, class, false
	case "change-msg-byte":
		i := pickKind("app")
		if i < 0 || len(h[i].Msgs) == 0 {
			return nil, 0, 0, class, false
		}
		j := rapid.IntRange(0, len(h[i].Msgs)-1).Draw(t, "j")
		if len(h[i].Msgs[j]) == 0 {
			return nil, 0, 0, class, false
		}
		k := rapid.IntRange(0, len(h[i].Msgs[j])-1).Draw(t, "k")
		m := append([]byte(nil), h[i].Msgs[j]...)
		m[k] ^= 1 << rapid.IntRange(0, 7).Draw(t, "bit")
		h2[i].Msgs[j] = m
		return h2, i, i, class, true
	case "swap-ops":
		if len(h) < 2 {
			return nil, 0, 0, class, false
		}
		i := rapid.IntRange(0, len(h)-2).Draw(t, "i")
		j := rapid.IntRange(i+1, len(h)-1).Draw(t, "j")
		if opsEqual(h[i], h[j]) {
			return nil, 0, 0, class, false
		}
		// swapping must change the sequence: it does unless all ops in i..j are equal (excluded above for i,j)
		h2[i], h2[j] = h2[j], h2[i]
		// extractions at positions > j are aligned; positions in (i, j] are also after the first
		// difference but compare different operations, so only those after j are compared.
		return h2, j + 1, j + 1, class, true
	case "drop-op":
		i := rapid.IntRange(0, len(h)-1).Draw(t, "i")
		// dropping op i from a run of identical ops yields the same sequence only if the whole
		// tail is that op repeated; handled by the structural-equality guard of the caller.
		h2 = append(h2[:i], h2[i+1:]...)
		return h2, i, i + 1, class, true
	case "dup-op":
		i := rapid.IntRange(0, len(h)-1).Draw(t, "i")
		h2 = append(h2[:i+1], append([]op{h[i]}, h2[i+1:]...)...)
		return h2, i + 2, i + 1, class, true
	case "change-len":
		i := pickKind("ext")
		if i < 0 {
			return nil, 0, 0, class, false
		}
		n := rapid.SampledFrom([]uint{16, 17, 32, 33, 64, 100}).Draw(t, "n2")
		if n == h[i].N {
			return nil, 0, 0, class, false
		}
		h2[i].N = n
		return h2, i, i, class, true
	case "change-label":
		i := rapid.IntRange(0, len(h)-1).Draw(t, "i")
		if h[i].Kind == "dom" {
			return nil, 0, 0, class, false
		}
		l := labelGen.Draw(t, "label2")
		if l == h[i].Label {
			return nil, 0, 0, class, false
		}
		h2[i].Label = l
		return h2, i, i, class, true
	case "change-dom":
		i := pickKind("dom")
		if i < 0 {
			return nil, 0, 0, class, false
		}
		l := labelGen.Draw(t, "tag2")
		if l == h[i].Label {
			return nil, 0, 0, class, false
		}
		h2[i].Label = l
		return h2, i, i, class, true
	case "insert-extract":
		i := rapid.IntRange(0, len(h)).Draw(t, "i")
		e := op{Kind: "ext", Label: labelGen.Draw(t, "elabel"), N: rapid.SampledFrom([]uint{1, 16, 32, 200}).Draw(t, "en")}
		h2 = append(h2[:i], append([]op{e}, h2[i:]...)...)
		return h2, i + 1, i, class, true
	case "prefix":
		if len(h) < 2 {
			return nil, 0, 0, class, false
		}
		i := rapid.IntRange(1, len(h)-1).Draw(t, "cutat")
		// old: h[:i] ++ h[i:] ++ final; new: h[:i] ++ final — only the final extraction is compared
		return h2[:i], i, len(h), class, true
	}
	return nil, 0, 0, class, false
}

func extIndex(h []op, pos int) int { // number of extractions strictly before op position pos
	n := 0
	for i := 0; i < pos && i < len(h); i++ {
		if h[i].Kind == "ext" {
			n++
		}
	}
	return n
}

func historiesEqual(a, b []op) bool {
	if len(a) != len(b) {
		return false
	}
	for i := range a {
		if !opsEqual(a[i], b[i]) {
			return false
		}
	}
	return true
}

func TestTranscriptPairs(t *testing.T) {
	const test = "TranscriptPairs"
	vlib.Check(t, 12000, func(t *rapid.T) {
		name := rapid.SampledFrom([]string{"", "p", "proto", "proto2"}).Draw(t, "name")
		n := rapid.IntRange(1, 8).Draw(t, "len")
		if rapid.IntRange(1, 40).Draw(t, "longHistory") == 40 {
			n = rapid.SampledFrom([]int{9, 16, 33}).Draw(t, "lenBig") // no limit on the number of operations
		}
		h := make([]op, n)
		for i := range h {
			h[i] = genOp(t, fmt.Sprintf("op%d.", i))
		}
		final := op{Kind: "ext", Label: "final", N: 32}

		// (ii) equal histories => equal outputs (two instances)
		full1 := append(append([]op{}, h...), final)
		o1 := run(t, name, full1)
		o1b := run(t, name, full1)
		if !reflect.DeepEqual(o1, o1b) {
			t.Fatalf("same history, different outputs: %v", full1)
		}

		// (iii) one edit => every later extraction differs
		h2, from2, from1, class, ok := edit(t, h)
		if !ok {
			vlib.Case(test, "inapplicable|"+class, false, "edit-inapplicable")
			return
		}
		full2 := append(append([]op{}, h2...), final)
		if historiesEqual(full1, full2) {
			vlib.Case(test, "noop|"+class, false, "edit-noop")
			return
		}
		o2 := run(t, name, full2)
		e1, e2 := extIndex(full1, from1), extIndex(full2, from2)
		// the edited op itself, when it is an extraction on both sides, is compared too (change-len/label)
		compared := 0
		for a, b := e1, e2; a < len(o1) && b < len(o2); a, b = a+1, b+1 {
			if !comparable16(o1[a], o2[b]) {
				continue
			}
			compared++
			if bytes.Equal(o1[a][:cmpLen], o2[b][:cmpLen]) {
				t.Fatalf("edit %s: extraction #%d/#%d equal although histories differ\nH1=%v\nH2=%v", class, a, b, full1, full2)
			}
		}
		if len(o1)-e1 != len(o2)-e2 {
			t.Fatalf("harness alignment error: %d vs %d later extractions (edit %s)", len(o1)-e1, len(o2)-e2, class)
		}
		// different protocol names are different transcripts as well
		if name2 := name + "x"; true {
			o3 := run(t, name2, full1)
			if bytes.Equal(o3[len(o3)-1][:cmpLen], o1[len(o1)-1][:cmpLen]) {
				t.Fatalf("transcripts named %q and %q agree", name, name2)
			}
		}
		vlib.Case(test, vlib.Desc(class, len(h), compared), len(h) >= 3 && compared >= 1, "edit="+class)
		vlib.Sample("transcript-pair:"+class, map[string]any{"edit": class, "h1": fmt.Sprint(full1), "h2": fmt.Sprint(full2)})
	})
}

// Clones: equal at the clone point, then independent.
func TestTranscriptClone(t *testing.T) {
	const test = "TranscriptClone"
	vlib.Check(t, 6000, func(t *rapid.T) {
		mk := func(prefix string, lo, hi int) []op {
			n := rapid.IntRange(lo, hi).Draw(t, prefix+"len")
			h := make([]op, n)
			for i := range h {
				h[i] = genOp(t, fmt.Sprintf("%s%d.", prefix, i))
			}
			return h
		}
		pre, onClone, onOrig, tail := mk("pre", 0, 5), mk("cl", 1, 4), mk("or", 0, 4), mk("tail", 0, 3)
		final := op{Kind: "ext", Label: "final", N: 32}

		orig := hagrid.NewTranscript("clone")
		runOn(t, orig, pre)
		// model of "what the original would have produced had no clone existed"
		ghost := hagrid.NewTranscript("clone")
		runOn(t, ghost, pre)

		cl := orig.Clone()
		order := rapid.Bool().Draw(t, "cloneFirst")
		var outClone, outOrig [][]byte
		if order {
			outClone = runOn(t, cl, append(append([]op{}, onClone...), final))
			outOrig = runOn(t, orig, append(append(append([]op{}, onOrig...), tail...), final))
		} else {
			outOrig = runOn(t, orig, append(append(append([]op{}, onOrig...), tail...), final))
			outClone = runOn(t, cl, append(append([]op{}, onClone...), final))
		}
		wantOrig := runOn(t, ghost, append(append(append([]op{}, onOrig...), tail...), final))
		if !reflect.DeepEqual(outOrig, wantOrig) {
			t.Fatalf("original affected by operations on its clone: pre=%v onClone=%v onOrig=%v", pre, onClone, onOrig)
		}
		// the clone behaves as a fresh transcript that saw pre ++ onClone
		fresh := hagrid.NewTranscript("clone")
		wantClone := runOn(t, fresh, append(append(append([]op{}, pre...), onClone...), final))
		nPre := extIndex(pre, len(pre))
		if !reflect.DeepEqual(outClone, wantClone[nPre:]) {
			t.Fatalf("clone diverges from a transcript with the same history: pre=%v onClone=%v", pre, onClone)
		}
		// independence: unless the two continuations are the same sequence the finals differ
		a := append(append([]op{}, onOrig...), tail...)
		diff := !historiesEqual(a, onClone)
		if diff && bytes.Equal(outOrig[len(outOrig)-1][:cmpLen], outClone[len(outClone)-1][:cmpLen]) {
			t.Fatalf("clone and original agree after different continuations: %v vs %v", a, onClone)
		}
		if !diff && !bytes.Equal(outOrig[len(outOrig)-1], outClone[len(outClone)-1]) {
			t.Fatalf("clone and original disagree after identical continuations")
		}
		vlib.Case(test, vlib.Desc(len(pre), len(onClone), len(onOrig), order, diff), len(pre) > 0 && diff, fmt.Sprintf("cloneFirst=%v", order))
		vlib.Sample("transcript-clone", map[string]any{"pre": fmt.Sprint(pre), "onClone": fmt.Sprint(onClone), "onOrig": fmt.Sprint(a)})
	})
}

func TestTranscriptZeroLength(t *testing.T) {
	tr := hagrid.NewTranscript("z")
	if _, err := tr.ExtractBytes("x", 0); err == nil {
		t.Fatalf("ExtractBytes(...,0) must fail")
	}
	vlib.Case("TranscriptZeroLength", "zero", false)
}
