package c19

import (
	"bytes"
	"embed"
	"encoding/hex"
	"encoding/json"
	"fmt"
	"math/big"
	"sort"
	"strings"
	"testing"

	h2c "github.com/bronlabs/bron-crypto/pkg/base/curves/impl/rfc9380"
	"verif/harness/vlib"
	"verif/harness/vlib/refcurve"
)

// Pinned copies of the published vectors (RFC 9380 appendix J / K, the pasta_curves crate, the
// Ethereum consensus hash_to_G2 tests) taken from the repository's testvectors directories;
// curve25519_xmd_sha512_ell2_ro.json was extracted from curve25519/curve_test.go.
//
//go:embed testdata
var h2cTestdata embed.FS

// a coordinate is "hex" over F_p and ["hex c0", "hex c1"] over F_p²
type h2cCoord [][]byte

func (c *h2cCoord) UnmarshalJSON(b []byte) error {
	var one string
	var many []string
	if err := json.Unmarshal(b, &one); err == nil {
		many = []string{one}
	} else if err := json.Unmarshal(b, &many); err != nil {
		return err
	}
	*c = nil
	for _, s := range many {
		v, err := hex.DecodeString(s)
		if err != nil {
			return err
		}
		*c = append(*c, v)
	}
	return nil
}

func (c h2cCoord) present() bool {
	for _, v := range c {
		if len(v) > 0 {
			return true
		}
	}
	return false
}

type h2cVecPoint struct {
	X h2cCoord `json:"x"`
	Y h2cCoord `json:"y"`
}

type h2cSuiteFile struct {
	Suite   string `json:"suite"`
	Dst     string `json:"dst"`
	Vectors []struct {
		Msg string        `json:"msg"`
		P   h2cVecPoint   `json:"p"`
		U   []h2cCoord    `json:"u"`
		Q   []h2cVecPoint `json:"q"`
	} `json:"vectors"`
}

type h2cExpandFile struct {
	Dst   string `json:"dst"`
	K     uint   `json:"k"`
	Cases []struct {
		Msg          string `json:"msg"`
		LenInBytes   uint   `json:"len_in_bytes"`
		UniformBytes string `json:"uniform_bytes"`
	} `json:"cases"`
}

func h2cReadJSON(t *testing.T, name string, v any) {
	t.Helper()
	b, err := h2cTestdata.ReadFile("testdata/" + name)
	if err != nil {
		t.Fatalf("testdata: %v", err)
	}
	if err := json.Unmarshal(b, v); err != nil {
		t.Fatalf("testdata %s: %v", name, err)
	}
}

// numeric comparison of coordinate components (vectors are not always zero-padded)
func h2cCoordEq(got [][]byte, want h2cCoord) bool {
	if len(got) != len(want) {
		return false
	}
	for i := range got {
		if new(big.Int).SetBytes(got[i]).Cmp(new(big.Int).SetBytes(want[i])) != 0 {
			return false
		}
	}
	return true
}

func TestRFC9380Vectors(t *testing.T) {
	const test = "RFC9380Vectors"
	idx := 0
	mine := func() bool { idx++; return vlib.Mine(idx - 1) }

	// --- suites: file, target, random-oracle (hash_to_curve) or non-uniform (encode_to_curve), field for u
	suites := []struct {
		file, target, field string
		ro                  bool
	}{
		{"secp256k1_xmd_sha256_sswu_ro.json", "k256", "k256-base", true},
		{"secp256k1_xmd_sha256_sswu_nu.json", "k256", "k256-base", false},
		{"p256_xmd_sha256_sswu_ro.json", "p256", "p256-base", true},
		{"p256_xmd_sha256_sswu_nu.json", "p256", "p256-base", false},
		{"edwards25519_xmd_sha512_ell2_ro.json", "edwards25519", "edwards25519-base", true},
		{"edwards25519_xmd_sha512_ell2_nu.json", "edwards25519", "edwards25519-base", false},
		{"curve25519_xmd_sha512_ell2_ro.json", "curve25519", "edwards25519-base", true},
		{"bls12381g1_xmd_sha256_sswu_ro.json", "bls12381g1", "bls12381-g1base", true},
		{"bls12381g1_xmd_sha256_sswu_nu.json", "bls12381g1", "bls12381-g1base", false},
		{"bls12381g2_xmd_sha256_sswu_ro.json", "bls12381g2", "bls12381-g2base", true},
		{"bls12381g2_xmd_sha256_sswu_nu.json", "bls12381g2", "bls12381-g2base", false},
		{"pallas_xmd_blake2b_sswu_ro.json", "pallas", "pallas-base/vesta-scalar", true},
		{"vesta_xmd_blake2b_sswu_ro.json", "vesta", "vesta-base/pallas-scalar", true},
	}
	fields := map[string]h2cField{}
	for _, f := range h2cFields() {
		fields[f.name] = f
	}
	nSuiteVec := 0
	for _, s := range suites {
		var f h2cSuiteFile
		h2cReadJSON(t, s.file, &f)
		tg := h2cTargetByName(s.target)
		if len(f.Vectors) == 0 {
			t.Fatalf("%s: no vectors", s.file)
		}
		// the file must be for the construction the library names for this curve (up to RO/NU:
		// the exported edwards25519 / curve25519 constants say NU although HashWithDst computes
		// the two-element random-oracle construction; the vectors decide what is computed)
		if strings.TrimSuffix(strings.TrimSuffix(f.Suite, "RO_"), "NU_") != strings.TrimSuffix(strings.TrimSuffix(tg.suite, "RO_"), "NU_") {
			t.Fatalf("%s: suite %q is not the library's %q", s.file, f.Suite, tg.suite)
		}
		for i, v := range f.Vectors {
			nSuiteVec++
			if !mine() {
				continue
			}
			in := fmt.Sprintf("%s vector %d (msg %q…, %d bytes)", f.Suite, i, v.Msg[:min(len(v.Msg), 16)], len(v.Msg))
			fn := tg.hashDst
			if !s.ro {
				fn = tg.encode
			}
			var got h2cAffine
			var err error
			vlib.NoPanic(t, in, func() { got, err = fn(f.Dst, []byte(v.Msg)) })
			if err != nil {
				t.Fatalf("%s: %v", in, err)
			}
			if got.identity || !h2cCoordEq(got.x, v.P.X) || !h2cCoordEq(got.y, v.P.Y) {
				t.Fatalf("%s: library %v, published P = (%x, %x)", in, got, [][]byte(v.P.X), [][]byte(v.P.Y))
			}
			h2cMember(t, tg, got, in)
			// the independent implementations used as oracles by the differential tests
			// reproduce the published points as well
			if s.ro && (s.target == "p256" || s.target == "curve25519") {
				var r refcurve.Point
				if s.target == "p256" {
					r, _, _, err = refcurve.HashToCurveP256([]byte(v.Msg), []byte(f.Dst))
				} else {
					r, _, err = h2cHashToCurve25519([]byte(v.Msg), []byte(f.Dst))
				}
				if err != nil || r.X.Cmp(new(big.Int).SetBytes(v.P.X[0])) != 0 || r.Y.Cmp(new(big.Int).SetBytes(v.P.Y[0])) != 0 {
					t.Fatalf("%s: the reference implementation gives %v, not the published point (%v)", in, r, err)
				}
			}
			// u: the published hash_to_field outputs, where the file has them
			checkedU := false
			if len(v.U) > 0 && v.U[0].present() {
				fd := fields[s.field]
				us := fd.run(len(v.U), fd.params, f.Dst, []byte(v.Msg))
				for j := range v.U {
					for k := range v.U[j] {
						if us[j][k].Cmp(new(big.Int).SetBytes(v.U[j][k])) != 0 {
							t.Fatalf("%s: u[%d] component %d: library %x, published %x", in, j, k, us[j][k], v.U[j][k])
						}
					}
				}
				checkedU = true
			}
			vlib.Case(test, vlib.Desc(f.Suite, i), true, "suite="+f.Suite, fmt.Sprintf("u=%v", checkedU))
			vlib.Sample("vector:"+f.Suite, map[string]any{"suite": f.Suite, "dst": f.Dst, "msgLen": len(v.Msg), "P": got.String()})
		}
	}

	// --- Ethereum consensus-spec hash_to_G2 vectors (same suite and DST as RFC 9380 J.10.1)
	ents, err := h2cTestdata.ReadDir("testdata/eth_hash_to_G2")
	if err != nil || len(ents) == 0 {
		t.Fatalf("testdata/eth_hash_to_G2: %v (%d files)", err, len(ents))
	}
	names := []string{}
	for _, e := range ents {
		names = append(names, e.Name())
	}
	sort.Strings(names)
	g2 := h2cTargetByName("bls12381g2")
	for _, n := range names {
		if !mine() {
			continue
		}
		var v struct {
			Input  struct{ Msg string } `json:"input"`
			Output struct{ X, Y string } `json:"output"`
		}
		h2cReadJSON(t, "eth_hash_to_G2/"+n, &v)
		parse := func(s string) h2cCoord {
			var c h2cCoord
			for _, part := range strings.Split(s, ",") {
				b, err := hex.DecodeString(strings.TrimPrefix(part, "0x"))
				if err != nil {
					t.Fatalf("%s: %v", n, err)
				}
				c = append(c, b)
			}
			return c
		}
		got, err := g2.hashDst("QUUX-V01-CS02-with-BLS12381G2_XMD:SHA-256_SSWU_RO_", []byte(v.Input.Msg))
		if err != nil {
			t.Fatalf("%s: %v", n, err)
		}
		if got.identity || !h2cCoordEq(got.x, parse(v.Output.X)) || !h2cCoordEq(got.y, parse(v.Output.Y)) {
			t.Fatalf("%s: library %v, published (%s, %s)", n, got, v.Output.X, v.Output.Y)
		}
		vlib.Case(test, vlib.Desc("eth_hash_to_G2", n), true, "suite=eth_hash_to_G2")
	}

	// --- expand_message vectors (RFC 9380 appendix K), incl. the long-DST files
	exps := map[string]h2cExpander{}
	for _, e := range h2cExpanders() {
		exps[e.name] = e
	}
	nExpVec := 0
	for _, ef := range []struct{ file, exp string }{
		{"xmd_sha256.json", "xmd-sha256"}, {"xmd_sha256_long_dst.json", "xmd-sha256"}, {"xmd_sha512.json", "xmd-sha512"},
		{"xof_shake128.json", "xof-shake128"}, {"xof_shake128_long_dst.json", "xof-shake128"}, {"xof_shake256.json", "xof-shake256"},
	} {
		var f h2cExpandFile
		h2cReadJSON(t, ef.file, &f)
		if len(f.Cases) == 0 {
			t.Fatalf("%s: no cases", ef.file)
		}
		e := exps[ef.exp]
		var lib h2c.MessageExpander = e.lib()
		for i, c := range f.Cases {
			nExpVec++
			if !mine() {
				continue
			}
			want, err := hex.DecodeString(c.UniformBytes)
			if err != nil || uint(len(want)) != c.LenInBytes {
				t.Fatalf("%s case %d: bad vector (%v)", ef.file, i, err)
			}
			var got []byte
			vlib.NoPanic(t, ef.file, func() { got = lib.ExpandMessage([]byte(f.Dst), []byte(c.Msg), c.LenInBytes) })
			if !bytes.Equal(got, want) {
				t.Fatalf("%s case %d (msg %d bytes, len %d): library %s, published %s", ef.file, i, len(c.Msg), c.LenInBytes, vlib.Hex(got), vlib.Hex(want))
			}
			// the oracle used by TestExpanders reproduces the published value too
			if r, err := e.ref([]byte(c.Msg), []byte(f.Dst), int(c.LenInBytes)); err != nil || !bytes.Equal(r, want) {
				t.Fatalf("%s case %d: the reference expander disagrees with the published value (%v)", ef.file, i, err)
			}
			vlib.Case(test, vlib.Desc(ef.file, i), true, "suite=expander:"+strings.TrimSuffix(ef.file, ".json"))
		}
	}
	vlib.Exhaustive(fmt.Sprintf("all pinned hash-to-curve / encode-to-curve vectors (%d in %d suite files, %d Ethereum hash_to_G2) and expand_message vectors (%d) under c19/testdata",
		nSuiteVec, len(suites), len(names), nExpVec))
}
