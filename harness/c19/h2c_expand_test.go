package c19

import (
	"bytes"
	"crypto/sha256"
	"crypto/sha3"
	"crypto/sha512"
	"fmt"
	"hash"
	"math/big"
	"testing"

	"golang.org/x/crypto/blake2b"
	"pgregory.net/rapid"

	fieldsImpl "github.com/bronlabs/bron-crypto/pkg/base/algebra/impl/fields"
	"github.com/bronlabs/bron-crypto/pkg/base"
	"github.com/bronlabs/bron-crypto/pkg/base/curves/edwards25519"
	edwards25519Impl "github.com/bronlabs/bron-crypto/pkg/base/curves/edwards25519/impl"
	h2c "github.com/bronlabs/bron-crypto/pkg/base/curves/impl/rfc9380"
	"github.com/bronlabs/bron-crypto/pkg/base/curves/k256"
	k256Impl "github.com/bronlabs/bron-crypto/pkg/base/curves/k256/impl"
	"github.com/bronlabs/bron-crypto/pkg/base/curves/p256"
	p256Impl "github.com/bronlabs/bron-crypto/pkg/base/curves/p256/impl"
	"github.com/bronlabs/bron-crypto/pkg/base/curves/pairable/bls12381"
	bls12381Impl "github.com/bronlabs/bron-crypto/pkg/base/curves/pairable/bls12381/impl"
	"github.com/bronlabs/bron-crypto/pkg/base/curves/pasta"
	pastaImpl "github.com/bronlabs/bron-crypto/pkg/base/curves/pasta/impl"
	"verif/harness/vlib"
	"verif/harness/vlib/refcurve"
)

func h2cBlake2b512() hash.Hash {
	h, err := blake2b.New512(nil)
	if err != nil {
		panic(err)
	}
	return h
}

// ---- expand_message ---------------------------------------------------------------------------

// h2cExpander pairs a library expander with the reference function for the same primitive.
type h2cExpander struct {
	name   string
	lib    func() h2c.MessageExpander
	ref    func(msg, dst []byte, n int) ([]byte, error)
	maxLen int // largest len_in_bytes the RFC allows (255·b for XMD, 65535 for XOF)
	b      int // output size of the hash (XMD) / 32 for the XOFs, for the length classes
}

func h2cXMD(name string, newHash func() hash.Hash, lib func() h2c.MessageExpander) h2cExpander {
	b := newHash().Size()
	if lib == nil {
		lib = func() h2c.MessageExpander { return h2c.NewXMDMessageExpander(newHash) }
	}
	return h2cExpander{
		name: name, lib: lib, b: b, maxLen: min(255*b, 65535),
		ref: func(msg, dst []byte, n int) ([]byte, error) { return refcurve.ExpandMessageXMD(newHash, msg, dst, n) },
	}
}

func h2cExpanders() []h2cExpander {
	return []h2cExpander{
		// constructed through the package's public constructors
		h2cXMD("xmd-sha256", sha256.New, nil),
		h2cXMD("xmd-sha512", sha512.New, nil),
		h2cXMD("xmd-sha384", sha512.New384, nil),
		h2cXMD("xmd-blake2b512", h2cBlake2b512, nil),
		h2cXMD("xmd-sha3-256", func() hash.Hash { return sha3.New256() }, nil),
		{name: "xof-shake128", b: 32, maxLen: 65535,
			lib: func() h2c.MessageExpander { return h2c.NewXOFMessageExpander(sha3.NewSHAKE128(), 128) },
			ref: refcurve.ExpandMessageSHAKE128},
		{name: "xof-shake256", b: 64, maxLen: 65535,
			lib: func() h2c.MessageExpander { return h2c.NewXOFMessageExpander(sha3.NewSHAKE256(), 256) },
			ref: refcurve.ExpandMessageSHAKE256},
		// the very objects the curves' HashWithDst use
		h2cXMD("suite-k256", sha256.New, func() h2c.MessageExpander { return k256Impl.CurveHasherParams{}.MessageExpander() }),
		h2cXMD("suite-p256", sha256.New, func() h2c.MessageExpander { return p256Impl.CurveHasherParams{}.MessageExpander() }),
		h2cXMD("suite-edwards25519", sha512.New, func() h2c.MessageExpander { return edwards25519Impl.CurveHasherParams{}.MessageExpander() }),
		h2cXMD("suite-pallas", h2cBlake2b512, func() h2c.MessageExpander { return pastaImpl.PallasCurveHasherParams{}.MessageExpander() }),
		h2cXMD("suite-vesta", h2cBlake2b512, func() h2c.MessageExpander { return pastaImpl.VestaCurveHasherParams{}.MessageExpander() }),
		h2cXMD("suite-bls12381g1", sha256.New, func() h2c.MessageExpander { return bls12381Impl.G1CurveHasherParams{}.MessageExpander() }),
		h2cXMD("suite-bls12381g2", sha256.New, func() h2c.MessageExpander { return bls12381Impl.G2CurveHasherParams{}.MessageExpander() }),
	}
}

func genH2CLen(t *rapid.T, e h2cExpander) (int, string) {
	switch rapid.IntRange(0, 9).Draw(t, "lenClass") {
	case 0:
		return 1, "1"
	case 1:
		return rapid.SampledFrom([]int{e.b - 1, e.b, e.b + 1, 2 * e.b, 2*e.b + 1}).Draw(t, "len"), "blockedge"
	case 2, 3:
		return rapid.SampledFrom([]int{32, 48, 64, 96, 128, 192, 256}).Draw(t, "len"), "h2f"
	case 4:
		return e.maxLen, "max"
	case 5:
		return rapid.IntRange(e.maxLen-2*e.b, e.maxLen).Draw(t, "len"), "nearmax"
	case 6:
		return rapid.IntRange(257, e.maxLen).Draw(t, "len"), "large"
	default:
		return rapid.IntRange(1, 256).Draw(t, "len"), "small"
	}
}

func TestExpanders(t *testing.T) {
	const test = "Expanders"
	exps := h2cExpanders()
	vlib.Check(t, 3000, func(t *rapid.T) {
		e := exps[rapid.IntRange(0, len(exps)-1).Draw(t, "expander")]
		msg, mc := genH2CMsg(t, "msg")
		dst, dc := genH2CDst(t, "dst", "", "expander")
		n, lc := genH2CLen(t, e)
		in := fmt.Sprintf("%s dst=%s(%s) msg=%s(%s) len=%d", e.name, vlib.Hex([]byte(dst)), dc, vlib.Hex(msg), mc, n)

		// the caller's buffers, with spare capacity behind them, to see that they are only read
		dstBuf := append(append(make([]byte, 0, len(dst)+8), dst...), 0xEE, 0xEE)
		msgBuf := append(append(make([]byte, 0, len(msg)+8), msg...), 0xEE, 0xEE)
		var got, again []byte
		vlib.NoPanic(t, "ExpandMessage "+in, func() {
			got = e.lib().ExpandMessage(dstBuf[:len(dst):len(dst)], msgBuf[:len(msg):len(msg)], uint(n))
			again = e.lib().ExpandMessage([]byte(dst), append([]byte{}, msg...), uint(n))
		})
		if !bytes.Equal(dstBuf[:len(dst)], []byte(dst)) || !bytes.Equal(msgBuf[:len(msg)], msg) {
			t.Fatalf("%s: ExpandMessage modified its input", in)
		}
		want, err := e.ref(msg, []byte(dst), n)
		if err != nil {
			t.Fatalf("%s: reference failed: %v", in, err)
		}
		if len(got) != n {
			t.Fatalf("%s: %d bytes returned", in, len(got))
		}
		if !bytes.Equal(got, want) {
			t.Fatalf("%s: library %s, reference %s", in, vlib.Hex(got), vlib.Hex(want))
		}
		if !bytes.Equal(got, again) {
			t.Fatalf("%s: two calls differ", in)
		}
		vlib.Case(test, vlib.Desc(e.name, mc, dc, lc), true, "expander="+e.name, "msg="+mc, "dst="+dc, "len="+lc)
		vlib.Sample("expand:"+e.name, map[string]any{"expander": e.name, "dst": vlib.Hex([]byte(dst)), "msg": vlib.Hex(msg), "len": n, "out": vlib.Hex(got)})
	})
}

// ---- hash_to_field ----------------------------------------------------------------------------

// h2cRunH2F calls the library's generic rfc9380.HashToField for the impl field type F and
// returns, per element, the big-endian integers of its components.
func h2cRunH2F[FP fieldsImpl.FiniteFieldElementPtr[FP, F], F any](count int, params h2c.HasherParams, dst string, msg []byte) [][]*big.Int {
	out := make([]F, count)
	h2c.HashToField[FP](out, params, dst, msg)
	res := make([][]*big.Int, count)
	for i := range out {
		for _, le := range FP(&out[i]).ComponentsBytes() {
			be := append([]byte{}, le...)
			for a, b := 0, len(be)-1; a < b; a, b = a+1, b-1 {
				be[a], be[b] = be[b], be[a]
			}
			res[i] = append(res[i], new(big.Int).SetBytes(be))
		}
	}
	return res
}

// h2cCustomParams is a HasherParams of the harness: the library's generic hash_to_field with
// another expander than the suite's.
type h2cCustomParams struct {
	l   uint64
	exp h2c.MessageExpander
}

func (p h2cCustomParams) L() uint64                            { return p.l }
func (p h2cCustomParams) MessageExpander() h2c.MessageExpander { return p.exp }

// h2cField describes one field the library can hash into.
type h2cField struct {
	name    string
	p       *big.Int // characteristic, from the reference model
	m       int      // extension degree
	l       int      // L of the suite: ceil((ceil(log2 p) + 128) / 8) — 48 for 256-bit fields, 64 for BLS12-381 (RFC 9380 §8) and for the Pasta suites (pasta_curves)
	newHash func() hash.Hash
	params  h2c.HasherParams
	run     func(count int, params h2c.HasherParams, dst string, msg []byte) [][]*big.Int
	// public Hash(msg) of the field type (nil if the field type has none) and the DST it is
	// documented (by its source and the exported constants) to use
	pub    func(msg []byte) ([][]byte, error)
	pubDST string
	scalar bool
}

func h2cComps[E interface{ ComponentsBytes() [][]byte }](e E, err error) ([][]byte, error) {
	if err != nil {
		return nil, err
	}
	return e.ComponentsBytes(), nil
}

func h2cFields() []h2cField {
	tag := base.Hash2CurveAppTag
	return []h2cField{
		{name: "k256-base", p: refcurve.K256().P, m: 1, l: 48, newHash: sha256.New, params: k256Impl.CurveHasherParams{},
			run:    h2cRunH2F[*k256Impl.Fp],
			pub:    func(m []byte) ([][]byte, error) { return h2cComps(k256.NewBaseField().Hash(m)) },
			pubDST: tag + k256.Hash2CurveSuite},
		{name: "k256-scalar", p: refcurve.K256().N, m: 1, l: 48, newHash: sha256.New, params: k256Impl.CurveHasherParams{},
			run:    h2cRunH2F[*k256Impl.Fq],
			pub:    func(m []byte) ([][]byte, error) { return h2cComps(k256.NewScalarField().Hash(m)) },
			pubDST: tag + k256.Hash2CurveScalarSuite, scalar: true},
		{name: "p256-base", p: refcurve.P256().P, m: 1, l: 48, newHash: sha256.New, params: p256Impl.CurveHasherParams{},
			run:    h2cRunH2F[*p256Impl.Fp],
			pub:    func(m []byte) ([][]byte, error) { return h2cComps(p256.NewBaseField().Hash(m)) },
			pubDST: tag + p256.Hash2CurveSuite},
		{name: "p256-scalar", p: refcurve.P256().N, m: 1, l: 48, newHash: sha256.New, params: p256Impl.CurveHasherParams{},
			run:    h2cRunH2F[*p256Impl.Fq],
			pub:    func(m []byte) ([][]byte, error) { return h2cComps(p256.NewScalarField().Hash(m)) },
			pubDST: tag + p256.Hash2CurveScalarSuite, scalar: true},
		{name: "edwards25519-base", p: refcurve.Ed25519().P, m: 1, l: 48, newHash: sha512.New, params: edwards25519Impl.CurveHasherParams{},
			run:    h2cRunH2F[*edwards25519Impl.Fp],
			pub:    func(m []byte) ([][]byte, error) { return h2cComps(edwards25519.NewBaseField().Hash(m)) },
			pubDST: tag + edwards25519.Hash2CurveSuite},
		{name: "edwards25519-scalar", p: refcurve.Ed25519().N, m: 1, l: 48, newHash: sha512.New, params: edwards25519Impl.CurveHasherParams{},
			run:    h2cRunH2F[*edwards25519Impl.Fq],
			pub:    func(m []byte) ([][]byte, error) { return h2cComps(edwards25519.NewScalarField().Hash(m)) },
			pubDST: tag + edwards25519.Hash2CurveScalarSuite, scalar: true},
		// Pasta: F_p is the base field of pallas and the scalar field of vesta, F_q the reverse;
		// each has one Hash, tagged with the suite of the curve it is the base field of.
		{name: "pallas-base/vesta-scalar", p: refcurve.Pallas().P, m: 1, l: 64, newHash: h2cBlake2b512, params: pastaImpl.PallasCurveHasherParams{},
			run:    h2cRunH2F[*pastaImpl.Fp],
			pub:    func(m []byte) ([][]byte, error) { return h2cComps(pasta.NewVestaScalarField().Hash(m)) },
			pubDST: tag + pasta.PallasHash2CurveSuite, scalar: true},
		{name: "vesta-base/pallas-scalar", p: refcurve.Vesta().P, m: 1, l: 64, newHash: h2cBlake2b512, params: pastaImpl.VestaCurveHasherParams{},
			run:    h2cRunH2F[*pastaImpl.Fq],
			pub:    func(m []byte) ([][]byte, error) { return h2cComps(pasta.NewPallasScalarField().Hash(m)) },
			pubDST: tag + pasta.VestaHash2CurveSuite, scalar: true},
		{name: "bls12381-g1base", p: refcurve.BLS12381G1().P, m: 1, l: 64, newHash: sha256.New, params: bls12381Impl.G1CurveHasherParams{},
			run:    h2cRunH2F[*bls12381Impl.Fp],
			pub:    func(m []byte) ([][]byte, error) { return h2cComps(bls12381.NewG1BaseField().Hash(m)) },
			pubDST: tag + bls12381.Hash2CurveSuiteG1},
		{name: "bls12381-g2base", p: refcurve.BLS12381G1().P, m: 2, l: 64, newHash: sha256.New, params: bls12381Impl.G2CurveHasherParams{},
			run:    h2cRunH2F[*bls12381Impl.Fp2],
			pub:    func(m []byte) ([][]byte, error) { return h2cComps(bls12381.NewG2BaseField().Hash(m)) },
			pubDST: tag + bls12381.Hash2CurveSuiteG2},
		{name: "bls12381-scalar", p: refcurve.BLS12381G1().N, m: 1, l: 64, newHash: sha256.New, params: bls12381Impl.G1CurveHasherParams{},
			run:    h2cRunH2F[*bls12381Impl.Fq],
			pub:    func(m []byte) ([][]byte, error) { return h2cComps(bls12381.NewScalarField().Hash(m)) },
			pubDST: tag + bls12381.Hash2CurveScalarSuite, scalar: true},
	}
}

func h2cFmtElems(e [][]*big.Int) string {
	s := ""
	for _, el := range e {
		s += "["
		for j, c := range el {
			if j > 0 {
				s += ","
			}
			s += c.Text(16)
		}
		s += "]"
	}
	return s
}

func h2cElemsEqual(a, b [][]*big.Int) bool {
	if len(a) != len(b) {
		return false
	}
	for i := range a {
		if len(a[i]) != len(b[i]) {
			return false
		}
		for j := range a[i] {
			if a[i][j].Cmp(b[i][j]) != 0 {
				return false
			}
		}
	}
	return true
}

// TestHashToField: the library's generic hash_to_field, instantiated for every impl field,
// with the suite's own parameters or with another expander at the same L, against
// refcurve.HashToField.
func TestHashToField(t *testing.T) {
	const test = "HashToField"
	fields := h2cFields()
	vlib.Check(t, 2000, func(t *rapid.T) {
		f := fields[rapid.IntRange(0, len(fields)-1).Draw(t, "field")]
		msg, mc := genH2CMsg(t, "msg")
		dst, dc := genH2CDst(t, "dst", f.pubDST, "h2f")
		count := rapid.SampledFrom([]int{1, 2, 2, 2, 3, 4}).Draw(t, "count")
		if rapid.IntRange(1, 20).Draw(t, "manyElems") == 20 {
			// hash_to_field's count is only bounded by the expander (count*m*L <= 255*b bytes for
			// expand_message_xmd, i.e. >= 63 elements for every field here): a few larger counts, so that
			// the expander output spans many hash blocks and is cut into more than 4 elements
			count = rapid.SampledFrom([]int{5, 8, 16, 17, 32}).Draw(t, "countBig")
		}
		params, expName := f.params, "suite"
		ref := func(msg, dst []byte, n int) ([]byte, error) { return refcurve.ExpandMessageXMD(f.newHash, msg, dst, n) }
		switch rapid.IntRange(0, 4).Draw(t, "expander") {
		case 0:
			params, expName = h2cCustomParams{l: uint64(f.l), exp: h2c.NewXOFMessageExpander(sha3.NewSHAKE128(), 128)}, "shake128"
			ref = refcurve.ExpandMessageSHAKE128
		case 1:
			params, expName = h2cCustomParams{l: uint64(f.l), exp: h2c.NewXOFMessageExpander(sha3.NewSHAKE256(), 256)}, "shake256"
			ref = refcurve.ExpandMessageSHAKE256
		}
		in := fmt.Sprintf("%s/%s count=%d dst=%s(%s) msg=%s(%s)", f.name, expName, count, vlib.Hex([]byte(dst)), dc, vlib.Hex(msg), mc)
		var got [][]*big.Int
		vlib.NoPanic(t, "HashToField "+in, func() { got = f.run(count, params, dst, append([]byte{}, msg...)) })
		want, err := refcurve.HashToField(ref, msg, []byte(dst), f.p, f.m, f.l, count)
		if err != nil {
			t.Fatalf("%s: reference failed: %v", in, err)
		}
		if !h2cElemsEqual(got, want) {
			t.Fatalf("%s: library %s, reference %s", in, h2cFmtElems(got), h2cFmtElems(want))
		}
		vlib.Case(test, vlib.Desc(f.name, expName, count, mc, dc), len(msg) > 0 || dc != "default",
			"field="+f.name, "expander="+expName, fmt.Sprintf("count=%d", count), "msg="+mc, "dst="+dc)
		vlib.Sample("h2f:"+f.name, map[string]any{"field": f.name, "expander": expName, "count": count, "dst": vlib.Hex([]byte(dst)), "msg": vlib.Hex(msg), "u": h2cFmtElems(got)})
	})
}

// ---- test 5: the public Hash of the scalar (and base) fields ------------------------------------

func TestScalarFieldHash(t *testing.T) {
	const test = "ScalarFieldHash"
	fields := h2cFields()
	vlib.Check(t, 2000, func(t *rapid.T) {
		// two of three cases go to the scalar fields, the rest to the base fields' Hash
		var f h2cField
		for {
			f = fields[rapid.IntRange(0, len(fields)-1).Draw(t, "field")]
			if f.scalar || rapid.IntRange(0, 2).Draw(t, "alsoBase") == 0 {
				break
			}
		}
		msg, mc := genH2CMsg(t, "msg")
		msg2, me := h2cEdit(t, "msg2", msg)
		in := fmt.Sprintf("%s msg=%s(%s)", f.name, vlib.Hex(msg), mc)
		call := func(what string, m []byte) [][]byte {
			var c [][]byte
			var err error
			vlib.NoPanic(t, what+" "+in, func() { c, err = f.pub(m) })
			if err != nil {
				t.Fatalf("%s: %s returned an error: %v", in, what, err)
			}
			if len(c) != f.m {
				t.Fatalf("%s: %s: %d components, want %d", in, what, len(c), f.m)
			}
			return c
		}
		h1 := call("Hash", msg)
		h1b := call("Hash (second call)", append([]byte{}, msg...))
		h2 := call("Hash (other message)", msg2)
		same, other := true, true
		val := make([]*big.Int, f.m)
		for j := range h1 {
			same = same && bytes.Equal(h1[j], h1b[j])
			other = other && bytes.Equal(h1[j], h2[j])
			// range: the documented big-endian encoding is a reduced integer of fixed width
			val[j] = new(big.Int).SetBytes(h1[j])
			if val[j].Cmp(f.p) >= 0 {
				t.Fatalf("%s: component %d = %x is not below the field order %x", in, j, h1[j], f.p)
			}
			if len(h1[j]) != (f.p.BitLen()+7)/8 {
				t.Fatalf("%s: component %d has %d bytes", in, j, len(h1[j]))
			}
		}
		if !same {
			t.Fatalf("%s: two calls differ: %x vs %x", in, h1, h1b)
		}
		if other {
			t.Fatalf("%s: message %s (%s) hashes to the same element %x", in, vlib.Hex(msg2), me, h1)
		}
		// Hash(msg) = hash_to_field(msg, count = 1) of the suite with the tag AppTag ‖ suite ID
		// (for the scalar fields: the "_SC_" ID), recomputed independently
		want, err := refcurve.HashToFieldXMD(f.newHash, msg, []byte(f.pubDST), f.p, f.m, f.l, 1)
		if err != nil {
			t.Fatalf("%s: reference failed: %v", in, err)
		}
		if !h2cElemsEqual([][]*big.Int{val}, want) {
			t.Fatalf("%s: library %s, hash_to_field with DST %q gives %s", in, h2cFmtElems([][]*big.Int{val}), f.pubDST, h2cFmtElems(want))
		}
		vlib.Case(test, vlib.Desc(f.name, mc), len(msg) > 0, "field="+f.name, "msg="+mc, "msgedit="+me, fmt.Sprintf("scalar=%v", f.scalar))
		vlib.Sample("fieldhash:"+f.name, map[string]any{"field": f.name, "msg": vlib.Hex(msg), "value": h2cFmtElems([][]*big.Int{val})})
	})
}
