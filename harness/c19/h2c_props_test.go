package c19

import (
	"bytes"
	"crypto/sha512"
	"fmt"
	"math/big"
	"testing"

	"pgregory.net/rapid"

	"github.com/bronlabs/bron-crypto/pkg/base"
	"github.com/bronlabs/bron-crypto/pkg/base/curves/curve25519"
	"github.com/bronlabs/bron-crypto/pkg/base/curves/edwards25519"
	"github.com/bronlabs/bron-crypto/pkg/base/curves/k256"
	"github.com/bronlabs/bron-crypto/pkg/base/curves/p256"
	"github.com/bronlabs/bron-crypto/pkg/base/curves/pairable/bls12381"
	"github.com/bronlabs/bron-crypto/pkg/base/curves/pasta"
	"verif/harness/vlib"
	"verif/harness/vlib/refcurve"
)

// Hash-to-curve half of C19. The code under test is reached through the public curve types
// (Hash / HashWithDst) and, for the pieces that have no public wrapper, through the exported
// impl packages (rfc9380.HashToField, the expanders, Point.V.Encode). Every judgement about a
// point is made in vlib/refcurve (math/big) on the affine coordinates the library reports.

// ---- library point -> affine coordinate bytes -----------------------------------------------

// h2cAffine is a library point written out as big-endian coordinate strings: one component per
// coordinate over F_p, two (c0, c1 of c0 + c1·u) over F_p².
type h2cAffine struct {
	identity bool
	x, y     [][]byte
}

func (a h2cAffine) String() string {
	if a.identity {
		return "identity"
	}
	return fmt.Sprintf("(x=%x y=%x)", a.x, a.y)
}

func (a h2cAffine) equal(b h2cAffine) bool {
	if a.identity || b.identity {
		return a.identity == b.identity
	}
	if len(a.x) != len(b.x) || len(a.y) != len(b.y) {
		return false
	}
	for i := range a.x {
		if !bytes.Equal(a.x[i], b.x[i]) {
			return false
		}
	}
	for i := range a.y {
		if !bytes.Equal(a.y[i], b.y[i]) {
			return false
		}
	}
	return true
}

type h2cFE interface{ ComponentsBytes() [][]byte }

type h2cPt[B h2cFE] interface {
	AffineX() (B, error)
	AffineY() (B, error)
	IsOpIdentity() bool
}

// h2cAff reads the affine coordinates of a library point (err is the error of the call that
// produced p and is passed through).
func h2cAff[B h2cFE, P h2cPt[B]](p P, err error) (h2cAffine, error) {
	if err != nil {
		return h2cAffine{}, err
	}
	if p.IsOpIdentity() {
		return h2cAffine{identity: true}, nil
	}
	x, err := p.AffineX()
	if err != nil {
		return h2cAffine{}, fmt.Errorf("AffineX: %w", err)
	}
	y, err := p.AffineY()
	if err != nil {
		return h2cAffine{}, fmt.Errorf("AffineY: %w", err)
	}
	return h2cAffine{x: x.ComponentsBytes(), y: y.ComponentsBytes()}, nil
}

// ---- targets ---------------------------------------------------------------------------------

type h2cFn func(dst string, msg []byte) (h2cAffine, error)

type h2cTarget struct {
	name       string
	ref        *refcurve.Curve
	suite      string // suite ID the library names for this curve (exported constant)
	defaultDST string // base.Hash2CurveAppTag + suite: what Hash(msg) is documented to use
	hash       func(msg []byte) (h2cAffine, error)
	hashDst    h2cFn
	encode     h2cFn // encode_to_curve (one field element) through the exported impl point; vectors only
	full       h2cFn // for prime-subgroup wrapper types: the same hash on the full-curve type
}

func h2cTargets() []*h2cTarget {
	ts := []*h2cTarget{
		{
			name: "k256", ref: refcurve.K256(), suite: k256.Hash2CurveSuite,
			hash:    func(m []byte) (h2cAffine, error) { return h2cAff(k256.NewCurve().Hash(m)) },
			hashDst: func(d string, m []byte) (h2cAffine, error) { return h2cAff(k256.NewCurve().HashWithDst(d, m)) },
			encode: func(d string, m []byte) (h2cAffine, error) {
				var p k256.Point
				p.V.Encode(d, m)
				return h2cAff(&p, nil)
			},
		},
		{
			name: "p256", ref: refcurve.P256(), suite: p256.Hash2CurveSuite,
			hash:    func(m []byte) (h2cAffine, error) { return h2cAff(p256.NewCurve().Hash(m)) },
			hashDst: func(d string, m []byte) (h2cAffine, error) { return h2cAff(p256.NewCurve().HashWithDst(d, m)) },
			encode: func(d string, m []byte) (h2cAffine, error) {
				var p p256.Point
				p.V.Encode(d, m)
				return h2cAff(&p, nil)
			},
		},
		{
			name: "edwards25519", ref: refcurve.Ed25519(), suite: edwards25519.Hash2CurveSuite,
			hash:    func(m []byte) (h2cAffine, error) { return h2cAff(edwards25519.NewCurve().Hash(m)) },
			hashDst: func(d string, m []byte) (h2cAffine, error) { return h2cAff(edwards25519.NewCurve().HashWithDst(d, m)) },
			encode: func(d string, m []byte) (h2cAffine, error) {
				var p edwards25519.Point
				p.V.Encode(d, m)
				return h2cAff(&p, nil)
			},
		},
		{
			name: "edwards25519-prime", ref: refcurve.Ed25519(), suite: edwards25519.Hash2CurveSuite,
			hash: func(m []byte) (h2cAffine, error) { return h2cAff(edwards25519.NewPrimeSubGroup().Hash(m)) },
			hashDst: func(d string, m []byte) (h2cAffine, error) {
				return h2cAff(edwards25519.NewPrimeSubGroup().HashWithDst(d, m))
			},
			full: func(d string, m []byte) (h2cAffine, error) { return h2cAff(edwards25519.NewCurve().HashWithDst(d, m)) },
		},
		{
			name: "curve25519", ref: refcurve.Curve25519(), suite: curve25519.Hash2CurveSuite,
			hash:    func(m []byte) (h2cAffine, error) { return h2cAff(curve25519.NewCurve().Hash(m)) },
			hashDst: func(d string, m []byte) (h2cAffine, error) { return h2cAff(curve25519.NewCurve().HashWithDst(d, m)) },
		},
		{
			name: "curve25519-prime", ref: refcurve.Curve25519(), suite: curve25519.Hash2CurveSuite,
			hash: func(m []byte) (h2cAffine, error) { return h2cAff(curve25519.NewPrimeSubGroup().Hash(m)) },
			hashDst: func(d string, m []byte) (h2cAffine, error) {
				return h2cAff(curve25519.NewPrimeSubGroup().HashWithDst(d, m))
			},
			full: func(d string, m []byte) (h2cAffine, error) { return h2cAff(curve25519.NewCurve().HashWithDst(d, m)) },
		},
		{
			name: "pallas", ref: refcurve.Pallas(), suite: pasta.PallasHash2CurveSuite,
			hash:    func(m []byte) (h2cAffine, error) { return h2cAff(pasta.NewPallasCurve().Hash(m)) },
			hashDst: func(d string, m []byte) (h2cAffine, error) { return h2cAff(pasta.NewPallasCurve().HashWithDst(d, m)) },
		},
		{
			name: "vesta", ref: refcurve.Vesta(), suite: pasta.VestaHash2CurveSuite,
			hash:    func(m []byte) (h2cAffine, error) { return h2cAff(pasta.NewVestaCurve().Hash(m)) },
			hashDst: func(d string, m []byte) (h2cAffine, error) { return h2cAff(pasta.NewVestaCurve().HashWithDst(d, m)) },
		},
		{
			name: "bls12381g1", ref: refcurve.BLS12381G1(), suite: bls12381.Hash2CurveSuiteG1,
			hash:    func(m []byte) (h2cAffine, error) { return h2cAff(bls12381.NewG1().Hash(m)) },
			hashDst: func(d string, m []byte) (h2cAffine, error) { return h2cAff(bls12381.NewG1().HashWithDst(d, m)) },
			encode: func(d string, m []byte) (h2cAffine, error) {
				var p bls12381.PointG1
				p.V.Encode(d, m)
				return h2cAff(&p, nil)
			},
		},
		{
			name: "bls12381g2", ref: refcurve.BLS12381G2(), suite: bls12381.Hash2CurveSuiteG2,
			hash:    func(m []byte) (h2cAffine, error) { return h2cAff(bls12381.NewG2().Hash(m)) },
			hashDst: func(d string, m []byte) (h2cAffine, error) { return h2cAff(bls12381.NewG2().HashWithDst(d, m)) },
			encode: func(d string, m []byte) (h2cAffine, error) {
				var p bls12381.PointG2
				p.V.Encode(d, m)
				return h2cAff(&p, nil)
			},
		},
	}
	for _, t := range ts {
		t.defaultDST = base.Hash2CurveAppTag + t.suite
	}
	return ts
}

func h2cTargetByName(name string) *h2cTarget {
	for _, t := range h2cTargets() {
		if t.name == name {
			return t
		}
	}
	panic("no hash-to-curve target " + name)
}

// h2cModel converts the reported coordinates into a point of the reference model. The model's
// constructor rejects coordinates ≥ p and points that do not satisfy the curve equation.
func h2cModel(tg *h2cTarget, a h2cAffine) (refcurve.Point, error) {
	if a.identity {
		return tg.ref.Neutral(), nil
	}
	switch {
	case len(a.x) == 1 && len(a.y) == 1:
		return tg.ref.FromAffineBytesBE(a.x[0], a.y[0])
	case len(a.x) == 2 && len(a.y) == 2:
		return tg.ref.FromAffineBytesBEFp2(a.x[0], a.x[1], a.y[0], a.y[1])
	default:
		return refcurve.Point{}, fmt.Errorf("unexpected number of coordinate components %d/%d", len(a.x), len(a.y))
	}
}

// h2cMember is the membership oracle: the output of a hash to the curve must not be the
// identity (a 2^-250 event for an honest implementation), must satisfy the curve equation
// with reduced coordinates, and [N]P must be the neutral element in the reference model.
func h2cMember(t vlib.Fataler, tg *h2cTarget, a h2cAffine, what string) refcurve.Point {
	t.Helper()
	if a.identity {
		t.Fatalf("%s: %s is the identity", tg.name, what)
	}
	p, err := h2cModel(tg, a)
	if err != nil {
		t.Fatalf("%s: %s = %v is not a point of the reference curve: %v", tg.name, what, a, err)
	}
	if !tg.ref.IsOnCurve(p) {
		t.Fatalf("%s: %s = %v is not on the curve", tg.name, what, a)
	}
	if tg.ref.IsNeutral(p) {
		t.Fatalf("%s: %s = %v is the neutral element", tg.name, what, a)
	}
	if !tg.ref.IsInPrimeSubgroup(p) {
		t.Fatalf("%s: %s = %v is on the curve but OUTSIDE the prime-order subgroup ([N]P != neutral; small order: %v)",
			tg.name, what, a, tg.ref.IsSmallOrder(p))
	}
	return p
}

// ---- generators ------------------------------------------------------------------------------

// Message lengths around the padding / block boundaries of SHA-256 (55/56/63/64/65) and
// SHA-512 / BLAKE2b (111/112/127/128/129).
var h2cBoundaryLens = []int{55, 56, 63, 64, 65, 111, 112, 127, 128, 129}

// h2cStream is a deterministic function of drawn values (seed, n): long inputs are derived
// from one drawn word instead of thousands of byte draws.
func h2cStream(seed uint64, label string, n int) []byte {
	b := make([]byte, n)
	_, _ = vlib.NewPRNG(seed, "c19-h2c/"+label).Read(b)
	return b
}

func genH2CMsg(t *rapid.T, name string) ([]byte, string) {
	switch rapid.IntRange(0, 10).Draw(t, name+"Class") {
	case 0:
		return []byte{}, "empty"
	case 1:
		return []byte{rapid.Byte().Draw(t, name+"Byte")}, "one"
	case 2, 3, 4:
		n := rapid.SampledFrom(h2cBoundaryLens).Draw(t, name+"Len")
		return rapid.SliceOfN(rapid.Byte(), n, n).Draw(t, name+"Bytes"), "boundary"
	case 5, 6:
		n := rapid.IntRange(130, 4096).Draw(t, name+"Len")
		return h2cStream(rapid.Uint64().Draw(t, name+"Seed"), "msg", n), "long"
	case 7:
		var n int
		if rapid.Bool().Draw(t, name+"ZeroBoundary") {
			n = rapid.SampledFrom(append([]int{1, 2, 32, 48}, h2cBoundaryLens...)).Draw(t, name+"Len")
		} else {
			n = rapid.IntRange(1, 4096).Draw(t, name+"Len")
		}
		return make([]byte, n), "zeros"
	case 8:
		return []byte(rapid.SampledFrom([]string{"abc", "abcdef0123456789", "hello", "Trans rights now!"}).Draw(t, name+"Text")), "text"
	default:
		return rapid.SliceOfN(rapid.Byte(), 2, 54).Draw(t, name+"Bytes"), "short"
	}
}

// genH2CDst draws a domain-separation tag. def is the library's default tag for the suite
// ("" when the caller has no default, then that class is not produced).
func genH2CDst(t *rapid.T, name, def, suite string) (string, string) {
	lo := 0
	if def == "" {
		lo = 1
	}
	fixed := func(n int) string {
		if rapid.Bool().Draw(t, name+"Ascii") {
			// readable: a tag prefix padded with one drawn character
			pad := rapid.SampledFrom([]byte("1aZ_-")).Draw(t, name+"Pad")
			s := []byte("QUUX-V01-CS02-with-" + suite)
			for len(s) < n {
				s = append(s, pad)
			}
			return string(s[:n])
		}
		return string(h2cStream(rapid.Uint64().Draw(t, name+"Seed"), "dst", n))
	}
	switch rapid.IntRange(lo, 10).Draw(t, name+"Class") {
	case 0:
		return def, "default"
	case 1:
		return "", "empty"
	case 2:
		return string([]byte{rapid.Byte().Draw(t, name+"Byte")}), "one"
	case 3:
		return "QUUX-V01-CS02-with-" + suite, "rfc"
	case 4:
		return fixed(255), "len255"
	case 5:
		return fixed(256), "len256"
	case 6:
		return fixed(300), "len300"
	case 7:
		return fixed(rapid.IntRange(257, 700).Draw(t, name+"Len")), "longdrawn"
	default:
		return string(rapid.SliceOfN(rapid.Byte(), 2, 254).Draw(t, name+"Bytes")), "drawn"
	}
}

// h2cEdit returns a byte string different from b, made by one small change.
func h2cEdit(t *rapid.T, name string, b []byte) ([]byte, string) {
	c := append([]byte{}, b...)
	kinds := []string{"append0", "appendbyte", "prepend0", "fresh"}
	if len(b) > 0 {
		kinds = append(kinds, "flipbit", "flipbit", "droplast", "dropfirst")
	}
	switch k := rapid.SampledFrom(kinds).Draw(t, name+"Edit"); k {
	case "append0":
		return append(c, 0), k
	case "appendbyte":
		return append(c, rapid.Byte().Draw(t, name+"EditByte")), k
	case "prepend0":
		return append([]byte{0}, c...), k
	case "flipbit":
		i := rapid.IntRange(0, len(c)*8-1).Draw(t, name+"EditBit")
		c[i/8] ^= 1 << (i % 8)
		return c, k
	case "droplast":
		return c[:len(c)-1], k
	case "dropfirst":
		return c[1:], k
	default:
		f := rapid.SliceOfN(rapid.Byte(), 0, 40).Draw(t, name+"EditFresh")
		if bytes.Equal(f, b) {
			return append(f, 1), "fresh"
		}
		return f, "fresh"
	}
}

// h2cRationalMap9380 is the edwards25519 -> curve25519 map of RFC 9380 appendix D.1 / G.2.2:
// (s, t) = ((1+w)/(1-w), c1·s/v) for the Edwards point (v, w), where c1 = sqrt(-486664) is the
// root with sgn0(c1) = 0 (the EVEN root; RFC 7748's base-point-preserving map uses the other
// root, so the two maps differ by a negation). Only called for points of odd prime order, for
// which v != 0 and w != 1.
func h2cRationalMap9380(e refcurve.Point) refcurve.Point {
	p := refcurve.Ed25519().P
	c1 := refcurve.SqrtMinus486664()
	if c1.Bit(0) == 1 {
		c1.Sub(p, c1)
	}
	one := big.NewInt(1)
	num := new(big.Int).Add(one, e.Y)
	den := new(big.Int).Sub(one, e.Y)
	den.Mod(den, p)
	s := num.Mul(num, new(big.Int).ModInverse(den, p))
	s.Mod(s, p)
	tt := new(big.Int).Mul(c1, s)
	tt.Mul(tt, new(big.Int).ModInverse(e.X, p))
	tt.Mod(tt, p)
	return refcurve.Curve25519().NewPoint(s, tt)
}

// h2cEmptyDSTRejected: RFC 9380 §3.1 requires tags of nonzero length. The library currently
// accepts the empty tag (and the tests then treat it like any other); should it start to
// REJECT exactly the empty tag with an error (never a panic), that is not a violation.
func h2cEmptyDSTRejected(t *rapid.T, tg *h2cTarget, dst string, msg []byte) bool {
	if dst != "" {
		return false
	}
	var err error
	vlib.NoPanic(t, tg.name+" HashWithDst with the empty DST", func() { _, err = tg.hashDst("", msg) })
	return err != nil
}

// ---- test 1: structural properties on every curve -------------------------------------------

func TestH2CProperties(t *testing.T) {
	const test = "H2CProperties"
	targets := h2cTargets()
	vlib.Check(t, 3000, func(t *rapid.T) {
		tg := targets[rapid.IntRange(0, len(targets)-1).Draw(t, "curve")]
		msg, mc := genH2CMsg(t, "msg")
		dst, dc := genH2CDst(t, "dst", tg.defaultDST, tg.suite)
		dst2b, de := h2cEdit(t, "dst2", []byte(dst))
		dst2 := string(dst2b)
		msg2, me := h2cEdit(t, "msg2", msg)
		in := fmt.Sprintf("%s dst=%s(%s) msg=%s(%s)", tg.name, vlib.Hex([]byte(dst)), dc, vlib.Hex(msg), mc)

		call := func(what string, f func() (h2cAffine, error)) h2cAffine {
			var a h2cAffine
			var err error
			vlib.NoPanic(t, what+" "+in, func() { a, err = f() })
			if err != nil {
				t.Fatalf("%s: %s returned an error: %v", in, what, err)
			}
			return a
		}
		nt := len(msg) > 0 || dc != "default"
		if h2cEmptyDSTRejected(t, tg, dst, msg) {
			vlib.Case(test, vlib.Desc(tg.name, mc, dc), nt, "curve="+tg.name, "msg="+mc, "dst="+dc, "emptydst=rejected")
			return
		}
		p := call("HashWithDst", func() (h2cAffine, error) { return tg.hashDst(dst, msg) })
		again := call("HashWithDst (second call)", func() (h2cAffine, error) { return tg.hashDst(dst, append([]byte{}, msg...)) })
		pd := p
		if h2cEmptyDSTRejected(t, tg, dst2, msg) {
			de = "rejected-empty" // nothing to compare; pd stays p and is exempt below
		} else {
			pd = call("HashWithDst (other DST)", func() (h2cAffine, error) { return tg.hashDst(dst2, msg) })
		}
		pm := call("HashWithDst (other message)", func() (h2cAffine, error) { return tg.hashDst(dst, msg2) })
		pdef := call("Hash", func() (h2cAffine, error) { return tg.hash(msg) })

		// determinism
		if !p.equal(again) {
			t.Fatalf("%s: two calls differ: %v vs %v", in, p, again)
		}
		// Hash(m) is HashWithDst(AppTag+Suite, m) (doc of Hash + exported constants)
		if def := call("HashWithDst (default DST)", func() (h2cAffine, error) { return tg.hashDst(tg.defaultDST, msg) }); !def.equal(pdef) {
			t.Fatalf("%s: Hash(msg) = %v but HashWithDst(%q, msg) = %v", in, pdef, tg.defaultDST, def)
		}
		// DST dependence
		if de != "rejected-empty" && p.equal(pd) {
			t.Fatalf("%s: DST %s (%s) gives the same point %v", in, vlib.Hex(dst2b), de, p)
		}
		if (dst == tg.defaultDST) != p.equal(pdef) {
			t.Fatalf("%s: Hash(msg)=%v, HashWithDst(dst,msg)=%v, dst is default: %v", in, pdef, p, dst == tg.defaultDST)
		}
		// message dependence
		if p.equal(pm) {
			t.Fatalf("%s: message %s (%s) gives the same point %v", in, vlib.Hex(msg2), me, p)
		}
		// membership, judged by the reference model, of every point produced
		mp := h2cMember(t, tg, p, "H(dst,msg) for "+in)
		h2cMember(t, tg, pd, fmt.Sprintf("H(dst2,msg) with dst2=%s for %s", vlib.Hex(dst2b), in))
		h2cMember(t, tg, pm, fmt.Sprintf("H(dst,msg2) with msg2=%s for %s", vlib.Hex(msg2), in))
		// the prime-subgroup wrapper types return the point of the full-curve type
		if tg.full != nil {
			if f := call("full-curve HashWithDst", func() (h2cAffine, error) { return tg.full(dst, msg) }); !f.equal(p) {
				t.Fatalf("%s: subgroup type gives %v, curve type gives %v", in, p, f)
			}
		}
		// RFC 9380 defines the edwards25519 suites as the curve25519 suites followed by the
		// birational map: with the same DST the two library curves must agree under that map.
		if tg.name == "curve25519" {
			e := call("edwards25519 HashWithDst", func() (h2cAffine, error) {
				return h2cAff(edwards25519.NewCurve().HashWithDst(dst, msg))
			})
			ep, err := refcurve.Ed25519().FromAffineBytesBE(e.x[0], e.y[0])
			if err != nil {
				t.Fatalf("%s: edwards25519 output not on the reference curve: %v", in, err)
			}
			if mm := h2cRationalMap9380(ep); !tg.ref.Equal(mm, mp) {
				t.Fatalf("%s: curve25519 output %v is not the image of the edwards25519 output %v under the birational map (%v)", in, p, e, mm)
			}
		}

		vlib.Case(test, vlib.Desc(tg.name, mc, dc), nt, "curve="+tg.name, "msg="+mc, "dst="+dc, "dstedit="+de, "msgedit="+me)
		vlib.Sample("h2c:"+tg.name, map[string]any{"curve": tg.name, "msgClass": mc, "msgLen": len(msg), "dstClass": dc,
			"dstLen": len(dst), "dst": vlib.Hex([]byte(dst)), "msg": vlib.Hex(msg), "point": p.String(), "dstEdit": de, "msgEdit": me})
	})
}

// ---- test 2: P-256 against a complete independent implementation ----------------------------

func TestH2CP256Differential(t *testing.T) {
	const test = "H2CP256Differential"
	tg := h2cTargetByName("p256")
	vlib.Check(t, 2000, func(t *rapid.T) {
		msg, mc := genH2CMsg(t, "msg")
		dst, dc := genH2CDst(t, "dst", tg.defaultDST, tg.suite)
		in := fmt.Sprintf("p256 dst=%s(%s) msg=%s(%s)", vlib.Hex([]byte(dst)), dc, vlib.Hex(msg), mc)
		if h2cEmptyDSTRejected(t, tg, dst, msg) {
			vlib.Case(test, vlib.Desc("p256", mc, dc), true, "msg="+mc, "dst="+dc, "emptydst=rejected")
			return
		}
		var got h2cAffine
		var err error
		vlib.NoPanic(t, "HashWithDst "+in, func() { got, err = tg.hashDst(dst, msg) })
		if err != nil {
			t.Fatalf("%s: error %v", in, err)
		}
		want, u, q, err := refcurve.HashToCurveP256(msg, []byte(dst))
		if err != nil {
			t.Fatalf("%s: reference failed: %v", in, err)
		}
		gp, err := h2cModel(tg, got)
		if err != nil {
			t.Fatalf("%s: library output %v is not a point of the reference curve: %v", in, got, err)
		}
		if !tg.ref.Equal(gp, want) {
			t.Fatalf("%s: library %v, reference %v (u0=%x u1=%x Q0=%v Q1=%v)", in, got, want, u[0], u[1], q[0], q[1])
		}
		// encode_to_curve (one element), reachable through the exported impl point
		var enc h2cAffine
		vlib.NoPanic(t, "Encode "+in, func() { enc, err = tg.encode(dst, msg) })
		if err != nil {
			t.Fatalf("%s: Encode: %v", in, err)
		}
		wantNU, err := refcurve.EncodeToCurveP256(msg, []byte(dst))
		if err != nil {
			t.Fatalf("%s: reference failed: %v", in, err)
		}
		ep, err := h2cModel(tg, enc)
		if err != nil || !tg.ref.Equal(ep, wantNU) {
			t.Fatalf("%s: encode_to_curve: library %v, reference %v (%v)", in, enc, wantNU, err)
		}
		vlib.Case(test, vlib.Desc("p256", mc, dc), len(msg) > 0 || dc != "default", "msg="+mc, "dst="+dc)
		vlib.Sample("h2c-p256-diff", map[string]any{"dst": vlib.Hex([]byte(dst)), "msg": vlib.Hex(msg), "point": got.String()})
	})
}

// ---- test 2b: curve25519 / edwards25519 against an independent Elligator 2 ---------------------

// h2cElligator2 is map_to_curve_elligator2 of RFC 9380 §6.7.1 for curve25519
// (K·t² = s³ + J·s² + s with J = 486662, K = 1, Z = 2), written from the RFC text on math/big.
func h2cElligator2(u *big.Int) refcurve.Point {
	c := refcurve.Curve25519()
	p := c.P
	mod := func(x *big.Int) *big.Int { return x.Mod(x, p) }
	J := big.NewInt(486662)
	g := func(x *big.Int) *big.Int { // x³ + J·x² + x
		x2 := mod(new(big.Int).Mul(x, x))
		r := mod(new(big.Int).Mul(x2, x))
		r.Add(r, new(big.Int).Mul(J, x2))
		r.Add(r, x)
		return mod(r)
	}
	// x1 = -J · inv0(1 + Z·u²); if that is 0 (only when the denominator is 0): x1 = -J
	d := mod(new(big.Int).Add(big.NewInt(1), new(big.Int).Mul(big.NewInt(2), new(big.Int).Mul(u, u))))
	x1 := mod(new(big.Int).Neg(J))
	if d.Sign() != 0 {
		x1 = mod(new(big.Int).Mul(x1, new(big.Int).ModInverse(d, p)))
	}
	gx1 := g(x1)
	x2 := mod(new(big.Int).Sub(new(big.Int).Neg(x1), J))
	gx2 := g(x2)
	var x, y *big.Int
	if gx1.Sign() == 0 || refcurve.LegendreFp(gx1, p) == 1 {
		y, _ = refcurve.SqrtFp(gx1, p)
		if y.Bit(0) != 1 { // sgn0(y) must be 1
			y = mod(new(big.Int).Neg(y))
		}
		x = x1
	} else {
		y, _ = refcurve.SqrtFp(gx2, p)
		if y.Bit(0) != 0 { // sgn0(y) must be 0
			y = mod(new(big.Int).Neg(y))
		}
		x = x2
	}
	return c.NewPoint(x, y)
}

// h2cHashToCurve25519 is hash_to_curve of curve25519_XMD:SHA-512_ELL2_RO_ (RFC 9380 §8.5:
// m = 1, L = 48, expand_message_xmd with SHA-512, Elligator 2, h_eff = 8).
func h2cHashToCurve25519(msg, dst []byte) (refcurve.Point, [2]*big.Int, error) {
	c := refcurve.Curve25519()
	us, err := refcurve.HashToFieldXMD(sha512.New, msg, dst, c.P, 1, 48, 2)
	if err != nil {
		return refcurve.Point{}, [2]*big.Int{}, err
	}
	r := c.Add(h2cElligator2(us[0][0]), h2cElligator2(us[1][0]))
	return c.ScalarMul(r, big.NewInt(8)), [2]*big.Int{us[0][0], us[1][0]}, nil
}

func TestH2C25519Differential(t *testing.T) {
	const test = "H2C25519Differential"
	mont, edw := h2cTargetByName("curve25519"), h2cTargetByName("edwards25519")
	vlib.Check(t, 2000, func(t *rapid.T) {
		msg, mc := genH2CMsg(t, "msg")
		dst, dc := genH2CDst(t, "dst", mont.defaultDST, mont.suite)
		in := fmt.Sprintf("dst=%s(%s) msg=%s(%s)", vlib.Hex([]byte(dst)), dc, vlib.Hex(msg), mc)
		if h2cEmptyDSTRejected(t, mont, dst, msg) || h2cEmptyDSTRejected(t, edw, dst, msg) {
			vlib.Case(test, vlib.Desc("25519", mc, dc), true, "msg="+mc, "dst="+dc, "emptydst=rejected")
			return
		}
		want, u, err := h2cHashToCurve25519(msg, []byte(dst))
		if err != nil {
			t.Fatalf("%s: reference failed: %v", in, err)
		}
		if !mont.ref.IsOnCurve(want) {
			t.Fatalf("%s: the reference result is not on curve25519 (oracle defect)", in)
		}
		var gm, ge h2cAffine
		vlib.NoPanic(t, "HashWithDst "+in, func() {
			if gm, err = mont.hashDst(dst, msg); err == nil {
				ge, err = edw.hashDst(dst, msg)
			}
		})
		if err != nil {
			t.Fatalf("%s: error %v", in, err)
		}
		mp, err := h2cModel(mont, gm)
		if err != nil || !mont.ref.Equal(mp, want) {
			t.Fatalf("curve25519 %s: library %v, reference %v (u0=%x u1=%x) %v", in, gm, want, u[0], u[1], err)
		}
		// edwards25519_XMD:SHA-512_ELL2_RO_ is the same computation followed by the rational map
		ep, err := h2cModel(edw, ge)
		if err != nil || ge.identity || !mont.ref.Equal(h2cRationalMap9380(ep), want) {
			t.Fatalf("edwards25519 %s: library %v does not map to the reference curve25519 point %v (u0=%x u1=%x) %v", in, ge, want, u[0], u[1], err)
		}
		vlib.Case(test, vlib.Desc("25519", mc, dc), len(msg) > 0 || dc != "default", "msg="+mc, "dst="+dc)
		vlib.Sample("h2c-25519-diff", map[string]any{"dst": vlib.Hex([]byte(dst)), "msg": vlib.Hex(msg), "curve25519": gm.String(), "edwards25519": ge.String()})
	})
}
