package c17

import (
	"fmt"
	"math"
	"math/big"
	"testing"

	"pgregory.net/rapid"

	"github.com/bronlabs/bron-crypto/pkg/base/ct"
	"github.com/bronlabs/bron-crypto/pkg/base/nt/numct"
	"verif/harness/vlib"
)

// wantInt fails unless got holds the signed value want, with a consistent sign verdict (a zero
// result must not report negative: finding C17-negative-zero, fixed by dbd7902).
func wantInt(t *rapid.T, what string, got *numct.Int, want *big.Int, wantAnn int) {
	t.Helper()
	if g := got.Big(); !eq(g, want) {
		t.Fatalf("%s: value %s, want %s", what, g.String(), want.String())
	}
	if wantAnn >= 0 && got.AnnouncedLen() != wantAnn {
		t.Fatalf("%s: announced length %d, documented %d", what, got.AnnouncedLen(), wantAnn)
	}
	if got.TrueLen() != want.BitLen() {
		t.Fatalf("%s: TrueLen %d, want %d", what, got.TrueLen(), want.BitLen())
	}
	if neg := ctb(got.IsNegative()); neg != (want.Sign() < 0) {
		t.Fatalf("%s: IsNegative()=%v for value %s", what, neg, want.String())
	}
	lt, e, gt := got.Compare(numct.IntZero())
	if ctb(lt) != (want.Sign() < 0) || ctb(e) != (want.Sign() == 0) || ctb(gt) != (want.Sign() > 0) {
		t.Fatalf("%s: Compare(result, 0) = (%d,%d,%d) for value %s", what, lt, e, gt, want.String())
	}
}

func intUnchanged(t *rapid.T, what string, n *numct.Int, op intOp) {
	t.Helper()
	if !eq(n.Big(), op.v) || n.AnnouncedLen() != op.ann {
		t.Fatalf("%s: input operand changed by the call: now %s/ann %d, was %s", what, n.Big(), n.AnnouncedLen(), op)
	}
}

// aliasInt2 builds (out, x, y) under the drawn aliasing mode; zOld describes the output before the
// call (a fresh zero value, a junk value of up to 400 bits, or the aliased operand).
func aliasInt2(t *rapid.T, mode string, l intOp, r *intOp) (out, x, y *numct.Int, zOld intOp) {
	junk := genIntOp(t, "junk", 400, false)
	fresh := rapid.IntRange(0, 2).Draw(t, "freshout") == 0
	mk := func() *numct.Int {
		if fresh {
			zOld = intOp{orig: new(big.Int), v: new(big.Int), ann: 0}
			return new(numct.Int)
		}
		zOld = junk
		return junk.int()
	}
	switch mode {
	case "none":
		return mk(), l.int(), r.int(), zOld
	case "out=x":
		x = l.int()
		return x, x, r.int(), l
	case "out=y":
		y = r.int()
		return y, l.int(), y, *r
	case "x=y":
		*r = l
		x = l.int()
		return mk(), x, x, zOld
	default:
		*r = l
		x = l.int()
		return x, x, x, l
	}
}

// twos returns the two's-complement big-endian encoding of v in n bytes.
func twos(v *big.Int, n int) []byte {
	m := new(big.Int).Mod(v, pow2(8*n))
	out := make([]byte, n)
	m.FillBytes(out)
	return out
}

func fromTwos(b []byte) *big.Int {
	v := new(big.Int).SetBytes(b)
	if len(b) > 0 && b[0]&0x80 != 0 {
		v.Sub(v, pow2(8*len(b)))
	}
	return v
}

var intOps = []string{
	"Add", "AddCap", "Sub", "SubCap", "Mul", "MulCap", "Neg", "Abs", "Double", "Square", "Increment", "Decrement",
	"EuclideanDiv", "EuclideanDivVarTime", "Div", "DivVarTime",
	"Compare", "Predicates", "Coprime", "GCD", "UnitInv", "Sqrt",
	"Lsh", "LshCap", "Rsh", "RshCap", "Resize",
	"Bytes", "TwosComplement", "Int64", "And", "Or", "Xor", "Not", "AndCap", "OrCap", "XorCap", "NotCap",
	"Select", "CondAssign", "CondNeg", "SetClone", "IsProbablyPrime", "RandomRange",
}

func TestNumctInt(t *testing.T) {
	const test = "NumctInt"
	vlib.Check(t, 20000, func(t *rapid.T) {
		op := rapid.SampledFrom(intOps).Draw(t, "op")
		big4k, mid := maxBitsCheap(), maxBitsExpensive()
		var sizeC, capC, aliasC, signC, extra string
		nt := true
		switch op {
		case "Add", "AddCap", "Sub", "SubCap", "Mul", "MulCap", "And", "Or", "Xor", "AndCap", "OrCap", "XorCap":
			maxB := big4k
			if op == "Mul" || op == "MulCap" {
				maxB = mid
			}
			l := genIntOp(t, "x", maxB, true)
			r := genIntOp(t, "y", maxB, true)
			if rapid.IntRange(0, 9).Draw(t, "opposite") == 0 && l.v.Sign() != 0 { // x + (-x), x - x
				r = l
				r.v = new(big.Int).Neg(l.v)
				r.orig = new(big.Int).Neg(l.orig)
				extra = "y=-x"
			}
			mode := rapid.SampledFrom(aliasModes).Draw(t, "alias")
			out, x, y, zOld := aliasInt2(t, mode, l, &r)
			var exact *big.Int
			var defCap int
			switch op {
			case "Add", "AddCap":
				exact, defCap = new(big.Int).Add(l.v, r.v), max(l.ann, r.ann)+1
			case "Sub", "SubCap":
				exact, defCap = new(big.Int).Sub(l.v, r.v), max(l.ann, r.ann)+1
			case "Mul", "MulCap":
				exact, defCap = new(big.Int).Mul(l.v, r.v), l.ann+r.ann
			case "And", "AndCap":
				exact, defCap = new(big.Int).And(l.v, r.v), -1
			case "Or", "OrCap":
				exact, defCap = new(big.Int).Or(l.v, r.v), -1
			default:
				exact, defCap = new(big.Int).Xor(l.v, r.v), -1
			}
			need := max(exact.BitLen(), l.v.BitLen(), r.v.BitLen())
			capArg, capArgC := -1, "cap=-1"
			switch op {
			case "AddCap", "SubCap", "MulCap", "AndCap", "OrCap", "XorCap":
				capArg, capArgC = genCapArg(t, "cap", need)
			}
			switch op {
			case "Add":
				out.Add(x, y)
			case "AddCap":
				out.AddCap(x, y, capArg)
			case "Sub":
				out.Sub(x, y)
			case "SubCap":
				out.SubCap(x, y, capArg)
			case "Mul":
				out.Mul(x, y)
			case "MulCap":
				out.MulCap(x, y, capArg)
			case "And":
				out.And(x, y)
			case "AndCap":
				out.AndCap(x, y, capArg)
			case "Or":
				out.Or(x, y)
			case "OrCap":
				out.OrCap(x, y, capArg)
			case "Xor":
				out.Xor(x, y)
			case "XorCap":
				out.XorCap(x, y, capArg)
			}
			what := fmt.Sprintf("numct.Int.%s(x=%s, y=%s, cap=%d) alias=%s out-before=%s", op, l, r, capArg, mode, zOld)
			effCap := capArg
			if effCap < 0 {
				effCap = defCap
			}
			if (op == "Add" || op == "AddCap" || op == "Sub" || op == "SubCap") && intAddDirty(zOld.v, zOld.ann, l.ann, r.ann, effCap) {
				// input class of finding C17-int-add-dirty-output (fixed by 1848c29): asserted normally
				extra += " dirty-output"
			}
			if capArg >= 0 && capArg < need {
				// an explicit capacity below the operands / the result: the doc comments define no
				// value for signed integers in that case; recorded, not asserted.
				extra += " cap-below-need(recorded)"
				nt = false
			} else {
				wantAnn := defCap
				if capArg >= 0 {
					wantAnn = capArg
				}
				if op[0] == 'A' && op != "Add" && op != "AddCap" || op[0] == 'O' || op[0] == 'X' {
					wantAnn = -1 // bitwise ops: "result may need more bits than inputs"
				}
				wantInt(t, what, out, exact, wantAnn)
			}
			// MulCap with an explicit capacity below an operand's announced length truncates that
			// operand's magnitude in place: finding C17-cap-mutates-input (same saferith routine).
			mut := func(o intOp) bool {
				return op == "MulCap" && capArg >= 0 && capTruncatesOperand(natOp{v: new(big.Int).Abs(o.v), ann: o.ann}, capArg)
			}
			if out != x {
				if mut(l) {
					vlib.Excluded(fCapMutates)
				} else {
					intUnchanged(t, what+" [x]", x, l)
				}
			}
			if out != y && y != x {
				if mut(r) {
					vlib.Excluded(fCapMutates)
				} else {
					intUnchanged(t, what+" [y]", y, r)
				}
			}
			sizeC, capC, aliasC = sizeClass(max(l.v.BitLen(), r.v.BitLen())), l.capC+","+r.capC+","+capArgC, mode
			signC = signClass(l.v) + "," + signClass(r.v)
			nt = nt && (l.v.Sign() != 0 || r.v.Sign() != 0)

		case "Neg", "Abs", "Double", "Square", "Increment", "Decrement", "Not", "NotCap", "Resize", "Lsh", "LshCap", "Rsh", "RshCap", "Sqrt", "SetClone", "CondNeg", "UnitInv":
			maxB := big4k
			if op == "Sqrt" || op == "Square" {
				maxB = mid
			}
			l := genIntOp(t, "x", maxB, true)
			if op == "Sqrt" && rapid.Bool().Draw(t, "square") {
				root, _ := genMag(t, "root", maxB/2)
				sq := new(big.Int).Mul(root, root)
				if rapid.IntRange(0, 5).Draw(t, "neg") == 0 {
					sq.Neg(sq)
				}
				ann, c := genAnn(t, "sq", sq.BitLen(), false)
				l = intOp{orig: sq, v: sq, ann: ann, capC: c}
			}
			if op == "UnitInv" && rapid.Bool().Draw(t, "unit") {
				v := big.NewInt(int64(rapid.SampledFrom([]int{1, -1, 0, 2, -2}).Draw(t, "u")))
				ann, c := genAnn(t, "u", v.BitLen(), false)
				l = intOp{orig: v, v: v, ann: ann, capC: c}
			}
			aliased := rapid.IntRange(0, 3).Draw(t, "alias1") == 0
			x := l.int()
			junk := genIntOp(t, "junk", 400, false)
			out := junk.int()
			before := new(big.Int).Set(junk.v)
			if aliased {
				out = x
				before = new(big.Int).Set(l.v)
				junk = l
			}
			aliasC = map[bool]string{true: "out=x", false: "none"}[aliased]
			what := fmt.Sprintf("numct.Int.%s(x=%s) alias=%s", op, l, aliasC)
			inplace := false
			switch op {
			case "Neg":
				out.Neg(x)
				wantInt(t, what, out, new(big.Int).Neg(l.v), l.ann)
			case "Abs":
				out.Abs(x)
				wantInt(t, what, out, new(big.Int).Abs(l.v), l.ann)
			case "Double":
				out.Double(x)
				if intAddDirty(junk.v, junk.ann, l.ann, l.ann, l.ann+1) {
					extra = "dirty-output"
				}
				wantInt(t, what, out, new(big.Int).Lsh(l.v, 1), l.ann+1)
			case "Square":
				out.Square(x)
				wantInt(t, what, out, new(big.Int).Mul(l.v, l.v), 2*l.ann)
			case "Increment":
				out, inplace = x, true
				out.Increment()
				wantInt(t, what, out, new(big.Int).Add(l.v, b1), -1)
			case "Decrement":
				out, inplace = x, true
				out.Decrement()
				wantInt(t, what, out, new(big.Int).Sub(l.v, b1), -1)
			case "CondNeg":
				ch := ct.Choice(rapid.IntRange(0, 1).Draw(t, "choice"))
				out, inplace = x, true
				out.CondNeg(ch)
				want := new(big.Int).Set(l.v)
				if ch == 1 {
					want.Neg(want)
				}
				wantInt(t, what+fmt.Sprint(" choice=", ch), out, want, l.ann)
			case "Not", "NotCap":
				capArg := -1
				if op == "NotCap" {
					capArg, capC = genCapArg(t, "cap", l.v.BitLen())
					out.NotCap(x, capArg)
				} else {
					out.Not(x)
				}
				what += fmt.Sprintf(" cap=%d", capArg)
				if capArg >= 0 && capArg < l.v.BitLen() {
					extra = "cap-below-need(recorded)"
					nt = false
				} else {
					wantInt(t, what, out, new(big.Int).Not(l.v), -1) // documented: -(x+1)
				}
			case "Resize":
				var capArg int
				capArg, capC = genCapArg(t, "cap", l.v.BitLen())
				out, inplace = x, true
				out.Resize(capArg)
				what += fmt.Sprintf(" cap=%d", capArg)
				if capArg < 0 {
					wantInt(t, what, out, l.v, l.ann)
				} else {
					wantAbs := mod2k(new(big.Int).Abs(l.v), capArg)
					if g := new(big.Int).Abs(out.Big()); !eq(g, wantAbs) || out.AnnouncedLen() != capArg {
						t.Fatalf("%s: |out|=%s ann %d, want %s ann %d", what, full(g), out.AnnouncedLen(), full(wantAbs), capArg)
					}
					if capArg >= l.v.BitLen() {
						wantInt(t, what, out, l.v, capArg)
					}
				}
			case "Lsh", "LshCap", "Rsh", "RshCap":
				var shift uint
				switch rapid.IntRange(0, 4).Draw(t, "shclass") {
				case 0:
					shift = 0
				case 1:
					shift = uint(rapid.SampledFrom([]int{1, 63, 64, 65, 127, 128, 129}).Draw(t, "shift"))
				case 2:
					shift = uint(l.ann)
				default:
					shift = uint(rapid.IntRange(0, l.ann+70).Draw(t, "shift"))
				}
				left := op == "Lsh" || op == "LshCap"
				abs := new(big.Int).Abs(l.v)
				var exactAbs *big.Int
				var defCap int
				if left {
					exactAbs, defCap = new(big.Int).Lsh(abs, shift), l.ann+int(shift)
				} else {
					exactAbs, defCap = new(big.Int).Rsh(abs, shift), max(0, l.ann-int(shift))
				}
				capArg := -1
				if op == "LshCap" || op == "RshCap" {
					capArg, capC = genCapArg(t, "cap", exactAbs.BitLen())
				}
				switch op {
				case "Lsh":
					out.Lsh(x, shift)
				case "LshCap":
					out.LshCap(x, shift, capArg)
				case "Rsh":
					out.Rsh(x, shift)
				default:
					out.RshCap(x, shift, capArg)
				}
				what += fmt.Sprintf(" shift=%d cap=%d", shift, capArg)
				eff := capArg
				if eff < 0 {
					eff = defCap
				}
				if eff < exactAbs.BitLen() {
					extra = "cap-below-need(recorded)"
					nt = false
				} else if left || l.v.Sign() >= 0 {
					want := new(big.Int).Set(exactAbs)
					if l.v.Sign() < 0 {
						want.Neg(want)
					}
					wantInt(t, what, out, want, eff)
				} else {
					// negative x >> s: the doc comment does not say whether the shift rounds towards
					// zero (magnitude shift) or down (arithmetic shift, math/big); either is accepted.
					trunc := new(big.Int).Neg(exactAbs)
					floor := new(big.Int).Rsh(l.v, shift)
					g := out.Big()
					switch {
					case eq(g, trunc) && eq(g, floor):
						extra = "rsh-neg:exact"
					case eq(g, trunc):
						extra = "rsh-neg:towards-zero"
					case eq(g, floor):
						extra = "rsh-neg:floor"
					default:
						t.Fatalf("%s: %s is neither trunc %s nor floor %s", what, g, trunc, floor)
					}
					if ctb(out.IsNegative()) != (g.Sign() < 0) {
						t.Fatalf("%s: IsNegative()=%v for value %s", what, ctb(out.IsNegative()), g)
					}
				}
			case "Sqrt":
				ok := out.Sqrt(x)
				isSq := false
				root := new(big.Int)
				if l.v.Sign() >= 0 {
					root.Sqrt(l.v)
					isSq = eq(new(big.Int).Mul(root, root), l.v)
				}
				if ctb(ok) != isSq {
					t.Fatalf("%s: ok=%v, perfect square=%v", what, ctb(ok), isSq)
				}
				if isSq {
					wantInt(t, what, out, root, -1)
				} else if !eq(out.Big(), before) {
					t.Fatalf("%s: not a square but out changed from %s to %s", what, before, out.Big())
				}
				extra = fmt.Sprintf("square=%v", isSq)
			case "SetClone":
				out.Set(x)
				wantInt(t, what+" Set", out, l.v, l.ann)
				c := x.Clone()
				wantInt(t, what+" Clone", c, l.v, l.ann)
				c.Increment()
				if !eq(x.Big(), l.v) {
					t.Fatalf("%s: mutating a Clone changed the original", what)
				}
				if l.v.Sign() >= 0 {
					var z numct.Int
					z.SetNat(exactNat(l.v))
					wantInt(t, what+" SetNat", &z, l.v, -1)
				}
				var z numct.Int
				z.SetZero()
				wantInt(t, "SetZero", &z, b0, -1)
				z.SetOne()
				wantInt(t, "SetOne", &z, b1, -1)
				wantInt(t, "IntOne", numct.IntOne(), b1, -1)
				wantInt(t, "IntZero", numct.IntZero(), b0, -1)
			case "UnitInv":
				unit := new(big.Int).Abs(l.v).Cmp(b1) == 0
				if ctb(x.IsUnit()) != unit {
					t.Fatalf("%s: IsUnit=%v", what, ctb(x.IsUnit()))
				}
				ok := out.Inv(x)
				if ctb(ok) != unit {
					t.Fatalf("%s: Inv ok=%v", what, ctb(ok))
				}
				if unit {
					wantInt(t, what, out, l.v, -1)
				}
				extra = fmt.Sprintf("unit=%v", unit)
			}
			if !inplace && out != x {
				intUnchanged(t, what+" [x]", x, l)
			}
			sizeC, signC = sizeClass(l.v.BitLen()), signClass(l.v)
			if inplace {
				aliasC = "inplace"
			}
			if capC == "" {
				capC = l.capC
			} else {
				capC = l.capC + "," + capC
			}
			nt = nt && l.v.Sign() != 0

		case "EuclideanDiv", "EuclideanDivVarTime", "Div", "DivVarTime":
			n := genIntOp(t, "num", mid, true)
			var d intOp
			switch rapid.IntRange(0, 9).Draw(t, "dclass") {
			case 0:
				d = intOp{orig: new(big.Int), v: new(big.Int), ann: rapid.IntRange(0, 130).Draw(t, "dzann"), capC: "cap>len"}
				extra = "div-by-zero"
			case 1:
				v := big.NewInt(int64(rapid.SampledFrom([]int{1, -1, 2, -2}).Draw(t, "dsmall")))
				d = intOp{orig: v, v: v, ann: rapid.IntRange(2, 70).Draw(t, "dann"), capC: "cap>len"}
				extra = "small-divisor"
			case 2: // exact multiple
				dm := genIntOp(t, "den", mid/2, false)
				k, _ := genMag(t, "k", mid/2)
				if rapid.Bool().Draw(t, "kneg") {
					k.Neg(k)
				}
				prod := new(big.Int).Mul(dm.v, k)
				n = intOp{orig: prod, v: prod, ann: prod.BitLen(), capC: "cap=len"}
				d = dm
				extra = "exact"
			default:
				d = genIntOp(t, "den", mid, true)
			}
			if (op == "EuclideanDivVarTime" || op == "DivVarTime") && (divVarTimePanics(n.ann, d.v) || d.v.Sign() != 0 && n.ann-d.v.BitLen()+2 == 0) {
				// (for the signed variants a documented quotient length of exactly 0 bits cannot hold the
				// quotient -1 / +1 of a negative numerator below the denominator: folded into the same finding)
				vlib.Excluded(fDivVarPanic)
				vlib.Case(test, vlib.Desc("numct.Int", op, "excluded"), false, "op="+op, "note=excluded:"+fDivVarPanic)
				return
			}
			nn, dd := n.int(), d.int()
			fresh := rapid.Bool().Draw(t, "freshout")
			what := fmt.Sprintf("numct.Int.%s(num=%s, den=%s) fresh=%v", op, n, d, fresh)
			var q numct.Int
			if !fresh {
				q.Set(genIntOp(t, "junkq", 100, false).int())
			}
			euclid := op == "EuclideanDiv" || op == "EuclideanDivVarTime"
			var ok ct.Bool
			var rBig *big.Int
			var rAnn int
			withRem := rapid.IntRange(0, 4).Draw(t, "withrem") != 0
			if euclid {
				var r *numct.Nat
				if withRem {
					r = new(numct.Nat)
					if !fresh {
						r = genNatOp(t, "junkr", 100, false).nat()
					}
				}
				if op == "EuclideanDiv" {
					ok = q.EuclideanDiv(r, nn, dd)
				} else {
					ok = q.EuclideanDivVarTime(r, nn, dd)
				}
				if r != nil {
					rBig, rAnn = r.Big(), r.AnnouncedLen()
				}
			} else {
				var r *numct.Int
				if withRem {
					r = new(numct.Int)
					if !fresh {
						r = genIntOp(t, "junkr", 100, false).int()
					}
				}
				if op == "Div" {
					ok = q.Div(r, nn, dd)
				} else {
					ok = q.DivVarTime(r, nn, dd)
				}
				if r != nil {
					rBig, rAnn = r.Big(), r.AnnouncedLen()
					if ctb(r.IsNegative()) != (rBig.Sign() < 0) {
						t.Fatalf("numct.Int.%s(num=%s, den=%s): remainder %s reports IsNegative=%v", op, n, d, rBig, ctb(r.IsNegative()))
					}
				}
			}
			if ctb(ok) != (d.v.Sign() != 0) {
				t.Fatalf("%s: ok=%v", what, ctb(ok))
			}
			if d.v.Sign() != 0 {
				constTime := op == "EuclideanDiv" || op == "Div"
				qAnn := -1
				if fresh && constTime && n.ann > 0 {
					qAnn = n.ann
				}
				if euclid {
					// the method name documents the Euclidean convention: 0 <= r < |d|
					wq, wr := new(big.Int).DivMod(n.v, d.v, new(big.Int))
					wantInt(t, what+" quotient", &q, wq, qAnn)
					if rBig != nil {
						if !eq(rBig, wr) {
							t.Fatalf("%s: remainder %s, want %s", what, rBig, wr)
						}
						if fresh && constTime && n.ann > 0 && rAnn != d.ann {
							t.Fatalf("%s: remainder announces %d bits, documented %d", what, rAnn, d.ann)
						}
					}
				} else {
					// Div/DivVarTime: the doc comment names no rounding rule, so the division identity
					// and |r| < |d| are asserted and the convention is recorded. The remainder is
					// needed for the identity; without it only the three admissible quotients are accepted.
					tq, tr := new(big.Int).QuoRem(n.v, d.v, new(big.Int))
					g := q.Big()
					if rBig != nil {
						if !eq(new(big.Int).Add(new(big.Int).Mul(g, d.v), rBig), n.v) || new(big.Int).Abs(rBig).Cmp(new(big.Int).Abs(d.v)) >= 0 {
							t.Fatalf("%s: q=%s r=%s violate num = q*den + r, |r| < |den|", what, g, rBig)
						}
					} else {
						fq := new(big.Int).Div(n.v, d.v)
						lo, hi := new(big.Int).Sub(tq, b1), new(big.Int).Add(tq, b1)
						if !eq(g, tq) && !eq(g, fq) && !(g.Cmp(lo) >= 0 && g.Cmp(hi) <= 0 && new(big.Int).Abs(new(big.Int).Sub(n.v, new(big.Int).Mul(g, d.v))).Cmp(new(big.Int).Abs(d.v)) < 0) {
							t.Fatalf("%s: quotient %s is not a quotient of the division", what, g)
						}
					}
					if eq(g, tq) && (rBig == nil || eq(rBig, tr)) {
						extra += " convention=truncated"
					} else {
						extra += " convention=other"
					}
					if qAnn >= 0 && q.AnnouncedLen() != qAnn {
						t.Fatalf("%s: quotient announces %d bits, documented %d", what, q.AnnouncedLen(), qAnn)
					}
					if ctb(q.IsNegative()) != (g.Sign() < 0) {
						t.Fatalf("%s: quotient %s reports IsNegative=%v", what, g, ctb(q.IsNegative()))
					}
				}
			} else {
				nt = false
			}
			intUnchanged(t, what+" [num]", nn, n)
			intUnchanged(t, what+" [den]", dd, d)
			sizeC, capC, aliasC = sizeClass(n.v.BitLen())+"/"+sizeClass(d.v.BitLen()), n.capC+","+d.capC, fmt.Sprintf("fresh=%v,rem=%v", fresh, withRem)
			signC = signClass(n.v) + "," + signClass(d.v)

		case "Compare", "Predicates", "Coprime", "GCD", "Select", "CondAssign":
			maxB := big4k
			if op == "GCD" || op == "Coprime" {
				maxB = mid
				if op == "GCD" && !vlib.Thorough() {
					maxB = 1100
				}
			}
			l := genIntOp(t, "x", maxB, true)
			r := genIntOp(t, "y", maxB, true)
			switch rapid.IntRange(0, 7).Draw(t, "rel") {
			case 0:
				ann, c := genAnn(t, "y2", l.v.BitLen(), false)
				r = intOp{orig: l.v, v: l.v, ann: ann, capC: c}
				extra = "x==y"
			case 1:
				v := new(big.Int).Neg(l.v)
				ann, c := genAnn(t, "y2", v.BitLen(), false)
				r = intOp{orig: v, v: v, ann: ann, capC: c}
				extra = "y=-x"
			case 2:
				v := new(big.Int).Add(l.v, b1)
				ann, c := genAnn(t, "y2", v.BitLen(), false)
				r = intOp{orig: v, v: v, ann: ann, capC: c}
				extra = "y=x+1"
			}
			mode := rapid.SampledFrom(aliasModes).Draw(t, "alias")
			if op == "Compare" || op == "Predicates" || op == "Coprime" {
				mode = rapid.SampledFrom([]string{"none", "none", "none", "x=y"}).Draw(t, "alias")
			}
			out, x, y, _ := aliasInt2(t, mode, l, &r)
			what := fmt.Sprintf("numct.Int.%s(x=%s, y=%s) alias=%s", op, l, r, mode)
			switch op {
			case "Compare":
				lt, e, gt := x.Compare(y)
				c := l.v.Cmp(r.v)
				if ctb(lt) != (c < 0) || ctb(e) != (c == 0) || ctb(gt) != (c > 0) {
					t.Fatalf("%s: (lt,eq,gt)=(%d,%d,%d), want cmp=%d", what, lt, e, gt, c)
				}
				if ctb(x.Equal(y)) != (c == 0) {
					t.Fatalf("%s: Equal=%v", what, ctb(x.Equal(y)))
				}
				extra += fmt.Sprintf(" cmp=%d", c)
			case "Predicates":
				chk := func(name string, got ct.Bool, want bool) {
					if ctb(got) != want {
						t.Fatalf("%s: %s=%v want %v", what, name, ctb(got), want)
					}
				}
				chk("IsNegative", x.IsNegative(), l.v.Sign() < 0)
				chk("IsZero", x.IsZero(), l.v.Sign() == 0)
				chk("IsNonZero", x.IsNonZero(), l.v.Sign() != 0)
				chk("IsOne", x.IsOne(), eq(l.v, b1))
				chk("IsOdd", x.IsOdd(), l.v.Bit(0) == 1)
				chk("IsEven", x.IsEven(), l.v.Bit(0) == 0)
				if x.TrueLen() != l.v.BitLen() || x.AnnouncedLen() != l.ann {
					t.Fatalf("%s: TrueLen/AnnouncedLen = %d/%d", what, x.TrueLen(), x.AnnouncedLen())
				}
				if new(big.Int).Abs(l.v).BitLen() <= 64 {
					if got := x.Uint64(); got != new(big.Int).Abs(l.v).Uint64() {
						t.Fatalf("%s: Uint64()=%d", what, got)
					}
				}
			case "Coprime":
				g := new(big.Int).GCD(nil, nil, new(big.Int).Abs(l.v), new(big.Int).Abs(r.v))
				if ctb(x.Coprime(y)) != eq(g, b1) {
					t.Fatalf("%s: Coprime=%v but gcd=%s", what, ctb(x.Coprime(y)), sh(g))
				}
			case "GCD":
				out.GCD(x, y)
				wantInt(t, what, out, new(big.Int).GCD(nil, nil, new(big.Int).Abs(l.v), new(big.Int).Abs(r.v)), -1)
			case "Select":
				ch := ct.Choice(rapid.IntRange(0, 1).Draw(t, "choice"))
				out.Select(ch, x, y)
				want := l.v
				if ch == 1 {
					want = r.v
				}
				wantInt(t, what+fmt.Sprint(" choice=", ch), out, want, -1)
			case "CondAssign":
				ch := ct.Choice(rapid.IntRange(0, 1).Draw(t, "choice"))
				o2 := l.int()
				yy := y
				if mode == "x=y" || mode == "all" {
					yy = o2
				}
				o2.CondAssign(ch, yy)
				want := l.v
				if ch == 1 {
					want = r.v
				}
				wantInt(t, what+fmt.Sprint(" choice=", ch), o2, want, -1)
			}
			if out != x {
				intUnchanged(t, what+" [x]", x, l)
			}
			if out != y && y != x {
				intUnchanged(t, what+" [y]", y, r)
			}
			sizeC, capC, aliasC = sizeClass(max(l.v.BitLen(), r.v.BitLen())), l.capC+","+r.capC, mode
			signC = signClass(l.v) + "," + signClass(r.v)
			nt = l.v.Sign() != 0 && r.v.Sign() != 0

		case "Bytes", "TwosComplement", "Int64", "IsProbablyPrime":
			maxB := big4k
			if op == "IsProbablyPrime" {
				maxB = 600
			}
			l := genIntOp(t, "x", maxB, true)
			x := l.int()
			what := fmt.Sprintf("numct.Int.%s(x=%s)", op, l)
			switch op {
			case "Bytes":
				bs := x.Bytes()
				wantSign := byte(0)
				if l.v.Sign() < 0 {
					wantSign = 1
				}
				if len(bs) != 1+(l.ann+7)/8 || bs[0] != wantSign || !eq(new(big.Int).SetBytes(bs[1:]), new(big.Int).Abs(l.v)) {
					t.Fatalf("%s: Bytes()=%x", what, bs)
				}
				var back numct.Int
				if ok := back.SetBytes(bs); !ctb(ok) {
					t.Fatalf("%s: SetBytes(Bytes()) not ok", what)
				}
				wantInt(t, what+" round trip", &back, l.v, 8*(len(bs)-1))
				wantInt(t, what+" NewIntFromBytes", numct.NewIntFromBytes(bs), l.v, -1)
				var e numct.Int
				if ok := e.SetBytes(nil); ctb(ok) {
					t.Fatalf("SetBytes(empty) reported ok (documented: ok = 0 for an empty slice)")
				}
			case "TwosComplement":
				bs := x.TwosComplementBytesBE()
				wantLen := (l.ann + 1 + 7) / 8
				if len(bs) != wantLen || !eq(fromTwos(bs), l.v) {
					t.Fatalf("%s: TwosComplementBytesBE()=%x, decodes to %s", what, bs, fromTwos(bs))
				}
				// decode an independently built encoding, minimal or sign-extended
				n := (l.v.BitLen()+1+7)/8 + rapid.IntRange(0, 9).Draw(t, "pad")
				enc := twos(l.v, n)
				var back numct.Int
				if ok := back.SetTwosComplementBytesBE(enc); !ctb(ok) {
					t.Fatalf("%s: SetTwosComplementBytesBE(%x) not ok", what, enc)
				}
				wantInt(t, fmt.Sprintf("SetTwosComplementBytesBE(%x)", enc), &back, l.v, -1)
				wantInt(t, "NewIntFromTwosComplementBytesBE", numct.NewIntFromTwosComplementBytesBE(enc), l.v, -1)
				// most negative value of the width: -2^(8n-1)
				mn := new(big.Int).Neg(pow2(8*n - 1))
				var mnI numct.Int
				mnI.SetTwosComplementBytesBE(twos(mn, n))
				wantInt(t, fmt.Sprintf("SetTwosComplementBytesBE(min of %d bytes)", n), &mnI, mn, -1)
				var e numct.Int
				if ok := e.SetTwosComplementBytesBE(nil); ctb(ok) {
					t.Fatalf("SetTwosComplementBytesBE(empty) reported ok")
				}
			case "Int64":
				v := rapid.Int64().Draw(t, "i64")
				switch rapid.IntRange(0, 5).Draw(t, "i64class") {
				case 0:
					v = math.MinInt64
				case 1:
					v = math.MaxInt64
				case 2:
					v = int64(rapid.IntRange(-2, 2).Draw(t, "small"))
				}
				var z numct.Int
				z.SetInt64(v)
				wantInt(t, fmt.Sprintf("SetInt64(%d)", v), &z, big.NewInt(v), 64)
				wantInt(t, fmt.Sprintf("NewInt(%d)", v), numct.NewInt(v), big.NewInt(v), 64)
				if got := z.Int64(); got != v {
					t.Fatalf("SetInt64(%d).Int64() = %d", v, got)
				}
				u := rapid.Uint64().Draw(t, "u64")
				z.SetUint64(u)
				wantInt(t, fmt.Sprintf("SetUint64(%d)", u), &z, new(big.Int).SetUint64(u), 64)
				wantInt(t, "NewIntFromUint64", numct.NewIntFromUint64(u), new(big.Int).SetUint64(u), 64)
				if l.v.IsInt64() {
					if got := x.Int64(); got != l.v.Int64() {
						t.Fatalf("%s: Int64()=%d", what, got)
					}
				}
			case "IsProbablyPrime":
				v := l.v
				if rapid.Bool().Draw(t, "makeprime") {
					v = nextPrime(new(big.Int).Abs(l.v))
					if l.v.Sign() < 0 {
						v.Neg(v)
					}
					x = exactInt(v)
				}
				want := v.Sign() > 0 && v.ProbablyPrime(32)
				if ctb(x.IsProbablyPrime()) != want {
					t.Fatalf("numct.Int.IsProbablyPrime(%s)=%v want %v", v, ctb(x.IsProbablyPrime()), want)
				}
				extra = fmt.Sprintf("prime=%v", want)
			}
			sizeC, capC, aliasC, signC = sizeClass(l.v.BitLen()), l.capC, "n/a", signClass(l.v)
			nt = l.v.Sign() != 0

		case "RandomRange":
			lo := genIntOp(t, "lo", 600, false)
			hi := genIntOp(t, "hi", 600, false)
			switch rapid.IntRange(0, 4).Draw(t, "rel") {
			case 0:
				v := new(big.Int).Add(lo.v, b1)
				hi = intOp{orig: v, v: v, ann: v.BitLen(), capC: "cap=len"}
				extra = "hi=lo+1"
			case 1:
				hi = lo
				extra = "hi=lo"
			}
			prng := vlib.NewPRNG(rapid.Uint64().Draw(t, "prngseed"), "c17/intrange")
			var n numct.Int
			err := n.SetRandomRangeLH(lo.int(), hi.int(), prng)
			what := fmt.Sprintf("numct.Int.SetRandomRangeLH(lo=%s, hi=%s)", lo, hi)
			if lo.v.Cmp(hi.v) >= 0 {
				if err == nil {
					t.Fatalf("%s: empty range accepted", what)
				}
				nt = false
			} else {
				if err != nil {
					t.Fatalf("%s: %v", what, err)
				}
				if g := n.Big(); g.Cmp(lo.v) < 0 || g.Cmp(hi.v) >= 0 {
					t.Fatalf("%s: sample %s outside the range", what, g)
				}
			}
			sizeC, capC, aliasC, signC = sizeClass(hi.v.BitLen()), lo.capC+","+hi.capC, "n/a", signClass(lo.v)+","+signClass(hi.v)
		}
		vlib.Case(test, vlib.Desc("numct.Int", op, sizeC, capC, aliasC, signC, extra), nt,
			"op="+op, "size="+sizeC, "alias="+aliasC, "sign="+signC, "cap="+capC)
		if extra != "" {
			vlib.Class(test, "note="+op+":"+extra)
		}
	})
}
