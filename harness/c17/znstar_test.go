package c17

import (
	"fmt"
	"math/big"
	"testing"

	"pgregory.net/rapid"

	"github.com/bronlabs/bron-crypto/pkg/base/nt/num"
	"github.com/bronlabs/bron-crypto/pkg/base/nt/znstar"
	"verif/harness/vlib"
)

// genEqualLenPrimes draws two distinct odd primes of the same bit length (NewRSAGroup /
// NewPaillierGroup demand it): drawn small ones or openssl fixtures.
func genEqualLenPrimes(t *rapid.T) (p, q *big.Int, cls string) {
	fb := []int{512}
	if vlib.Thorough() {
		fb = []int{512, 768, 1024}
	}
	if rapid.IntRange(0, 9).Draw(t, "usefixture") < 3 {
		bits := rapid.SampledFrom(fb).Draw(t, "fbits")
		kind := rapid.SampledFrom([]string{"ord", "blum", "safe"}).Draw(t, "fkind")
		list := fixturePrimes(bits, kind)
		i := rapid.IntRange(0, len(list)-1).Draw(t, "fi")
		j := rapid.IntRange(0, len(list)-2).Draw(t, "fj")
		if j >= i {
			j++
		}
		return list[i], list[j], fmt.Sprintf("fixture%d/%s", bits, kind)
	}
	bits := rapid.IntRange(4, 130).Draw(t, "pbits")
	kind := rapid.SampledFrom([]string{"ord", "ord", "blum"}).Draw(t, "kind")
	mk := func(label string, avoid *big.Int) *big.Int {
		x, _ := genMagOfBits(t, label, bits)
		x.SetBit(x, bits-2, 0) // head room so that the next prime keeps the length
		pr := nextPrimeOfForm(x, kind)
		for pr.BitLen() != bits || avoid != nil && eq(pr, avoid) {
			if pr.BitLen() != bits {
				pr = nextPrimeOfForm(pow2(bits-1), kind)
			} else {
				pr = nextPrimeOfForm(new(big.Int).Add(pr, b1), kind)
			}
			if pr.BitLen() > bits { // wrapped past the length: restart from the bottom
				pr = nextPrimeOfForm(pow2(bits-1), kind)
				if avoid != nil && eq(pr, avoid) {
					pr = nextPrimeOfForm(new(big.Int).Add(pr, b1), kind)
				}
				break
			}
		}
		return pr
	}
	p = mk("p", nil)
	q = mk("q", p)
	if p.BitLen() != q.BitLen() || eq(p, q) { // tiny lengths with a single prime of the form
		p, q = big.NewInt(11), big.NewInt(13)
		if kind == "blum" {
			p, q = big.NewInt(11), big.NewInt(15-8) // 11 and 7 differ in length; use 19, 23
			p, q = big.NewInt(19), big.NewInt(23)
		}
	}
	return p, q, fmt.Sprintf("small/%s", kind)
}

func bigJacobi(x, n *big.Int) int { return big.Jacobi(x, n) }

// TestZnStar: RSA group (Z/pqZ)* and Paillier group (Z/(pq)^2 Z)*, known- and unknown-order views,
// against math/big: membership (units only), Mul, Exp, ExpI, Inv, Div, Square, Jacobi,
// RandomWithJacobi, quadratic residuosity, N-th residues, Paillier representatives.
func TestZnStar(t *testing.T) {
	const test = "ZnStar"
	ops := []string{"Membership", "Mul", "Exp", "ExpI", "Inv", "Div", "Jacobi", "RandomWithJacobi", "QR", "Views", "Paillier"}
	vlib.Check(t, 1200, func(t *rapid.T) {
		p, q, pc := genEqualLenPrimes(t)
		n := new(big.Int).Mul(p, q)
		n2 := new(big.Int).Mul(n, n)
		pn, qn := numNatPlus(t, p, p.BitLen()), numNatPlus(t, q, q.BitLen())
		paillier := rapid.Bool().Draw(t, "paillier")
		op := rapid.SampledFrom(ops).Draw(t, "op")
		if op == "Paillier" {
			paillier = true
		}
		M := n
		if paillier {
			M = n2
		}
		what := fmt.Sprintf("znstar(p=%s, q=%s, paillier=%v).%s", sh(p), sh(q), paillier, op)
		red := func(v *big.Int) *big.Int { return new(big.Int).Mod(v, M) }
		isUnit := func(v *big.Int) bool { return eq(new(big.Int).GCD(nil, nil, red(v), M), b1) }
		genUnit := func(label string) *big.Int {
			for i := 0; ; i++ {
				v := genBelow(t, fmt.Sprint(label, i), M)
				if isUnit(v) {
					return v
				}
			}
		}
		extra := ""
		nt := true
		prng := vlib.NewPRNG(rapid.Uint64().Draw(t, "prngseed"), "c17/znstar")
		natOf := func(v *big.Int) *num.Nat {
			return numNat(t, mkNatOp(v, v.BitLen()+rapid.SampledFrom([]int{0, 0, 1, 64}).Draw(t, "pad"), "cap>=len"))
		}

		if !paillier {
			g, err := znstar.NewRSAGroup(pn, qn)
			if err != nil {
				t.Fatalf("NewRSAGroup(%s,%s): %v", sh(p), sh(q), err)
			}
			gu := g.ForgetOrder()
			if !eq(g.Modulus().Big(), n) || !eq(gu.Modulus().Big(), n) || g.IsUnknownOrder() || !gu.IsUnknownOrder() {
				t.Fatalf("%s: modulus / order view wrong", what)
			}
			phi := new(big.Int).Mul(new(big.Int).Sub(p, b1), new(big.Int).Sub(q, b1))
			if !eq(g.Order().Big(), phi) || !gu.Order().IsUnknown() {
				t.Fatalf("%s: Order() wrong", what)
			}
			a, b := genUnit("a"), genUnit("b")
			ea, err := g.FromNat(natOf(a))
			wantErr(t, what+" FromNat(unit)", err, false)
			eb, err := g.FromNat(natOf(b))
			wantErr(t, what+" FromNat(unit)", err, false)
			ua, err := gu.FromNat(natOf(a))
			wantErr(t, what+" FromNat(unit) unknown order", err, false)
			ub, _ := gu.FromNat(natOf(b))
			switch op {
			case "Membership", "Paillier":
				v, _ := genOperandFor(t, "v", M, M.BitLen()+70)
				if rapid.IntRange(0, 2).Draw(t, "nonunit") == 0 {
					v = mkNatOp(new(big.Int).Mul(p, genBelow(t, "k", q)), 0, "")
					v.ann = v.v.BitLen()
				}
				e, err := g.FromNat(numNat(t, v))
				wantErr(t, fmt.Sprintf("%s FromNat(%s)", what, v), err, !isUnit(v.v))
				if err == nil {
					wantBig(t, what+" value", e.Value().Big(), red(v.v))
				}
				_, err = gu.FromNat(numNat(t, v))
				wantErr(t, fmt.Sprintf("%s unknown-order FromNat(%s)", what, v), err, !isUnit(v.v))
				_, err = g.FromUint64(0)
				wantErr(t, what+" FromUint64(0)", err, true)
				if !g.One().IsOne() || !eq(g.One().Value().Big(), b1) {
					t.Fatalf("%s: One() wrong", what)
				}
				extra = fmt.Sprintf("unit=%v", isUnit(v.v))
			case "Mul":
				wantBig(t, what, ea.Mul(eb).Value().Big(), red(new(big.Int).Mul(a, b)))
				wantBig(t, what+" unknown", ua.Mul(ub).Value().Big(), red(new(big.Int).Mul(a, b)))
				wantBig(t, what+" Square", ea.Square().Value().Big(), red(new(big.Int).Mul(a, a)))
				wantBig(t, what+" Op", ea.Op(eb).Value().Big(), red(new(big.Int).Mul(a, b)))
			case "Exp":
				e := genNatOp(t, "e", min(M.BitLen()+70, 1200), true)
				w := new(big.Int).Exp(a, e.v, M)
				wantBig(t, fmt.Sprintf("%s a=%s e=%s", what, sh(a), e), ea.Exp(numNat(t, e)).Value().Big(), w)
				wantBig(t, fmt.Sprintf("%s unknown a=%s e=%s", what, sh(a), e), ua.Exp(numNat(t, e)).Value().Big(), w)
				bits := uint(rapid.IntRange(0, e.ann+5).Draw(t, "bits"))
				wantBig(t, fmt.Sprintf("%s ExpBounded a=%s e=%s bits=%d", what, sh(a), e, bits), ea.ExpBounded(numNat(t, e), bits).Value().Big(), new(big.Int).Exp(a, mod2k(e.v, int(bits)), M))
			case "ExpI":
				e := genIntOp(t, "e", min(M.BitLen()+70, 1200), false)
				w := new(big.Int).Exp(a, new(big.Int).Abs(e.v), M)
				if e.v.Sign() < 0 {
					w.ModInverse(w, M)
				}
				wantBig(t, fmt.Sprintf("%s a=%s e=%s", what, sh(a), e), ea.ExpI(numInt(t, e)).Value().Big(), w)
				wantBig(t, fmt.Sprintf("%s unknown a=%s e=%s", what, sh(a), e), ua.ExpI(numInt(t, e)).Value().Big(), w)
				wantBig(t, what+" ScalarOp", ea.ScalarOp(numInt(t, e)).Value().Big(), w)
				extra = signClass(e.v)
			case "Inv":
				w := new(big.Int).ModInverse(a, M)
				wantBig(t, what+" a="+sh(a), ea.Inv().Value().Big(), w)
				wantBig(t, what+" unknown a="+sh(a), ua.Inv().Value().Big(), w)
				ti, err := ea.TryInv()
				wantErr(t, what+" TryInv", err, false)
				wantBig(t, what+" TryInv", ti.Value().Big(), w)
			case "Div":
				w := red(new(big.Int).Mul(a, new(big.Int).ModInverse(b, M)))
				wantBig(t, fmt.Sprintf("%s a=%s b=%s", what, sh(a), sh(b)), ea.Div(eb).Value().Big(), w)
				wantBig(t, fmt.Sprintf("%s unknown a=%s b=%s", what, sh(a), sh(b)), ua.Div(ub).Value().Big(), w)
			case "Jacobi":
				j, err := ea.Jacobi()
				wantErr(t, what, err, false)
				if j != bigJacobi(a, n) {
					t.Fatalf("%s: Jacobi(%s | %s) = %d, math/big says %d", what, sh(a), sh(n), j, bigJacobi(a, n))
				}
				ju, _ := ua.Jacobi()
				if ju != j {
					t.Fatalf("%s: unknown-order view disagrees", what)
				}
				extra = fmt.Sprint("j=", j)
			case "RandomWithJacobi":
				want := rapid.SampledFrom([]int{1, -1}).Draw(t, "j")
				r, err := g.RandomWithJacobi(want, prng)
				wantErr(t, what, err, false)
				v := r.Value().Big()
				if !isUnit(v) || v.Cmp(M) >= 0 || bigJacobi(v, n) != want {
					t.Fatalf("%s: RandomWithJacobi(%d) returned %s (unit %v, jacobi %d)", what, want, sh(v), isUnit(v), bigJacobi(v, n))
				}
				_, err = g.RandomWithJacobi(0, prng)
				wantErr(t, what+" j=0", err, true)
				rr, err := gu.Random(prng)
				wantErr(t, what, err, false)
				if !isUnit(rr.Value().Big()) {
					t.Fatalf("%s: Random returned a non-unit", what)
				}
			case "QR":
				// known order: residue iff a is a square modulo both primes
				isQR := bigJacobi(new(big.Int).Mod(a, p), p) == 1 && bigJacobi(new(big.Int).Mod(a, q), q) == 1
				got, err := g.IsQuadraticResidue(ea)
				wantErr(t, what, err, false)
				if got != isQR {
					t.Fatalf("%s: IsQuadraticResidue(%s)=%v want %v", what, sh(a), got, isQR)
				}
				_, err = gu.IsQuadraticResidue(ua)
				wantErr(t, what+" unknown order", err, true)
				r, err := g.RandomQuadraticResidue(prng)
				wantErr(t, what, err, false)
				rv := r.Value().Big()
				if bigJacobi(new(big.Int).Mod(rv, p), p) != 1 || bigJacobi(new(big.Int).Mod(rv, q), q) != 1 {
					t.Fatalf("%s: RandomQuadraticResidue returned the non-residue %s", what, sh(rv))
				}
				extra = fmt.Sprintf("qr=%v", isQR)
			case "Views":
				le, err := ua.LearnOrder(g)
				wantErr(t, what, err, false)
				if !eq(le.Value().Big(), a) || le.IsUnknownOrder() || !ea.ForgetOrder().IsUnknownOrder() || !ea.Equal(le) {
					t.Fatalf("%s: LearnOrder/ForgetOrder changed the element", what)
				}
				g2, err := znstar.NewRSAGroupOfUnknownOrder(numNatPlus(t, n, n.BitLen()))
				wantErr(t, what, err, false)
				if !g2.Equal(gu) {
					t.Fatalf("%s: unknown-order groups over the same modulus differ", what)
				}
			}
		} else {
			g, err := znstar.NewPaillierGroup(pn, qn)
			if err != nil {
				t.Fatalf("NewPaillierGroup(%s,%s): %v", sh(p), sh(q), err)
			}
			gu := g.ForgetOrder()
			if !eq(g.Modulus().Big(), n2) || !eq(g.N().Big(), n) || !eq(gu.Modulus().Big(), n2) {
				t.Fatalf("%s: moduli wrong", what)
			}
			phi := new(big.Int).Mul(new(big.Int).Sub(p, b1), new(big.Int).Sub(q, b1))
			if !eq(g.Order().Big(), new(big.Int).Mul(phi, n)) {
				t.Fatalf("%s: Order() wrong", what)
			}
			a, b := genUnit("a"), genUnit("b")
			ea, err := g.FromNat(natOf(a))
			wantErr(t, what+" FromNat(unit)", err, false)
			eb, _ := g.FromNat(natOf(b))
			ua, _ := gu.FromNat(natOf(a))
			ub, _ := gu.FromNat(natOf(b))
			switch op {
			case "Membership":
				v, _ := genOperandFor(t, "v", M, M.BitLen()+70)
				if rapid.IntRange(0, 2).Draw(t, "nonunit") == 0 {
					vv := new(big.Int).Mul(q, genBelow(t, "k", new(big.Int).Mul(p, n)))
					v = mkNatOp(vv, vv.BitLen(), "cap=len")
				}
				e, err := g.FromNat(numNat(t, v))
				wantErr(t, fmt.Sprintf("%s FromNat(%s)", what, v), err, !isUnit(v.v))
				if err == nil {
					wantBig(t, what+" value", e.Value().Big(), red(v.v))
				}
				extra = fmt.Sprintf("unit=%v", isUnit(v.v))
			case "Mul":
				wantBig(t, what, ea.Mul(eb).Value().Big(), red(new(big.Int).Mul(a, b)))
				wantBig(t, what+" unknown", ua.Mul(ub).Value().Big(), red(new(big.Int).Mul(a, b)))
			case "Exp":
				e := genNatOp(t, "e", min(M.BitLen()+70, 1200), true)
				w := new(big.Int).Exp(a, e.v, M)
				wantBig(t, fmt.Sprintf("%s a=%s e=%s", what, sh(a), e), ea.Exp(numNat(t, e)).Value().Big(), w)
				wantBig(t, fmt.Sprintf("%s unknown a=%s e=%s", what, sh(a), e), ua.Exp(numNat(t, e)).Value().Big(), w)
			case "ExpI":
				e := genIntOp(t, "e", min(M.BitLen()+70, 1200), false)
				w := new(big.Int).Exp(a, new(big.Int).Abs(e.v), M)
				if e.v.Sign() < 0 {
					w.ModInverse(w, M)
				}
				wantBig(t, fmt.Sprintf("%s a=%s e=%s", what, sh(a), e), ea.ExpI(numInt(t, e)).Value().Big(), w)
				wantBig(t, fmt.Sprintf("%s unknown a=%s e=%s", what, sh(a), e), ua.ExpI(numInt(t, e)).Value().Big(), w)
				extra = signClass(e.v)
			case "Inv":
				w := new(big.Int).ModInverse(a, M)
				wantBig(t, what+" a="+sh(a), ea.Inv().Value().Big(), w)
				wantBig(t, what+" unknown a="+sh(a), ua.Inv().Value().Big(), w)
			case "Div":
				w := red(new(big.Int).Mul(a, new(big.Int).ModInverse(b, M)))
				wantBig(t, fmt.Sprintf("%s a=%s b=%s", what, sh(a), sh(b)), ea.Div(eb).Value().Big(), w)
				wantBig(t, fmt.Sprintf("%s unknown a=%s b=%s", what, sh(a), sh(b)), ua.Div(ub).Value().Big(), w)
			case "Jacobi", "RandomWithJacobi":
				// the Jacobi symbol of a Paillier element is taken modulo N (not N^2)
				j, err := ea.Jacobi()
				wantErr(t, what, err, false)
				if j != bigJacobi(a, n) {
					t.Fatalf("%s: Jacobi(%s | N) = %d, math/big says %d", what, sh(a), j, bigJacobi(a, n))
				}
				want := rapid.SampledFrom([]int{1, -1}).Draw(t, "j")
				r, err := g.RandomWithJacobi(want, prng)
				wantErr(t, what, err, false)
				if v := r.Value().Big(); !isUnit(v) || bigJacobi(v, n) != want {
					t.Fatalf("%s: RandomWithJacobi(%d) returned %s", what, want, sh(v))
				}
			case "QR", "Views":
				le, err := ua.LearnOrder(g)
				wantErr(t, what, err, false)
				if !eq(le.Value().Big(), a) || !ea.Equal(le) {
					t.Fatalf("%s: LearnOrder changed the element", what)
				}
				g2, err := znstar.NewPaillierGroupOfUnknownOrder(numNatPlus(t, n2, n2.BitLen()), numNatPlus(t, n, n.BitLen()))
				wantErr(t, what, err, false)
				if !g2.Equal(gu) {
					t.Fatalf("%s: unknown-order groups over the same modulus differ", what)
				}
				_, err = znstar.NewPaillierGroupOfUnknownOrder(numNatPlus(t, new(big.Int).Add(n2, b1), n2.BitLen()+1), numNatPlus(t, n, n.BitLen()))
				wantErr(t, what+" n2 != n^2", err, true)
			case "Paillier":
				w := new(big.Int).Exp(a, n, n2)
				nr, err := g.NthResidue(ea)
				wantErr(t, what, err, false)
				wantBig(t, what+" NthResidue a="+sh(a), nr.Value().Big(), w)
				nru, err := gu.NthResidue(ua)
				wantErr(t, what, err, false)
				wantBig(t, what+" NthResidue (unknown order) a="+sh(a), nru.Value().Big(), w)
				// Representative(m) = 1 + m*N mod N^2 for a plaintext m of Z/NZ
				zn, err := num.NewZMod(numNatPlus(t, n, n.BitLen()))
				wantErr(t, what, err, false)
				mv := genBelow(t, "m", n)
				pt, err := zn.FromNat(natOf(mv))
				wantErr(t, what, err, false)
				rep, err := g.Representative(pt)
				wantErr(t, what+" Representative", err, false)
				wantBig(t, what+" Representative m="+sh(mv), rep.Value().Big(), red(new(big.Int).Add(b1, new(big.Int).Mul(mv, n))))
				// embedding of an RSA unit keeps its integer value
				rg, err := znstar.NewRSAGroupOfUnknownOrder(numNatPlus(t, n, n.BitLen()))
				wantErr(t, what, err, false)
				uv := new(big.Int).Mod(a, n)
				ru, err := rg.FromNat(natOf(uv))
				wantErr(t, what, err, false)
				emb, err := g.EmbedRSA(ru)
				wantErr(t, what+" EmbedRSA", err, false)
				wantBig(t, what+" EmbedRSA", emb.Value().Big(), uv)
			}
		}
		sc := sizeClass(p.BitLen())
		grp := map[bool]string{true: "paillier", false: "rsa"}[paillier]
		vlib.Case(test, vlib.Desc("znstar", grp, op, pc, sc, extra), nt, "group="+grp, "op="+op, "primes="+pc, "primesize="+sc)
	})
}
