package c17

import (
	"fmt"
	"math/big"
	"testing"

	"pgregory.net/rapid"

	"github.com/bronlabs/bron-crypto/pkg/base/nt"
	"github.com/bronlabs/bron-crypto/pkg/base/nt/cardinal"
	"github.com/bronlabs/bron-crypto/pkg/base/nt/num"
	"verif/harness/vlib"
)

func libJacobi(x, y *big.Int) (int, error) {
	xi, err := num.Z().FromBig(x)
	if err != nil {
		return 0, err
	}
	yn, err := num.NPlus().FromBig(y)
	if err != nil {
		return 0, err
	}
	return nt.Jacobi(xi, yn)
}

// TestJacobi: nt.Jacobi(x, y) for every sign of x and odd positive y against math/big.Jacobi;
// even y is rejected. Named classes: "negative numerator", "modulus = 3 mod 4".
func TestJacobi(t *testing.T) {
	const test = "Jacobi"
	vlib.Check(t, 8000, func(t *rapid.T) {
		maxB := 1100
		if vlib.Thorough() {
			maxB = 4096
		}
		var y *big.Int
		yc := ""
		switch rapid.IntRange(0, 9).Draw(t, "yclass") {
		case 0:
			y, yc = big.NewInt(int64(rapid.SampledFrom([]int{1, 3, 5, 7, 9, 15, 21, 25, 27}).Draw(t, "ysmall"))), "tiny"
		case 1, 2:
			y, yc = genOddPrime(t, "yp", 300, nil, []string{"ord", "blum"})
			yc = "prime:" + yc
		case 3:
			p, _ := genOddPrime(t, "yp", 150, nil, []string{"ord", "blum"})
			q, _ := genOddPrime(t, "yq", 150, nil, []string{"ord", "blum"})
			y, yc = new(big.Int).Mul(p, q), "pq"
		case 4:
			p, _ := genOddPrime(t, "yp", 150, nil, nil)
			y, yc = new(big.Int).Mul(p, p), "square"
		default:
			y, _ = genMag(t, "y", maxB)
			y.SetBit(y, 0, 1)
			yc = "odd"
		}
		var x *big.Int
		xc := ""
		switch rapid.IntRange(0, 9).Draw(t, "xclass") {
		case 0:
			x, xc = new(big.Int), "zero"
		case 1:
			x, xc = big.NewInt(int64(rapid.SampledFrom([]int{1, -1, 2, -2}).Draw(t, "xsmall"))), "unit-or-two"
		case 2:
			x, xc = new(big.Int).Mul(y, big.NewInt(int64(rapid.IntRange(-3, 3).Draw(t, "k")))), "multiple-of-y"
		case 3:
			r := genBelow(t, "r", y)
			x, xc = new(big.Int).Mul(r, r), "square"
		case 4:
			x, xc = genBelow(t, "xr", y), "reduced"
		default:
			x, _ = genMag(t, "x", maxB)
			xc = "drawn"
		}
		if rapid.Bool().Draw(t, "neg") {
			x = new(big.Int).Neg(x)
		}
		even := rapid.IntRange(0, 19).Draw(t, "even") == 0
		if even {
			ye := new(big.Int).Add(y, b1)
			_, err := libJacobi(x, ye)
			if err == nil {
				t.Fatalf("nt.Jacobi(%s, %s): even modulus accepted", x, sh(ye))
			}
			vlib.Case(test, vlib.Desc("jacobi", "even-modulus"), false, "class=even modulus rejected")
			return
		}
		got, err := libJacobi(x, y)
		want := big.Jacobi(x, y)
		if err != nil || got != want {
			t.Fatalf("nt.Jacobi(%s, %s) = %d (err %v), math/big.Jacobi = %d", x, y, got, err, want)
		}
		classes := []string{"x=" + xc, "y=" + yc, "sign=" + signClass(x), fmt.Sprint("value=", want), "ysize=" + sizeClass(y.BitLen())}
		if x.Sign() < 0 {
			classes = append(classes, "class=negative numerator")
		}
		if y.Bit(0) == 1 && y.Bit(1) == 1 {
			classes = append(classes, "class=modulus = 3 mod 4")
		}
		if x.Sign() < 0 && y.Bit(1) == 1 {
			classes = append(classes, "class=negative numerator AND modulus = 3 mod 4")
		}
		vlib.Case(test, vlib.Desc("jacobi", xc, yc, signClass(x), y.Bit(1), want, sizeClass(y.BitLen())), x.Sign() != 0, classes...)
	})
}

// TestJacobiSmallScope enumerates every x in [-64, 64] and odd y in [1, 129].
func TestJacobiSmallScope(t *testing.T) {
	const test = "JacobiSmallScope"
	i := 0
	for y := int64(1); y <= 129; y += 2 {
		for x := int64(-64); x <= 64; x++ {
			i++
			if !vlib.Mine(i) {
				continue
			}
			got, err := libJacobi(big.NewInt(x), big.NewInt(y))
			want := big.Jacobi(big.NewInt(x), big.NewInt(y))
			if err != nil || got != want {
				t.Fatalf("nt.Jacobi(%d, %d) = %d (err %v), math/big.Jacobi = %d", x, y, got, err, want)
			}
			cls := []string{fmt.Sprint("value=", want)}
			if x < 0 {
				cls = append(cls, "class=negative numerator")
			}
			if y%4 == 3 {
				cls = append(cls, "class=modulus = 3 mod 4")
			}
			vlib.Case(test, vlib.Desc("jacobi-small", x, y), x != 0, cls...)
		}
	}
	vlib.Exhaustive("nt.Jacobi(x, y) for all x in [-64, 64] and odd y in [1, 129]")
}

// TestPrimeGeneration: every generator returns probable primes (32 Miller-Rabin rounds of
// math/big) of exactly the requested bit length and form; pairs are distinct and their product has
// exactly the requested length. Note: under go1.26 the generators are not a function of the reader
// they are given (crypto/rand.Prime and crypto/rsa.GenerateKey ignore it), so a failing case is
// reproduced from its printed value, not from the rapid seed.
func TestPrimeGeneration(t *testing.T) {
	const test = "PrimeGeneration"
	kinds := []string{"prime", "blum", "safe", "pair", "blumpair", "safepair", "random", "mrchecks", "reject"}
	vlib.Check(t, 160, func(t *rapid.T) {
		kind := rapid.SampledFrom(kinds).Draw(t, "kind")
		prng := vlib.NewPRNG(rapid.Uint64().Draw(t, "prngseed"), "c17/primes")
		isPrime := func(p *big.Int) bool { return p.ProbablyPrime(32) }
		maxBits := 256
		if vlib.Thorough() {
			maxBits = 512
		}
		bitsGen := func(lo, hi int) int {
			switch rapid.IntRange(0, 3).Draw(t, "bitsclass") {
			case 0:
				return clampBits(rapid.SampledFrom([]int{16, 17, 20, 31, 32, 33, 63, 64, 65, 100, 127, 128, 129, 255, 256}).Draw(t, "bits"), hi)
			default:
				return rapid.IntRange(lo, hi).Draw(t, "bits")
			}
		}
		check := func(what string, p *big.Int, bits int, form string) {
			if !isPrime(p) {
				t.Fatalf("%s returned the composite %s", what, p)
			}
			if p.BitLen() != bits {
				t.Fatalf("%s returned %s of %d bits, requested %d", what, p, p.BitLen(), bits)
			}
			switch form {
			case "blum":
				if p.Bit(0) != 1 || p.Bit(1) != 1 {
					t.Fatalf("%s returned %s which is not 3 mod 4", what, p)
				}
			case "safe":
				if !isPrime(new(big.Int).Rsh(p, 1)) {
					t.Fatalf("%s returned %s but (p-1)/2 is composite", what, p)
				}
			}
		}
		cls := ""
		switch kind {
		case "prime":
			bits := bitsGen(8, maxBits)
			if bits < 8 {
				bits = 8
			}
			p, err := nt.GeneratePrime(num.NPlus(), uint(bits), prng)
			wantErr(t, fmt.Sprintf("GeneratePrime(%d)", bits), err, false)
			check(fmt.Sprintf("GeneratePrime(%d)", bits), p.Big(), bits, "")
			cls = sizeClass(bits)
		case "blum":
			bits := max(16, bitsGen(16, maxBits))
			p, err := nt.GenerateBlumPrime(num.NPlus(), uint(bits), prng)
			wantErr(t, fmt.Sprintf("GenerateBlumPrime(%d)", bits), err, false)
			check(fmt.Sprintf("GenerateBlumPrime(%d)", bits), p.Big(), bits, "blum")
			cls = fmt.Sprintf("%s,bits%%8=%d", sizeClass(bits), bits%8)
		case "safe":
			bits := max(16, bitsGen(16, min(maxBits, 160)))
			if bits > 160 && !vlib.Thorough() {
				bits = 160
			}
			p, err := nt.GenerateSafePrime(num.NPlus(), uint(bits), prng)
			wantErr(t, fmt.Sprintf("GenerateSafePrime(%d)", bits), err, false)
			check(fmt.Sprintf("GenerateSafePrime(%d)", bits), p.Big(), bits, "safe")
			cls = sizeClass(bits)
		case "pair", "blumpair", "safepair":
			hi := maxBits
			if kind == "safepair" {
				hi = min(hi, 128)
			}
			half := max(16, bitsGen(16, hi))
			keyLen := uint(2 * half)
			var p, q *num.NatPlus
			var err error
			form := ""
			switch kind {
			case "pair":
				p, q, err = nt.GeneratePrimePair(num.NPlus(), keyLen, prng)
			case "blumpair":
				p, q, err = nt.GenerateBlumPrimePair(num.NPlus(), keyLen, prng)
				form = "blum"
			default:
				p, q, err = nt.GenerateSafePrimePair(num.NPlus(), keyLen, prng)
				form = "safe"
			}
			what := fmt.Sprintf("Generate[%s](keyLen %d)", kind, keyLen)
			wantErr(t, what, err, false)
			check(what+" p", p.Big(), half, form)
			check(what+" q", q.Big(), half, form)
			if eq(p.Big(), q.Big()) {
				t.Fatalf("%s returned p = q = %s", what, p.Big())
			}
			if l := new(big.Int).Mul(p.Big(), q.Big()).BitLen(); l != int(keyLen) {
				t.Fatalf("%s: product has %d bits", what, l)
			}
			cls = fmt.Sprintf("%s,half%%8=%d", sizeClass(half), half%8)
		case "random":
			bits := bitsGen(1, 4096)
			if bits < 1 {
				bits = 1
			}
			r, err := nt.Random(num.NPlus(), uint(bits), prng)
			wantErr(t, fmt.Sprintf("nt.Random(%d)", bits), err, false)
			if r.Big().BitLen() != bits { // documented: exactly bitlen bits
				t.Fatalf("nt.Random(%d) returned %d bits", bits, r.Big().BitLen())
			}
			_, err = nt.Random(num.NPlus(), 0, prng)
			wantErr(t, "nt.Random(0)", err, true)
			cls = sizeClass(bits)
		case "mrchecks":
			// documented: table lookup of the largest tabulated length <= bits (FIPS 186-5 C.2 values
			// as generated in millerrabin.gen.go), a floor below the smallest entry
			table := []struct{ bits, it int }{{64, 34}, {128, 24}, {256, 10}, {512, 5}, {1024, 3}, {2048, 2}, {4096, 1}}
			bits := rapid.IntRange(1, 9000).Draw(t, "bits")
			got := nt.MillerRabinChecks(uint(bits))
			if bits >= 64 {
				want := 0
				for _, e := range table {
					if bits >= e.bits {
						want = e.it
					}
				}
				if got != want {
					t.Fatalf("MillerRabinChecks(%d) = %d, table says %d", bits, got, want)
				}
			} else if got < 34 {
				t.Fatalf("MillerRabinChecks(%d) = %d is below the smallest tabulated entry's count", bits, got)
			}
			cls = sizeClass(bits)
		case "reject":
			b := rapid.IntRange(0, 15).Draw(t, "bits")
			_, err := nt.GenerateBlumPrime(num.NPlus(), uint(b), prng)
			wantErr(t, fmt.Sprintf("GenerateBlumPrime(%d)", b), err, true)
			_, err = nt.GenerateSafePrime(num.NPlus(), uint(b), prng)
			wantErr(t, fmt.Sprintf("GenerateSafePrime(%d)", b), err, true)
			_, _, err = nt.GenerateBlumPrimePair(num.NPlus(), uint(2*b), prng)
			wantErr(t, fmt.Sprintf("GenerateBlumPrimePair(%d)", 2*b), err, true)
			_, _, err = nt.GeneratePrimePair(num.NPlus(), uint(2*max(b, 8)+1), prng)
			wantErr(t, "GeneratePrimePair(odd keyLen)", err, true)
			cls = "too-small"
		}
		vlib.Case(test, vlib.Desc("primes", kind, cls), kind != "reject" && kind != "mrchecks", "kind="+kind, "size="+cls)
	})
}

// TestCardinal: cardinal.Known arithmetic against math/big (sizes, sums, products, saturating
// difference is recorded only, comparisons, conversions).
func TestCardinal(t *testing.T) {
	const test = "Cardinal"
	vlib.Check(t, 2000, func(t *rapid.T) {
		a, _ := genMag(t, "a", 2100)
		b, _ := genMag(t, "b", 2100)
		ca, cb := cardinal.NewFromBig(a), cardinal.NewFromBig(b)
		what := fmt.Sprintf("cardinal a=%s b=%s", sh(a), sh(b))
		wantBig(t, what+" Big", ca.Big(), a)
		wantBig(t, what+" Add", ca.Add(cb).Big(), new(big.Int).Add(a, b))
		wantBig(t, what+" Mul", ca.Mul(cb).Big(), new(big.Int).Mul(a, b))
		if a.Cmp(b) >= 0 {
			wantBig(t, what+" Sub", cardinal.Known(ca.Bytes()).Sub(cb).Big(), new(big.Int).Sub(a, b))
		}
		if ca.Equal(cb) != eq(a, b) || ca.IsLessThanOrEqual(cb) != (a.Cmp(b) <= 0) || ca.IsZero() != (a.Sign() == 0) ||
			!ca.IsFinite() || ca.IsUnknown() || ca.Uint64() != mod2k(a, 64).Uint64() || !eq(new(big.Int).SetBytes(ca.Bytes()), a) {
			t.Fatalf("%s: a comparison or conversion is wrong", what)
		}
		// BitLen is an announced (byte-rounded) length: bounds only
		if bl := ca.BitLen(); bl < a.BitLen() || bl > 8*((a.BitLen()+7)/8) {
			t.Fatalf("%s: BitLen()=%d outside [%d, %d]", what, bl, a.BitLen(), 8*((a.BitLen()+7)/8))
		}
		u := rapid.Uint64().Draw(t, "u")
		wantBig(t, "cardinal.New", cardinal.New(u).Big(), new(big.Int).SetUint64(u))
		if !cardinal.Zero().IsZero() || cardinal.Infinite().IsFinite() || !cardinal.Unknown().IsUnknown() || !ca.IsLessThanOrEqual(cardinal.Infinite()) {
			t.Fatalf("cardinal constants wrong")
		}
		if cardinal.NewFromBig(new(big.Int).Neg(new(big.Int).Add(a, b1))).IsUnknown() != true {
			t.Fatalf("NewFromBig(negative) is documented to be Unknown")
		}
		vlib.Case(test, vlib.Desc("cardinal", sizeClass(a.BitLen()), sizeClass(b.BitLen()), a.Cmp(b), fmt.Sprint("bitlen%8=", a.BitLen()%8)), a.Sign() != 0,
			"size="+sizeClass(a.BitLen()), fmt.Sprint("bitlen%8=", a.BitLen()%8))
	})
}
