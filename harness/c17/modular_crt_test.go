package c17

import (
	"fmt"
	"math/big"
	"testing"

	"pgregory.net/rapid"

	"github.com/bronlabs/bron-crypto/pkg/base/ct"
	"github.com/bronlabs/bron-crypto/pkg/base/nt/crt"
	"github.com/bronlabs/bron-crypto/pkg/base/nt/modular"
	"github.com/bronlabs/bron-crypto/pkg/base/nt/numct"
	"verif/harness/vlib"
)

// genPrimePair draws two distinct odd primes: both small/drawn (math/big next-prime) or both
// openssl fixtures of one size.
func genPrimePair(t *rapid.T, fixtureBits []int, maxSmall int) (p, q *big.Int, cls string) {
	if len(fixtureBits) > 0 && rapid.IntRange(0, 9).Draw(t, "usefixture") < 4 {
		bits := rapid.SampledFrom(fixtureBits).Draw(t, "fbits")
		kind := rapid.SampledFrom([]string{"ord", "blum", "safe"}).Draw(t, "fkind")
		list := fixturePrimes(bits, kind)
		if len(list) < 2 {
			t.Fatalf("need two fixture primes %d/%s", bits, kind)
		}
		i := rapid.IntRange(0, len(list)-1).Draw(t, "fi")
		j := rapid.IntRange(0, len(list)-2).Draw(t, "fj")
		if j >= i {
			j++
		}
		return list[i], list[j], fmt.Sprintf("fixture%d/%s", bits, kind)
	}
	kinds := []string{"ord", "ord", "blum", "safe"}
	p, c1 := genOddPrime(t, "p", maxSmall, nil, kinds)
	q, _ = genOddPrime(t, "q", maxSmall, nil, kinds)
	for eq(p, q) {
		q = nextPrime(new(big.Int).Add(q, b2))
	}
	return p, q, "small:" + c1
}

type arithUnderTest struct {
	name string
	a    modular.Arithmetic
	m    *big.Int
}

// TestModularArithmetic: CRT-accelerated arithmetic modulo pq and p^2q^2 (and the plain
// SimpleModulus) against math/big.
func TestModularArithmetic(t *testing.T) {
	const test = "ModularArithmetic"
	ops := []string{"ModMul", "ModExp", "ModExpI", "ModInv", "ModDiv", "MultiBaseExp", "ExpToN", "FermatQuotient", "Structure"}
	vlib.Check(t, 1600, func(t *rapid.T) {
		fb := []int{512}
		if vlib.Thorough() {
			fb = []int{512, 768, 1024, 1536}
		} else if rapid.IntRange(0, 15).Draw(t, "bigfixture") == 0 {
			fb = []int{768, 1024}
		}
		p, q, pc := genPrimePair(t, fb, 200)
		n := new(big.Int).Mul(p, q)
		n2 := new(big.Int).Mul(n, n)
		opf, ok := modular.NewOddPrimeFactors(exactNat(p), exactNat(q))
		if !ctb(ok) {
			t.Fatalf("NewOddPrimeFactors(%s, %s) refused", sh(p), sh(q))
		}
		osf, ok := modular.NewOddPrimeSquareFactors(exactNat(p), exactNat(q))
		if !ctb(ok) {
			t.Fatalf("NewOddPrimeSquareFactors(%s, %s) refused", sh(p), sh(q))
		}
		which := rapid.SampledFrom([]string{"pq", "p2q2", "p2q2", "simple"}).Draw(t, "arith")
		var au arithUnderTest
		switch which {
		case "pq":
			au = arithUnderTest{"OddPrimeFactors", opf, n}
		case "p2q2":
			au = arithUnderTest{"OddPrimeSquareFactors", osf, n2}
		default:
			mb := n
			if rapid.Bool().Draw(t, "square") {
				mb = n2
			}
			s, ok := modular.NewSimple(mustModulus(t, mb))
			if !ctb(ok) {
				t.Fatalf("NewSimple refused")
			}
			au = arithUnderTest{"SimpleModulus", s, mb}
		}
		if !eq(au.a.Modulus().Big(), au.m) {
			t.Fatalf("%s(%s,%s).Modulus() = %s", au.name, sh(p), sh(q), sh(au.a.Modulus().Big()))
		}
		op := rapid.SampledFrom(ops).Draw(t, "op")
		// operands: reduced / unreduced; multiples of p or q (non-units) are a named class
		genOp := func(label string) (natOp, string) {
			switch rapid.IntRange(0, 9).Draw(t, label+".cls") {
			case 0:
				k := genBelow(t, label+".k", q)
				v := new(big.Int).Mul(p, k)
				return mkNatOp(v, v.BitLen(), "cap=len"), "multiple-of-p"
			case 1:
				k := genBelow(t, label+".k", p)
				v := new(big.Int).Mul(q, k)
				return mkNatOp(v, v.BitLen(), "cap=len"), "multiple-of-q"
			default:
				return genOperandFor(t, label, au.m, au.m.BitLen()+70)
			}
		}
		x, xc := genOp("x")
		y, _ := genOp("y")
		red := func(v *big.Int) *big.Int { return new(big.Int).Mod(v, au.m) }
		aliased := rapid.IntRange(0, 3).Draw(t, "alias") == 0
		what := fmt.Sprintf("modular.%s(p=%s, q=%s).%s(x=%s, y=%s) out=x:%v", au.name, sh(p), sh(q), op, x, y, aliased)
		xn, yn := x.nat(), y.nat()
		out := new(numct.Nat)
		if aliased {
			out = xn
		}
		unit := func(v *big.Int) bool { return eq(new(big.Int).GCD(nil, nil, red(v), au.m), b1) }
		extra := ""
		nt := true
		switch op {
		case "ModMul":
			au.a.ModMul(out, xn, yn)
			wantNat(t, what, out, red(new(big.Int).Mul(x.v, y.v)), -1)
		case "ModExp":
			e := genNatOp(t, "e", min(au.m.BitLen()+70, 2200), true)
			if rapid.IntRange(0, 5).Draw(t, "ephi") == 0 { // exponents around the group order
				phi := new(big.Int).Mul(new(big.Int).Sub(p, b1), new(big.Int).Sub(q, b1))
				if au.m.Cmp(n2) == 0 {
					phi.Mul(phi, n)
				}
				phi.Add(phi, bi(int64(rapid.IntRange(-1, 1).Draw(t, "ephid"))))
				e = mkNatOp(phi, phi.BitLen(), "cap=len")
				extra = "e~phi"
			}
			au.a.ModExp(out, xn, e.nat())
			wantNat(t, what+" e="+e.String(), out, new(big.Int).Exp(x.v, e.v, au.m), -1)
		case "ModExpI":
			e := genNatOp(t, "e", min(au.m.BitLen()+70, 1200), true)
			neg := rapid.Bool().Draw(t, "eneg") && e.v.Sign() != 0
			if neg && !unit(x.v) {
				extra = "negative-exponent-of-nonunit(not executed)"
				nt = false
				break
			}
			ev := new(big.Int).Set(e.v)
			want := new(big.Int).Exp(x.v, e.v, au.m)
			if neg {
				ev.Neg(ev)
				want.ModInverse(want, au.m)
			}
			au.a.ModExpI(out, xn, numct.NewIntFromBig(ev, e.ann))
			wantNat(t, fmt.Sprintf("%s e=%s", what, ev), out, want, -1)
			extra = fmt.Sprintf("eneg=%v", neg)
		case "ModInv":
			okk := au.a.ModInv(out, xn)
			if au.name == "SimpleModulus" && aliased {
				vlib.Excluded(fDivVarAlias) // odd modulus, out = x: verdict from the overwritten operand
			} else if ctb(okk) != unit(x.v) {
				t.Fatalf("%s: ok=%v but unit=%v", what, ctb(okk), unit(x.v))
			}
			if unit(x.v) {
				wantNat(t, what, out, new(big.Int).ModInverse(x.v, au.m), -1)
			}
			extra = fmt.Sprintf("unit=%v", unit(x.v))
		case "ModDiv":
			if aliased && au.name != "SimpleModulus" {
				// the CRT variants store the inverse of y in out before reading x: with out = x the
				// quotient is y^-2 (finding: receiver written before operands are read); not executed
				vlib.Excluded(fDivVarAlias)
				extra = "out=x(excluded)"
				nt = false
				break
			}
			okk := au.a.ModDiv(out, xn, yn)
			if ctb(okk) != unit(y.v) && !(au.name == "SimpleModulus" && ctb(okk)) {
				t.Fatalf("%s: ok=%v but divisor unit=%v", what, ctb(okk), unit(y.v))
			}
			if unit(y.v) {
				wantNat(t, what, out, red(new(big.Int).Mul(x.v, new(big.Int).ModInverse(y.v, au.m))), -1)
			}
			extra = fmt.Sprintf("unit=%v", unit(y.v))
		case "MultiBaseExp":
			k := rapid.IntRange(1, 3).Draw(t, "k")
			if rapid.IntRange(1, 16).Draw(t, "manyBases") == 16 {
				// MultiBaseExp starts one goroutine per base and has no limit on their number
				k = rapid.SampledFrom([]int{4, 5, 8, 9, 17}).Draw(t, "kBig")
			}
			e := genNatOp(t, "e", min(au.m.BitLen()+10, 700), true)
			bases, vals, outs := make([]*numct.Nat, k), make([]*big.Int, k), make([]*numct.Nat, k)
			for i := range bases {
				b, _ := genOp(fmt.Sprint("b", i))
				bases[i], vals[i], outs[i] = b.nat(), b.v, new(numct.Nat)
			}
			au.a.MultiBaseExp(outs, bases, e.nat())
			for i := range bases {
				wantNat(t, fmt.Sprintf("%s base[%d]=%s e=%s", what, i, sh(vals[i]), e), outs[i], new(big.Int).Exp(vals[i], e.v, au.m), -1)
			}
		case "ExpToN":
			osf.ExpToN(out, xn)
			wantNat(t, fmt.Sprintf("OddPrimeSquareFactors(%s,%s).ExpToN(%s)", sh(p), sh(q), x), out, new(big.Int).Exp(x.v, n, n2), -1)
		case "FermatQuotient":
			// documented: L_p(x) = ((x^(p-1) mod p^2) - 1) / p ; meaningful for x prime to p and q
			if new(big.Int).Mod(x.v, p).Sign() == 0 || new(big.Int).Mod(x.v, q).Sign() == 0 {
				extra = "not-coprime(not asserted)"
				nt = false
				break
			}
			var lp, lq numct.Nat
			osf.FermatQuotient(&lp, &lq, xn)
			fq := func(pr *big.Int) *big.Int {
				p2 := new(big.Int).Mul(pr, pr)
				v := new(big.Int).Exp(x.v, new(big.Int).Sub(pr, b1), p2)
				v.Sub(v, b1)
				return v.Quo(v, pr)
			}
			wantNat(t, what+" L_p", &lp, fq(p), -1)
			wantNat(t, what+" L_q", &lq, fq(q), -1)
		case "Structure":
			phi := new(big.Int).Mul(new(big.Int).Sub(p, b1), new(big.Int).Sub(q, b1))
			if !eq(opf.MultiplicativeOrder().Big(), phi) || !eq(osf.MultiplicativeOrder().Big(), new(big.Int).Mul(phi, n)) {
				t.Fatalf("MultiplicativeOrder wrong for p=%s q=%s", sh(p), sh(q))
			}
			lifted, okk := opf.Lift()
			if !ctb(okk) || !eq(lifted.Modulus().Big(), n2) {
				t.Fatalf("OddPrimeFactors.Lift wrong")
			}
			// invalid factor pairs are refused
			if _, okk := modular.NewOddPrimeFactors(exactNat(p), exactNat(p)); ctb(okk) {
				t.Fatalf("NewOddPrimeFactors(p, p) accepted")
			}
			comp := new(big.Int).Mul(p, bi(3))
			if _, okk := modular.NewOddPrimeFactors(exactNat(comp), exactNat(q)); ctb(okk) && !comp.ProbablyPrime(20) {
				t.Fatalf("NewOddPrimeFactors(composite %s, q) accepted", sh(comp))
			}
			if _, okk := modular.NewOddPrimeFactors(exactNat(b2), exactNat(q)); ctb(okk) {
				t.Fatalf("NewOddPrimeFactors(2, q) accepted")
			}
			if _, okk := modular.NewOddPrimeSquareFactors(exactNat(p), exactNat(p)); ctb(okk) {
				t.Fatalf("NewOddPrimeSquareFactors(p, p) accepted")
			}
		}
		if !aliased && !eq(xn.Big(), x.v) || !eq(yn.Big(), y.v) {
			t.Fatalf("%s: an operand changed", what)
		}
		sc := sizeClass(p.BitLen())
		vlib.Case(test, vlib.Desc("modular", au.name, op, pc, sc, xc, aliased, extra), nt,
			"arith="+au.name, "op="+op, "primes="+pc, "primesize="+sc, "x:"+xc)
	})
}

// genBigDecomposeArg: once in 12 calls a non-zero value of 4095..4200 or ~5000 bits. The Decompose
// dispatchers take any modulus as the value to reduce and switch from the serial to the
// goroutine variant at m.BitLen() > 4096 (crt.go, crt_multi.go); a+1 < N never reaches that.
func genBigDecomposeArg(t *rapid.T) *big.Int {
	if rapid.IntRange(1, 12).Draw(t, "bigDecompose") != 12 {
		return nil
	}
	bits := rapid.SampledFrom([]int{4095, 4096, 4096, 4097, 4097, 4100, 4160, 5000}).Draw(t, "decBits")
	v, _ := genMagOfBits(t, "dec", bits)
	return v
}

// genCoprimes draws k pairwise coprime moduli > 1 (not necessarily prime).
func genCoprimes(t *rapid.T, k, maxBits int) []*big.Int {
	out := make([]*big.Int, 0, k)
	prod := big.NewInt(1)
	for i := 0; i < k; i++ {
		var c *big.Int
		switch rapid.IntRange(0, 3).Draw(t, fmt.Sprint("f", i, ".cls")) {
		case 0:
			c, _ = genOddPrime(t, fmt.Sprint("f", i), maxBits, nil, nil)
		default:
			c, _ = genMag(t, fmt.Sprint("f", i), maxBits)
		}
		if c.Cmp(b2) < 0 {
			c = big.NewInt(2)
		}
		// strip common factors with what has been chosen so far
		for {
			g := new(big.Int).GCD(nil, nil, c, prod)
			if eq(g, b1) {
				break
			}
			c.Quo(c, g)
		}
		for c.Cmp(b2) < 0 || !eq(new(big.Int).GCD(nil, nil, c, prod), b1) {
			c = nextPrime(new(big.Int).Add(new(big.Int).Lsh(prod, 0), bi(int64(3+2*i))))
			if c.BitLen() > maxBits+8 {
				c = nextPrime(bi(int64(1000 + 100*i)))
				for !eq(new(big.Int).GCD(nil, nil, c, prod), b1) {
					c = nextPrime(new(big.Int).Add(c, b2))
				}
			}
		}
		out = append(out, c)
		prod.Mul(prod, c)
	}
	return out
}

// TestCRTRecombine: Recombine(a mod p, a mod q) = a mod pq for Params / ParamsExtended, and
// Recombine(a mod p_i ...) = a mod prod p_i for ParamsMulti (serial, parallel and dispatching).
func TestCRTRecombine(t *testing.T) {
	const test = "CRTRecombine"
	vlib.Check(t, 3000, func(t *rapid.T) {
		variant := rapid.SampledFrom([]string{"Params", "ParamsExtended", "OneShot", "Multi", "Multi", "NotCoprime"}).Draw(t, "variant")
		maxB := 600
		k := 2
		if variant == "Multi" {
			k = rapid.IntRange(2, 7).Draw(t, "k")
			maxB = 260
			if rapid.IntRange(1, 16).Draw(t, "manyFactors") == 16 {
				// ParamsMulti has no limit on the number of factors (serial Garner up to 4 factors,
				// goroutines above; Decompose goes parallel above 3): more, smaller factors
				k = rapid.SampledFrom([]int{8, 9, 12, 16, 17}).Draw(t, "kBig")
				maxB = 96
			}
		}
		fs := genCoprimes(t, k, maxB)
		N := big.NewInt(1)
		for _, f := range fs {
			N.Mul(N, f)
		}
		a := genBelow(t, "a", N)
		res := make([]*numct.Nat, k)
		for i, f := range fs {
			r := new(big.Int).Mod(a, f)
			ann, _ := genAnn(t, fmt.Sprint("r", i), r.BitLen(), false)
			res[i] = numct.NewNatFromBig(r, ann)
		}
		what := fmt.Sprintf("crt %s factors=%v a=%s", variant, fs, sh(a))
		pad := rapid.SampledFrom([]int{0, 0, 1, 64, 100}).Draw(t, "fpad")
		fn := func(i int) *numct.Nat { return numct.NewNatFromBig(fs[i], fs[i].BitLen()+pad) }
		cls := sizeClass(N.BitLen())
		switch variant {
		case "Params":
			prm, ok := crt.Precompute(fn(0), fn(1))
			if !ctb(ok) {
				t.Fatalf("%s: Precompute refused coprime moduli", what)
			}
			wantNat(t, what, prm.Recombine(res[0], res[1]), a, -1)
			ext, ok := prm.Extended()
			if !ctb(ok) || !eq(ext.Modulus().Big(), N) {
				t.Fatalf("%s: Extended() modulus wrong", what)
			}
			mp, mq := ext.Decompose(mustModulus(t, new(big.Int).Add(a, b1)))
			wantNat(t, what+" Decompose p", mp, new(big.Int).Mod(new(big.Int).Add(a, b1), fs[0]), -1)
			wantNat(t, what+" Decompose q", mq, new(big.Int).Mod(new(big.Int).Add(a, b1), fs[1]), -1)
			if d := genBigDecomposeArg(t); d != nil {
				mp, mq := ext.Decompose(mustModulus(t, d))
				wantNat(t, fmt.Sprintf("%s Decompose(%d-bit) p", what, d.BitLen()), mp, new(big.Int).Mod(d, fs[0]), -1)
				wantNat(t, fmt.Sprintf("%s Decompose(%d-bit) q", what, d.BitLen()), mq, new(big.Int).Mod(d, fs[1]), -1)
				cls += "/decompose-big"
			}
		case "ParamsExtended":
			ext, ok := crt.NewParamsExtended(mustModulus(t, fs[0]), mustModulus(t, fs[1]))
			if !ctb(ok) {
				t.Fatalf("%s: NewParamsExtended refused coprime moduli", what)
			}
			wantNat(t, what, ext.Recombine(res[0], res[1]), a, -1)
			ext2, ok := crt.PrecomputePairExtended(fn(0), fn(1))
			if !ctb(ok) {
				t.Fatalf("%s: PrecomputePairExtended refused", what)
			}
			wantNat(t, what+" (PrecomputePairExtended)", ext2.Recombine(res[0], res[1]), a, -1)
		case "OneShot":
			r, ok := crt.Recombine(res[0], res[1], fn(0), fn(1))
			if !ctb(ok) {
				t.Fatalf("%s: Recombine refused coprime moduli", what)
			}
			wantNat(t, what, r, a, -1)
		case "Multi":
			nats := make([]*numct.Nat, k)
			for i := range nats {
				nats[i] = fn(i)
			}
			prm, ok := crt.PrecomputeMulti(nats...)
			if !ctb(ok) {
				t.Fatalf("%s: PrecomputeMulti refused pairwise coprime moduli", what)
			}
			if !eq(prm.Modulus.Big(), N) {
				t.Fatalf("%s: modulus %s", what, sh(prm.Modulus.Big()))
			}
			clone := func() []*numct.Nat {
				c := make([]*numct.Nat, k)
				for i := range c {
					c[i] = res[i].Clone()
				}
				return c
			}
			// NewParamsMulti reuses one Nat for the inverses M_i^-1 mod p_i of all factors; for an even
			// p_i (i >= 1) that Nat is written with SetBig over the previous factor's inverse: the
			// stale-limb face of finding C17-stale-reduced-after-even-modulus-write. The lifts, and so
			// the parallel recombination, are then wrong; Garner's serial path has its own temporaries.
			evenLater := false
			for i := 1; i < k; i++ {
				evenLater = evenLater || fs[i].Bit(0) == 0
			}
			r, ok := prm.RecombineSerial(clone()...)
			if !ctb(ok) {
				t.Fatalf("%s: RecombineSerial not ok", what)
			}
			wantNat(t, what+" RecombineSerial", r, a, -1)
			if evenLater {
				vlib.Excluded(fStaleEven)
				cls += "/even-factor(parallel excluded)"
			}
			if !evenLater || k <= 4 {
				r, ok = prm.Recombine(clone()...)
				if !ctb(ok) {
					t.Fatalf("%s: Recombine not ok", what)
				}
				wantNat(t, what+" Recombine", r, a, -1)
			}
			if !evenLater {
				r, _ = prm.RecombineParallel(clone()...)
				wantNat(t, what+" RecombineParallel", r, a, -1)
			}
			if _, ok := prm.Recombine(clone()[:k-1]...); ctb(ok) {
				t.Fatalf("%s: Recombine with a missing residue reported ok", what)
			}
			for i, d := range prm.Decompose(mustModulus(t, new(big.Int).Add(a, b1))) {
				wantNat(t, fmt.Sprintf("%s Decompose[%d]", what, i), d, new(big.Int).Mod(new(big.Int).Add(a, b1), fs[i]), -1)
			}
			if arg := genBigDecomposeArg(t); arg != nil {
				for i, d := range prm.Decompose(mustModulus(t, arg)) {
					wantNat(t, fmt.Sprintf("%s Decompose(%d-bit)[%d]", what, arg.BitLen(), i), d, new(big.Int).Mod(arg, fs[i]), -1)
				}
				cls += "/decompose-big"
			}
			cls += fmt.Sprint("/k=", k)
		case "NotCoprime":
			g, _ := genOddPrime(t, "g", 64, nil, nil)
			p2, q2 := new(big.Int).Mul(fs[0], g), new(big.Int).Mul(fs[1], g)
			var ok ct.Bool
			_, ok = crt.Precompute(exactNat(p2), exactNat(q2))
			if ctb(ok) {
				t.Fatalf("crt.Precompute(%s, %s) accepted moduli with common factor %s", sh(p2), sh(q2), sh(g))
			}
			_, ok = crt.PrecomputeMulti(exactNat(p2), exactNat(q2))
			if ctb(ok) {
				t.Fatalf("crt.PrecomputeMulti(%s, %s) accepted moduli with common factor %s", sh(p2), sh(q2), sh(g))
			}
		}
		vlib.Case(test, vlib.Desc("crt", variant, cls, pad), a.Sign() != 0, "variant="+variant, "size="+cls)
	})
}
