package c17

import (
	"fmt"
	"math/big"
	"testing"

	"github.com/bronlabs/bron-crypto/pkg/base/nt/cardinal"
	"github.com/bronlabs/bron-crypto/pkg/base/nt/num"
	"github.com/bronlabs/bron-crypto/pkg/base/nt/numct"
)

func TestProbe(t *testing.T) {
	z := num.Z().FromInt64(-3).Mul(num.Z().Zero())
	fmt.Println("(-3)*0: IsNegative", z.IsNegative(), "IsZero", z.IsZero(), "cmp0", z.Compare(num.Z().Zero()), "eq0", z.Equal(num.Z().Zero()), "big", z.Big(), "isPos", z.IsPositive(), "lessEq(0,z)", num.Z().Zero().IsLessThanOrEqual(z))
	n := num.Z().Zero().Neg()
	fmt.Println("neg(0): IsNegative", n.IsNegative(), "cmp0", n.Compare(num.Z().Zero()))
	fmt.Println("card BitLen(5):", cardinal.New(5).BitLen(), cardinal.NewFromBig(big.NewInt(5)).BitLen(), cardinal.New(0).BitLen())
	// divvartime negative cap
	func() {
		defer func() { fmt.Println("recover:", recover()) }()
		var q, r numct.Nat
		num0 := numct.NewNatFromBig(big.NewInt(0), 0)
		den := numct.NewNatFromBig(big.NewInt(31), 5)
		ok := q.DivVarTime(&r, num0, den)
		fmt.Println("DivVarTime 0/31:", ok, q.Big(), q.AnnouncedLen(), r.Big(), r.AnnouncedLen())
		num1 := numct.NewNatFromBig(big.NewInt(3), 2)
		den = numct.NewNatFromBig(big.NewInt(1000), 70)
		ok = q.DivVarTime(&r, num1, den)
		fmt.Println("DivVarTime 3/1000:", ok, q.Big(), q.AnnouncedLen(), r.Big(), r.AnnouncedLen())
	}()
	// rat
	r1, _ := num.Q().New(num.Z().FromInt64(0), num.NPlus().One())
	r2, _ := num.Q().New(num.Z().FromInt64(-5), num.NPlus().One())
	pr := r1.Mul(r2)
	fmt.Println("0 * -5 rat: IsNegative", pr.IsNegative(), "IsZero", pr.IsZero(), "IsPositive", pr.IsPositive())
	// jacobi of -0?
}
