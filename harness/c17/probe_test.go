package c17

import (
	"fmt"
	"math/big"
	"testing"

	"github.com/bronlabs/bron-crypto/pkg/base/nt/num"
	"github.com/bronlabs/bron-crypto/pkg/base/nt/numct"
)

func TestProbe(t *testing.T) {
	out := numct.NewIntFromBig(new(big.Int).Lsh(big.NewInt(1), 64), 65)
	out.Add(numct.NewInt(1), numct.NewInt(2))
	fmt.Println("out(2^64).Add(1,2) =", out.Big())
	out2 := numct.NewIntFromBig(new(big.Int).Lsh(big.NewInt(5), 64), 70)
	out2.Sub(numct.NewInt(10), numct.NewInt(3))
	fmt.Println("out(5*2^64).Sub(10,3) =", out2.Big())
	var fresh numct.Int
	fresh.Add(numct.NewInt(1), numct.NewInt(2))
	fmt.Println("fresh.Add(1,2) =", fresh.Big())
	_ = num.Z()
}
