package c17

import (
	"fmt"
	"math/big"
	"testing"

	"pgregory.net/rapid"

	"github.com/bronlabs/bron-crypto/pkg/base/nt/num"
	"github.com/bronlabs/bron-crypto/pkg/base/nt/numct"
	"verif/harness/vlib"
)

// ---- constructors of the value types of package num -------------------------------------------

func numNat(t *rapid.T, o natOp) *num.Nat {
	n, err := num.N().FromNatCT(o.nat())
	if err != nil {
		t.Fatalf("N().FromNatCT(%s): %v", o, err)
	}
	return n
}

func numNatPlus(t *rapid.T, v *big.Int, ann int) *num.NatPlus {
	n, err := num.NPlus().FromNatCT(numct.NewNatFromBig(v, ann))
	if err != nil {
		t.Fatalf("NPlus().FromNatCT(%s): %v", sh(v), err)
	}
	return n
}

func numInt(t *rapid.T, o intOp) *num.Int {
	n, err := num.Z().FromIntCT(o.int())
	if err != nil {
		t.Fatalf("Z().FromIntCT(%s): %v", o, err)
	}
	return n
}

func wantBig(t *rapid.T, what string, got, want *big.Int) {
	t.Helper()
	if !eq(got, want) {
		t.Fatalf("%s: value %s, want %s", what, got, want)
	}
}

func wantErr(t *rapid.T, what string, err error, want bool) {
	t.Helper()
	if (err != nil) != want {
		t.Fatalf("%s: error = %v, expected error: %v", what, err, want)
	}
}

func TestNumNat(t *testing.T) {
	const test = "NumNat"
	ops := []string{"Add", "Mul", "TrySub", "Lsh", "Rsh", "TryDiv", "TryDivVarTime", "DivRound", "DivRoundVarTime", "EuclideanDiv", "EuclideanDivVarTime",
		"GCD", "Coprime", "IsUnit", "Compare", "Predicates", "Sqrt", "Mod", "IncDec", "Encoding", "From", "TryInv"}
	vlib.Check(t, 7000, func(t *rapid.T) {
		op := rapid.SampledFrom(ops).Draw(t, "op")
		maxB := maxBitsCheap()
		switch op {
		case "TryDiv", "TryDivVarTime", "DivRound", "DivRoundVarTime", "EuclideanDiv", "EuclideanDivVarTime", "Sqrt", "Mul":
			maxB = maxBitsExpensive()
		case "GCD", "Coprime", "IsUnit":
			maxB = 1100
		}
		a := genNatOp(t, "x", maxB, true)
		b := genNatOp(t, "y", maxB, true)
		extra := ""
		if op[0] == 'T' || op[0] == 'D' || op[0] == 'E' {
			switch rapid.IntRange(0, 5).Draw(t, "divclass") {
			case 0:
				b = mkNatOp(new(big.Int), rapid.IntRange(0, 70).Draw(t, "zann"), "cap>len")
				extra = "y=0"
			case 1, 2: // exact multiple
				k, _ := genMag(t, "k", maxB/2)
				d, _ := genMag(t, "d", maxB/2)
				p := new(big.Int).Mul(k, d)
				a, b = mkNatOp(p, p.BitLen(), "cap=len"), mkNatOp(d, d.BitLen(), "cap=len")
				extra = "exact"
			}
		}
		x, y := numNat(t, a), numNat(t, b)
		if rapid.IntRange(0, 7).Draw(t, "same") == 0 {
			b, y = a, x
			extra += " x=y"
		}
		what := fmt.Sprintf("num.Nat.%s(x=%s, y=%s)", op, a, b)
		nt := a.v.Sign() != 0 && b.v.Sign() != 0
		switch op {
		case "Add":
			wantBig(t, what, x.Add(y).Big(), new(big.Int).Add(a.v, b.v))
			wantBig(t, what+" Op", x.Op(y).Big(), new(big.Int).Add(a.v, b.v))
			wantBig(t, what+" Double", x.Double().Big(), new(big.Int).Lsh(a.v, 1))
		case "Mul":
			wantBig(t, what, x.Mul(y).Big(), new(big.Int).Mul(a.v, b.v))
			wantBig(t, what+" Square", x.Square().Big(), new(big.Int).Mul(a.v, a.v))
		case "TrySub":
			r, err := x.TrySub(y)
			wantErr(t, what, err, a.v.Cmp(b.v) < 0)
			if err == nil {
				wantBig(t, what, r.Big(), new(big.Int).Sub(a.v, b.v))
			}
			extra += fmt.Sprintf(" cmp=%d", a.v.Cmp(b.v))
		case "Lsh", "Rsh":
			s := uint(rapid.IntRange(0, a.ann+70).Draw(t, "shift"))
			if op == "Lsh" {
				wantBig(t, fmt.Sprintf("%s shift=%d", what, s), x.Lsh(s).Big(), new(big.Int).Lsh(a.v, s))
			} else {
				wantBig(t, fmt.Sprintf("%s shift=%d", what, s), x.Rsh(s).Big(), new(big.Int).Rsh(a.v, s))
			}
		case "TryDiv", "TryDivVarTime":
			var r *num.Nat
			var err error
			if op == "TryDiv" {
				r, err = x.TryDiv(y)
			} else {
				r, err = x.TryDivVarTime(y)
			}
			exact := b.v.Sign() != 0 && new(big.Int).Mod(a.v, b.v).Sign() == 0
			wantErr(t, what, err, !exact)
			if exact {
				wantBig(t, what, r.Big(), new(big.Int).Quo(a.v, b.v))
			}
			extra += fmt.Sprintf(" exact=%v", exact)
		case "DivRound", "DivRoundVarTime":
			var r *num.Nat
			var err error
			if op == "DivRound" {
				r, err = x.DivRound(y)
			} else {
				r, err = x.DivRoundVarTime(y)
			}
			// documented: "quotient rounded towards zero"; the second doc sentence ("error if the
			// division is not exact") contradicts it and the code: only division by zero is asserted
			if b.v.Sign() == 0 {
				wantErr(t, what, err, true)
			} else if err == nil {
				wantBig(t, what, r.Big(), new(big.Int).Quo(a.v, b.v))
			} else if new(big.Int).Mod(a.v, b.v).Sign() == 0 {
				t.Fatalf("%s: exact division refused: %v", what, err)
			}
		case "EuclideanDiv", "EuclideanDivVarTime":
			if op == "EuclideanDivVarTime" && divVarTimePanics(a.ann, b.v) {
				vlib.Excluded(fDivVarPanic)
				extra += " excluded"
				nt = false
				break
			}
			var q, r *num.Nat
			var err error
			if op == "EuclideanDiv" {
				q, r, err = x.EuclideanDiv(y)
			} else {
				q, r, err = x.EuclideanDivVarTime(y)
			}
			wantErr(t, what, err, b.v.Sign() == 0)
			if err == nil {
				wq, wr := new(big.Int).QuoRem(a.v, b.v, new(big.Int))
				wantBig(t, what+" quotient", q.Big(), wq)
				wantBig(t, what+" remainder", r.Big(), wr)
			}
		case "GCD":
			wantBig(t, what, x.GCD(y).Big(), new(big.Int).GCD(nil, nil, a.v, b.v))
		case "Coprime":
			g := new(big.Int).GCD(nil, nil, a.v, b.v)
			if x.Coprime(y) != eq(g, b1) {
				t.Fatalf("%s: Coprime=%v gcd=%s", what, x.Coprime(y), sh(g))
			}
		case "IsUnit":
			if b.v.Sign() == 0 || b.v.Cmp(b1) == 0 {
				nt = false
				break
			}
			m := numNatPlus(t, b.v, b.ann)
			g := new(big.Int).GCD(nil, nil, a.v, b.v)
			if x.IsUnit(m) != eq(g, b1) {
				t.Fatalf("%s: IsUnit=%v gcd=%s", what, x.IsUnit(m), sh(g))
			}
		case "Compare":
			c := a.v.Cmp(b.v)
			if int(x.Compare(y)) != c || x.Equal(y) != (c == 0) || x.IsLessThanOrEqual(y) != (c <= 0) {
				t.Fatalf("%s: Compare=%d Equal=%v LessOrEqual=%v, want cmp %d", what, x.Compare(y), x.Equal(y), x.IsLessThanOrEqual(y), c)
			}
			extra += fmt.Sprintf(" cmp=%d", c)
		case "Predicates":
			if x.IsZero() != (a.v.Sign() == 0) || x.IsOne() != eq(a.v, b1) || x.IsEven() != (a.v.Bit(0) == 0) || x.IsOdd() != (a.v.Bit(0) == 1) ||
				x.IsPositive() != (a.v.Sign() > 0) || x.IsBottom() != (a.v.Sign() == 0) || x.IsOpIdentity() != (a.v.Sign() == 0) ||
				x.TrueLen() != a.v.BitLen() || x.AnnouncedLen() != a.ann {
				t.Fatalf("%s: a predicate or length is wrong", what)
			}
			if !eq(x.Clone().Big(), a.v) || !eq(x.Lift().Big(), a.v) || !eq(x.Cardinal().Big(), a.v) {
				t.Fatalf("%s: Clone/Lift/Cardinal changed the value", what)
			}
			if a.v.BitLen() <= 600 && x.IsProbablyPrime() != a.v.ProbablyPrime(32) {
				t.Fatalf("%s: IsProbablyPrime=%v", what, x.IsProbablyPrime())
			}
		case "Sqrt":
			if rapid.Bool().Draw(t, "square") {
				r, _ := genMag(t, "root", maxB/2)
				sq := new(big.Int).Mul(r, r)
				a = mkNatOp(sq, sq.BitLen()+rapid.IntRange(0, 70).Draw(t, "pad"), "cap>len")
				x = numNat(t, a)
				what = fmt.Sprintf("num.Nat.Sqrt(%s)", a)
			}
			r, err := x.Sqrt()
			root := new(big.Int).Sqrt(a.v)
			isSq := eq(new(big.Int).Mul(root, root), a.v)
			wantErr(t, what, err, !isSq)
			if isSq {
				wantBig(t, what, r.Big(), root)
			}
			extra += fmt.Sprintf(" square=%v", isSq)
		case "Mod":
			if b.v.Sign() == 0 {
				nt = false
				break
			}
			m := numNatPlus(t, b.v, b.ann)
			u := x.Mod(m)
			wantBig(t, what, u.Big(), new(big.Int).Mod(a.v, b.v))
			wantBig(t, what+" modulus", u.Modulus().Big(), b.v)
		case "IncDec":
			wantBig(t, what+" Increment", x.Increment().Big(), new(big.Int).Add(a.v, b1))
			d, err := x.Decrement()
			wantErr(t, what+" Decrement", err, a.v.Sign() == 0)
			if err == nil {
				wantBig(t, what+" Decrement", d.Big(), new(big.Int).Sub(a.v, b1))
			}
		case "Encoding":
			bs := x.Bytes()
			back, err := num.N().FromBytes(bs)
			if err != nil || !eq(back.Big(), a.v) || !eq(new(big.Int).SetBytes(x.BytesBE()), a.v) {
				t.Fatalf("%s: Bytes round trip failed", what)
			}
			if x.Uint64() != mod2k(a.v, 64).Uint64() { // documented: wraps around
				t.Fatalf("%s: Uint64()=%d", what, x.Uint64())
			}
			i := uint(rapid.IntRange(0, a.ann+70).Draw(t, "i"))
			if uint(x.Bit(i)) != a.v.Bit(int(i)) {
				t.Fatalf("%s: Bit(%d)=%d", what, i, x.Bit(i))
			}
			if wantB := byte(mod2k(new(big.Int).Rsh(a.v, 8*(i/8)), 8).Uint64()); x.Byte(i/8) != wantB {
				t.Fatalf("%s: Byte(%d)=%#x want %#x", what, i/8, x.Byte(i/8), wantB)
			}
		case "From":
			f, err := num.N().FromBig(a.v)
			if err != nil || !eq(f.Big(), a.v) {
				t.Fatalf("N().FromBig(%s) = %v, %v", sh(a.v), f, err)
			}
			if a.v.Sign() != 0 {
				_, err = num.N().FromBig(new(big.Int).Neg(a.v))
				wantErr(t, "N().FromBig(negative)", err, true)
				_, err = num.N().FromInt(numInt(t, intOp{orig: new(big.Int).Neg(a.v), v: new(big.Int).Neg(a.v), ann: a.v.BitLen()}))
				wantErr(t, "N().FromInt(negative)", err, true)
			}
			fi, err := num.N().FromInt(numInt(t, intOp{orig: a.v, v: a.v, ann: a.ann}))
			if err != nil || !eq(fi.Big(), a.v) {
				t.Fatalf("N().FromInt(%s) = %v, %v", sh(a.v), fi, err)
			}
			u := rapid.Uint64().Draw(t, "u")
			wantBig(t, "N().FromUint64", num.N().FromUint64(u).Big(), new(big.Int).SetUint64(u))
			fc, err := num.N().FromCardinal(x.Cardinal())
			if err != nil || !eq(fc.Big(), a.v) {
				t.Fatalf("N().FromCardinal round trip of %s failed: %v", sh(a.v), err)
			}
			wantBig(t, "N().Zero", num.N().Zero().Big(), b0)
			wantBig(t, "N().One", num.N().One().Big(), b1)
		case "TryInv":
			r, err := x.TryInv()
			wantErr(t, what, err, !eq(a.v, b1))
			if err == nil {
				wantBig(t, what, r.Big(), b1)
			}
			_, err = x.TryNeg()
			wantErr(t, what+" TryNeg", err, true)
		}
		if !eq(x.Big(), a.v) || !eq(y.Big(), b.v) {
			t.Fatalf("%s: an operand changed", what)
		}
		sc := sizeClass(max(a.v.BitLen(), b.v.BitLen()))
		vlib.Case(test, vlib.Desc("num.Nat", op, sc, a.capC, b.capC, extra), nt, "op="+op, "size="+sc, "cap="+a.capC)
	})
}

func TestNumNatPlus(t *testing.T) {
	const test = "NumNatPlus"
	ops := []string{"Add", "Mul", "TrySub", "Lsh", "TryRsh", "TryDiv", "Compare", "IsUnit", "Mod", "Predicates", "From", "Decrement", "TryInv"}
	vlib.Check(t, 3000, func(t *rapid.T) {
		op := rapid.SampledFrom(ops).Draw(t, "op")
		maxB := maxBitsExpensive()
		if op == "IsUnit" {
			maxB = 1100
		}
		mk := func(label string) natOp {
			o := genNatOp(t, label, maxB, false)
			if o.v.Sign() == 0 {
				o = mkNatOp(big.NewInt(1), 1+rapid.IntRange(0, 70).Draw(t, label+".pad"), "cap>len")
			}
			return o
		}
		a, b := mk("x"), mk("y")
		extra := ""
		if op == "TryDiv" && rapid.Bool().Draw(t, "exact") {
			p := new(big.Int).Mul(a.v, b.v)
			a = mkNatOp(p, p.BitLen(), "cap=len")
			extra = "exact"
		}
		x, y := numNatPlus(t, a.v, a.ann), numNatPlus(t, b.v, b.ann)
		what := fmt.Sprintf("num.NatPlus.%s(x=%s, y=%s)", op, a, b)
		switch op {
		case "Add":
			wantBig(t, what, x.Add(y).Big(), new(big.Int).Add(a.v, b.v))
			wantBig(t, what+" Double", x.Double().Big(), new(big.Int).Lsh(a.v, 1))
			wantBig(t, what+" Increment", x.Increment().Big(), new(big.Int).Add(a.v, b1))
		case "Mul":
			wantBig(t, what, x.Mul(y).Big(), new(big.Int).Mul(a.v, b.v))
			wantBig(t, what+" Square", x.Square().Big(), new(big.Int).Mul(a.v, a.v))
		case "TrySub":
			r, err := x.TrySub(y)
			wantErr(t, what, err, a.v.Cmp(b.v) <= 0)
			if err == nil {
				wantBig(t, what, r.Big(), new(big.Int).Sub(a.v, b.v))
			}
		case "Lsh":
			s := uint(rapid.IntRange(0, 200).Draw(t, "shift"))
			wantBig(t, what, x.Lsh(s).Big(), new(big.Int).Lsh(a.v, s))
		case "TryRsh":
			s := uint(rapid.IntRange(0, a.ann+5).Draw(t, "shift"))
			r, err := x.TryRsh(s)
			w := new(big.Int).Rsh(a.v, s)
			wantErr(t, fmt.Sprintf("%s shift=%d", what, s), err, w.Sign() == 0)
			if err == nil {
				wantBig(t, what, r.Big(), w)
			}
		case "TryDiv":
			r, err := x.TryDiv(y)
			exact := new(big.Int).Mod(a.v, b.v).Sign() == 0
			wantErr(t, what, err, !exact)
			if exact {
				wantBig(t, what, r.Big(), new(big.Int).Quo(a.v, b.v))
			}
		case "Compare":
			c := a.v.Cmp(b.v)
			if int(x.Compare(y)) != c || x.Equal(y) != (c == 0) || x.IsLessThanOrEqual(y) != (c <= 0) {
				t.Fatalf("%s: comparison wrong, want cmp %d", what, c)
			}
		case "IsUnit":
			g := new(big.Int).GCD(nil, nil, a.v, b.v)
			if x.IsUnit(y) != eq(g, b1) {
				t.Fatalf("%s: IsUnit=%v gcd=%s", what, x.IsUnit(y), sh(g))
			}
		case "Mod":
			wantBig(t, what, x.Mod(y).Big(), new(big.Int).Mod(a.v, b.v))
			m := x.ModulusCT()
			if !eq(m.Big(), a.v) {
				t.Fatalf("%s: ModulusCT() = %s", what, sh(m.Big()))
			}
		case "Predicates":
			if x.IsOne() != eq(a.v, b1) || x.IsEven() != (a.v.Bit(0) == 0) || x.IsOdd() != (a.v.Bit(0) == 1) || x.TrueLen() != a.v.BitLen() ||
				!eq(x.Clone().Big(), a.v) || !eq(x.Nat().Big(), a.v) || !eq(x.Lift().Big(), a.v) || x.Uint64() != mod2k(a.v, 64).Uint64() ||
				!eq(new(big.Int).SetBytes(x.Bytes()), a.v) {
				t.Fatalf("%s: a predicate or conversion is wrong", what)
			}
		case "From":
			f, err := num.NPlus().FromBig(a.v)
			if err != nil || !eq(f.Big(), a.v) {
				t.Fatalf("NPlus().FromBig(%s): %v", sh(a.v), err)
			}
			_, err = num.NPlus().FromBig(new(big.Int).Neg(a.v))
			wantErr(t, "NPlus().FromBig(negative)", err, true)
			_, err = num.NPlus().FromBig(new(big.Int))
			wantErr(t, "NPlus().FromBig(0)", err, true)
			_, err = num.NPlus().FromNatCT(numct.NewNatFromBig(b0, rapid.IntRange(0, 70).Draw(t, "zann")))
			wantErr(t, "NPlus().FromNatCT(0)", err, true)
			_, err = num.NPlus().FromBytes(make([]byte, rapid.IntRange(0, 9).Draw(t, "zlen")))
			wantErr(t, "NPlus().FromBytes(zero)", err, true)
			_, err = num.NPlus().FromUint64(0)
			wantErr(t, "NPlus().FromUint64(0)", err, true)
		case "Decrement":
			r, err := x.Decrement()
			wantErr(t, what, err, eq(a.v, b1))
			if err == nil {
				wantBig(t, what, r.Big(), new(big.Int).Sub(a.v, b1))
			}
		case "TryInv":
			_, err := x.TryInv()
			wantErr(t, what, err, !eq(a.v, b1))
		}
		if !eq(x.Big(), a.v) || !eq(y.Big(), b.v) {
			t.Fatalf("%s: an operand changed", what)
		}
		sc := sizeClass(max(a.v.BitLen(), b.v.BitLen()))
		vlib.Case(test, vlib.Desc("num.NatPlus", op, sc, a.capC, b.capC, extra), !eq(a.v, b1), "op="+op, "size="+sc)
	})
}

func TestNumInt(t *testing.T) {
	const test = "NumInt"
	ops := []string{"Add", "Sub", "Mul", "Neg", "Lsh", "Rsh", "TryDiv", "TryDivVarTime", "DivRound", "DivRoundVarTime", "EuclideanDiv", "EuclideanDivVarTime",
		"Compare", "Predicates", "Coprime", "Mod", "IsInRange", "IsUnit", "Encoding", "From", "TryInv", "IncDec"}
	vlib.Check(t, 7000, func(t *rapid.T) {
		op := rapid.SampledFrom(ops).Draw(t, "op")
		maxB := maxBitsCheap()
		switch op {
		case "TryDiv", "TryDivVarTime", "DivRound", "DivRoundVarTime", "EuclideanDiv", "EuclideanDivVarTime", "Mul":
			maxB = maxBitsExpensive()
		case "Coprime", "IsUnit":
			maxB = 1100
		}
		a := genIntOp(t, "x", maxB, true)
		b := genIntOp(t, "y", maxB, true)
		extra := ""
		if op[0] == 'T' || op[0] == 'D' || op[0] == 'E' {
			switch rapid.IntRange(0, 5).Draw(t, "divclass") {
			case 0:
				b = intOp{orig: new(big.Int), v: new(big.Int), ann: rapid.IntRange(0, 70).Draw(t, "zann"), capC: "cap>len"}
				extra = "y=0"
			case 1, 2:
				k := genIntOp(t, "k", maxB/2, false)
				d := genIntOp(t, "d", maxB/2, false)
				p := new(big.Int).Mul(k.v, d.v)
				a, b = intOp{orig: p, v: p, ann: p.BitLen(), capC: "cap=len"}, d
				extra = "exact"
			}
		}
		x, y := numInt(t, a), numInt(t, b)
		what := fmt.Sprintf("num.Int.%s(x=%s, y=%s)", op, a, b)
		nt := a.v.Sign() != 0 && b.v.Sign() != 0
		varTimeExcluded := func() bool {
			if b.v.Sign() != 0 && a.ann-b.v.BitLen()+2 <= 0 {
				vlib.Excluded(fDivVarPanic)
				extra += " excluded"
				nt = false
				return true
			}
			return false
		}
		switch op {
		case "Add":
			wantBig(t, what, x.Add(y).Big(), new(big.Int).Add(a.v, b.v))
			wantBig(t, what+" Double", x.Double().Big(), new(big.Int).Lsh(a.v, 1))
		case "Sub":
			wantBig(t, what, x.Sub(y).Big(), new(big.Int).Sub(a.v, b.v))
			if d := x.Sub(x); !d.IsZero() || d.IsNegative() || d.IsPositive() {
				t.Fatalf("%s: x - x is not a plain zero", what)
			}
		case "Mul":
			p := x.Mul(y)
			w := new(big.Int).Mul(a.v, b.v)
			wantBig(t, what, p.Big(), w)
			if p.IsNegative() != (w.Sign() < 0) || p.IsPositive() != (w.Sign() > 0) || int(p.Compare(num.Z().Zero())) != w.Sign() {
				t.Fatalf("%s: sign verdicts of the product %s are wrong (IsNegative=%v IsPositive=%v Compare0=%d)", what, w, p.IsNegative(), p.IsPositive(), p.Compare(num.Z().Zero()))
			}
			wantBig(t, what+" Square", x.Square().Big(), new(big.Int).Mul(a.v, a.v))
		case "Neg":
			n := x.Neg()
			w := new(big.Int).Neg(a.v)
			wantBig(t, what, n.Big(), w)
			if n.IsNegative() != (w.Sign() < 0) || int(n.Compare(num.Z().Zero())) != w.Sign() || num.Z().Zero().IsLessThanOrEqual(n) != (w.Sign() >= 0) {
				t.Fatalf("%s: sign verdicts of %s are wrong", what, w)
			}
			wantBig(t, what+" Abs", x.Abs().Big(), new(big.Int).Abs(a.v))
		case "Lsh":
			s := uint(rapid.IntRange(0, 200).Draw(t, "shift"))
			wantBig(t, fmt.Sprintf("%s shift=%d", what, s), x.Lsh(s).Big(), new(big.Int).Lsh(a.v, s))
		case "Rsh":
			s := uint(rapid.IntRange(0, a.ann+5).Draw(t, "shift"))
			g := x.Rsh(s).Big()
			floor := new(big.Int).Rsh(a.v, s)
			trunc := new(big.Int).Quo(a.v, pow2(int(s)))
			if !eq(g, floor) && !eq(g, trunc) { // rounding of a negative shift is not documented
				t.Fatalf("%s shift=%d: %s is neither floor %s nor trunc %s", what, s, g, floor, trunc)
			}
		case "TryDiv", "TryDivVarTime":
			if op == "TryDivVarTime" && varTimeExcluded() {
				break
			}
			var r *num.Int
			var err error
			if op == "TryDiv" {
				r, err = x.TryDiv(y)
			} else {
				r, err = x.TryDivVarTime(y)
			}
			exact := b.v.Sign() != 0 && new(big.Int).Rem(a.v, b.v).Sign() == 0
			wantErr(t, what, err, !exact)
			if exact {
				wantBig(t, what, r.Big(), new(big.Int).Quo(a.v, b.v))
			}
			extra += fmt.Sprintf(" exact=%v", exact)
		case "DivRound", "DivRoundVarTime":
			if op == "DivRoundVarTime" && varTimeExcluded() {
				break
			}
			var r *num.Int
			var err error
			if op == "DivRound" {
				r, err = x.DivRound(y)
			} else {
				r, err = x.DivRoundVarTime(y)
			}
			wantErr(t, what, err, b.v.Sign() == 0)
			if err == nil { // documented: rounded towards zero
				wantBig(t, what, r.Big(), new(big.Int).Quo(a.v, b.v))
			}
		case "EuclideanDiv", "EuclideanDivVarTime":
			if op == "EuclideanDivVarTime" && varTimeExcluded() {
				break
			}
			var q, r *num.Int
			var err error
			if op == "EuclideanDiv" {
				q, r, err = x.EuclideanDiv(y)
			} else {
				q, r, err = x.EuclideanDivVarTime(y)
			}
			wantErr(t, what, err, b.v.Sign() == 0)
			if err == nil {
				wq, wr := new(big.Int).DivMod(a.v, b.v, new(big.Int))
				wantBig(t, what+" quotient", q.Big(), wq)
				wantBig(t, what+" remainder", r.Big(), wr)
			}
		case "Compare":
			if rapid.IntRange(0, 4).Draw(t, "eqv") == 0 {
				b = intOp{orig: a.v, v: a.v, ann: a.v.BitLen() + rapid.IntRange(0, 70).Draw(t, "pad"), capC: "cap>len"}
				y = numInt(t, b)
			}
			c := a.v.Cmp(b.v)
			if int(x.Compare(y)) != c || x.Equal(y) != (c == 0) || x.IsLessThanOrEqual(y) != (c <= 0) {
				t.Fatalf("num.Int.Compare(%s, %s): Compare=%d Equal=%v LessOrEqual=%v, want cmp %d", a, b, x.Compare(y), x.Equal(y), x.IsLessThanOrEqual(y), c)
			}
		case "Predicates":
			if x.IsZero() != (a.v.Sign() == 0) || x.IsOne() != eq(a.v, b1) || x.IsNegative() != (a.v.Sign() < 0) || x.IsPositive() != (a.v.Sign() > 0) ||
				x.IsEven() != (a.v.Bit(0) == 0) || x.IsOdd() != (a.v.Bit(0) == 1) || x.TrueLen() != a.v.BitLen() ||
				!eq(x.Clone().Big(), a.v) || !eq(x.Lift().Big(), a.v) {
				t.Fatalf("%s: a predicate is wrong", what)
			}
			if a.v.BitLen() <= 600 && x.IsProbablyPrime() != (a.v.Sign() > 0 && a.v.ProbablyPrime(32)) {
				t.Fatalf("%s: IsProbablyPrime=%v", what, x.IsProbablyPrime())
			}
		case "Coprime":
			g := new(big.Int).GCD(nil, nil, new(big.Int).Abs(a.v), new(big.Int).Abs(b.v))
			if x.Coprime(y) != eq(g, b1) {
				t.Fatalf("%s: Coprime=%v gcd=%s", what, x.Coprime(y), sh(g))
			}
		case "Mod", "IsInRange", "IsUnit":
			mv := new(big.Int).Abs(b.v)
			if mv.Sign() == 0 || op == "IsUnit" && mv.Cmp(b1) == 0 {
				nt = false
				break
			}
			m := numNatPlus(t, mv, mv.BitLen())
			switch op {
			case "Mod":
				wantBig(t, what, x.Mod(m).Big(), new(big.Int).Mod(a.v, mv))
			case "IsInRange":
				if x.IsInRange(m) != (a.v.Sign() >= 0 && a.v.Cmp(mv) < 0) {
					t.Fatalf("%s: IsInRange=%v", what, x.IsInRange(m))
				}
				two := new(big.Int).Lsh(a.v, 1)
				if w := two.Cmp(new(big.Int).Neg(mv)) >= 0 && two.Cmp(mv) < 0; x.IsInRangeSymmetric(m) != w {
					t.Fatalf("%s: IsInRangeSymmetric=%v want %v", what, x.IsInRangeSymmetric(m), w)
				}
			default:
				g := new(big.Int).GCD(nil, nil, new(big.Int).Mod(a.v, mv), mv)
				if x.IsUnit(m) != eq(g, b1) {
					t.Fatalf("%s: IsUnit=%v gcd=%s", what, x.IsUnit(m), sh(g))
				}
			}
		case "Encoding":
			back, err := num.Z().FromBytes(x.Bytes())
			if err != nil || !eq(back.Big(), a.v) {
				t.Fatalf("%s: Bytes round trip failed", what)
			}
			tc := x.TwosComplementBytesBE()
			if !eq(fromTwos(tc), a.v) {
				t.Fatalf("%s: TwosComplementBytesBE decodes to %s", what, fromTwos(tc))
			}
			back, err = num.Z().FromTwosComplementBytesBE(twos(a.v, (a.v.BitLen()+8)/8+rapid.IntRange(0, 5).Draw(t, "pad")))
			if err != nil || !eq(back.Big(), a.v) {
				t.Fatalf("%s: FromTwosComplementBytesBE round trip failed", what)
			}
			if !eq(new(big.Int).SetBytes(x.AbsBytesBE()), new(big.Int).Abs(a.v)) {
				t.Fatalf("%s: AbsBytesBE wrong", what)
			}
		case "From":
			f, err := num.Z().FromBig(a.v)
			if err != nil || !eq(f.Big(), a.v) || f.IsNegative() != (a.v.Sign() < 0) {
				t.Fatalf("Z().FromBig(%s): %v", a.v, err)
			}
			i64 := rapid.Int64().Draw(t, "i64")
			wantBig(t, "Z().FromInt64", num.Z().FromInt64(i64).Big(), big.NewInt(i64))
			u := rapid.Uint64().Draw(t, "u")
			wantBig(t, "Z().FromUint64", num.Z().FromUint64(u).Big(), new(big.Int).SetUint64(u))
			wantBig(t, "Rat()", x.Rat().Big().Num(), a.v)
		case "TryInv":
			r, err := x.TryInv()
			unit := new(big.Int).Abs(a.v).Cmp(b1) == 0
			wantErr(t, what, err, !unit)
			if unit {
				wantBig(t, what, r.Big(), a.v)
			}
		case "IncDec":
			wantBig(t, what+" Increment", x.Increment().Big(), new(big.Int).Add(a.v, b1))
			wantBig(t, what+" Decrement", x.Decrement().Big(), new(big.Int).Sub(a.v, b1))
		}
		if !eq(x.Big(), a.v) || !eq(y.Big(), b.v) {
			t.Fatalf("%s: an operand changed", what)
		}
		sc := sizeClass(max(a.v.BitLen(), b.v.BitLen()))
		sg := signClass(a.v) + "," + signClass(b.v)
		vlib.Case(test, vlib.Desc("num.Int", op, sc, sg, a.capC, extra), nt, "op="+op, "size="+sc, "sign="+sg)
	})
}

func TestNumRat(t *testing.T) {
	const test = "NumRat"
	ops := []string{"Add", "Sub", "Mul", "TryDiv", "Neg", "TryInv", "Canonical", "CeilFloor", "Compare", "Predicates", "From"}
	vlib.Check(t, 3000, func(t *rapid.T) {
		op := rapid.SampledFrom(ops).Draw(t, "op")
		maxB := 320
		if vlib.Thorough() {
			maxB = 1100
		}
		mk := func(label string) (*num.Rat, *big.Rat, string) {
			n := genIntOp(t, label+".n", maxB, false)
			d := genNatOp(t, label+".d", maxB, false)
			cls := "general"
			if d.v.Sign() == 0 {
				d = mkNatOp(big.NewInt(1), 1, "cap=len")
				cls = "integer"
			}
			if rapid.IntRange(0, 5).Draw(t, label+".common") == 0 && n.v.Sign() != 0 {
				g, _ := genMag(t, label+".g", 70)
				if g.Sign() != 0 {
					nv, dv := new(big.Int).Mul(n.v, g), new(big.Int).Mul(d.v, g)
					n, d = intOp{orig: nv, v: nv, ann: nv.BitLen()}, mkNatOp(dv, dv.BitLen(), "cap=len")
					cls = "non-canonical"
				}
			}
			r, err := num.Q().New(numInt(t, n), numNatPlus(t, d.v, d.ann))
			if err != nil {
				t.Fatalf("Q().New: %v", err)
			}
			return r, new(big.Rat).SetFrac(n.v, d.v), cls
		}
		x, xb, xc := mk("x")
		y, yb, yc := mk("y")
		what := fmt.Sprintf("num.Rat.%s(x=%s, y=%s)", op, xb, yb)
		same := func(what string, got *num.Rat, want *big.Rat) {
			if got.Big().Cmp(want) != 0 {
				t.Fatalf("%s: %s, want %s", what, got.Big(), want)
			}
		}
		switch op {
		case "Add":
			same(what, x.Add(y), new(big.Rat).Add(xb, yb))
			same(what+" Double", x.Double(), new(big.Rat).Add(xb, xb))
		case "Sub":
			same(what, x.Sub(y), new(big.Rat).Sub(xb, yb))
		case "Mul":
			p, w := x.Mul(y), new(big.Rat).Mul(xb, yb)
			same(what, p, w)
			if p.IsNegative() != (w.Sign() < 0) || p.IsPositive() != (w.Sign() > 0) || p.IsZero() != (w.Sign() == 0) {
				t.Fatalf("%s: sign verdicts of the product %s are wrong", what, w)
			}
			same(what+" Square", x.Square(), new(big.Rat).Mul(xb, xb))
		case "TryDiv":
			r, err := x.TryDiv(y)
			wantErr(t, what, err, yb.Sign() == 0)
			if err == nil {
				same(what, r, new(big.Rat).Quo(xb, yb))
			}
		case "Neg":
			same(what, x.Neg(), new(big.Rat).Neg(xb))
		case "TryInv":
			r, err := x.TryInv()
			wantErr(t, what, err, xb.Sign() == 0)
			if err == nil {
				same(what, r, new(big.Rat).Inv(xb))
			}
		case "Canonical":
			c := x.Canonical()
			same(what, c, xb)
			if !eq(c.Numerator().Big(), xb.Num()) || !eq(c.Denominator().Big(), xb.Denom()) {
				t.Fatalf("%s: Canonical = %s/%s, lowest terms are %s", what, c.Numerator().Big(), c.Denominator().Big(), xb)
			}
			if x.IsInt() != xb.IsInt() {
				t.Fatalf("%s: IsInt=%v", what, x.IsInt())
			}
		case "CeilFloor":
			fl, err := x.Floor()
			wantErr(t, what, err, false)
			wf := new(big.Int).Div(xb.Num(), xb.Denom()) // Euclidean = floor for a positive denominator
			wantBig(t, what+" Floor", fl.Big(), wf)
			ce, err := x.Ceil()
			wantErr(t, what, err, false)
			wc := new(big.Int).Set(wf)
			if !xb.IsInt() {
				wc.Add(wc, b1)
			}
			wantBig(t, what+" Ceil", ce.Big(), wc)
		case "Compare":
			c := xb.Cmp(yb)
			if x.Equal(y) != (c == 0) || x.IsLessThanOrEqual(y) != (c <= 0) {
				t.Fatalf("%s: Equal=%v LessOrEqual=%v want cmp %d", what, x.Equal(y), x.IsLessThanOrEqual(y), c)
			}
		case "Predicates":
			if x.IsZero() != (xb.Sign() == 0) || x.IsNegative() != (xb.Sign() < 0) || x.IsPositive() != (xb.Sign() > 0) || x.IsOne() != (xb.Cmp(big.NewRat(1, 1)) == 0) {
				t.Fatalf("%s: a predicate is wrong", what)
			}
			same(what+" Clone", x.Clone(), xb)
		case "From":
			f, err := num.Q().FromBigRat(xb)
			if err != nil || f.Big().Cmp(xb) != 0 {
				t.Fatalf("Q().FromBigRat(%s): %v", xb, err)
			}
			zi, err := num.Z().FromRat(x)
			wantErr(t, "Z().FromRat("+xb.String()+")", err, !xb.IsInt())
			if err == nil {
				wantBig(t, "Z().FromRat", zi.Big(), xb.Num())
			}
		}
		if x.Big().Cmp(xb) != 0 || y.Big().Cmp(yb) != 0 {
			t.Fatalf("%s: an operand changed", what)
		}
		sc := sizeClass(max(xb.Num().BitLen(), xb.Denom().BitLen()))
		sg := fmt.Sprint(xb.Sign(), ",", yb.Sign())
		vlib.Case(test, vlib.Desc("num.Rat", op, sc, sg, xc, yc), xb.Sign() != 0, "op="+op, "size="+sc, "sign="+sg, "form="+xc)
	})
}

func TestNumZMod(t *testing.T) {
	const test = "NumZMod"
	ops := []string{"Add", "Sub", "Mul", "Neg", "Exp", "ExpI", "ExpBounded", "TryInv", "TryDiv", "IsUnit", "Shift", "Compare", "Predicates", "From", "IncDec", "Random"}
	vlib.Check(t, 5000, func(t *rapid.T) {
		op := rapid.SampledFrom(ops).Draw(t, "op")
		maxM := maxBitsExpensive()
		if op[0] == 'E' {
			maxM = 1100
		}
		mBig, mClass := genModulus(t, "m", maxM)
		mod := numNatPlus(t, mBig, mBig.BitLen()+rapid.SampledFrom([]int{0, 0, 1, 64}).Draw(t, "mpad"))
		zn, err := num.NewZMod(mod)
		if err != nil {
			t.Fatalf("NewZMod(%s): %v", sh(mBig), err)
		}
		a, aRel := genOperandFor(t, "x", mBig, mBig.BitLen()*2+70)
		b, _ := genOperandFor(t, "y", mBig, mBig.BitLen()*2+70)
		x, err := zn.FromNat(numNat(t, a))
		wantErr(t, "ZMod.FromNat", err, false)
		y, err := zn.FromNat(numNat(t, b))
		wantErr(t, "ZMod.FromNat", err, false)
		red := func(v *big.Int) *big.Int { return new(big.Int).Mod(v, mBig) }
		av, bv := red(a.v), red(b.v)
		wantBig(t, fmt.Sprintf("ZMod(%s).FromNat(%s)", sh(mBig), a), x.Big(), av)
		what := fmt.Sprintf("num.Uint[mod %s].%s(x=%s, y=%s)", sh(mBig), op, sh(av), sh(bv))
		nt := mBig.Cmp(b1) > 0
		zero := mBig.Cmp(b1) == 0
		extra := ""
		switch op {
		case "Add":
			wantBig(t, what, x.Add(y).Big(), red(new(big.Int).Add(av, bv)))
			wantBig(t, what+" Double", x.Double().Big(), red(new(big.Int).Lsh(av, 1)))
		case "Sub":
			wantBig(t, what, x.Sub(y).Big(), red(new(big.Int).Sub(av, bv)))
		case "Mul":
			wantBig(t, what, x.Mul(y).Big(), red(new(big.Int).Mul(av, bv)))
			wantBig(t, what+" Square", x.Square().Big(), red(new(big.Int).Mul(av, av)))
		case "Neg":
			wantBig(t, what, x.Neg().Big(), red(new(big.Int).Neg(av)))
		case "Exp", "ExpI", "ExpBounded":
			e := genNatOp(t, "e", min(mBig.BitLen()+70, 1200), true)
			switch op {
			case "Exp":
				wantBig(t, what+" e="+e.String(), x.Exp(numNat(t, e)).Big(), new(big.Int).Exp(av, e.v, mBig))
			case "ExpBounded":
				bits := uint(rapid.IntRange(0, e.ann+10).Draw(t, "bits"))
				we := mod2k(e.v, int(bits)) // documented: only the lower `bits` bits of the exponent
				wantBig(t, fmt.Sprintf("%s e=%s bits=%d", what, e, bits), x.ExpBounded(numNat(t, e), bits).Big(), new(big.Int).Exp(av, we, mBig))
			default:
				neg := rapid.Bool().Draw(t, "eneg") && e.v.Sign() != 0
				g := new(big.Int).GCD(nil, nil, av, mBig)
				if neg && (!eq(g, b1) || zero) {
					extra = "negative-exponent-of-nonunit(not executed)"
					nt = false
					break
				}
				ev := new(big.Int).Set(e.v)
				want := new(big.Int).Exp(av, e.v, mBig)
				if neg {
					ev.Neg(ev)
					want.ModInverse(want, mBig)
				}
				wantBig(t, fmt.Sprintf("%s e=%s", what, ev), x.ExpI(numInt(t, intOp{orig: ev, v: ev, ann: e.ann})).Big(), want)
			}
		case "TryInv":
			if zero {
				nt = false
				break
			}
			r, err := x.TryInv()
			g := new(big.Int).GCD(nil, nil, av, mBig)
			wantErr(t, what, err, !eq(g, b1))
			if err == nil {
				wantBig(t, what, r.Big(), new(big.Int).ModInverse(av, mBig))
			}
			extra = fmt.Sprintf("unit=%v", eq(g, b1))
		case "TryDiv":
			if zero {
				nt = false
				break
			}
			r, err := x.TryDiv(y)
			g := new(big.Int).GCD(nil, nil, bv, mBig)
			if eq(g, b1) {
				wantErr(t, what, err, false)
				wantBig(t, what, r.Big(), red(new(big.Int).Mul(av, new(big.Int).ModInverse(bv, mBig))))
			} else if err == nil && !eq(red(new(big.Int).Mul(bv, r.Big())), av) {
				t.Fatalf("%s: returned %s but y*out != x", what, sh(r.Big()))
			}
		case "IsUnit":
			if zero {
				nt = false
				break
			}
			g := new(big.Int).GCD(nil, nil, av, mBig)
			if x.IsUnit() != eq(g, b1) {
				t.Fatalf("%s: IsUnit=%v gcd=%s", what, x.IsUnit(), sh(g))
			}
		case "Shift":
			s := uint(rapid.IntRange(0, mBig.BitLen()+5).Draw(t, "shift"))
			wantBig(t, fmt.Sprintf("%s Lsh %d", what, s), x.Lsh(s).Big(), red(new(big.Int).Lsh(av, s)))
			wantBig(t, fmt.Sprintf("%s Rsh %d", what, s), x.Rsh(s).Big(), red(new(big.Int).Rsh(av, s)))
		case "Compare":
			c := av.Cmp(bv)
			if int(x.Compare(y)) != c || x.Equal(y) != (c == 0) || x.IsLessThanOrEqual(y) != (c <= 0) {
				t.Fatalf("%s: comparison wrong, want cmp %d", what, c)
			}
		case "Predicates":
			if x.IsZero() != (av.Sign() == 0) || (!zero && x.IsOne() != eq(av, b1)) || x.IsEven() != (av.Bit(0) == 0) || x.IsOdd() != (av.Bit(0) == 1) ||
				!eq(x.Modulus().Big(), mBig) || !eq(x.Lift().Big(), av) || !eq(x.Nat().Big(), av) || !eq(x.Clone().Big(), av) ||
				(!zero && x.IsTop() != eq(av, new(big.Int).Sub(mBig, b1))) || !eq(new(big.Int).SetBytes(x.Bytes()), av) {
				t.Fatalf("%s: a predicate or conversion is wrong", what)
			}
			if !eq(zn.Zero().Big(), b0) || (!zero && !eq(zn.One().Big(), b1)) || (!zero && !eq(zn.Top().Big(), new(big.Int).Sub(mBig, b1))) || !eq(zn.Modulus().Big(), mBig) || !eq(zn.Order().Big(), mBig) {
				t.Fatalf("%s: ZMod constants are wrong", what)
			}
			if zn.IsInRange(numNat(t, a)) != (a.v.Cmp(mBig) < 0) {
				t.Fatalf("%s: ZMod.IsInRange(%s)=%v", what, a, zn.IsInRange(numNat(t, a)))
			}
		case "From":
			neg := new(big.Int).Neg(a.v)
			u, err := zn.FromInt(numInt(t, intOp{orig: neg, v: neg, ann: a.ann}))
			wantErr(t, what, err, false)
			wantBig(t, fmt.Sprintf("ZMod(%s).FromInt(-%s)", sh(mBig), sh(a.v)), u.Big(), red(neg))
			u, err = zn.FromBig(neg)
			wantErr(t, what, err, false)
			wantBig(t, "ZMod.FromBig(negative)", u.Big(), red(neg))
			raw := a.v.Bytes()
			if len(raw) == 0 {
				raw = []byte{0}
			}
			u, err = zn.FromBytes(raw) // documented range check: rejects values >= m
			wantErr(t, fmt.Sprintf("ZMod(%s).FromBytes(%s)", sh(mBig), sh(a.v)), err, a.v.Cmp(mBig) >= 0)
			if err == nil {
				wantBig(t, "ZMod.FromBytes", u.Big(), a.v)
			}
			u, err = zn.FromBytesBEReduce(raw)
			wantErr(t, what, err, false)
			wantBig(t, "ZMod.FromBytesBEReduce", u.Big(), av)
			si, err := num.Z().FromUintSymmetric(x)
			wantErr(t, what, err, false)
			ws := new(big.Int).Set(av)
			if new(big.Int).Lsh(ws, 1).Cmp(mBig) >= 0 {
				ws.Sub(ws, mBig)
			}
			wantBig(t, fmt.Sprintf("Z().FromUintSymmetric(%s mod %s)", sh(av), sh(mBig)), si.Big(), ws)
		case "IncDec":
			wantBig(t, what+" Increment", x.Increment().Big(), red(new(big.Int).Add(av, b1)))
			wantBig(t, what+" Decrement", x.Decrement().Big(), red(new(big.Int).Sub(av, b1)))
		case "Random":
			r, err := zn.Random(vlib.NewPRNG(rapid.Uint64().Draw(t, "prngseed"), "c17/zmod"))
			if err != nil || r.Big().Cmp(mBig) >= 0 {
				t.Fatalf("ZMod(%s).Random: %v %v", sh(mBig), r, err)
			}
			h, err := zn.Hash([]byte("c17"))
			if err != nil || h.Big().Cmp(mBig) >= 0 {
				t.Fatalf("ZMod(%s).Hash: %v %v", sh(mBig), h, err)
			}
		}
		if !eq(x.Big(), av) || !eq(y.Big(), bv) {
			t.Fatalf("%s: an operand changed", what)
		}
		sc := sizeClass(mBig.BitLen())
		vlib.Case(test, vlib.Desc("num.ZMod", op, mClass, sc, aRel, extra), nt, "op="+op, "modulus="+mClass, "size="+sc, "x:"+aRel)
	})
}
