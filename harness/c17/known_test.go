package c17

import (
	"fmt"
	"math/big"
	"testing"

	"github.com/bronlabs/bron-crypto/pkg/base/nt"
	"github.com/bronlabs/bron-crypto/pkg/base/nt/crt"
	"github.com/bronlabs/bron-crypto/pkg/base/nt/modular"
	"github.com/bronlabs/bron-crypto/pkg/base/nt/num"
	"github.com/bronlabs/bron-crypto/pkg/base/nt/numct"
	"verif/harness/vlib"
)

func nat(v int64, ann int) *numct.Nat { return numct.NewNatFromBig(big.NewInt(v), ann) }

func panics(f func()) (p any) {
	defer func() { p = recover() }()
	f()
	return nil
}

// TestKnownFindings re-observes every catalogued (kind = "known") finding on its minimal input.
// The generators exclude exactly these input classes (vlib.Excluded under the same id).
func TestKnownFindings(t *testing.T) {
	if k, _ := vlib.Shard(); k != 0 {
		t.Skip("observed by shard 0")
	}
	// C17-cap-mutates-input
	{
		x := numct.NewNatFromBig(pow2(127), 128)
		var out numct.Nat
		out.AddCap(x, nat(5, 8), 65)
		present := x.Big().Sign() == 0 && eq(out.Big(), bi(5))
		xi := numct.NewIntFromBig(new(big.Int).Neg(pow2(62)), 63)
		var oi numct.Int
		oi.MulCap(xi, numct.NewInt(0), 62)
		present2 := xi.Big().Sign() == 0
		vlib.Known(fCapMutates, present || present2, fmt.Sprintf(
			"x = Nat(2^127, ann 128); out.AddCap(x, 5, cap 65): out = %s (correct) but x is now %s; also numct.Int.MulCap(x = -2^62 [ann 63], 0, cap 62) leaves x = %s",
			out.Big(), x.Big(), xi.Big()))
	}
	// C17-quo-truncated
	{
		m, _ := numct.NewModulus(nat(7, 3))
		var q numct.Nat
		m.Quo(&q, numct.NewNatFromBig(pow2(100), 101))
		want := new(big.Int).Quo(pow2(100), bi(7))
		vlib.Known(fQuoTrunc, !eq(q.Big(), want), fmt.Sprintf("Modulus(7).Quo(2^100) = %s, want %s (cut to BitLen(m) = 3 bits)", q.Big(), want))
	}
	// C17-stale-reduced-after-modulus-set (+ Resize entry point)
	{
		m, _ := numct.NewModulus(numct.NewNat(7))
		var r, r2 numct.Nat
		m.Mod(&r, numct.NewNat(10))
		m.SetNat(numct.NewNat(2))
		m.Mod(&r2, &r)
		present := !eq(r2.Big(), b1)
		m7, _ := numct.NewModulus(numct.NewNat(7))
		var a, b, o numct.Nat
		m7.Mod(&a, numct.NewNat(10))
		b.Set(&a)
		b.Resize(500)
		p := panics(func() { m7.ModInv(&o, &b) })
		vlib.Known(fStaleReduced, present || p != nil, fmt.Sprintf(
			"m=Modulus(7); m.Mod(&r,10); m.SetNat(2); m.Mod(&r2,&r) = %s, want 1. Same stale marker through Resize: m.Mod(&a,10); b.Set(&a); b.Resize(500); m.ModInv(&o,&b) -> panic %v",
			r2.Big(), p))
	}
	// C17-stale-reduced-after-even-modulus-write (stale marker and stale limbs of SetBig)
	{
		m1, _ := numct.NewModulus(numct.NewNat(7))
		m2, _ := numct.NewModulus(numct.NewNat(100))
		var out, z numct.Nat
		m1.Mod(&out, numct.NewNat(10))
		m2.ModInv(&out, numct.NewNat(3))
		m1.Mod(&z, &out)
		present := eq(out.Big(), bi(67)) && !eq(z.Big(), bi(4))
		two, _ := numct.NewModulus(numct.NewNat(2))
		o2 := nat(1, 1)
		two.ModExp(o2, nat(0, 0), nat(1, 1))
		present2 := !eq(o2.Big(), b0)
		f0, _ := new(big.Int).SetString("4722366482869645213711", 10)
		f1 := new(big.Int).Add(pow2(64), b2)
		pm, _ := crt.PrecomputeMulti(exactNat(f0), exactNat(f1))
		rp, _ := pm.RecombineParallel(nat(1, 1), nat(1, 1))
		present3 := !eq(rp.Big(), b1)
		vlib.Known(fStaleEven, present || present2 || present3, fmt.Sprintf(
			"m1=Modulus(7), m2=Modulus(100): m1.Mod(&out,10); m2.ModInv(&out,3) = %s; m1.Mod(&z,&out) = %s, want 4. Stale limbs of the same SetBig: out=1; Modulus(2).ModExp(out, 0, 1) = %s, want 0. In-tree consequence: crt.PrecomputeMulti(4722366482869645213711, 2^64+2).RecombineParallel(1, 1) = %s, want 1 (NewParamsMulti reuses one Nat for all inverses; an even factor after the first gets a wrong lift)",
			out.Big(), z.Big(), o2.Big(), sh(rp.Big())))
	}
	// C17-divvartime-panics (negative documented quotient length)
	{
		var q, r numct.Nat
		p := panics(func() { q.DivVarTime(&r, nat(5, 3), numct.NewNatFromBig(pow2(126), 127)) })
		var qi numct.Int
		var ri numct.Nat
		num2 := numct.NewIntFromBig(bi(-2), 2)
		den2 := numct.NewIntFromBig(new(big.Int).Neg(pow2(62)), 63)
		p2 := panics(func() { qi.EuclideanDivVarTime(&ri, num2, den2) })
		wantR := new(big.Int).Sub(pow2(62), b2)
		var q0 numct.Int
		q0.EuclideanDivVarTime(nil, numct.NewIntFromBig(bi(-1), 1), numct.NewIntFromBig(bi(-4), 3))
		vlib.Known(fDivVarPanic, p != nil || p2 != nil || !eq(ri.Big(), wantR) || !eq(q0.Big(), b1), fmt.Sprintf(
			"numct.Nat.DivVarTime(5 [ann 3] / 2^126) -> panic %v; numct.Int.EuclideanDivVarTime(-2 [ann 2] / -2^62): remainder %s, want %s; (-1 [ann 1] / -4): quotient %s, want 1",
			p, ri.Big(), wantR, q0.Big()))
	}
	// C17-receiver-written-before-operands-read
	{
		y := nat(1, 1)
		y.Select(1, nat(0, 0), y)
		sel := !eq(y.Big(), b1)
		den := nat(5, 3)
		var r numct.Nat
		den.EuclideanDivVarTime(&r, nat(17, 5), den)
		div := !eq(r.Big(), b2)
		m9, _ := numct.NewModulus(numct.NewNat(9))
		x := nat(2, 2)
		ok := m9.ModInv(x, x)
		inv := !ctb(ok)
		opf, _ := modular.NewOddPrimeFactors(numct.NewNat(3), numct.NewNat(5))
		a := nat(0, 1)
		opf.ModDiv(a, a, nat(8, 4))
		mdiv := a.Big().Sign() != 0
		vlib.Known(fDivVarAlias, sel || div || inv || mdiv, fmt.Sprintf(
			"receiver aliasing an operand: y=1; y.Select(1, 0, y) = %s (want 1); q=den=5; q.EuclideanDivVarTime(&r, 17, q): r = %s (want 2); Modulus(9).ModInv(x, x=2): ok=%v (want true, x = %s); OddPrimeFactors(3,5).ModDiv(a, a=0, 8) = %s (want 0)",
			y.Big(), r.Big(), ctb(ok), x.Big(), a.Big()))
	}
	vlib.Case("KnownFindings", "observed", false)
}

// TestFixedFindingRegressions: the minimal inputs of the findings repaired by fix: commits in
// /repo hold as ordinary assertions (247ed06, abbf4de, 7975ac3, dbd7902, 1848c29).
func TestFixedFindingRegressions(t *testing.T) {
	if k, _ := vlib.Shard(); k != 0 {
		t.Skip("run by shard 0")
	}
	// 247ed06: Jacobi(-1, 3) = -1
	for _, c := range []struct{ x, y int64 }{{-1, 3}, {-1, 7}, {-2, 3}, {-5, 11}, {-1, 5}, {-3, 7}} {
		got, err := libJacobi(bi(c.x), bi(c.y))
		if want := big.Jacobi(bi(c.x), bi(c.y)); err != nil || got != want {
			t.Fatalf("nt.Jacobi(%d, %d) = %d (err %v), want %d", c.x, c.y, got, err, want)
		}
	}
	// abbf4de: Blum primes of lengths that are not multiples of 8
	for _, bits := range []uint{17, 20, 65} {
		p, err := nt.GenerateBlumPrime(num.NPlus(), bits, vlib.NewPRNG(1, "c17/regress"))
		if err != nil || p.TrueLen() != int(bits) || !p.Big().ProbablyPrime(32) || p.Big().Bit(1) != 1 {
			t.Fatalf("GenerateBlumPrime(%d) = %v (%d bits), err %v", bits, p, p.TrueLen(), err)
		}
	}
	p, q, err := nt.GenerateBlumPrimePair(num.NPlus(), 40, vlib.NewPRNG(1, "c17/regress"))
	if err != nil || p.TrueLen() != 20 || q.TrueLen() != 20 || p.Mul(q).TrueLen() != 40 {
		t.Fatalf("GenerateBlumPrimePair(40) = %v, %v, %v", p, q, err)
	}
	// 7975ac3: ModSqrt modulo 2 does not panic and returns a root that squares back
	two, _ := numct.NewModulus(numct.NewNat(2))
	for _, x := range []uint64{0, 1, 2, 3} {
		var r numct.Nat
		var ok bool
		if pn := panics(func() { ok = ctb(two.ModSqrt(&r, numct.NewNat(x))) }); pn != nil {
			t.Fatalf("Modulus(2).ModSqrt(%d) panicked: %v", x, pn)
		}
		if ok && new(big.Int).Mod(new(big.Int).Mul(r.Big(), r.Big()), b2).Uint64() != x%2 {
			t.Fatalf("Modulus(2).ModSqrt(%d) = %s does not square back", x, r.Big())
		}
	}
	z2, _ := num.NewZMod(num.NPlus().One().Increment())
	if u := z2.One(); !u.IsQuadraticResidue() {
		t.Fatalf("1 is not reported a quadratic residue in Z/2Z")
	}
	// dbd7902: negative zero
	nz := num.Z().Zero().Neg()
	if nz.IsNegative() || nz.Compare(num.Z().Zero()) != 0 || !num.Z().Zero().IsLessThanOrEqual(nz) {
		t.Fatalf("Z().Zero().Neg(): IsNegative=%v Compare(0)=%d", nz.IsNegative(), nz.Compare(num.Z().Zero()))
	}
	pz := num.Z().FromInt64(-3).Mul(num.Z().Zero())
	if pz.IsNegative() || pz.IsPositive() || pz.Compare(num.Z().Zero()) != 0 {
		t.Fatalf("(-3)*0: IsNegative=%v Compare(0)=%d", pz.IsNegative(), pz.Compare(num.Z().Zero()))
	}
	r0, _ := num.Q().New(num.Z().Zero(), num.NPlus().One())
	r5, _ := num.Q().New(num.Z().FromInt64(-5), num.NPlus().One())
	if pr := r0.Mul(r5); pr.IsNegative() || !pr.IsZero() {
		t.Fatalf("Rat 0 * (-5): IsNegative=%v", pr.IsNegative())
	}
	// 1848c29: Int.Add/Sub into a receiver that previously held a longer value
	out := numct.NewIntFromBig(pow2(64), 65)
	out.Add(numct.NewInt(1), numct.NewInt(2))
	if !eq(out.Big(), b3) {
		t.Fatalf("out(2^64).Add(1, 2) = %s, want 3", out.Big())
	}
	out = numct.NewIntFromBig(new(big.Int).Lsh(bi(5), 64), 70)
	out.Sub(numct.NewInt(10), numct.NewInt(3))
	if !eq(out.Big(), bi(7)) {
		t.Fatalf("out(5*2^64).Sub(10, 3) = %s, want 7", out.Big())
	}
	y := numct.NewIntFromBig(new(big.Int).Lsh(bi(3), 64), 66)
	y.Add(numct.NewInt(1), y) // out = y, x shorter than y
	if want := new(big.Int).Add(new(big.Int).Lsh(bi(3), 64), b1); !eq(y.Big(), want) {
		t.Fatalf("y.Add(1, y) with y = 3*2^64 gives %s, want %s", y.Big(), want)
	}
	vlib.Case("FixedFindingRegressions", "ran", false)
}
