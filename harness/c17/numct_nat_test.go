package c17

import (
	"bytes"
	"fmt"
	"math/big"
	"testing"

	"pgregory.net/rapid"

	"github.com/bronlabs/bron-crypto/pkg/base/ct"
	"github.com/bronlabs/bron-crypto/pkg/base/nt/numct"
	"verif/harness/vlib"
)

// wantNat fails unless got holds the value want (and, when wantAnn >= 0, announces wantAnn bits).
func wantNat(t *rapid.T, what string, got *numct.Nat, want *big.Int, wantAnn int) {
	t.Helper()
	if g := got.Big(); !eq(g, want) {
		t.Fatalf("%s: value %s, want %s", what, full(g), full(want))
	}
	if wantAnn >= 0 && got.AnnouncedLen() != wantAnn {
		t.Fatalf("%s: announced length %d, documented %d", what, got.AnnouncedLen(), wantAnn)
	}
	if got.TrueLen() != want.BitLen() {
		t.Fatalf("%s: TrueLen %d, want %d", what, got.TrueLen(), want.BitLen())
	}
}

// capTruncatesOperand is the exact input class of finding C17-cap-mutates-input: an explicit
// capacity below the operand's announced length for which the operand has a set bit in
// [cap, roundup64(cap)).
func capTruncatesOperand(op natOp, cap int) bool {
	if cap <= 0 || cap >= op.ann || cap%64 == 0 {
		return false
	}
	hi := ((cap + 63) / 64) * 64
	x := new(big.Int).Rsh(op.v, uint(cap))
	return mod2k(x, hi-cap).Sign() != 0
}

// unchanged checks that an input operand still holds its value after the call.
func unchanged(t *rapid.T, what string, n *numct.Nat, op natOp, cap int, explicitCap bool) {
	t.Helper()
	if explicitCap && capTruncatesOperand(op, cap) {
		vlib.Excluded(fCapMutates)
		return
	}
	if !eq(n.Big(), op.v) || n.AnnouncedLen() != op.ann {
		t.Fatalf("%s: input operand changed by the call: now %s/ann %d, was %s (cap %d)", what, full(n.Big()), n.AnnouncedLen(), op, cap)
	}
}

var aliasModes = []string{"none", "none", "none", "out=x", "out=y", "x=y", "all"}

// alias2 builds (out, x, y) for a binary operation under the drawn aliasing mode.
func alias2(t *rapid.T, mode string, l natOp, r *natOp) (out, x, y *numct.Nat) {
	junk := genNatOp(t, "junk", 200, false)
	switch mode {
	case "none":
		return junk.nat(), l.nat(), r.nat()
	case "out=x":
		x = l.nat()
		return x, x, r.nat()
	case "out=y":
		y = r.nat()
		return y, l.nat(), y
	case "x=y":
		*r = l
		x = l.nat()
		return junk.nat(), x, x
	default:
		*r = l
		x = l.nat()
		return x, x, x
	}
}

var natOps = []string{
	"Add", "AddCap", "SubCap", "Mul", "MulCap", "Double", "Increment", "Decrement",
	"Div", "EuclideanDiv", "DivVarTime", "EuclideanDivVarTime",
	"Compare", "Predicates", "Coprime", "GCD", "LCM", "Sqrt",
	"Lsh", "LshCap", "Rsh", "RshCap", "Resize",
	"Bit", "SetBit", "Byte", "Uint64", "Bytes", "FillBytes", "SetBytes",
	"And", "Or", "Xor", "Not", "AndCap", "OrCap", "XorCap", "NotCap",
	"Select", "CondAssign", "SetClone", "Lift", "IsProbablyPrime", "RandomRange",
	"Constructors",
}

func TestNumctNat(t *testing.T) {
	const test = "NumctNat"
	vlib.Check(t, 24000, func(t *rapid.T) {
		op := rapid.SampledFrom(natOps).Draw(t, "op")
		big4k, mid := maxBitsCheap(), maxBitsExpensive()
		var sizeC, capC, aliasC, extra string
		nt := true
		switch op {
		case "Add", "AddCap", "SubCap", "Mul", "MulCap", "And", "Or", "Xor", "AndCap", "OrCap", "XorCap":
			maxB := big4k
			if op == "Mul" || op == "MulCap" {
				maxB = mid
			}
			l := genNatOp(t, "x", maxB, true)
			r := genNatOp(t, "y", maxB, true)
			mode := rapid.SampledFrom(aliasModes).Draw(t, "alias")
			out, x, y := alias2(t, mode, l, &r)
			var exact *big.Int
			var defCap int
			switch op {
			case "Add", "AddCap":
				exact, defCap = new(big.Int).Add(l.v, r.v), max(l.ann, r.ann)+1
			case "SubCap":
				exact, defCap = new(big.Int).Sub(l.v, r.v), max(l.ann, r.ann)
			case "Mul", "MulCap":
				exact, defCap = new(big.Int).Mul(l.v, r.v), l.ann+r.ann
			case "And", "AndCap":
				exact, defCap = new(big.Int).And(l.v, r.v), max(l.ann, r.ann)
			case "Or", "OrCap":
				exact, defCap = new(big.Int).Or(l.v, r.v), max(l.ann, r.ann)
			default:
				exact, defCap = new(big.Int).Xor(l.v, r.v), max(l.ann, r.ann)
			}
			capArg, capArgC := -1, "cap=-1"
			explicit := false
			switch op {
			case "AddCap", "SubCap", "MulCap", "AndCap", "OrCap", "XorCap":
				need := exact.BitLen()
				if exact.Sign() < 0 {
					need = max(l.ann, r.ann)
				}
				capArg, capArgC = genCapArg(t, "cap", need)
				explicit = capArg >= 0
			}
			effCap := capArg
			if capArg < 0 {
				effCap = defCap
			}
			switch op {
			case "Add":
				out.Add(x, y)
			case "AddCap":
				out.AddCap(x, y, capArg)
			case "SubCap":
				out.SubCap(x, y, capArg)
			case "Mul":
				out.Mul(x, y)
			case "MulCap":
				out.MulCap(x, y, capArg)
			case "And":
				out.And(x, y)
			case "AndCap":
				out.AndCap(x, y, capArg)
			case "Or":
				out.Or(x, y)
			case "OrCap":
				out.OrCap(x, y, capArg)
			case "Xor":
				out.Xor(x, y)
			case "XorCap":
				out.XorCap(x, y, capArg)
			}
			what := fmt.Sprintf("numct.Nat.%s(x=%s, y=%s, cap=%d) alias=%s", op, l, r, capArg, mode)
			wantNat(t, what, out, mod2k(exact, effCap), effCap)
			if out != x {
				unchanged(t, what+" [x]", x, l, effCap, explicit)
			}
			if out != y && y != x {
				unchanged(t, what+" [y]", y, r, effCap, explicit)
			}
			sizeC, capC, aliasC = sizeClass(max(l.v.BitLen(), r.v.BitLen())), l.capC+","+r.capC+","+capArgC, mode
			if exact.Sign() < 0 {
				extra = "wraps-below-zero"
			} else if exact.BitLen() > effCap {
				extra = "result-truncated"
			}
			nt = l.v.Sign() != 0 || r.v.Sign() != 0

		case "Double", "Increment", "Decrement", "Not", "NotCap", "Resize", "Lsh", "LshCap", "Rsh", "RshCap", "Sqrt", "SetClone", "Lift":
			maxB := big4k
			if op == "Sqrt" {
				maxB = mid
			}
			l := genNatOp(t, "x", maxB, true)
			if op == "Sqrt" && rapid.Bool().Draw(t, "square") {
				root, _ := genMag(t, "root", maxB/2)
				sq := new(big.Int).Mul(root, root)
				if rapid.IntRange(0, 5).Draw(t, "offby") == 0 {
					sq.Add(sq, b1)
				}
				ann, c := genAnn(t, "sq", sq.BitLen(), false)
				l = mkNatOp(sq, ann, c)
			}
			aliased := rapid.IntRange(0, 3).Draw(t, "alias1") == 0
			x := l.nat()
			junk := genNatOp(t, "junk", 200, false)
			out := junk.nat()
			if aliased {
				out = x
			}
			aliasC = map[bool]string{true: "out=x", false: "none"}[aliased]
			what := fmt.Sprintf("numct.Nat.%s(x=%s) alias=%s", op, l, aliasC)
			checkIn := true
			inCap, inExplicit := 0, false
			switch op {
			case "Double":
				out.Double(x)
				wantNat(t, what, out, new(big.Int).Lsh(l.v, 1), l.ann+1)
			case "Increment":
				out = x
				aliasC = "inplace"
				out.Increment()
				wantNat(t, what, out, new(big.Int).Add(l.v, b1), -1)
				checkIn = false
			case "Decrement":
				out = x
				aliasC = "inplace"
				out.Decrement()
				checkIn = false
				if l.v.Sign() == 0 {
					// 0 - 1 is not a natural number; the wrapped value is recorded, not asserted.
					extra = "decrement-of-zero"
					nt = false
				} else {
					wantNat(t, what, out, new(big.Int).Sub(l.v, b1), -1)
				}
			case "Not", "NotCap":
				capArg := -1
				if op == "NotCap" {
					var cc string
					capArg, cc = genCapArg(t, "cap", l.ann)
					capC = cc
					out.NotCap(x, capArg)
				} else {
					out.Not(x)
				}
				eff := capArg
				if eff < 0 {
					eff = l.ann
				}
				want := new(big.Int).Sub(new(big.Int).Sub(pow2(eff), b1), mod2k(l.v, eff))
				if eff == 0 {
					want = new(big.Int)
				}
				what += fmt.Sprintf(" cap=%d", capArg)
				wantNat(t, what, out, want, eff)
			case "Resize":
				capArg, cc := genCapArg(t, "cap", l.v.BitLen())
				capC = cc
				out = x
				aliasC = "inplace"
				out.Resize(capArg)
				checkIn = false
				what += fmt.Sprintf(" cap=%d", capArg)
				if capArg < 0 {
					wantNat(t, what, out, l.v, l.ann)
				} else {
					wantNat(t, what, out, mod2k(l.v, capArg), capArg)
				}
			case "Lsh", "LshCap", "Rsh", "RshCap":
				var shift uint
				switch rapid.IntRange(0, 5).Draw(t, "shclass") {
				case 0:
					shift = 0
				case 1:
					shift = uint(rapid.SampledFrom([]int{1, 63, 64, 65, 127, 128, 129}).Draw(t, "shift"))
				case 2:
					shift = uint(l.ann)
				case 3:
					shift = uint(l.ann + rapid.IntRange(1, 70).Draw(t, "shift"))
				default:
					shift = uint(rapid.IntRange(0, l.ann+10).Draw(t, "shift"))
				}
				left := op == "Lsh" || op == "LshCap"
				var exact *big.Int
				var defCap int
				if left {
					exact, defCap = new(big.Int).Lsh(l.v, shift), l.ann+int(shift)
				} else {
					exact, defCap = new(big.Int).Rsh(l.v, shift), max(0, l.ann-int(shift))
				}
				capArg := -1
				if op == "LshCap" || op == "RshCap" {
					var cc string
					capArg, cc = genCapArg(t, "cap", exact.BitLen())
					capC = cc
				}
				eff := capArg
				if eff < 0 {
					eff = defCap
				}
				switch op {
				case "Lsh":
					out.Lsh(x, shift)
				case "LshCap":
					out.LshCap(x, shift, capArg)
					inCap, inExplicit = eff, capArg >= 0
				case "Rsh":
					out.Rsh(x, shift)
				case "RshCap":
					out.RshCap(x, shift, capArg)
				}
				what += fmt.Sprintf(" shift=%d cap=%d", shift, capArg)
				if op == "LshCap" && exact.BitLen() > eff {
					// "with given capacity": the doc comment does not define the value when the shifted
					// number does not fit (saferith keeps bits above the capacity inside the top limb);
					// recorded, not asserted.
					extra = "lsh-beyond-capacity(recorded)"
					nt = false
				} else {
					wantNat(t, what, out, mod2k(exact, eff), eff)
					extra = fmt.Sprintf("shift%%64=%v", shift%64 == 0)
				}
			case "Sqrt":
				before := new(big.Int).Set(out.Big())
				if aliased {
					before = new(big.Int).Set(l.v)
				}
				ok := out.Sqrt(x)
				root := new(big.Int).Sqrt(l.v)
				isSq := eq(new(big.Int).Mul(root, root), l.v)
				if ctb(ok) != isSq {
					t.Fatalf("%s: ok=%v but perfect square=%v", what, ctb(ok), isSq)
				}
				if isSq {
					wantNat(t, what, out, root, -1)
				} else if !eq(out.Big(), before) { // documented: "else leaves n unchanged"
					t.Fatalf("%s: not a square but out changed from %s to %s", what, full(before), full(out.Big()))
				}
				extra = fmt.Sprintf("square=%v", isSq)
				if l.ann <= 64 {
					extra += ",fastpath"
				}
			case "SetClone":
				out.Set(x)
				wantNat(t, what+" Set", out, l.v, l.ann)
				c := x.Clone()
				wantNat(t, what+" Clone", c, l.v, l.ann)
				c.Increment()
				if !eq(x.Big(), l.v) {
					t.Fatalf("%s: mutating a Clone changed the original", what)
				}
				var z numct.Nat
				z.SetZero()
				wantNat(t, what+" SetZero", &z, b0, -1)
				z.SetOne()
				wantNat(t, what+" SetOne", &z, b1, -1)
			case "Lift":
				i := x.Lift()
				if !eq(i.Big(), l.v) || ctb(i.IsNegative()) {
					t.Fatalf("%s: Lift gives %s", what, i.Big())
				}
				var a numct.Nat
				a.Abs(i)
				wantNat(t, what+" Abs(Lift)", &a, l.v, -1)
			}
			if checkIn && out != x {
				unchanged(t, what+" [x]", x, l, inCap, inExplicit)
			}
			sizeC = sizeClass(l.v.BitLen())
			if capC == "" {
				capC = l.capC
			} else {
				capC = l.capC + "," + capC
			}
			nt = nt && l.v.Sign() != 0

		case "Div", "EuclideanDiv", "DivVarTime", "EuclideanDivVarTime":
			maxB := mid
			n := genNatOp(t, "num", maxB, true)
			var d natOp
			switch rapid.IntRange(0, 9).Draw(t, "dclass") {
			case 0:
				d = mkNatOp(new(big.Int), rapid.IntRange(0, 130).Draw(t, "dzann"), "cap>len")
				extra = "div-by-zero"
			case 1:
				d = mkNatOp(big.NewInt(1), rapid.IntRange(1, 70).Draw(t, "d1ann"), "cap>len")
				extra = "div-by-one"
			case 2:
				d = n
				extra = "d=n"
			default:
				d = genNatOp(t, "den", maxB, true)
			}
			mode := rapid.SampledFrom([]string{"none", "none", "q=num", "q=den", "r=num", "r=den", "nilrem", "num=den"}).Draw(t, "alias")
			if mode == "num=den" {
				d = n
			}
			if (op == "EuclideanDivVarTime" || op == "DivVarTime") && divVarTimePanics(n.ann, d.v) {
				vlib.Excluded(fDivVarPanic)
				vlib.Case(test, vlib.Desc("numct.Nat", op, "excluded"), false, "op="+op, "note=excluded:"+fDivVarPanic)
				return
			}
			if (op == "EuclideanDivVarTime" || op == "DivVarTime") && (mode == "q=num" || mode == "q=den") {
				// the receiver is written before the remainder is computed from the operands
				vlib.Excluded(fDivVarAlias)
				vlib.Case(test, vlib.Desc("numct.Nat", op, "excluded-alias"), false, "op="+op, "note=excluded:"+fDivVarAlias)
				return
			}
			nn, dd := n.nat(), d.nat()
			q, r := genNatOp(t, "junkq", 100, false).nat(), genNatOp(t, "junkr", 100, false).nat()
			fresh := rapid.Bool().Draw(t, "freshout")
			if fresh {
				q, r = new(numct.Nat), new(numct.Nat)
			}
			switch mode {
			case "q=num":
				q = nn
			case "q=den":
				q = dd
			case "r=num":
				r = nn
			case "r=den":
				r = dd
			case "nilrem":
				r = nil
			case "num=den":
				d = n
				dd = nn
			}
			var ok ct.Bool
			switch op {
			case "Div":
				ok = q.Div(r, nn, dd)
			case "EuclideanDiv":
				ok = q.EuclideanDiv(r, nn, dd)
			case "DivVarTime":
				ok = q.DivVarTime(r, nn, dd)
			default:
				ok = q.EuclideanDivVarTime(r, nn, dd)
			}
			what := fmt.Sprintf("numct.Nat.%s(num=%s, den=%s) alias=%s", op, n, d, mode)
			if ctb(ok) != (d.v.Sign() != 0) {
				t.Fatalf("%s: ok=%v", what, ctb(ok))
			}
			if d.v.Sign() != 0 {
				wq, wr := new(big.Int).QuoRem(n.v, d.v, new(big.Int))
				qAnn, rAnn := n.ann, d.ann
				if op == "DivVarTime" || op == "EuclideanDivVarTime" {
					qAnn, rAnn = min(n.ann, n.ann-d.v.BitLen()+2), d.v.BitLen()
					if qAnn < 0 {
						qAnn = -1 // documented formula is negative: value asserted, length recorded
						extra += "negative-documented-quotient-length"
					}
				}
				// the documented output lengths are asserted for fresh outputs (an output that
				// already announced more bits keeps them: conditional assignment takes the maximum)
				if !fresh || mode != "none" && mode != "nilrem" && mode != "num=den" || n.ann == 0 {
					qAnn, rAnn = -1, -1 // (a 0-bit numerator leaves the zero-value remainder with 0 announced bits)
				}
				wantNat(t, what+" quotient", q, wq, qAnn)
				if r != nil {
					wantNat(t, what+" remainder", r, wr, rAnn)
				}
			} else {
				nt = false
			}
			if q != nn && r != nn {
				unchanged(t, what+" [num]", nn, n, 0, false)
			}
			if q != dd && r != dd && dd != nn {
				unchanged(t, what+" [den]", dd, d, 0, false)
			}
			sizeC, capC, aliasC = sizeClass(n.v.BitLen())+"/"+sizeClass(d.v.BitLen()), n.capC+","+d.capC, mode
			if n.v.Cmp(d.v) < 0 {
				extra += "num<den"
			}

		case "Compare", "Predicates", "Coprime", "GCD", "LCM", "Select", "CondAssign":
			maxB := big4k
			if op == "GCD" || op == "LCM" || op == "Coprime" {
				maxB = mid
				if op != "Coprime" && !vlib.Thorough() {
					maxB = 1100
				}
			}
			l := genNatOp(t, "x", maxB, true)
			r := genNatOp(t, "y", maxB, true)
			switch rapid.IntRange(0, 7).Draw(t, "rel") {
			case 0: // equal values, possibly different capacities
				ann, c := genAnn(t, "y2", l.v.BitLen(), false)
				r = mkNatOp(l.v, ann, c)
				extra = "x==y"
			case 1: // differ by one
				v := new(big.Int).Add(l.v, b1)
				ann, c := genAnn(t, "y2", v.BitLen(), false)
				r = mkNatOp(v, ann, c)
				extra = "y=x+1"
			case 2: // common factor
				if op == "GCD" || op == "LCM" || op == "Coprime" {
					g, _ := genMag(t, "g", maxB/3)
					a, _ := genMag(t, "a", maxB/3)
					b, _ := genMag(t, "b", maxB/3)
					lv, rv := new(big.Int).Mul(g, a), new(big.Int).Mul(g, b)
					la, lc := genAnn(t, "x2", lv.BitLen(), false)
					ra, rc := genAnn(t, "y2", rv.BitLen(), false)
					l, r = mkNatOp(lv, la, lc), mkNatOp(rv, ra, rc)
					extra = "common-factor"
				}
			}
			mode := rapid.SampledFrom(aliasModes).Draw(t, "alias")
			if op == "Compare" || op == "Predicates" || op == "Coprime" {
				mode = rapid.SampledFrom([]string{"none", "none", "none", "x=y"}).Draw(t, "alias")
			}
			out, x, y := alias2(t, mode, l, &r)
			what := fmt.Sprintf("numct.Nat.%s(x=%s, y=%s) alias=%s", op, l, r, mode)
			switch op {
			case "Compare":
				lt, e, gt := x.Compare(y)
				c := l.v.Cmp(r.v)
				if ctb(lt) != (c < 0) || ctb(e) != (c == 0) || ctb(gt) != (c > 0) {
					t.Fatalf("%s: (lt,eq,gt)=(%d,%d,%d), want cmp=%d", what, lt, e, gt, c)
				}
				if ctb(x.Equal(y)) != (c == 0) {
					t.Fatalf("%s: Equal=%v", what, ctb(x.Equal(y)))
				}
				extra += fmt.Sprintf(" cmp=%d", c)
			case "Predicates":
				chk := func(name string, got ct.Bool, want bool) {
					if ctb(got) != want {
						t.Fatalf("%s: %s=%v want %v", what, name, ctb(got), want)
					}
				}
				chk("IsZero", x.IsZero(), l.v.Sign() == 0)
				chk("IsNonZero", x.IsNonZero(), l.v.Sign() != 0)
				chk("IsOne", x.IsOne(), eq(l.v, b1))
				chk("IsOdd", x.IsOdd(), l.v.Bit(0) == 1)
				chk("IsEven", x.IsEven(), l.v.Bit(0) == 0)
				if x.TrueLen() != l.v.BitLen() || x.AnnouncedLen() != l.ann {
					t.Fatalf("%s: TrueLen/AnnouncedLen = %d/%d", what, x.TrueLen(), x.AnnouncedLen())
				}
			case "Coprime":
				g := new(big.Int).GCD(nil, nil, l.v, r.v)
				if ctb(x.Coprime(y)) != eq(g, b1) {
					t.Fatalf("%s: Coprime=%v but gcd=%s", what, ctb(x.Coprime(y)), sh(g))
				}
				extra += fmt.Sprintf(" coprime=%v", eq(g, b1))
			case "GCD":
				out.GCD(x, y)
				wantNat(t, what, out, new(big.Int).GCD(nil, nil, l.v, r.v), -1)
			case "LCM":
				numct.LCM(out, x, y)
				want := new(big.Int)
				if l.v.Sign() != 0 && r.v.Sign() != 0 {
					g := new(big.Int).GCD(nil, nil, l.v, r.v)
					want.Div(new(big.Int).Mul(l.v, r.v), g)
				}
				wantNat(t, what, out, want, -1)
			case "Select":
				ch := ct.Choice(rapid.IntRange(0, 1).Draw(t, "choice"))
				out.Select(ch, x, y)
				want := l.v
				if ch == 1 {
					want = r.v
				}
				if out == y && x != y && ch == 1 {
					// Select copies x0 into the receiver before reading x1: with the receiver aliasing
					// x1 the result is x0. Same finding as the VarTime division (receiver written first).
					vlib.Excluded(fDivVarAlias)
					extra = "receiver=x1(excluded)"
					nt = false
				} else {
					wantNat(t, what+fmt.Sprint(" choice=", ch), out, want, -1)
				}
			case "CondAssign":
				ch := ct.Choice(rapid.IntRange(0, 1).Draw(t, "choice"))
				// out := x-valued, conditionally assigned y
				o2 := l.nat()
				yy := y
				if mode == "x=y" || mode == "all" {
					yy = o2
				}
				o2.CondAssign(ch, yy)
				want := l.v
				if ch == 1 {
					want = r.v
				}
				wantNat(t, what+fmt.Sprint(" choice=", ch), o2, want, -1)
			}
			if out != x {
				unchanged(t, what+" [x]", x, l, 0, false)
			}
			if out != y && y != x {
				unchanged(t, what+" [y]", y, r, 0, false)
			}
			sizeC, capC, aliasC = sizeClass(max(l.v.BitLen(), r.v.BitLen())), l.capC+","+r.capC, mode
			nt = l.v.Sign() != 0 && r.v.Sign() != 0

		case "Bit", "SetBit", "Byte", "Uint64", "Bytes", "FillBytes", "SetBytes", "Constructors", "IsProbablyPrime":
			maxB := big4k
			if op == "IsProbablyPrime" {
				maxB = 600
			}
			l := genNatOp(t, "x", maxB, true)
			x := l.nat()
			what := fmt.Sprintf("numct.Nat.%s(x=%s)", op, l)
			switch op {
			case "Bit":
				i := uint(rapid.IntRange(0, l.ann+70).Draw(t, "i"))
				if got := x.Bit(i); uint(got) != l.v.Bit(int(i)) {
					t.Fatalf("%s: Bit(%d)=%d", what, i, got)
				}
			case "Byte":
				i := uint(rapid.IntRange(0, l.ann/8+10).Draw(t, "i"))
				want := byte(new(big.Int).And(new(big.Int).Rsh(l.v, 8*i), bi(255)).Uint64())
				if got := x.Byte(i); got != want {
					t.Fatalf("%s: Byte(%d)=%#x want %#x", what, i, got, want)
				}
			case "SetBit":
				i := rapid.IntRange(0, l.ann+70).Draw(t, "i")
				b := uint(rapid.IntRange(0, 1).Draw(t, "b"))
				x.SetBit(i, b)
				want := new(big.Int).SetBit(l.v, i, b)
				wantNat(t, fmt.Sprintf("%s SetBit(%d,%d)", what, i, b), x, want, max(l.ann, i+1))
				extra = fmt.Sprintf("beyond=%v", i >= l.ann)
			case "Uint64":
				if l.v.BitLen() <= 64 {
					if got := x.Uint64(); got != l.v.Uint64() {
						t.Fatalf("%s: Uint64()=%d", what, got)
					}
				} else {
					extra = "wider-than-64(recorded)"
					nt = false
				}
				u := rapid.Uint64().Draw(t, "u")
				var z numct.Nat
				z.SetUint64(u)
				wantNat(t, fmt.Sprintf("SetUint64(%d)", u), &z, new(big.Int).SetUint64(u), 64)
				wantNat(t, fmt.Sprintf("NewNat(%d)", u), numct.NewNat(u), new(big.Int).SetUint64(u), 64)
			case "Bytes":
				bs := x.Bytes()
				if !eq(new(big.Int).SetBytes(bs), l.v) || len(bs) != (l.ann+7)/8 {
					t.Fatalf("%s: Bytes()=%x (len %d)", what, bs, len(bs))
				}
				if !bytes.Equal(bs, x.BytesBE()) {
					t.Fatalf("%s: BytesBE differs from Bytes", what)
				}
				var back numct.Nat
				if ok := back.SetBytes(bs); !ctb(ok) {
					t.Fatalf("%s: SetBytes(Bytes()) not ok", what)
				}
				wantNat(t, what+" round trip", &back, l.v, 8*len(bs))
			case "FillBytes":
				n := rapid.IntRange((l.v.BitLen()+7)/8, (l.ann+7)/8+9).Draw(t, "buflen")
				buf := bytes.Repeat([]byte{0xAA}, n)
				res := x.FillBytes(buf)
				if len(res) != n || !eq(new(big.Int).SetBytes(res), l.v) {
					t.Fatalf("%s: FillBytes(len %d)=%x", what, n, res)
				}
			case "SetBytes":
				raw := l.orig.Bytes()
				pad := rapid.IntRange(0, 9).Draw(t, "pad")
				data := append(make([]byte, pad), raw...)
				var z numct.Nat
				z.SetBytes(data)
				wantNat(t, fmt.Sprintf("SetBytes(%d bytes)", len(data)), &z, l.orig, 8*len(data))
				wantNat(t, "NewNatFromBytes", numct.NewNatFromBytes(data), l.orig, 8*len(data))
				extra = fmt.Sprintf("pad=%v", pad > 0)
			case "Constructors":
				wantNat(t, what+" NewNatFromBig", x, l.v, l.ann)
				wantNat(t, "NatZero", numct.NatZero(), b0, -1)
				wantNat(t, "NatOne", numct.NatOne(), b1, -1)
				wantNat(t, "NatTwo", numct.NatTwo(), b2, -1)
				wantNat(t, "NatThree", numct.NatThree(), b3, -1)
				if s := x.String(); len(s) < 2 || s[:2] != "0x" {
					t.Fatalf("%s: String()=%q", what, s)
				}
			case "IsProbablyPrime":
				v := l.v
				if rapid.Bool().Draw(t, "makeprime") {
					v = nextPrime(l.v)
					x = exactNat(v)
				}
				want := v.ProbablyPrime(32)
				if ctb(x.IsProbablyPrime()) != want {
					t.Fatalf("numct.Nat.IsProbablyPrime(%s)=%v, math/big says %v", full(v), ctb(x.IsProbablyPrime()), want)
				}
				extra = fmt.Sprintf("prime=%v", want)
			}
			sizeC, capC, aliasC = sizeClass(l.v.BitLen()), l.capC, "n/a"
			nt = nt && l.v.Sign() != 0

		case "RandomRange":
			lo := genNatOp(t, "lo", 600, false)
			hi := genNatOp(t, "hi", 600, false)
			switch rapid.IntRange(0, 4).Draw(t, "rel") {
			case 0:
				v := new(big.Int).Add(lo.v, b1)
				hi = mkNatOp(v, v.BitLen(), "cap=len")
				extra = "hi=lo+1"
			case 1:
				hi = lo
				extra = "hi=lo"
			}
			prng := vlib.NewPRNG(rapid.Uint64().Draw(t, "prngseed"), "c17/natrange")
			var n numct.Nat
			err := n.SetRandomRangeLH(lo.nat(), hi.nat(), prng)
			what := fmt.Sprintf("numct.Nat.SetRandomRangeLH(lo=%s, hi=%s)", lo, hi)
			if lo.v.Cmp(hi.v) >= 0 {
				if err == nil {
					t.Fatalf("%s: empty range accepted", what)
				}
				nt = false
			} else {
				if err != nil {
					t.Fatalf("%s: %v", what, err)
				}
				if g := n.Big(); g.Cmp(lo.v) < 0 || g.Cmp(hi.v) >= 0 {
					t.Fatalf("%s: sample %s outside the range", what, full(g))
				}
			}
			var m numct.Nat
			err = m.SetRandomRangeH(hi.nat(), prng)
			if hi.v.Sign() == 0 {
				if err == nil {
					t.Fatalf("SetRandomRangeH(0) accepted")
				}
			} else if err != nil || m.Big().Cmp(hi.v) >= 0 {
				t.Fatalf("SetRandomRangeH(%s) = %s, %v", hi, full(m.Big()), err)
			}
			sizeC, capC, aliasC = sizeClass(hi.v.BitLen()), lo.capC+","+hi.capC, "n/a"
		}
		vlib.Case(test, vlib.Desc("numct.Nat", op, sizeC, capC, aliasC, extra), nt,
			"op="+op, "size="+sizeC, "alias="+aliasC, "cap="+capC)
		if extra != "" {
			vlib.Class(test, "note="+op+":"+extra)
		}
	})
}
