package c17

import (
	"fmt"
	"math/big"
	"testing"

	"pgregory.net/rapid"

	"github.com/bronlabs/bron-crypto/pkg/base/ct"
	"github.com/bronlabs/bron-crypto/pkg/base/nt/numct"
	"verif/harness/vlib"
)

var modOps = []string{
	"Mod", "ModI", "ModSymmetric", "Quo", "ModAdd", "ModSub", "ModMul", "ModNeg",
	"ModInv", "ModDiv", "ModExp", "ModExpI", "ModMultiBaseExp",
	"IsInRange", "IsInRangeSymmetric", "IsUnit", "Encoding", "SetNat", "Random",
}

// outFor returns the output Nat under the aliasing mode and the operand it aliases (nil if none).
func outFor(t *rapid.T, mode string, x, y *numct.Nat) *numct.Nat {
	switch mode {
	case "out=x":
		return x
	case "out=y":
		if y != nil {
			return y
		}
	}
	if rapid.Bool().Draw(t, "freshout") {
		return new(numct.Nat)
	}
	return genNatOp(t, "junk", 300, false).nat()
}

func TestNumctModulus(t *testing.T) {
	const test = "NumctModulus"
	vlib.Check(t, 12000, func(t *rapid.T) {
		op := rapid.SampledFrom(modOps).Draw(t, "op")
		maxM := maxBitsExpensive()
		if op == "ModExp" || op == "ModExpI" || op == "ModMultiBaseExp" {
			maxM = 1100
			if vlib.Thorough() {
				maxM = 2100
			}
		}
		mBig, mClass := genModulus(t, "m", maxM)
		m := mustModulus(t, mBig)
		opMax := mBig.BitLen()*2 + 70
		x, xRel := genOperandFor(t, "x", mBig, opMax)
		y, yRel := genOperandFor(t, "y", mBig, opMax)
		mode := rapid.SampledFrom([]string{"none", "none", "none", "out=x", "out=y", "x=y"}).Draw(t, "alias")
		xn, yn := x.nat(), y.nat()
		if mode == "x=y" {
			y, yRel, yn = x, xRel, xn
		}
		mod := func(v *big.Int) *big.Int { return new(big.Int).Mod(v, mBig) }
		what := fmt.Sprintf("numct.Modulus(%s).%s(x=%s, y=%s) alias=%s", sh(mBig), op, x, y, mode)
		nt := mBig.Cmp(b1) > 0
		extra := ""
		binary := false
		switch op {
		case "Mod":
			out := outFor(t, mode, xn, nil)
			m.Mod(out, xn)
			wantNat(t, what, out, mod(x.v), mBig.BitLen())
		case "ModI":
			neg := rapid.Bool().Draw(t, "neg") && x.v.Sign() != 0
			xi := new(big.Int).Set(x.v)
			if neg {
				xi.Neg(xi)
			}
			out := outFor(t, "none", nil, nil)
			m.ModI(out, numct.NewIntFromBig(xi, x.ann))
			wantNat(t, what+fmt.Sprintf(" neg=%v", neg), out, mod(xi), -1)
			extra = fmt.Sprintf("neg=%v", neg)
		case "ModSymmetric":
			var out numct.Int
			m.ModSymmetric(&out, xn)
			r := mod(x.v)
			if new(big.Int).Lsh(r, 1).Cmp(mBig) >= 0 { // documented range [-m/2, m/2)
				r.Sub(r, mBig)
			}
			wantInt(t, what, &out, r, -1)
			if !ctb(m.IsInRangeSymmetric(&out)) {
				t.Fatalf("%s: result %s is not IsInRangeSymmetric", what, r)
			}
		case "Quo":
			out := outFor(t, mode, xn, nil)
			q := new(big.Int).Quo(x.v, mBig)
			if q.BitLen() > mBig.BitLen() {
				// finding C17-quo-truncated: the quotient is cut to BitLen(m) bits
				vlib.Excluded(fQuoTrunc)
				extra = "quotient-wider-than-m(excluded)"
				nt = false
			} else {
				m.Quo(out, xn)
				wantNat(t, what, out, q, -1)
			}
		case "ModAdd", "ModSub", "ModMul":
			binary = true
			out := outFor(t, mode, xn, yn)
			var want *big.Int
			switch op {
			case "ModAdd":
				m.ModAdd(out, xn, yn)
				want = mod(new(big.Int).Add(x.v, y.v))
			case "ModSub":
				m.ModSub(out, xn, yn)
				want = mod(new(big.Int).Sub(x.v, y.v))
			default:
				m.ModMul(out, xn, yn)
				want = mod(new(big.Int).Mul(x.v, y.v))
			}
			wantNat(t, what, out, want, mBig.BitLen())
		case "ModNeg":
			out := outFor(t, mode, xn, nil)
			m.ModNeg(out, xn)
			wantNat(t, what, out, mod(new(big.Int).Neg(x.v)), mBig.BitLen())
		case "ModInv":
			out := outFor(t, mode, xn, nil)
			oldV, oldAnn := out.Big(), out.AnnouncedLen()
			ok := m.ModInv(out, xn)
			g := new(big.Int).GCD(nil, nil, mod(x.v), mBig)
			if mBig.Bit(0) == 0 && eq(g, b1) && setBigDirty(oldV, oldAnn, new(big.Int).ModInverse(x.v, mBig), mBig.BitLen()) {
				vlib.Excluded(fStaleEven)
				extra = "even-modulus-dirty-output(excluded)"
				nt = false
			} else if mBig.Cmp(b1) == 0 {
				// zero ring: verdict recorded, not asserted
				extra = fmt.Sprintf("zero-ring ok=%v(recorded)", ctb(ok))
				nt = false
			} else if mode == "out=x" && mBig.Bit(0) == 1 {
				// odd moduli verify out*x = 1 AFTER out (= x) has been overwritten: the verdict is
				// wrong under this aliasing (finding: receiver written before operands are read);
				// the inverse itself is still asserted
				vlib.Excluded(fDivVarAlias)
				if eq(g, b1) {
					wantNat(t, what, out, new(big.Int).ModInverse(x.v, mBig), -1)
				}
				extra = "out=x-odd-modulus(verdict excluded)"
			} else {
				if ctb(ok) != eq(g, b1) {
					t.Fatalf("%s: ok=%v but gcd(x,m)=%s", what, ctb(ok), sh(g))
				}
				if ctb(ok) {
					wantNat(t, what, out, new(big.Int).ModInverse(x.v, mBig), -1)
				}
				extra = fmt.Sprintf("invertible=%v", ctb(ok))
			}
		case "ModDiv":
			binary = true
			out := outFor(t, mode, xn, yn)
			ok := m.ModDiv(out, xn, yn)
			g := new(big.Int).GCD(nil, nil, mod(y.v), mBig)
			if mBig.Cmp(b1) == 0 {
				extra = fmt.Sprintf("zero-ring ok=%v(recorded)", ctb(ok))
				nt = false
			} else if eq(g, b1) {
				if !ctb(ok) {
					t.Fatalf("%s: divisor is a unit but ok=0", what)
				}
				wantNat(t, what, out, mod(new(big.Int).Mul(x.v, new(big.Int).ModInverse(y.v, mBig))), -1)
				extra = "unit-divisor"
			} else if ctb(ok) {
				// DESIGN.md: `ok` => y*out = x (mod m); `!ok` => gcd != 1
				if !eq(mod(new(big.Int).Mul(y.v, out.Big())), mod(x.v)) {
					t.Fatalf("%s: ok but y*out != x (mod m): out=%s", what, full(out.Big()))
				}
				extra = "nonunit-divisor:solution"
			} else {
				extra = "nonunit-divisor:refused"
			}
		case "ModExp", "ModExpI":
			binary = true
			eMax := mBig.BitLen() + 70
			if eMax > 1200 && !vlib.Thorough() {
				eMax = 1200
			}
			e := genNatOp(t, "e", eMax, true)
			out := outFor(t, mode, xn, nil)
			if op == "ModExp" {
				en := e.nat()
				if mode == "out=y" {
					out = en
				}
				oldV, oldAnn := out.Big(), out.AnnouncedLen()
				m.ModExp(out, xn, en)
				want := new(big.Int).Exp(x.v, e.v, mBig)
				if mBig.Bit(0) == 0 && setBigDirty(oldV, oldAnn, want, mBig.BitLen()) {
					vlib.Excluded(fStaleEven)
					extra = "even-modulus-dirty-output(excluded)"
					nt = false
				} else {
					wantNat(t, what+" e="+e.String(), out, want, -1)
				}
				if out != en {
					unchanged(t, what+" [e]", en, e, 0, false)
				}
			} else {
				neg := rapid.Bool().Draw(t, "eneg") && e.v.Sign() != 0
				ev := new(big.Int).Set(e.v)
				if neg {
					ev.Neg(ev)
				}
				g := new(big.Int).GCD(nil, nil, mod(x.v), mBig)
				oldV, oldAnn := out.Big(), out.AnnouncedLen()
				if neg && !eq(g, b1) && mBig.Bit(0) == 0 {
					// no value exists (negative power of a non-unit); for even moduli the call
					// dereferences the nil result of math/big - outside the domain, not executed
					extra = "negative-exponent-of-nonunit-even(not executed)"
					nt = false
					break
				}
				m.ModExpI(out, xn, numct.NewIntFromBig(ev, e.ann))
				if neg && (!eq(g, b1) || mBig.Cmp(b1) == 0) {
					extra = "negative-exponent-of-nonunit(recorded)"
					nt = false
				} else {
					want := new(big.Int).Exp(x.v, e.v, mBig)
					if neg {
						want.ModInverse(want, mBig)
					}
					if mBig.Bit(0) == 0 && setBigDirty(oldV, oldAnn, want, mBig.BitLen()) {
						vlib.Excluded(fStaleEven)
						extra = "even-modulus-dirty-output(excluded)"
						nt = false
					} else {
						wantNat(t, what+fmt.Sprintf(" e=%s neg=%v", e, neg), out, want, -1)
						extra = fmt.Sprintf("eneg=%v", neg)
					}
				}
			}
			yRel = "exp"
		case "ModMultiBaseExp":
			k := rapid.IntRange(0, 4).Draw(t, "k")
			e := genNatOp(t, "e", min(mBig.BitLen()+10, 600), true)
			bases := make([]*numct.Nat, k)
			vals := make([]*big.Int, k)
			outs := make([]*numct.Nat, k)
			for i := range bases {
				b, _ := genOperandFor(t, fmt.Sprint("b", i), mBig, opMax)
				bases[i], vals[i], outs[i] = b.nat(), b.v, new(numct.Nat)
			}
			m.ModMultiBaseExp(outs, bases, e.nat())
			for i := range bases {
				wantNat(t, fmt.Sprintf("%s base[%d]=%s e=%s", what, i, sh(vals[i]), e), outs[i], new(big.Int).Exp(vals[i], e.v, mBig), -1)
			}
			extra = fmt.Sprint("k=", k)
			nt = nt && k > 0
		case "IsInRange":
			if ctb(m.IsInRange(xn)) != (x.v.Cmp(mBig) < 0) {
				t.Fatalf("%s: IsInRange=%v", what, ctb(m.IsInRange(xn)))
			}
		case "IsInRangeSymmetric":
			v := new(big.Int).Set(x.v)
			switch rapid.IntRange(0, 5).Draw(t, "symclass") {
			case 0:
				v = new(big.Int).Rsh(mBig, 1)
			case 1:
				v = new(big.Int).Neg(new(big.Int).Rsh(mBig, 1))
			case 2:
				v = new(big.Int).Neg(new(big.Int).Rsh(new(big.Int).Add(mBig, b1), 1))
			case 3:
				v.Neg(v)
			}
			two := new(big.Int).Lsh(v, 1)
			want := two.Cmp(new(big.Int).Neg(mBig)) >= 0 && two.Cmp(mBig) < 0
			if got := ctb(m.IsInRangeSymmetric(exactInt(v))); got != want {
				t.Fatalf("numct.Modulus(%s).IsInRangeSymmetric(%s)=%v want %v", sh(mBig), v, got, want)
			}
			extra = fmt.Sprintf("in=%v", want)
		case "IsUnit":
			g := new(big.Int).GCD(nil, nil, x.v, mBig)
			if mBig.Cmp(b1) == 0 {
				extra = "zero-ring(recorded)"
				nt = false
			} else if ctb(m.IsUnit(xn)) != eq(g, b1) {
				t.Fatalf("%s: IsUnit=%v but gcd=%s", what, ctb(m.IsUnit(xn)), sh(g))
			}
		case "Encoding":
			if m.BitLen() != mBig.BitLen() || !eq(m.Nat().Big(), mBig) || !eq(new(big.Int).SetBytes(m.Bytes()), mBig) || !eq(new(big.Int).SetBytes(m.BytesBE()), mBig) {
				t.Fatalf("%s: BitLen/Nat/Bytes disagree with the modulus", what)
			}
			pad := rapid.IntRange(0, 9).Draw(t, "pad")
			m2, ok := numct.NewModulusFromBytesBE(append(make([]byte, pad), mBig.Bytes()...))
			if !ctb(ok) || !eq(m2.Big(), mBig) || m2.BitLen() != mBig.BitLen() {
				t.Fatalf("NewModulusFromBytesBE(pad %d || %s) failed", pad, sh(mBig))
			}
			if _, ok := numct.NewModulus(numct.NewNatFromBig(b0, rapid.IntRange(0, 130).Draw(t, "zann"))); ctb(ok) {
				t.Fatalf("NewModulus(0) reported ok")
			}
			if _, ok := numct.NewModulusFromBytesBE(make([]byte, pad)); ctb(ok) {
				t.Fatalf("NewModulusFromBytesBE(zero) reported ok")
			}
			// a modulus built from a padded Nat has the true length
			m3, ok := numct.NewModulus(numct.NewNatFromBig(mBig, mBig.BitLen()+rapid.IntRange(0, 200).Draw(t, "mpad")))
			if !ctb(ok) || m3.BitLen() != mBig.BitLen() {
				t.Fatalf("NewModulus(padded %s): BitLen %d", sh(mBig), m3.BitLen())
			}
		case "SetNat":
			// a fresh modulus object re-pointed with SetNat/Set behaves like the new modulus for
			// operands that were never reduced by it (the stale-cache finding is excluded by construction)
			m2 := mustModulus(t, big.NewInt(int64(rapid.IntRange(1, 1000).Draw(t, "oldm"))))
			if rapid.Bool().Draw(t, "useSet") {
				m2.Set(m)
			} else if ok := m2.SetNat(exactNat(mBig)); !ctb(ok) {
				t.Fatalf("SetNat(%s) not ok", sh(mBig))
			}
			vlib.Excluded(fStaleReduced)
			var out numct.Nat
			m2.ModMul(&out, xn, yn)
			wantNat(t, what, &out, mod(new(big.Int).Mul(x.v, y.v)), -1)
			var z numct.Modulus
			z = *mustModulus(t, big.NewInt(5))
			if ok := z.SetNat(numct.NatZero()); ctb(ok) {
				t.Fatalf("Modulus.SetNat(0) reported ok")
			}
			binary = true
		case "Random":
			prng := vlib.NewPRNG(rapid.Uint64().Draw(t, "prngseed"), "c17/modrandom")
			r, err := m.Random(prng)
			if err != nil || r.Big().Cmp(mBig) >= 0 {
				t.Fatalf("%s: Random = %v, %v", what, r, err)
			}
		}
		// inputs that are not the output keep their value
		_ = binary
		if op != "Quo" || nt {
			if o := xn.Big(); mode != "out=x" && !eq(o, x.v) {
				t.Fatalf("%s: operand x changed to %s", what, full(o))
			}
			if o := yn.Big(); mode != "out=y" && mode != "x=y" && !eq(o, y.v) {
				t.Fatalf("%s: operand y changed to %s", what, full(o))
			}
		}
		if !eq(m.Big(), mBig) {
			t.Fatalf("%s: the modulus changed to %s", what, sh(m.Big()))
		}
		vlib.Case(test, vlib.Desc("numct.Modulus", op, mClass, sizeClass(mBig.BitLen()), xRel, yRel, mode, x.capC, extra), nt,
			"op="+op, "modulus="+mClass, "size="+sizeClass(mBig.BitLen()), "alias="+mode, "x:"+xRel, "cap="+x.capC)
		if extra != "" {
			vlib.Class(test, "note="+op+":"+extra)
		}
	})
}

// TestModSqrt: a returned root squares back (every modulus); modulo an odd prime a root is
// returned exactly when the Euler criterion is 1 (x = 0 mod p: returned => squares back only).
func TestModSqrt(t *testing.T) {
	const test = "ModSqrt"
	vlib.Check(t, 2400, func(t *rapid.T) {
		maxM, maxP := 600, 260
		fix := []int{512}
		if vlib.Thorough() {
			maxM, maxP, fix = 2100, 520, []int{512, 768, 1024}
		}
		var mBig *big.Int
		var mClass string
		if rapid.IntRange(0, 9).Draw(t, "primebias") < 6 {
			var fb []int
			if rapid.IntRange(0, 7).Draw(t, "usefixture") == 0 {
				fb = fix
			}
			p, c := genOddPrime(t, "p", maxP, fb, []string{"ord", "blum", "safe"})
			mBig, mClass = p, "m=oddprime/"+c
			if p.Bit(1) == 1 {
				mClass += "/3mod4"
			} else {
				mClass += "/1mod4"
			}
		} else {
			mBig, mClass = genModulus(t, "m", maxM)
		}
		m := mustModulus(t, mBig)
		// argument: a known square, a drawn value, zero, a non-residue candidate
		var x natOp
		var xRel, argC string
		switch rapid.IntRange(0, 4).Draw(t, "argclass") {
		case 0, 1:
			r, _ := genOperandFor(t, "r", mBig, mBig.BitLen()+70)
			sq := new(big.Int).Mul(r.v, r.v)
			if rapid.Bool().Draw(t, "reduce") {
				sq.Mod(sq, mBig)
			}
			ann, c := genAnn(t, "sq", sq.BitLen(), false)
			x, xRel, argC = mkNatOp(sq, ann, c), "square", "known-square"
		default:
			x, xRel = genOperandFor(t, "x", mBig, mBig.BitLen()*2+70)
			argC = "drawn"
		}
		aliased := rapid.IntRange(0, 3).Draw(t, "alias") == 0
		xn := x.nat()
		out := genNatOp(t, "junk", 200, false).nat()
		if aliased {
			out = xn
		}
		what := fmt.Sprintf("numct.Modulus(%s).ModSqrt(x=%s) aliased=%v", sh(mBig), x, aliased)
		var ok ct.Bool
		vlib.NoPanic(t, what, func() { ok = m.ModSqrt(out, xn) })
		xr := new(big.Int).Mod(x.v, mBig)
		if ctb(ok) {
			r := out.Big()
			if !eq(new(big.Int).Mod(new(big.Int).Mul(r, r), mBig), xr) {
				t.Fatalf("%s: returned root %s does not square back to x mod m = %s", what, full(r), full(xr))
			}
			if r.Cmp(mBig) >= 0 && mBig.Cmp(b1) > 0 {
				t.Fatalf("%s: returned root %s is not reduced", what, full(r))
			}
		}
		verdict := "n/a"
		oddPrime := mBig.Bit(0) == 1 && mBig.Cmp(b2) > 0 && mBig.ProbablyPrime(32)
		if oddPrime && xr.Sign() != 0 {
			euler := new(big.Int).Exp(xr, new(big.Int).Rsh(mBig, 1), mBig)
			isQR := eq(euler, b1)
			if ctb(ok) != isQR {
				t.Fatalf("%s: ok=%v but Euler criterion x^((p-1)/2) = %s", what, ctb(ok), sh(euler))
			}
			verdict = fmt.Sprintf("qr=%v", isQR)
		} else if oddPrime {
			verdict = fmt.Sprintf("x=0:ok=%v(recorded)", ctb(ok))
		} else {
			verdict = fmt.Sprintf("composite-or-2:ok=%v(one-directional)", ctb(ok))
		}
		if !aliased && !eq(xn.Big(), x.v) {
			t.Fatalf("%s: operand changed", what)
		}
		vlib.Case(test, vlib.Desc("ModSqrt", mClass, sizeClass(mBig.BitLen()), argC, xRel, verdict, aliased), mBig.Cmp(b2) > 0,
			"modulus="+mClass, "size="+sizeClass(mBig.BitLen()), "arg="+argC, "verdict="+verdict)
	})
}

// TestModulusReuse runs drawn sequences of operations over a small pool of Nat registers and
// three moduli against a math/big model, so that outputs are reused as later inputs (under the
// same and under other moduli). The catalogued stale-cache findings are excluded exactly: a
// register written by an even-modulus ModInv/ModExp is re-created from its value before it is
// next read under another modulus; moduli are never mutated.
func TestModulusReuse(t *testing.T) {
	const test = "ModulusReuse"
	vlib.Check(t, 3000, func(t *rapid.T) {
		const nReg, nMod = 4, 3
		var mods [nMod]*numct.Modulus
		var mb [nMod]*big.Int
		var mcs [nMod]string
		for i := range mods {
			mb[i], mcs[i] = genModulus(t, fmt.Sprint("m", i), 300)
			mods[i] = mustModulus(t, mb[i])
		}
		var regs [nReg]*numct.Nat
		var model [nReg]*big.Int
		// marker[r] = 1 + index of the modulus whose "already reduced" marker the register's Nat
		// carries (0: none); trusted[r] = the value really is below that modulus.
		var marker [nReg]int
		var trusted [nReg]bool
		for i := range regs {
			o := genNatOp(t, fmt.Sprint("r", i), 400, false)
			regs[i], model[i] = o.nat(), o.v
		}
		steps := rapid.IntRange(2, 12).Draw(t, "steps")
		trace := ""
		for s := 0; s < steps; s++ {
			op := rapid.SampledFrom([]string{"Mod", "ModAdd", "ModSub", "ModMul", "ModNeg", "ModInv", "ModExp", "ModDiv", "Add", "Mul", "Resize", "Set", "Rsh"}).Draw(t, "op")
			mi := rapid.IntRange(0, nMod-1).Draw(t, "mi")
			d := rapid.IntRange(0, nReg-1).Draw(t, "dst")
			a := rapid.IntRange(0, nReg-1).Draw(t, "a")
			b := rapid.IntRange(0, nReg-1).Draw(t, "b")
			trace += fmt.Sprintf(" %s[m%d](r%d<-r%d,r%d)", op, mi, d, a, b)
			m, mm := mods[mi], mb[mi]
			modOp := op[0] == 'M' && op != "Mul"
			if modOp {
				for _, r := range []int{a, b} {
					if marker[r] == mi+1 && !trusted[r] {
						// exactly finding C17-stale-reduced-after-even-modulus-write: the register was
						// written by an even modulus' ModInv/ModExp while carrying this modulus' marker
						vlib.Excluded(fStaleEven)
						regs[r] = numct.NewNatFromBig(model[r], regs[r].AnnouncedLen())
						marker[r] = 0
					}
				}
			}
			var want *big.Int
			okWant, okGot, hasOK := true, ct.True, false
			even := mm.Bit(0) == 0
			switch op {
			case "Mod":
				m.Mod(regs[d], regs[a])
				want = new(big.Int).Mod(model[a], mm)
			case "ModAdd":
				m.ModAdd(regs[d], regs[a], regs[b])
				want = new(big.Int).Mod(new(big.Int).Add(model[a], model[b]), mm)
			case "ModSub":
				m.ModSub(regs[d], regs[a], regs[b])
				want = new(big.Int).Mod(new(big.Int).Sub(model[a], model[b]), mm)
			case "ModMul":
				m.ModMul(regs[d], regs[a], regs[b])
				want = new(big.Int).Mod(new(big.Int).Mul(model[a], model[b]), mm)
			case "ModNeg":
				m.ModNeg(regs[d], regs[a])
				want = new(big.Int).Mod(new(big.Int).Neg(model[a]), mm)
			case "ModInv":
				hasOK = mm.Cmp(b1) > 0
				g := new(big.Int).GCD(nil, nil, new(big.Int).Mod(model[a], mm), mm)
				okWant = eq(g, b1)
				if okWant {
					want = new(big.Int).ModInverse(model[a], mm)
				}
				src := regs[a]
				if even && okWant && setBigDirty(model[d], regs[d].AnnouncedLen(), want, mm.BitLen()) {
					vlib.Excluded(fStaleEven)
					src = regs[a].Clone()
					regs[d] = new(numct.Nat)
					marker[d] = 0
				}
				if !even && d == a {
					vlib.Excluded(fDivVarAlias) // odd modulus, out = x: verdict computed from the overwritten operand
					src = regs[a].Clone()
				}
				okGot = m.ModInv(regs[d], src)
			case "ModExp":
				e := new(big.Int).And(model[b], bi(0xffff))
				want = new(big.Int).Exp(model[a], e, mm)
				src := regs[a]
				if even && setBigDirty(model[d], regs[d].AnnouncedLen(), want, mm.BitLen()) {
					vlib.Excluded(fStaleEven)
					src = regs[a].Clone()
					regs[d] = new(numct.Nat)
					marker[d] = 0
				}
				m.ModExp(regs[d], src, exactNat(e))
			case "ModDiv":
				hasOK = false
				okGot = m.ModDiv(regs[d], regs[a], regs[b])
				g := new(big.Int).GCD(nil, nil, new(big.Int).Mod(model[b], mm), mm)
				if eq(g, b1) && mm.Cmp(b1) > 0 {
					hasOK, okWant = true, true
					want = new(big.Int).Mod(new(big.Int).Mul(model[a], new(big.Int).ModInverse(model[b], mm)), mm)
				}
			case "Add":
				regs[d].Add(regs[a], regs[b])
				want = new(big.Int).Add(model[a], model[b])
			case "Mul":
				regs[d].Mul(regs[a], regs[b])
				want = new(big.Int).Mul(model[a], model[b])
			case "Resize":
				c := rapid.IntRange(0, 500).Draw(t, "cap")
				regs[d].Set(regs[a])
				regs[d].Resize(c)
				want = mod2k(model[a], c)
			case "Set":
				regs[d].Set(regs[a])
				want = new(big.Int).Set(model[a])
			case "Rsh":
				sh := uint(rapid.IntRange(0, 70).Draw(t, "sh"))
				regs[d].Rsh(regs[a], sh)
				want = new(big.Int).Rsh(model[a], sh)
			}
			what := fmt.Sprintf("moduli %s/%s/%s; sequence%s (operands before the last step: r%d=%s r%d=%s)", sh(mb[0]), sh(mb[1]), sh(mb[2]), trace, a, sh(model[a]), b, sh(model[b]))
			if hasOK && ctb(okGot) != okWant {
				t.Fatalf("%s: ok=%v want %v", what, ctb(okGot), okWant)
			}
			if want != nil && (op != "ModInv" && op != "ModDiv" || hasOK && okWant) {
				if g := regs[d].Big(); !eq(g, want) {
					t.Fatalf("%s: r%d = %s, want %s", what, d, full(g), full(want))
				}
				model[d] = want
			} else {
				// value not defined by the contract (refused inversion, zero ring, solution of a
				// non-unit division): re-synchronise the model from the register
				model[d] = regs[d].Big()
			}
			// bookkeeping of the reduction marker, following saferith
			recreate := func() {
				regs[d] = numct.NewNatFromBig(model[d], regs[d].AnnouncedLen())
				marker[d] = 0
			}
			switch op {
			case "Mod", "ModAdd", "ModSub", "ModMul", "ModNeg":
				marker[d], trusted[d] = mi+1, true
			case "ModInv", "ModExp":
				switch {
				case op == "ModInv" && !ctb(okGot):
					recreate() // refused: content not defined
				case even: // written with SetBig: the old marker of the Nat object survives
					trusted[d] = marker[d] == mi+1
				default:
					marker[d], trusted[d] = mi+1, true
				}
			case "ModDiv":
				recreate()
			case "Set", "Resize":
				marker[d], trusted[d] = marker[a], trusted[a]
				if marker[d] != 0 && limbsOf(regs[d].AnnouncedLen()) != limbsOf(mb[marker[d]-1].BitLen()) {
					// a Nat resized to another limb count than the modulus it is marked "reduced by" is
					// used as is by that modulus (ModAdd/ModSub: out-of-range limb access; ModInv: panic
					// "invert: mismatched arguments"): another entry point of the stale-marker finding;
					// the marker is dropped here
					vlib.Excluded(fStaleReduced)
					recreate()
				}
			default:
				marker[d] = 0
			}
		}
		vlib.Case(test, vlib.Desc("reuse", mcs[0], mcs[1], mcs[2], steps), steps >= 3, "steps="+fmt.Sprint(steps), "m0="+mcs[0])
	})
}
