package c17

import (
	"crypto/sha3"
	"encoding/binary"
	"fmt"
	"math/big"
	"sync"

	"pgregory.net/rapid"

	"github.com/bronlabs/bron-crypto/pkg/base/ct"
	"github.com/bronlabs/bron-crypto/pkg/base/nt/numct"
	"verif/harness/vlib"
)

// ---- identifiers of the catalogued / reported findings (see TestKnownFindings) ---------

const (
	fCapMutates   = "C17-cap-mutates-input"
	fQuoTrunc     = "C17-quo-truncated"
	fStaleReduced = "C17-stale-reduced-after-modulus-set"
	fStaleEven    = "C17-stale-reduced-after-even-modulus-write"
	fDivVarPanic  = "C17-divvartime-panics"
	fDivVarAlias  = "C17-receiver-written-before-operands-read"
)

func limbsOf(ann int) int { return (ann + 63) / 64 }

// limbNonzero reports whether |v| has a set bit in limbs [lo, hi).
func limbNonzero(v *big.Int, lo, hi int) bool {
	if hi <= lo {
		return false
	}
	x := new(big.Int).Rsh(new(big.Int).Abs(v), uint(64*lo))
	return mod2k(x, 64*(hi-lo)).Sign() != 0
}

// intAddDirty is the exact input class of finding C17-int-add-dirty-output: numct.Int.AddCap
// (and everything built on it) lays the operands out inside the output's previous limb buffer
// without clearing it, so previous output limbs above an operand's own limb count leak into the
// operand. zOld/zAnn describe the output before the call (for out = x or out = y: that operand).
func intAddDirty(zOld *big.Int, zAnn, xAnn, yAnn, cap int) bool {
	size := limbsOf(cap + 1)
	lz, lx, ly := limbsOf(zAnn), limbsOf(xAnn), limbsOf(yAnn)
	return limbNonzero(zOld, lx, min(size, lz)) || limbNonzero(zOld, size+ly, min(2*size, lz))
}

// setBigDirty is the second face of finding C17-stale-reduced-after-even-modulus-write: for even
// moduli ModInv/ModExp/ModExpI store the result with saferith's SetBig(result, BitLen(m)), which
// neither clears the Nat's reduction marker nor the limbs between the result's own limb count and
// the output's previous limb count. old/oldAnn describe the output before the call.
func setBigDirty(old *big.Int, oldAnn int, result *big.Int, size int) bool {
	return limbNonzero(mod2k(old, size), limbsOf(result.BitLen()), min(limbsOf(size), limbsOf(oldAnn)))
}

// divVarTimePanics is the input class of finding C17-divvartime-panics: the documented quotient
// length num.AnnouncedLen() - den.TrueLen() + 2 is negative. Then saferith.Div produces a Nat of
// negative announced length; at <= -64 it panics, above that the follow-up multiplication
// truncates the denominator operand in place (and numct.Int's remainder comes out wrong).
func divVarTimePanics(numAnn int, den *big.Int) bool {
	return den.Sign() != 0 && numAnn-new(big.Int).Abs(den).BitLen()+2 < 0
}

// ---- small big.Int helpers ---------------------------------------------------------------

var (
	b0 = big.NewInt(0)
	b1 = big.NewInt(1)
	b2 = big.NewInt(2)
	b3 = big.NewInt(3)
	b4 = big.NewInt(4)
)

func bi(x int64) *big.Int { return big.NewInt(x) }

func pow2(k int) *big.Int {
	if k < 0 {
		return big.NewInt(0)
	}
	return new(big.Int).Lsh(b1, uint(k))
}

// mod2k returns x mod 2^k for x >= 0 (k <= 0 gives 0).
func mod2k(x *big.Int, k int) *big.Int {
	if k <= 0 {
		return new(big.Int)
	}
	if x.Sign() < 0 {
		m := pow2(k)
		return new(big.Int).Mod(x, m)
	}
	if x.BitLen() <= k {
		return new(big.Int).Set(x)
	}
	mask := new(big.Int).Sub(pow2(k), b1)
	return new(big.Int).And(x, mask)
}

func eq(a, b *big.Int) bool { return a.Cmp(b) == 0 }

// short printable form of a big integer for failure messages and samples.
func sh(x *big.Int) string {
	s := x.Text(16)
	if len(s) <= 40 {
		return "0x" + s
	}
	return fmt.Sprintf("0x%s..%s(%db)", s[:12], s[len(s)-8:], x.BitLen())
}

// full hex (for failure messages of small operands the short form is already complete).
func full(x *big.Int) string { return "0x" + x.Text(16) }

func ctb(b ct.Bool) bool { return b == ct.True }

// expand derives n pseudo-random bytes from a drawn seed (SHAKE256); a pure function of the draw.
func expand(seed uint64, n int) []byte {
	h := sha3.NewSHAKE256()
	var b [8]byte
	binary.BigEndian.PutUint64(b[:], seed)
	_, _ = h.Write([]byte("c17-expand/"))
	_, _ = h.Write(b[:])
	out := make([]byte, n)
	_, _ = h.Read(out)
	return out
}

// ---- bit-length and value generators -----------------------------------------------------

// sizeClass buckets a bit length the way DESIGN.md names the boundary classes.
func sizeClass(bits int) string {
	switch {
	case bits == 0:
		return "0"
	case bits == 1:
		return "1"
	case bits <= 62:
		return "2-62"
	case bits <= 65:
		return "63-65"
	case bits <= 126:
		return "66-126"
	case bits <= 129:
		return "127-129"
	case bits <= 254:
		return "130-254"
	case bits <= 257:
		return "255-257"
	case bits <= 1023:
		return "258-1023"
	case bits <= 2049:
		return "1024-2049"
	default:
		return "2050+"
	}
}

func clampBits(b, maxBits int) int {
	if b > maxBits {
		return maxBits
	}
	if b < 0 {
		return 0
	}
	return b
}

// genBits draws a bit length in [0, maxBits] biased to 0, 1, 63-65, 127-129, 255-257, limb
// boundaries and 2^k +- 1.
func genBits(t *rapid.T, label string, maxBits int) int {
	switch rapid.IntRange(0, 11).Draw(t, label+".bclass") {
	case 0:
		return 0
	case 1:
		return clampBits(1, maxBits)
	case 2:
		return clampBits(rapid.IntRange(63, 65).Draw(t, label+".b"), maxBits)
	case 3:
		return clampBits(rapid.IntRange(127, 129).Draw(t, label+".b"), maxBits)
	case 4:
		return clampBits(rapid.IntRange(255, 257).Draw(t, label+".b"), maxBits)
	case 5: // limb boundary
		kmax := maxBits / 64
		if kmax < 1 {
			kmax = 1
		}
		k := rapid.IntRange(1, kmax).Draw(t, label+".limb")
		return clampBits(64*k+rapid.IntRange(-1, 1).Draw(t, label+".d"), maxBits)
	case 6: // 2^k +- 1
		e := 1
		for (1 << (e + 1)) <= maxBits {
			e++
		}
		k := rapid.IntRange(1, e).Draw(t, label+".pow")
		return clampBits((1<<k)+rapid.IntRange(-1, 1).Draw(t, label+".d"), maxBits)
	case 7, 8:
		return clampBits(rapid.IntRange(2, 62).Draw(t, label+".b"), maxBits)
	case 9:
		return clampBits(rapid.IntRange(2, 320).Draw(t, label+".b"), maxBits)
	default:
		return rapid.IntRange(0, maxBits).Draw(t, label+".b")
	}
}

// genMag draws a natural number of exactly `bits` bits (0 for bits == 0) in one of several
// shapes: random, 2^(b-1), 2^b-1, 2^(b-1)+1, sparse, 2^b-2.
func genMagOfBits(t *rapid.T, label string, bits int) (*big.Int, string) {
	if bits <= 0 {
		return new(big.Int), "zero"
	}
	switch rapid.IntRange(0, 9).Draw(t, label+".shape") {
	case 0:
		return pow2(bits - 1), "2^k"
	case 1:
		return new(big.Int).Sub(pow2(bits), b1), "2^k-1"
	case 2:
		v := new(big.Int).Add(pow2(bits-1), b1)
		if v.BitLen() != bits { // bits == 1
			v = big.NewInt(1)
		}
		return v, "2^k+1"
	case 3:
		v := pow2(bits - 1)
		n := rapid.IntRange(0, 3).Draw(t, label+".nsparse")
		for i := 0; i < n; i++ {
			v.SetBit(v, rapid.IntRange(0, bits-1).Draw(t, label+".sbit"), 1)
		}
		return v, "sparse"
	default:
		nb := (bits + 7) / 8
		var raw []byte
		if nb <= 9 {
			raw = rapid.SliceOfN(rapid.Byte(), nb, nb).Draw(t, label+".bytes")
		} else {
			raw = expand(rapid.Uint64().Draw(t, label+".seed"), nb)
		}
		v := new(big.Int).SetBytes(raw)
		v = mod2k(v, bits)
		v.SetBit(v, bits-1, 1)
		return v, "rand"
	}
}

func genMag(t *rapid.T, label string, maxBits int) (*big.Int, string) {
	return genMagOfBits(t, label, genBits(t, label, maxBits))
}

// genBelow draws a value in [0, m) with edge bias (0, 1, m-1, m/2).
func genBelow(t *rapid.T, label string, m *big.Int) *big.Int {
	if m.Sign() <= 0 {
		panic("genBelow: m <= 0")
	}
	switch rapid.IntRange(0, 9).Draw(t, label+".below") {
	case 0:
		return new(big.Int)
	case 1:
		return new(big.Int).Mod(b1, m)
	case 2:
		return new(big.Int).Sub(m, b1)
	case 3:
		return new(big.Int).Rsh(m, 1)
	default:
		v, _ := genMagOfBits(t, label, m.BitLen()+8)
		return v.Mod(v, m)
	}
}

// ---- operands with an announced capacity -----------------------------------------------------

// natOp is a natural-number operand as handed to the library: numct.NewNatFromBig(orig, ann).
// v = orig mod 2^ann is the value the library actually holds (saferith pads or truncates).
type natOp struct {
	orig *big.Int
	v    *big.Int
	ann  int
	capC string // "cap<len" | "cap=len" | "cap>len"
}

func (o natOp) nat() *numct.Nat { return numct.NewNatFromBig(o.orig, o.ann) }
func (o natOp) String() string {
	return fmt.Sprintf("{v=%s ann=%d (orig %db)}", sh(o.v), o.ann, o.orig.BitLen())
}

// genAnn draws an announced capacity for a value of true length L.
func genAnn(t *rapid.T, label string, L int, allowTrunc bool) (int, string) {
	hi := 9
	if !allowTrunc || L == 0 {
		hi = 7
	}
	switch rapid.IntRange(0, hi).Draw(t, label+".capclass") {
	case 0, 1, 2:
		return L, "cap=len"
	case 3:
		return L + 1, "cap>len"
	case 4:
		a := (L/64 + 1) * 64
		return a, "cap>len"
	case 5:
		a := ((L + 63) / 64) * 64
		if a == L {
			return L, "cap=len"
		}
		return a, "cap>len"
	case 6, 7:
		return L + rapid.IntRange(2, 300).Draw(t, label+".capextra"), "cap>len"
	default:
		var a int
		switch rapid.IntRange(0, 3).Draw(t, label+".trunc") {
		case 0:
			a = L - 1
		case 1:
			a = L / 2
		case 2:
			a = ((L - 1) / 64) * 64
		default:
			a = rapid.IntRange(0, L-1).Draw(t, label+".truncto")
		}
		return a, "cap<len"
	}
}

func mkNatOp(orig *big.Int, ann int, capC string) natOp {
	return natOp{orig: orig, v: mod2k(orig, ann), ann: ann, capC: capC}
}

func genNatOp(t *rapid.T, label string, maxBits int, allowTrunc bool) natOp {
	orig, _ := genMag(t, label, maxBits)
	ann, c := genAnn(t, label, orig.BitLen(), allowTrunc)
	return mkNatOp(orig, ann, c)
}

// exactNat wraps a value with announced length = true length.
func exactNat(v *big.Int) *numct.Nat { return numct.NewNatFromBig(v, v.BitLen()) }

// intOp is a signed operand: numct.NewIntFromBig(orig, ann): sign of orig, |orig| mod 2^ann.
type intOp struct {
	orig *big.Int
	v    *big.Int // signed effective value
	ann  int
	capC string
	negZ bool // the library holds "negative zero" (sign bit set, magnitude 0)
}

func (o intOp) int() *numct.Int { return numct.NewIntFromBig(o.orig, o.ann) }
func (o intOp) String() string {
	return fmt.Sprintf("{v=%s%s ann=%d}", map[bool]string{true: "-", false: ""}[o.v.Sign() < 0], sh(new(big.Int).Abs(o.v)), o.ann)
}

func signClass(v *big.Int) string {
	switch v.Sign() {
	case -1:
		return "neg"
	case 0:
		return "zero"
	default:
		return "pos"
	}
}

// genIntOp draws a signed operand. Truncating capacities that would leave a negative zero are
// avoided (the sign of a truncated-away magnitude is not a documented notion).
func genIntOp(t *rapid.T, label string, maxBits int, allowTrunc bool) intOp {
	mag, _ := genMag(t, label, maxBits)
	neg := rapid.IntRange(0, 9).Draw(t, label+".neg") < 5
	ann, c := genAnn(t, label, mag.BitLen(), allowTrunc)
	eff := mod2k(mag, ann)
	if neg && eff.Sign() == 0 {
		neg = false
	}
	orig := new(big.Int).Set(mag)
	if neg {
		orig.Neg(orig)
		eff.Neg(eff)
	}
	return intOp{orig: orig, v: eff, ann: ann, capC: c}
}

func exactInt(v *big.Int) *numct.Int { return numct.NewIntFromBig(v, v.BitLen()) }

// ---- explicit capacity arguments -------------------------------------------------------------

// genCapArg draws an explicit capacity argument for an operation whose exact result needs
// `need` bits: -1 (documented default), exact, larger, or smaller (result taken mod 2^cap).
func genCapArg(t *rapid.T, label string, need int) (int, string) {
	switch rapid.IntRange(0, 9).Draw(t, label+".caparg") {
	case 0, 1, 2:
		return -1, "cap=-1"
	case 3:
		return need, "cap=need"
	case 4:
		return need + 1, "cap>need"
	case 5:
		return ((need + 64) / 64) * 64, "cap>need"
	case 6:
		return need + rapid.IntRange(2, 200).Draw(t, label+".capx"), "cap>need"
	case 7:
		if need == 0 {
			return 0, "cap=need"
		}
		return rapid.IntRange(0, need-1).Draw(t, label+".capless"), "cap<need"
	case 8:
		if need <= 1 {
			return 0, "cap=0"
		}
		return need - 1, "cap<need"
	default:
		if need >= 64 {
			return ((need - 1) / 64) * 64, "cap<need"
		}
		return 0, "cap=0"
	}
}

// ---- moduli ----------------------------------------------------------------------------------

var smallPrimeList = []int64{3, 5, 7, 11, 13, 17, 19, 23, 29, 31, 37, 41, 43, 47, 53, 59, 61, 67, 71, 73, 79, 83, 89, 97, 101, 251, 257, 65537}

// nextPrime returns the smallest (probable) prime >= x, computed with math/big only.
func nextPrime(x *big.Int) *big.Int {
	p := new(big.Int).Set(x)
	if p.Cmp(b2) <= 0 {
		return big.NewInt(2)
	}
	if p.Bit(0) == 0 {
		p.Add(p, b1)
	}
	for !p.ProbablyPrime(24) {
		p.Add(p, b2)
	}
	return p
}

// nextPrimeOfForm: smallest prime >= x with p = 3 mod 4 (blum) or p and (p-1)/2 prime (safe).
func nextPrimeOfForm(x *big.Int, kind string) *big.Int {
	p := nextPrime(x)
	for {
		switch kind {
		case "blum":
			if p.Bit(0) == 1 && p.Bit(1) == 1 {
				return p
			}
		case "safe":
			if p.Cmp(bi(5)) >= 0 && new(big.Int).Rsh(p, 1).ProbablyPrime(24) {
				return p
			}
		default:
			return p
		}
		p = nextPrime(new(big.Int).Add(p, b1))
	}
}

var (
	fixMu    sync.Mutex
	fixCache = map[string][]*big.Int{}
)

func fixturePrimes(bits int, kind string) []*big.Int {
	fixMu.Lock()
	defer fixMu.Unlock()
	k := fmt.Sprint(bits, kind)
	if v, ok := fixCache[k]; ok {
		return v
	}
	v := vlib.Primes(bits, kind)
	fixCache[k] = v
	return v
}

// genOddPrime draws an odd prime: a tiny one from a table, next-prime of a drawn number of up to
// maxSmallBits bits (math/big only), or - when fixtureBits is non-empty - an openssl fixture.
func genOddPrime(t *rapid.T, label string, maxSmallBits int, fixtureBits []int, kinds []string) (*big.Int, string) {
	hi := 9
	if len(fixtureBits) == 0 {
		hi = 6
	}
	kind := "ord"
	if len(kinds) > 0 {
		kind = rapid.SampledFrom(kinds).Draw(t, label+".kind")
	}
	switch c := rapid.IntRange(0, hi).Draw(t, label+".pclass"); {
	case c <= 1 && kind == "ord":
		return big.NewInt(rapid.SampledFrom(smallPrimeList).Draw(t, label+".tiny")), "tiny/" + kind
	case c <= 6:
		if kind == "safe" && maxSmallBits > 40 {
			maxSmallBits = 40 // next-safe-prime searches are quadratic in the length
		}
		bits := rapid.IntRange(3, maxSmallBits).Draw(t, label+".pbits")
		switch rapid.IntRange(0, 5).Draw(t, label+".pb") {
		case 0:
			bits = clampBits(rapid.IntRange(63, 65).Draw(t, label+".pbb"), maxSmallBits)
		case 1:
			bits = clampBits(rapid.IntRange(127, 129).Draw(t, label+".pbb"), maxSmallBits)
		}
		if bits < 3 {
			bits = 3
		}
		x, _ := genMagOfBits(t, label+".px", bits)
		p := nextPrimeOfForm(x, kind)
		return p, "drawn/" + kind
	default:
		bits := rapid.SampledFrom(fixtureBits).Draw(t, label+".fbits")
		list := fixturePrimes(bits, kind)
		if len(list) == 0 {
			t.Fatalf("no fixture primes for %d/%s", bits, kind)
		}
		return list[rapid.IntRange(0, len(list)-1).Draw(t, label+".fidx")], fmt.Sprintf("fixture%d/%s", bits, kind)
	}
}

// genModulus draws a modulus m >= 1 with a class label: 1, 2, 2^k, even composite, odd prime,
// odd composite (incl. prime squares and products of two primes).
func genModulus(t *rapid.T, label string, maxBits int) (*big.Int, string) {
	switch rapid.IntRange(0, 13).Draw(t, label+".mclass") {
	case 0:
		return big.NewInt(1), "m=1"
	case 1:
		return big.NewInt(2), "m=2"
	case 2:
		k := genBits(t, label+".k", maxBits-1)
		if k < 2 {
			k = 2
		}
		return pow2(k), "m=2^k"
	case 3, 4:
		v, _ := genMag(t, label+".even", maxBits)
		v.SetBit(v, 0, 0)
		if v.Cmp(b4) < 0 {
			v = big.NewInt(6)
		}
		if v.ProbablyPrime(8) { // cannot be: even > 2
			v.Add(v, b2)
		}
		if new(big.Int).And(v, new(big.Int).Sub(v, b1)).Sign() == 0 {
			return v, "m=2^k"
		}
		return v, "m=even"
	case 5, 6, 7:
		mb := maxBits
		if mb > 520 {
			mb = 520
		}
		p, _ := genOddPrime(t, label+".p", mb, nil, nil)
		return p, "m=oddprime"
	case 8:
		mb := maxBits / 2
		if mb > 260 {
			mb = 260
		}
		if mb < 3 {
			mb = 3
		}
		p, _ := genOddPrime(t, label+".p", mb, nil, nil)
		return new(big.Int).Mul(p, p), "m=p^2"
	case 9:
		mb := maxBits / 2
		if mb > 260 {
			mb = 260
		}
		if mb < 3 {
			mb = 3
		}
		p, _ := genOddPrime(t, label+".p", mb, nil, nil)
		q, _ := genOddPrime(t, label+".q", mb, nil, nil)
		if eq(p, q) {
			return new(big.Int).Mul(p, p), "m=p^2"
		}
		return new(big.Int).Mul(p, q), "m=pq"
	default:
		v, _ := genMag(t, label+".odd", maxBits)
		v.SetBit(v, 0, 1)
		if v.Cmp(b1) == 0 {
			return big.NewInt(9), "m=oddcomposite"
		}
		if v.ProbablyPrime(16) {
			return v, "m=oddprime"
		}
		return v, "m=oddcomposite"
	}
}

func mustModulus(t *rapid.T, m *big.Int) *numct.Modulus {
	mod, ok := numct.NewModulus(exactNat(m))
	if !ctb(ok) {
		t.Fatalf("numct.NewModulus(%s) reported failure", sh(m))
	}
	if !eq(mod.Big(), m) {
		t.Fatalf("numct.NewModulus(%s).Big() = %s", sh(m), sh(mod.Big()))
	}
	return mod
}

// genOperandFor draws an operand for arithmetic modulo m: reduced, = m, slightly above, or much
// larger than m ("operands >= modulus").
func genOperandFor(t *rapid.T, label string, m *big.Int, maxBits int) (natOp, string) {
	var v *big.Int
	var cls string
	switch rapid.IntRange(0, 9).Draw(t, label+".rel") {
	case 0, 1, 2, 3:
		v, cls = genBelow(t, label, m), "x<m"
	case 4:
		v, cls = new(big.Int).Set(m), "x=m"
	case 5:
		v, cls = new(big.Int).Add(m, genBelow(t, label, m)), "x>=m"
	case 6:
		k := rapid.IntRange(1, 5).Draw(t, label+".mult")
		v, cls = new(big.Int).Add(new(big.Int).Mul(m, bi(int64(k))), genBelow(t, label, m)), "x>=m"
	default:
		v, _ = genMag(t, label+".big", maxBits)
		if v.Cmp(m) >= 0 {
			cls = "x>=m"
		} else {
			cls = "x<m"
		}
	}
	ann, c := genAnn(t, label, v.BitLen(), false)
	return mkNatOp(v, ann, c), cls
}

// sampleEvery stores a few written-out cases per kind.
func sample(kind string, kv ...any) {
	m := map[string]any{}
	for i := 0; i+1 < len(kv); i += 2 {
		m[fmt.Sprint(kv[i])] = fmt.Sprint(kv[i+1])
	}
	vlib.Sample(kind, m)
}

// thorough-tier widening of operand sizes.
func maxBitsCheap() int {
	if vlib.Thorough() {
		return 8192
	}
	return 4096
}

func maxBitsExpensive() int {
	if vlib.Thorough() {
		return 4096
	}
	return 2048
}
