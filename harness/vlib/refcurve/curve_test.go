package refcurve

import (
	"bytes"
	"crypto/ecdh"
	stded25519 "crypto/ed25519"
	"crypto/elliptic"
	"crypto/sha512"
	"math/big"
	"os"
	"syscall"
	"testing"
	"time"
)

// --- constants -----------------------------------------------------------------------------------

func TestConstantsBasic(t *testing.T) {
	for _, c := range All() {
		if !c.P.ProbablyPrime(32) {
			t.Errorf("%s: p not prime", c.Name)
		}
		if !c.N.ProbablyPrime(32) {
			t.Errorf("%s: N not prime", c.Name)
		}
		if c.ByteLen != (c.P.BitLen()+7)/8 {
			t.Errorf("%s: ByteLen", c.Name)
		}
		if !c.IsOnCurve(c.G) || c.IsNeutral(c.G) {
			t.Errorf("%s: generator not a non-neutral curve point", c.Name)
		}
		if !c.IsOnCurve(c.Neutral()) || !c.IsNeutral(c.Neutral()) {
			t.Errorf("%s: neutral element", c.Name)
		}
		if !c.IsNeutral(c.ScalarMul(c.G, c.N)) || !c.IsNeutral(c.ScalarMulProjective(c.G, c.N)) {
			t.Errorf("%s: [N]G != neutral", c.Name)
		}
		if !c.IsInPrimeSubgroup(c.G) {
			t.Errorf("%s: IsInPrimeSubgroup(G)", c.Name)
		}
		// Hasse: |q + 1 − H·N| ≤ 2·sqrt(q), q = p or p².
		q := new(big.Int).Set(c.P)
		if c.Kind == WeierstrassFp2 {
			q.Mul(q, q)
		}
		tr := new(big.Int).Add(q, bigOne)
		tr.Sub(tr, c.GroupOrder())
		if new(big.Int).Mul(tr, tr).Cmp(new(big.Int).Lsh(q, 2)) > 0 {
			t.Errorf("%s: H·N violates the Hasse bound", c.Name)
		}
		// N is prime and N > 4·sqrt(q)/H … for H = 1 this together with [N]G = 0 pins #E = N:
		// the only multiple of N in the Hasse interval is N itself when N > 4 sqrt(q).
		if c.H.Cmp(bigOne) == 0 {
			if new(big.Int).Mul(c.N, c.N).Cmp(new(big.Int).Lsh(q, 4)) <= 0 {
				t.Errorf("%s: N too small for the uniqueness argument", c.Name)
			}
		}
		// Arbitrary points of E are killed by H·N (and, for H > 1, some are not killed by N).
		killedByN := 0
		for s := uint64(2); s < 8; s++ {
			p := c.SearchPoint(s * 1000)
			if !c.IsOnCurve(p) {
				t.Fatalf("%s: SearchPoint off curve", c.Name)
			}
			if !c.IsNeutral(c.ScalarMul(p, c.GroupOrder())) {
				t.Errorf("%s: [H·N]P != neutral for P from x=%d", c.Name, s*1000)
			}
			if c.IsInPrimeSubgroup(p) {
				killedByN++
			}
		}
		if c.H.Cmp(bigOne) == 0 && killedByN != 6 {
			t.Errorf("%s: cofactor 1 but a point is outside the subgroup", c.Name)
		}
		if c.H.Cmp(big.NewInt(8)) > 0 && killedByN != 0 {
			t.Errorf("%s: huge cofactor but a random point is in the subgroup", c.Name)
		}
	}
}

func TestConstantsCrossChecks(t *testing.T) {
	// Names and lookups.
	if ByName("pallas") != Pallas() || ByName("nope") != nil {
		t.Error("ByName")
	}
	// Special form of the primes (typed independently of the hex strings).
	two := func(k uint) *big.Int { return new(big.Int).Lsh(bigOne, k) }
	sum := func(vs ...*big.Int) *big.Int {
		r := new(big.Int)
		for _, v := range vs {
			r.Add(r, v)
		}
		return r
	}
	neg := func(v *big.Int) *big.Int { return new(big.Int).Neg(v) }
	// secp256k1: p = 2^256 − 2^32 − 977
	if K256().P.Cmp(sum(two(256), neg(two(32)), big.NewInt(-977))) != 0 {
		t.Error("k256 p")
	}
	// P-256: p = 2^256 − 2^224 + 2^192 + 2^96 − 1
	if P256().P.Cmp(sum(two(256), neg(two(224)), two(192), two(96), big.NewInt(-1))) != 0 {
		t.Error("p256 p")
	}
	// Pasta: p = 2^254 + t_p, both primes ≡ 1 mod 2^32; 2-cycle.
	for _, c := range []*Curve{Pallas(), Vesta()} {
		if c.P.BitLen() != 255 || new(big.Int).Mod(new(big.Int).Sub(c.P, bigOne), two(32)).Sign() != 0 {
			t.Errorf("%s: prime shape", c.Name)
		}
		// 5 is a non-residue ⇒ no point with x = 0; generator (−1, 2)
		if LegendreFp(big.NewInt(5), c.P) != -1 {
			t.Errorf("%s: 5 should be a non-residue", c.Name)
		}
	}
	if Pallas().N.Cmp(Vesta().P) != 0 || Vesta().N.Cmp(Pallas().P) != 0 {
		t.Error("pasta cycle")
	}
	if Pallas().P.Cmp(sum(two(254), decInt("45560315531419706090280762371685220353"))) != 0 {
		t.Error("pallas p decimal form")
	}
	if Vesta().P.Cmp(sum(two(254), decInt("45560315531506369815346746415080538113"))) != 0 {
		t.Error("vesta p decimal form")
	}

	// edwards25519 (RFC 8032 §5.1 decimal constants).
	ed := Ed25519()
	if ed.D.Cmp(decInt("37095705934669439343138083508754565189542113879843219016388785533085940283555")) != 0 {
		t.Error("ed25519 d")
	}
	if ed.G.X.Cmp(decInt("15112221349535400772501151409588531511454012693041857206046113283949847762202")) != 0 ||
		ed.G.Y.Cmp(decInt("46316835694926478169428394003475163141307993866256225615783033603165251855960")) != 0 {
		t.Error("ed25519 base point")
	}
	if ed.N.Cmp(hexInt("1000000000000000000000000000000014def9dea2f79cd65812631a5cf5d3ed")) != 0 {
		t.Error("ed25519 L")
	}
	if hexOf(EncodeEd25519(ed.G)) != "5866666666666666666666666666666666666666666666666666666666666666" {
		t.Error("ed25519 base point encoding")
	}
	// curve25519: same group order; (A − 2)/4 = 121665; A² − 4 is a non-residue (only one 2-torsion point).
	mo := Curve25519()
	if mo.GroupOrder().Cmp(ed.GroupOrder()) != 0 {
		t.Error("curve25519 order")
	}
	if LegendreFp(new(big.Int).Sub(new(big.Int).Mul(mo.A, mo.A), big.NewInt(4)), mo.P) != -1 {
		t.Error("curve25519: A²−4 should be a non-residue")
	}
	if !mo.Equal(EdwardsToMontgomery(ed.G), mo.G) {
		t.Error("birational map does not send base point to base point")
	}
	s := SqrtMinus486664()
	if mulP(s, s, mo.P).Cmp(negP(big.NewInt(486664), mo.P)) != 0 {
		t.Error("sqrt(-486664)")
	}

	// BLS12-381 family identities with z = −0xd201000000010000:
	// r = z⁴ − z² + 1, p = (z−1)²·r/3 + z, h1 = (z−1)²/3, #E(Fp) = p + 1 − (z + 1),
	// h2 = (z⁸ − 4z⁷ + 5z⁶ − 4z⁴ + 6z³ − 4z² − 4z + 13)/9.
	z := neg(hexInt("d201000000010000"))
	pw := func(k int64) *big.Int { return new(big.Int).Exp(z, big.NewInt(k), nil) }
	mulI := func(k int64, v *big.Int) *big.Int { return new(big.Int).Mul(big.NewInt(k), v) }
	r := sum(pw(4), neg(pw(2)), bigOne)
	zm1sq := new(big.Int).Mul(sum(z, big.NewInt(-1)), sum(z, big.NewInt(-1)))
	h1, rem := new(big.Int).QuoRem(zm1sq, bigThree, new(big.Int))
	if rem.Sign() != 0 {
		t.Error("bls: (z-1)^2 not divisible by 3")
	}
	p := sum(new(big.Int).Mul(h1, r), z)
	g1, g2 := BLS12381G1(), BLS12381G2()
	if g1.N.Cmp(r) != 0 || g2.N.Cmp(r) != 0 {
		t.Error("bls r")
	}
	if g1.P.Cmp(p) != 0 {
		t.Error("bls p")
	}
	if g1.H.Cmp(h1) != 0 {
		t.Error("bls h1")
	}
	if g1.GroupOrder().Cmp(sum(p, bigOne, neg(sum(z, bigOne)))) != 0 {
		t.Error("bls #E(Fp) != p + 1 − t")
	}
	h2num := sum(pw(8), mulI(-4, pw(7)), mulI(5, pw(6)), mulI(-4, pw(4)), mulI(6, pw(3)), mulI(-4, pw(2)), mulI(-4, z), big.NewInt(13))
	h2, rem := new(big.Int).QuoRem(h2num, big.NewInt(9), new(big.Int))
	if rem.Sign() != 0 || g2.H.Cmp(h2) != 0 {
		t.Error("bls h2")
	}
	// well-known compressed generators (ZCash format)
	if hexOf(g1.EncodeZcash(g1.G, true))[:16] != "97f1d3a73197d794" {
		t.Error("bls g1 compressed generator prefix")
	}
	if hexOf(g2.EncodeZcash(g2.G, true))[:16] != "93e02b6052719f60" {
		t.Error("bls g2 compressed generator prefix")
	}
}

// --- square roots and F_p² -----------------------------------------------------------------------

func TestSqrtFp(t *testing.T) {
	d := newDRBG("sqrt")
	for _, c := range All() {
		p := c.P
		squares := 0
		vals := []*big.Int{big.NewInt(0), big.NewInt(1), new(big.Int).Sub(p, bigOne), big.NewInt(2), big.NewInt(4)}
		for i := 0; i < 60; i++ {
			vals = append(vals, d.below(p))
		}
		for _, a := range vals {
			r, ok := SqrtFp(a, p)
			j := big.Jacobi(a, p)
			if LegendreFp(a, p) != j {
				t.Fatalf("%s: Legendre(%v) disagrees with big.Jacobi", c.Name, a)
			}
			if ok != (j >= 0) {
				t.Fatalf("%s: SqrtFp(%v) ok=%v but Jacobi=%d", c.Name, a, ok, j)
			}
			if !ok {
				continue
			}
			squares++
			if mulP(r, r, p).Cmp(a) != 0 {
				t.Fatalf("%s: SqrtFp(%v)² != a", c.Name, a)
			}
			if r.Cmp(new(big.Int).Sub(p, r)) > 0 && r.Sign() != 0 {
				t.Fatalf("%s: SqrtFp did not return the smaller root", c.Name)
			}
			w := new(big.Int).ModSqrt(a, p)
			if w.Cmp(r) != 0 && new(big.Int).Sub(p, w).Cmp(r) != 0 {
				t.Fatalf("%s: SqrtFp disagrees with big.ModSqrt", c.Name)
			}
		}
		if squares < 20 || squares > 50 {
			t.Errorf("%s: implausible number of squares %d/65", c.Name, squares)
		}
	}
}

func TestFp2(t *testing.T) {
	d := newDRBG("fp2")
	p := BLS12381G1().P
	u := Fp2FromInt64(0, 1)
	if !u.Square().Equal(Fp2FromInt64(-1, 0)) {
		t.Fatal("u² != −1")
	}
	one := Fp2FromInt64(1, 0)
	// exponent (p²−1)/2 for the Euler criterion in F_p²
	e := new(big.Int).Mul(p, p)
	e.Sub(e, bigOne).Rsh(e, 1)
	pow := func(x Fp2, e *big.Int) Fp2 {
		r := one
		for i := e.BitLen() - 1; i >= 0; i-- {
			r = r.Square()
			if e.Bit(i) == 1 {
				r = r.Mul(x)
			}
		}
		return r
	}
	squares := 0
	for i := 0; i < 40; i++ {
		a, b, c := d.fp2(p), d.fp2(p), d.fp2(p)
		if i == 0 {
			a = Fp2{A: d.below(p), B: new(big.Int)} // real element
		}
		if i == 1 {
			a = Fp2{A: new(big.Int), B: d.below(p)} // purely imaginary
		}
		if !a.Add(b).Equal(b.Add(a)) || !a.Mul(b).Equal(b.Mul(a)) {
			t.Fatal("commutativity")
		}
		if !a.Mul(b.Add(c)).Equal(a.Mul(b).Add(a.Mul(c))) {
			t.Fatal("distributivity")
		}
		if !a.Mul(b).Mul(c).Equal(a.Mul(b.Mul(c))) {
			t.Fatal("associativity")
		}
		if !a.Sub(b).Add(b).Equal(a) || !a.Add(a.Neg()).IsZero() {
			t.Fatal("sub/neg")
		}
		ai, ok := a.Inv()
		if !ok || !a.Mul(ai).Equal(one) {
			t.Fatal("inverse")
		}
		// norm via conjugate is in F_p
		if n := a.Mul(a.Conj()); n.B.Sign() != 0 {
			t.Fatal("norm not in Fp")
		}
		// sqrt of a square returns ±a and the non-largest root
		s, ok := a.Square().Sqrt()
		if !ok || !(s.Equal(a) || s.Equal(a.Neg())) || s.IsLargest() {
			t.Fatalf("sqrt(a²) wrong: %v", s)
		}
		if a.IsLargest() == a.Neg().IsLargest() {
			t.Fatal("IsLargest must separate a and −a")
		}
		// Euler criterion as independent witness for squareness
		_, isSq := a.Sqrt()
		if isSq != pow(a, e).Equal(one) {
			t.Fatalf("Sqrt ok=%v disagrees with a^((p²−1)/2)", isSq)
		}
		if isSq {
			squares++
		}
	}
	if squares < 8 || squares > 32 {
		t.Errorf("implausible number of squares %d/40", squares)
	}
	if _, ok := (Fp2{}).Inv(); ok {
		t.Error("Inv(0) must fail")
	}
	if z, ok := (Fp2{}).Sqrt(); !ok || !z.IsZero() {
		t.Error("Sqrt(0)")
	}
	// ordering: u-coefficient dominates
	half := new(big.Int).Rsh(p, 1) // (p−1)/2
	big1 := new(big.Int).Add(half, bigOne)
	if (Fp2{A: big1, B: bigOne}).IsLargest() || !(Fp2{A: bigOne, B: big1}).IsLargest() || !(Fp2{A: big1, B: bigZero}).IsLargest() {
		t.Error("lexicographic order")
	}
	if IsLargestFp(half, p) || !IsLargestFp(big1, p) {
		t.Error("IsLargestFp boundary")
	}
}

// --- group laws and the fast scalar multiplication ---------------------------------------------------

func TestGroupLaws(t *testing.T) {
	d := newDRBG("laws")
	for _, c := range All() {
		iters := 4
		if c.Kind == WeierstrassFp2 {
			iters = 2
		}
		for i := 0; i < iters; i++ {
			p, q, r := d.randPoint(c), d.randPoint(c), d.randPoint(c)
			for _, x := range []Point{p, q, r} {
				if !c.IsOnCurve(x) {
					t.Fatalf("%s: random point off curve", c.Name)
				}
			}
			pq := c.Add(p, q)
			if !c.IsOnCurve(pq) || !c.Equal(pq, c.Add(q, p)) {
				t.Fatalf("%s: closure/commutativity", c.Name)
			}
			if !c.Equal(c.Add(pq, r), c.Add(p, c.Add(q, r))) {
				t.Fatalf("%s: associativity", c.Name)
			}
			if !c.IsNeutral(c.Add(p, c.Neg(p))) || !c.Equal(c.Add(p, c.Neutral()), p) || !c.Equal(c.Add(c.Neutral(), p), p) {
				t.Fatalf("%s: inverse/neutral", c.Name)
			}
			if !c.Equal(c.Double(p), c.ScalarMul(p, bigTwo)) || !c.Equal(c.Sub(pq, q), p) {
				t.Fatalf("%s: double/sub", c.Name)
			}
			a, b := d.below(c.N), d.below(c.N)
			if !c.Equal(c.ScalarMul(c.ScalarMul(p, a), b), c.ScalarMul(p, new(big.Int).Mul(a, b))) {
				t.Fatalf("%s: [b][a]P != [ab]P", c.Name)
			}
			if !c.Equal(c.Add(c.ScalarMul(p, a), c.ScalarMul(p, b)), c.ScalarMul(p, new(big.Int).Add(a, b))) {
				t.Fatalf("%s: [a]P+[b]P != [a+b]P", c.Name)
			}
			if !c.Equal(c.ScalarMul(pq, a), c.Add(c.ScalarMul(p, a), c.ScalarMul(q, a))) {
				t.Fatalf("%s: [a](P+Q) != [a]P+[a]Q", c.Name)
			}
			if !c.Equal(c.MultiScalarMul([]Point{p, q}, []*big.Int{a, b}), c.Add(c.ScalarMul(p, a), c.ScalarMul(q, b))) {
				t.Fatalf("%s: MSM", c.Name)
			}
			if c.Equal(p, q) && !c.IsNeutral(c.Sub(p, q)) {
				t.Fatalf("%s: Equal", c.Name)
			}
		}
		if !c.IsNeutral(c.Double(c.Neutral())) || !c.IsNeutral(c.Neg(c.Neutral())) {
			t.Fatalf("%s: neutral double/neg", c.Name)
		}
	}
}

func TestScalarMulAffineEqualsProjective(t *testing.T) {
	d := newDRBG("fast")
	for _, c := range All() {
		n := c.N
		edge := []*big.Int{
			big.NewInt(0), big.NewInt(1), big.NewInt(2), big.NewInt(3), big.NewInt(4), big.NewInt(5), big.NewInt(7), big.NewInt(8), big.NewInt(9),
			big.NewInt(-1), big.NewInt(-2), big.NewInt(-5),
			new(big.Int).Sub(n, bigTwo), new(big.Int).Sub(n, bigOne), n, new(big.Int).Add(n, bigOne), new(big.Int).Add(n, bigTwo),
			new(big.Int).Lsh(n, 1), new(big.Int).Add(new(big.Int).Lsh(n, 1), bigOne), new(big.Int).Neg(n),
			new(big.Int).Lsh(bigOne, 64), new(big.Int).Lsh(bigOne, 255), c.H, c.GroupOrder(),
			new(big.Int).Sub(new(big.Int).Lsh(bigOne, 300), bigOne),
		}
		pts := []Point{c.G, c.Neutral(), d.randPoint(c)}
		if cp, ok := c.CofactorPoint(5); ok {
			pts = append(pts, cp)
			m, _ := c.PointOutsideSubgroup(77)
			pts = append(pts, m)
		}
		if c == BLS12381G1() {
			// (0, 2) is a point of order 3 on y² = x³ + 4: exercises P + P = −P, P + 2P = Inf in the ladder.
			o3 := c.NewPoint(big.NewInt(0), big.NewInt(2))
			if c.PointOrder(o3, 5) != 3 {
				t.Fatalf("(0,2) should have order 3 on BLS12-381 E(Fp)")
			}
			pts = append(pts, o3)
		}
		if c == Ed25519() || c == Curve25519() {
			so, _ := c.SmallOrderPoints()
			pts = append(pts, so...)
		}
		for pi, p := range pts {
			ks := edge
			if pi > 3 || (c.Kind == WeierstrassFp2 && pi > 1) {
				ks = edge[:16] // special points: small, negative and near-N scalars only
			}
			for _, k := range ks {
				a, b := c.ScalarMul(p, k), c.ScalarMulProjective(p, k)
				if !c.Equal(a, b) || !c.IsOnCurve(a) {
					t.Fatalf("%s: ScalarMul != ScalarMulProjective for point #%d, k=%v: %v vs %v", c.Name, pi, k, a, b)
				}
			}
		}
		iters := 6
		if c.Kind == WeierstrassFp2 {
			iters = 2
		}
		for i := 0; i < iters; i++ {
			p, k := d.randPoint(c), d.below(new(big.Int).Lsh(bigOne, uint(1+d.intn(320))))
			if !c.Equal(c.ScalarMul(p, k), c.ScalarMulProjective(p, k)) {
				t.Fatalf("%s: ScalarMul != ScalarMulProjective for random k=%v", c.Name, k)
			}
		}
		// small multiples by repeated addition
		acc := c.Neutral()
		for k := int64(0); k < 20; k++ {
			if !c.Equal(acc, c.ScalarMul(c.G, big.NewInt(k))) {
				t.Fatalf("%s: [%d]G by repeated addition", c.Name, k)
			}
			acc = c.Add(acc, c.G)
		}
	}
}

// --- independent witnesses from the standard library -------------------------------------------------

func TestP256AgainstStdlib(t *testing.T) {
	d := newDRBG("p256")
	c := P256()
	std := elliptic.P256()
	sp := std.Params()
	if sp.P.Cmp(c.P) != 0 || sp.N.Cmp(c.N) != 0 || sp.B.Cmp(c.B) != 0 || sp.Gx.Cmp(c.G.X) != 0 || sp.Gy.Cmp(c.G.Y) != 0 {
		t.Fatal("P-256 parameters differ from crypto/elliptic")
	}
	for i := 0; i < 60; i++ {
		k := d.below(c.N)
		if i == 0 {
			k = big.NewInt(1)
		}
		if i == 1 {
			k = new(big.Int).Sub(c.N, bigOne)
		}
		if k.Sign() == 0 {
			continue
		}
		kb := k.FillBytes(make([]byte, 32))
		// crypto/ecdh: [k]G
		sk, err := ecdh.P256().NewPrivateKey(kb)
		if err != nil {
			t.Fatal(err)
		}
		kg := c.ScalarBaseMul(k)
		if !bytes.Equal(sk.PublicKey().Bytes(), c.EncodeSEC1(kg, false)) {
			t.Fatalf("[k]G differs from crypto/ecdh for k=%v", k)
		}
		// crypto/ecdh: x([k]Q) for a second point Q = [j]G
		j := new(big.Int).Add(d.below(new(big.Int).Sub(c.N, bigOne)), bigOne)
		q := c.ScalarBaseMul(j)
		pub, err := ecdh.P256().NewPublicKey(c.EncodeSEC1(q, false))
		if err != nil {
			t.Fatal(err)
		}
		shared, err := sk.ECDH(pub)
		if err != nil {
			t.Fatal(err)
		}
		kq := c.ScalarMul(q, k)
		if !bytes.Equal(shared, intToBE(kq.X, 32)) {
			t.Fatalf("x([k]Q) differs from crypto/ecdh")
		}
		// crypto/elliptic (deprecated but independent): Add, Double, ScalarMult, compressed encoding
		ax, ay := std.Add(kg.X, kg.Y, q.X, q.Y)
		if s := c.Add(kg, q); s.X.Cmp(ax) != 0 || s.Y.Cmp(ay) != 0 {
			t.Fatalf("Add differs from crypto/elliptic")
		}
		dx, dy := std.Double(q.X, q.Y)
		if s := c.Double(q); s.X.Cmp(dx) != 0 || s.Y.Cmp(dy) != 0 {
			t.Fatalf("Double differs from crypto/elliptic")
		}
		if !bytes.Equal(elliptic.MarshalCompressed(std, q.X, q.Y), c.EncodeSEC1(q, true)) {
			t.Fatalf("compressed SEC1 differs from crypto/elliptic")
		}
		ux, uy := elliptic.UnmarshalCompressed(std, c.EncodeSEC1(q, true))
		if ux == nil || ux.Cmp(q.X) != 0 || uy.Cmp(q.Y) != 0 {
			t.Fatalf("crypto/elliptic cannot decode our compressed encoding")
		}
		if !std.IsOnCurve(q.X, q.Y) {
			t.Fatal("crypto/elliptic says off curve")
		}
	}
	// points with x = 0 exist on P-256 (b is a square): check the model builds them
	p0, ok := c.LiftX(big.NewInt(0), false)
	if !ok || !c.IsOnCurve(p0) || p0.X.Sign() != 0 || !std.IsOnCurve(p0.X, p0.Y) {
		t.Fatal("P-256 point with x = 0")
	}
}

func TestX25519AgainstStdlibAndRFC7748(t *testing.T) {
	d := newDRBG("x25519")
	// RFC 7748 §5.2 vectors
	out, _ := X25519(unhex(t, "a546e36bf0527c9d3b16154b82465edd62144c0ac1fc5a18506a2244ba449ac4"),
		unhex(t, "e6db6867583030db3594c1a424b15f7c726624ec26b3353b10a903a6d0ab1c4c"))
	if hexOf(out) != "c3da55379de9c6908e94ea4df28d084f32eccf03491c71f754b4075577a28552" {
		t.Fatalf("RFC 7748 vector 1: %x", out)
	}
	// second vector has bit 255 of u set (must be masked)
	out, _ = X25519(unhex(t, "4b66e9d4d1b4673c5ad22691957d6af5c11b6421e0ea01d42ca4169e7918ba0d"),
		unhex(t, "e5210f12786811d3f4b7959d0538ae2c31dbe7106fc03c3efc4cd549c715a493"))
	if hexOf(out) != "95cbde9476e8907d7aade45cb4b873f88b595a68799fa152e6f8f7647aac7957" {
		t.Fatalf("RFC 7748 vector 2: %x", out)
	}
	// iterated vector, first iteration (the 1000-iteration value is checked only with REFCURVE_LONG=1)
	k := unhex(t, "0900000000000000000000000000000000000000000000000000000000000000")
	u := append([]byte(nil), k...)
	iters := 1
	if os.Getenv("REFCURVE_LONG") != "" {
		iters = 1000
	}
	for i := 1; i <= iters; i++ {
		r, _ := X25519(k, u)
		u, k = k, r
		if i == 1 && hexOf(k) != "422c8e7a6227d7bca1350b3e2bb7279f7897b87bb6854b783c60e80311ae3079" {
			t.Fatalf("RFC 7748 iteration 1: %x", k)
		}
	}
	if iters == 1000 && hexOf(k) != "684cf59ba83309552800ef566f2f4d3c1c3887c49360e3875f2eb94d99532c51" {
		t.Fatalf("RFC 7748 iteration 1000: %x", k)
	}
	// crypto/ecdh
	nine := EncodeU(big.NewInt(9))
	mo := Curve25519()
	for i := 0; i < 25; i++ {
		sk := d.bytes(32)
		priv, err := ecdh.X25519().NewPrivateKey(sk)
		if err != nil {
			t.Fatal(err)
		}
		pub, _ := X25519(sk, nine)
		if !bytes.Equal(pub, priv.PublicKey().Bytes()) {
			t.Fatalf("X25519 public key differs from crypto/ecdh")
		}
		peer := d.bytes(32) // arbitrary u (curve or twist, possibly non-canonical)
		pk, err := ecdh.X25519().NewPublicKey(peer)
		if err != nil {
			t.Fatal(err)
		}
		want, err := priv.ECDH(pk)
		got, _ := X25519(sk, peer)
		if err != nil {
			// crypto/ecdh rejects the all-zero output (low-order peer)
			if !bytes.Equal(got, make([]byte, 32)) {
				t.Fatalf("crypto/ecdh rejected but model output is non-zero")
			}
			continue
		}
		if !bytes.Equal(got, want) {
			t.Fatalf("X25519 shared secret differs from crypto/ecdh")
		}
		// ladder ≡ affine Montgomery arithmetic on curve points (any order)
		p := d.randPoint(mo)
		kk := d.below(new(big.Int).Lsh(bigOne, 256))
		q := mo.ScalarMul(p, kk)
		lu := X25519Ladder(kk, p.X, 256)
		if q.Inf {
			if lu.Sign() != 0 {
				t.Fatal("ladder: infinity must give 0")
			}
		} else if lu.Cmp(q.X) != 0 {
			t.Fatalf("ladder differs from affine Montgomery scalar multiplication")
		}
	}
	// low-order inputs give 0 after clamping
	so, _ := mo.SmallOrderPoints()
	for _, p := range so {
		if p.Inf {
			continue
		}
		out, _ := X25519(d.bytes(32), EncodeU(p.X))
		if !bytes.Equal(out, make([]byte, 32)) {
			t.Fatalf("X25519 on small-order u=%v should be zero", p.X)
		}
	}
}

func TestEd25519AgainstStdlib(t *testing.T) {
	d := newDRBG("ed25519")
	c := Ed25519()
	// RFC 8032 §7.1 TEST 1
	seeds := [][]byte{unhex(t, "9d61b19deffd5a60ba844af492ec2cc44449c5697b326919703bac031cae7f60")}
	for i := 0; i < 30; i++ {
		seeds = append(seeds, d.bytes(32))
	}
	for i, seed := range seeds {
		h := sha512.Sum512(seed)
		a := X25519Clamp(h[:32]) // RFC 8032 clamping is the same bit fiddling as RFC 7748
		pk := EncodeEd25519(c.ScalarBaseMul(a))
		want := stded25519.NewKeyFromSeed(seed).Public().(stded25519.PublicKey)
		if !bytes.Equal(pk, want) {
			t.Fatalf("ed25519 public key differs from crypto/ed25519 for seed %x", seed)
		}
		if i == 0 && hexOf(pk) != "d75a980182b10ab7d54bfed3c964073a0ee172f3daa62325af021a68f707511a" {
			t.Fatalf("RFC 8032 test 1 public key: %x", pk)
		}
		// and the X25519 public key of the same scalar is the birational image
		mpk, _ := X25519(h[:32], EncodeU(big.NewInt(9)))
		if !bytes.Equal(mpk, EncodeU(EdwardsToMontgomery(c.ScalarBaseMul(a)).X)) {
			t.Fatalf("edwards→montgomery of [a]B differs from X25519(a, 9)")
		}
	}
}

func TestBirationalMap(t *testing.T) {
	d := newDRBG("birational")
	ed, mo := Ed25519(), Curve25519()
	pts, _ := ed.SmallOrderPoints()
	for i := 0; i < 20; i++ {
		pts = append(pts, d.randPoint(ed))
	}
	for _, p := range pts {
		m := EdwardsToMontgomery(p)
		if !mo.IsOnCurve(m) {
			t.Fatalf("image of %v off curve", p)
		}
		if !ed.Equal(MontgomeryToEdwards(m), p) {
			t.Fatalf("round trip of %v", p)
		}
		for _, q := range pts {
			if !mo.Equal(EdwardsToMontgomery(ed.Add(p, q)), mo.Add(m, EdwardsToMontgomery(q))) {
				t.Fatalf("not a homomorphism at %v, %v", p, q)
			}
		}
		k := d.below(ed.GroupOrder())
		if !mo.Equal(EdwardsToMontgomery(ed.ScalarMul(p, k)), mo.ScalarMul(m, k)) {
			t.Fatalf("scalar multiplication does not commute with the map")
		}
	}
	if !EdwardsToMontgomery(ed.Neutral()).Inf || !ed.IsNeutral(MontgomeryToEdwards(Infinity())) {
		t.Fatal("neutral elements")
	}
	o2 := EdwardsToMontgomery(ed.NewPoint(big.NewInt(0), big.NewInt(-1)))
	if o2.Inf || o2.X.Sign() != 0 || o2.Y.Sign() != 0 {
		t.Fatal("order-2 point")
	}
}

// --- timing (informational; printed with -v) ------------------------------------------------------------

// cpuNow returns the CPU time (user+sys) consumed by the process so far: unlike wall time it
// is meaningful on a machine shared with other jobs.
func cpuNow() time.Duration {
	var ru syscall.Rusage
	syscall.Getrusage(syscall.RUSAGE_SELF, &ru)
	return time.Duration(ru.Utime.Nano() + ru.Stime.Nano())
}

func TestTimingReport(t *testing.T) {
	d := newDRBG("timing")
	// minimum over 5 batches: robust against interference from other jobs
	measure := func(n int, f func()) time.Duration {
		f()
		best := time.Duration(1 << 62)
		for b := 0; b < 5; b++ {
			t0 := cpuNow()
			for i := 0; i < n; i++ {
				f()
			}
			if dt := (cpuNow() - t0) / time.Duration(n); dt < best {
				best = dt
			}
		}
		return best
	}
	// warm-up: let the heap reach its steady-state size first (first-touch page faults are very
	// expensive on some virtual machines and would be charged to the first curve measured)
	for i := 0; i < 60; i++ {
		P256().ScalarBaseMul(d.below(P256().N))
	}
	for _, c := range All() {
		p := d.randPoint(c)
		k := d.below(c.N)
		n := 8
		if c.Kind == WeierstrassFp2 {
			n = 3
		}
		aff := measure(n, func() { c.ScalarMul(p, k) })
		proj := measure(n, func() { c.ScalarMulProjective(p, k) })
		add := measure(400, func() { c.Add(p, c.G) })
		dbl := measure(400, func() { c.Double(p) })
		t.Logf("%-14s CPU per op: ScalarMul(affine) %8v   ScalarMulProjective %8v   Add %8v   Double %8v", c.Name, aff, proj, add, dbl)
	}
	k := d.below(Curve25519().N)
	t.Logf("%-14s CPU per op: ladder %8v", "X25519", measure(8, func() { X25519Ladder(k, big.NewInt(9), 255) }))
}

func BenchmarkScalarMul(b *testing.B) {
	d := newDRBG("bench")
	for _, c := range All() {
		p, k := d.randPoint(c), d.below(c.N)
		b.Run(c.Name, func(b *testing.B) {
			for i := 0; i < b.N; i++ {
				c.ScalarMul(p, k)
			}
		})
	}
}
