package refcurve
