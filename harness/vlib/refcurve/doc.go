// Package refcurve is an independent arbitrary-precision (math/big) reference model of every
// elliptic curve the library under test supports. It is the oracle for the properties C13
// (encodings), C14 (arithmetic), C15 (independent signature verification) and C19 (hash-to-curve
// lands in the prime-order subgroup).
//
// It imports nothing from github.com/bronlabs/bron-crypto: all constants are typed in from the
// standards (SEC 2, FIPS 186, RFC 7748, RFC 8032, the Pasta and BLS12-381 specifications) and are
// cross-checked by the package's own tests (`go test ./vlib/refcurve`, no build tags needed)
// against mathematical identities, crypto/elliptic, crypto/ecdh, crypto/ecdsa, crypto/ed25519
// and published test vectors. Conversions between library objects and model objects are NOT
// here; harness packages build model points from coordinate byte strings (FromAffineBytesBE …)
// and compare encodings.
//
// Everything is written for obviousness, not speed: affine textbook formulas, one modular
// inversion per group operation, ≈ 1.5–2.5 ms CPU per 256-bit scalar multiplication (≈ 5 ms on
// BLS12-381 G2). The code is allocation-heavy (≈ 1 MB per scalar multiplication); when many
// test processes share a machine, run them with a small GOMAXPROCS and/or GOGC=400 so that
// the garbage collector's worker threads do not dominate.
//
// Values are immutable: no function modifies the big.Ints reachable from its arguments,
// results may share big.Ints with arguments and with curve constants, and callers must not
// modify any *big.Int obtained from this package. All functions are safe for concurrent use.
//
// # Curves
//
//	K256() P256() Pallas() Vesta()    y² = x³ + A·x + B over F_p           Kind WeierstrassFp, H = 1
//	PallasMina() VestaMina()          the same two curves with Mina's generator (1, √6) — what the
//	                                  library under test uses as its pasta generators
//	BLS12381G1()                      y² = x³ + 4 over F_p                 Kind WeierstrassFp, H = 0x396c…aaab
//	BLS12381G2()                      y² = x³ + 4(1+u) over F_p²           Kind WeierstrassFp2
//	Ed25519()                         −x² + y² = 1 + d·x²·y²               Kind TwistedEdwards, H = 8
//	Curve25519()                      v² = u³ + 486662·u² + u              Kind Montgomery (full (u,v) points), H = 8
//	All() []*Curve (without the Mina variants), ByName(name) *Curve
//
// A curve with another generator can be made by a shallow copy: cc := *refcurve.Pallas(); cc.G = …
// (no per-curve caches depend on G).
//
//	type Curve struct{ Name; Kind; P; A, B, A1, B1, D; N (prime subgroup order); H (cofactor); G; ByteLen }
//	(c) Order() N, Cofactor() H, Generator() G, GroupOrder() H·N
//
// # Points
//
//	type Point struct{ X, Y *big.Int; X1, Y1 *big.Int (u-coefficients over F_p², else nil); Inf bool }
//
// The neutral element is Inf on Weierstrass and Montgomery curves and the affine point (0, 1) on
// edwards25519 (Inf is never set there). On curve25519 the point (0, 0) is the point of order 2.
//
//	Infinity() Point; (c) Neutral() Point; (c) IsNeutral(p) bool
//	(c) NewPoint(x, y) / NewPointFp2(x, y Fp2)                unchecked construction (coordinates reduced)
//	(c) FromAffine(x, y) / FromAffineFp2(x, y Fp2)            checked: coordinates < p (ErrRange), on curve (ErrNotOnCurve)
//	(c) FromAffineBytesBE(x, y) / FromAffineBytesLE / FromAffineBytesBEFp2(xA, xB, yA, yB []byte)
//	(c) AffineBytesBE(p) / AffineBytesLE(p) (x, y []byte)     fixed width ByteLen
//	(p) XFp2() / YFp2() Fp2
//
// # Group operations (any point of E, not only the prime-order subgroup)
//
//	(c) IsOnCurve(p) bool; Equal(p, q) bool; Neg(p); Add(p, q) (complete); Double(p); Sub(p, q)
//	(c) ScalarMul(p, k) — naive affine double-and-add; k any integer, negative = [|k|](−p), never reduced
//	(c) ScalarMulProjective(p, k) — same function by Jacobian / projective formulas (second opinion)
//	(c) ScalarBaseMul(k); MultiScalarMul(ps, ks)
//	(c) IsInPrimeSubgroup(p) = [N]p neutral; IsSmallOrder(p) = [H]p neutral; PointOrder(p, bound) int
//
// # Solving the curve equation
//
//	SqrtFp(a, p) (root, ok) — Tonelli–Shanks, smaller root; LegendreFp(a, p) int; IsLargestFp(y, p) bool
//	SqrtFp2(x Fp2) (Fp2, ok)
//	(c) LiftX(x, oddY) (Point, ok)              Weierstrass over F_p, Montgomery (u ↦ v)
//	(c) LiftXLargest(x Fp2, largestY) (Point, ok) Weierstrass over F_p / F_p², ZCash ordering of the roots
//	(c) LiftY(y, oddX) (Point, ok)              twisted Edwards
//
// # F_p² (BLS12-381 only): Fp2{A, B} = A + B·u, u² = −1
//
//	NewFp2(a, b); Fp2FromInt64(a, b); (x) Add Sub Mul Square Neg Conj Reduce; Inv() (Fp2, ok); Sqrt() (Fp2, ok)
//	(x) Equal IsZero IsLargest (ZCash lexicographic order: u-coefficient first) Sgn0 (RFC 9380)
//
// # Special points for negative tests
//
//	(c) SearchPoint(start) Point                  first point with abscissa ≥ start (arbitrary point of E)
//	(c) PointOutsideSubgroup(start) (Point, ok)   [N]P ≠ neutral — e.g. E(F_p)∖G1, E'(F_p²)∖G2; ok=false if H = 1
//	(c) CofactorPoint(start) (Point, ok)          non-neutral point killed by H
//	(c) SmallOrderPoints() ([]Point, orders)      the 8 torsion points of edwards25519 / curve25519, constructed
//	(c) MixedOrderPoint(k, j) Point               [k]G + SmallOrderPoints()[j]
//	(c) TwistX(start) *big.Int / TwistXFp2(start) Fp2   abscissa with no point ("x with no y")
//
// # Encodings (each written from its specification)
//
// Decoders return (Point, Issue, error). error: the bytes denote no point (ErrLength, ErrFlags,
// ErrNotOnCurve). Issue ≠ 0: a lenient decoder would obtain the returned point but the input is
// not its canonical encoding (IssueRange: coordinate ≥ p, reduced; IssueFlags: an information-free
// flag/sign bit is set). Issue == 0 ⇔ re-encoding reproduces the input. Decoders never check
// subgroup membership.
//
//	(c) EncodeSEC1(p, compressed) / DecodeSEC1(b)       SEC 1 §2.3.3–4: 00 | 02/03‖X | 04‖X‖Y (F_p Weierstrass curves)
//	(c) EncodePasta(p, compressed) / DecodePasta(b)     pasta_curves crate: 32 B LE x + parity in bit 255, zeros = identity; 64 B x‖y
//	EncodeEd25519(p) / DecodeEd25519(b)                 RFC 8032 §5.1.2–3
//	EncodeU(u) / DecodeU(b) (u, Issue)                  RFC 7748 §5 u-coordinate
//	(c) EncodeZcash(p, compressed) / DecodeZcash(b)     ZCash BLS12-381: 48/96 B (G1), 96/192 B (G2), three flag bits
//
// # X25519
//
//	X25519(k, u []byte) ([]byte, error); X25519Ladder(k, u, bits) *big.Int; X25519Clamp(k) *big.Int
//	EdwardsToMontgomery(p) / MontgomeryToEdwards(p) Point; SqrtMinus486664()
//
// # Signatures
//
//	(c) TruncateDigest(digest) e; ECDSAVerify(Q, digest, r, s) bool; ECDSAVerifyE(Q, e, r, s) bool
//	(c) ECDSASign(d, digest, k) (r, s, v, ok); ECDSARecover(digest, r, s, v) (Point, ok); IsLowS(s) bool
//	(c) SchnorrEquation(s, R, e, P) bool                [s]G == R + [e]P
//	TaggedHash(tag, parts...); BIP340LiftX(x); BIP340Challenge(rx, px, msg); BIP340Verify(pk, msg, sig) bool
//	BIP340PubKey(sk) ([]byte, ok); BIP340Sign(sk, msg, aux) ([]byte, ok)
//
// # RFC 9380
//
//	ExpandMessageXMD(hashNew, msg, dst, n); ExpandMessageXOF(newXOF, k, msg, dst, n); ExpandMessageSHAKE128/256(msg, dst, n)
//	HashToField(expand, msg, dst, p, m, L, count); HashToFieldXMD(hashNew, msg, dst, p, m, L, count) [][]*big.Int
//	Sgn0Fp(x, p); (c) MapToCurveSSWU(Z, u) Point; P256SSWUZ()
//	HashToCurveP256(msg, dst) (P, u[2], Q[2], err); EncodeToCurveP256(msg, dst) (P, err)
package refcurve
