package refcurve

import (
	"bytes"
	"math/big"
	"testing"
)

type codec struct {
	name string
	c    *Curve
	enc  func(Point) []byte
	dec  func([]byte) (Point, Issue, error)
}

// reencode encodes q with the codec's format family in the form (compressed/uncompressed)
// whose length matches n; nil if no form has that length.
func (cd codec) reencode(q Point, n int) []byte {
	for _, other := range allCodecs() {
		if other.c == cd.c && family(other.name) == family(cd.name) {
			if e := other.enc(q); len(e) == n {
				return e
			}
		}
	}
	return nil
}

// family: "secp256k1/sec1-compressed" → "secp256k1/sec1"
func family(name string) string {
	for i := len(name) - 1; i >= 0; i-- {
		if name[i] == '-' {
			return name[:i]
		}
		if name[i] == '/' {
			break
		}
	}
	return name
}

func allCodecs() []codec {
	var cs []codec
	for _, c := range []*Curve{K256(), P256(), Pallas(), Vesta(), BLS12381G1()} {
		c := c
		cs = append(cs,
			codec{c.Name + "/sec1-compressed", c, func(p Point) []byte { return c.EncodeSEC1(p, true) }, c.DecodeSEC1},
			codec{c.Name + "/sec1-uncompressed", c, func(p Point) []byte { return c.EncodeSEC1(p, false) }, c.DecodeSEC1})
	}
	for _, c := range []*Curve{Pallas(), Vesta()} {
		c := c
		cs = append(cs,
			codec{c.Name + "/pasta-compressed", c, func(p Point) []byte { return c.EncodePasta(p, true) }, c.DecodePasta},
			codec{c.Name + "/pasta-uncompressed", c, func(p Point) []byte { return c.EncodePasta(p, false) }, c.DecodePasta})
	}
	for _, c := range []*Curve{BLS12381G1(), BLS12381G2()} {
		c := c
		cs = append(cs,
			codec{c.Name + "/zcash-compressed", c, func(p Point) []byte { return c.EncodeZcash(p, true) }, c.DecodeZcash},
			codec{c.Name + "/zcash-uncompressed", c, func(p Point) []byte { return c.EncodeZcash(p, false) }, c.DecodeZcash})
	}
	cs = append(cs, codec{"edwards25519/rfc8032", Ed25519(), EncodeEd25519, DecodeEd25519})
	return cs
}

// Round trip, injectivity, and the defining property of Issue:
// decode(b) succeeds with Issue 0  ⇔  b == encode(decode(b)).
func TestEncodingsRoundTripAndCanonicity(t *testing.T) {
	d := newDRBG("enc")
	for _, cd := range allCodecs() {
		c := cd.c
		pts := []Point{c.Neutral(), c.G, c.Neg(c.G), c.Double(c.G)}
		n := 5
		if c.Kind == WeierstrassFp2 {
			n = 2
		}
		for i := 0; i < n; i++ {
			pts = append(pts, d.randPoint(c))
		}
		if c == P256() {
			p0, _ := c.LiftX(big.NewInt(0), true)
			pts = append(pts, p0, c.Neg(p0))
		}
		if c == Ed25519() {
			so, _ := c.SmallOrderPoints()
			pts = append(pts, so...)
		}
		seen := map[string]Point{}
		canon, noncanon, rejected := 0, 0, 0
		for _, p := range pts {
			b := cd.enc(p)
			q, iss, err := cd.dec(b)
			if err != nil || iss != 0 || !c.Equal(p, q) || !c.IsOnCurve(q) {
				t.Fatalf("%s: round trip of %v: %v issue=%v err=%v", cd.name, p, q, iss, err)
			}
			if prev, dup := seen[string(b)]; dup && !c.Equal(prev, p) {
				t.Fatalf("%s: two points share an encoding", cd.name)
			}
			seen[string(b)] = p
			// mutations: every single-bit flip of the first and last byte, some random flips,
			// truncation, extension
			var muts [][]byte
			for bit := 0; bit < 8; bit++ {
				m := append([]byte(nil), b...)
				m[0] ^= 1 << bit
				muts = append(muts, m)
				m = append([]byte(nil), b...)
				m[len(m)-1] ^= 1 << bit
				muts = append(muts, m)
			}
			for i := 0; i < 6; i++ {
				m := append([]byte(nil), b...)
				m[d.intn(len(m))] ^= 1 << d.intn(8)
				muts = append(muts, m)
			}
			muts = append(muts, b[:len(b)-1], append(append([]byte(nil), b...), 0), nil, bytes.Repeat([]byte{0xff}, len(b)), make([]byte, len(b)))
			for _, m := range muts {
				q, iss, err := cd.dec(m)
				if err != nil {
					rejected++
					continue
				}
				if !c.IsOnCurve(q) {
					t.Fatalf("%s: decoder returned an off-curve point for %x", cd.name, m)
				}
				re := cd.reencode(q, len(m))
				same := re != nil && bytes.Equal(re, m)
				if (iss == 0) != same {
					t.Fatalf("%s: input %x decodes with issue=%v but re-encoding equal=%v (%x)", cd.name, m, iss, same, re)
				}
				if iss == 0 {
					canon++
				} else {
					noncanon++
				}
			}
		}
		if rejected == 0 {
			t.Errorf("%s: no mutation was rejected", cd.name)
		}
		t.Logf("%-34s mutations: canonical %d, non-canonical %d, rejected %d", cd.name, canon, noncanon, rejected)
	}
}

func TestSEC1Details(t *testing.T) {
	c := K256()
	// well-known compressed generator of secp256k1
	if hexOf(c.EncodeSEC1(c.G, true)) != "0279be667ef9dcbbac55a06295ce870b07029bfcdb2dce28d959f2815b16f81798" {
		t.Fatal("k256 compressed G")
	}
	if !bytes.Equal(c.EncodeSEC1(Infinity(), true), []byte{0}) || !bytes.Equal(c.EncodeSEC1(Infinity(), false), []byte{0}) {
		t.Fatal("SEC1 infinity")
	}
	for _, tc := range []struct {
		in  []byte
		err error
	}{
		{nil, ErrLength},
		{[]byte{0, 0}, ErrLength},
		{[]byte{2}, ErrLength},
		{append([]byte{4}, make([]byte, 32)...), ErrLength},
		{append([]byte{5}, make([]byte, 32)...), ErrFlags},
		{append([]byte{6}, make([]byte, 64)...), ErrFlags},
		{append([]byte{1}, make([]byte, 32)...), ErrFlags},
		{append([]byte{2}, make([]byte, 32)...), ErrNotOnCurve}, // x = 0 is not on secp256k1
		{append([]byte{3}, make([]byte, 32)...), ErrNotOnCurve},
		{append([]byte{4}, make([]byte, 64)...), ErrNotOnCurve},
	} {
		if _, _, err := c.DecodeSEC1(tc.in); err != tc.err {
			t.Errorf("DecodeSEC1(%x): err=%v want %v", tc.in, err, tc.err)
		}
	}
	// x ≥ p: find a point with x < 2^256 − p so that x + p still fits in 32 bytes
	slack := new(big.Int).Sub(new(big.Int).Lsh(bigOne, 256), c.P)
	var p Point
	for x := big.NewInt(1); x.Cmp(slack) < 0; x.Add(x, bigOne) {
		if q, ok := c.LiftX(x, true); ok {
			p = q
			break
		}
	}
	for _, compressed := range []bool{true, false} {
		b := c.EncodeSEC1(p, compressed)
		copy(b[1:33], intToBE(new(big.Int).Add(p.X, c.P), 32))
		q, iss, err := c.DecodeSEC1(b)
		if err != nil || iss != IssueRange || !c.Equal(p, q) {
			t.Errorf("x+p (compressed=%v): %v %v %v", compressed, q, iss, err)
		}
	}
	// twist abscissa is rejected
	tx := c.TwistX(1)
	if _, _, err := c.DecodeSEC1(append([]byte{2}, intToBE(tx, 32)...)); err != ErrNotOnCurve {
		t.Errorf("twist x accepted")
	}
	// P-256: the two points with x = 0 have distinct compressed encodings, neither of them 00
	c = P256()
	p0, _ := c.LiftX(big.NewInt(0), false)
	e0, e1 := c.EncodeSEC1(p0, true), c.EncodeSEC1(c.Neg(p0), true)
	if e0[0] != 2 || e1[0] != 3 || !bytes.Equal(e0[1:], make([]byte, 32)) || !bytes.Equal(e1[1:], make([]byte, 32)) {
		t.Errorf("P-256 x=0 encodings: %x %x", e0, e1)
	}
}

func TestPastaDetails(t *testing.T) {
	for _, c := range []*Curve{Pallas(), Vesta()} {
		// generator (−1, 2): x = p − 1 little-endian, y even ⇒ top bit clear
		b := c.EncodePasta(c.G, true)
		if !bytes.Equal(b, intToLE(new(big.Int).Sub(c.P, bigOne), 32)) {
			t.Errorf("%s: generator encoding %x", c.Name, b)
		}
		nb := c.EncodePasta(c.Neg(c.G), true)
		if nb[31] != b[31]|0x80 {
			t.Errorf("%s: −G must set bit 255", c.Name)
		}
		if !bytes.Equal(c.EncodePasta(Infinity(), true), make([]byte, 32)) {
			t.Errorf("%s: identity", c.Name)
		}
		// sign bit set with x = 0: there is no point with x = 0
		z := make([]byte, 32)
		z[31] = 0x80
		if _, _, err := c.DecodePasta(z); err != ErrNotOnCurve {
			t.Errorf("%s: 0x80.. must be rejected", c.Name)
		}
		// x = p (unreduced zero)
		if _, iss, err := c.DecodePasta(intToLE(c.P, 32)); err == nil || iss != IssueRange {
			t.Errorf("%s: x = p: issue=%v err=%v", c.Name, iss, err)
		}
		if _, _, err := c.DecodePasta(make([]byte, 33)); err != ErrLength {
			t.Errorf("%s: length", c.Name)
		}
		// SEC1 and pasta forms carry the same information
		p := c.ScalarBaseMul(big.NewInt(12345))
		s := c.EncodeSEC1(p, true)
		q := c.EncodePasta(p, true)
		x := append([]byte(nil), q...)
		x[31] &= 0x7f
		reverse(x)
		if !bytes.Equal(s[1:], x) || (s[0] == 3) != (q[31]&0x80 != 0) {
			t.Errorf("%s: SEC1 vs pasta", c.Name)
		}
	}
}

func TestEd25519EncodingDetails(t *testing.T) {
	c := Ed25519()
	p := c.P
	// neutral = 01 00…; order-2 point (0, −1) = ec ff … 7f
	if hexOf(EncodeEd25519(c.Neutral())) != "0100000000000000000000000000000000000000000000000000000000000000" {
		t.Fatal("neutral encoding")
	}
	if hexOf(EncodeEd25519(c.NewPoint(big.NewInt(0), big.NewInt(-1)))) != "ecffffffffffffffffffffffffffffffffffffffffffffffffffffffffffff7f" {
		t.Fatal("order-2 encoding")
	}
	// the eight small-order encodings as published (e.g. in the libsodium / "Taming the many EdDSAs" lists)
	want := map[string]int{
		"0100000000000000000000000000000000000000000000000000000000000000": 1,
		"ecffffffffffffffffffffffffffffffffffffffffffffffffffffffffffff7f": 2,
		"0000000000000000000000000000000000000000000000000000000000000000": 4,
		"0000000000000000000000000000000000000000000000000000000000000080": 4,
		"26e8958fc2b227b045c3f489f2ef98f0d5dfac05d3c63339b13802886d53fc05": 8,
		"26e8958fc2b227b045c3f489f2ef98f0d5dfac05d3c63339b13802886d53fc85": 8,
		"c7176a703d4dd84fba3c0b760d10670f2a2053fa2c39ccc64ec7fd7792ac037a": 8,
		"c7176a703d4dd84fba3c0b760d10670f2a2053fa2c39ccc64ec7fd7792ac03fa": 8,
	}
	pts, orders := c.SmallOrderPoints()
	if len(pts) != 8 {
		t.Fatal("need 8 small-order points")
	}
	for i, q := range pts {
		e := hexOf(EncodeEd25519(q))
		if want[e] != orders[i] {
			t.Errorf("small-order point %v (order %d) has unexpected encoding %s", q, orders[i], e)
		}
		delete(want, e)
	}
	if len(want) != 0 {
		t.Errorf("published small-order encodings not produced: %v", want)
	}
	// non-canonical: y = p + 1 (neutral), y = p (x = ±sqrt(-1), order 4), sign bit with x = 0
	b := intToLE(new(big.Int).Add(p, bigOne), 32)
	if q, iss, err := DecodeEd25519(b); err != nil || iss != IssueRange || !c.IsNeutral(q) {
		t.Errorf("y = p+1: %v %v %v", q, iss, err)
	}
	b = intToLE(p, 32)
	if q, iss, err := DecodeEd25519(b); err != nil || iss != IssueRange || q.Y.Sign() != 0 {
		t.Errorf("y = p: %v %v %v", q, iss, err)
	}
	b = EncodeEd25519(c.Neutral())
	b[31] |= 0x80
	if q, iss, err := DecodeEd25519(b); err != nil || iss != IssueFlags || !c.IsNeutral(q) {
		t.Errorf("neutral with sign bit: %v %v %v", q, iss, err)
	}
	// y with no x
	ty := c.TwistX(2)
	if _, _, err := DecodeEd25519(intToLE(ty, 32)); err != ErrNotOnCurve {
		t.Errorf("y=%v should have no x", ty)
	}
	if _, _, err := DecodeEd25519(make([]byte, 31)); err != ErrLength {
		t.Error("length")
	}
	// u-coordinates
	u, iss := DecodeU(bytes.Repeat([]byte{0xff}, 32))
	if iss != IssueFlags|IssueRange || u.Cmp(big.NewInt(18)) != 0 {
		t.Errorf("DecodeU(ff..): %v %v", u, iss)
	}
	if u, iss := DecodeU(EncodeU(big.NewInt(9))); iss != 0 || u.Int64() != 9 {
		t.Error("DecodeU(9)")
	}
}

func TestZcashDetails(t *testing.T) {
	g1, g2 := BLS12381G1(), BLS12381G2()
	// full well-known compressed generators
	if hexOf(g1.EncodeZcash(g1.G, true)) != "97f1d3a73197d7942695638c4fa9ac0fc3688c4f9774b905a14e3a3f171bac586c55e83ff97a1aeffb3af00adb22c6bb" {
		t.Error("G1 generator")
	}
	if hexOf(g2.EncodeZcash(g2.G, true)) != "93e02b6052719f607dacd3a088274f65596bd0d09920b61ab5da61bbdc7f5049334cf11213945d57e5ac7d055d042b7e"+
		"024aa2b2f08f0a91260805272dc51051c6e47ad4fa403b02b4510b647ae3d1770bac0326a805bbefd48056c8c121bdb8" {
		t.Error("G2 generator")
	}
	for _, c := range []*Curve{g1, g2} {
		cl := 48
		if c == g2 {
			cl = 96
		}
		inf := c.EncodeZcash(Infinity(), true)
		if inf[0] != 0xc0 || !bytes.Equal(inf[1:], make([]byte, cl-1)) {
			t.Errorf("%s: compressed infinity", c.Name)
		}
		infU := c.EncodeZcash(Infinity(), false)
		if infU[0] != 0x40 || len(infU) != 2*cl {
			t.Errorf("%s: uncompressed infinity", c.Name)
		}
		// −G has the sort flag iff G does not
		a, b := c.EncodeZcash(c.G, true), c.EncodeZcash(c.Neg(c.G), true)
		if a[0]^b[0] != 0x20 || !bytes.Equal(a[1:], b[1:]) {
			t.Errorf("%s: sort flag", c.Name)
		}
		// flag errors
		m := append([]byte(nil), a...)
		m[0] &^= 0x80
		if _, _, err := c.DecodeZcash(m); err != ErrFlags {
			t.Errorf("%s: compressed length without compression flag must be ErrFlags", c.Name)
		}
		un := c.EncodeZcash(c.G, false)
		m = append([]byte(nil), un...)
		m[0] |= 0x80
		if _, _, err := c.DecodeZcash(m); err != ErrFlags {
			t.Errorf("%s: uncompressed length with compression flag must be ErrFlags", c.Name)
		}
		m = append([]byte(nil), un...)
		m[0] |= 0x20
		if q, iss, err := c.DecodeZcash(m); err != nil || iss != IssueFlags || !c.Equal(q, c.G) {
			t.Errorf("%s: sort flag on uncompressed", c.Name)
		}
		m = append([]byte(nil), inf...)
		m[0] |= 0x20
		if q, iss, err := c.DecodeZcash(m); err != nil || iss != IssueFlags || !q.Inf {
			t.Errorf("%s: infinity+sort", c.Name)
		}
		m = append([]byte(nil), inf...)
		m[cl-1] = 1
		if q, iss, err := c.DecodeZcash(m); err != nil || iss != IssueFlags || !q.Inf {
			t.Errorf("%s: infinity with payload", c.Name)
		}
		for _, n := range []int{0, 1, cl - 1, cl + 1, 2*cl - 1, 2*cl + 1} {
			if _, _, err := c.DecodeZcash(make([]byte, n)); err != ErrLength {
				t.Errorf("%s: length %d", c.Name, n)
			}
		}
		// decoders do not check the subgroup: an out-of-subgroup point round-trips
		o, _ := c.PointOutsideSubgroup(3)
		q, iss, err := c.DecodeZcash(c.EncodeZcash(o, true))
		if err != nil || iss != 0 || !c.Equal(o, q) || c.IsInPrimeSubgroup(q) {
			t.Errorf("%s: out-of-subgroup round trip", c.Name)
		}
		// x + p still fits below 2^381 for small x: non-canonical range
		slack := new(big.Int).Sub(new(big.Int).Lsh(bigOne, 381), c.P)
		if slack.Sign() <= 0 {
			t.Fatal("p ≥ 2^381?")
		}
		var small Point
		if c == g1 {
			small = c.SearchPoint(1)
		} else {
			small = c.SearchPoint(1) // x = t + (t+1)u, tiny coefficients
		}
		e := c.EncodeZcash(small, true)
		// add p to the last 48-byte coordinate chunk (c0 for G2, x for G1)
		off := cl - 48
		v := new(big.Int).SetBytes(e[off:cl])
		if off == 0 {
			tmp := append([]byte(nil), e[:48]...)
			tmp[0] &= 0x1f
			v = new(big.Int).SetBytes(tmp)
		}
		v.Add(v, c.P)
		if v.Cmp(new(big.Int).Lsh(bigOne, 381)) >= 0 {
			t.Fatalf("%s: x+p does not fit", c.Name)
		}
		flags := e[0] & 0xe0
		copy(e[off:cl], intToBE(v, 48))
		e[0] |= flags
		q, iss, err = c.DecodeZcash(e)
		if err != nil || iss != IssueRange || !c.Equal(q, small) {
			t.Errorf("%s: x+p: %v %v %v", c.Name, q, iss, err)
		}
	}
	// (0, 2) on E(Fp): compressed form with all-zero x and no infinity flag is a valid non-subgroup point
	z := make([]byte, 48)
	z[0] = 0x80
	q, iss, err := g1.DecodeZcash(z)
	if err != nil || iss != 0 || q.X.Sign() != 0 || q.Y.Cmp(bigTwo) != 0 || g1.IsInPrimeSubgroup(q) {
		t.Errorf("G1 x=0: %v %v %v", q, iss, err)
	}
}

func TestFromAffineBytes(t *testing.T) {
	d := newDRBG("affine")
	for _, c := range All() {
		if c.Kind == WeierstrassFp2 {
			continue
		}
		p := d.randPoint(c)
		for p.Inf {
			p = d.randPoint(c)
		}
		xb, yb := c.AffineBytesBE(p)
		q, err := c.FromAffineBytesBE(xb, yb)
		if err != nil || !c.Equal(p, q) {
			t.Fatalf("%s: FromAffineBytesBE", c.Name)
		}
		xl, yl := c.AffineBytesLE(p)
		q, err = c.FromAffineBytesLE(xl, yl)
		if err != nil || !c.Equal(p, q) {
			t.Fatalf("%s: FromAffineBytesLE", c.Name)
		}
		if _, err := c.FromAffineBytesBE(xb, intToBE(addP(p.Y, bigOne, c.P), c.ByteLen)); err != ErrNotOnCurve {
			t.Fatalf("%s: off-curve accepted", c.Name)
		}
		big1 := new(big.Int).Add(p.X, c.P)
		if _, err := c.FromAffine(big1, p.Y); err != ErrRange {
			t.Fatalf("%s: x+p accepted", c.Name)
		}
	}
	c := BLS12381G2()
	p := d.randPoint(c)
	b := func(v *big.Int) []byte { return intToBE(v, 48) }
	q, err := c.FromAffineBytesBEFp2(b(p.X), b(p.X1), b(p.Y), b(p.Y1))
	if err != nil || !c.Equal(p, q) || !p.XFp2().Equal(q.XFp2()) || !p.YFp2().Equal(q.YFp2()) {
		t.Fatal("G2 FromAffineBytesBEFp2")
	}
	if _, err := c.FromAffineBytesBEFp2(b(p.X), b(p.X1), b(p.Y1), b(p.Y)); err != ErrNotOnCurve {
		t.Fatal("G2 off-curve accepted")
	}
}
