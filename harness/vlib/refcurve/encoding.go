package refcurve

import (
	"math/big"
)

// Issue says why a successfully decoded byte string is not the canonical encoding of the point
// it decodes to. Decoders are lenient: they return the point a permissive decoder would obtain
// together with the Issue set, so that the caller can decide what the code under test is
// allowed to do with such input. Issue == 0 ⇔ re-encoding the point reproduces the input.
type Issue uint

const (
	// IssueRange: an encoded coordinate was ≥ p; it has been reduced mod p.
	IssueRange Issue = 1 << iota
	// IssueFlags: a sign / flag bit that carries no information was set inconsistently
	// (edwards25519 sign bit with x = 0; bit 255 of an X25519 u-coordinate; BLS12-381 infinity
	// flag with a non-zero payload or with the sort flag; sort flag on an uncompressed encoding;
	// a sign request that cannot be met because y = 0).
	IssueFlags
)

// Canonical reports Issue == 0.
func (i Issue) Canonical() bool { return i == 0 }

func (i Issue) String() string {
	switch i {
	case 0:
		return "canonical"
	case IssueRange:
		return "coordinate>=p"
	case IssueFlags:
		return "flags"
	}
	return "coordinate>=p+flags"
}

// None of the decoders checks subgroup membership: they decode points of E(F_p) (E'(F_p²));
// use IsInPrimeSubgroup / IsSmallOrder on the result.

// ---------------------------------------------------------------------------------------------
// SEC 1 v2 §2.3.3 / §2.3.4 (Weierstrass curves over F_p)
// ---------------------------------------------------------------------------------------------

// EncodeSEC1 is Elliptic-Curve-Point-to-Octet-String of SEC 1: the point at infinity is the
// single byte 00; otherwise 02/03 ‖ X (compressed, 03 iff y is odd) or 04 ‖ X ‖ Y, coordinates
// big-endian on ByteLen bytes.
func (c *Curve) EncodeSEC1(p Point, compressed bool) []byte {
	if c.Kind != WeierstrassFp {
		panic("refcurve: EncodeSEC1 on " + c.Name)
	}
	if p.Inf {
		return []byte{0}
	}
	x, y := c.AffineBytesBE(p)
	if compressed {
		return append([]byte{2 + byte(p.Y.Bit(0))}, x...)
	}
	return append(append([]byte{4}, x...), y...)
}

// DecodeSEC1 is Octet-String-to-Elliptic-Curve-Point of SEC 1. Errors: ErrLength (length does
// not fit the tag, or empty), ErrFlags (tag other than 00, 02, 03, 04 — the hybrid forms 06/07 of
// X9.62 are not SEC 1), ErrNotOnCurve (x has no y / (x, y) violates the equation).
// IssueRange: a coordinate ≥ p (reduced).
func (c *Curve) DecodeSEC1(b []byte) (Point, Issue, error) {
	if c.Kind != WeierstrassFp {
		panic("refcurve: DecodeSEC1 on " + c.Name)
	}
	if len(b) == 0 {
		return Point{}, 0, ErrLength
	}
	L := c.ByteLen
	var iss Issue
	coord := func(s []byte) *big.Int {
		v := new(big.Int).SetBytes(s)
		if v.Cmp(c.P) >= 0 {
			iss |= IssueRange
			v.Mod(v, c.P)
		}
		return v
	}
	switch b[0] {
	case 0:
		if len(b) != 1 {
			return Point{}, 0, ErrLength
		}
		return Infinity(), 0, nil
	case 2, 3:
		if len(b) != 1+L {
			return Point{}, 0, ErrLength
		}
		x := coord(b[1:])
		p, ok := c.LiftX(x, b[0] == 3)
		if !ok {
			return Point{}, iss, ErrNotOnCurve
		}
		if p.Y.Sign() == 0 && b[0] == 3 {
			iss |= IssueFlags
		}
		return p, iss, nil
	case 4:
		if len(b) != 1+2*L {
			return Point{}, 0, ErrLength
		}
		p := Point{X: coord(b[1 : 1+L]), Y: coord(b[1+L:])}
		if !c.IsOnCurve(p) {
			return Point{}, iss, ErrNotOnCurve
		}
		return p, iss, nil
	}
	return Point{}, 0, ErrFlags
}

// ---------------------------------------------------------------------------------------------
// Pasta (pasta_curves crate / halo2 "GroupEncoding" and "UncompressedEncoding")
// ---------------------------------------------------------------------------------------------

func (c *Curve) isPasta() bool {
	return c.Kind == WeierstrassFp && (c.P.Cmp(pallas.P) == 0 || c.P.Cmp(vesta.P) == 0)
}

// EncodePasta is the encoding of the reference implementation of the Pasta curves (the Rust
// crate pasta_curves): compressed = 32 bytes little-endian x with the parity of y in bit 255,
// identity = 32 zero bytes; uncompressed = x ‖ y little-endian, identity = 64 zero bytes.
func (c *Curve) EncodePasta(p Point, compressed bool) []byte {
	if !c.isPasta() {
		panic("refcurve: EncodePasta on " + c.Name)
	}
	if p.Inf {
		if compressed {
			return make([]byte, 32)
		}
		return make([]byte, 64)
	}
	x, y := c.AffineBytesLE(p)
	if compressed {
		x[31] |= byte(p.Y.Bit(0)) << 7
		return x
	}
	return append(x, y...)
}

// DecodePasta decodes 32 (compressed) or 64 (uncompressed) bytes. Errors: ErrLength,
// ErrNotOnCurve. IssueRange: coordinate ≥ p (reduced).
func (c *Curve) DecodePasta(b []byte) (Point, Issue, error) {
	if !c.isPasta() {
		panic("refcurve: DecodePasta on " + c.Name)
	}
	var iss Issue
	coord := func(v *big.Int) *big.Int {
		if v.Cmp(c.P) >= 0 {
			iss |= IssueRange
			v = modP(v, c.P)
		}
		return v
	}
	switch len(b) {
	case 32:
		t := append([]byte(nil), b...)
		sign := t[31] >> 7
		t[31] &= 0x7f
		x := coord(leToInt(t))
		if x.Sign() == 0 && sign == 0 && iss == 0 {
			return Infinity(), 0, nil
		}
		p, ok := c.LiftX(x, sign == 1)
		if !ok {
			return Point{}, iss, ErrNotOnCurve
		}
		if p.Y.Sign() == 0 && sign == 1 {
			iss |= IssueFlags
		}
		return p, iss, nil
	case 64:
		allZero := true
		for _, v := range b {
			allZero = allZero && v == 0
		}
		if allZero {
			return Infinity(), 0, nil
		}
		p := Point{X: coord(leToInt(b[:32])), Y: coord(leToInt(b[32:]))}
		if !c.IsOnCurve(p) {
			return Point{}, iss, ErrNotOnCurve
		}
		return p, iss, nil
	}
	return Point{}, 0, ErrLength
}

// ---------------------------------------------------------------------------------------------
// RFC 8032 §5.1.2 / §5.1.3 (edwards25519)
// ---------------------------------------------------------------------------------------------

// EncodeEd25519 encodes a point of edwards25519: 32 bytes little-endian y, with the least
// significant bit of x in bit 255.
func EncodeEd25519(p Point) []byte {
	b := intToLE(modP(p.Y, ed25519.P), 32)
	b[31] |= byte(modP(p.X, ed25519.P).Bit(0)) << 7
	return b
}

// DecodeEd25519 decodes per RFC 8032 §5.1.3. Errors: ErrLength, ErrNotOnCurve (no x for this
// y). Issues (both are "decoding fails" in the RFC): IssueRange y ≥ p (reduced); IssueFlags
// x = 0 with the sign bit set.
func DecodeEd25519(b []byte) (Point, Issue, error) {
	if len(b) != 32 {
		return Point{}, 0, ErrLength
	}
	var iss Issue
	t := append([]byte(nil), b...)
	sign := t[31] >> 7
	t[31] &= 0x7f
	y := leToInt(t)
	if y.Cmp(ed25519.P) >= 0 {
		iss |= IssueRange
		y.Mod(y, ed25519.P)
	}
	p, ok := ed25519.LiftY(y, sign == 1)
	if !ok {
		return Point{}, iss, ErrNotOnCurve
	}
	if p.X.Sign() == 0 && sign == 1 {
		iss |= IssueFlags
	}
	return p, iss, nil
}

// ---------------------------------------------------------------------------------------------
// RFC 7748 §5 u-coordinates
// ---------------------------------------------------------------------------------------------

// EncodeU encodes a u-coordinate (reduced mod p) as 32 little-endian bytes.
func EncodeU(u *big.Int) []byte { return intToLE(modP(u, curve25519.P), 32) }

// DecodeU is decodeUCoordinate of RFC 7748: bit 255 is masked and values ≥ p are reduced; both
// are reported (IssueFlags, IssueRange) because the RFC requires implementations to accept them.
func DecodeU(b []byte) (*big.Int, Issue) {
	if len(b) != 32 {
		panic("refcurve: DecodeU needs 32 bytes")
	}
	var iss Issue
	t := append([]byte(nil), b...)
	if t[31]&0x80 != 0 {
		iss |= IssueFlags
		t[31] &= 0x7f
	}
	u := leToInt(t)
	if u.Cmp(curve25519.P) >= 0 {
		iss |= IssueRange
		u.Mod(u, curve25519.P)
	}
	return u, iss
}

// ---------------------------------------------------------------------------------------------
// ZCash BLS12-381 serialization (zkcrypto/bls12_381 "notes::serialization";
// draft-irtf-cfrg-pairing-friendly-curves Appendix C)
// ---------------------------------------------------------------------------------------------

const (
	blsFlagCompressed = 0x80
	blsFlagInfinity   = 0x40
	blsFlagSort       = 0x20
)

func (c *Curve) blsDeg() int {
	switch c {
	case bls12381g1:
		return 1
	case bls12381g2:
		return 2
	}
	panic("refcurve: ZCash BLS12-381 encoding on " + c.Name)
}

// EncodeZcash serialises a point of BLS12-381 G1/G2 (more precisely of E(F_p) / E'(F_p²)).
// F_p elements are 48 bytes big-endian; an F_p² element c0 + c1·u is written c1 ‖ c0.
// Compressed (48 / 96 bytes) = x with bit 7 of byte 0 set, bit 6 = infinity, bit 5 = "y is the
// lexicographically largest of {y, −y}"; uncompressed (96 / 192 bytes) = x ‖ y with bit 7 clear.
// Infinity = flag bit 6 and everything else zero.
func (c *Curve) EncodeZcash(p Point, compressed bool) []byte {
	deg := c.blsDeg()
	n := 48 * deg
	if !compressed {
		n *= 2
	}
	out := make([]byte, n)
	if p.Inf {
		out[0] = blsFlagInfinity
		if compressed {
			out[0] |= blsFlagCompressed
		}
		return out
	}
	put := func(dst []byte, e fe) {
		if deg == 2 {
			copy(dst, intToBE(e.B, 48))
			copy(dst[48:], intToBE(e.A, 48))
		} else {
			copy(dst, intToBE(e.A, 48))
		}
	}
	put(out, c.xfe(p))
	if compressed {
		out[0] |= blsFlagCompressed
		if c.f.isLargest(c.yfe(p)) {
			out[0] |= blsFlagSort
		}
		return out
	}
	put(out[48*deg:], c.yfe(p))
	return out
}

// DecodeZcash parses 48/96 (G1) or 96/192 (G2) bytes. Errors: ErrLength; ErrFlags when the
// compression flag contradicts the length; ErrNotOnCurve. Issues — each of them is a MUST-reject
// in the format's specification: IssueRange (a coordinate ≥ p, reduced), IssueFlags (infinity flag
// with a non-zero payload or sort flag → decoded as Inf; sort flag on an uncompressed encoding →
// ignored; sort flag with y = 0).
func (c *Curve) DecodeZcash(b []byte) (Point, Issue, error) {
	deg := c.blsDeg()
	cl, ul := 48*deg, 96*deg
	if len(b) != cl && len(b) != ul {
		return Point{}, 0, ErrLength
	}
	compressed := len(b) == cl
	flags := b[0] & 0xe0
	if (flags&blsFlagCompressed != 0) != compressed {
		return Point{}, 0, ErrFlags
	}
	t := append([]byte(nil), b...)
	t[0] &= 0x1f
	var iss Issue
	if flags&blsFlagInfinity != 0 {
		for _, v := range t {
			if v != 0 {
				iss |= IssueFlags
			}
		}
		if flags&blsFlagSort != 0 {
			iss |= IssueFlags
		}
		return Infinity(), iss, nil
	}
	coord := func(s []byte) *big.Int {
		v := new(big.Int).SetBytes(s)
		if v.Cmp(c.P) >= 0 {
			iss |= IssueRange
			v.Mod(v, c.P)
		}
		return v
	}
	get := func(s []byte) fe {
		if deg == 2 {
			return fe{B: coord(s[:48]), A: coord(s[48:96])}
		}
		return fe{A: coord(s[:48])}
	}
	x := get(t)
	sort := flags&blsFlagSort != 0
	if compressed {
		p, ok := c.LiftXLargest(Fp2{A: x.A, B: x.B}, sort)
		if !ok {
			return Point{}, iss, ErrNotOnCurve
		}
		if sort && c.f.isZero(c.yfe(p)) {
			iss |= IssueFlags
		}
		return p, iss, nil
	}
	if sort {
		iss |= IssueFlags
	}
	y := get(t[48*deg:])
	p := c.pt(x, y)
	if !c.IsOnCurve(p) {
		return Point{}, iss, ErrNotOnCurve
	}
	return p, iss, nil
}
