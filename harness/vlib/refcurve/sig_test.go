package refcurve

import (
	"crypto"
	"crypto/ecdsa"
	"crypto/elliptic"
	"crypto/sha256"
	"crypto/sha512"
	"encoding/asn1"
	"math/big"
	"testing"
)

func TestECDSAP256AgainstStdlib(t *testing.T) {
	d := newDRBG("ecdsa-p256")
	c := P256()
	for i := 0; i < 10; i++ {
		sk := new(big.Int).Add(d.below(new(big.Int).Sub(c.N, bigOne)), bigOne)
		q := c.ScalarBaseMul(sk)
		priv, err := ecdsa.ParseRawPrivateKey(elliptic.P256(), sk.FillBytes(make([]byte, 32)))
		if err != nil {
			t.Fatal(err)
		}
		pub, err := ecdsa.ParseUncompressedPublicKey(elliptic.P256(), c.EncodeSEC1(q, false))
		if err != nil {
			t.Fatal(err)
		}
		msg := d.bytes(d.intn(100))
		var digest []byte
		var h crypto.Hash
		if i%2 == 0 {
			s := sha256.Sum256(msg)
			digest, h = s[:], crypto.SHA256
		} else {
			s := sha512.Sum512(msg) // longer than N: exercises truncation
			digest, h = s[:], crypto.SHA512
		}
		// stdlib signs (deterministic RFC 6979 with a nil reader), model verifies
		der, err := priv.Sign(nil, digest, h)
		if err != nil {
			t.Fatal(err)
		}
		var sig struct{ R, S *big.Int }
		if _, err := asn1.Unmarshal(der, &sig); err != nil {
			t.Fatal(err)
		}
		if !c.ECDSAVerify(q, digest, sig.R, sig.S) {
			t.Fatalf("model rejects a crypto/ecdsa signature")
		}
		// high-S twin is also accepted by both
		hs := new(big.Int).Sub(c.N, sig.S)
		if !c.ECDSAVerify(q, digest, sig.R, hs) || !ecdsa.Verify(pub, digest, sig.R, hs) {
			t.Fatalf("high-S twin")
		}
		if c.IsLowS(sig.S) == c.IsLowS(hs) {
			t.Fatalf("IsLowS must separate s and n−s")
		}
		// model signs, stdlib verifies
		k := new(big.Int).Add(d.below(new(big.Int).Sub(c.N, bigOne)), bigOne)
		r, s, v, ok := c.ECDSASign(sk, digest, k)
		if !ok || !ecdsa.Verify(pub, digest, r, s) || !c.ECDSAVerify(q, digest, r, s) {
			t.Fatalf("crypto/ecdsa rejects a model signature")
		}
		if rq, ok := c.ECDSARecover(digest, r, s, v); !ok || !c.Equal(rq, q) {
			t.Fatalf("recovery")
		}
		if rq, ok := c.ECDSARecover(digest, r, s, v^1); ok && c.Equal(rq, q) {
			t.Fatalf("recovery with flipped v returned the same key")
		}
		if rq, ok := c.ECDSARecover(digest, r, new(big.Int).Sub(c.N, s), v^1); !ok || !c.Equal(rq, q) {
			t.Fatalf("recovery of the high-S twin with flipped v")
		}
		// altered inputs: both agree (and reject)
		alt := append([]byte(nil), digest...)
		alt[d.intn(len(alt[:32]))] ^= 1 << d.intn(8)
		for _, tc := range []struct {
			dg   []byte
			r, s *big.Int
		}{
			{alt, r, s},
			{digest, addP(r, bigOne, c.N), s},
			{digest, r, addP(s, bigOne, c.N)},
			{digest, big.NewInt(0), s},
			{digest, r, big.NewInt(0)},
			{digest, c.N, s},
			{digest, r, c.N},
			{digest, new(big.Int).Add(r, c.N), s},
			{digest, d.below(c.N), d.below(c.N)},
		} {
			got, want := c.ECDSAVerify(q, tc.dg, tc.r, tc.s), ecdsa.Verify(pub, tc.dg, tc.r, tc.s)
			if got != want || got {
				t.Fatalf("altered signature: model=%v stdlib=%v", got, want)
			}
		}
		// wrong key
		if c.ECDSAVerify(c.Add(q, c.G), digest, r, s) {
			t.Fatalf("wrong key accepted")
		}
	}
	if c.ECDSAVerify(Infinity(), make([]byte, 32), bigOne, bigOne) {
		t.Fatal("identity key accepted")
	}
	if c.ECDSAVerify(Point{X: bigOne, Y: bigOne}, make([]byte, 32), bigOne, bigOne) {
		t.Fatal("off-curve key accepted")
	}
}

func TestECDSAOtherCurves(t *testing.T) {
	d := newDRBG("ecdsa-other")
	for _, c := range []*Curve{K256(), Pallas(), Vesta()} {
		for i := 0; i < 4; i++ {
			sk := new(big.Int).Add(d.below(new(big.Int).Sub(c.N, bigOne)), bigOne)
			q := c.ScalarBaseMul(sk)
			digest := d.bytes([]int{20, 32, 48, 64}[i%4])
			k := new(big.Int).Add(d.below(new(big.Int).Sub(c.N, bigOne)), bigOne)
			r, s, v, ok := c.ECDSASign(sk, digest, k)
			if !ok || !c.ECDSAVerify(q, digest, r, s) || !c.ECDSAVerify(q, digest, r, new(big.Int).Sub(c.N, s)) {
				t.Fatalf("%s: sign/verify", c.Name)
			}
			if rq, ok := c.ECDSARecover(digest, r, s, v); !ok || !c.Equal(rq, q) {
				t.Fatalf("%s: recover", c.Name)
			}
			alt := append([]byte(nil), digest...)
			alt[0] ^= 0x80
			if c.ECDSAVerify(q, alt, r, s) || c.ECDSAVerify(q, digest, addP(r, bigOne, c.N), s) || c.ECDSAVerify(c.Double(q), digest, r, s) {
				t.Fatalf("%s: altered signature accepted", c.Name)
			}
		}
		// truncation
		dg := make([]byte, 32)
		for i := range dg {
			dg[i] = 0xff
		}
		e := c.TruncateDigest(dg)
		wantBits := c.N.BitLen()
		if wantBits > 256 {
			wantBits = 256
		}
		if e.BitLen() != wantBits {
			t.Errorf("%s: TruncateDigest keeps %d bits, want %d", c.Name, e.BitLen(), wantBits)
		}
		if c.TruncateDigest(dg[:20]).BitLen() != 160 {
			t.Errorf("%s: short digests are not shifted", c.Name)
		}
	}
}

func TestSchnorrEquation(t *testing.T) {
	d := newDRBG("schnorr")
	for _, c := range All() {
		x, k, e := d.below(c.N), d.below(c.N), d.below(c.N)
		P, R := c.ScalarBaseMul(x), c.ScalarBaseMul(k)
		s := addP(k, mulP(e, x, c.N), c.N)
		if !c.SchnorrEquation(s, R, e, P) {
			t.Fatalf("%s: honest Schnorr triple rejected", c.Name)
		}
		if c.SchnorrEquation(addP(s, bigOne, c.N), R, e, P) || c.SchnorrEquation(s, c.Add(R, c.G), e, P) || c.SchnorrEquation(s, R, addP(e, bigOne, c.N), P) {
			t.Fatalf("%s: altered Schnorr triple accepted", c.Name)
		}
	}
}

// BIP-340 test vectors (bip-0340/test-vectors.csv, as also reproduced in the repository's
// bip340_test.go): index, secret key, public key, aux, message, signature, result.
var bip340Vectors = []struct {
	sk, pk, aux, msg, sig string
	ok                    bool
}{
	{"0000000000000000000000000000000000000000000000000000000000000003", "F9308A019258C31049344F85F89D5229B531C845836F99B08601F113BCE036F9", "0000000000000000000000000000000000000000000000000000000000000000", "0000000000000000000000000000000000000000000000000000000000000000", "E907831F80848D1069A5371B402410364BDF1C5F8307B0084C55F1CE2DCA821525F66A4A85EA8B71E482A74F382D2CE5EBEEE8FDB2172F477DF4900D310536C0", true},
	{"B7E151628AED2A6ABF7158809CF4F3C762E7160F38B4DA56A784D9045190CFEF", "DFF1D77F2A671C5F36183726DB2341BE58FEAE1DA2DECED843240F7B502BA659", "0000000000000000000000000000000000000000000000000000000000000001", "243F6A8885A308D313198A2E03707344A4093822299F31D0082EFA98EC4E6C89", "6896BD60EEAE296DB48A229FF71DFE071BDE413E6D43F917DC8DCF8C78DE33418906D11AC976ABCCB20B091292BFF4EA897EFCB639EA871CFA95F6DE339E4B0A", true},
	{"C90FDAA22168C234C4C6628B80DC1CD129024E088A67CC74020BBEA63B14E5C9", "DD308AFEC5777E13121FA72B9CC1B7CC0139715309B086C960E18FD969774EB8", "C87AA53824B4D7AE2EB035A2B5BBBCCC080E76CDC6D1692C4B0B62D798E6D906", "7E2D58D8B3BCDF1ABADEC7829054F90DDA9805AAB56C77333024B9D0A508B75C", "5831AAEED7B44BB74E5EAB94BA9D4294C49BCF2A60728D8B4C200F50DD313C1BAB745879A5AD954A72C45A91C3A51D3C7ADEA98D82F8481E0E1E03674A6F3FB7", true},
	{"0B432B2677937381AEF05BB02A66ECD012773062CF3FA2549E44F58ED2401710", "25D1DFF95105F5253C4022F628A996AD3A0D95FBF21D468A1B33F8C160D8F517", "FFFFFFFFFFFFFFFFFFFFFFFFFFFFFFFFFFFFFFFFFFFFFFFFFFFFFFFFFFFFFFFF", "FFFFFFFFFFFFFFFFFFFFFFFFFFFFFFFFFFFFFFFFFFFFFFFFFFFFFFFFFFFFFFFF", "7EB0509757E246F19449885651611CB965ECC1A187DD51B64FDA1EDC9637D5EC97582B9CB13DB3933705B32BA982AF5AF25FD78881EBB32771FC5922EFC66EA3", true},
	{"", "D69C3509BB99E412E68B0FE8544E72837DFA30746D8BE2AA65975F29D22DC7B9", "", "4DF3C3F68FCC83B27E9D42C90431A72499F17875C81A599B566C9889B9696703", "00000000000000000000003B78CE563F89A0ED9414F5AA28AD0D96D6795F9C6376AFB1548AF603B3EB45C9F8207DEE1060CB71C04E80F593060B07D28308D7F4", true},
	// 5: public key not on the curve
	{"", "EEFDEA4CDB677750A420FEE807EACF21EB9898AE79B9768766E4FAA04A2D4A34", "", "243F6A8885A308D313198A2E03707344A4093822299F31D0082EFA98EC4E6C89", "6CFF5C3BA86C69EA4B7376F31A9BCB4F74C1976089B2D9963DA2E5543E17776969E89B4C5564D00349106B8497785DD7D1D713A8AE82B32FA79D5F7FC407D39B", false},
	// 6: has_even_y(R) is false
	{"", "DFF1D77F2A671C5F36183726DB2341BE58FEAE1DA2DECED843240F7B502BA659", "", "243F6A8885A308D313198A2E03707344A4093822299F31D0082EFA98EC4E6C89", "FFF97BD5755EEEA420453A14355235D382F6472F8568A18B2F057A14602975563CC27944640AC607CD107AE10923D9EF7A73C643E166BE5EBEAFA34B1AC553E2", false},
	// 7: negated message
	{"", "DFF1D77F2A671C5F36183726DB2341BE58FEAE1DA2DECED843240F7B502BA659", "", "243F6A8885A308D313198A2E03707344A4093822299F31D0082EFA98EC4E6C89", "1FA62E331EDBC21C394792D2AB1100A7B432B013DF3F6FF4F99FCB33E0E1515F28890B3EDB6E7189B630448B515CE4F8622A954CFE545735AAEA5134FCCDB2BD", false},
	// 8: negated s
	{"", "DFF1D77F2A671C5F36183726DB2341BE58FEAE1DA2DECED843240F7B502BA659", "", "243F6A8885A308D313198A2E03707344A4093822299F31D0082EFA98EC4E6C89", "6CFF5C3BA86C69EA4B7376F31A9BCB4F74C1976089B2D9963DA2E5543E177769961764B3AA9B2FFCB6EF947B6887A226E8D7C93E00C5ED0C1834FF0D0C2E6DA6", false},
	// 9: sG − eP is infinite (x(inf) defined as 0)
	{"", "DFF1D77F2A671C5F36183726DB2341BE58FEAE1DA2DECED843240F7B502BA659", "", "243F6A8885A308D313198A2E03707344A4093822299F31D0082EFA98EC4E6C89", "0000000000000000000000000000000000000000000000000000000000000000123DDA8328AF9C23A94C1FEECFD123BA4FB73476F0D594DCB65C6425BD186051", false},
	// 10: sG − eP is infinite (x(inf) defined as 1)
	{"", "DFF1D77F2A671C5F36183726DB2341BE58FEAE1DA2DECED843240F7B502BA659", "", "243F6A8885A308D313198A2E03707344A4093822299F31D0082EFA98EC4E6C89", "00000000000000000000000000000000000000000000000000000000000000017615FBAF5AE28864013C099742DEADB4DBA87F11AC6754F93780D5A1837CF197", false},
	// 11: sig[0:32] is not an X coordinate on the curve
	{"", "DFF1D77F2A671C5F36183726DB2341BE58FEAE1DA2DECED843240F7B502BA659", "", "243F6A8885A308D313198A2E03707344A4093822299F31D0082EFA98EC4E6C89", "4A298DACAE57395A15D0795DDBFD1DCB564DA82B0F269BC70A74F8220429BA1D69E89B4C5564D00349106B8497785DD7D1D713A8AE82B32FA79D5F7FC407D39B", false},
	// 12: sig[0:32] is equal to the field size
	{"", "DFF1D77F2A671C5F36183726DB2341BE58FEAE1DA2DECED843240F7B502BA659", "", "243F6A8885A308D313198A2E03707344A4093822299F31D0082EFA98EC4E6C89", "FFFFFFFFFFFFFFFFFFFFFFFFFFFFFFFFFFFFFFFFFFFFFFFFFFFFFFFEFFFFFC2F69E89B4C5564D00349106B8497785DD7D1D713A8AE82B32FA79D5F7FC407D39B", false},
	// 13: sig[32:64] is equal to the curve order
	{"", "DFF1D77F2A671C5F36183726DB2341BE58FEAE1DA2DECED843240F7B502BA659", "", "243F6A8885A308D313198A2E03707344A4093822299F31D0082EFA98EC4E6C89", "6CFF5C3BA86C69EA4B7376F31A9BCB4F74C1976089B2D9963DA2E5543E177769FFFFFFFFFFFFFFFFFFFFFFFFFFFFFFFEBAAEDCE6AF48A03BBFD25E8CD0364141", false},
	// 14: public key exceeds the field size
	{"", "FFFFFFFFFFFFFFFFFFFFFFFFFFFFFFFFFFFFFFFFFFFFFFFFFFFFFFFEFFFFFC30", "", "243F6A8885A308D313198A2E03707344A4093822299F31D0082EFA98EC4E6C89", "6CFF5C3BA86C69EA4B7376F31A9BCB4F74C1976089B2D9963DA2E5543E17776969E89B4C5564D00349106B8497785DD7D1D713A8AE82B32FA79D5F7FC407D39B", false},
	// 15–18: variable-length messages
	{"0340034003400340034003400340034003400340034003400340034003400340", "778CAA53B4393AC467774D09497A87224BF9FAB6F6E68B23086497324D6FD117", "0000000000000000000000000000000000000000000000000000000000000000", "", "71535DB165ECD9FBBC046E5FFAEA61186BB6AD436732FCCC25291A55895464CF6069CE26BF03466228F19A3A62DB8A649F2D560FAC652827D1AF0574E427AB63", true},
	{"0340034003400340034003400340034003400340034003400340034003400340", "778CAA53B4393AC467774D09497A87224BF9FAB6F6E68B23086497324D6FD117", "0000000000000000000000000000000000000000000000000000000000000000", "11", "08A20A0AFEF64124649232E0693C583AB1B9934AE63B4C3511F3AE1134C6A303EA3173BFEA6683BD101FA5AA5DBC1996FE7CACFC5A577D33EC14564CEC2BACBF", true},
	{"0340034003400340034003400340034003400340034003400340034003400340", "778CAA53B4393AC467774D09497A87224BF9FAB6F6E68B23086497324D6FD117", "0000000000000000000000000000000000000000000000000000000000000000", "0102030405060708090A0B0C0D0E0F1011", "5130F39A4059B43BC7CAC09A19ECE52B5D8699D1A71E3C52DA9AFDB6B50AC370C4A482B77BF960F8681540E25B6771ECE1E5A37FD80E5A51897C5566A97EA5A5", true},
	{"0340034003400340034003400340034003400340034003400340034003400340", "778CAA53B4393AC467774D09497A87224BF9FAB6F6E68B23086497324D6FD117", "0000000000000000000000000000000000000000000000000000000000000000", "99999999999999999999999999999999999999999999999999999999999999999999999999999999999999999999999999999999999999999999999999999999999999999999999999999999999999999999999999999999999999999999999999999999", "403B12B0D8555A344175EA7EC746566303321E5DBFA8BE6F091635163ECA79A8585ED3E3170807E7C03B720FC54C7B23897FCBA0E9D0B4A06894CFD249F22367", true},
}

func TestBIP340Vectors(t *testing.T) {
	for i, v := range bip340Vectors {
		pk, msg, sig := unhex(t, v.pk), unhex(t, v.msg), unhex(t, v.sig)
		if got := BIP340Verify(pk, msg, sig); got != v.ok {
			t.Errorf("vector %d: verify=%v want %v", i, got, v.ok)
		}
		if v.sk != "" {
			sk, aux := unhex(t, v.sk), unhex(t, v.aux)
			gotPk, ok := BIP340PubKey(sk)
			if !ok || hexOf(gotPk) != hexOf(pk) {
				t.Errorf("vector %d: public key %x", i, gotPk)
			}
			gotSig, ok := BIP340Sign(sk, msg, aux)
			if !ok || hexOf(gotSig) != hexOf(sig) {
				t.Errorf("vector %d: signature %x", i, gotSig)
			}
		}
	}
	// tagged hash midstate sanity: SHA256(SHA256(tag)‖SHA256(tag)‖x)
	th := sha256.Sum256([]byte("BIP0340/challenge"))
	want := sha256.Sum256(append(append(append([]byte{}, th[:]...), th[:]...), 'x'))
	if hexOf(TaggedHash("BIP0340/challenge", []byte("x"))) != hexOf(want[:]) {
		t.Error("TaggedHash")
	}
	if BIP340Verify(make([]byte, 31), nil, make([]byte, 64)) || BIP340Verify(make([]byte, 32), nil, make([]byte, 63)) {
		t.Error("length checks")
	}
}
