package refcurve

import (
	"crypto/sha256"
	"crypto/sha3"
	"errors"
	"hash"
	"io"
	"math/big"
)

// RFC 9380 pieces that need no isogeny, written from the RFC text.

var errExpand = errors.New("refcurve: expand_message parameters out of range")

const oversizeDSTPrefix = "H2C-OVERSIZE-DST-"

// ExpandMessageXMD is expand_message_xmd of RFC 9380 §5.3.1 for the hash function hashNew
// (b_in_bytes = Size(), s_in_bytes = BlockSize()). DSTs longer than 255 bytes are replaced by
// H("H2C-OVERSIZE-DST-" ‖ DST) as §5.3.3 prescribes. Errors: ell > 255, lenInBytes > 65535,
// lenInBytes ≤ 0 is allowed only as 0 (returns an empty string).
func ExpandMessageXMD(hashNew func() hash.Hash, msg, dst []byte, lenInBytes int) ([]byte, error) {
	h := hashNew()
	b, s := h.Size(), h.BlockSize()
	if lenInBytes < 0 || lenInBytes > 65535 {
		return nil, errExpand
	}
	ell := (lenInBytes + b - 1) / b
	if ell > 255 {
		return nil, errExpand
	}
	if len(dst) > 255 {
		h.Reset()
		h.Write([]byte(oversizeDSTPrefix))
		h.Write(dst)
		dst = h.Sum(nil)
	}
	dstPrime := append(append([]byte(nil), dst...), byte(len(dst)))
	// b_0 = H(Z_pad ‖ msg ‖ l_i_b_str ‖ I2OSP(0,1) ‖ DST_prime)
	h.Reset()
	h.Write(make([]byte, s))
	h.Write(msg)
	h.Write([]byte{byte(lenInBytes >> 8), byte(lenInBytes), 0})
	h.Write(dstPrime)
	b0 := h.Sum(nil)
	// b_1 = H(b_0 ‖ I2OSP(1,1) ‖ DST_prime)
	h.Reset()
	h.Write(b0)
	h.Write([]byte{1})
	h.Write(dstPrime)
	bi := h.Sum(nil)
	out := append([]byte(nil), bi...)
	for i := 2; i <= ell; i++ {
		x := make([]byte, b)
		for j := range x {
			x[j] = b0[j] ^ bi[j]
		}
		h.Reset()
		h.Write(x)
		h.Write([]byte{byte(i)})
		h.Write(dstPrime)
		bi = h.Sum(nil)
		out = append(out, bi...)
	}
	return out[:lenInBytes], nil
}

// XOF is what ExpandMessageXOF needs from an extendable-output function.
type XOF interface {
	io.Writer
	io.Reader
}

// ExpandMessageXOF is expand_message_xof of RFC 9380 §5.3.2; k is the target security level in
// bits (128 for SHAKE128, 256 for SHAKE256), used only to shorten DSTs longer than 255 bytes to
// ceil(2k/8) bytes of H("H2C-OVERSIZE-DST-" ‖ DST).
func ExpandMessageXOF(newXOF func() XOF, k int, msg, dst []byte, lenInBytes int) ([]byte, error) {
	if lenInBytes < 0 || lenInBytes > 65535 {
		return nil, errExpand
	}
	if len(dst) > 255 {
		x := newXOF()
		x.Write([]byte(oversizeDSTPrefix))
		x.Write(dst)
		d := make([]byte, (2*k+7)/8)
		if _, err := io.ReadFull(x, d); err != nil {
			return nil, err
		}
		dst = d
	}
	x := newXOF()
	x.Write(msg)
	x.Write([]byte{byte(lenInBytes >> 8), byte(lenInBytes)})
	x.Write(dst)
	x.Write([]byte{byte(len(dst))})
	out := make([]byte, lenInBytes)
	if _, err := io.ReadFull(x, out); err != nil {
		return nil, err
	}
	return out, nil
}

// ExpandMessageSHAKE128 / ExpandMessageSHAKE256 are ExpandMessageXOF with the two standard XOFs.
func ExpandMessageSHAKE128(msg, dst []byte, lenInBytes int) ([]byte, error) {
	return ExpandMessageXOF(func() XOF { return sha3.NewSHAKE128() }, 128, msg, dst, lenInBytes)
}

func ExpandMessageSHAKE256(msg, dst []byte, lenInBytes int) ([]byte, error) {
	return ExpandMessageXOF(func() XOF { return sha3.NewSHAKE256() }, 256, msg, dst, lenInBytes)
}

// HashToField is hash_to_field of RFC 9380 §5.2 over an arbitrary expander: count elements of
// F_{p^m}, each coordinate = OS2IP of L bytes of uniform_bytes reduced mod p. Result[i][j] is
// coordinate j of element i.
func HashToField(expand func(msg, dst []byte, n int) ([]byte, error), msg, dst []byte, p *big.Int, m, L, count int) ([][]*big.Int, error) {
	u, err := expand(msg, dst, count*m*L)
	if err != nil {
		return nil, err
	}
	out := make([][]*big.Int, count)
	for i := 0; i < count; i++ {
		out[i] = make([]*big.Int, m)
		for j := 0; j < m; j++ {
			off := L * (j + i*m)
			out[i][j] = modP(new(big.Int).SetBytes(u[off:off+L]), p)
		}
	}
	return out, nil
}

// HashToFieldXMD is HashToField with expand_message_xmd over hashNew.
func HashToFieldXMD(hashNew func() hash.Hash, msg, dst []byte, p *big.Int, m, L, count int) ([][]*big.Int, error) {
	return HashToField(func(msg, dst []byte, n int) ([]byte, error) {
		return ExpandMessageXMD(hashNew, msg, dst, n)
	}, msg, dst, p, m, L, count)
}

// Sgn0Fp is sgn0 for m = 1: x mod 2 (x reduced mod p first).
func Sgn0Fp(x, p *big.Int) int { return int(modP(x, p).Bit(0)) }

// MapToCurveSSWU is map_to_curve_simple_swu of RFC 9380 §6.6.2 (the straight-line-free version
// of the text) for a Weierstrass curve over F_p with A·B ≠ 0 and the constant Z.
func (c *Curve) MapToCurveSSWU(z, u *big.Int) Point {
	if c.Kind != WeierstrassFp || c.A.Sign() == 0 || c.B.Sign() == 0 {
		panic("refcurve: simplified SWU needs A·B ≠ 0 over F_p: " + c.Name)
	}
	P := c.P
	u = modP(u, P)
	z = modP(z, P)
	u2 := mulP(u, u, P)
	zu2 := mulP(z, u2, P)
	// tv1 = inv0(Z²u⁴ + Zu²)
	t := addP(mulP(zu2, zu2, P), zu2, P)
	var x1 *big.Int
	if t.Sign() == 0 {
		// x1 = B/(Z·A)
		x1 = mulP(c.B, invP(mulP(z, c.A, P), P), P)
	} else {
		tv1 := invP(t, P)
		// x1 = (−B/A)(1 + tv1)
		x1 = mulP(mulP(negP(c.B, P), invP(c.A, P), P), addP(bigOne, tv1, P), P)
	}
	g := func(x *big.Int) *big.Int { return c.rhsW(fe{A: x}).A }
	var x, y *big.Int
	if y1, ok := SqrtFp(g(x1), P); ok {
		x, y = x1, y1
	} else {
		x2 := mulP(zu2, x1, P)
		y2, ok := SqrtFp(g(x2), P)
		if !ok {
			panic("refcurve: SSWU: neither gx1 nor gx2 is square (bad Z)")
		}
		x, y = x2, y2
	}
	if Sgn0Fp(u, P) != Sgn0Fp(y, P) {
		y = negP(y, P)
	}
	return Point{X: x, Y: y}
}

// P256SSWUZ is the constant Z = −10 of the suites P256_XMD:SHA-256_SSWU_{RO,NU}_ (RFC 9380 §8.2).
func P256SSWUZ() *big.Int { return big.NewInt(-10) }

// HashToCurveP256 is hash_to_curve for the suite P256_XMD:SHA-256_SSWU_RO_ (RFC 9380 §8.2:
// m = 1, L = 48, expand_message_xmd with SHA-256, simplified SWU with Z = −10, h_eff = 1).
// It returns the point together with u[0], u[1] and Q0, Q1 for inspection.
func HashToCurveP256(msg, dst []byte) (p Point, u [2]*big.Int, q [2]Point, err error) {
	us, err := HashToFieldXMD(sha256.New, msg, dst, p256.P, 1, 48, 2)
	if err != nil {
		return Point{}, u, q, err
	}
	for i := 0; i < 2; i++ {
		u[i] = us[i][0]
		q[i] = p256.MapToCurveSSWU(P256SSWUZ(), u[i])
	}
	return p256.Add(q[0], q[1]), u, q, nil
}

// EncodeToCurveP256 is encode_to_curve for the suite P256_XMD:SHA-256_SSWU_NU_.
func EncodeToCurveP256(msg, dst []byte) (Point, error) {
	us, err := HashToFieldXMD(sha256.New, msg, dst, p256.P, 1, 48, 1)
	if err != nil {
		return Point{}, err
	}
	return p256.MapToCurveSSWU(P256SSWUZ(), us[0][0]), nil
}
