package refcurve

import (
	"crypto/sha256"
	"math/big"
)

// ---------------------------------------------------------------------------------------------
// Textbook ECDSA (SEC 1 v2 §4.1, FIPS 186-4 §6.4) on any Weierstrass curve over F_p of the model.
// ---------------------------------------------------------------------------------------------

// TruncateDigest converts a message digest to the integer e of SEC 1 §4.1.3 step 5 / FIPS 186
// §6.4: the leftmost min(bitlen(N), 8·len(digest)) bits of the digest as a big-endian integer
// (NOT reduced mod N; for the 255-bit Pasta orders a 32-byte digest is shifted right by one bit).
func (c *Curve) TruncateDigest(digest []byte) *big.Int {
	e := new(big.Int).SetBytes(digest)
	if excess := 8*len(digest) - c.N.BitLen(); excess > 0 {
		e.Rsh(e, uint(excess))
	}
	return e
}

// ECDSAVerify is the textbook verification: r, s ∈ [1, N−1]; Q a valid public key (on the
// curve, not the neutral element; all model curves offering ECDSA have cofactor 1);
// e = TruncateDigest(digest); u1 = e·s⁻¹, u2 = r·s⁻¹ mod N; R = [u1]G + [u2]Q ≠ Inf;
// accept iff R.x mod N == r. Both low-S and high-S signatures are accepted.
func (c *Curve) ECDSAVerify(q Point, digest []byte, r, s *big.Int) bool {
	return c.ECDSAVerifyE(q, c.TruncateDigest(digest), r, s)
}

// ECDSAVerifyE is ECDSAVerify with the integer e given directly (any non-negative integer).
func (c *Curve) ECDSAVerifyE(q Point, e, r, s *big.Int) bool {
	if c.Kind != WeierstrassFp {
		panic("refcurve: ECDSA on " + c.Name)
	}
	if r.Sign() <= 0 || s.Sign() <= 0 || r.Cmp(c.N) >= 0 || s.Cmp(c.N) >= 0 {
		return false
	}
	if q.Inf || !c.IsOnCurve(q) || (c.H.Cmp(bigOne) != 0 && !c.IsInPrimeSubgroup(q)) {
		return false
	}
	w := new(big.Int).ModInverse(s, c.N)
	u1 := mulP(e, w, c.N)
	u2 := mulP(r, w, c.N)
	R := c.Add(c.ScalarMul(c.G, u1), c.ScalarMul(q, u2))
	if R.Inf {
		return false
	}
	return modP(R.X, c.N).Cmp(r) == 0
}

// ECDSASign is textbook signing with an explicit nonce k ∈ [1, N−1] and secret d ∈ [1, N−1]:
// R = [k]G, r = R.x mod N, s = k⁻¹(e + r·d) mod N. v is the recovery id (bit 0 = parity of R.y,
// bit 1 = R.x ≥ N). ok=false if r or s comes out 0. No low-S normalisation is applied.
func (c *Curve) ECDSASign(d *big.Int, digest []byte, k *big.Int) (r, s *big.Int, v int, ok bool) {
	if k.Sign() <= 0 || k.Cmp(c.N) >= 0 || d.Sign() <= 0 || d.Cmp(c.N) >= 0 {
		return nil, nil, 0, false
	}
	e := c.TruncateDigest(digest)
	R := c.ScalarMul(c.G, k)
	r = modP(R.X, c.N)
	s = mulP(new(big.Int).ModInverse(k, c.N), addP(e, mulP(r, d, c.N), c.N), c.N)
	if r.Sign() == 0 || s.Sign() == 0 {
		return nil, nil, 0, false
	}
	v = int(R.Y.Bit(0))
	if R.X.Cmp(c.N) >= 0 {
		v |= 2
	}
	return r, s, v, true
}

// ECDSARecover is public key recovery (SEC 1 §4.1.6) for recovery id v (bit 0 = parity of R.y,
// bit 1 = R.x was ≥ N): Q = r⁻¹([s]R − [e]G).
func (c *Curve) ECDSARecover(digest []byte, r, s *big.Int, v int) (Point, bool) {
	if r.Sign() <= 0 || s.Sign() <= 0 || r.Cmp(c.N) >= 0 || s.Cmp(c.N) >= 0 || v < 0 || v > 3 {
		return Point{}, false
	}
	x := new(big.Int).Set(r)
	if v&2 != 0 {
		x.Add(x, c.N)
	}
	if x.Cmp(c.P) >= 0 {
		return Point{}, false
	}
	R, ok := c.LiftX(x, v&1 == 1)
	if !ok {
		return Point{}, false
	}
	e := c.TruncateDigest(digest)
	ri := new(big.Int).ModInverse(r, c.N)
	q := c.ScalarMul(c.Sub(c.ScalarMul(R, s), c.ScalarMul(c.G, e)), ri)
	if q.Inf {
		return Point{}, false
	}
	return q, true
}

// IsLowS reports s ≤ ⌊N/2⌋.
func (c *Curve) IsLowS(s *big.Int) bool {
	return s.Cmp(new(big.Int).Rsh(c.N, 1)) <= 0
}

// ---------------------------------------------------------------------------------------------
// Schnorr group equation
// ---------------------------------------------------------------------------------------------

// SchnorrEquation reports [s]G == R + [e]P on any curve of the model (s, e any integers).
func (c *Curve) SchnorrEquation(s *big.Int, R Point, e *big.Int, P Point) bool {
	return c.Equal(c.ScalarMul(c.G, s), c.Add(R, c.ScalarMul(P, e)))
}

// ---------------------------------------------------------------------------------------------
// BIP-340 (Schnorr signatures for secp256k1), written from the BIP text.
// ---------------------------------------------------------------------------------------------

// TaggedHash is hash_tag(x) = SHA256(SHA256(tag) ‖ SHA256(tag) ‖ x) of BIP-340.
func TaggedHash(tag string, parts ...[]byte) []byte {
	th := sha256.Sum256([]byte(tag))
	h := sha256.New()
	h.Write(th[:])
	h.Write(th[:])
	for _, p := range parts {
		h.Write(p)
	}
	return h.Sum(nil)
}

// BIP340LiftX is lift_x of BIP-340: the secp256k1 point with abscissa x (must be < p) and even y.
func BIP340LiftX(x *big.Int) (Point, bool) {
	if x.Sign() < 0 || x.Cmp(k256.P) >= 0 {
		return Point{}, false
	}
	return k256.LiftX(x, false)
}

// BIP340Challenge is e = int(hash_BIP0340/challenge(bytes(r) ‖ bytes(P) ‖ m)) mod n for
// 32-byte rx, px and a message of any length.
func BIP340Challenge(rx, px, msg []byte) *big.Int {
	e := new(big.Int).SetBytes(TaggedHash("BIP0340/challenge", rx, px, msg))
	return e.Mod(e, k256.N)
}

// BIP340Verify is the Verify algorithm of BIP-340 for a 32-byte x-only public key, a message
// of any length and a 64-byte signature.
func BIP340Verify(pk, msg, sig []byte) bool {
	if len(pk) != 32 || len(sig) != 64 {
		return false
	}
	P, ok := BIP340LiftX(new(big.Int).SetBytes(pk))
	if !ok {
		return false
	}
	r := new(big.Int).SetBytes(sig[:32])
	if r.Cmp(k256.P) >= 0 {
		return false
	}
	s := new(big.Int).SetBytes(sig[32:])
	if s.Cmp(k256.N) >= 0 {
		return false
	}
	e := BIP340Challenge(sig[:32], pk, msg)
	R := k256.Sub(k256.ScalarMul(k256.G, s), k256.ScalarMul(P, e))
	if R.Inf || R.Y.Bit(0) == 1 {
		return false
	}
	return R.X.Cmp(r) == 0
}

// BIP340PubKey returns bytes(d·G) (the 32-byte x-only key) for a secret key d ∈ [1, n−1].
func BIP340PubKey(sk []byte) ([]byte, bool) {
	d := new(big.Int).SetBytes(sk)
	if len(sk) != 32 || d.Sign() == 0 || d.Cmp(k256.N) >= 0 {
		return nil, false
	}
	return intToBE(k256.ScalarMul(k256.G, d).X, 32), true
}

// BIP340Sign is the default Sign algorithm of BIP-340 (32-byte secret key, message of any
// length, 32-byte auxiliary random data).
func BIP340Sign(sk, msg, aux []byte) ([]byte, bool) {
	n := k256.N
	d0 := new(big.Int).SetBytes(sk)
	if len(sk) != 32 || len(aux) != 32 || d0.Sign() == 0 || d0.Cmp(n) >= 0 {
		return nil, false
	}
	P := k256.ScalarMul(k256.G, d0)
	d := d0
	if P.Y.Bit(0) == 1 {
		d = new(big.Int).Sub(n, d0)
	}
	t := intToBE(d, 32)
	ah := TaggedHash("BIP0340/aux", aux)
	for i := range t {
		t[i] ^= ah[i]
	}
	px := intToBE(P.X, 32)
	k0 := new(big.Int).SetBytes(TaggedHash("BIP0340/nonce", t, px, msg))
	k0.Mod(k0, n)
	if k0.Sign() == 0 {
		return nil, false
	}
	R := k256.ScalarMul(k256.G, k0)
	k := k0
	if R.Y.Bit(0) == 1 {
		k = new(big.Int).Sub(n, k0)
	}
	rx := intToBE(R.X, 32)
	e := BIP340Challenge(rx, px, msg)
	s := addP(k, mulP(e, d, n), n)
	sig := append(rx, intToBE(s, 32)...)
	if !BIP340Verify(px, msg, sig) {
		return nil, false
	}
	return sig, true
}
