package refcurve

import (
	"math/big"
	"sort"
	"sync"
)

type smallOrderEntry struct {
	pts    []Point
	orders []int
}

var smallOrderCache sync.Map // *Curve -> smallOrderEntry

// SearchPoint returns the first point found by lifting candidate first coordinates start,
// start+1, … (deterministic). On Weierstrass curves over F_p and Montgomery curves the
// candidates are x (u) values and the even root is taken; on twisted Edwards curves they are y
// values with even x; on curves over F_p² the candidates are x = t + (t+1)·u for t = start, … and
// the root that is not lexicographically largest is taken. The point is an arbitrary point
// of the full curve group E: it is in the prime-order subgroup only with probability 1/H.
func (c *Curve) SearchPoint(start uint64) Point {
	for t := new(big.Int).SetUint64(start); ; t = new(big.Int).Add(t, bigOne) {
		var p Point
		var ok bool
		switch c.Kind {
		case WeierstrassFp, Montgomery:
			p, ok = c.LiftX(t, false)
		case TwistedEdwards:
			p, ok = c.LiftY(t, false)
		case WeierstrassFp2:
			p, ok = c.LiftXLargest(Fp2{A: t, B: new(big.Int).Add(t, bigOne)}, false)
		}
		if ok {
			return p
		}
	}
}

// PointOutsideSubgroup returns a point of the curve that is NOT in the prime-order subgroup
// ([N]P ≠ neutral), found by SearchPoint from start upwards; ok=false on cofactor-1 curves where
// no such point exists. For BLS12-381 G1/G2 this is "a point of E(F_p) (E'(F_p²)) outside G1 (G2)".
// The order of the returned point is in general a multiple of N (a mixed-order point).
func (c *Curve) PointOutsideSubgroup(start uint64) (Point, bool) {
	if c.H.Cmp(bigOne) == 0 {
		return Point{}, false
	}
	for s := start; ; s++ {
		p := c.SearchPoint(s)
		if !c.IsInPrimeSubgroup(p) {
			return p, true
		}
		// continue after the abscissa just used
		s = nextStart(c, p, s)
	}
}

func nextStart(c *Curve, p Point, s uint64) uint64 {
	v := p.X
	if c.Kind == TwistedEdwards {
		v = p.Y
	}
	if v.IsUint64() && v.Uint64() >= s {
		return v.Uint64()
	}
	return s
}

// CofactorPoint returns a non-neutral point whose order divides the cofactor H (so it is
// outside the prime-order subgroup and is killed by H): [N]·PointOutsideSubgroup(start).
// ok=false on cofactor-1 curves.
func (c *Curve) CofactorPoint(start uint64) (Point, bool) {
	p, ok := c.PointOutsideSubgroup(start)
	if !ok {
		return Point{}, false
	}
	return c.ScalarMul(p, c.N), true
}

// SmallOrderPoints returns all H points of order dividing H for the cofactor-8 curves
// edwards25519 and curve25519, constructed (not tabulated): a generator T of the cyclic
// 8-torsion is found as [N]·P for the first suitable P = SearchPoint(2, 3, …), and the list is
// [0]T … [7]T sorted by (order, first coordinate, second coordinate; Inf first). orders[i] is the
// exact order (1, 2, 4, 4, 8, 8, 8, 8) of pts[i].
func (c *Curve) SmallOrderPoints() (pts []Point, orders []int) {
	if c != ed25519 && c != curve25519 {
		panic("refcurve: SmallOrderPoints on " + c.Name)
	}
	if e, ok := smallOrderCache.Load(c); ok {
		se := e.(smallOrderEntry)
		return append([]Point(nil), se.pts...), append([]int(nil), se.orders...)
	}
	h := int(c.H.Int64())
	var t Point
	for s := uint64(2); ; s++ {
		t = c.ScalarMul(c.SearchPoint(s), c.N)
		if c.PointOrder(t, h) == h {
			break
		}
	}
	acc := c.Neutral()
	for i := 0; i < h; i++ {
		pts = append(pts, acc)
		acc = c.Add(acc, t)
	}
	if !c.IsNeutral(acc) {
		panic("refcurve: torsion generator has wrong order")
	}
	key := func(p Point) (int, *big.Int, *big.Int) {
		if p.Inf {
			return 1, bigZero, bigZero
		}
		return c.PointOrder(p, h), p.X, p.Y
	}
	sort.SliceStable(pts, func(i, j int) bool {
		oi, xi, yi := key(pts[i])
		oj, xj, yj := key(pts[j])
		if oi != oj {
			return oi < oj
		}
		if v := xi.Cmp(xj); v != 0 {
			return v < 0
		}
		return yi.Cmp(yj) < 0
	})
	for _, p := range pts {
		orders = append(orders, c.PointOrder(p, h))
	}
	smallOrderCache.Store(c, smallOrderEntry{pts: append([]Point(nil), pts...), orders: append([]int(nil), orders...)})
	return pts, orders
}

// MixedOrderPoint returns [k]G + T where T = SmallOrderPoints()[j] (j in 0..7; j = 0 gives a
// pure prime-order point). For k ≢ 0 mod N and j ≠ 0 the result has order N·ord(T): it is on the
// curve, not in the prime-order subgroup and not of small order.
func (c *Curve) MixedOrderPoint(k *big.Int, j int) Point {
	pts, _ := c.SmallOrderPoints()
	return c.Add(c.ScalarMul(c.G, k), pts[j])
}

// TwistX returns the least x ≥ start (as an integer) that is NOT the first coordinate of a
// point of the curve — i.e. an abscissa of the quadratic twist ("x with no y"). Weierstrass
// curves over F_p and Montgomery curves: x / u values; twisted Edwards: y values with no x.
func (c *Curve) TwistX(start uint64) *big.Int {
	for t := new(big.Int).SetUint64(start); ; t = new(big.Int).Add(t, bigOne) {
		var ok bool
		switch c.Kind {
		case WeierstrassFp, Montgomery:
			_, ok = c.LiftX(t, false)
		case TwistedEdwards:
			_, ok = c.LiftY(t, false)
		default:
			panic("refcurve: TwistX on " + c.Name + " (use TwistXFp2)")
		}
		if !ok {
			return t
		}
	}
}

// TwistXFp2 is TwistX for curves over F_p²: the first x = t + (t+1)·u, t ≥ start, with no y.
func (c *Curve) TwistXFp2(start uint64) Fp2 {
	if c.Kind != WeierstrassFp2 {
		panic("refcurve: TwistXFp2 on " + c.Name)
	}
	for t := new(big.Int).SetUint64(start); ; t = new(big.Int).Add(t, bigOne) {
		x := Fp2{A: t, B: new(big.Int).Add(t, bigOne)}
		if _, ok := c.LiftXLargest(x, false); !ok {
			return x.Reduce()
		}
	}
}
