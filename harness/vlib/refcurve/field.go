package refcurve

import (
	"math/big"
)

// ---------------------------------------------------------------------------------------------
// F_p helpers (plain math/big; every result is a fresh, fully reduced value in [0, p)).
// ---------------------------------------------------------------------------------------------

var (
	bigZero  = big.NewInt(0)
	bigOne   = big.NewInt(1)
	bigTwo   = big.NewInt(2)
	bigThree = big.NewInt(3)
)

func hexInt(s string) *big.Int {
	v, ok := new(big.Int).SetString(s, 16)
	if !ok {
		panic("refcurve: bad hex constant " + s)
	}
	return v
}

func decInt(s string) *big.Int {
	v, ok := new(big.Int).SetString(s, 10)
	if !ok {
		panic("refcurve: bad decimal constant " + s)
	}
	return v
}

func modP(x, p *big.Int) *big.Int { return new(big.Int).Mod(x, p) }

// redP returns x mod p, sharing x when it is already reduced (values are never mutated).
func redP(x, p *big.Int) *big.Int {
	if x.Sign() >= 0 && x.Cmp(p) < 0 {
		return x
	}
	return new(big.Int).Mod(x, p)
}

// fix brings r = a ± b (a, b usually reduced) into [0, p) with one conditional add/subtract,
// falling back to a division only for unreduced operands.
func fix(r, p *big.Int) *big.Int {
	if r.Sign() < 0 {
		r.Add(r, p)
	} else if r.Cmp(p) >= 0 {
		r.Sub(r, p)
	}
	if r.Sign() < 0 || r.Cmp(p) >= 0 {
		r.Mod(r, p)
	}
	return r
}

func addP(a, b, p *big.Int) *big.Int { return fix(new(big.Int).Add(a, b), p) }
func subP(a, b, p *big.Int) *big.Int { return fix(new(big.Int).Sub(a, b), p) }
func mulP(a, b, p *big.Int) *big.Int { r := new(big.Int).Mul(a, b); return r.Mod(r, p) }
func negP(a, p *big.Int) *big.Int    { return fix(new(big.Int).Neg(a), p) }

// invP returns a^-1 mod p; it panics on a ≡ 0 (callers exclude that case by case analysis).
func invP(a, p *big.Int) *big.Int {
	r := new(big.Int).ModInverse(redP(a, p), p)
	if r == nil {
		panic("refcurve: inverse of zero")
	}
	return r
}

// LegendreFp returns the Legendre symbol (a/p) ∈ {-1, 0, 1} by Euler's criterion a^((p-1)/2).
func LegendreFp(a, p *big.Int) int {
	a = modP(a, p)
	if a.Sign() == 0 {
		return 0
	}
	e := new(big.Int).Rsh(new(big.Int).Sub(p, bigOne), 1)
	r := new(big.Int).Exp(a, e, p)
	if r.Cmp(bigOne) == 0 {
		return 1
	}
	return -1
}

// SqrtFp solves r² ≡ a (mod p) for an odd prime p with the Tonelli–Shanks algorithm (works for
// every odd prime, including the 2-adic Pasta primes). ok is false iff a is a non-residue.
// Of the two roots the smaller one (as an integer in [0,p)) is returned; the other is p − r.
func SqrtFp(a, p *big.Int) (r *big.Int, ok bool) {
	a = modP(a, p)
	if a.Sign() == 0 {
		return new(big.Int), true
	}
	if LegendreFp(a, p) != 1 {
		return nil, false
	}
	// p − 1 = q·2^s with q odd.
	q := new(big.Int).Sub(p, bigOne)
	s := 0
	for q.Bit(0) == 0 {
		q.Rsh(q, 1)
		s++
	}
	// z: a quadratic non-residue.
	z := big.NewInt(2)
	for LegendreFp(z, p) != -1 {
		z.Add(z, bigOne)
	}
	m := s
	c := new(big.Int).Exp(z, q, p)
	t := new(big.Int).Exp(a, q, p)
	qp1 := new(big.Int).Rsh(new(big.Int).Add(q, bigOne), 1)
	x := new(big.Int).Exp(a, qp1, p)
	for t.Cmp(bigOne) != 0 {
		// least i, 0 < i < m, with t^(2^i) = 1
		i := 0
		tt := new(big.Int).Set(t)
		for tt.Cmp(bigOne) != 0 {
			tt.Mul(tt, tt).Mod(tt, p)
			i++
			if i == m {
				return nil, false // cannot happen for a residue
			}
		}
		b := new(big.Int).Set(c)
		for j := 0; j < m-i-1; j++ {
			b.Mul(b, b).Mod(b, p)
		}
		m = i
		c.Mul(b, b).Mod(c, p)
		t.Mul(t, c).Mod(t, p)
		x.Mul(x, b).Mod(x, p)
	}
	if mulP(x, x, p).Cmp(a) != 0 {
		return nil, false
	}
	other := new(big.Int).Sub(p, x)
	if other.Cmp(x) < 0 {
		x = other
	}
	return x, true
}

// IsLargestFp is the ZCash "lexicographically largest" predicate on F_p: y > (p−1)/2,
// i.e. y is larger than its negation.
func IsLargestFp(y, p *big.Int) bool {
	half := new(big.Int).Rsh(new(big.Int).Sub(p, bigOne), 1)
	return modP(y, p).Cmp(half) > 0
}

// ---------------------------------------------------------------------------------------------
// Internal field abstraction: an element is a pair (A, B) meaning A + B·u with u² = −1;
// for prime fields B is nil throughout. This lets one set of short-Weierstrass formulas serve
// both F_p and F_p².
// ---------------------------------------------------------------------------------------------

type fe struct{ A, B *big.Int }

type field struct {
	p   *big.Int
	ext bool // true: F_p[u]/(u²+1)
}

func (f field) fromInt(v int64) fe {
	r := fe{A: modP(big.NewInt(v), f.p)}
	if f.ext {
		r.B = new(big.Int)
	}
	return r
}

func (f field) reduce(a fe) fe {
	r := fe{A: redP(a.A, f.p)}
	if f.ext {
		if a.B == nil {
			r.B = bigZero
		} else {
			r.B = redP(a.B, f.p)
		}
	}
	return r
}

func (f field) add(a, b fe) fe {
	r := fe{A: addP(a.A, b.A, f.p)}
	if f.ext {
		r.B = addP(a.B, b.B, f.p)
	}
	return r
}

func (f field) sub(a, b fe) fe {
	r := fe{A: subP(a.A, b.A, f.p)}
	if f.ext {
		r.B = subP(a.B, b.B, f.p)
	}
	return r
}

func (f field) neg(a fe) fe {
	r := fe{A: negP(a.A, f.p)}
	if f.ext {
		r.B = negP(a.B, f.p)
	}
	return r
}

func (f field) mul(a, b fe) fe {
	if !f.ext {
		return fe{A: mulP(a.A, b.A, f.p)}
	}
	// (a0 + a1 u)(b0 + b1 u) = (a0 b0 − a1 b1) + (a0 b1 + a1 b0) u
	t0 := new(big.Int).Mul(a.A, b.A)
	t1 := new(big.Int).Mul(a.B, b.B)
	t2 := new(big.Int).Mul(a.A, b.B)
	t3 := new(big.Int).Mul(a.B, b.A)
	t0.Sub(t0, t1)
	t2.Add(t2, t3)
	return fe{A: t0.Mod(t0, f.p), B: t2.Mod(t2, f.p)}
}

func (f field) sqr(a fe) fe { return f.mul(a, a) }

// mulInt multiplies by a small positive integer by repeated addition.
func (f field) mulInt(a fe, k int64) fe {
	if k < 1 {
		panic("refcurve: mulInt")
	}
	r := a
	for i := int64(1); i < k; i++ {
		r = f.add(r, a)
	}
	return r
}

func (f field) isZero(a fe) bool {
	if a.A.Sign() != 0 {
		return false
	}
	return !f.ext || a.B.Sign() == 0
}

func (f field) eq(a, b fe) bool {
	if a.A.Cmp(b.A) != 0 {
		return false
	}
	return !f.ext || a.B.Cmp(b.B) == 0
}

// inv panics on zero.
func (f field) inv(a fe) fe {
	if !f.ext {
		return fe{A: invP(a.A, f.p)}
	}
	// 1/(a0 + a1 u) = (a0 − a1 u)/(a0² + a1²)
	n := new(big.Int).Mul(a.A, a.A)
	n.Add(n, new(big.Int).Mul(a.B, a.B))
	ni := invP(n, f.p)
	return fe{A: mulP(a.A, ni, f.p), B: mulP(negP(a.B, f.p), ni, f.p)}
}

// sqrt returns a root (the lexicographically smaller of the two) and whether one exists.
func (f field) sqrt(a fe) (fe, bool) {
	if !f.ext {
		r, ok := SqrtFp(a.A, f.p)
		return fe{A: r}, ok
	}
	r, ok := sqrtFp2(a.A, a.B, f.p)
	if !ok {
		return fe{}, false
	}
	if f.isLargest(r) {
		r = f.neg(r)
	}
	return r, true
}

// isLargest: ZCash ordering — compare the u-coefficient first, then the constant coefficient.
func (f field) isLargest(y fe) bool {
	if f.ext && y.B.Sign() != 0 {
		return IsLargestFp(y.B, f.p)
	}
	return IsLargestFp(y.A, f.p)
}

// sqrtFp2 solves (x0 + x1 u)² = a0 + a1 u in F_p[u]/(u²+1) for p ≡ 3 (mod 4) by the
// "complex" method; the candidate is verified by squaring, so a returned root is always right.
func sqrtFp2(a0, a1, p *big.Int) (fe, bool) {
	f := field{p: p, ext: true}
	a := fe{A: modP(a0, p), B: modP(a1, p)}
	if new(big.Int).And(p, bigThree).Cmp(bigThree) != 0 {
		panic("refcurve: sqrtFp2 needs p ≡ 3 mod 4")
	}
	check := func(x fe) (fe, bool) {
		if f.eq(f.sqr(x), a) {
			return x, true
		}
		return fe{}, false
	}
	if a.B.Sign() == 0 {
		if r, ok := SqrtFp(a.A, p); ok {
			return check(fe{A: r, B: new(big.Int)})
		}
		// a0 is a non-residue; −1 is a non-residue too, so −a0 is a square and (r u)² = −r² = a0.
		r, ok := SqrtFp(negP(a.A, p), p)
		if !ok {
			return fe{}, false
		}
		return check(fe{A: new(big.Int), B: r})
	}
	// norm = a0² + a1² must be a square in F_p.
	n := addP(mulP(a.A, a.A, p), mulP(a.B, a.B, p), p)
	s, ok := SqrtFp(n, p)
	if !ok {
		return fe{}, false
	}
	half := invP(bigTwo, p)
	// x0² = (a0 ± s)/2 — exactly one choice is a square when a root exists.
	for _, sg := range []*big.Int{s, negP(s, p)} {
		t := mulP(addP(a.A, sg, p), half, p)
		x0, ok := SqrtFp(t, p)
		if !ok || x0.Sign() == 0 {
			continue
		}
		x1 := mulP(a.B, invP(mulP(bigTwo, x0, p), p), p)
		if r, ok := check(fe{A: x0, B: x1}); ok {
			return r, true
		}
	}
	return fe{}, false
}

// ---------------------------------------------------------------------------------------------
// Exported F_p² type for BLS12-381: Fp2{A,B} = A + B·u, u² = −1, over the BLS12-381 base prime.
// ---------------------------------------------------------------------------------------------

// Fp2 is an element A + B·u of F_p[u]/(u²+1) where p is the BLS12-381 base field prime.
// All methods return fresh reduced values and never modify their operands.
type Fp2 struct{ A, B *big.Int }

var blsFp2 field // set in curves.go init

func (x Fp2) fe() fe {
	a, b := x.A, x.B
	if a == nil {
		a = bigZero
	}
	if b == nil {
		b = bigZero
	}
	return blsFp2.reduce(fe{A: a, B: b})
}
func fp2From(e fe) Fp2 { return Fp2{A: e.A, B: e.B} }

// NewFp2 builds A + B·u from two integers (reduced mod p).
func NewFp2(a, b *big.Int) Fp2 { return Fp2{A: a, B: b}.Reduce() }

// Fp2FromInt64 builds a + b·u.
func Fp2FromInt64(a, b int64) Fp2 { return NewFp2(big.NewInt(a), big.NewInt(b)) }

func (x Fp2) Reduce() Fp2      { return fp2From(x.fe()) }
func (x Fp2) Add(y Fp2) Fp2    { return fp2From(blsFp2.add(x.fe(), y.fe())) }
func (x Fp2) Sub(y Fp2) Fp2    { return fp2From(blsFp2.sub(x.fe(), y.fe())) }
func (x Fp2) Mul(y Fp2) Fp2    { return fp2From(blsFp2.mul(x.fe(), y.fe())) }
func (x Fp2) Square() Fp2      { return fp2From(blsFp2.sqr(x.fe())) }
func (x Fp2) Neg() Fp2         { return fp2From(blsFp2.neg(x.fe())) }
func (x Fp2) IsZero() bool     { return blsFp2.isZero(x.fe()) }
func (x Fp2) Equal(y Fp2) bool { return blsFp2.eq(x.fe(), y.fe()) }
func (x Fp2) Conj() Fp2        { e := x.fe(); return Fp2{A: e.A, B: negP(e.B, blsFp2.p)} }
func (x Fp2) String() string   { e := x.fe(); return "(" + e.A.Text(16) + " + " + e.B.Text(16) + "·u)" }
func (x Fp2) IsLargest() bool  { return blsFp2.isLargest(x.fe()) }
func (x Fp2) Inv() (Fp2, bool) {
	if x.IsZero() {
		return Fp2{}, false
	}
	return fp2From(blsFp2.inv(x.fe())), true
}

// Sqrt returns a square root (the one that is NOT lexicographically largest) and ok=false if x
// is not a square in F_p².
func (x Fp2) Sqrt() (Fp2, bool) {
	r, ok := blsFp2.sqrt(x.fe())
	if !ok {
		return Fp2{}, false
	}
	return fp2From(r), true
}

// SqrtFp2 is Fp2.Sqrt as a function.
func SqrtFp2(x Fp2) (Fp2, bool) { return x.Sqrt() }

// Sgn0 is the RFC 9380 sgn0 for m = 2: parity of A, or of B when A = 0.
func (x Fp2) Sgn0() int {
	e := x.fe()
	if e.A.Sign() != 0 {
		return int(e.A.Bit(0))
	}
	return int(e.B.Bit(0))
}
