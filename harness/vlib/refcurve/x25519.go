package refcurve

import (
	"errors"
	"math/big"
)

// X25519Ladder is the RFC 7748 §5 Montgomery ladder on u-coordinates for curve25519, written
// from the RFC pseudocode with math/big: it returns the u-coordinate of [k](u, ·), with the
// RFC's convention that the point at infinity (and the order-2 point u = 0) yield 0. k is used
// as given (no clamping, no reduction); bits is the number of scalar bits to process (255 for
// X25519; pass k.BitLen() or more for arbitrary k). u is reduced mod p. The ladder is also
// well defined for u on the quadratic twist.
func X25519Ladder(k, u *big.Int, bits int) *big.Int {
	P := curve25519.P
	a24 := big.NewInt(121665)
	x1 := modP(u, P)
	x2, z2 := big.NewInt(1), big.NewInt(0)
	x3, z3 := new(big.Int).Set(x1), big.NewInt(1)
	swap := uint(0)
	for t := bits - 1; t >= 0; t-- {
		kt := k.Bit(t)
		swap ^= kt
		if swap == 1 {
			x2, x3 = x3, x2
			z2, z3 = z3, z2
		}
		swap = kt
		A := addP(x2, z2, P)
		AA := mulP(A, A, P)
		B := subP(x2, z2, P)
		BB := mulP(B, B, P)
		E := subP(AA, BB, P)
		C := addP(x3, z3, P)
		D := subP(x3, z3, P)
		DA := mulP(D, A, P)
		CB := mulP(C, B, P)
		s := addP(DA, CB, P)
		x3 = mulP(s, s, P)
		d := subP(DA, CB, P)
		z3 = mulP(x1, mulP(d, d, P), P)
		x2 = mulP(AA, BB, P)
		z2 = mulP(E, addP(AA, mulP(a24, E, P), P), P)
	}
	if swap == 1 {
		x2, x3 = x3, x2
		z2, z3 = z3, z2
	}
	// x2 · z2^(p−2)
	e := new(big.Int).Sub(P, bigTwo)
	return mulP(x2, new(big.Int).Exp(z2, e, P), P)
}

// X25519Clamp applies decodeScalar25519 of RFC 7748 §5 to 32 little-endian bytes.
func X25519Clamp(k []byte) *big.Int {
	if len(k) != 32 {
		panic("refcurve: X25519Clamp needs 32 bytes")
	}
	b := append([]byte(nil), k...)
	b[0] &= 248
	b[31] &= 127
	b[31] |= 64
	return leToInt(b)
}

// X25519 is the RFC 7748 function X25519(k, u) on 32-byte strings (scalar clamped, top bit of u
// masked, non-canonical u accepted and reduced). The all-zero output check of §6.1 is NOT
// applied; the result is returned as is.
func X25519(k, u []byte) ([]byte, error) {
	if len(k) != 32 || len(u) != 32 {
		return nil, errors.New("refcurve: X25519 needs 32-byte inputs")
	}
	uu, _ := DecodeU(u)
	r := X25519Ladder(X25519Clamp(k), uu, 255)
	return intToLE(r, 32), nil
}

// EdwardsToMontgomery is the RFC 7748 §4.1 birational map edwards25519 → curve25519:
// (u, v) = ((1+y)/(1−y), sqrt(−486664)·u/x), extended to the two exceptional points:
// the neutral element (0, 1) ↦ Inf and the order-2 point (0, −1) ↦ (0, 0). It is a group
// isomorphism sending the edwards25519 base point to (9, v_RFC7748).
func EdwardsToMontgomery(p Point) Point {
	P := ed25519.P
	x, y := modP(p.X, P), modP(p.Y, P)
	if x.Sign() == 0 {
		if y.Cmp(bigOne) == 0 {
			return Infinity()
		}
		return Point{X: new(big.Int), Y: new(big.Int)}
	}
	u := mulP(addP(bigOne, y, P), invP(subP(bigOne, y, P), P), P)
	v := mulP(mulP(sqrtM486664, u, P), invP(x, P), P)
	return Point{X: u, Y: v}
}

// MontgomeryToEdwards is the inverse map: (x, y) = (sqrt(−486664)·u/v, (u−1)/(u+1)), with
// Inf ↦ (0, 1) and (0, 0) ↦ (0, −1).
func MontgomeryToEdwards(p Point) Point {
	P := ed25519.P
	if p.Inf {
		return ed25519.Neutral()
	}
	u, v := modP(p.X, P), modP(p.Y, P)
	if v.Sign() == 0 {
		// only (0,0) has v = 0 on curve25519 (A² − 4 is a non-residue)
		return Point{X: new(big.Int), Y: new(big.Int).Sub(P, bigOne)}
	}
	x := mulP(mulP(sqrtM486664, u, P), invP(v, P), P)
	y := mulP(subP(u, bigOne, P), invP(addP(u, bigOne, P), P), P)
	return Point{X: x, Y: y}
}

// SqrtMinus486664 returns the constant sqrt(−486664) mod 2^255−19 used by the maps above.
func SqrtMinus486664() *big.Int { return new(big.Int).Set(sqrtM486664) }
