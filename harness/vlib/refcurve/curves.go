package refcurve

import "math/big"

// All constants below are typed in from the standards named at each curve; none is taken from
// the library under test. Every one of them is cross-checked by the self-tests (primality of p
// and N, generator on the curve, [N]G = neutral, Hasse bound / exact group order, agreement with
// crypto/elliptic and crypto/ecdh where the standard library has the curve).

var (
	k256, p256, pallas, vesta, ed25519, curve25519, bls12381g1, bls12381g2 *Curve
	pallasMina, vestaMina                                                  *Curve

	// sqrtM486664 is the square root of −486664 = −(A+2) used by the RFC 7748 birational map, with
	// the sign that sends the edwards25519 base point to the curve25519 base point (9, v) of RFC 7748.
	sqrtM486664 *big.Int
)

func byteLen(p *big.Int) int { return (p.BitLen() + 7) / 8 }

func newFpCurve(name string, kind Kind, p *big.Int) *Curve {
	return &Curve{Name: name, Kind: kind, P: p, ByteLen: byteLen(p), f: field{p: p}}
}

func init() {
	// --- secp256k1: SEC 2 v2 §2.4.1 -----------------------------------------------------------
	k256 = newFpCurve("secp256k1", WeierstrassFp,
		hexInt("FFFFFFFFFFFFFFFFFFFFFFFFFFFFFFFFFFFFFFFFFFFFFFFFFFFFFFFEFFFFFC2F"))
	k256.A = big.NewInt(0)
	k256.B = big.NewInt(7)
	k256.N = hexInt("FFFFFFFFFFFFFFFFFFFFFFFFFFFFFFFEBAAEDCE6AF48A03BBFD25E8CD0364141")
	k256.H = big.NewInt(1)
	k256.G = Point{
		X: hexInt("79BE667EF9DCBBAC55A06295CE870B07029BFCDB2DCE28D959F2815B16F81798"),
		Y: hexInt("483ADA7726A3C4655DA4FBFC0E1108A8FD17B448A68554199C47D08FFB10D4B8"),
	}

	// --- P-256 (secp256r1): FIPS 186-4 D.1.2.3 / SEC 2 §2.4.2 ---------------------------------
	p256 = newFpCurve("P-256", WeierstrassFp,
		hexInt("FFFFFFFF00000001000000000000000000000000FFFFFFFFFFFFFFFFFFFFFFFF"))
	p256.A = new(big.Int).Sub(p256.P, bigThree)
	p256.B = hexInt("5AC635D8AA3A93E7B3EBBD55769886BC651D06B0CC53B0F63BCE3C3E27D2604B")
	p256.N = hexInt("FFFFFFFF00000000FFFFFFFFFFFFFFFFBCE6FAADA7179E84F3B9CAC2FC632551")
	p256.H = big.NewInt(1)
	p256.G = Point{
		X: hexInt("6B17D1F2E12C4247F8BCE6E563A440F277037D812DEB33A0F4A13945D898C296"),
		Y: hexInt("4FE342E2FE1A7F9B8EE7EB4A7C0F9E162BCE33576B315ECECBB6406837BF51F5"),
	}

	// --- Pasta curves (Zcash, "The Pasta curves for Halo 2"): y² = x³ + 5, generator (−1, 2);
	// each curve's group order is the other's base-field prime. -------------------------------
	pallasP := hexInt("40000000000000000000000000000000224698fc094cf91b992d30ed00000001")
	vestaP := hexInt("40000000000000000000000000000000224698fc0994a8dd8c46eb2100000001")
	pallas = newFpCurve("pallas", WeierstrassFp, pallasP)
	pallas.A, pallas.B = big.NewInt(0), big.NewInt(5)
	pallas.N, pallas.H = vestaP, big.NewInt(1)
	pallas.G = Point{X: new(big.Int).Sub(pallasP, bigOne), Y: big.NewInt(2)}
	vesta = newFpCurve("vesta", WeierstrassFp, vestaP)
	vesta.A, vesta.B = big.NewInt(0), big.NewInt(5)
	vesta.N, vesta.H = pallasP, big.NewInt(1)
	vesta.G = Point{X: new(big.Int).Sub(vestaP, bigOne), Y: big.NewInt(2)}

	// Mina uses the same two curves with the generator (1, y), y² = 1 + 5 = 6 (o1-labs mina-curves
	// crate, G_GENERATOR_X / G_GENERATOR_Y; Mina signature specification for pallas). The
	// self-tests re-derive y by solving y² = 6 and check the order.
	pm := *pallas
	pm.Name = "pallas/mina"
	pm.G = Point{X: big.NewInt(1), Y: decInt("12418654782883325593414442427049395787963493412651469444558597405572177144507")}
	pallasMina = &pm
	vm := *vesta
	vm.Name = "vesta/mina"
	vm.G = Point{X: big.NewInt(1), Y: decInt("11426906929455361843568202299992114520848200991084027513389447476559454104162")}
	vestaMina = &vm

	// --- edwards25519: RFC 8032 §5.1 / RFC 7748 §4.1: −x² + y² = 1 + d x² y², d = −121665/121666,
	// p = 2^255 − 19, L = 2^252 + 27742317777372353535851937790883648493, cofactor 8,
	// base point: y = 4/5, x even ("positive"). ----------------------------------------------------
	p25519 := new(big.Int).Sub(new(big.Int).Lsh(bigOne, 255), big.NewInt(19))
	ed25519 = newFpCurve("edwards25519", TwistedEdwards, p25519)
	ed25519.A = new(big.Int).Sub(p25519, bigOne)
	ed25519.D = mulP(negP(big.NewInt(121665), p25519), invP(big.NewInt(121666), p25519), p25519)
	ed25519.N = new(big.Int).Add(new(big.Int).Lsh(bigOne, 252), decInt("27742317777372353535851937790883648493"))
	ed25519.H = big.NewInt(8)
	gy := mulP(big.NewInt(4), invP(big.NewInt(5), p25519), p25519)
	g, ok := ed25519.LiftY(gy, false)
	if !ok {
		panic("refcurve: edwards25519 base point")
	}
	ed25519.G = g

	// --- curve25519: RFC 7748 §4.1: v² = u³ + 486662 u² + u, base point u = 9. ------------------
	curve25519 = newFpCurve("curve25519", Montgomery, p25519)
	curve25519.A = big.NewInt(486662)
	curve25519.B = big.NewInt(1)
	curve25519.N = ed25519.N
	curve25519.H = big.NewInt(8)
	// Base point (9, v) with v as printed in RFC 7748 §4.1 (the self-tests check that it is on the
	// curve and is the image of the edwards25519 base point under the birational map).
	curve25519.G = Point{
		X: big.NewInt(9),
		Y: decInt("14781619447589544791020593568409986887264606134616475288964881837755586237401"),
	}
	// sqrt(−486664) with the sign fixed by "edwards base point ↦ montgomery base point":
	// v = s·u/x  ⇒  s = v·x/u at the base points.
	r, ok := SqrtFp(negP(big.NewInt(486664), p25519), p25519)
	if !ok {
		panic("refcurve: sqrt(-486664)")
	}
	want := mulP(mulP(curve25519.G.Y, ed25519.G.X, p25519), invP(curve25519.G.X, p25519), p25519)
	if r.Cmp(want) != 0 {
		r = negP(r, p25519)
	}
	if r.Cmp(want) != 0 {
		panic("refcurve: curve25519 base point is not the image of the edwards25519 base point")
	}
	sqrtM486664 = r

	// --- BLS12-381 (draft-irtf-cfrg-pairing-friendly-curves §4.2.1; ZCash protocol spec §5.4.9.2):
	// G1: y² = x³ + 4 over F_p, G2: y² = x³ + 4(1+u) over F_p² = F_p[u]/(u²+1). ---------------------
	blsP := hexInt("1a0111ea397fe69a4b1ba7b6434bacd764774b84f38512bf6730d2a0f6b0f6241eabfffeb153ffffb9feffffffffaaab")
	blsR := hexInt("73eda753299d7d483339d80809a1d80553bda402fffe5bfeffffffff00000001")
	blsFp2 = field{p: blsP, ext: true}
	bls12381g1 = newFpCurve("BLS12-381 G1", WeierstrassFp, blsP)
	bls12381g1.A, bls12381g1.B = big.NewInt(0), big.NewInt(4)
	bls12381g1.N = blsR
	bls12381g1.H = hexInt("396c8c005555e1568c00aaab0000aaab")
	bls12381g1.G = Point{
		X: hexInt("17f1d3a73197d7942695638c4fa9ac0fc3688c4f9774b905a14e3a3f171bac586c55e83ff97a1aeffb3af00adb22c6bb"),
		Y: hexInt("08b3f481e3aaa0f1a09e30ed741d8ae4fcf5e095d5d00af600db18cb2c04b3edd03cc744a2888ae40caa232946c5e7e1"),
	}
	bls12381g2 = newFpCurve("BLS12-381 G2", WeierstrassFp2, blsP)
	bls12381g2.f = blsFp2
	bls12381g2.A, bls12381g2.A1 = big.NewInt(0), big.NewInt(0)
	bls12381g2.B, bls12381g2.B1 = big.NewInt(4), big.NewInt(4)
	bls12381g2.N = blsR
	bls12381g2.H = hexInt("5d543a95414e7f1091d50792876a202cd91de4547085abaa68a205b2e5a7ddfa628f1cb4d9e82ef21537e293a6691ae1616ec6e786f0c70cf1c38e31c7238e5")
	bls12381g2.G = Point{
		X:  hexInt("024aa2b2f08f0a91260805272dc51051c6e47ad4fa403b02b4510b647ae3d1770bac0326a805bbefd48056c8c121bdb8"),
		X1: hexInt("13e02b6052719f607dacd3a088274f65596bd0d09920b61ab5da61bbdc7f5049334cf11213945d57e5ac7d055d042b7e"),
		Y:  hexInt("0ce5d527727d6e118cc9cdc6da2e351aadfd9baa8cbdd3a76d429a695160d12c923ac9cc3baca289e193548608b82801"),
		Y1: hexInt("0606c4a02ea734cc32acd2b02bc28b99cb3e287e85a763af267492ab572e99ab3f370d275cec1da1aaa9075ff05f79be"),
	}
}

// K256 returns secp256k1 (SEC 2).
func K256() *Curve { return k256 }

// P256 returns NIST P-256 / secp256r1 (FIPS 186).
func P256() *Curve { return p256 }

// Pallas returns the Pasta curve pallas.
func Pallas() *Curve { return pallas }

// Vesta returns the Pasta curve vesta.
func Vesta() *Curve { return vesta }

// PallasMina returns pallas with Mina's generator (1, y) instead of Zcash's (−1, 2): same curve,
// same group, different G — so ScalarBaseMul, ECDSASign/Verify and SchnorrEquation differ.
// (Not included in All(); ByName("pallas/mina") finds it.)
func PallasMina() *Curve { return pallasMina }

// VestaMina returns vesta with the generator (1, y) of the o1-labs mina-curves crate.
func VestaMina() *Curve { return vestaMina }

// Ed25519 returns edwards25519 (RFC 8032), a twisted Edwards curve with cofactor 8.
func Ed25519() *Curve { return ed25519 }

// Curve25519 returns curve25519 (RFC 7748) as a full Montgomery curve with affine (u, v) points.
func Curve25519() *Curve { return curve25519 }

// BLS12381G1 returns E(F_p): y² = x³ + 4 with the standard G1 generator.
func BLS12381G1() *Curve { return bls12381g1 }

// BLS12381G2 returns E'(F_p²): y² = x³ + 4(1+u) with the standard G2 generator.
func BLS12381G2() *Curve { return bls12381g2 }

// All returns every curve of the model.
func All() []*Curve {
	return []*Curve{k256, p256, pallas, vesta, ed25519, curve25519, bls12381g1, bls12381g2}
}

// ByName looks a curve up by Name; nil if unknown.
func ByName(name string) *Curve {
	for _, c := range append(All(), pallasMina, vestaMina) {
		if c.Name == name {
			return c
		}
	}
	return nil
}
