package refcurve

import (
	"crypto/sha3"
	"encoding/hex"
	"math/big"
	"os"
	"runtime"
	"runtime/debug"
	"strconv"
	"testing"
)

// drbg is a deterministic byte stream (SHAKE256 of a label) for the self-tests.
type drbg struct{ x *sha3.SHAKE }

func newDRBG(label string) *drbg {
	x := sha3.NewSHAKE256()
	x.Write([]byte("refcurve self-test/" + label))
	return &drbg{x: x}
}

func (d *drbg) Read(b []byte) (int, error) { return d.x.Read(b) }

func (d *drbg) bytes(n int) []byte {
	b := make([]byte, n)
	d.x.Read(b)
	return b
}

// below returns a uniform-ish integer in [0, n).
func (d *drbg) below(n *big.Int) *big.Int {
	b := d.bytes((n.BitLen()+7)/8 + 16)
	return new(big.Int).Mod(new(big.Int).SetBytes(b), n)
}

func (d *drbg) intn(n int) int { return int(d.below(big.NewInt(int64(n))).Int64()) }

func (d *drbg) fp2(p *big.Int) Fp2 { return Fp2{A: d.below(p), B: d.below(p)} }

// randPoint returns a point of the full group E (not only the prime-order subgroup when H > 1):
// [k]G, plus — with probability 1/2 on cofactor > 1 curves — a component outside the subgroup.
func (d *drbg) randPoint(c *Curve) Point {
	p := c.ScalarMul(c.G, d.below(c.N))
	if c.H.Cmp(bigOne) != 0 && d.intn(2) == 1 {
		q, _ := c.PointOutsideSubgroup(uint64(d.intn(1000) + 2))
		p = c.Add(p, c.ScalarMul(q, d.below(c.GroupOrder())))
	}
	return p
}

func unhex(t testing.TB, s string) []byte {
	t.Helper()
	b, err := hex.DecodeString(s)
	if err != nil {
		t.Fatalf("bad hex %q: %v", s, err)
	}
	return b
}

func hexOf(b []byte) string { return hex.EncodeToString(b) }

// TestMain: the model allocates ≈ 1 MB of short-lived big.Ints per scalar multiplication and the
// tests are sequential, so a tiny live heap with the default GOGC/GOMAXPROCS spends most of its
// time waking garbage-collector workers — badly so on a machine shared with other jobs.
func TestMain(m *testing.M) {
	gogc := 800
	if v := os.Getenv("REFCURVE_GOGC"); v != "" {
		gogc, _ = strconv.Atoi(v)
	}
	debug.SetGCPercent(gogc)
	if runtime.GOMAXPROCS(0) > 2 {
		runtime.GOMAXPROCS(2)
	}
	os.Exit(m.Run())
}
