package refcurve

import (
	"crypto/sha256"
	"crypto/sha512"
	"encoding/json"
	"hash"
	"math/big"
	"os"
	"path/filepath"
	"strings"
	"testing"
)

// RFC 9380 Appendix K.1 (expand_message_xmd, SHA-256), K.2 (SHA-512), K.3–K.6 (SHAKE).
func TestExpandMessageVectors(t *testing.T) {
	long := func(prefix string) string {
		return prefix + strings.Repeat("1", 256-len(prefix))
	}
	q128 := "q128_" + strings.Repeat("q", 128)
	for i, v := range []struct {
		kind, dst, msg string
		n              int
		want           string
	}{
		{"xmd256", "QUUX-V01-CS02-with-expander-SHA256-128", "", 32, "68a985b87eb6b46952128911f2a4412bbc302a9d759667f87f7a21d803f07235"},
		{"xmd256", "QUUX-V01-CS02-with-expander-SHA256-128", "abc", 32, "d8ccab23b5985ccea865c6c97b6e5b8350e794e603b4b97902f53a8a0d605615"},
		{"xmd256", "QUUX-V01-CS02-with-expander-SHA256-128", "abcdef0123456789", 32, "eff31487c770a893cfb36f912fbfcbff40d5661771ca4b2cb4eafe524333f5c1"},
		{"xmd256", "QUUX-V01-CS02-with-expander-SHA256-128", q128, 32, "b23a1d2b4d97b2ef7785562a7e8bac7eed54ed6e97e29aa51bfe3f12ddad1ff9"},
		{"xmd256", "QUUX-V01-CS02-with-expander-SHA256-128", "", 128, "af84c27ccfd45d41914fdff5df25293e221afc53d8ad2ac06d5e3e29485dadbee0d121587713a3e0dd4d5e69e93eb7cd4f5df4cd103e188cf60cb02edc3edf18eda8576c412b18ffb658e3dd6ec849469b979d444cf7b26911a08e63cf31f9dcc541708d3491184472c2c29bb749d4286b004ceb5ee6b9a7fa5b646c993f0ced"},
		{"xmd256", "QUUX-V01-CS02-with-expander-SHA256-128", "abc", 128, "abba86a6129e366fc877aab32fc4ffc70120d8996c88aee2fe4b32d6c7b6437a647e6c3163d40b76a73cf6a5674ef1d890f95b664ee0afa5359a5c4e07985635bbecbac65d747d3d2da7ec2b8221b17b0ca9dc8a1ac1c07ea6a1e60583e2cb00058e77b7b72a298425cd1b941ad4ec65e8afc50303a22c0f99b0509b4c895f40"},
		{"xmd256", long("QUUX-V01-CS02-with-expander-SHA256-128-long-DST-"), "", 32, "e8dc0c8b686b7ef2074086fbdd2f30e3f8bfbd3bdf177f73f04b97ce618a3ed3"},
		{"xmd256", long("QUUX-V01-CS02-with-expander-SHA256-128-long-DST-"), "abc", 32, "52dbf4f36cf560fca57dedec2ad924ee9c266341d8f3d6afe5171733b16bbb12"},
		{"xmd512", "QUUX-V01-CS02-with-expander-SHA512-256", "", 32, "6b9a7312411d92f921c6f68ca0b6380730a1a4d982c507211a90964c394179ba"},
		{"xmd512", "QUUX-V01-CS02-with-expander-SHA512-256", "abc", 32, "0da749f12fbe5483eb066a5f595055679b976e93abe9be6f0f6318bce7aca8dc"},
		{"shake128", "QUUX-V01-CS02-with-expander-SHAKE128", "", 32, "86518c9cd86581486e9485aa74ab35ba150d1c75c88e26b7043e44e2acd735a2"},
		{"shake128", "QUUX-V01-CS02-with-expander-SHAKE128", "abc", 32, "8696af52a4d862417c0763556073f47bc9b9ba43c99b505305cb1ec04a9ab468"},
		{"shake128", "QUUX-V01-CS02-with-expander-SHAKE128", "abcdef0123456789", 32, "912c58deac4821c3509dbefa094df54b34b8f5d01a191d1d3108a2c89077acca"},
		{"shake128", long("QUUX-V01-CS02-with-expander-SHAKE128-long-DST-"), "", 32, "827c6216330a122352312bccc0c8d6e7a146c5257a776dbd9ad9d75cd880fc53"},
		{"shake128", long("QUUX-V01-CS02-with-expander-SHAKE128-long-DST-"), "abc", 32, "690c8d82c7213b4282c6cb41c00e31ea1d3e2005f93ad19bbf6da40f15790c5c"},
		{"shake256", "QUUX-V01-CS02-with-expander-SHAKE256", "", 32, "2ffc05c48ed32b95d72e807f6eab9f7530dd1c2f013914c8fed38c5ccc15ad76"},
		{"shake256", "QUUX-V01-CS02-with-expander-SHAKE256", "abc", 32, "b39e493867e2767216792abce1f2676c197c0692aed061560ead251821808e07"},
	} {
		got, err := expandByKind(v.kind, []byte(v.msg), []byte(v.dst), v.n)
		if err != nil || hexOf(got) != v.want {
			t.Errorf("vector %d (%s): %x err=%v", i, v.kind, got, err)
		}
	}
	// parameter limits
	if _, err := ExpandMessageXMD(sha256.New, nil, []byte("d"), 255*32+1); err == nil {
		t.Error("ell > 255 must fail")
	}
	if _, err := ExpandMessageXMD(sha256.New, nil, []byte("d"), 255*32); err != nil {
		t.Error("ell = 255 must work")
	}
	if _, err := ExpandMessageSHAKE128(nil, []byte("d"), 65536); err == nil {
		t.Error("len > 65535 must fail")
	}
}

func expandByKind(kind string, msg, dst []byte, n int) ([]byte, error) {
	switch kind {
	case "xmd256":
		return ExpandMessageXMD(sha256.New, msg, dst, n)
	case "xmd512":
		return ExpandMessageXMD(func() hash.Hash { return sha512.New() }, msg, dst, n)
	case "shake128":
		return ExpandMessageSHAKE128(msg, dst, n)
	case "shake256":
		return ExpandMessageSHAKE256(msg, dst, n)
	}
	panic(kind)
}

type h2cVec struct {
	msg      string
	u        []string
	q0x, q0y string
	q1x, q1y string
	px, py   string
}

// RFC 9380 Appendix J.1.1 (P256_XMD:SHA-256_SSWU_RO_).
var p256RO = []h2cVec{
	{"", []string{"ad5342c66a6dd0ff080df1da0ea1c04b96e0330dd89406465eeba11582515009", "8c0f1d43204bd6f6ea70ae8013070a1518b43873bcd850aafa0a9e220e2eea5a"},
		"ab640a12220d3ff283510ff3f4b1953d09fad35795140b1c5d64f313967934d5", "dccb558863804a881d4fff3455716c836cef230e5209594ddd33d85c565b19b1",
		"51cce63c50d972a6e51c61334f0f4875c9ac1cd2d3238412f84e31da7d980ef5", "b45d1a36d00ad90e5ec7840a60a4de411917fbe7c82c3949a6e699e5a1b66aac",
		"2c15230b26dbc6fc9a37051158c95b79656e17a1a920b11394ca91c44247d3e4", "8a7a74985cc5c776cdfe4b1f19884970453912e9d31528c060be9ab5c43e8415"},
	{"abc", []string{"afe47f2ea2b10465cc26ac403194dfb68b7f5ee865cda61e9f3e07a537220af1", "379a27833b0bfe6f7bdca08e1e83c760bf9a338ab335542704edcd69ce9e46e0"},
		"5219ad0ddef3cc49b714145e91b2f7de6ce0a7a7dc7406c7726c7e373c58cb48", "7950144e52d30acbec7b624c203b1996c99617d0b61c2442354301b191d93ecf",
		"019b7cb4efcfeaf39f738fe638e31d375ad6837f58a852d032ff60c69ee3875f", "589a62d2b22357fed5449bc38065b760095ebe6aeac84b01156ee4252715446e",
		"0bb8b87485551aa43ed54f009230450b492fead5f1cc91658775dac4a3388a0f", "5c41b3d0731a27a7b14bc0bf0ccded2d8751f83493404c84a88e71ffd424212e"},
	{"abcdef0123456789", []string{"0fad9d125a9477d55cf9357105b0eb3a5c4259809bf87180aa01d651f53d312c", "b68597377392cd3419d8fcc7d7660948c8403b19ea78bbca4b133c9d2196c0fb"},
		"a17bdf2965eb88074bc01157e644ed409dac97cfcf0c61c998ed0fa45e79e4a2", "4f1bc80c70d411a3cc1d67aeae6e726f0f311639fee560c7f5a664554e3c9c2e",
		"7da48bb67225c1a17d452c983798113f47e438e4202219dd0715f8419b274d66", "b765696b2913e36db3016c47edb99e24b1da30e761a8a3215dc0ec4d8f96e6f9",
		"65038ac8f2b1def042a5df0b33b1f4eca6bff7cb0f9c6c1526811864e544ed80", "cad44d40a656e7aff4002a8de287abc8ae0482b5ae825822bb870d6df9b56ca3"},
}

func TestHashToCurveP256Vectors(t *testing.T) {
	c := P256()
	dst := []byte("QUUX-V01-CS02-with-P256_XMD:SHA-256_SSWU_RO_")
	for i, v := range p256RO {
		p, u, q, err := HashToCurveP256([]byte(v.msg), dst)
		if err != nil {
			t.Fatal(err)
		}
		if u[0].Cmp(hexInt(v.u[0])) != 0 || u[1].Cmp(hexInt(v.u[1])) != 0 {
			t.Errorf("RO vector %d: u", i)
		}
		if !c.Equal(q[0], Point{X: hexInt(v.q0x), Y: hexInt(v.q0y)}) || !c.Equal(q[1], Point{X: hexInt(v.q1x), Y: hexInt(v.q1y)}) {
			t.Errorf("RO vector %d: Q0/Q1", i)
		}
		if !c.Equal(p, Point{X: hexInt(v.px), Y: hexInt(v.py)}) || !c.IsOnCurve(p) {
			t.Errorf("RO vector %d: P = %v", i, p)
		}
	}
	// RFC 9380 J.1.2 (NU), msg = "abc"
	p, err := EncodeToCurveP256([]byte("abc"), []byte("QUUX-V01-CS02-with-P256_XMD:SHA-256_SSWU_NU_"))
	if err != nil || !c.Equal(p, Point{X: hexInt("fc3f5d734e8dce41ddac49f47dd2b8a57257522a865c124ed02b92b5237befa4"), Y: hexInt("fe4d197ecf5a62645b9690599e1d80e82c500b22ac705a0b421fac7b47157866")}) {
		t.Errorf("NU vector: %v", p)
	}
	// exceptional input of the SSWU map: u = 0 (tv1 = 0 branch) still lands on the curve
	if q := c.MapToCurveSSWU(P256SSWUZ(), big.NewInt(0)); !c.IsOnCurve(q) {
		t.Error("SSWU(0) off curve")
	}
	// Z = −10 satisfies the RFC's requirements: non-square, and g(B/(Z·A)) is square
	z := modP(P256SSWUZ(), c.P)
	if LegendreFp(z, c.P) != -1 {
		t.Error("Z must be a non-square")
	}
	x := mulP(c.B, invP(mulP(z, c.A, c.P), c.P), c.P)
	if LegendreFp(c.rhsW(fe{A: x}).A, c.P) != 1 {
		t.Error("g(B/(Z·A)) must be square")
	}
	// sgn0 agreement and landing on the curve for many u
	d := newDRBG("sswu")
	for i := 0; i < 50; i++ {
		u := d.below(c.P)
		q := c.MapToCurveSSWU(P256SSWUZ(), u)
		if !c.IsOnCurve(q) || Sgn0Fp(q.Y, c.P) != Sgn0Fp(u, c.P) {
			t.Fatalf("SSWU(%v)", u)
		}
	}
}

// If the repository's copies of the RFC 9380 vectors are present, run all of them too
// (self-test only; skipped silently when /repo is absent).
func TestRFC9380VectorsFromRepoFiles(t *testing.T) {
	root := os.Getenv("VERIF_REPO")
	if root == "" {
		root = "/repo"
	}
	base := filepath.Join(root, "pkg/base/curves")
	expFiles := map[string]string{
		"xmd_sha256.json": "xmd256", "xmd_sha256_long_dst.json": "xmd256", "xmd_sha512.json": "xmd512",
		"xof_shake128.json": "shake128", "xof_shake128_long_dst.json": "shake128", "xof_shake256.json": "shake256",
	}
	n := 0
	for file, kind := range expFiles {
		raw, err := os.ReadFile(filepath.Join(base, "impl/rfc9380/expanders/testvectors", file))
		if err != nil {
			continue
		}
		var doc struct {
			Dst   string `json:"dst"`
			Cases []struct {
				Msg   string `json:"msg"`
				Len   int    `json:"len_in_bytes"`
				Bytes string `json:"uniform_bytes"`
			} `json:"cases"`
		}
		if err := json.Unmarshal(raw, &doc); err != nil {
			t.Fatalf("%s: %v", file, err)
		}
		for i, cs := range doc.Cases {
			got, err := expandByKind(kind, []byte(cs.Msg), []byte(doc.Dst), cs.Len)
			if err != nil || hexOf(got) != cs.Bytes {
				t.Errorf("%s case %d: mismatch", file, i)
			}
			n++
		}
	}
	for _, file := range []string{"p256_xmd_sha256_sswu_ro.json", "p256_xmd_sha256_sswu_nu.json"} {
		raw, err := os.ReadFile(filepath.Join(base, "p256/impl/testvectors", file))
		if err != nil {
			continue
		}
		var doc struct {
			Dst     string `json:"dst"`
			Vectors []struct {
				Msg string `json:"msg"`
				P   struct{ X, Y string }
			} `json:"vectors"`
		}
		if err := json.Unmarshal(raw, &doc); err != nil {
			t.Fatalf("%s: %v", file, err)
		}
		for i, v := range doc.Vectors {
			var p Point
			if strings.Contains(file, "_ro") {
				p, _, _, _ = HashToCurveP256([]byte(v.Msg), []byte(doc.Dst))
			} else {
				p, _ = EncodeToCurveP256([]byte(v.Msg), []byte(doc.Dst))
			}
			if !P256().Equal(p, Point{X: hexInt(v.P.X), Y: hexInt(v.P.Y)}) {
				t.Errorf("%s vector %d: mismatch", file, i)
			}
			n++
		}
	}
	t.Logf("checked %d vectors from %s", n, base)
}
