package refcurve

import (
	"math/big"
	"testing"
)

func TestSmallOrderPoints(t *testing.T) {
	ed, mo := Ed25519(), Curve25519()
	for _, c := range []*Curve{ed, mo} {
		pts, orders := c.SmallOrderPoints()
		want := []int{1, 2, 4, 4, 8, 8, 8, 8}
		if len(pts) != 8 {
			t.Fatalf("%s: %d small-order points", c.Name, len(pts))
		}
		for i, p := range pts {
			if orders[i] != want[i] || c.PointOrder(p, 8) != want[i] {
				t.Errorf("%s: point %d has order %d, want %d", c.Name, i, orders[i], want[i])
			}
			if !c.IsOnCurve(p) || !c.IsSmallOrder(p) {
				t.Errorf("%s: point %d not a small-order curve point", c.Name, i)
			}
			if c.IsInPrimeSubgroup(p) != (i == 0) {
				t.Errorf("%s: point %d subgroup membership", c.Name, i)
			}
			for j := 0; j < i; j++ {
				if c.Equal(pts[j], p) {
					t.Errorf("%s: points %d and %d coincide", c.Name, j, i)
				}
			}
			// closed under addition
			for _, q := range pts {
				if !c.IsSmallOrder(c.Add(p, q)) {
					t.Errorf("%s: small-order points not closed under addition", c.Name)
				}
			}
		}
		// second call returns equal (cached) data, and callers cannot corrupt the cache
		pts[0] = c.G
		again, _ := c.SmallOrderPoints()
		if !c.IsNeutral(again[0]) {
			t.Errorf("%s: cache corrupted by caller", c.Name)
		}
	}
	// Structure known from the literature: edwards25519 torsion = {(0,1), (0,−1), (±√−1, 0), 4 points of order 8};
	// curve25519 small-order u-coordinates = {0, 1, u8, u8'}; the published list of low-order inputs
	// (cr.yp.to/ecdh.html) additionally has −1, which is the order-4 abscissa on the quadratic twist.
	p := ed.P
	pts, _ := ed.SmallOrderPoints()
	if pts[1].X.Sign() != 0 || pts[1].Y.Cmp(new(big.Int).Sub(p, bigOne)) != 0 {
		t.Error("edwards order-2 point is not (0, −1)")
	}
	for _, q := range pts[2:4] {
		if q.Y.Sign() != 0 || mulP(q.X, q.X, p).Cmp(new(big.Int).Sub(p, bigOne)) != 0 {
			t.Error("edwards order-4 points are not (±√−1, 0)")
		}
	}
	us := map[string]bool{}
	mpts, _ := mo.SmallOrderPoints()
	for _, q := range mpts {
		if !q.Inf {
			us[q.X.String()] = true
		}
	}
	for _, w := range []string{
		"0", "1",
		"325606250916557431795983626356110631294008115727848805560023387167927233504",
		"39382357235489614581723060781553021112529911719440698176882885853963445705823",
	} {
		if !us[w] {
			t.Errorf("curve25519 small-order u-coordinate %s not produced", w)
		}
		delete(us, w)
	}
	if len(us) != 0 {
		t.Errorf("unexpected small-order u-coordinates: %v", us)
	}
	// u = −1 has no v on the curve (twist), and the ladder with a clamped scalar sends it to 0
	if _, ok := mo.LiftX(new(big.Int).Sub(p, bigOne), false); ok {
		t.Error("u = −1 should be on the twist")
	}
	if X25519Ladder(X25519Clamp(make([]byte, 32)), new(big.Int).Sub(p, bigOne), 255).Sign() != 0 {
		t.Error("ladder on the twist point of order 4 should give 0")
	}
	// the two lists correspond under the birational map
	for _, q := range pts {
		m := EdwardsToMontgomery(q)
		found := false
		for _, r := range mpts {
			found = found || mo.Equal(m, r)
		}
		if !found {
			t.Errorf("image of %v is not in the Montgomery small-order list", q)
		}
	}
}

func TestMixedOrderAndOutsideSubgroup(t *testing.T) {
	d := newDRBG("special")
	for _, c := range []*Curve{Ed25519(), Curve25519()} {
		for j := 0; j < 8; j++ {
			k := new(big.Int).Add(d.below(new(big.Int).Sub(c.N, bigOne)), bigOne)
			p := c.MixedOrderPoint(k, j)
			if !c.IsOnCurve(p) || c.IsSmallOrder(p) {
				t.Fatalf("%s: mixed-order point %d", c.Name, j)
			}
			if c.IsInPrimeSubgroup(p) != (j == 0) {
				t.Fatalf("%s: mixed-order point %d subgroup membership", c.Name, j)
			}
			// [8]P is in the prime subgroup and equals [8k]G
			if !c.Equal(c.ScalarMul(p, c.H), c.ScalarMul(c.G, new(big.Int).Mul(k, c.H))) {
				t.Fatalf("%s: [8](kG + T) != [8k]G", c.Name)
			}
		}
	}
	for _, c := range All() {
		p, ok := c.PointOutsideSubgroup(1)
		if c.H.Cmp(bigOne) == 0 {
			if ok {
				t.Errorf("%s: cofactor 1 has no point outside the subgroup", c.Name)
			}
			if _, ok := c.CofactorPoint(1); ok {
				t.Errorf("%s: CofactorPoint on cofactor 1", c.Name)
			}
			continue
		}
		if !ok || !c.IsOnCurve(p) || c.IsInPrimeSubgroup(p) || c.IsNeutral(p) {
			t.Errorf("%s: PointOutsideSubgroup", c.Name)
		}
		if !c.IsNeutral(c.ScalarMul(p, c.GroupOrder())) {
			t.Errorf("%s: outside point not killed by #E", c.Name)
		}
		q, ok := c.CofactorPoint(1)
		if !ok || !c.IsOnCurve(q) || c.IsNeutral(q) || !c.IsSmallOrder(q) || c.IsInPrimeSubgroup(q) {
			t.Errorf("%s: CofactorPoint", c.Name)
		}
		// different seeds give different points
		p2, _ := c.PointOutsideSubgroup(5000)
		if c.Equal(p, p2) {
			t.Errorf("%s: PointOutsideSubgroup ignores its argument", c.Name)
		}
		// subgroup point + outside point stays outside
		s := c.Add(c.ScalarBaseMul(d.below(c.N)), p)
		if c.IsInPrimeSubgroup(s) || !c.IsOnCurve(s) {
			t.Errorf("%s: G-multiple + outside point", c.Name)
		}
	}
}

func TestTwistXAndLift(t *testing.T) {
	for _, c := range All() {
		if c.Kind == WeierstrassFp2 {
			x := c.TwistXFp2(1)
			if _, ok := c.LiftXLargest(x, false); ok {
				t.Errorf("%s: TwistXFp2 has a y", c.Name)
			}
			// independent check: rhs is a non-square by the Euler criterion in F_p²
			rhs := fp2From(c.rhsW(x.fe()))
			if _, ok := rhs.Sqrt(); ok {
				t.Errorf("%s: rhs at twist x is a square", c.Name)
			}
			// lifting: both roots
			p := c.SearchPoint(10)
			a, ok1 := c.LiftXLargest(p.XFp2(), true)
			b, ok2 := c.LiftXLargest(p.XFp2(), false)
			if !ok1 || !ok2 || !c.Equal(a, c.Neg(b)) || !a.YFp2().IsLargest() || b.YFp2().IsLargest() {
				t.Errorf("%s: LiftXLargest", c.Name)
			}
			continue
		}
		for _, start := range []uint64{0, 2, 1000} {
			x := c.TwistX(start)
			var rhs *big.Int
			P := c.P
			switch c.Kind {
			case WeierstrassFp:
				rhs = addP(addP(mulP(mulP(x, x, P), x, P), mulP(c.A, x, P), P), c.B, P)
			case Montgomery:
				rhs = addP(addP(mulP(mulP(x, x, P), x, P), mulP(c.A, mulP(x, x, P), P), P), x, P)
			case TwistedEdwards:
				y2 := mulP(x, x, P)
				rhs = mulP(subP(y2, bigOne, P), invP(subP(mulP(c.D, y2, P), c.A, P), P), P)
			}
			if big.Jacobi(rhs, P) != -1 {
				t.Errorf("%s: TwistX(%d)=%v is not a twist abscissa", c.Name, start, x)
			}
		}
		// parity selection
		p := c.SearchPoint(10)
		if c.Kind == TwistedEdwards {
			a, _ := c.LiftY(p.Y, true)
			b, _ := c.LiftY(p.Y, false)
			if a.X.Bit(0) != 1 || b.X.Bit(0) != 0 || !c.Equal(a, c.Neg(b)) || !c.IsOnCurve(a) {
				t.Errorf("%s: LiftY parity", c.Name)
			}
		} else {
			a, _ := c.LiftX(p.X, true)
			b, _ := c.LiftX(p.X, false)
			if a.Y.Bit(0) != 1 || b.Y.Bit(0) != 0 || !c.Equal(a, c.Neg(b)) || !c.IsOnCurve(a) {
				t.Errorf("%s: LiftX parity", c.Name)
			}
			// G1: ZCash ordering selection agrees with y > (p−1)/2
			if c.Kind == WeierstrassFp {
				l, _ := c.LiftXLargest(Fp2{A: p.X}, true)
				if !IsLargestFp(l.Y, c.P) || l.X1 != nil {
					t.Errorf("%s: LiftXLargest over Fp", c.Name)
				}
			}
		}
	}
	// BIP-340 lift_x
	if _, ok := BIP340LiftX(K256().P); ok {
		t.Error("lift_x(p) must fail")
	}
	if p, ok := BIP340LiftX(K256().G.X); !ok || !K256().Equal(p, K256().G) {
		t.Error("lift_x(Gx) should be G (G has even y)")
	}
}

func TestMinaGenerators(t *testing.T) {
	for _, tc := range []struct {
		mina, zcash *Curve
		oddY        bool
	}{{PallasMina(), Pallas(), true}, {VestaMina(), Vesta(), false}} {
		c := tc.mina
		if c.P.Cmp(tc.zcash.P) != 0 || c.N.Cmp(tc.zcash.N) != 0 || c.B.Cmp(tc.zcash.B) != 0 || c.A.Sign() != 0 || ByName(c.Name) != c {
			t.Fatalf("%s: parameters", c.Name)
		}
		// independent derivation: x = 1, y² = 6
		y, ok := SqrtFp(big.NewInt(6), c.P)
		if !ok || (c.G.Y.Cmp(y) != 0 && c.G.Y.Cmp(new(big.Int).Sub(c.P, y)) != 0) || c.G.X.Cmp(bigOne) != 0 {
			t.Fatalf("%s: generator is not (1, ±sqrt 6)", c.Name)
		}
		if (c.G.Y.Bit(0) == 1) != tc.oddY {
			t.Fatalf("%s: root choice", c.Name)
		}
		if l, _ := c.LiftX(bigOne, tc.oddY); !c.Equal(l, c.G) {
			t.Fatalf("%s: LiftX(1)", c.Name)
		}
		if !c.IsOnCurve(c.G) || !c.IsNeutral(c.ScalarMul(c.G, c.N)) || c.Equal(c.G, tc.zcash.G) {
			t.Fatalf("%s: generator on curve / order", c.Name)
		}
		// same group, different base point: ScalarBaseMul differs, ScalarMul agrees
		k := big.NewInt(123456789)
		if c.Equal(c.ScalarBaseMul(k), tc.zcash.ScalarBaseMul(k)) || !c.Equal(c.ScalarMul(tc.zcash.G, k), tc.zcash.ScalarBaseMul(k)) {
			t.Fatalf("%s: base point handling", c.Name)
		}
		// encodings and ECDSA work on the variant
		p := c.ScalarBaseMul(k)
		if q, iss, err := c.DecodePasta(c.EncodePasta(p, true)); err != nil || iss != 0 || !c.Equal(p, q) {
			t.Fatalf("%s: pasta encoding", c.Name)
		}
		dg := []byte("0123456789abcdef0123456789abcdef")
		r, s, _, ok := c.ECDSASign(k, dg, big.NewInt(987654321))
		if !ok || !c.ECDSAVerify(p, dg, r, s) || tc.zcash.ECDSAVerify(p, dg, r, s) {
			t.Fatalf("%s: ECDSA must verify under the Mina generator only", c.Name)
		}
	}
}
