package vlib

import (
	"crypto/sha3"
	"encoding/binary"
	"errors"
	"fmt"
	"io"
	"runtime/debug"
	"sync"
)

// PRNG is a deterministic SHAKE256 stream keyed by (seed, label). It is safe for concurrent
// use: the library reads the caller's reader from several goroutines in some protocols.
type PRNG struct {
	mu    sync.Mutex
	h     *sha3.SHAKE
	n     uint64 // bytes served
	limit int64  // -1: unlimited; otherwise fail once more than limit bytes were requested
}

// NewPRNG returns the stream for (seed, label).
func NewPRNG(seed uint64, label string) *PRNG {
	h := sha3.NewSHAKE256()
	var b [8]byte
	binary.BigEndian.PutUint64(b[:], seed)
	_, _ = h.Write([]byte("verif-prng/"))
	_, _ = h.Write(b[:])
	_, _ = h.Write([]byte(label))
	return &PRNG{h: h, limit: -1}
}

// ErrStarved is returned by a PRNG whose byte budget is exhausted.
var ErrStarved = errors.New("verif: random source exhausted")

func (p *PRNG) Read(b []byte) (int, error) {
	p.mu.Lock()
	defer p.mu.Unlock()
	if p.limit >= 0 && int64(p.n)+int64(len(b)) > p.limit {
		return 0, ErrStarved
	}
	n, err := p.h.Read(b)
	p.n += uint64(n)
	return n, err
}

// Consumed returns the number of bytes served so far.
func (p *PRNG) Consumed() uint64 {
	p.mu.Lock()
	defer p.mu.Unlock()
	return p.n
}

// StarveAfter makes every read that would exceed total bytes fail.
func (p *PRNG) StarveAfter(total int64) {
	p.mu.Lock()
	defer p.mu.Unlock()
	p.limit = total
}

var _ io.Reader = (*PRNG)(nil)

// Fataler is the part of *rapid.T / *testing.T the helpers need.
type Fataler interface {
	Fatalf(format string, args ...any)
	Helper()
}

// NoPanic runs f and turns a panic into a test failure that names what was being done.
func NoPanic(t Fataler, what string, f func()) {
	t.Helper()
	defer func() {
		if r := recover(); r != nil {
			if tn := fmt.Sprintf("%T", r); tn == "rapid.stopTest" || tn == "rapid.invalidData" {
				panic(r) // rapid's own control flow (t.Fatalf / t.Skip inside f)
			}
			t.Fatalf("panic in %s: %v\n%s", what, r, debug.Stack())
		}
	}()
	f()
}

// Hex is a short printable form of a byte string for descriptors and messages.
func Hex(b []byte) string {
	if len(b) <= 24 {
		return fmt.Sprintf("%x", b)
	}
	return fmt.Sprintf("%x..%x(%d)", b[:10], b[len(b)-6:], len(b))
}
