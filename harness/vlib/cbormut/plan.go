package cbormut

import (
	"bytes"
	"fmt"
)

// Plan is a mutation decided BEFORE the target message exists (all choices are plain numbers
// drawn by the property); Apply resolves them against the actual message deterministically.
// This lets an interceptor running on a protocol goroutine mutate a message without drawing.
type Plan struct {
	Op    string // one of AllOps, or OpReplaceWhole
	Class string // leaf / array path class the mutation is restricted to ("" = any)
	Pick  uint64 // selects the leaf / array among the eligible ones (modulo count)
	Pos   uint64 // selects the byte (modulo length) for bit flips, the donor for replace
	Bit   uint8  // bit index
	Down  bool   // int step direction
}

// OpReplaceWhole replaces the entire message by a donor message.
const OpReplaceWhole = "replace-whole"

func (p Plan) String() string {
	return fmt.Sprintf("%s@%s[pick=%d pos=%d bit=%d]", p.Op, p.Class, p.Pick%1000, p.Pos%1000, p.Bit)
}

// Apply performs the planned mutation on root in place (root must have been OpenNested if
// nested encodings are to be reached). donors are other messages of the same type. It returns
// the concrete mutation and ok=false if the plan is not applicable to this message.
func Apply(root *Node, donors []*Node, p Plan) (Mutation, bool) {
	leaves, arrays := Walk(root)
	if p.Class != "" {
		var f []Leaf
		for _, l := range leaves {
			if l.Class == p.Class {
				f = append(f, l)
			}
		}
		leaves = f
		var fa []Container
		for _, a := range arrays {
			if a.Class+"[]" == p.Class || a.Class == p.Class {
				fa = append(fa, a)
			}
		}
		arrays = fa
	}
	pick := func(pred func(Leaf) bool) (Leaf, bool) {
		var c []Leaf
		for _, l := range leaves {
			if pred == nil || pred(l) {
				c = append(c, l)
			}
		}
		if len(c) == 0 {
			return Leaf{}, false
		}
		return c[p.Pick%uint64(len(c))], true
	}
	switch p.Op {
	case OpBitFlip:
		l, ok := pick(func(l Leaf) bool { return l.Node.Major <= 3 && (l.Node.Major < 2 || len(l.Node.Bytes) > 0) })
		if !ok {
			return Mutation{Op: p.Op}, false
		}
		if l.Node.Major < 2 {
			l.Node.Val ^= 1 << uint(p.Bit%16)
			return Mutation{p.Op, l.Path, l.Class, fmt.Sprintf(" bit %d", p.Bit%16)}, true
		}
		pos := p.Pos % uint64(len(l.Node.Bytes))
		l.Node.Bytes[pos] ^= 1 << uint(p.Bit%8)
		return Mutation{p.Op, l.Path, l.Class, fmt.Sprintf(" byte %d bit %d", pos, p.Bit%8)}, true
	case OpZero:
		l, ok := pick(func(l Leaf) bool {
			return l.Node.Major == 2 && len(l.Node.Bytes) > 0 && !bytes.Equal(l.Node.Bytes, make([]byte, len(l.Node.Bytes)))
		})
		if !ok {
			return Mutation{Op: p.Op}, false
		}
		l.Node.Bytes = make([]byte, len(l.Node.Bytes))
		return Mutation{p.Op, l.Path, l.Class, ""}, true
	case OpIntStep:
		l, ok := pick(func(l Leaf) bool { return l.Node.Major == 0 })
		if !ok {
			return Mutation{Op: p.Op}, false
		}
		if l.Node.Val > 0 && p.Down {
			l.Node.Val--
			return Mutation{p.Op, l.Path, l.Class, " -1"}, true
		}
		l.Node.Val++
		return Mutation{p.Op, l.Path, l.Class, " +1"}, true
	case OpReplace:
		l, ok := pick(func(l Leaf) bool { return l.Node.Major <= 3 })
		if !ok {
			return Mutation{Op: p.Op}, false
		}
		var sameClass, sameKind []*Node
		collect := func(r *Node, self bool) {
			ls, _ := Walk(r)
			for _, d := range ls {
				if d.Node == l.Node || d.Node.Kind() != l.Node.Kind() || equalLeaf(d.Node, l.Node) {
					continue
				}
				if d.Class == l.Class && !self {
					sameClass = append(sameClass, d.Node)
				} else {
					sameKind = append(sameKind, d.Node)
				}
			}
		}
		for _, d := range donors {
			collect(d, false)
		}
		collect(root, true)
		pool, note := sameClass, " from the same field of another message"
		if len(pool) == 0 || (len(sameKind) > 0 && p.Bit%4 == 0) {
			pool, note = sameKind, " from another field"
		}
		if len(pool) == 0 {
			return Mutation{Op: p.Op}, false
		}
		d := pool[p.Pos%uint64(len(pool))]
		l.Node.Major, l.Node.Val, l.Node.Bytes = d.Major, d.Val, append([]byte(nil), d.Bytes...)
		return Mutation{p.Op, l.Path, l.Class, note}, true
	case OpSwap:
		a, ok := pick(func(l Leaf) bool { return l.Node.Major <= 3 })
		if !ok {
			return Mutation{Op: p.Op}, false
		}
		all, _ := Walk(root)
		var c []Leaf
		for _, b := range all {
			if b.Node != a.Node && b.Node.Kind() == a.Node.Kind() && !equalLeaf(a.Node, b.Node) {
				c = append(c, b)
			}
		}
		if len(c) == 0 {
			return Mutation{Op: p.Op}, false
		}
		b := c[p.Pos%uint64(len(c))]
		a.Node.Major, b.Node.Major = b.Node.Major, a.Node.Major
		a.Node.Val, b.Node.Val = b.Node.Val, a.Node.Val
		a.Node.Bytes, b.Node.Bytes = b.Node.Bytes, a.Node.Bytes
		return Mutation{p.Op, a.Path, a.Class, " <-> " + b.Path}, true
	case OpTruncate, OpExtend:
		var c []Container
		for _, a := range arrays {
			if len(a.Node.Items) > 0 {
				c = append(c, a)
			}
		}
		if len(c) == 0 {
			return Mutation{Op: p.Op}, false
		}
		a := c[p.Pick%uint64(len(c))]
		if p.Op == OpTruncate {
			a.Node.Items = a.Node.Items[:len(a.Node.Items)-1]
		} else {
			a.Node.Items = append(a.Node.Items, a.Node.Items[len(a.Node.Items)-1].Clone())
		}
		return Mutation{p.Op, a.Path, a.Class + "[]", ""}, true
	}
	return Mutation{Op: p.Op}, false
}

// ArrayClasses returns the sorted set of array path classes (suffixed with []).
func ArrayClasses(root *Node) []string {
	_, arrays := Walk(root)
	set := map[string]bool{}
	for _, a := range arrays {
		set[a.Class+"[]"] = true
	}
	var out []string
	for c := range set {
		out = append(out, c)
	}
	sortStrings(out)
	return out
}

func sortStrings(s []string) {
	for i := 1; i < len(s); i++ {
		for j := i; j > 0 && s[j] < s[j-1]; j-- {
			s[j], s[j-1] = s[j-1], s[j]
		}
	}
}
