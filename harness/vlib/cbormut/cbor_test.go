package cbormut

import (
	"bytes"
	"testing"

	"github.com/fxamacker/cbor/v2"
	"pgregory.net/rapid"
)

type inner struct {
	A []byte            `cbor:"a"`
	B []uint64          `cbor:"b"`
	M map[uint64][]byte `cbor:"m"`
}
type outer struct {
	X     string `cbor:"x"`
	Proof []byte `cbor:"proof"`
	N     int64  `cbor:"n"`
	T     cbor.Tag
}

func TestRoundTrip(t *testing.T) {
	em, _ := cbor.CoreDetEncOptions().EncMode()
	rapid.Check(t, func(t *rapid.T) {
		in := inner{A: rapid.SliceOfN(rapid.Byte(), 0, 40).Draw(t, "a"), B: rapid.SliceOfN(rapid.Uint64(), 0, 5).Draw(t, "b"), M: map[uint64][]byte{1: {1}, 70000: {2, 3}}}
		ib, _ := em.Marshal(in)
		o := outer{X: rapid.String().Draw(t, "x"), Proof: ib, N: rapid.Int64().Draw(t, "n"), T: cbor.Tag{Number: 5001, Content: []any{uint64(1), []byte{9}}}}
		b, err := em.Marshal(o)
		if err != nil {
			t.Fatal(err)
		}
		n, err := Parse(b)
		if err != nil {
			t.Fatalf("parse: %v", err)
		}
		if !bytes.Equal(n.Encode(), b) {
			t.Fatalf("re-encode differs")
		}
		n.OpenNested()
		if !bytes.Equal(n.Encode(), b) {
			t.Fatalf("re-encode after OpenNested differs")
		}
		leaves, _ := Walk(n)
		found := false
		for _, l := range leaves {
			if l.Class == "/proof#/b/*" || l.Class == "/proof#/a" {
				found = true
			}
		}
		if !found {
			t.Fatalf("nested proof not opened: %v", Classes(n))
		}
		c := n.Clone()
		if m, ok := Mutate(t, c, []*Node{n}, nil, ""); ok {
			if bytes.Equal(c.Encode(), b) {
				t.Fatalf("mutation %v left the encoding unchanged", m)
			}
			if _, err := Parse(c.Encode()); err != nil {
				t.Fatalf("mutation %v produced malformed CBOR: %v", m, err)
			}
		}
	})
}
