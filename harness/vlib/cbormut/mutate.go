package cbormut

import (
	"bytes"
	"fmt"
	"sort"

	"pgregory.net/rapid"
)

// Operators of the structure-aware mutator.
const (
	OpBitFlip  = "bitflip"  // flip one bit of a leaf (string content or integer value)
	OpReplace  = "replace"  // replace a leaf by a same-kind leaf of a donor message (same path class preferred)
	OpSwap     = "swap"     // swap two same-kind leaves inside the message
	OpTruncate = "truncate" // drop the last element of an array
	OpExtend   = "extend"   // duplicate the last element of an array
	OpIntStep  = "int+-1"   // integer leaf +1 / -1
	OpZero     = "zero"     // set a string leaf to all zero bytes
)

// AllOps lists every operator.
var AllOps = []string{OpBitFlip, OpReplace, OpSwap, OpTruncate, OpExtend, OpIntStep, OpZero}

// Mutation describes what was done.
type Mutation struct {
	Op    string
	Path  string
	Class string
	Note  string
}

func (m Mutation) String() string { return fmt.Sprintf("%s@%s%s", m.Op, m.Path, m.Note) }

// Classes returns the sorted set of leaf path classes of a message.
func Classes(root *Node) []string {
	leaves, _ := Walk(root)
	set := map[string]bool{}
	for _, l := range leaves {
		set[l.Class] = true
	}
	var out []string
	for c := range set {
		out = append(out, c)
	}
	sort.Strings(out)
	return out
}

// Mutate applies one drawn operator to one drawn leaf (or array) of root, in place. donors are
// parsed messages of the same type (other sender / recipient / session) used by OpReplace.
// If wantClass is non-empty only leaves of that path class are eligible. ok=false when the drawn
// operator is not applicable to the message (the caller counts the case as trivial).
func Mutate(t *rapid.T, root *Node, donors []*Node, ops []string, wantClass string) (Mutation, bool) {
	if len(ops) == 0 {
		ops = AllOps
	}
	op := rapid.SampledFrom(ops).Draw(t, "op")
	leaves, arrays := Walk(root)
	if wantClass != "" {
		var f []Leaf
		for _, l := range leaves {
			if l.Class == wantClass {
				f = append(f, l)
			}
		}
		leaves = f
		var fa []Container
		for _, a := range arrays {
			if a.Class == wantClass {
				fa = append(fa, a)
			}
		}
		arrays = fa
	}
	pickLeaf := func(pred func(Leaf) bool) (Leaf, bool) {
		var c []Leaf
		for _, l := range leaves {
			if pred == nil || pred(l) {
				c = append(c, l)
			}
		}
		if len(c) == 0 {
			return Leaf{}, false
		}
		// first / last / drawn index
		i := rapid.IntRange(0, len(c)-1).Draw(t, "leaf")
		return c[i], true
	}
	switch op {
	case OpBitFlip:
		l, ok := pickLeaf(func(l Leaf) bool { return l.Node.Major <= 3 && (l.Node.Major < 2 || len(l.Node.Bytes) > 0) })
		if !ok {
			return Mutation{Op: op}, false
		}
		if l.Node.Major < 2 {
			bit := rapid.IntRange(0, 15).Draw(t, "bit")
			l.Node.Val ^= 1 << uint(bit)
			return Mutation{op, l.Path, l.Class, fmt.Sprintf(" bit %d", bit)}, true
		}
		pos := rapid.IntRange(0, len(l.Node.Bytes)-1).Draw(t, "byte")
		bit := rapid.IntRange(0, 7).Draw(t, "bit")
		l.Node.Bytes[pos] ^= 1 << uint(bit)
		return Mutation{op, l.Path, l.Class, fmt.Sprintf(" byte %d bit %d", pos, bit)}, true
	case OpZero:
		l, ok := pickLeaf(func(l Leaf) bool {
			return l.Node.Major == 2 && len(l.Node.Bytes) > 0 && !bytes.Equal(l.Node.Bytes, make([]byte, len(l.Node.Bytes)))
		})
		if !ok {
			return Mutation{Op: op}, false
		}
		l.Node.Bytes = make([]byte, len(l.Node.Bytes))
		return Mutation{op, l.Path, l.Class, ""}, true
	case OpIntStep:
		l, ok := pickLeaf(func(l Leaf) bool { return l.Node.Major == 0 })
		if !ok {
			return Mutation{Op: op}, false
		}
		if l.Node.Val > 0 && rapid.Bool().Draw(t, "down") {
			l.Node.Val--
			return Mutation{op, l.Path, l.Class, " -1"}, true
		}
		l.Node.Val++
		return Mutation{op, l.Path, l.Class, " +1"}, true
	case OpReplace:
		l, ok := pickLeaf(func(l Leaf) bool { return l.Node.Major <= 3 })
		if !ok {
			return Mutation{Op: op}, false
		}
		// candidates: same class in donors first, then same kind anywhere in donors or the message itself
		var sameClass, sameKind []*Node
		collect := func(r *Node, self bool) {
			ls, _ := Walk(r)
			for _, d := range ls {
				if d.Node == l.Node || d.Node.Kind() != l.Node.Kind() || equalLeaf(d.Node, l.Node) {
					continue
				}
				if d.Class == l.Class && !self {
					sameClass = append(sameClass, d.Node)
				} else {
					sameKind = append(sameKind, d.Node)
				}
			}
		}
		for _, d := range donors {
			collect(d, false)
		}
		collect(root, true)
		pool, note := sameClass, " from same field of another message"
		if len(pool) == 0 || (len(sameKind) > 0 && rapid.IntRange(0, 3).Draw(t, "crossfield") == 0) {
			pool, note = sameKind, " from another field"
		}
		if len(pool) == 0 {
			return Mutation{Op: op}, false
		}
		d := pool[rapid.IntRange(0, len(pool)-1).Draw(t, "donor")]
		l.Node.Major, l.Node.Val, l.Node.Bytes = d.Major, d.Val, append([]byte(nil), d.Bytes...)
		return Mutation{op, l.Path, l.Class, note}, true
	case OpSwap:
		a, ok := pickLeaf(func(l Leaf) bool { return l.Node.Major <= 3 })
		if !ok {
			return Mutation{Op: op}, false
		}
		all, _ := Walk(root)
		var c []Leaf
		for _, b := range all {
			if b.Node != a.Node && b.Node.Kind() == a.Node.Kind() && !equalLeaf(a.Node, b.Node) {
				c = append(c, b)
			}
		}
		if len(c) == 0 {
			return Mutation{Op: op}, false
		}
		b := c[rapid.IntRange(0, len(c)-1).Draw(t, "with")]
		a.Node.Major, b.Node.Major = b.Node.Major, a.Node.Major
		a.Node.Val, b.Node.Val = b.Node.Val, a.Node.Val
		a.Node.Bytes, b.Node.Bytes = b.Node.Bytes, a.Node.Bytes
		return Mutation{op, a.Path, a.Class, " <-> " + b.Path}, true
	case OpTruncate, OpExtend:
		var c []Container
		for _, a := range arrays {
			if len(a.Node.Items) > 0 {
				c = append(c, a)
			}
		}
		if len(c) == 0 {
			return Mutation{Op: op}, false
		}
		a := c[rapid.IntRange(0, len(c)-1).Draw(t, "array")]
		if op == OpTruncate {
			a.Node.Items = a.Node.Items[:len(a.Node.Items)-1]
		} else {
			a.Node.Items = append(a.Node.Items, a.Node.Items[len(a.Node.Items)-1].Clone())
		}
		return Mutation{op, a.Path, a.Class + "[]", ""}, true
	}
	return Mutation{Op: op}, false
}

func equalLeaf(a, b *Node) bool {
	return a.Major == b.Major && a.Val == b.Val && bytes.Equal(a.Bytes, b.Bytes)
}
