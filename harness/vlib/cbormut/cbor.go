// Package cbormut is a small, self-contained CBOR reader/writer (RFC 8949, definite lengths,
// tags, simple values, floats kept as raw bits) plus a structure-aware mutator. It is written
// for the harness so that a message can be altered leaf by leaf while staying well-formed, and
// so that deliberately malformed containers (duplicate keys, indefinite lengths, trailing
// bytes, non-minimal integers) can be produced for decoder tests.
package cbormut

import (
	"encoding/binary"
	"errors"
	"fmt"
	"strings"
)

// Node is one CBOR data item.
type Node struct {
	Major byte    // 0 uint, 1 nint, 2 bstr, 3 tstr, 4 array, 5 map, 6 tag, 7 simple/float
	Val   uint64  // uint value, nint argument, tag number, simple value or float bits
	Info  byte    // for major 7: additional info (20..27); for ints: 0 = minimal encoding
	Bytes []byte  // bstr / tstr content
	Items []*Node // array items; map: k0,v0,k1,v1,...; tag: single content
	// Inner is set when a byte string's content is itself one complete CBOR item and the
	// mutator was asked to open nested encodings; Encode then re-encodes Inner into Bytes.
	Inner *Node
	// Indef encodes arrays/maps/strings with indefinite length (malformed for this library).
	Indef bool
	// PadArg forces a non-minimal argument encoding with this many argument bytes (1,2,4,8).
	PadArg int
}

var errTrunc = errors.New("cbormut: truncated")

// Parse decodes exactly one item that must span all of b.
func Parse(b []byte) (*Node, error) {
	n, rest, err := parse(b, 0)
	if err != nil {
		return nil, err
	}
	if len(rest) != 0 {
		return nil, fmt.Errorf("cbormut: %d trailing bytes", len(rest))
	}
	return n, nil
}

func parse(b []byte, depth int) (*Node, []byte, error) {
	if depth > 64 {
		return nil, nil, errors.New("cbormut: too deep")
	}
	if len(b) == 0 {
		return nil, nil, errTrunc
	}
	ib := b[0]
	major, info := ib>>5, ib&0x1f
	b = b[1:]
	var arg uint64
	switch {
	case info < 24:
		arg = uint64(info)
	case info == 24:
		if len(b) < 1 {
			return nil, nil, errTrunc
		}
		arg, b = uint64(b[0]), b[1:]
	case info == 25:
		if len(b) < 2 {
			return nil, nil, errTrunc
		}
		arg, b = uint64(binary.BigEndian.Uint16(b)), b[2:]
	case info == 26:
		if len(b) < 4 {
			return nil, nil, errTrunc
		}
		arg, b = uint64(binary.BigEndian.Uint32(b)), b[4:]
	case info == 27:
		if len(b) < 8 {
			return nil, nil, errTrunc
		}
		arg, b = binary.BigEndian.Uint64(b), b[8:]
	default:
		return nil, nil, fmt.Errorf("cbormut: unsupported additional info %d (indefinite / reserved)", info)
	}
	n := &Node{Major: major, Val: arg}
	switch major {
	case 0, 1:
	case 2, 3:
		if uint64(len(b)) < arg {
			return nil, nil, errTrunc
		}
		n.Bytes, b = append([]byte(nil), b[:arg]...), b[arg:]
	case 4:
		if arg > uint64(len(b)) {
			return nil, nil, errTrunc
		}
		for i := uint64(0); i < arg; i++ {
			c, rest, err := parse(b, depth+1)
			if err != nil {
				return nil, nil, err
			}
			n.Items, b = append(n.Items, c), rest
		}
	case 5:
		if arg > uint64(len(b)) {
			return nil, nil, errTrunc
		}
		for i := uint64(0); i < 2*arg; i++ {
			c, rest, err := parse(b, depth+1)
			if err != nil {
				return nil, nil, err
			}
			n.Items, b = append(n.Items, c), rest
		}
	case 6:
		c, rest, err := parse(b, depth+1)
		if err != nil {
			return nil, nil, err
		}
		n.Items, b = []*Node{c}, rest
	case 7:
		n.Info = info
	}
	return n, b, nil
}

func head(major byte, arg uint64, pad int) []byte {
	m := major << 5
	switch {
	case pad == 0 && arg < 24:
		return []byte{m | byte(arg)}
	case (pad == 0 && arg <= 0xff) || pad == 1:
		return []byte{m | 24, byte(arg)}
	case (pad == 0 && arg <= 0xffff) || pad == 2:
		return binary.BigEndian.AppendUint16([]byte{m | 25}, uint16(arg))
	case (pad == 0 && arg <= 0xffffffff) || pad == 4:
		return binary.BigEndian.AppendUint32([]byte{m | 26}, uint32(arg))
	default:
		return binary.BigEndian.AppendUint64([]byte{m | 27}, arg)
	}
}

// Encode serialises the item (shortest form unless PadArg / Indef ask otherwise).
func (n *Node) Encode() []byte {
	switch n.Major {
	case 0, 1:
		return head(n.Major, n.Val, n.PadArg)
	case 2, 3:
		content := n.Bytes
		if n.Inner != nil {
			content = n.Inner.Encode()
		}
		if n.Indef {
			out := []byte{n.Major<<5 | 31}
			out = append(out, head(n.Major, uint64(len(content)), 0)...)
			out = append(out, content...)
			return append(out, 0xff)
		}
		return append(head(n.Major, uint64(len(content)), n.PadArg), content...)
	case 4, 5:
		cnt := uint64(len(n.Items))
		if n.Major == 5 {
			cnt /= 2
		}
		var out []byte
		if n.Indef {
			out = []byte{n.Major<<5 | 31}
		} else {
			out = head(n.Major, cnt, n.PadArg)
		}
		for _, c := range n.Items {
			out = append(out, c.Encode()...)
		}
		if n.Indef {
			out = append(out, 0xff)
		}
		return out
	case 6:
		return append(head(6, n.Val, n.PadArg), n.Items[0].Encode()...)
	default:
		switch n.Info {
		case 24:
			return []byte{0xf8, byte(n.Val)}
		case 25:
			return binary.BigEndian.AppendUint16([]byte{0xf9}, uint16(n.Val))
		case 26:
			return binary.BigEndian.AppendUint32([]byte{0xfa}, uint32(n.Val))
		case 27:
			return binary.BigEndian.AppendUint64([]byte{0xfb}, n.Val)
		}
		return []byte{0xe0 | byte(n.Val&0x1f)}
	}
}

// Clone deep-copies a tree.
func (n *Node) Clone() *Node {
	if n == nil {
		return nil
	}
	c := *n
	c.Bytes = append([]byte(nil), n.Bytes...)
	c.Items = make([]*Node, len(n.Items))
	for i, it := range n.Items {
		c.Items[i] = it.Clone()
	}
	c.Inner = n.Inner.Clone()
	return &c
}

// OpenNested walks the tree and, for every byte string whose content is exactly one
// well-formed CBOR item that is a container or tag (arrays, maps, tags; not a bare integer or
// string, to avoid mistaking field elements for encodings), parses it into Inner, recursively.
func (n *Node) OpenNested() {
	if n == nil {
		return
	}
	if n.Major == 2 && len(n.Bytes) >= 2 {
		if in, err := Parse(n.Bytes); err == nil && looksStructured(in, 0) {
			// re-encoding must reproduce the bytes, otherwise this was not a canonical nested item
			if string(in.Encode()) == string(n.Bytes) {
				n.Inner = in
				in.OpenNested()
			}
		}
	}
	for _, c := range n.Items {
		c.OpenNested()
	}
}

// looksStructured says whether a parsed item has the shape of a nested encoding produced by the
// library (a map with text keys, a tag >= 1000 around such a thing, or a non-empty array of
// them) rather than of a random byte string that happens to parse as CBOR.
func looksStructured(n *Node, depth int) bool {
	if depth > 4 {
		return false
	}
	switch n.Major {
	case 5:
		if len(n.Items) == 0 {
			return false
		}
		for i := 0; i < len(n.Items); i += 2 {
			if n.Items[i].Major != 3 || len(n.Items[i].Bytes) == 0 {
				return false
			}
		}
		return true
	case 6:
		return n.Val >= 1000 && looksStructured(n.Items[0], depth+1)
	case 4:
		if len(n.Items) == 0 {
			return false
		}
		for _, c := range n.Items {
			if !looksStructured(c, depth+1) {
				return false
			}
		}
		return true
	}
	return false
}

// Leaf is a mutable terminal item with its path.
type Leaf struct {
	Path  string // e.g. /verificationVector/v/3  (map keys by name, array items by index, # = nested encoding, @tag)
	Class string // Path with array indices replaced by *
	Node  *Node
	// Parent and Index locate the leaf inside its parent's Items (nil for the root).
	Parent *Node
	Index  int
}

// Containers lists arrays (for truncate/extend operators) with their paths.
type Container struct {
	Path  string
	Class string
	Node  *Node
}

// Walk returns all leaves (ints, strings, simple values) and all arrays.
func Walk(root *Node) (leaves []Leaf, arrays []Container) {
	var rec func(n, parent *Node, idx int, path, class string)
	rec = func(n, parent *Node, idx int, path, class string) {
		switch n.Major {
		case 0, 1, 3, 7:
			leaves = append(leaves, Leaf{path, class, n, parent, idx})
		case 2:
			if n.Inner != nil {
				rec(n.Inner, n, -1, path+"#", class+"#")
				return
			}
			leaves = append(leaves, Leaf{path, class, n, parent, idx})
		case 4:
			arrays = append(arrays, Container{path, class, n})
			for i, c := range n.Items {
				rec(c, n, i, fmt.Sprintf("%s/%d", path, i), class+"/*")
			}
		case 5:
			for i := 0; i+1 < len(n.Items); i += 2 {
				k := keyName(n.Items[i])
				kc := k
				if n.Items[i].Major != 3 {
					kc = "<key>" // maps keyed by identifiers: one class for all entries
				}
				rec(n.Items[i+1], n, i+1, path+"/"+k, class+"/"+kc)
			}
		case 6:
			rec(n.Items[0], n, 0, fmt.Sprintf("%s@%d", path, n.Val), fmt.Sprintf("%s@%d", class, n.Val))
		}
	}
	rec(root, nil, 0, "", "")
	return leaves, arrays
}

func keyName(k *Node) string {
	switch k.Major {
	case 3:
		return strings.ReplaceAll(string(k.Bytes), "/", "_")
	case 0:
		return fmt.Sprintf("%d", k.Val)
	case 1:
		return fmt.Sprintf("-%d", k.Val+1)
	case 2:
		return fmt.Sprintf("h%x", k.Bytes)
	}
	return "?"
}

// Kind is a coarse type signature used to find compatible donors (major type and length).
func (n *Node) Kind() string {
	switch n.Major {
	case 2, 3:
		return fmt.Sprintf("%d:%d", n.Major, len(n.Bytes))
	case 0, 1:
		return "int"
	}
	return fmt.Sprintf("m%d", n.Major)
}
