// Package netsim is a harness-owned implementation of network.Delivery: an in-memory switch
// between the routers of all parties of one protocol run. Every wire message passes through
// an optional interceptor (tamper / drop / duplicate / observe) and an optional scheduler
// (reordering), and is logged. It is the single tamper and observation point for every
// protocol that has a network.Runner.
package netsim

import (
	"context"
	"errors"
	"fmt"
	"runtime/debug"
	"strings"
	"sync"
	"time"

	"github.com/fxamacker/cbor/v2"

	"github.com/bronlabs/bron-crypto/pkg/mpc/sharing"
	"github.com/bronlabs/bron-crypto/pkg/network"
)

// Kind classifies a wire message by the exchange helper that produced it.
type Kind int

const (
	Other      Kind = iota
	Unicast         // exchange.Unicast*: payload is the CBOR of the round message
	Broadcast2      // two-party "broadcast": payload is the CBOR of the round message
	Echo1           // echo broadcast round 1: payload is CBOR{payload: CBOR(round message)}
	Echo2           // echo broadcast round 2: payload is CBOR{echoHashes: ...}
)

func (k Kind) String() string {
	return [...]string{"other", "unicast", "broadcast2", "echo1", "echo2"}[k]
}

// Msg is one message on the wire.
type Msg struct {
	Seq     int
	From    sharing.ID
	To      sharing.ID
	CID     string // full correlation id (with namespaces)
	Kind    Kind
	Body    []byte // the CBOR of the round message (Unicast, Broadcast2, Echo1); raw payload otherwise
	payload []byte // router payload as sent
}

// Round returns the correlation id stripped of the exchange suffixes (identifies the protocol round).
func (m *Msg) Round() string {
	c := m.CID
	for _, suf := range []string{":EchoRound1P2P", ":EchoRound2P2P", "BROADCAST:", "UNICAST:"} {
		c = strings.TrimSuffix(c, suf)
	}
	return c
}

// IsBroadcast reports whether the body is a broadcast round message.
func (m *Msg) IsBroadcast() bool { return m.Kind == Echo1 || m.Kind == Broadcast2 }

type routerMessage struct {
	From          uint64 `cbor:"from"`
	CorrelationID string `cbor:"correlationID"`
	Payload       []byte `cbor:"payload"`
}

type echo1 struct {
	Payload []byte `cbor:"payload"`
}

var encMode = func() cbor.EncMode {
	m, err := cbor.CoreDetEncOptions().EncMode()
	if err != nil {
		panic(err)
	}
	return m
}()

func classify(from, to sharing.ID, wire []byte, seq int) (*Msg, error) {
	var rm routerMessage
	if err := cbor.Unmarshal(wire, &rm); err != nil {
		return nil, err
	}
	m := &Msg{Seq: seq, From: from, To: to, CID: rm.CorrelationID, payload: rm.Payload, Body: rm.Payload}
	switch {
	case strings.HasSuffix(rm.CorrelationID, ":EchoRound1P2P"):
		var e echo1
		if err := cbor.Unmarshal(rm.Payload, &e); err == nil {
			m.Kind, m.Body = Echo1, e.Payload
		}
	case strings.HasSuffix(rm.CorrelationID, ":EchoRound2P2P"):
		m.Kind = Echo2
	case strings.HasSuffix(rm.CorrelationID, "BROADCAST:"):
		m.Kind = Broadcast2
	case strings.HasSuffix(rm.CorrelationID, "UNICAST:"):
		m.Kind = Unicast
	}
	return m, nil
}

// Encode rebuilds the wire bytes for m with its current Body / CID.
func (m *Msg) Encode() []byte {
	payload := m.Body
	if m.Kind == Echo1 {
		p, err := encMode.Marshal(echo1{Payload: m.Body})
		if err != nil {
			panic(err)
		}
		payload = p
	}
	w, err := encMode.Marshal(routerMessage{CorrelationID: m.CID, Payload: payload})
	if err != nil {
		panic(err)
	}
	return w
}

// Clone copies a message (for duplication / replay).
func (m *Msg) Clone() *Msg {
	c := *m
	c.Body = append([]byte(nil), m.Body...)
	return &c
}

// Interceptor sees every message before it is queued for its recipient and returns the
// messages to deliver instead (nil = drop; the same message = pass through).
type Interceptor func(m *Msg) []*Msg

// Net is the switch.
type Net struct {
	ids []sharing.ID

	mu        sync.Mutex
	cond      *sync.Cond
	queues    map[sharing.ID][]*Msg
	closed    bool
	seq       int
	log       []*Msg
	lastSend  time.Time
	intercept Interceptor
	// Shuffle, when set, picks which queued message a recipient gets next (index into its queue).
	shuffle func(to sharing.ID, n int) int
	sent    map[sharing.ID]int
}

// New creates a switch for the given parties.
func New(ids []sharing.ID) *Net {
	n := &Net{ids: append([]sharing.ID(nil), ids...), queues: map[sharing.ID][]*Msg{}, sent: map[sharing.ID]int{}, lastSend: time.Now()}
	n.cond = sync.NewCond(&n.mu)
	return n
}

// SetInterceptor installs the interceptor (before the run starts).
func (n *Net) SetInterceptor(f Interceptor) { n.intercept = f }

// SetShuffle installs a delivery-order chooser: called with the recipient and its queue length
// (>= 1) while the switch lock is held; returns the index to deliver next.
func (n *Net) SetShuffle(f func(to sharing.ID, qlen int) int) { n.shuffle = f }

// Log returns a snapshot of all messages sent so far (as sent, before interception).
func (n *Net) Log() []*Msg {
	n.mu.Lock()
	defer n.mu.Unlock()
	return append([]*Msg(nil), n.log...)
}

// IdleFor reports how long no party has sent anything.
func (n *Net) IdleFor() time.Duration {
	n.mu.Lock()
	defer n.mu.Unlock()
	return time.Since(n.lastSend)
}

// Pending reports the number of queued, undelivered messages.
func (n *Net) Pending() int {
	n.mu.Lock()
	defer n.mu.Unlock()
	c := 0
	for _, q := range n.queues {
		c += len(q)
	}
	return c
}

// Close wakes all receivers with an error.
func (n *Net) Close() {
	n.mu.Lock()
	n.closed = true
	n.mu.Unlock()
	n.cond.Broadcast()
}

// Inject queues a message for its recipient directly (not intercepted, not logged).
func (n *Net) Inject(m *Msg) {
	n.mu.Lock()
	n.queues[m.To] = append(n.queues[m.To], m)
	n.mu.Unlock()
	n.cond.Broadcast()
}

// Delivery returns the endpoint of one party.
func (n *Net) Delivery(id sharing.ID) network.Delivery { return &endpoint{n: n, id: id} }

type endpoint struct {
	n  *Net
	id sharing.ID
}

func (e *endpoint) PartyID() sharing.ID  { return e.id }
func (e *endpoint) Quorum() []sharing.ID { return append([]sharing.ID(nil), e.n.ids...) }

// ErrClosed is returned by Receive after Close.
var ErrClosed = errors.New("netsim: closed")

func (e *endpoint) Send(_ context.Context, to sharing.ID, wire []byte) error {
	n := e.n
	n.mu.Lock()
	n.seq++
	m, err := classify(e.id, to, wire, n.seq)
	if err != nil {
		n.mu.Unlock()
		return fmt.Errorf("netsim: undecodable router message: %w", err)
	}
	n.log = append(n.log, m.Clone())
	n.lastSend = time.Now()
	n.sent[e.id]++
	icpt := n.intercept
	n.mu.Unlock()

	out := []*Msg{m}
	if icpt != nil {
		out = icpt(m)
	}
	n.mu.Lock()
	for _, o := range out {
		n.queues[o.To] = append(n.queues[o.To], o)
	}
	n.mu.Unlock()
	n.cond.Broadcast()
	return nil
}

func (e *endpoint) Receive(ctx context.Context) (sharing.ID, []byte, error) {
	n := e.n
	stop := context.AfterFunc(ctx, func() {
		n.mu.Lock()
		n.mu.Unlock() //nolint:staticcheck // make sure the waiter is parked before waking it
		n.cond.Broadcast()
	})
	defer stop()
	n.mu.Lock()
	defer n.mu.Unlock()
	for {
		if err := ctx.Err(); err != nil {
			return 0, nil, err
		}
		if n.closed {
			return 0, nil, ErrClosed
		}
		if q := n.queues[e.id]; len(q) > 0 {
			i := 0
			if n.shuffle != nil && len(q) > 1 {
				i = n.shuffle(e.id, len(q))
				if i < 0 || i >= len(q) {
					i = 0
				}
			}
			m := q[i]
			n.queues[e.id] = append(q[:i:i], q[i+1:]...)
			return m.From, m.Encode(), nil
		}
		n.cond.Wait()
	}
}

// ---- running a set of runners -------------------------------------------------------------

// Result is what one party's runner returned.
type Result[O any] struct {
	Out       O
	Err       error
	Cancelled bool // the harness cancelled the run (idle / stalled): no verdict of the party
	Panic     any  // non-nil if Run panicked (library panic)
	Stack     string
	Done      bool
	Rounds    int // RoundCompleted notifications seen
}

// Options for RunAll.
type Options struct {
	// Idle is how long the network may be silent, with at least one party finished or a
	// message dropped, before the remaining parties are cancelled (no verdict for them).
	Idle time.Duration
	// Hard is the absolute bound on the whole run; reaching it with nobody finished and no
	// interference is a hang.
	Hard time.Duration
	// StallOK allows cancelling an idle run even when no party has finished yet (used when the
	// interceptor dropped a message, so that everybody waits forever by construction).
	StallOK func() bool
}

// Outcome summarises a run.
type Outcome struct {
	Wall     time.Duration
	HardStop bool // the Hard bound was reached
}

// RunAll executes one runner per party, each over its own router on the switch.
func RunAll[O any](n *Net, runners map[sharing.ID]network.Runner[O], opt Options) (map[sharing.ID]*Result[O], Outcome) {
	if opt.Idle == 0 {
		opt.Idle = 5 * time.Second
	}
	if opt.Hard == 0 {
		opt.Hard = 10 * time.Minute
	}
	ctx, cancel := context.WithCancel(context.Background())
	defer cancel()
	res := map[sharing.ID]*Result[O]{}
	var rmu sync.Mutex
	var wg sync.WaitGroup
	routers := map[sharing.ID]*network.Router{}
	for id := range runners {
		res[id] = &Result[O]{}
		routers[id] = network.NewRouter(n.Delivery(id))
	}
	finished := 0
	start := time.Now()
	for id, r := range runners {
		wg.Add(1)
		go func(id sharing.ID, r network.Runner[O]) {
			defer wg.Done()
			rr := res[id]
			defer func() {
				if p := recover(); p != nil {
					rmu.Lock()
					rr.Panic, rr.Stack, rr.Done = p, stack(), true
					finished++
					rmu.Unlock()
					n.cond.Broadcast()
				}
			}()
			rounds := 0
			out, err := r.Run(ctx, routers[id], func(nt network.Notification) { rounds++ })
			rmu.Lock()
			rr.Out, rr.Err, rr.Done, rr.Rounds = out, err, true, rounds
			if err != nil && ctx.Err() != nil {
				rr.Cancelled = true // finished only because the harness cancelled the run
			}
			finished++
			rmu.Unlock()
		}(id, r)
	}
	done := make(chan struct{})
	go func() { wg.Wait(); close(done) }()
	var oc Outcome
	tick := time.NewTicker(20 * time.Millisecond)
	defer tick.Stop()
loop:
	for {
		select {
		case <-done:
			break loop
		case <-tick.C:
			rmu.Lock()
			f := finished
			rmu.Unlock()
			if time.Since(start) > opt.Hard {
				oc.HardStop = true
				cancel()
				n.Close()
				<-done
				break loop
			}
			if (f > 0 || (opt.StallOK != nil && opt.StallOK())) && f < len(runners) && n.IdleFor() > opt.Idle && n.Pending() == 0 {
				cancel()
				n.Close()
				<-done
				break loop
			}
		}
	}
	for _, rt := range routers {
		rt.Close()
	}
	n.Close()
	oc.Wall = time.Since(start)
	return res, oc
}

func stack() string { return string(debug.Stack()) }
