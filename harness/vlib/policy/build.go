package policy

import (
	"fmt"

	ds "github.com/bronlabs/bron-crypto/pkg/base/datastructures"
	"github.com/bronlabs/bron-crypto/pkg/base/datastructures/hashset"
	"github.com/bronlabs/bron-crypto/pkg/mpc/sharing"
	"github.com/bronlabs/bron-crypto/pkg/mpc/sharing/accessstructures"
	"github.com/bronlabs/bron-crypto/pkg/mpc/sharing/accessstructures/boolexpr"
	"github.com/bronlabs/bron-crypto/pkg/mpc/sharing/accessstructures/cnf"
	"github.com/bronlabs/bron-crypto/pkg/mpc/sharing/accessstructures/hierarchical"
	"github.com/bronlabs/bron-crypto/pkg/mpc/sharing/accessstructures/threshold"
	"github.com/bronlabs/bron-crypto/pkg/mpc/sharing/accessstructures/unanimity"
)

// IDSet builds a frozen library set from the IDs of the holders in mask.
func IDSet(ids []uint64, mask uint64) ds.Set[sharing.ID] {
	return hashset.NewComparable(IDList(ids, mask)...).Freeze()
}

// IDList lists the shareholder IDs of the holders in mask (holder order).
func IDList(ids []uint64, mask uint64) []sharing.ID {
	var out []sharing.ID
	for _, i := range Members(mask) {
		out = append(out, sharing.ID(ids[i]))
	}
	return out
}

// Build constructs the library access structure for p under the holder -> ID map ids.
func Build(p *Policy, ids []uint64) (accessstructures.Monotone, error) {
	if len(ids) != p.N {
		return nil, fmt.Errorf("policy has %d holders, %d ids given", p.N, len(ids))
	}
	switch p.Family {
	case Threshold:
		return threshold.NewThresholdAccessStructure(uint(p.T), IDSet(ids, p.Full()))
	case Unanimity:
		return unanimity.NewUnanimityAccessStructure(IDSet(ids, p.Full()))
	case CNF:
		sets := make([]ds.Set[sharing.ID], len(p.MUS))
		for i, u := range p.MUS {
			sets[i] = IDSet(ids, u)
		}
		return cnf.NewCNFAccessStructure(sets...)
	case Hier:
		levels := make([]*hierarchical.ThresholdLevel, len(p.Levels))
		for i, l := range p.Levels {
			levels[i] = hierarchical.WithLevel(l.T, IDList(ids, MaskOf(l.Members...))...)
		}
		return hierarchical.NewHierarchicalConjunctiveThresholdAccessStructure(levels...)
	case Gate:
		return boolexpr.NewThresholdGateAccessStructure(buildNode(p.Root, ids))
	}
	return nil, fmt.Errorf("unknown family %q", p.Family)
}

func buildNode(n *Node, ids []uint64) *boolexpr.Node {
	if n.Leaf >= 0 {
		return boolexpr.ID(sharing.ID(ids[n.Leaf]))
	}
	kids := make([]*boolexpr.Node, len(n.Children))
	for i, c := range n.Children {
		kids[i] = buildNode(c, ids)
	}
	return boolexpr.Threshold(n.T, kids...)
}

// Unanimity builds the n-of-n structure over the holders in mask (signing quorums).
func UnanimityOf(ids []uint64, mask uint64) (*unanimity.Unanimity, error) {
	return unanimity.NewUnanimityAccessStructure(IDSet(ids, mask))
}
