package policy

import (
	"fmt"
	"math/big"
	"math/bits"
	"sort"
	"testing"

	"github.com/bronlabs/bron-crypto/pkg/mpc/sharing"
	"pgregory.net/rapid"
)

// ---- independent enumeration of monotone functions ---------------------------------------------

// truth table of a policy over n holders: bit s of the result = Qualified(s).
func truth(p *Policy) uint64 {
	var tt uint64
	for s := uint64(0); s <= p.Full(); s++ {
		if p.Qualified(s) {
			tt |= 1 << s
		}
	}
	return tt
}

// monotoneTables enumerates the truth tables (as bit sets over the 2^n subsets) of all monotone
// boolean functions on n variables by Dedekind's recursion: f = (f0, f1) with f0 <= f1 where f0
// is the restriction to sets without holder n-1 and f1 the restriction to sets with it.
func monotoneTables(n int) []uint64 {
	if n == 0 {
		return []uint64{0, 1}
	}
	prev := monotoneTables(n - 1)
	half := uint(1) << uint(n-1)
	var out []uint64
	for _, f0 := range prev {
		for _, f1 := range prev {
			if f0&^f1 == 0 {
				out = append(out, f0|f1<<half)
			}
		}
	}
	return out
}

func isMonotoneTable(tt uint64, n int) bool {
	for s := uint64(0); s < 1<<uint(n); s++ {
		if tt&(1<<s) == 0 {
			continue
		}
		for i := 0; i < n; i++ {
			if tt&(1<<(s|1<<uint(i))) == 0 {
				return false
			}
		}
	}
	return true
}

// cnfShaped: full set qualified, every singleton unqualified (so every holder occurs in some
// maximal unqualified set and no maximal unqualified set is empty or full).
func cnfShaped(tt uint64, n int) bool {
	if tt&(1<<((uint64(1)<<uint(n))-1)) == 0 {
		return false
	}
	for i := 0; i < n; i++ {
		if tt&(1<<(uint64(1)<<uint(i))) != 0 {
			return false
		}
	}
	return true
}

func TestDedekindNumbers(t *testing.T) {
	want := []int{2, 3, 6, 20, 168, 7581}
	for n := 0; n <= 5; n++ {
		if got := len(monotoneTables(n)); got != want[n] {
			t.Fatalf("monotone functions on %d variables: %d, want %d", n, got, want[n])
		}
	}
	// and by plain brute force over all truth tables for n <= 4
	for n := 1; n <= 4; n++ {
		c := 0
		for tt := uint64(0); tt < 1<<(1<<uint(n)); tt++ {
			if isMonotoneTable(tt, n) {
				c++
			}
		}
		if c != want[n] {
			t.Fatalf("brute force: %d monotone functions on %d variables, want %d", c, n, want[n])
		}
	}
}

func TestAllCNFIsEveryAntichain(t *testing.T) {
	for n := 2; n <= 5; n++ {
		want := map[uint64]bool{}
		if n <= 4 {
			for tt := uint64(0); tt < 1<<(1<<uint(n)); tt++ {
				if isMonotoneTable(tt, n) && cnfShaped(tt, n) {
					want[tt] = true
				}
			}
		} else {
			for _, tt := range monotoneTables(n) {
				if cnfShaped(tt, n) {
					want[tt] = true
				}
			}
		}
		got := map[uint64]bool{}
		for _, p := range AllCNF(n) {
			if p.Family != CNF || p.N != n {
				t.Fatalf("AllCNF(%d) produced %v", n, p)
			}
			// antichain of non-empty proper sets covering all holders
			var union uint64
			for i, a := range p.MUS {
				if a == 0 || a == p.Full() || a&^p.Full() != 0 {
					t.Fatalf("%v: bad set %b", p, a)
				}
				union |= a
				for j, b := range p.MUS {
					if i != j && a&^b == 0 {
						t.Fatalf("%v: %b inside %b", p, a, b)
					}
				}
			}
			if union != p.Full() {
				t.Fatalf("%v: union %b", p, union)
			}
			tt := truth(p)
			if got[tt] {
				t.Fatalf("AllCNF(%d): function of %v enumerated twice", n, p)
			}
			got[tt] = true
			if !want[tt] {
				t.Fatalf("AllCNF(%d): %v is not a CNF-shaped monotone function", n, p)
			}
			// the brute-force maximal unqualified sets are exactly the given ones
			mu := p.MaximalUnqualified()
			a := append([]uint64(nil), p.MUS...)
			sort.Slice(a, func(i, j int) bool { return a[i] < a[j] })
			sort.Slice(mu, func(i, j int) bool { return mu[i] < mu[j] })
			if fmt.Sprint(a) != fmt.Sprint(mu) {
				t.Fatalf("%v: MaximalUnqualified() = %v", p, mu)
			}
		}
		if len(got) != len(want) {
			t.Fatalf("AllCNF(%d) has %d policies, brute force finds %d", n, len(got), len(want))
		}
		t.Logf("AllCNF(%d) = %d policies", n, len(got))
	}
}

// ---- structural invariants ------------------------------------------------------------------------

func checkMonotone(t interface{ Fatalf(string, ...any) }, p *Policy) {
	if p.N > 12 {
		return
	}
	for s := uint64(0); s <= p.Full(); s++ {
		if !p.Qualified(s) {
			continue
		}
		for i := 0; i < p.N; i++ {
			if !p.Qualified(s | 1<<uint(i)) {
				t.Fatalf("%v not monotone at %b + %d", p, s, i)
			}
		}
	}
}

func checkMinMax(t interface{ Fatalf(string, ...any) }, p *Policy) {
	if p.N > 10 {
		return
	}
	mq, mu := p.MinimalQualified(), p.MaximalUnqualified()
	for s := uint64(0); s <= p.Full(); s++ {
		inUp := false
		for _, m := range mq {
			if m&^s == 0 {
				inUp = true
			}
		}
		inDown := false
		for _, m := range mu {
			if s&^m == 0 {
				inDown = true
			}
		}
		q := p.Qualified(s)
		if q != inUp || q == inDown {
			t.Fatalf("%v: set %b qualified=%v, above a minimal qualified set=%v, below a maximal unqualified set=%v", p, s, q, inUp, inDown)
		}
	}
}

func checkHierShape(t interface{ Fatalf(string, ...any) }, p *Policy) {
	next, prevT := 0, 0
	if len(p.Levels) < 1 || len(p.Levels) > 3 {
		t.Fatalf("%v: %d levels", p, len(p.Levels))
	}
	for _, l := range p.Levels {
		if len(l.Members) == 0 {
			t.Fatalf("%v: empty level", p)
		}
		for _, m := range l.Members {
			if m != next {
				t.Fatalf("%v: holders are not numbered level by level", p)
			}
			next++
		}
		if l.T <= prevT || l.T > next {
			t.Fatalf("%v: threshold %d after %d with %d cumulative members", p, l.T, prevT, next)
		}
		prevT = l.T
	}
	if next != p.N {
		t.Fatalf("%v: %d holders in levels, N=%d", p, next, p.N)
	}
}

func checkGateShape(t interface{ Fatalf(string, ...any) }, p *Policy) {
	var rec func(n *Node)
	rec = func(n *Node) {
		if n.Leaf >= 0 {
			if n.Leaf >= p.N || len(n.Children) != 0 {
				t.Fatalf("%v: bad leaf %d", p, n.Leaf)
			}
			return
		}
		if n.Leaf != -1 || len(n.Children) == 0 || n.T < 1 || n.T > len(n.Children) {
			t.Fatalf("%v: bad gate T=%d children=%d", p, n.T, len(n.Children))
		}
		seen := map[int]bool{}
		for _, c := range n.Children {
			if c.Leaf >= 0 {
				if seen[c.Leaf] {
					t.Fatalf("%v: duplicate attribute %d under one gate", p, c.Leaf)
				}
				seen[c.Leaf] = true
			}
			rec(c)
		}
	}
	rec(p.Root)
	if p.Root.Leaf >= 0 {
		t.Fatalf("%v: root is a leaf", p)
	}
	if p.Root.usedHolders() != p.Full() {
		t.Fatalf("%v: holders used %b, want %b", p, p.Root.usedHolders(), p.Full())
	}
}

func ordinal(n int) []uint64 {
	ids := make([]uint64, n)
	for i := range ids {
		ids[i] = uint64(i + 1)
	}
	return ids
}

// checkBuild: the library constructor accepts the policy under ids and reports exactly those
// shareholders.
func checkBuild(t interface{ Fatalf(string, ...any) }, p *Policy, ids []uint64) {
	ac, err := Build(p, ids)
	if err != nil {
		t.Fatalf("library constructor refuses %v under ids %v: %v", p, ids, err)
	}
	sh := ac.Shareholders()
	if sh.Size() != p.N {
		t.Fatalf("%v under %v: library has %d shareholders", p, ids, sh.Size())
	}
	for _, id := range ids {
		if !sh.Contains(sharing.ID(id)) {
			t.Fatalf("%v under %v: library lacks shareholder %d", p, ids, id)
		}
	}
}

func TestEnumeratorsWellFormed(t *testing.T) {
	// thresholds
	th := AllThresholds(6)
	if len(th) != 2+3+4+5+6 {
		t.Fatalf("AllThresholds(6) = %d policies", len(th))
	}
	for _, p := range th {
		checkMonotone(t, p)
		checkMinMax(t, p)
		checkBuild(t, p, ordinal(p.N))
		if p.SingletonQualified() {
			t.Fatalf("%v has a qualified singleton", p)
		}
	}
	// hierarchical: count by an independent formula. A layout is a composition of n into 1..3
	// parts with cumulative sizes e_1 < ... < e_m = n and thresholds 0 < T_1 < ... < T_m,
	// T_i <= e_i, T_m >= 2.
	for n := 2; n <= 6; n++ {
		want := 0
		for m := 1; m <= 3; m++ {
			var rec func(level, prevE, prevT int)
			rec = func(level, prevE, prevT int) {
				if level == m {
					return
				}
				for e := prevE + 1; e <= n; e++ {
					if level == m-1 && e != n {
						continue
					}
					for T := prevT + 1; T <= e; T++ {
						if level == m-1 {
							if T >= 2 {
								want++
							}
						} else {
							rec(level+1, e, T)
						}
					}
				}
			}
			rec(0, 0, 0)
		}
		hs := AllHier(n)
		seen := map[string]bool{}
		for _, p := range hs {
			if p.N != n || p.Family != Hier {
				t.Fatalf("AllHier(%d) produced %v", n, p)
			}
			checkHierShape(t, p)
			checkMonotone(t, p)
			checkMinMax(t, p)
			checkBuild(t, p, ordinal(p.N))
			if p.Levels[len(p.Levels)-1].T < 2 || p.SingletonQualified() {
				t.Fatalf("%v: a single holder is qualified", p)
			}
			if seen[p.String()] {
				t.Fatalf("AllHier(%d): %v twice", n, p)
			}
			seen[p.String()] = true
		}
		if len(hs) != want {
			t.Fatalf("AllHier(%d) = %d layouts, independent count %d", n, len(hs), want)
		}
		t.Logf("AllHier(%d) = %d", n, len(hs))
	}
	// CNF: constructors accept
	for n := 2; n <= 4; n++ {
		for _, p := range AllCNF(n) {
			checkMonotone(t, p)
			checkBuild(t, p, ordinal(p.N))
		}
	}
	// gates
	for n := 2; n <= 4; n++ {
		gs := AllGates(n, 5)
		seen := map[string]bool{}
		fns := map[uint64]bool{}
		for _, p := range gs {
			if p.N != n || p.Family != Gate {
				t.Fatalf("AllGates(%d) produced %v", n, p)
			}
			checkGateShape(t, p)
			checkMonotone(t, p)
			checkMinMax(t, p)
			checkBuild(t, p, ordinal(p.N))
			if p.Root.Leaves() > 5 || p.Root.Depth() > 2 {
				t.Fatalf("%v: %d leaves, depth %d", p, p.Root.Leaves(), p.Root.Depth())
			}
			if p.SingletonQualified() {
				t.Fatalf("%v has a qualified singleton", p)
			}
			if seen[p.String()] {
				t.Fatalf("AllGates(%d): %v twice", n, p)
			}
			seen[p.String()] = true
			fns[truth(p)] = true
			sum := 0
			for i := 0; i < n; i++ {
				sum += p.Rows(i)
			}
			if sum != p.Root.Leaves() {
				t.Fatalf("%v: Rows sum %d, leaves %d", p, sum, p.Root.Leaves())
			}
		}
		if len(gs) == 0 {
			t.Fatalf("AllGates(%d,5) is empty", n)
		}
		t.Logf("AllGates(%d,5) = %d trees, %d distinct functions", n, len(gs), len(fns))
	}
}

// Cross-check of the family evaluators on convertible policies: threshold(t,n) as CNF (maximal
// unqualified sets = all (t-1)-subsets), as a one-gate tree, as a one-level hierarchy; unanimity
// as threshold(n,n).
func TestFamiliesAgreeOnThresholds(t *testing.T) {
	for n := 2; n <= 6; n++ {
		for T := 2; T <= n; T++ {
			th := &Policy{Family: Threshold, N: n, T: T}
			var mus []uint64
			for s := uint64(0); s < 1<<uint(n); s++ {
				if bits.OnesCount64(s) == T-1 {
					mus = append(mus, s)
				}
			}
			cn := &Policy{Family: CNF, N: n, MUS: mus}
			root := &Node{Leaf: -1, T: T}
			var all []int
			for i := 0; i < n; i++ {
				root.Children = append(root.Children, &Node{Leaf: i})
				all = append(all, i)
			}
			gt := &Policy{Family: Gate, N: n, Root: root}
			hi := &Policy{Family: Hier, N: n, Levels: []Level{{T: T, Members: all}}}
			un := &Policy{Family: Unanimity, N: n}
			for s := uint64(0); s < 1<<uint(n); s++ {
				q := th.Qualified(s)
				if cn.Qualified(s) != q || gt.Qualified(s) != q || hi.Qualified(s) != q {
					t.Fatalf("threshold(%d,%d) set %b: threshold=%v cnf=%v gate=%v hier=%v", T, n, s, q, cn.Qualified(s), gt.Qualified(s), hi.Qualified(s))
				}
				if T == n && un.Qualified(s) != q {
					t.Fatalf("unanimity(%d) set %b", n, s)
				}
			}
		}
	}
	// a two-level hierarchy as a gate tree: (1;{0,1}),(3;{2,3,4}) = AND(OR(0,1), T3(0,1,2,3,4))
	h := &Policy{Family: Hier, N: 5, Levels: []Level{{T: 1, Members: []int{0, 1}}, {T: 3, Members: []int{2, 3, 4}}}}
	or := &Node{Leaf: -1, T: 1, Children: []*Node{{Leaf: 0}, {Leaf: 1}}}
	t3 := &Node{Leaf: -1, T: 3, Children: []*Node{{Leaf: 0}, {Leaf: 1}, {Leaf: 2}, {Leaf: 3}, {Leaf: 4}}}
	g := &Policy{Family: Gate, N: 5, Root: &Node{Leaf: -1, T: 2, Children: []*Node{or, t3}}}
	for s := uint64(0); s < 32; s++ {
		if h.Qualified(s) != g.Qualified(s) {
			t.Fatalf("hier vs gate at %b", s)
		}
	}
}

// ---- rapid generators ---------------------------------------------------------------------------

func TestDrawProducesAcceptedPolicies(t *testing.T) {
	fam := map[string]int{}
	regimes := map[string]int{}
	special := map[uint64]int{}
	rapid.Check(t, func(t *rapid.T) {
		maxN := rapid.IntRange(2, 9).Draw(t, "maxN")
		solo := rapid.Bool().Draw(t, "solo")
		p := Draw(t, Opts{MaxN: maxN, AllowSolo: solo})
		fam[p.Family]++
		if p.N < 2 || p.N > maxN {
			t.Fatalf("%v: N=%d outside [2,%d]", p, p.N, maxN)
		}
		checkMonotone(t, p)
		checkMinMax(t, p)
		if !p.Qualified(p.Full()) || p.Qualified(0) {
			t.Fatalf("%v: full set unqualified or empty set qualified", p)
		}
		if p.AllSingletonsQualified() {
			t.Fatalf("%v: every singleton is qualified", p)
		}
		if !solo && p.SingletonQualified() {
			t.Fatalf("%v: a singleton is qualified although AllowSolo is off", p)
		}
		switch p.Family {
		case Threshold:
			if p.T < 2 || p.T > p.N {
				t.Fatalf("%v", p)
			}
		case CNF:
			var union uint64
			for i, a := range p.MUS {
				if a == 0 || a == p.Full() {
					t.Fatalf("%v: bad set", p)
				}
				union |= a
				for j, b := range p.MUS {
					if i != j && a&^b == 0 {
						t.Fatalf("%v: not an antichain", p)
					}
				}
			}
			if union != p.Full() {
				t.Fatalf("%v: union is not all holders", p)
			}
			if r := p.RedundantHolders(); r != 0 || !p.Essential() {
				t.Fatalf("%v: drawn CNF has redundant holders %b", p, r)
			}
		case Hier:
			checkHierShape(t, p)
		case Gate:
			checkGateShape(t, p)
			if p.Root.Depth() > 3 {
				t.Fatalf("%v: depth %d", p, p.Root.Depth())
			}
		}
		regime := rapid.SampledFrom([]string{Ordinal, Sparse, Large}).Draw(t, "regime")
		regimes[regime]++
		ids := DrawIDs(t, p, regime)
		if len(ids) != p.N {
			t.Fatalf("%d ids for %d holders", len(ids), p.N)
		}
		seen := map[uint64]bool{}
		for _, v := range ids {
			if v == 0 || seen[v] {
				t.Fatalf("ids %v: zero or duplicate", ids)
			}
			seen[v] = true
			if regime == Sparse && v > 64 || regime == Ordinal && v > uint64(p.N) {
				t.Fatalf("ids %v outside the %s regime", ids, regime)
			}
			if v >= 1<<64-2 {
				special[v]++
			}
		}
		if p.Family == Hier {
			var prevMax uint64
			for _, l := range p.Levels {
				var mx uint64
				for _, h := range l.Members {
					if ids[h] <= prevMax {
						t.Fatalf("%v ids %v: IDs do not increase from level to level", p, ids)
					}
					if ids[h] > mx {
						mx = ids[h]
					}
				}
				prevMax = mx
			}
		}
		checkBuild(t, p, ids)
	})
	t.Logf("families %v regimes %v boundary ids %v", fam, regimes, special)
	for _, f := range []string{Threshold, Unanimity, CNF, Hier, Gate} {
		if fam[f] == 0 {
			t.Fatalf("family %s never drawn", f)
		}
	}
}

func TestDropRedundantCNF(t *testing.T) {
	red := 0
	for n := 2; n <= 5; n++ {
		for _, p := range AllCNF(n) {
			var inAll = p.Full()
			for _, u := range p.MUS {
				inAll &= u
			}
			if inAll != p.RedundantHolders() {
				t.Fatalf("%v: in every maximal unqualified set %b, in no minimal qualified set %b", p, inAll, p.RedundantHolders())
			}
			q := DropRedundantCNF(p)
			if q.RedundantHolders() != 0 || q.N < 2 || q.SingletonQualified() || !q.Qualified(q.Full()) {
				t.Fatalf("DropRedundantCNF(%v) = %v", p, q)
			}
			if inAll == 0 {
				if q != p {
					t.Fatalf("%v changed although nobody is redundant", p)
				}
				continue
			}
			red++
			// same function on the surviving holders (unless the fallback 2-of-2 was returned)
			if q.N == p.N-bits.OnesCount64(inAll) {
				keep := Members(p.Full() &^ inAll)
				for s := uint64(0); s <= q.Full(); s++ {
					var orig uint64
					for _, i := range Members(s) {
						orig |= 1 << uint(keep[i])
					}
					if q.Qualified(s) != p.Qualified(orig) || q.Qualified(s) != p.Qualified(orig|inAll) {
						t.Fatalf("DropRedundantCNF(%v) = %v differs at %b", p, q, s)
					}
				}
			}
		}
	}
	if red == 0 {
		t.Fatalf("no CNF with a redundant holder in the small scopes")
	}
	t.Logf("%d enumerated CNF policies have redundant holders", red)
}

// ---- Tassa verdict ----------------------------------------------------------------------------------

func TestTassaVerdict(t *testing.T) {
	q, _ := new(big.Int).SetString("fffffffffffffffffffffffffffffffebaaedce6af48a03bbfd25e8cd0364141", 16) // k256 order
	p := &Policy{Family: Hier, N: 7, Levels: []Level{{T: 2, Members: []int{0, 1, 2}}, {T: 5, Members: []int{3, 4, 5, 6}}}}
	for _, c := range []struct {
		last uint64
		want int
	}{{7, +1}, {1 << 20, +1}, {1 << 40, 0}, {1 << 43, -1}, {1 << 62, -1}, {1<<64 - 2, -1}, {1<<64 - 1, -1}} {
		ids := []uint64{1, 2, 3, 4, 5, 6, c.last}
		got := TassaVerdict(p, ids, q)
		// k = 5: bound = alpha(5) N^6 with alpha(5) = 2^-3 * 4^2 * 24 = 48; with slack alpha(6) (N+1)^10
		exact := new(big.Int).Mul(big.NewInt(48), new(big.Int).Exp(new(big.Int).SetUint64(c.last), big.NewInt(6), nil))
		var want int
		switch {
		case exact.Cmp(new(big.Int).Lsh(q, 1)) >= 0:
			want = -1
		default:
			// alpha(6) = 2^-4 * 5^2.5 * 120 < 420; slack bound^2 compared exactly inside TassaVerdict,
			// here only the table value is used
			want = c.want
		}
		if got != want || (c.want == -1) != (exact.Cmp(new(big.Int).Lsh(q, 1)) >= 0) {
			t.Fatalf("last id %d: verdict %d, want %d (exact bound has %d bits)", c.last, got, want, exact.BitLen())
		}
	}
	// squared bound against a direct rational evaluation for small k, N
	for k := 1; k <= 8; k++ {
		for _, N := range []int64{1, 2, 3, 10, 1000} {
			num, den := TassaBoundSquared(k, big.NewInt(N))
			// bound^2 = 4^(2-k) (k-1)^(k-1) ((k-1)!)^2 N^((k-1)(k-2))
			f := big.NewInt(1)
			for i := int64(2); i < int64(k); i++ {
				f.Mul(f, big.NewInt(i))
			}
			w := new(big.Rat).SetInt(new(big.Int).Exp(big.NewInt(int64(k-1)), big.NewInt(int64(k-1)), nil))
			w.Mul(w, new(big.Rat).SetInt(new(big.Int).Mul(f, f)))
			w.Mul(w, new(big.Rat).SetInt(new(big.Int).Exp(big.NewInt(N), big.NewInt(int64((k-1)*(k-2))), nil)))
			four := big.NewRat(4, 1)
			for i := 0; i < 2-k; i++ {
				w.Mul(w, four)
			}
			for i := 0; i < k-2; i++ {
				w.Quo(w, four)
			}
			if new(big.Rat).SetFrac(num, den).Cmp(w) != 0 {
				t.Fatalf("TassaBoundSquared(%d,%d) = %v/%v, want %v", k, N, num, den, w)
			}
		}
	}
	// monotone in the largest ID: once refused, larger IDs stay refused; once undecided, never accepted again
	prev := +1
	for e := 1; e <= 63; e++ {
		v := TassaVerdict(p, []uint64{1, 2, 3, 4, 5, 6, uint64(1)<<uint(e) + 7}, q)
		if v > prev {
			t.Fatalf("verdict rises from %d to %d at 2^%d", prev, v, e)
		}
		prev = v
	}
}
