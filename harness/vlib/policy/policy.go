// Package policy is an independent model of the five access-structure families of the library,
// written from their definitions: a policy over canonical holders 0..N-1 with a brute-force
// evaluator, generators (rapid) and small-scope enumerators, and a builder that constructs
// the corresponding library object under an arbitrary holder -> shareholder-ID map.
//
// The evaluator never calls the library; it is the oracle for "which sets are qualified".
package policy

import (
	"fmt"
	"math/bits"
	"sort"
	"strings"
)

// Family names.
const (
	Threshold = "threshold"
	Unanimity = "unanimity"
	CNF       = "cnf"
	Hier      = "hier"
	Gate      = "gate"
)

// Level is one level of a hierarchical conjunctive threshold policy: T is the cumulative
// threshold, Members the holders first appearing at this level.
type Level struct {
	T       int
	Members []int
}

// Node is a node of a threshold-gate tree: a leaf (Leaf >= 0) or a gate with threshold T.
type Node struct {
	Leaf     int // holder index, or -1 for a gate
	T        int
	Children []*Node
}

// Policy is a monotone access policy over holders 0..N-1.
type Policy struct {
	Family string
	N      int
	T      int      // threshold
	MUS    []uint64 // cnf: maximal unqualified sets as bit masks over holders
	Levels []Level  // hier
	Root   *Node    // gate
}

// Mask helpers ---------------------------------------------------------------------------

// Full is the mask of all holders.
func (p *Policy) Full() uint64 { return (uint64(1) << uint(p.N)) - 1 }

// Members lists the holder indices in a mask, ascending.
func Members(mask uint64) []int {
	var out []int
	for mask != 0 {
		i := bits.TrailingZeros64(mask)
		out = append(out, i)
		mask &^= 1 << uint(i)
	}
	return out
}

// MaskOf builds a mask from holder indices.
func MaskOf(idx ...int) uint64 {
	var m uint64
	for _, i := range idx {
		m |= 1 << uint(i)
	}
	return m
}

// Qualified evaluates the policy on a set of holders, from the definition of its family.
func (p *Policy) Qualified(set uint64) bool {
	set &= p.Full()
	switch p.Family {
	case Threshold:
		return bits.OnesCount64(set) >= p.T
	case Unanimity:
		return set == p.Full()
	case CNF:
		// qualified iff contained in no maximal unqualified set
		for _, u := range p.MUS {
			if set&^u == 0 {
				return false
			}
		}
		return true
	case Hier:
		var cum uint64
		for _, l := range p.Levels {
			cum |= MaskOf(l.Members...)
			if bits.OnesCount64(set&cum) < l.T {
				return false
			}
		}
		return true
	case Gate:
		return evalNode(p.Root, set)
	}
	panic("unknown family " + p.Family)
}

func evalNode(n *Node, set uint64) bool {
	if n.Leaf >= 0 {
		return set&(1<<uint(n.Leaf)) != 0
	}
	c := 0
	for _, ch := range n.Children {
		if evalNode(ch, set) {
			c++
		}
	}
	return c >= n.T
}

// QualifiedSets returns all qualified masks (N must be small).
func (p *Policy) QualifiedSets() []uint64 {
	var out []uint64
	for s := uint64(0); s <= p.Full(); s++ {
		if p.Qualified(s) {
			out = append(out, s)
		}
	}
	return out
}

// MinimalQualified returns the minimal qualified sets.
func (p *Policy) MinimalQualified() []uint64 {
	var out []uint64
	for s := uint64(1); s <= p.Full(); s++ {
		if !p.Qualified(s) {
			continue
		}
		min := true
		for _, i := range Members(s) {
			if p.Qualified(s &^ (1 << uint(i))) {
				min = false
				break
			}
		}
		if min {
			out = append(out, s)
		}
	}
	return out
}

// MaximalUnqualified returns the maximal unqualified sets by brute force.
func (p *Policy) MaximalUnqualified() []uint64 {
	var out []uint64
	full := p.Full()
	for s := uint64(0); s <= full; s++ {
		if p.Qualified(s) {
			continue
		}
		max := true
		for _, i := range Members(full &^ s) {
			if !p.Qualified(s | 1<<uint(i)) {
				max = false
				break
			}
		}
		if max {
			out = append(out, s)
		}
	}
	return out
}

// SingletonQualified reports whether some single holder is qualified on its own.
func (p *Policy) SingletonQualified() bool {
	for i := 0; i < p.N; i++ {
		if p.Qualified(1 << uint(i)) {
			return true
		}
	}
	return false
}

// AllSingletonsQualified reports whether every single holder is qualified (the policy then
// induces a one-column span programme, which the library refuses by design).
func (p *Policy) AllSingletonsQualified() bool {
	for i := 0; i < p.N; i++ {
		if !p.Qualified(1 << uint(i)) {
			return false
		}
	}
	return true
}

// Essential reports whether every holder matters (appears in some minimal qualified set).
func (p *Policy) Essential() bool {
	var seen uint64
	for _, s := range p.MinimalQualified() {
		seen |= s
	}
	return seen == p.Full()
}

// RedundantHolders returns the mask of holders that occur in no minimal qualified set (adding or
// removing such a holder never changes whether a set is qualified). For a CNF policy these are
// the holders contained in every maximal unqualified set.
func (p *Policy) RedundantHolders() uint64 {
	var seen uint64
	for _, s := range p.MinimalQualified() {
		seen |= s
	}
	return p.Full() &^ seen
}

// Rows returns how many span-programme rows holder i owns under the library's constructions
// (1 for ideal families; number of clauses containing i for CNF; number of leaves for gates).
func (p *Policy) Rows(i int) int {
	switch p.Family {
	case CNF:
		c := 0
		for _, u := range p.MUS {
			if u&(1<<uint(i)) == 0 {
				c++
			}
		}
		return c
	case Gate:
		return countLeaf(p.Root, i)
	}
	return 1
}

func countLeaf(n *Node, i int) int {
	if n.Leaf >= 0 {
		if n.Leaf == i {
			return 1
		}
		return 0
	}
	c := 0
	for _, ch := range n.Children {
		c += countLeaf(ch, i)
	}
	return c
}

// Ideal reports whether every holder owns exactly one row.
func (p *Policy) Ideal() bool {
	for i := 0; i < p.N; i++ {
		if p.Rows(i) != 1 {
			return false
		}
	}
	return true
}

func (n *Node) String() string {
	if n.Leaf >= 0 {
		return fmt.Sprint(n.Leaf)
	}
	parts := make([]string, len(n.Children))
	for i, c := range n.Children {
		parts[i] = c.String()
	}
	return fmt.Sprintf("T%d(%s)", n.T, strings.Join(parts, ","))
}

// String is a canonical printable form (used as evidence descriptor).
func (p *Policy) String() string {
	switch p.Family {
	case Threshold:
		return fmt.Sprintf("threshold(%d,%d)", p.T, p.N)
	case Unanimity:
		return fmt.Sprintf("unanimity(%d)", p.N)
	case CNF:
		m := append([]uint64(nil), p.MUS...)
		sort.Slice(m, func(i, j int) bool { return m[i] < m[j] })
		parts := make([]string, len(m))
		for i, u := range m {
			parts[i] = fmt.Sprint(Members(u))
		}
		return fmt.Sprintf("cnf(n=%d;mus=%s)", p.N, strings.Join(parts, ""))
	case Hier:
		parts := make([]string, len(p.Levels))
		for i, l := range p.Levels {
			parts[i] = fmt.Sprintf("%d:%v", l.T, l.Members)
		}
		return fmt.Sprintf("hier(%s)", strings.Join(parts, ";"))
	case Gate:
		return fmt.Sprintf("gate(n=%d;%s)", p.N, p.Root)
	}
	return "?"
}

// Leaves returns the number of leaves of a gate tree.
func (n *Node) Leaves() int {
	if n.Leaf >= 0 {
		return 1
	}
	c := 0
	for _, ch := range n.Children {
		c += ch.Leaves()
	}
	return c
}

// Depth of a gate tree (a leaf has depth 0).
func (n *Node) Depth() int {
	if n.Leaf >= 0 {
		return 0
	}
	d := 0
	for _, ch := range n.Children {
		if x := ch.Depth(); x > d {
			d = x
		}
	}
	return d + 1
}

// usedHolders returns the mask of holders appearing as leaves.
func (n *Node) usedHolders() uint64 {
	if n.Leaf >= 0 {
		return 1 << uint(n.Leaf)
	}
	var m uint64
	for _, ch := range n.Children {
		m |= ch.usedHolders()
	}
	return m
}
