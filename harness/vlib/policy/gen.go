package policy

import (
	"fmt"
	"math/big"
	"math/bits"
	"sort"

	"pgregory.net/rapid"
)

// ---- rapid generators --------------------------------------------------------------------

// Opts bounds the generated policies.
type Opts struct {
	MaxN      int      // maximum number of holders (>= 2)
	Families  []string // allowed families (default all five)
	MaxDepth  int      // gate trees (default 3)
	AllowSolo bool     // allow policies in which some single holder is qualified (default false)
}

func (o Opts) families() []string {
	if len(o.Families) > 0 {
		return o.Families
	}
	return []string{Threshold, Unanimity, CNF, Hier, Gate}
}

// Draw draws a policy the library accepts for dealing: at least two holders, no all-singleton
// policy; by default no policy in which a single holder is qualified on its own.
func Draw(t *rapid.T, o Opts) *Policy {
	if o.MaxN < 2 {
		o.MaxN = 5
	}
	if o.MaxDepth == 0 {
		o.MaxDepth = 3
	}
	fam := rapid.SampledFrom(o.families()).Draw(t, "family")
	switch fam {
	case Threshold:
		n := rapid.IntRange(2, o.MaxN).Draw(t, "n")
		return &Policy{Family: Threshold, N: n, T: rapid.IntRange(2, n).Draw(t, "t")}
	case Unanimity:
		return &Policy{Family: Unanimity, N: rapid.IntRange(2, o.MaxN).Draw(t, "n")}
	case CNF:
		return drawCNF(t, o)
	case Hier:
		return drawHier(t, o)
	case Gate:
		return drawGate(t, o)
	}
	panic("family")
}

func drawCNF(t *rapid.T, o Opts) *Policy {
	n := rapid.IntRange(2, o.MaxN).Draw(t, "n")
	full := (uint64(1) << uint(n)) - 1
	k := rapid.IntRange(1, 5).Draw(t, "clauses")
	var sets []uint64
	for i := 0; i < k; i++ {
		s := rapid.Uint64Range(1, full-1).Draw(t, fmt.Sprintf("mus%d", i)) // non-empty, proper
		sets = append(sets, s)
	}
	mus := maximalOnly(sets)
	// every holder must occur in some unqualified set (otherwise it would be qualified on its
	// own and the library does not count it as a shareholder): add singletons for the missing.
	var union uint64
	for _, s := range mus {
		union |= s
	}
	for i := 0; i < n; i++ {
		if union&(1<<uint(i)) == 0 {
			mus = append(mus, 1<<uint(i))
		}
	}
	mus = maximalOnly(mus)
	p := &Policy{Family: CNF, N: n, MUS: mus}
	// A holder contained in EVERY maximal unqualified set is redundant (it is in no minimal
	// qualified set); the library's CNF span programme gives such a holder no row and hence no
	// share. Draw returns only policies in which every holder matters: redundant holders are
	// dropped and the rest renumbered (see DropRedundantCNF).
	return DropRedundantCNF(p)
}

// DropRedundantCNF removes the holders that occur in every maximal unqualified set of a CNF
// policy and renumbers the remaining ones; if fewer than two holders or no unqualified set
// would remain it returns the policy cnf({0},{1}) (= 2-of-2).
func DropRedundantCNF(p *Policy) *Policy {
	all := p.Full()
	for _, u := range p.MUS {
		all &= u
	}
	if all == 0 {
		return p
	}
	remap := map[int]int{}
	for i := 0; i < p.N; i++ {
		if all&(1<<uint(i)) == 0 {
			remap[i] = len(remap)
		}
	}
	var mus []uint64
	for _, u := range p.MUS {
		var v uint64
		for _, i := range Members(u &^ all) {
			v |= 1 << uint(remap[i])
		}
		if v != 0 {
			mus = append(mus, v)
		}
	}
	mus = maximalOnly(mus)
	q := &Policy{Family: CNF, N: len(remap), MUS: mus}
	var union uint64
	for _, u := range mus {
		union |= u
	}
	if q.N < 2 || len(mus) == 0 || union != q.Full() {
		return &Policy{Family: CNF, N: 2, MUS: []uint64{1, 2}}
	}
	return DropRedundantCNF(q)
}

func maximalOnly(sets []uint64) []uint64 {
	var out []uint64
	for i, s := range sets {
		keep := true
		for j, u := range sets {
			if i == j {
				continue
			}
			if s&^u == 0 && (s != u || j < i) { // s subset of u (strict, or duplicate seen earlier)
				keep = false
				break
			}
		}
		if keep {
			out = append(out, s)
		}
	}
	sort.Slice(out, func(i, j int) bool { return out[i] < out[j] })
	return out
}

func drawHier(t *rapid.T, o Opts) *Policy {
	n := rapid.IntRange(2, o.MaxN).Draw(t, "n")
	maxLevels := 3
	if n < maxLevels {
		maxLevels = n
	}
	nl := rapid.IntRange(1, maxLevels).Draw(t, "levels")
	// split holders 0..n-1 into nl consecutive non-empty groups
	cuts := map[int]bool{}
	for len(cuts) < nl-1 {
		cuts[rapid.IntRange(1, n-1).Draw(t, fmt.Sprintf("cut%d", len(cuts)))] = true
	}
	var cs []int
	for c := range cuts {
		cs = append(cs, c)
	}
	sort.Ints(cs)
	cs = append(cs, n)
	var levels []Level
	start, prevT := 0, 0
	for li, end := range cs {
		var mem []int
		for i := start; i < end; i++ {
			mem = append(mem, i)
		}
		// cumulative threshold: strictly increasing, <= cumulative members, and leave room for
		// later levels to increase further
		remaining := len(cs) - 1 - li
		lo, hi := prevT+1, end-remaining
		if li == 0 && lo < 1 {
			lo = 1
		}
		if hi < lo {
			hi = lo
		}
		if hi > end {
			hi = end
		}
		T := rapid.IntRange(lo, hi).Draw(t, fmt.Sprintf("T%d", li))
		levels = append(levels, Level{T: T, Members: mem})
		prevT, start = T, end
	}
	p := &Policy{Family: Hier, N: n, Levels: levels}
	if p.SingletonQualified() {
		// only (1;all) has qualified singletons, and there every singleton is qualified (a policy
		// Draw promises never to return, whatever AllowSolo says): bump the top threshold
		p.Levels[len(p.Levels)-1].T = 2
		if len(p.Levels) > 1 && p.Levels[len(p.Levels)-2].T >= 2 {
			p.Levels[len(p.Levels)-1].T = p.Levels[len(p.Levels)-2].T + 1
		}
	}
	return p
}

func drawGate(t *rapid.T, o Opts) *Policy {
	n := rapid.IntRange(2, o.MaxN).Draw(t, "n")
	for attempt := 0; ; attempt++ {
		root := drawNode(t, n, o.MaxDepth, fmt.Sprintf("g%d", attempt), true)
		p := &Policy{Family: Gate, N: n, Root: root}
		used := root.usedHolders()
		// relabel so that holders are exactly 0..k-1
		if used != p.Full() {
			remap := map[int]int{}
			for _, i := range Members(used) {
				remap[i] = len(remap)
			}
			relabel(root, remap)
			p.N = len(remap)
		}
		if p.N < 2 || p.AllSingletonsQualified() || (!o.AllowSolo && p.SingletonQualified()) {
			if attempt > 20 {
				// fall back to a fixed well-formed tree: AND(0, OR(1, AND(0?..))) -> 2-of-(0,1,..)
				leaves := []*Node{{Leaf: 0}, {Leaf: 1}}
				return &Policy{Family: Gate, N: 2, Root: &Node{Leaf: -1, T: 2, Children: leaves}}
			}
			continue
		}
		return p
	}
}

func relabel(n *Node, m map[int]int) {
	if n.Leaf >= 0 {
		n.Leaf = m[n.Leaf]
		return
	}
	for _, c := range n.Children {
		relabel(c, m)
	}
}

func drawNode(t *rapid.T, n, depth int, name string, root bool) *Node {
	if !root && (depth == 0 || rapid.IntRange(0, 2).Draw(t, name+".leaf?") > 0) {
		return &Node{Leaf: rapid.IntRange(0, n-1).Draw(t, name+".leaf")}
	}
	k := rapid.IntRange(2, 4).Draw(t, name+".k")
	node := &Node{Leaf: -1}
	usedLeaves := map[int]bool{}
	for i := 0; i < k; i++ {
		c := drawNode(t, n, depth-1, fmt.Sprintf("%s.%d", name, i), false)
		if c.Leaf >= 0 {
			if usedLeaves[c.Leaf] { // the library forbids duplicate attribute children under one gate
				continue
			}
			usedLeaves[c.Leaf] = true
		}
		node.Children = append(node.Children, c)
	}
	if len(node.Children) == 0 {
		node.Children = []*Node{{Leaf: rapid.IntRange(0, n-1).Draw(t, name+".only")}}
	}
	node.T = rapid.IntRange(1, len(node.Children)).Draw(t, name+".T")
	return node
}

// ---- shareholder-ID assignments --------------------------------------------------------------

// ID regimes.
const (
	Ordinal = "ordinal"
	Sparse  = "sparse" // distinct, unsorted values in [1,64]
	Large   = "large"  // up to 2^64-1
)

var largeSpecials = []uint64{1, 2, 63, 64, 65, 255, 256, 65535, 65536, 1<<32 - 1, 1 << 32, 1<<32 + 1, 1 << 62, 1<<63 - 1, 1 << 63, 1<<63 + 1, 1<<64 - 2, 1<<64 - 1}

// DrawIDs draws an injective holder -> shareholder-ID map in the given regime. For hierarchical
// policies the IDs increase from level to level (the library's documented requirement).
func DrawIDs(t *rapid.T, p *Policy, regime string) []uint64 {
	n := p.N
	ids := make([]uint64, 0, n)
	seen := map[uint64]bool{}
	add := func(v uint64) bool {
		if v == 0 || seen[v] {
			return false
		}
		seen[v] = true
		ids = append(ids, v)
		return true
	}
	switch regime {
	case Ordinal:
		for i := 1; i <= n; i++ {
			add(uint64(i))
		}
		return ids // already level-ordered
	case Sparse:
		for i := 0; len(ids) < n; i++ {
			add(rapid.Uint64Range(1, 64).Draw(t, fmt.Sprintf("id%d", i)))
		}
	case Large:
		for i := 0; len(ids) < n; i++ {
			if rapid.IntRange(0, 2).Draw(t, fmt.Sprintf("idk%d", i)) == 0 {
				add(rapid.SampledFrom(largeSpecials).Draw(t, fmt.Sprintf("ids%d", i)))
			} else {
				add(rapid.Uint64Range(1, ^uint64(0)).Draw(t, fmt.Sprintf("id%d", i)))
			}
		}
	default:
		panic("regime")
	}
	if p.Family == Hier {
		// holders are numbered level by level: sorted IDs satisfy the level order; shuffle inside levels
		sort.Slice(ids, func(i, j int) bool { return ids[i] < ids[j] })
		for _, l := range p.Levels {
			if len(l.Members) > 1 {
				perm := rapid.Permutation(l.Members).Draw(t, "lvlperm")
				tmp := make([]uint64, len(perm))
				for k, h := range perm {
					tmp[k] = ids[h]
				}
				for k, h := range l.Members {
					ids[h] = tmp[k]
				}
			}
		}
	}
	return ids
}

// TassaBound returns the exact value alpha(k) * N^((k-1)(k-2)/2) scaled: it returns
// (num, den) with value = sqrt-free approximation avoided by squaring: since alpha(k) contains
// (k-1)^((k-1)/2) we return the SQUARE of the bound as an exact rational: bound^2 = num/den.
// k is the top threshold and N the largest ID, both already including any slack the caller wants.
func TassaBoundSquared(k int, N *big.Int) (num, den *big.Int) {
	// alpha(k) = 2^(2-k) * (k-1)^((k-1)/2) * (k-1)!
	// bound^2 = 2^(4-2k) * (k-1)^(k-1) * ((k-1)!)^2 * N^((k-1)(k-2))
	km1 := big.NewInt(int64(k - 1))
	num = new(big.Int).Exp(km1, km1, nil)
	f := big.NewInt(1)
	for i := int64(2); i <= int64(k-1); i++ {
		f.Mul(f, big.NewInt(i))
	}
	num.Mul(num, f).Mul(num, f)
	e := big.NewInt(int64((k - 1) * (k - 2)))
	num.Mul(num, new(big.Int).Exp(N, e, nil))
	den = big.NewInt(1)
	sh := 4 - 2*k
	if sh >= 0 {
		num.Lsh(num, uint(sh))
	} else {
		den.Lsh(den, uint(-sh))
	}
	return num, den
}

// TassaVerdict classifies a hierarchical policy under an ID assignment against field order q:
// +1 = the documented bound holds with a factor-2 margin even with the code's +1 slack on N and
// k (must be accepted), -1 = the exact bound is violated by a factor >= 2 (must be refused),
// 0 = inside the guard band (nothing asserted).
func TassaVerdict(p *Policy, ids []uint64, q *big.Int) int {
	k := p.Levels[len(p.Levels)-1].T
	var maxID uint64
	for _, v := range ids {
		if v > maxID {
			maxID = v
		}
	}
	N := new(big.Int).SetUint64(maxID)
	// exact: bound(k, N) >= 2q  <=>  bound^2 >= 4 q^2
	num, den := TassaBoundSquared(k, N)
	q2 := new(big.Int).Mul(q, q)
	lhs := new(big.Int).Set(num)
	rhs := new(big.Int).Mul(new(big.Int).Lsh(q2, 2), den)
	if lhs.Cmp(rhs) >= 0 {
		return -1
	}
	// slack: bound(k+1, N+1) <= q/2  <=>  4*bound^2 <= q^2
	num, den = TassaBoundSquared(k+1, new(big.Int).Add(N, big.NewInt(1)))
	lhs = new(big.Int).Lsh(num, 2)
	rhs = new(big.Int).Mul(q2, den)
	if lhs.Cmp(rhs) <= 0 && k+1 <= 20 {
		return +1
	}
	return 0
}

// ---- small-scope enumerators --------------------------------------------------------------

// AllThresholds enumerates threshold(t,n) for 2 <= t <= n <= maxN and unanimity(n).
func AllThresholds(maxN int) []*Policy {
	var out []*Policy
	for n := 2; n <= maxN; n++ {
		for t := 2; t <= n; t++ {
			out = append(out, &Policy{Family: Threshold, N: n, T: t})
		}
		out = append(out, &Policy{Family: Unanimity, N: n})
	}
	return out
}

// AllCNF enumerates every antichain of non-empty proper subsets of n holders whose union is
// all holders (i.e. every CNF policy with exactly n shareholders), as maximal unqualified sets.
// NOTE: this includes policies with redundant holders (a holder contained in EVERY maximal
// unqualified set, e.g. cnf(n=3; mus={0,1},{0,2})): the library's span programme gives such a
// holder no row and dealers hand it no share (known finding C02-cnf-redundant-holder). Callers
// that need every holder to own a share filter with p.RedundantHolders() == 0 (Draw already
// returns only such policies, see DropRedundantCNF).
func AllCNF(n int) []*Policy {
	full := (uint64(1) << uint(n)) - 1
	var subsets []uint64
	for s := uint64(1); s < full; s++ {
		subsets = append(subsets, s)
	}
	var out []*Policy
	var rec func(start int, chosen []uint64)
	rec = func(start int, chosen []uint64) {
		if len(chosen) > 0 {
			var u uint64
			for _, c := range chosen {
				u |= c
			}
			if u == full {
				out = append(out, &Policy{Family: CNF, N: n, MUS: append([]uint64(nil), chosen...)})
			}
		}
		for i := start; i < len(subsets); i++ {
			s := subsets[i]
			ok := true
			for _, c := range chosen {
				if s&^c == 0 || c&^s == 0 {
					ok = false
					break
				}
			}
			if ok {
				rec(i+1, append(chosen, s))
			}
		}
	}
	rec(0, nil)
	return out
}

// AllHier enumerates every layout of n holders into 1..3 consecutive levels with strictly
// increasing cumulative thresholds (top threshold >= 2).
func AllHier(n int) []*Policy {
	var out []*Policy
	var rec func(start, prevT int, levels []Level)
	rec = func(start, prevT int, levels []Level) {
		if start == n {
			if len(levels) > 0 && levels[len(levels)-1].T >= 2 {
				cp := make([]Level, len(levels))
				copy(cp, levels)
				out = append(out, &Policy{Family: Hier, N: n, Levels: cp})
			}
			return
		}
		if len(levels) == 3 {
			return
		}
		for end := start + 1; end <= n; end++ {
			var mem []int
			for i := start; i < end; i++ {
				mem = append(mem, i)
			}
			for T := prevT + 1; T <= end; T++ {
				rec(end, T, append(levels, Level{T: T, Members: mem}))
			}
		}
	}
	rec(0, 0, nil)
	return out
}

// AllGates enumerates gate trees with at most maxLeaves leaves over holders 0..n-1 (depth <= 2),
// keeping those that use every holder and in which no single holder is qualified.
func AllGates(n, maxLeaves int) []*Policy {
	var out []*Policy
	seen := map[string]bool{}
	// depth-1 gates over leaves, and depth-2 gates whose children are leaves or depth-1 gates
	var leafSets [][]int
	for m := uint64(1); m < 1<<uint(n); m++ {
		leafSets = append(leafSets, Members(m))
	}
	var d1 []*Node
	for _, ls := range leafSets {
		if len(ls) < 2 || len(ls) > maxLeaves {
			continue
		}
		for T := 1; T <= len(ls); T++ {
			g := &Node{Leaf: -1, T: T}
			for _, l := range ls {
				g.Children = append(g.Children, &Node{Leaf: l})
			}
			d1 = append(d1, g)
		}
	}
	emit := func(root *Node) {
		p := &Policy{Family: Gate, N: n, Root: root}
		if root.usedHolders() != p.Full() || p.SingletonQualified() {
			return
		}
		s := root.String()
		if seen[s] {
			return
		}
		seen[s] = true
		out = append(out, p)
	}
	for _, g := range d1 {
		emit(g)
	}
	// depth 2: children = some leaves (distinct) + one or two depth-1 gates
	for _, ls := range append([][]int{nil}, leafSets...) {
		for i, g1 := range d1 {
			for j := i; j <= len(d1); j++ {
				kids := []*Node{}
				for _, l := range ls {
					kids = append(kids, &Node{Leaf: l})
				}
				kids = append(kids, g1)
				leaves := len(ls) + g1.Leaves()
				if j < len(d1) {
					kids = append(kids, d1[j])
					leaves += d1[j].Leaves()
				}
				if leaves > maxLeaves || len(kids) < 2 {
					continue
				}
				for T := 1; T <= len(kids); T++ {
					emit(&Node{Leaf: -1, T: T, Children: kids})
				}
			}
		}
	}
	return out
}

// PopCount is bits.OnesCount64.
func PopCount(m uint64) int { return bits.OnesCount64(m) }
