package vlib

import (
	"encoding/json"
	"flag"
	"fmt"
	"hash/fnv"
	"os"
	"sort"
	"strconv"
	"strings"
	"sync"
	"testing"

	"pgregory.net/rapid"
)

// The statistics protocol between a harness test binary and the ./check driver.
//
// Every property calls Case(descriptor, nontrivial, classes...) once per generated case.
// The process keeps counters in memory and, when vlib.Main returns, writes one JSON document
// to the file named by VERIF_STATS: evaluations, the set of distinct non-trivial descriptor
// hashes, class histograms, samples, known-finding observations. The driver merges the
// documents of all shards (distinct hashes are united, never added).

type statsDoc struct {
	Evaluations int               `json:"evaluations"`
	NT          int               `json:"nt"`
	Distinct    []string          `json:"distinct"`
	Classes     map[string]int    `json:"classes"`
	Samples     []json.RawMessage `json:"samples"`
	Known       []KnownObs        `json:"known"`
	Excluded    map[string]int    `json:"excluded_known"`
	Exhaustive  []string          `json:"exhaustive"`
	Tests       map[string]int    `json:"tests"`
	Notes       []string          `json:"notes"`
}

// KnownObs is one observation of a catalogued finding made by a regression test.
type KnownObs struct {
	ID      string `json:"id"`
	Present bool   `json:"present"`
	What    string `json:"what"`
}

var (
	stMu          sync.Mutex
	stEvals       int
	stNT          int
	stDistinct    = map[uint64]struct{}{}
	stClasses     = map[string]int{}
	stSamples     []json.RawMessage
	stSampleK     = map[string]int{}
	stKnown       []KnownObs
	stExcluded    = map[string]int{}
	stExh         []string
	stTests       = map[string]int{}
	stNotes       []string
	stAuto        = map[string]int{}
	stAutoSamples []json.RawMessage
)

const maxSamplesPerKind = 3
const maxSamples = 40

func h64(s string) uint64 {
	h := fnv.New64a()
	_, _ = h.Write([]byte(s))
	return h.Sum64()
}

// Case records one executed case. desc identifies the case up to the equivalence the
// property's NT rule names; nt says whether it is non-trivial by that rule.
func Case(test, desc string, nt bool, classes ...string) {
	stMu.Lock()
	defer stMu.Unlock()
	stEvals++
	stTests[test]++
	if nt {
		stNT++
		stDistinct[h64(test+"|"+desc)] = struct{}{}
	}
	for _, c := range classes {
		stClasses[test+":"+c]++
	}
	// fallback sample: the first few non-trivial cases of every test are written out with
	// their descriptor and classes (tests add richer samples with Sample)
	if nt && stAuto[test] < 2 && len(stAutoSamples) < 24 {
		stAuto[test]++
		b, _ := json.Marshal(map[string]any{"kind": "case:" + test, "case": map[string]any{"descriptor": desc, "classes": classes}})
		stAutoSamples = append(stAutoSamples, b)
	}
}

// Class bumps a histogram bucket without counting a case.
func Class(test, class string) {
	stMu.Lock()
	defer stMu.Unlock()
	stClasses[test+":"+class]++
}

// Sample stores a written-out case (at most a few per kind).
func Sample(kind string, v any) {
	stMu.Lock()
	defer stMu.Unlock()
	if stSampleK[kind] >= maxSamplesPerKind || len(stSamples) >= maxSamples {
		return
	}
	stSampleK[kind]++
	b, err := json.Marshal(map[string]any{"kind": kind, "case": v})
	if err != nil {
		b, _ = json.Marshal(map[string]any{"kind": kind, "case": fmt.Sprintf("%v", v)})
	}
	stSamples = append(stSamples, b)
}

// Known records that a catalogued finding was re-checked and whether it is still present.
func Known(id string, present bool, what string) {
	stMu.Lock()
	defer stMu.Unlock()
	stKnown = append(stKnown, KnownObs{ID: id, Present: present, What: what})
}

// Excluded counts a generated input that was skipped because it is exactly a catalogued finding.
func Excluded(id string) {
	stMu.Lock()
	defer stMu.Unlock()
	stExcluded[id]++
}

// Exhaustive names a finite sub-space that this run enumerated completely.
func Exhaustive(what string) {
	stMu.Lock()
	defer stMu.Unlock()
	stExh = append(stExh, what)
}

// Note attaches a free-text remark to the evidence.
func Note(s string) {
	stMu.Lock()
	defer stMu.Unlock()
	stNotes = append(stNotes, s)
}

func flush() {
	path := os.Getenv("VERIF_STATS")
	if path == "" {
		return
	}
	stMu.Lock()
	defer stMu.Unlock()
	samples := stSamples
	if len(samples) < 6 {
		samples = append(append([]json.RawMessage{}, samples...), stAutoSamples...)
	}
	d := statsDoc{
		Evaluations: stEvals, NT: stNT, Classes: stClasses, Samples: samples,
		Known: stKnown, Excluded: stExcluded, Exhaustive: stExh, Tests: stTests, Notes: stNotes,
	}
	for k := range stDistinct {
		d.Distinct = append(d.Distinct, strconv.FormatUint(k, 16))
	}
	sort.Strings(d.Distinct)
	b, _ := json.Marshal(d)
	_ = os.WriteFile(path, b, 0o644)
}

// Main is the TestMain body of every harness package.
func Main(m *testing.M) {
	code := m.Run()
	flush()
	os.Exit(code)
}

// ---- run parameters ---------------------------------------------------------------------

func envInt(name string, def int) int {
	if v := os.Getenv(name); v != "" {
		if n, err := strconv.Atoi(v); err == nil {
			return n
		}
	}
	return def
}

func envFloat(name string, def float64) float64 {
	if v := os.Getenv(name); v != "" {
		if n, err := strconv.ParseFloat(v, 64); err == nil {
			return n
		}
	}
	return def
}

// Seed is VERIF_SEED (default 1).
func Seed() uint64 { return uint64(envInt("VERIF_SEED", 1)) }

// Shard returns (index, count) of this process among the parallel shards.
func Shard() (int, int) {
	k, n := envInt("VERIF_SHARD", 0), envInt("VERIF_SHARDS", 1)
	if n < 1 {
		n = 1
	}
	return k % n, n
}

// Thorough reports whether the thorough tier is running.
func Thorough() bool { return os.Getenv("VERIF_TIER") == "thorough" }

// Scale is the tier's multiplier on case counts (quick 1).
func Scale() float64 { return envFloat("VERIF_SCALE", 1) }

// Mine reports whether item i of an enumeration belongs to this shard.
func Mine(i int) bool {
	k, n := Shard()
	return i%n == k
}

// Replaying reports whether the process replays a saved failure (no sharding, no scaling).
func Replaying() bool { return os.Getenv("VERIF_REPLAY") != "" }

// Check runs prop under rapid with a number of checks of base*Scale()/shards (at least 1)
// and a PRNG value derived from (VERIF_SEED, shard, test name); never 0.
func Check(t *testing.T, base int, prop func(*rapid.T)) {
	t.Helper()
	if !Replaying() {
		k, n := Shard()
		checks := int(float64(base)*Scale()) / n
		if int(float64(base)*Scale())%n > k {
			checks++
		}
		if checks < 1 {
			// fewer cases than shards: the low shards take one each
			if k < int(float64(base)*Scale()) || k == 0 {
				checks = 1
			} else {
				t.Skip("no cases for this shard")
			}
		}
		seed := h64(fmt.Sprintf("%d/%d/%s", Seed(), k, t.Name()))
		if seed == 0 {
			seed = 1
		}
		mustSet("rapid.checks", strconv.Itoa(checks))
		mustSet("rapid.seed", strconv.FormatUint(seed, 10))
	}
	rapid.Check(t, prop)
}

func mustSet(name, v string) {
	if err := flag.Set(name, v); err != nil {
		panic(err)
	}
}

// Desc joins descriptor parts.
func Desc(parts ...any) string {
	ss := make([]string, len(parts))
	for i, p := range parts {
		ss[i] = fmt.Sprint(p)
	}
	return strings.Join(ss, "|")
}
