package vlib

import (
	_ "embed"
	"encoding/json"
	"fmt"
	"math/big"
	"sync"
)

// Prime fixtures generated offline with `openssl prime -generate [-safe]` (independent of the
// code under test): ordinary ("ord"), Blum ("blum", p = 3 mod 4) and safe ("safe", (p-1)/2
// prime) primes of 512, 768, 1024 and 1536 bits. Checked once per process with
// math/big.ProbablyPrime.

//go:embed fixtures/primes.json
var primesJSON []byte

var (
	primesOnce sync.Once
	primes     map[string]map[string][]*big.Int
)

func loadPrimes() {
	raw := map[string]map[string][]string{}
	if err := json.Unmarshal(primesJSON, &raw); err != nil {
		panic(err)
	}
	primes = map[string]map[string][]*big.Int{}
	for bits, kinds := range raw {
		primes[bits] = map[string][]*big.Int{}
		for kind, list := range kinds {
			for _, s := range list {
				p, ok := new(big.Int).SetString(s, 10)
				if !ok || !p.ProbablyPrime(16) || fmt.Sprint(p.BitLen()) != bits {
					panic("bad prime fixture " + s)
				}
				switch kind {
				case "blum":
					if new(big.Int).Mod(p, big.NewInt(4)).Int64() != 3 {
						panic("fixture is not a Blum prime")
					}
				case "safe":
					q := new(big.Int).Rsh(p, 1)
					if !q.ProbablyPrime(16) {
						panic("fixture is not a safe prime")
					}
				}
				primes[bits][kind] = append(primes[bits][kind], p)
			}
		}
	}
}

// Primes returns the fixture primes of the given bit length (512, 768, 1024, 1536) and kind
// ("ord", "blum", "safe"). Safe primes are also Blum primes. The slice must not be modified.
func Primes(bits int, kind string) []*big.Int {
	primesOnce.Do(loadPrimes)
	return primes[fmt.Sprint(bits)][kind]
}
