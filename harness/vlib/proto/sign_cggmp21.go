package proto

import (
	"fmt"
	"io"
	"math/big"
	"sort"

	"github.com/bronlabs/bron-crypto/pkg/base/nt/num"
	"github.com/bronlabs/bron-crypto/pkg/base/nt/znstar"
	"github.com/bronlabs/bron-crypto/pkg/commitments/intcom"
	"github.com/bronlabs/bron-crypto/pkg/encryption/paillier"
	"github.com/bronlabs/bron-crypto/pkg/mpc/session"
	"github.com/bronlabs/bron-crypto/pkg/mpc/signatures/ecdsa/cggmp21"
	cggsigning "github.com/bronlabs/bron-crypto/pkg/mpc/signatures/ecdsa/cggmp21/signing"
	"github.com/bronlabs/bron-crypto/pkg/network"
	"verif/harness/vlib"
)

func natPlus(x *big.Int) *num.NatPlus {
	v, err := num.NPlus().FromBig(x)
	if err != nil {
		panic(err)
	}
	return v
}

// fixturePaillierBlum builds a Paillier secret key over N = p*q from two 1024-bit Blum fixture primes.
func fixturePaillierBlum(k int) (*paillier.SecretKey, error) {
	ps := vlib.Primes(1024, "blum")
	pairs := [][2]int{{0, 1}, {2, 3}, {4, 5}, {0, 2}, {1, 3}, {2, 4}, {3, 5}, {0, 4}, {1, 5}}
	pr := pairs[k%len(pairs)]
	g, err := znstar.NewPaillierGroup(natPlus(ps[pr[0]]), natPlus(ps[pr[1]]))
	if err != nil {
		return nil, err
	}
	return paillier.NewSecretKey(g)
}

// fixtureRingPedersen builds a ring-Pedersen trapdoor key over the product of two 1024-bit safe fixture primes.
func fixtureRingPedersen(k int) (*intcom.TrapdoorKey, error) {
	ps := vlib.Primes(1024, "safe")
	pairs := [][2]int{{0, 1}, {2, 3}, {4, 5}, {0, 2}, {1, 3}, {2, 4}, {3, 5}, {0, 4}, {1, 5}}
	pr := pairs[k%len(pairs)]
	p, q := ps[pr[0]], ps[pr[1]]
	group, err := znstar.NewRSAGroup(natPlus(p), natPlus(q))
	if err != nil {
		return nil, err
	}
	n := new(big.Int).Mul(p, q)
	prng := vlib.NewPRNG(uint64(k), "ring-pedersen-fixture")
	var t *znstar.RSAGroupElementKnownOrder
	for {
		t, err = group.RandomQuadraticResidue(prng)
		if err != nil {
			return nil, err
		}
		tm1 := new(big.Int).Sub(t.Value().Lift().Big(), big.NewInt(1))
		if new(big.Int).GCD(nil, nil, tm1, n).Cmp(big.NewInt(1)) == 0 {
			break
		}
	}
	phi4 := new(big.Int).Mul(new(big.Int).Rsh(p, 1), new(big.Int).Rsh(q, 1))
	zm, err := num.NewZMod(natPlus(phi4))
	if err != nil {
		return nil, err
	}
	for {
		lambda, err := zm.Random(prng)
		if err != nil {
			return nil, err
		}
		l := lambda.Lift().Big()
		if l.Cmp(big.NewInt(1)) > 0 && new(big.Int).GCD(nil, nil, l, phi4).Cmp(big.NewInt(1)) == 0 {
			return intcom.NewTrapdoorKey(t, lambda)
		}
	}
}

// CGGMP21Shards attaches auxiliary information (Paillier-Blum and ring-Pedersen keys built from
// prime fixtures through the library's constructors; at most 9 holders) to base shards.
func (s *ecdsaSuite[P, B, S]) CGGMP21Shards(baseShards map[ID]any) (map[ID]any, error) {
	var ids []ID
	for id := range baseShards {
		ids = append(ids, id)
	}
	sort.Slice(ids, func(i, j int) bool { return ids[i] < ids[j] })
	if len(ids) > 9 {
		return nil, fmt.Errorf("not enough fixture primes for %d holders", len(ids))
	}
	psk := map[ID]*paillier.SecretKey{}
	ppk := map[ID]*paillier.PublicKey{}
	rsk := map[ID]*intcom.TrapdoorKey{}
	rpk := map[ID]*intcom.CommitmentKey{}
	for k, id := range ids {
		sk, err := fixturePaillierBlum(k)
		if err != nil {
			return nil, fmt.Errorf("paillier fixture %d: %w", k, err)
		}
		tk, err := fixtureRingPedersen(k)
		if err != nil {
			return nil, fmt.Errorf("ring-pedersen fixture %d: %w", k, err)
		}
		psk[id], ppk[id], rsk[id], rpk[id] = sk, sk.Public(), tk, tk.Export()
	}
	refresh := make([]byte, 32)
	_, _ = io.ReadFull(vlib.NewPRNG(1, "cggmp21-refresh-id"), refresh)
	out := map[ID]any{}
	for _, id := range ids {
		pks := map[ID]*paillier.PublicKey{}
		rks := map[ID]*intcom.CommitmentKey{}
		for _, o := range ids {
			if o != id {
				pks[o], rks[o] = ppk[o], rpk[o]
			}
		}
		aux, err := cggmp21.NewAuxInfo(psk[id], pks, rsk[id], rks, refresh)
		if err != nil {
			return nil, fmt.Errorf("aux info of %d: %w", id, err)
		}
		bs, err := s.base(baseShards[id])
		if err != nil {
			return nil, err
		}
		sh, err := cggmp21.NewShard[P, B, S](bs, aux)
		if err != nil {
			return nil, fmt.Errorf("cggmp21 shard of %d: %w", id, err)
		}
		out[id] = sh
	}
	return out, nil
}

// CGGMP21Runner builds a signing runner; its output is a *signing.SignResult.
func (s *ecdsaSuite[P, B, S]) CGGMP21Runner(ctx *session.Context, shard any, message []byte, prng io.Reader) (network.Runner[any], error) {
	sh, ok := shard.(*cggmp21.Shard[P, B, S])
	if !ok {
		return nil, fmt.Errorf("not a cggmp21 shard: %T", shard)
	}
	return Erase(cggsigning.NewRunner(ctx, s.suite, sh, message, prng))
}

// CGGMP21Finish aggregates the partial signatures of all results with EACH party's cosigning
// aggregator and with the stateless aggregator; all must return the same signature.
func (s *ecdsaSuite[P, B, S]) CGGMP21Finish(outs map[ID]any) (*ECDSASig, error) {
	ps := map[ID]*cggmp21.PartialSignature[P, B, S]{}
	var aggs []cggsigning.PartialSignatureAggregator[P, B, S]
	for id, o := range outs {
		r, ok := o.(*cggsigning.SignResult[P, B, S])
		if !ok || r == nil {
			return nil, fmt.Errorf("output of %d is %T", id, o)
		}
		ps[id] = r.PartialSignature()
		aggs = append(aggs, r.PartialSignatureCosigningAggregator())
	}
	stateless, err := cggsigning.NewNonCosigningAggregator[P, B, S](s.curve)
	if err != nil {
		return nil, err
	}
	aggs = append(aggs, stateless)
	var first *ECDSASig
	for i, a := range aggs {
		sig, err := a.Aggregate(ps)
		if err != nil {
			return nil, fmt.Errorf("aggregator %d: %w", i, err)
		}
		e, err := s.SigOf(sig)
		if err != nil {
			return nil, err
		}
		if first == nil {
			first = e
		} else if first.R.Cmp(e.R) != 0 || first.S.Cmp(e.S) != 0 {
			return nil, fmt.Errorf("AGGREGATORS-DISAGREE: %v vs %v", first, e)
		}
	}
	return first, nil
}
