package proto

import (
	"fmt"
	"io"
	"math/big"
	"sort"

	"github.com/bronlabs/bron-crypto/pkg/base/algebra"
	"github.com/bronlabs/bron-crypto/pkg/base/curves/edwards25519"
	"github.com/bronlabs/bron-crypto/pkg/base/curves/k256"
	"github.com/bronlabs/bron-crypto/pkg/base/curves/p256"
	"github.com/bronlabs/bron-crypto/pkg/base/curves/pairable/bls12381"
	"github.com/bronlabs/bron-crypto/pkg/base/curves/pasta"
	"github.com/bronlabs/bron-crypto/pkg/base/serde"
	"github.com/bronlabs/bron-crypto/pkg/mpc"
	"github.com/bronlabs/bron-crypto/pkg/mpc/dkg/canetti"
	"github.com/bronlabs/bron-crypto/pkg/mpc/dkg/gennaro"
	"github.com/bronlabs/bron-crypto/pkg/mpc/dkg/trusteddealer"
	"github.com/bronlabs/bron-crypto/pkg/mpc/redistribute"
	"github.com/bronlabs/bron-crypto/pkg/mpc/session"
	"github.com/bronlabs/bron-crypto/pkg/mpc/sharing/accessstructures"
	"github.com/bronlabs/bron-crypto/pkg/mpc/sharing/scheme/kw"
	"github.com/bronlabs/bron-crypto/pkg/mpc/sharing/vss/feldman"
	"github.com/bronlabs/bron-crypto/pkg/network"
	"github.com/bronlabs/bron-crypto/pkg/proofs/sigma/compiler"
	"verif/harness/vlib/lx"
)

// ShardInfo is the type-erased, oracle-readable content of an mpc.BaseShard.
type ShardInfo struct {
	Holder   ID
	PK       []byte          // encoding of the group public key (Bytes())
	Share    []*big.Int      // the private share vector
	PKShares map[ID][][]byte // per holder: encodings of its public share components
	VV       [][]byte        // verification vector entries
	MSPRows  [][]*big.Int    // the span programme matrix
	RowOwner []ID            // row -> holder
	Holders  []ID            // sorted shareholders of the MSP
	CBOR     []byte          // canonical encoding of the whole shard
}

// Group is a type-erased prime-order group together with the protocols that are generic in it.
type Group interface {
	Name() string
	Order() *big.Int
	// Deal runs the trusted dealer; the values are *mpc.BaseShard[G,S].
	Deal(ac accessstructures.Monotone, prng io.Reader) (map[ID]any, error)
	GennaroRunner(ctx *session.Context, ac accessstructures.Monotone, comp compiler.Name, prng io.Reader) (network.Runner[any], error)
	CanettiRunner(ctx *session.Context, ac accessstructures.Monotone, prng io.Reader) (network.Runner[any], error)
	// RedistributeRunner: prevShard may be nil for a party that is only a next holder; anchor 0 = none.
	RedistributeRunner(ctx *session.Context, prevHolders []ID, prevShard any, next accessstructures.Monotone, prng io.Reader, anchor ID) (network.Runner[any], error)
	Info(shard any) (*ShardInfo, error)
	// Reload round-trips a shard through CBOR and returns the decoded shard.
	Reload(shard any) (any, error)
	// Reconstruct reconstructs the secret from the shares of the given shards (library Feldman scheme over the shard's MSP).
	Reconstruct(shards []any) (*big.Int, error)
	// ReconstructInExponent reconstructs the public key from the PUBLIC shares of the given holders as published in pub's material.
	ReconstructInExponent(pub any, holders []ID) ([]byte, error)
	// Lift returns the encoding of [x]G.
	Lift(x *big.Int) []byte
	// LiftedShareMatches checks that the private share of the shard lifts to its published public share.
	LiftedShareMatches(shard any) (bool, error)
}

type groupSuite[G algebra.PrimeGroupElement[G, S], S algebra.PrimeFieldElement[S]] struct {
	name  string
	group algebra.PrimeGroup[G, S]
	field algebra.PrimeField[S]
}

func newSuite[G algebra.PrimeGroupElement[G, S], S algebra.PrimeFieldElement[S]](name string, g algebra.PrimeGroup[G, S]) *groupSuite[G, S] {
	return &groupSuite[G, S]{name: name, group: g, field: algebra.StructureMustBeAs[algebra.PrimeField[S]](g.ScalarStructure())}
}

// Groups lists every prime-order group the DKGs are documented to support.
func Groups() []Group {
	return []Group{
		newSuite("k256", k256.NewCurve()),
		newSuite("p256", p256.NewCurve()),
		newSuite("ed25519", edwards25519.NewPrimeSubGroup()),
		newSuite("pallas", pasta.NewPallasCurve()),
		newSuite("vesta", pasta.NewVestaCurve()),
		newSuite("bls12381g1", bls12381.NewG1()),
		newSuite("bls12381g2", bls12381.NewG2()),
	}
}

// GroupByName looks a group up.
func GroupByName(name string) Group {
	for _, g := range Groups() {
		if g.Name() == name {
			return g
		}
	}
	panic("unknown group " + name)
}

// GroupNames lists the names of Groups().
func GroupNames() []string {
	var out []string
	for _, g := range Groups() {
		out = append(out, g.Name())
	}
	return out
}

func (s *groupSuite[G, S]) Name() string    { return s.name }
func (s *groupSuite[G, S]) Order() *big.Int { return lx.Order(s.field) }

func (s *groupSuite[G, S]) Deal(ac accessstructures.Monotone, prng io.Reader) (map[ID]any, error) {
	m, err := trusteddealer.Deal(s.group, ac, prng)
	if err != nil {
		return nil, err
	}
	out := map[ID]any{}
	for id, sh := range m.Iter() {
		out[id] = sh
	}
	return out, nil
}

func (s *groupSuite[G, S]) GennaroRunner(ctx *session.Context, ac accessstructures.Monotone, comp compiler.Name, prng io.Reader) (network.Runner[any], error) {
	return Erase(gennaro.NewRunner(ctx, s.group, ac, comp, prng))
}

func (s *groupSuite[G, S]) CanettiRunner(ctx *session.Context, ac accessstructures.Monotone, prng io.Reader) (network.Runner[any], error) {
	return Erase(canetti.NewRunner(ctx, ac, s.group, prng))
}

func (s *groupSuite[G, S]) shard(v any) (*mpc.BaseShard[G, S], error) {
	sh, ok := v.(*mpc.BaseShard[G, S])
	if !ok || sh == nil {
		return nil, fmt.Errorf("not a %s base shard: %T", s.name, v)
	}
	return sh, nil
}

func (s *groupSuite[G, S]) RedistributeRunner(ctx *session.Context, prevHolders []ID, prevShard any, next accessstructures.Monotone, prng io.Reader, anchor ID) (network.Runner[any], error) {
	var prev *mpc.BaseShard[G, S]
	if prevShard != nil {
		var err error
		if prev, err = s.shard(prevShard); err != nil {
			return nil, err
		}
	}
	var opts []redistribute.Option
	if anchor != 0 {
		opts = append(opts, redistribute.WithTrustedAnchorID(anchor))
	}
	return Erase(redistribute.NewRunner(ctx, SetOf(prevHolders...), prev, next, prng, opts...))
}

func (s *groupSuite[G, S]) Info(v any) (*ShardInfo, error) {
	sh, err := s.shard(v)
	if err != nil {
		return nil, err
	}
	info := &ShardInfo{Holder: sh.Share().ID(), PK: sh.PublicKeyValue().Bytes(), PKShares: map[ID][][]byte{}}
	for _, x := range sh.Share().Value() {
		info.Share = append(info.Share, lx.Big(x))
	}
	for id, ls := range sh.PublicKeyShares().Iter() {
		var comps [][]byte
		for _, c := range ls.Value() {
			comps = append(comps, c.Bytes())
		}
		info.PKShares[id] = comps
	}
	for e := range sh.VerificationVector().Value().Iter() {
		info.VV = append(info.VV, e.Bytes())
	}
	m := sh.MSP().Matrix()
	rows, cols := m.Dimensions()
	r2h := sh.MSP().RowsToHolders()
	for i := 0; i < rows; i++ {
		row := make([]*big.Int, cols)
		for j := 0; j < cols; j++ {
			e, err := m.Get(i, j)
			if err != nil {
				return nil, err
			}
			row[j] = lx.Big(e)
		}
		info.MSPRows = append(info.MSPRows, row)
		h, _ := r2h.Get(i)
		info.RowOwner = append(info.RowOwner, h)
	}
	info.Holders = sh.MSP().Shareholders().List()
	sort.Slice(info.Holders, func(i, j int) bool { return info.Holders[i] < info.Holders[j] })
	info.CBOR, err = serde.MarshalCBOR(sh)
	if err != nil {
		return nil, fmt.Errorf("marshal shard: %w", err)
	}
	return info, nil
}

func (s *groupSuite[G, S]) Reload(v any) (any, error) {
	sh, err := s.shard(v)
	if err != nil {
		return nil, err
	}
	b, err := serde.MarshalCBOR(sh)
	if err != nil {
		return nil, err
	}
	out, err := serde.UnmarshalCBOR[*mpc.BaseShard[G, S]](b)
	if err != nil {
		return nil, err
	}
	return out, nil
}

func (s *groupSuite[G, S]) Reconstruct(shards []any) (*big.Int, error) {
	if len(shards) == 0 {
		return nil, fmt.Errorf("no shards")
	}
	first, err := s.shard(shards[0])
	if err != nil {
		return nil, err
	}
	scheme, err := feldman.NewSchemeFromKW(s.group, mustKW(first))
	if err != nil {
		return nil, err
	}
	var shares []*feldman.Share[S]
	for _, v := range shards {
		sh, err := s.shard(v)
		if err != nil {
			return nil, err
		}
		shares = append(shares, sh.Share())
	}
	sec, err := scheme.Reconstruct(shares...)
	if err != nil {
		return nil, err
	}
	return lx.Big(sec.Value()), nil
}

func (s *groupSuite[G, S]) ReconstructInExponent(pub any, holders []ID) ([]byte, error) {
	sh, err := s.shard(pub)
	if err != nil {
		return nil, err
	}
	scheme, err := feldman.NewSchemeFromKW(s.group, mustKW(sh))
	if err != nil {
		return nil, err
	}
	var lifted []*feldman.LiftedShare[G, S]
	for _, h := range holders {
		ls, ok := sh.PublicKeyShares().Get(h)
		if !ok {
			return nil, fmt.Errorf("no public share for holder %d", h)
		}
		lifted = append(lifted, ls)
	}
	sec, err := scheme.ReconstructInTheExponent(lifted...)
	if err != nil {
		return nil, err
	}
	return sec.Value().Bytes(), nil
}

func (s *groupSuite[G, S]) Lift(x *big.Int) []byte {
	return s.group.Generator().ScalarOp(lx.FE(s.field, x)).Bytes()
}

func (s *groupSuite[G, S]) LiftedShareMatches(v any) (bool, error) {
	sh, err := s.shard(v)
	if err != nil {
		return false, err
	}
	pub, ok := sh.PublicKeyShares().Get(sh.Share().ID())
	if !ok {
		return false, fmt.Errorf("no public share for own id")
	}
	comps := pub.Value()
	vals := sh.Share().Value()
	if len(comps) != len(vals) {
		return false, nil
	}
	for i, x := range vals {
		if string(s.group.Generator().ScalarOp(x).Bytes()) != string(comps[i].Bytes()) {
			return false, nil
		}
	}
	return true, nil
}

func mustKW[G algebra.PrimeGroupElement[G, S], S algebra.PrimeFieldElement[S]](sh *mpc.BaseShard[G, S]) *kw.Scheme[S] {
	sc, err := kw.NewInducedScheme(sh.MSP())
	if err != nil {
		panic(err)
	}
	return sc
}
