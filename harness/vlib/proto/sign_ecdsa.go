package proto

import (
	"crypto/sha256"
	"crypto/sha3"
	"crypto/sha512"
	"fmt"
	"hash"
	"io"
	"math/big"

	"github.com/bronlabs/bron-crypto/pkg/base/algebra"
	"github.com/bronlabs/bron-crypto/pkg/base/curves"
	"github.com/bronlabs/bron-crypto/pkg/base/curves/k256"
	"github.com/bronlabs/bron-crypto/pkg/base/curves/p256"
	"github.com/bronlabs/bron-crypto/pkg/mpc"
	"github.com/bronlabs/bron-crypto/pkg/mpc/session"
	"github.com/bronlabs/bron-crypto/pkg/mpc/sharing/accessstructures"
	"github.com/bronlabs/bron-crypto/pkg/mpc/signatures/ecdsa/cggmp21"
	"github.com/bronlabs/bron-crypto/pkg/mpc/signatures/ecdsa/dkls23"
	dklskeygen "github.com/bronlabs/bron-crypto/pkg/mpc/signatures/ecdsa/dkls23/keygen"
	"github.com/bronlabs/bron-crypto/pkg/mpc/signatures/ecdsa/dkls23/signing_bbot"
	"github.com/bronlabs/bron-crypto/pkg/mpc/signatures/ecdsa/dkls23/signing_softspoken"
	"github.com/bronlabs/bron-crypto/pkg/mpc/signatures/ecdsa/lindell17"
	l17dealer "github.com/bronlabs/bron-crypto/pkg/mpc/signatures/ecdsa/lindell17/keygen/trusted_dealer"
	l17signing "github.com/bronlabs/bron-crypto/pkg/mpc/signatures/ecdsa/lindell17/signing"
	"github.com/bronlabs/bron-crypto/pkg/network"
	"github.com/bronlabs/bron-crypto/pkg/proofs/sigma/compiler"
	"github.com/bronlabs/bron-crypto/pkg/signatures/ecdsa"
	"verif/harness/vlib/lx"
)

// ECDSASig is a type-erased ECDSA signature.
type ECDSASig struct {
	R, S *big.Int
	V    *int
}

func (s *ECDSASig) String() string {
	v := -1
	if s.V != nil {
		v = *s.V
	}
	return fmt.Sprintf("r=%x s=%x v=%d", s.R, s.S, v)
}

// ECDSASigner is one (curve, hash) ECDSA configuration with the threshold protocols over it.
type ECDSASigner interface {
	Name() string
	Curve() string // "k256" | "p256" — also the proto.Group that deals base shards
	Hash() string
	HashFunc() func() hash.Hash
	// DKLS23Runner: variant "bbot" or "softspoken"; output is a partial signature.
	DKLS23Runner(variant string, ctx *session.Context, baseShard any, message []byte, prng io.Reader) (network.Runner[any], error)
	// DKLS23Aggregate combines partial signatures (in the given order) with the library aggregator.
	DKLS23Aggregate(baseShard any, message []byte, partials []any) (*ECDSASig, error)
	// DKLS23PartialR returns the encoding of the nonce point carried by a partial signature.
	DKLS23PartialCBOR(partial any) ([]byte, error)
	// Lindell17Deal deals Lindell17 shards (Paillier keys of keyLen bits sampled from prng).
	Lindell17Deal(ac accessstructures.Monotone, keyLen uint, prng io.Reader) (map[ID]any, []byte, error)
	Lindell17Runner(primary bool, ctx *session.Context, shard any, peer ID, comp compiler.Name, message []byte, prng io.Reader) (network.Runner[any], error)
	// CGGMP21 (shards carry Paillier / ring-Pedersen material built from prime fixtures).
	CGGMP21Shards(baseShards map[ID]any) (map[ID]any, error)
	CGGMP21Runner(ctx *session.Context, shard any, message []byte, prng io.Reader) (network.Runner[any], error)
	CGGMP21Finish(outs map[ID]any) (*ECDSASig, error)
	// SigOf converts a library *ecdsa.Signature output to the erased form.
	SigOf(out any) (*ECDSASig, error)
	// VerifyLib runs the library's default single-party verifier with the public key of the shard.
	VerifyLib(pkFromShard any, message []byte, sig *ECDSASig) error
	// PKUncompressed returns 04||X||Y of the public key inside a base / dkls23 / lindell17 shard.
	PKUncompressed(shard any) ([]byte, error)
}

type ecdsaSuite[P curves.Point[P, B, S], B algebra.PrimeFieldElement[B], S algebra.PrimeFieldElement[S]] struct {
	curveName string
	hashName  string
	hf        func() hash.Hash
	curve     ecdsa.Curve[P, B, S]
	suite     *ecdsa.Suite[P, B, S]
}

func newECDSASuite[P curves.Point[P, B, S], B algebra.PrimeFieldElement[B], S algebra.PrimeFieldElement[S]](cn string, c ecdsa.Curve[P, B, S], hn string, hf func() hash.Hash) *ecdsaSuite[P, B, S] {
	st, err := ecdsa.NewSuite(c, hf)
	if err != nil {
		panic(err)
	}
	return &ecdsaSuite[P, B, S]{curveName: cn, hashName: hn, hf: hf, curve: c, suite: st}
}

// ECDSASigners lists the (curve, hash) pairs used for threshold ECDSA.
func ECDSASigners() []ECDSASigner {
	hs := []hashChoice{{"sha256", sha256.New}, {"sha512", sha512.New}, {"sha3-256", func() hash.Hash { return sha3.New256() }}}
	var out []ECDSASigner
	for _, h := range hs {
		out = append(out, newECDSASuite("k256", k256.NewCurve(), h.name, h.f))
		out = append(out, newECDSASuite("p256", p256.NewCurve(), h.name, h.f))
	}
	return out
}

func (s *ecdsaSuite[P, B, S]) Name() string               { return "ecdsa-" + s.curveName + "-" + s.hashName }
func (s *ecdsaSuite[P, B, S]) Curve() string              { return s.curveName }
func (s *ecdsaSuite[P, B, S]) Hash() string               { return s.hashName }
func (s *ecdsaSuite[P, B, S]) HashFunc() func() hash.Hash { return s.hf }

func (s *ecdsaSuite[P, B, S]) base(v any) (*mpc.BaseShard[P, S], error) {
	switch x := v.(type) {
	case *mpc.BaseShard[P, S]:
		return x, nil
	case *dkls23.Shard[P, B, S]:
		return &x.BaseShard, nil
	case *lindell17.Shard[P, B, S]:
		return &x.BaseShard, nil
	case *cggmp21.Shard[P, B, S]:
		return &x.BaseShard, nil
	}
	return nil, fmt.Errorf("%s: unsupported shard type %T", s.Name(), v)
}

func (s *ecdsaSuite[P, B, S]) DKLS23Runner(variant string, ctx *session.Context, baseShard any, message []byte, prng io.Reader) (network.Runner[any], error) {
	bs, err := s.base(baseShard)
	if err != nil {
		return nil, err
	}
	sh, err := dklskeygen.NewShard[P, B, S](bs)
	if err != nil {
		return nil, err
	}
	switch variant {
	case "bbot":
		return Erase(signing_bbot.NewRunner(ctx, s.suite, sh, message, prng))
	case "softspoken":
		return Erase(signing_softspoken.NewRunner(ctx, s.suite, sh, message, prng))
	}
	return nil, fmt.Errorf("unknown dkls23 variant %q", variant)
}

func (s *ecdsaSuite[P, B, S]) pk(v any) (*ecdsa.PublicKey[P, B, S], error) {
	bs, err := s.base(v)
	if err != nil {
		return nil, err
	}
	return ecdsa.NewPublicKey[P, B, S](bs.PublicKeyValue())
}

func (s *ecdsaSuite[P, B, S]) DKLS23Aggregate(baseShard any, message []byte, partials []any) (*ECDSASig, error) {
	pk, err := s.pk(baseShard)
	if err != nil {
		return nil, err
	}
	var ps []*dkls23.PartialSignature[P, B, S]
	for _, p := range partials {
		x, ok := p.(*dkls23.PartialSignature[P, B, S])
		if !ok {
			return nil, fmt.Errorf("not a dkls23 partial signature: %T", p)
		}
		ps = append(ps, x)
	}
	sig, err := dkls23.Aggregate(s.suite, pk, message, ps...)
	if err != nil {
		return nil, err
	}
	return s.SigOf(sig)
}

func (s *ecdsaSuite[P, B, S]) DKLS23PartialCBOR(partial any) ([]byte, error) {
	x, ok := partial.(*dkls23.PartialSignature[P, B, S])
	if !ok {
		return nil, fmt.Errorf("not a dkls23 partial signature: %T", partial)
	}
	return x.MarshalCBOR()
}

func (s *ecdsaSuite[P, B, S]) Lindell17Deal(ac accessstructures.Monotone, keyLen uint, prng io.Reader) (map[ID]any, []byte, error) {
	m, pk, err := l17dealer.DealRandom(s.curve, ac, keyLen, prng)
	if err != nil {
		return nil, nil, err
	}
	out := map[ID]any{}
	for id, sh := range m.Iter() {
		out[id] = sh
	}
	return out, pk.Value().Bytes(), nil
}

func (s *ecdsaSuite[P, B, S]) Lindell17Runner(primary bool, ctx *session.Context, shard any, peer ID, comp compiler.Name, message []byte, prng io.Reader) (network.Runner[any], error) {
	sh, ok := shard.(*lindell17.Shard[P, B, S])
	if !ok {
		return nil, fmt.Errorf("not a lindell17 shard: %T", shard)
	}
	if primary {
		return Erase(l17signing.NewPrimaryRunner(ctx, s.suite, peer, sh, comp, prng, message))
	}
	return Erase(l17signing.NewSecondaryRunner(ctx, s.suite, peer, sh, comp, prng, message))
}

func (s *ecdsaSuite[P, B, S]) SigOf(out any) (*ECDSASig, error) {
	sig, ok := out.(*ecdsa.Signature[S])
	if !ok || sig == nil {
		return nil, fmt.Errorf("not an ecdsa signature: %T", out)
	}
	e := &ECDSASig{R: lx.Big(sig.R()), S: lx.Big(sig.S())}
	if v := sig.V(); v != nil {
		vv := *v
		e.V = &vv
	}
	return e, nil
}

func (s *ecdsaSuite[P, B, S]) VerifyLib(shard any, message []byte, sig *ECDSASig) error {
	pk, err := s.pk(shard)
	if err != nil {
		return err
	}
	sf := s.suite.ScalarField()
	ls, err := ecdsa.NewSignature(lx.FE(sf, sig.R), lx.FE(sf, sig.S), sig.V)
	if err != nil {
		return err
	}
	v, err := ecdsa.NewVerifier(s.suite)
	if err != nil {
		return err
	}
	return v.Verify(ls, pk, message)
}

func (s *ecdsaSuite[P, B, S]) PKUncompressed(shard any) ([]byte, error) {
	bs, err := s.base(shard)
	if err != nil {
		return nil, err
	}
	return bs.PublicKeyValue().ToUncompressed(), nil
}
