package proto

import (
	"testing"

	"crypto/sha256"
	"crypto/sha3"
	"crypto/sha512"
	"fmt"
	ntu "github.com/bronlabs/bron-crypto/pkg/network/testutils"
	"hash"
	"io"
	"math/big"

	"github.com/bronlabs/bron-crypto/pkg/base/algebra"
	"github.com/bronlabs/bron-crypto/pkg/base/curves/edwards25519"
	"github.com/bronlabs/bron-crypto/pkg/base/curves/k256"
	"github.com/bronlabs/bron-crypto/pkg/base/curves/p256"
	"github.com/bronlabs/bron-crypto/pkg/base/curves/pasta"
	"github.com/bronlabs/bron-crypto/pkg/base/datastructures/hashmap"
	"github.com/bronlabs/bron-crypto/pkg/mpc"
	"github.com/bronlabs/bron-crypto/pkg/mpc/session"
	mpcschnorr "github.com/bronlabs/bron-crypto/pkg/mpc/signatures/schnorr"
	"github.com/bronlabs/bron-crypto/pkg/mpc/signatures/schnorr/lindell22"
	l22keygen "github.com/bronlabs/bron-crypto/pkg/mpc/signatures/schnorr/lindell22/keygen"
	l22signing "github.com/bronlabs/bron-crypto/pkg/mpc/signatures/schnorr/lindell22/signing"
	"github.com/bronlabs/bron-crypto/pkg/network"
	"github.com/bronlabs/bron-crypto/pkg/proofs/sigma/compiler"
	"github.com/bronlabs/bron-crypto/pkg/signatures/schnorrlike"
	"github.com/bronlabs/bron-crypto/pkg/signatures/schnorrlike/bip340"
	"github.com/bronlabs/bron-crypto/pkg/signatures/schnorrlike/mina"
	vanilla "github.com/bronlabs/bron-crypto/pkg/signatures/schnorrlike/schnorr"
	"verif/harness/vlib"
	"verif/harness/vlib/lx"
)

// SchnorrSig is a type-erased Schnorr-like signature.
type SchnorrSig struct {
	E, S   *big.Int
	R      []byte // encoding of the nonce commitment (Bytes())
	RUncmp []byte // uncompressed / affine encoding where the group offers one (nil otherwise)
}

func (s *SchnorrSig) String() string {
	return fmt.Sprintf("e=%x R=%x s=%x", s.E, s.R, s.S)
}

// SchnorrSigner is one Lindell22 configuration (Schnorr flavour x group x hash ...), type-erased.
type SchnorrSigner interface {
	Name() string
	GroupName() string
	// Runner builds a party's signing runner from its BASE shard (as produced by any key generation).
	Runner(ctx *session.Context, baseShard any, comp compiler.Name, message []byte, prng io.Reader) (network.Runner[any], error)
	// Aggregate runs the non-cosigning aggregator over the partial signatures and returns the
	// signature; the library aggregator verifies it before returning.
	Aggregate(baseShard any, message []byte, partials map[ID]any) (*SchnorrSig, error)
	// CosigningSign drives the three Lindell22 rounds IN MEMORY through the exported round methods
	// (every message through CBOR) and then aggregates the partial signatures with EVERY cosigner's
	// cosigning aggregator (identifiable abort) and with the plain aggregator. It returns one
	// signature per aggregator; ok=false when the flavour has no cosigning wiring.
	CosigningSign(tb testing.TB, ctxs map[ID]*session.Context, bases map[ID]any, quorum []ID, comp compiler.Name, message []byte, seed uint64) (sigs []*SchnorrSig, ok bool, err error)
	// VerifyLib runs the library's single-party verifier on the signature produced by Aggregate
	// (kept inside the value it returned).
	VerifyLib(baseShard any, message []byte, sig *SchnorrSig) error
	// PartialCBOR encodes a partial signature (for transport / tamper).
	PKBytes(baseShard any) ([]byte, error)
}

type schnorrSuite[GE algebra.PrimeGroupElement[GE, S], S algebra.PrimeFieldElement[S], M schnorrlike.Message] struct {
	name      string
	groupName string
	variant   func(prng io.Reader) (mpcschnorr.MPCFriendlyVariant[GE, S, M], error)
	message   func([]byte) (M, error)
	aggregate func(pm *lindell22.PublicMaterial[GE, S], partials map[ID]*lindell22.PartialSignature[GE, S], msg M) (*schnorrlike.Signature[GE, S], error)
	verify    func(pm *lindell22.PublicMaterial[GE, S], sig *schnorrlike.Signature[GE, S], msg M) error
	// cosAggregate aggregates with the COSIGNING aggregator of one cosigner (nil: flavour not wired)
	cosAggregate func(c *l22signing.Cosigner[GE, S, M], pm *lindell22.PublicMaterial[GE, S], partials map[ID]*lindell22.PartialSignature[GE, S], msg M) (*schnorrlike.Signature[GE, S], error)
	last         map[string]*schnorrlike.Signature[GE, S]
}

func (s *schnorrSuite[GE, S, M]) Name() string      { return s.name }
func (s *schnorrSuite[GE, S, M]) GroupName() string { return s.groupName }

func (s *schnorrSuite[GE, S, M]) shard(base any) (*lindell22.Shard[GE, S], error) {
	bs, ok := base.(*mpc.BaseShard[GE, S])
	if !ok || bs == nil {
		return nil, fmt.Errorf("%s: not a base shard of the right group: %T", s.name, base)
	}
	return l22keygen.NewShard(bs)
}

func (s *schnorrSuite[GE, S, M]) Runner(ctx *session.Context, base any, comp compiler.Name, message []byte, prng io.Reader) (network.Runner[any], error) {
	sh, err := s.shard(base)
	if err != nil {
		return nil, err
	}
	v, err := s.variant(prng)
	if err != nil {
		return nil, err
	}
	m, err := s.message(message)
	if err != nil {
		return nil, err
	}
	return Erase(l22signing.NewRunner(ctx, sh, comp, v, m, prng))
}

func (s *schnorrSuite[GE, S, M]) PKBytes(base any) ([]byte, error) {
	sh, err := s.shard(base)
	if err != nil {
		return nil, err
	}
	return sh.PublicKey().Value().Bytes(), nil
}

func (s *schnorrSuite[GE, S, M]) Aggregate(base any, message []byte, partials map[ID]any) (*SchnorrSig, error) {
	sh, err := s.shard(base)
	if err != nil {
		return nil, err
	}
	m, err := s.message(message)
	if err != nil {
		return nil, err
	}
	ps := map[ID]*lindell22.PartialSignature[GE, S]{}
	for id, p := range partials {
		x, ok := p.(*lindell22.PartialSignature[GE, S])
		if !ok {
			return nil, fmt.Errorf("%s: output of %d is not a partial signature: %T", s.name, id, p)
		}
		ps[id] = x
	}
	sig, err := s.aggregate(sh.PublicKeyMaterial(), ps, m)
	if err != nil {
		return nil, err
	}
	out := &SchnorrSig{S: lx.Big(sig.S), R: sig.R.Bytes()}
	if !isNilScalar(sig.E) {
		out.E = lx.Big(sig.E)
	}
	if s.last == nil {
		s.last = map[string]*schnorrlike.Signature[GE, S]{}
	}
	s.last[out.String()] = sig
	return out, nil
}

func isNilScalar[S algebra.PrimeFieldElement[S]](e S) bool {
	var zero S
	return any(e) == any(zero)
}

func (s *schnorrSuite[GE, S, M]) VerifyLib(base any, message []byte, sig *SchnorrSig) error {
	sh, err := s.shard(base)
	if err != nil {
		return err
	}
	m, err := s.message(message)
	if err != nil {
		return err
	}
	ls, ok := s.last[sig.String()]
	if !ok {
		return fmt.Errorf("signature not produced by this suite instance")
	}
	return s.verify(sh.PublicKeyMaterial(), ls, m)
}

// SchnorrSigners lists the Lindell22 configurations: BIP-340 (k256), Mina (pallas), and the
// configurable Schnorr over several groups / hashes / sign and endianness conventions.
func SchnorrSigners() []SchnorrSigner {
	var out []SchnorrSigner
	// BIP-340
	out = append(out, &schnorrSuite[*k256.Point, *k256.Scalar, bip340.Message]{
		name: "lindell22-bip340", groupName: "k256",
		variant: func(prng io.Reader) (mpcschnorr.MPCFriendlyVariant[*k256.Point, *k256.Scalar, bip340.Message], error) {
			sc, err := bip340.NewScheme(prng)
			if err != nil {
				return nil, err
			}
			return sc.Variant(), nil
		},
		message: func(b []byte) (bip340.Message, error) { return bip340.Message(b), nil },
		aggregate: func(pm *lindell22.PublicMaterial[*k256.Point, *k256.Scalar], ps map[ID]*lindell22.PartialSignature[*k256.Point, *k256.Scalar], msg bip340.Message) (*schnorrlike.Signature[*k256.Point, *k256.Scalar], error) {
			sc, err := bip340.NewScheme(vlib.NewPRNG(1, "agg"))
			if err != nil {
				return nil, err
			}
			agg, err := l22signing.NewAggregator(pm, sc)
			if err != nil {
				return nil, err
			}
			return agg.Aggregate(hashmap.NewImmutableComparableFromNativeLike(ps), msg)
		},
		cosAggregate: func(c *l22signing.Cosigner[*k256.Point, *k256.Scalar, bip340.Message], pm *lindell22.PublicMaterial[*k256.Point, *k256.Scalar], ps map[ID]*lindell22.PartialSignature[*k256.Point, *k256.Scalar], msg bip340.Message) (*schnorrlike.Signature[*k256.Point, *k256.Scalar], error) {
			sc, err := bip340.NewScheme(vlib.NewPRNG(1, "agg"))
			if err != nil {
				return nil, err
			}
			agg, err := l22signing.NewCosigningAggregator(c, pm, sc)
			if err != nil {
				return nil, err
			}
			return agg.Aggregate(hashmap.NewImmutableComparableFromNativeLike(ps), msg)
		},
		verify: func(pm *lindell22.PublicMaterial[*k256.Point, *k256.Scalar], sig *schnorrlike.Signature[*k256.Point, *k256.Scalar], msg bip340.Message) error {
			sc, err := bip340.NewScheme(vlib.NewPRNG(1, "ver"))
			if err != nil {
				return err
			}
			v, err := sc.Verifier()
			if err != nil {
				return err
			}
			return v.Verify(sig, pm.PublicKey(), msg)
		},
	})
	// Mina
	out = append(out, &schnorrSuite[*pasta.PallasPoint, *pasta.PallasScalar, *mina.Message]{
		name: "lindell22-mina", groupName: "pallas",
		variant: func(prng io.Reader) (mpcschnorr.MPCFriendlyVariant[*pasta.PallasPoint, *pasta.PallasScalar, *mina.Message], error) {
			return mina.NewRandomisedVariant(mina.TestNet, prng)
		},
		message: minaMessage,
		aggregate: func(pm *lindell22.PublicMaterial[*pasta.PallasPoint, *pasta.PallasScalar], ps map[ID]*lindell22.PartialSignature[*pasta.PallasPoint, *pasta.PallasScalar], msg *mina.Message) (*schnorrlike.Signature[*pasta.PallasPoint, *pasta.PallasScalar], error) {
			sc, err := mina.NewRandomisedScheme(mina.TestNet, vlib.NewPRNG(1, "agg"))
			if err != nil {
				return nil, err
			}
			agg, err := l22signing.NewAggregator(pm, sc)
			if err != nil {
				return nil, err
			}
			return agg.Aggregate(hashmap.NewImmutableComparableFromNativeLike(ps), msg)
		},
		cosAggregate: func(c *l22signing.Cosigner[*pasta.PallasPoint, *pasta.PallasScalar, *mina.Message], pm *lindell22.PublicMaterial[*pasta.PallasPoint, *pasta.PallasScalar], ps map[ID]*lindell22.PartialSignature[*pasta.PallasPoint, *pasta.PallasScalar], msg *mina.Message) (*schnorrlike.Signature[*pasta.PallasPoint, *pasta.PallasScalar], error) {
			sc, err := mina.NewRandomisedScheme(mina.TestNet, vlib.NewPRNG(1, "agg"))
			if err != nil {
				return nil, err
			}
			agg, err := l22signing.NewCosigningAggregator(c, pm, sc)
			if err != nil {
				return nil, err
			}
			return agg.Aggregate(hashmap.NewImmutableComparableFromNativeLike(ps), msg)
		},
		verify: func(pm *lindell22.PublicMaterial[*pasta.PallasPoint, *pasta.PallasScalar], sig *schnorrlike.Signature[*pasta.PallasPoint, *pasta.PallasScalar], msg *mina.Message) error {
			sc, err := mina.NewRandomisedScheme(mina.TestNet, vlib.NewPRNG(1, "ver"))
			if err != nil {
				return err
			}
			v, err := sc.Verifier()
			if err != nil {
				return err
			}
			return v.Verify(sig, pm.PublicKey(), msg)
		},
	})
	// configurable Schnorr
	out = append(out, vanillaSuites("k256", k256.NewCurve())...)
	out = append(out, vanillaSuites("p256", p256.NewCurve())...)
	out = append(out, vanillaSuites("ed25519", edwards25519.NewPrimeSubGroup())...)
	out = append(out, vanillaSuites("pallas", pasta.NewPallasCurve())...)
	return out
}

type hashChoice struct {
	name string
	f    func() hash.Hash
}

var schnorrHashes = []hashChoice{
	{"sha256", sha256.New},
	{"sha512", sha512.New},
	{"sha3-256", func() hash.Hash { return sha3.New256() }},
}

func vanillaSuites[GE algebra.PrimeGroupElement[GE, S], S algebra.PrimeFieldElement[S]](gname string, g algebra.PrimeGroup[GE, S]) []SchnorrSigner {
	var out []SchnorrSigner
	for _, h := range schnorrHashes {
		for _, neg := range []bool{false, true} {
			for _, le := range []bool{false, true} {
				h, neg, le := h, neg, le
				mk := func(prng io.Reader) (*vanilla.Scheme[GE, S], error) {
					return vanilla.NewScheme(g, h.f, neg, le, nil, prng)
				}
				out = append(out, &schnorrSuite[GE, S, vanilla.Message]{
					name:      fmt.Sprintf("lindell22-schnorr-%s-%s-neg=%v-le=%v", gname, h.name, neg, le),
					groupName: gname,
					variant: func(prng io.Reader) (mpcschnorr.MPCFriendlyVariant[GE, S, vanilla.Message], error) {
						sc, err := mk(prng)
						if err != nil {
							return nil, err
						}
						return sc.Variant(), nil
					},
					message: func(b []byte) (vanilla.Message, error) { return vanilla.Message(b), nil },
					aggregate: func(pm *lindell22.PublicMaterial[GE, S], ps map[ID]*lindell22.PartialSignature[GE, S], msg vanilla.Message) (*schnorrlike.Signature[GE, S], error) {
						sc, err := mk(vlib.NewPRNG(1, "agg"))
						if err != nil {
							return nil, err
						}
						agg, err := l22signing.NewAggregator(pm, sc)
						if err != nil {
							return nil, err
						}
						return agg.Aggregate(hashmap.NewImmutableComparableFromNativeLike(ps), msg)
					},
					verify: func(pm *lindell22.PublicMaterial[GE, S], sig *schnorrlike.Signature[GE, S], msg vanilla.Message) error {
						sc, err := mk(vlib.NewPRNG(1, "ver"))
						if err != nil {
							return err
						}
						v, err := sc.Verifier()
						if err != nil {
							return err
						}
						return v.Verify(sig, pm.PublicKey(), msg)
					},
				})
			}
		}
	}
	return out
}

// minaMessage turns arbitrary bytes into a Mina random-oracle input (as a string payload).
func minaMessage(b []byte) (*mina.Message, error) {
	m := new(mina.ROInput).Init()
	m.AddString(string(b))
	return m, nil
}

func (s *schnorrSuite[GE, S, M]) CosigningSign(tb testing.TB, ctxs map[ID]*session.Context, bases map[ID]any, quorum []ID, comp compiler.Name, message []byte, seed uint64) ([]*SchnorrSig, bool, error) {
	if s.cosAggregate == nil {
		return nil, false, nil
	}
	m, err := s.message(message)
	if err != nil {
		return nil, true, err
	}
	q := SortedIDs(quorum)
	cos := map[ID]*l22signing.Cosigner[GE, S, M]{}
	var list []*l22signing.Cosigner[GE, S, M]
	var pm *lindell22.PublicMaterial[GE, S]
	for _, id := range q {
		sh, err := s.shard(bases[id])
		if err != nil {
			return nil, true, err
		}
		pm = sh.PublicKeyMaterial()
		prng := PartyPRNG(seed, "l22-cosigning", id)
		v, err := s.variant(prng)
		if err != nil {
			return nil, true, err
		}
		c, err := l22signing.NewCosigner(ctxs[id], sh, comp, v, prng)
		if err != nil {
			return nil, true, fmt.Errorf("cosigner %d: %w", id, err)
		}
		cos[id] = c
		list = append(list, c)
	}
	r1b := map[ID]*l22signing.Round1Broadcast[GE, S, M]{}
	r1u := map[ID]network.RoundMessages[*l22signing.Round1P2P[GE, S, M], *l22signing.Cosigner[GE, S, M]]{}
	for _, id := range q {
		b, u, err := cos[id].Round1()
		if err != nil {
			return nil, true, fmt.Errorf("round 1 of %d: %w", id, err)
		}
		r1b[id], r1u[id] = b, u
	}
	r2bIn, r2uIn := ntu.MapO2I(tb, list, r1b, r1u)
	r2b := map[ID]*l22signing.Round2Broadcast[GE, S, M]{}
	for _, id := range q {
		b, err := cos[id].Round2(r2bIn[id], r2uIn[id])
		if err != nil {
			return nil, true, fmt.Errorf("round 2 of %d: %w", id, err)
		}
		r2b[id] = b
	}
	r3bIn := ntu.MapBroadcastO2I(tb, list, r2b)
	ps := map[ID]*lindell22.PartialSignature[GE, S]{}
	for _, id := range q {
		p, err := cos[id].Round3(r3bIn[id], m)
		if err != nil {
			return nil, true, fmt.Errorf("round 3 of %d: %w", id, err)
		}
		ps[id] = p
	}
	var out []*SchnorrSig
	conv := func(sig *schnorrlike.Signature[GE, S]) *SchnorrSig {
		o := &SchnorrSig{S: lx.Big(sig.S), R: sig.R.Bytes()}
		if !isNilScalar(sig.E) {
			o.E = lx.Big(sig.E)
		}
		if s.last == nil {
			s.last = map[string]*schnorrlike.Signature[GE, S]{}
		}
		s.last[o.String()] = sig
		return o
	}
	for _, id := range q {
		sig, err := s.cosAggregate(cos[id], pm, ps, m)
		if err != nil {
			return nil, true, fmt.Errorf("COSIGNING-AGGREGATOR of party %d rejected an all-honest run: %w", id, err)
		}
		out = append(out, conv(sig))
	}
	sig, err := s.aggregate(pm, ps, m)
	if err != nil {
		return nil, true, fmt.Errorf("plain aggregator: %w", err)
	}
	out = append(out, conv(sig))
	return out, true, nil
}
