// Package proto builds, for every protocol of the library that has a network.Runner, the
// runners of all parties of one run from plain drawn values (policy, IDs, seeds, group name),
// erases their type parameters, and exposes what the oracles need to read from the outputs as
// plain bytes and big integers. Property packages (C01, C03, C04, C06, C07, C10, C11) share it.
package proto

import (
	"context"
	"fmt"
	"io"
	"sort"

	ds "github.com/bronlabs/bron-crypto/pkg/base/datastructures"
	"github.com/bronlabs/bron-crypto/pkg/base/datastructures/hashset"
	"github.com/bronlabs/bron-crypto/pkg/mpc/session"
	"github.com/bronlabs/bron-crypto/pkg/mpc/sharing"
	"github.com/bronlabs/bron-crypto/pkg/network"
	"verif/harness/vlib"
)

// ID is the library's shareholder identifier.
type ID = sharing.ID

// SortedIDs returns ids ascending.
func SortedIDs(ids []ID) []ID {
	out := append([]ID(nil), ids...)
	sort.Slice(out, func(i, j int) bool { return out[i] < out[j] })
	return out
}

// SetOf builds a frozen set.
func SetOf(ids ...ID) ds.Set[ID] { return hashset.NewComparable(ids...).Freeze() }

// ToIDs converts raw uint64 identifiers.
func ToIDs(raw []uint64) []ID {
	out := make([]ID, len(raw))
	for i, v := range raw {
		out[i] = ID(v)
	}
	return out
}

// Contexts builds consistent session contexts for a quorum directly from a seed (the session
// setup protocol itself is the subject of C10): one common seed and one seed per pair, all
// derived from (seed, label) with the harness PRNG.
func Contexts(quorum []ID, seed uint64, label string) (map[ID]*session.Context, error) {
	q := SortedIDs(quorum)
	prng := vlib.NewPRNG(seed, "ctx/"+label)
	common := make([]byte, 64)
	_, _ = io.ReadFull(prng, common)
	pair := map[ID]map[ID][]byte{}
	for _, id := range q {
		pair[id] = map[ID][]byte{}
	}
	for i := range q {
		for j := i + 1; j < len(q); j++ {
			s := make([]byte, 64)
			_, _ = io.ReadFull(prng, s)
			pair[q[i]][q[j]] = s
			pair[q[j]][q[i]] = s
		}
	}
	out := map[ID]*session.Context{}
	set := SetOf(q...)
	for _, id := range q {
		c, err := session.NewContext(id, set, common, pair[id])
		if err != nil {
			return nil, fmt.Errorf("session.NewContext(%d): %w", id, err)
		}
		out[id] = c
	}
	return out, nil
}

// ---- type erasure ------------------------------------------------------------------------------

type erased[O any] struct{ r network.Runner[O] }

func (e erased[O]) Run(ctx context.Context, rt *network.Router, cb network.NotificationCallback) (any, error) {
	o, err := e.r.Run(ctx, rt, cb)
	if err != nil {
		return nil, err
	}
	return o, nil
}

// Erase hides the output type of a runner.
func Erase[O any](r network.Runner[O], err error) (network.Runner[any], error) {
	if err != nil {
		return nil, err
	}
	return erased[O]{r}, nil
}

// PartyPRNG is the random stream of one party in one run: (seed of the party, protocol label).
func PartyPRNG(seed uint64, label string, id ID) *vlib.PRNG {
	return vlib.NewPRNG(seed, fmt.Sprintf("party/%s/%d", label, id))
}
