package proto

import (
	"fmt"

	"github.com/bronlabs/bron-crypto/pkg/base/curves"
	"github.com/bronlabs/bron-crypto/pkg/base/curves/pairable/bls12381"
	"github.com/bronlabs/bron-crypto/pkg/base/datastructures/hashmap"
	"github.com/bronlabs/bron-crypto/pkg/mpc"
	"github.com/bronlabs/bron-crypto/pkg/mpc/session"
	"github.com/bronlabs/bron-crypto/pkg/mpc/signatures/bls/boldyreva02"
	bkeygen "github.com/bronlabs/bron-crypto/pkg/mpc/signatures/bls/boldyreva02/keygen"
	bsigning "github.com/bronlabs/bron-crypto/pkg/mpc/signatures/bls/boldyreva02/signing"
	"github.com/bronlabs/bron-crypto/pkg/signatures/bls"
)

type blsFamily = curves.PairingFriendlyFamily[*bls12381.PointG1, *bls12381.BaseFieldElementG1, *bls12381.PointG2, *bls12381.BaseFieldElementG2, *bls12381.GtElement, *bls12381.Scalar]

// BLSSigner is one Boldyreva configuration: key size (short: keys in G1; long: keys in G2) x rogue-key mode.
type BLSSigner struct {
	Short bool
	Mode  bls.RogueKeyPreventionAlgorithm
}

// BLSSig is a type-erased BLS signature.
type BLSSig struct {
	Bytes []byte // encoding of the signature point
	PoP   []byte // encoding of the attached proof of possession (POP mode), nil otherwise
	raw   any
}

func (s BLSSigner) Name() string {
	k := "long"
	if s.Short {
		k = "short"
	}
	return fmt.Sprintf("boldyreva-%s-%s", k, modeName(s.Mode))
}

func modeName(m bls.RogueKeyPreventionAlgorithm) string {
	switch m {
	case bls.Basic:
		return "basic"
	case bls.MessageAugmentation:
		return "aug"
	case bls.POP:
		return "pop"
	}
	return fmt.Sprint(int(m))
}

// GroupName is the proto.Group that deals the base shards (the KEY group).
func (s BLSSigner) GroupName() string {
	if s.Short {
		return "bls12381g1"
	}
	return "bls12381g2"
}

// BLSSigners lists all six configurations.
func BLSSigners() []BLSSigner {
	var out []BLSSigner
	for _, short := range []bool{true, false} {
		for _, m := range []bls.RogueKeyPreventionAlgorithm{bls.Basic, bls.MessageAugmentation, bls.POP} {
			out = append(out, BLSSigner{Short: short, Mode: m})
		}
	}
	return out
}

func family() blsFamily { return &bls12381.FamilyTrait{} }

// Sign lets every quorum member produce its partial signature (the protocol is non-interactive),
// aggregates them with the library aggregator and returns the signature.
func (s BLSSigner) Sign(ctxs map[ID]*session.Context, shards map[ID]any, quorum []ID, message []byte) (*BLSSig, error) {
	if s.Short {
		ps := hashmap.NewComparable[ID, *boldyreva02.PartialSignature[*bls12381.PointG2, *bls12381.BaseFieldElementG2, *bls12381.PointG1, *bls12381.BaseFieldElementG1, *bls12381.GtElement, *bls12381.Scalar]]()
		var pm *boldyreva02.PublicMaterial[*bls12381.PointG1, *bls12381.BaseFieldElementG1, *bls12381.PointG2, *bls12381.BaseFieldElementG2, *bls12381.GtElement, *bls12381.Scalar]
		for _, id := range quorum {
			bs, ok := shards[id].(*mpc.BaseShard[*bls12381.PointG1, *bls12381.Scalar])
			if !ok {
				return nil, fmt.Errorf("shard of %d is %T", id, shards[id])
			}
			sh, err := bkeygen.NewShortKeyShard[*bls12381.PointG1, *bls12381.BaseFieldElementG1, *bls12381.PointG2, *bls12381.BaseFieldElementG2, *bls12381.GtElement, *bls12381.Scalar](bs)
			if err != nil {
				return nil, err
			}
			c, err := bsigning.NewShortKeyCosigner(ctxs[id], family(), sh, s.Mode)
			if err != nil {
				return nil, fmt.Errorf("cosigner %d: %w", id, err)
			}
			p, err := c.ProducePartialSignature(message)
			if err != nil {
				return nil, fmt.Errorf("partial signature of %d: %w", id, err)
			}
			ps.Put(id, p)
			pm = c.Shard().PublicKeyMaterial()
		}
		agg, err := bsigning.NewShortKeyAggregator(family(), pm, s.Mode)
		if err != nil {
			return nil, err
		}
		sig, err := agg.Aggregate(ps.Freeze(), message)
		if err != nil {
			return nil, fmt.Errorf("aggregate: %w", err)
		}
		scheme, err := bls.NewShortKeyScheme(family(), s.Mode)
		if err != nil {
			return nil, err
		}
		v, err := scheme.Verifier()
		if err != nil {
			return nil, err
		}
		if err := v.Verify(sig, pm.PublicKey(), message); err != nil {
			return nil, fmt.Errorf("LIBRARY-VERIFIER-REJECTS: %w", err)
		}
		other := append(append([]byte{}, message...), 1)
		if err := v.Verify(sig, pm.PublicKey(), other); err == nil {
			return nil, fmt.Errorf("LIBRARY-VERIFIER-ACCEPTS-OTHER-MESSAGE")
		}
		if err := pairingEquationShort(pm.PublicKey().Value(), sig.Value(), s.Mode, message); err != nil {
			return nil, fmt.Errorf("PAIRING-EQUATION: %w", err)
		}
		return &BLSSig{Bytes: sig.Value().Bytes(), raw: sig}, nil
	}
	ps := hashmap.NewComparable[ID, *boldyreva02.PartialSignature[*bls12381.PointG1, *bls12381.BaseFieldElementG1, *bls12381.PointG2, *bls12381.BaseFieldElementG2, *bls12381.GtElement, *bls12381.Scalar]]()
	var pm *boldyreva02.PublicMaterial[*bls12381.PointG2, *bls12381.BaseFieldElementG2, *bls12381.PointG1, *bls12381.BaseFieldElementG1, *bls12381.GtElement, *bls12381.Scalar]
	for _, id := range quorum {
		bs, ok := shards[id].(*mpc.BaseShard[*bls12381.PointG2, *bls12381.Scalar])
		if !ok {
			return nil, fmt.Errorf("shard of %d is %T", id, shards[id])
		}
		sh, err := bkeygen.NewLongKeyShard[*bls12381.PointG2, *bls12381.BaseFieldElementG2, *bls12381.PointG1, *bls12381.BaseFieldElementG1, *bls12381.GtElement, *bls12381.Scalar](bs)
		if err != nil {
			return nil, err
		}
		c, err := bsigning.NewLongKeyCosigner(ctxs[id], family(), sh, s.Mode)
		if err != nil {
			return nil, fmt.Errorf("cosigner %d: %w", id, err)
		}
		p, err := c.ProducePartialSignature(message)
		if err != nil {
			return nil, fmt.Errorf("partial signature of %d: %w", id, err)
		}
		ps.Put(id, p)
		pm = c.Shard().PublicKeyMaterial()
	}
	agg, err := bsigning.NewLongKeyAggregator(family(), pm, s.Mode)
	if err != nil {
		return nil, err
	}
	sig, err := agg.Aggregate(ps.Freeze(), message)
	if err != nil {
		return nil, fmt.Errorf("aggregate: %w", err)
	}
	scheme, err := bls.NewLongKeyScheme(family(), s.Mode)
	if err != nil {
		return nil, err
	}
	v, err := scheme.Verifier()
	if err != nil {
		return nil, err
	}
	if err := v.Verify(sig, pm.PublicKey(), message); err != nil {
		return nil, fmt.Errorf("LIBRARY-VERIFIER-REJECTS: %w", err)
	}
	other := append(append([]byte{}, message...), 1)
	if err := v.Verify(sig, pm.PublicKey(), other); err == nil {
		return nil, fmt.Errorf("LIBRARY-VERIFIER-ACCEPTS-OTHER-MESSAGE")
	}
	if err := pairingEquationLong(pm.PublicKey().Value(), sig.Value(), s.Mode, message); err != nil {
		return nil, fmt.Errorf("PAIRING-EQUATION: %w", err)
	}
	return &BLSSig{Bytes: sig.Value().Bytes(), raw: sig}, nil
}

// The ciphersuite tags of draft-irtf-cfrg-bls-signature, typed in from the draft.
func blsDST(sigInG2 bool, m bls.RogueKeyPreventionAlgorithm) string {
	g := "G1"
	if sigInG2 {
		g = "G2"
	}
	v := map[bls.RogueKeyPreventionAlgorithm]string{bls.Basic: "NUL", bls.MessageAugmentation: "AUG", bls.POP: "POP"}[m]
	return "BLS_SIG_BLS12381" + g + "_XMD:SHA-256_SSWU_RO_" + v + "_"
}

// pairingEquationShort checks e(pk, H(m)) == e(g1, sig) for keys in G1 / signatures in G2, with the
// message hashed by the harness under the draft's tag (message augmentation prepends the key).
func pairingEquationShort(pk *bls12381.PointG1, sig *bls12381.PointG2, m bls.RogueKeyPreventionAlgorithm, msg []byte) error {
	if pk.IsOpIdentity() || sig.IsOpIdentity() || !pk.IsTorsionFree() || !sig.IsTorsionFree() {
		return fmt.Errorf("key or signature is the identity or outside the subgroup")
	}
	in := msg
	if m == bls.MessageAugmentation {
		in = append(append([]byte{}, pk.ToCompressed()...), msg...)
	}
	h, err := bls12381.NewG2().HashWithDst(blsDST(true, m), in)
	if err != nil {
		return err
	}
	ppe := bls12381.NewOptimalAtePPE()
	if err := ppe.AddAndInvG1(bls12381.NewG1().Generator(), sig); err != nil {
		return err
	}
	if err := ppe.Add(pk, h); err != nil {
		return err
	}
	if !ppe.Check() {
		return fmt.Errorf("e(pk, H(m)) != e(g1, sig)")
	}
	return nil
}

func pairingEquationLong(pk *bls12381.PointG2, sig *bls12381.PointG1, m bls.RogueKeyPreventionAlgorithm, msg []byte) error {
	if pk.IsOpIdentity() || sig.IsOpIdentity() || !pk.IsTorsionFree() || !sig.IsTorsionFree() {
		return fmt.Errorf("key or signature is the identity or outside the subgroup")
	}
	in := msg
	if m == bls.MessageAugmentation {
		in = append(append([]byte{}, pk.ToCompressed()...), msg...)
	}
	h, err := bls12381.NewG1().HashWithDst(blsDST(false, m), in)
	if err != nil {
		return err
	}
	ppe := bls12381.NewOptimalAtePPE()
	if err := ppe.AddAndInvG2(sig, bls12381.NewG2().Generator()); err != nil {
		return err
	}
	if err := ppe.Add(h, pk); err != nil {
		return err
	}
	if !ppe.Check() {
		return fmt.Errorf("e(H(m), pk) != e(sig, g2)")
	}
	return nil
}
