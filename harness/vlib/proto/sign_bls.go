package proto

import (
	"fmt"

	"github.com/bronlabs/bron-crypto/pkg/base/curves"
	"github.com/bronlabs/bron-crypto/pkg/base/curves/pairable/bls12381"
	"github.com/bronlabs/bron-crypto/pkg/base/datastructures/hashmap"
	"github.com/bronlabs/bron-crypto/pkg/base/serde"
	"github.com/bronlabs/bron-crypto/pkg/mpc"
	"github.com/bronlabs/bron-crypto/pkg/mpc/session"
	"github.com/bronlabs/bron-crypto/pkg/mpc/signatures/bls/boldyreva02"
	bkeygen "github.com/bronlabs/bron-crypto/pkg/mpc/signatures/bls/boldyreva02/keygen"
	bsigning "github.com/bronlabs/bron-crypto/pkg/mpc/signatures/bls/boldyreva02/signing"
	"github.com/bronlabs/bron-crypto/pkg/signatures/bls"
)

type blsFamily = curves.PairingFriendlyFamily[*bls12381.PointG1, *bls12381.BaseFieldElementG1, *bls12381.PointG2, *bls12381.BaseFieldElementG2, *bls12381.GtElement, *bls12381.Scalar]

// BLSSigner is one Boldyreva configuration: key size (short: keys in G1; long: keys in G2) x rogue-key mode.
type BLSSigner struct {
	Short bool
	Mode  bls.RogueKeyPreventionAlgorithm
}

// BLSSig is a type-erased BLS signature.
type BLSSig struct {
	Bytes []byte // encoding of the signature point
	PoP   []byte // encoding of the attached proof of possession (POP mode), nil otherwise
	raw   any
}

func (s BLSSigner) Name() string {
	k := "long"
	if s.Short {
		k = "short"
	}
	return fmt.Sprintf("boldyreva-%s-%s", k, modeName(s.Mode))
}

func modeName(m bls.RogueKeyPreventionAlgorithm) string {
	switch m {
	case bls.Basic:
		return "basic"
	case bls.MessageAugmentation:
		return "aug"
	case bls.POP:
		return "pop"
	}
	return fmt.Sprint(int(m))
}

// GroupName is the proto.Group that deals the base shards (the KEY group).
func (s BLSSigner) GroupName() string {
	if s.Short {
		return "bls12381g1"
	}
	return "bls12381g2"
}

// BLSSigners lists all six configurations.
func BLSSigners() []BLSSigner {
	var out []BLSSigner
	for _, short := range []bool{true, false} {
		for _, m := range []bls.RogueKeyPreventionAlgorithm{bls.Basic, bls.MessageAugmentation, bls.POP} {
			out = append(out, BLSSigner{Short: short, Mode: m})
		}
	}
	return out
}

func family() blsFamily { return &bls12381.FamilyTrait{} }

type (
	shortPartial = boldyreva02.PartialSignature[*bls12381.PointG2, *bls12381.BaseFieldElementG2, *bls12381.PointG1, *bls12381.BaseFieldElementG1, *bls12381.GtElement, *bls12381.Scalar]
	longPartial  = boldyreva02.PartialSignature[*bls12381.PointG1, *bls12381.BaseFieldElementG1, *bls12381.PointG2, *bls12381.BaseFieldElementG2, *bls12381.GtElement, *bls12381.Scalar]
	shortPM      = boldyreva02.PublicMaterial[*bls12381.PointG1, *bls12381.BaseFieldElementG1, *bls12381.PointG2, *bls12381.BaseFieldElementG2, *bls12381.GtElement, *bls12381.Scalar]
	longPM       = boldyreva02.PublicMaterial[*bls12381.PointG2, *bls12381.BaseFieldElementG2, *bls12381.PointG1, *bls12381.BaseFieldElementG1, *bls12381.GtElement, *bls12381.Scalar]
)

func (s BLSSigner) shortShard(v any) (*boldyreva02.Shard[*bls12381.PointG1, *bls12381.BaseFieldElementG1, *bls12381.PointG2, *bls12381.BaseFieldElementG2, *bls12381.GtElement, *bls12381.Scalar], error) {
	bs, ok := v.(*mpc.BaseShard[*bls12381.PointG1, *bls12381.Scalar])
	if !ok {
		return nil, fmt.Errorf("shard is %T", v)
	}
	return bkeygen.NewShortKeyShard[*bls12381.PointG1, *bls12381.BaseFieldElementG1, *bls12381.PointG2, *bls12381.BaseFieldElementG2, *bls12381.GtElement, *bls12381.Scalar](bs)
}

func (s BLSSigner) longShard(v any) (*boldyreva02.Shard[*bls12381.PointG2, *bls12381.BaseFieldElementG2, *bls12381.PointG1, *bls12381.BaseFieldElementG1, *bls12381.GtElement, *bls12381.Scalar], error) {
	bs, ok := v.(*mpc.BaseShard[*bls12381.PointG2, *bls12381.Scalar])
	if !ok {
		return nil, fmt.Errorf("shard is %T", v)
	}
	return bkeygen.NewLongKeyShard[*bls12381.PointG2, *bls12381.BaseFieldElementG2, *bls12381.PointG1, *bls12381.BaseFieldElementG1, *bls12381.GtElement, *bls12381.Scalar](bs)
}

// Partials lets every quorum member produce its partial signature (the protocol is
// non-interactive) and returns their CBOR encodings - what travels to the aggregator.
func (s BLSSigner) Partials(ctxs map[ID]*session.Context, shards map[ID]any, quorum []ID, message []byte) (map[ID][]byte, error) {
	out := map[ID][]byte{}
	for _, id := range quorum {
		var enc []byte
		if s.Short {
			sh, err := s.shortShard(shards[id])
			if err != nil {
				return nil, err
			}
			c, err := bsigning.NewShortKeyCosigner(ctxs[id], family(), sh, s.Mode)
			if err != nil {
				return nil, fmt.Errorf("cosigner %d: %w", id, err)
			}
			p, err := c.ProducePartialSignature(message)
			if err != nil {
				return nil, fmt.Errorf("partial signature of %d: %w", id, err)
			}
			if enc, err = serde.MarshalCBOR(p); err != nil {
				return nil, err
			}
		} else {
			sh, err := s.longShard(shards[id])
			if err != nil {
				return nil, err
			}
			c, err := bsigning.NewLongKeyCosigner(ctxs[id], family(), sh, s.Mode)
			if err != nil {
				return nil, fmt.Errorf("cosigner %d: %w", id, err)
			}
			p, err := c.ProducePartialSignature(message)
			if err != nil {
				return nil, fmt.Errorf("partial signature of %d: %w", id, err)
			}
			if enc, err = serde.MarshalCBOR(p); err != nil {
				return nil, err
			}
		}
		out[id] = enc
	}
	return out, nil
}

// ErrReleasedInvalid marks the one outcome that is a violation: the library aggregator RETURNED
// a signature, and that signature fails public verification.
var ErrReleasedInvalid = fmt.Errorf("aggregator released a signature that fails verification")

// Aggregate decodes the partial signatures and runs the library aggregator of one holder's
// public material. A decode error or an aggregator error is an ordinary rejection. If a
// signature is released it is checked with the library verifier (for this and another message)
// and with the pairing equation recomputed by the harness; a failure is ErrReleasedInvalid.
func (s BLSSigner) Aggregate(anyShard any, message []byte, partials map[ID][]byte) (*BLSSig, error) {
	other := append(append([]byte{}, message...), 1)
	if s.Short {
		sh, err := s.shortShard(anyShard)
		if err != nil {
			return nil, err
		}
		pm := sh.PublicKeyMaterial()
		ps := hashmap.NewComparable[ID, *shortPartial]()
		for id, b := range partials {
			p, err := serde.UnmarshalCBOR[*shortPartial](b)
			if err != nil {
				return nil, fmt.Errorf("partial signature of %d does not decode: %w", id, err)
			}
			ps.Put(id, p)
		}
		agg, err := bsigning.NewShortKeyAggregator(family(), pm, s.Mode)
		if err != nil {
			return nil, err
		}
		sig, err := agg.Aggregate(ps.Freeze(), message)
		if err != nil {
			return nil, fmt.Errorf("aggregate: %w", err)
		}
		scheme, err := bls.NewShortKeyScheme(family(), s.Mode)
		if err != nil {
			return nil, err
		}
		v, err := scheme.Verifier()
		if err != nil {
			return nil, err
		}
		if err := v.Verify(sig, pm.PublicKey(), message); err != nil {
			return nil, fmt.Errorf("%w: LIBRARY-VERIFIER-REJECTS: %v", ErrReleasedInvalid, err)
		}
		if err := v.Verify(sig, pm.PublicKey(), other); err == nil {
			return nil, fmt.Errorf("%w: LIBRARY-VERIFIER-ACCEPTS-OTHER-MESSAGE", ErrReleasedInvalid)
		}
		if err := pairingEquationShort(pm.PublicKey().Value(), sig.Value(), s.Mode, message); err != nil {
			return nil, fmt.Errorf("%w: PAIRING-EQUATION: %v", ErrReleasedInvalid, err)
		}
		return &BLSSig{Bytes: sig.Value().Bytes(), raw: sig}, nil
	}
	sh, err := s.longShard(anyShard)
	if err != nil {
		return nil, err
	}
	pm := sh.PublicKeyMaterial()
	ps := hashmap.NewComparable[ID, *longPartial]()
	for id, b := range partials {
		p, err := serde.UnmarshalCBOR[*longPartial](b)
		if err != nil {
			return nil, fmt.Errorf("partial signature of %d does not decode: %w", id, err)
		}
		ps.Put(id, p)
	}
	agg, err := bsigning.NewLongKeyAggregator(family(), pm, s.Mode)
	if err != nil {
		return nil, err
	}
	sig, err := agg.Aggregate(ps.Freeze(), message)
	if err != nil {
		return nil, fmt.Errorf("aggregate: %w", err)
	}
	scheme, err := bls.NewLongKeyScheme(family(), s.Mode)
	if err != nil {
		return nil, err
	}
	v, err := scheme.Verifier()
	if err != nil {
		return nil, err
	}
	if err := v.Verify(sig, pm.PublicKey(), message); err != nil {
		return nil, fmt.Errorf("%w: LIBRARY-VERIFIER-REJECTS: %v", ErrReleasedInvalid, err)
	}
	if err := v.Verify(sig, pm.PublicKey(), other); err == nil {
		return nil, fmt.Errorf("%w: LIBRARY-VERIFIER-ACCEPTS-OTHER-MESSAGE", ErrReleasedInvalid)
	}
	if err := pairingEquationLong(pm.PublicKey().Value(), sig.Value(), s.Mode, message); err != nil {
		return nil, fmt.Errorf("%w: PAIRING-EQUATION: %v", ErrReleasedInvalid, err)
	}
	return &BLSSig{Bytes: sig.Value().Bytes(), raw: sig}, nil
}

// Sign = Partials followed by Aggregate with the first quorum member's public material.
func (s BLSSigner) Sign(ctxs map[ID]*session.Context, shards map[ID]any, quorum []ID, message []byte) (*BLSSig, error) {
	ps, err := s.Partials(ctxs, shards, quorum, message)
	if err != nil {
		return nil, err
	}
	return s.Aggregate(shards[quorum[0]], message, ps)
}

// The ciphersuite tags of draft-irtf-cfrg-bls-signature, typed in from the draft.
func blsDST(sigInG2 bool, m bls.RogueKeyPreventionAlgorithm) string {
	g := "G1"
	if sigInG2 {
		g = "G2"
	}
	v := map[bls.RogueKeyPreventionAlgorithm]string{bls.Basic: "NUL", bls.MessageAugmentation: "AUG", bls.POP: "POP"}[m]
	return "BLS_SIG_BLS12381" + g + "_XMD:SHA-256_SSWU_RO_" + v + "_"
}

// pairingEquationShort checks e(pk, H(m)) == e(g1, sig) for keys in G1 / signatures in G2, with the
// message hashed by the harness under the draft's tag (message augmentation prepends the key).
func pairingEquationShort(pk *bls12381.PointG1, sig *bls12381.PointG2, m bls.RogueKeyPreventionAlgorithm, msg []byte) error {
	if pk.IsOpIdentity() || sig.IsOpIdentity() || !pk.IsTorsionFree() || !sig.IsTorsionFree() {
		return fmt.Errorf("key or signature is the identity or outside the subgroup")
	}
	in := msg
	if m == bls.MessageAugmentation {
		in = append(append([]byte{}, pk.ToCompressed()...), msg...)
	}
	h, err := bls12381.NewG2().HashWithDst(blsDST(true, m), in)
	if err != nil {
		return err
	}
	ppe := bls12381.NewOptimalAtePPE()
	if err := ppe.AddAndInvG1(bls12381.NewG1().Generator(), sig); err != nil {
		return err
	}
	if err := ppe.Add(pk, h); err != nil {
		return err
	}
	if !ppe.Check() {
		return fmt.Errorf("e(pk, H(m)) != e(g1, sig)")
	}
	return nil
}

func pairingEquationLong(pk *bls12381.PointG2, sig *bls12381.PointG1, m bls.RogueKeyPreventionAlgorithm, msg []byte) error {
	if pk.IsOpIdentity() || sig.IsOpIdentity() || !pk.IsTorsionFree() || !sig.IsTorsionFree() {
		return fmt.Errorf("key or signature is the identity or outside the subgroup")
	}
	in := msg
	if m == bls.MessageAugmentation {
		in = append(append([]byte{}, pk.ToCompressed()...), msg...)
	}
	h, err := bls12381.NewG1().HashWithDst(blsDST(false, m), in)
	if err != nil {
		return err
	}
	ppe := bls12381.NewOptimalAtePPE()
	if err := ppe.AddAndInvG2(sig, bls12381.NewG2().Generator()); err != nil {
		return err
	}
	if err := ppe.Add(h, pk); err != nil {
		return err
	}
	if !ppe.Check() {
		return fmt.Errorf("e(H(m), pk) != e(sig, g2)")
	}
	return nil
}
