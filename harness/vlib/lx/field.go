// Package lx holds helpers that convert between library objects and math/big values.
package lx

import (
	"math/big"

	"github.com/bronlabs/bron-crypto/pkg/base/algebra"
)

// Order returns the order of a prime field as a big integer.
func Order[E algebra.PrimeFieldElement[E]](f algebra.PrimeField[E]) *big.Int {
	return new(big.Int).Set(f.Order().Big())
}

// Big converts a field element to the integer in [0, q) it represents (via BytesBE).
func Big[E algebra.PrimeFieldElement[E]](e E) *big.Int {
	return new(big.Int).SetBytes(e.BytesBE())
}

// FE converts an integer (reduced mod q first) to a field element.
func FE[E algebra.PrimeFieldElement[E]](f algebra.PrimeField[E], x *big.Int) E {
	q := Order(f)
	v := new(big.Int).Mod(x, q)
	buf := make([]byte, f.ElementSize())
	v.FillBytes(buf)
	e, err := f.FromBytesBE(buf)
	if err != nil {
		panic("lx.FE: " + err.Error())
	}
	return e
}
