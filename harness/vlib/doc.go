// Package vlib holds generators, reference models and the statistics protocol shared by
// the per-property harness packages.
package vlib
