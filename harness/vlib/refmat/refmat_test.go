package refmat

import (
	"math/big"
	"testing"
)

// ---- tiny deterministic generator (self-tests only) ----------------------------------------

type sm64 uint64

func (s *sm64) next() uint64 {
	*s += 0x9e3779b97f4a7c15
	z := uint64(*s)
	z = (z ^ (z >> 30)) * 0xbf58476d1ce4e5b9
	z = (z ^ (z >> 27)) * 0x94d049bb133111eb
	return z ^ (z >> 31)
}
func (s *sm64) intn(n int) int { return int(s.next() % uint64(n)) }
func (s *sm64) big(p *big.Int) *big.Int {
	b := make([]byte, len(p.Bytes())+8)
	for i := range b {
		b[i] = byte(s.next())
	}
	return new(big.Int).Mod(new(big.Int).SetBytes(b), p)
}
func (s *sm64) mat(p *big.Int, r, c int) *Mat {
	m := Zero(p, r, c)
	for i := 0; i < r; i++ {
		for j := 0; j < c; j++ {
			m.A[i][j] = s.big(p)
		}
	}
	return m
}
func (s *sm64) vec(p *big.Int, n int) []*big.Int {
	v := make([]*big.Int, n)
	for i := range v {
		v[i] = s.big(p)
	}
	return v
}

// lowRank returns an r×c matrix of rank <= k built as a product, with optional duplicated and
// zeroed rows.
func (s *sm64) lowRank(p *big.Int, r, c, k int) *Mat {
	m, _ := s.mat(p, r, k).Mul(s.mat(p, k, c))
	if r > 1 && s.intn(3) == 0 {
		i, j := s.intn(r), s.intn(r)
		for x := 0; x < c; x++ {
			m.A[i][x].Set(m.A[j][x])
		}
	}
	if r > 0 && s.intn(4) == 0 {
		i := s.intn(r)
		for x := 0; x < c; x++ {
			m.A[i][x].SetInt64(0)
		}
	}
	return m
}

var (
	p7      = big.NewInt(7)
	p11     = big.NewInt(11)
	pF4     = big.NewInt(65537)
	pBig, _ = new(big.Int).SetString("73eda753299d7d483339d80809a1d80553bda402fffe5bfeffffffff00000001", 16)
)

// ---- brute force over a small prime, on machine integers ----------------------------------

func toInts(m *Mat) [][]int {
	out := make([][]int, m.R)
	for i := range out {
		out[i] = make([]int, m.C)
		for j := range out[i] {
			out[i][j] = int(m.A[i][j].Int64())
		}
	}
	return out
}

// allVecs enumerates F_q^n.
func allVecs(q, n int, f func([]int)) {
	v := make([]int, n)
	var rec func(int)
	rec = func(i int) {
		if i == n {
			f(v)
			return
		}
		for x := 0; x < q; x++ {
			v[i] = x
			rec(i + 1)
		}
	}
	rec(0)
}

func key(v []int) string {
	b := make([]byte, len(v))
	for i, x := range v {
		b[i] = byte(x)
	}
	return string(b)
}

// image returns the set {M·x : x in F_q^C}.
func image(a [][]int, r, c, q int) map[string]bool {
	img := map[string]bool{}
	y := make([]int, r)
	allVecs(q, c, func(x []int) {
		for i := 0; i < r; i++ {
			s := 0
			for j := 0; j < c; j++ {
				s += a[i][j] * x[j]
			}
			y[i] = s % q
		}
		img[key(y)] = true
	})
	return img
}

func logq(n, q int) int {
	k := 0
	for n > 1 {
		if n%q != 0 {
			return -1
		}
		n /= q
		k++
	}
	return k
}

func bigs(v []int) []*big.Int {
	out := make([]*big.Int, len(v))
	for i, x := range v {
		out[i] = big.NewInt(int64(x))
	}
	return out
}

// checkAgainstBruteForce compares every span/solve/rank answer for m with enumeration.
func checkAgainstBruteForce(t *testing.T, m *Mat, q int) {
	t.Helper()
	a := toInts(m)
	img := image(a, m.R, m.C, q)
	if got, want := m.Rank(), logq(len(img), q); got != want {
		t.Fatalf("rank %d, brute force %d for %v", got, want, a)
	}
	imgT := image(toInts(m.Transpose()), m.C, m.R, q)
	if len(imgT) != len(img) {
		t.Fatalf("row rank != column rank by brute force?! %v", a)
	}
	allVecs(q, m.R, func(b []int) {
		bb := bigs(b)
		want := img[key(b)]
		x, ok, err := SolveRight(m, bb)
		if err != nil || ok != want {
			t.Fatalf("SolveRight(%v, %v): ok=%v err=%v, brute force says %v", a, b, ok, err, want)
		}
		if ok && !IsRightSolution(m, x, bb) {
			t.Fatalf("SolveRight(%v, %v) returned a non-solution %v", a, b, x)
		}
		if m.ColSpanContains(bb) != want {
			t.Fatalf("ColSpanContains(%v, %v) != %v", a, b, want)
		}
	})
	allVecs(q, m.C, func(b []int) {
		bb := bigs(b)
		want := imgT[key(b)]
		x, ok, err := SolveLeft(m, bb)
		if err != nil || ok != want {
			t.Fatalf("SolveLeft(%v, %v): ok=%v err=%v, brute force says %v", a, b, ok, err, want)
		}
		if ok && !IsLeftSolution(m, x, bb) {
			t.Fatalf("SolveLeft(%v, %v) returned a non-solution %v", a, b, x)
		}
		if m.RowSpanContains(bb) != want {
			t.Fatalf("RowSpanContains(%v, %v) != %v", a, b, want)
		}
	})
	// the null space has q^(C-rank) elements and is spanned by Nullspace()
	ns := m.Nullspace()
	if ns.R != m.C-m.Rank() || ns.Rank() != ns.R {
		t.Fatalf("Nullspace of %v: %d rows of rank %d, want %d independent rows", a, ns.R, ns.Rank(), m.C-m.Rank())
	}
	for i := 0; i < ns.R; i++ {
		y, _ := m.MulVec(ns.A[i])
		for _, e := range y {
			if e.Sign() != 0 {
				t.Fatalf("Nullspace row %d of %v is not in the kernel", i, a)
			}
		}
	}
}

func TestBruteForceAll2x2F7(t *testing.T) {
	// every 2×2 matrix over F_7 (2401) against every right-hand side
	allVecs(7, 4, func(e []int) {
		m := FromInt64(p7, [][]int64{{int64(e[0]), int64(e[1])}, {int64(e[2]), int64(e[3])}})
		checkAgainstBruteForce(t, m, 7)
		det := (e[0]*e[3] - e[1]*e[2]) % 7
		if det < 0 {
			det += 7
		}
		if m.Det().Int64() != int64(det) {
			t.Fatalf("det %v = %v want %d", e, m.Det(), det)
		}
		inv, ok := m.Inverse()
		if ok != (det != 0) {
			t.Fatalf("Inverse ok=%v for det %d", ok, det)
		}
		if ok {
			pr, _ := m.Mul(inv)
			if !pr.Equal(Identity(p7, 2)) {
				t.Fatalf("M·M⁻¹ != I for %v", e)
			}
		}
	})
}

func TestBruteForceShapesSmallPrimes(t *testing.T) {
	s := sm64(1)
	for _, pq := range []struct {
		p *big.Int
		q int
	}{{p7, 7}, {p11, 11}} {
		for r := 0; r <= 4; r++ {
			for c := 0; c <= 4; c++ {
				for k := 0; k <= min(r, c); k++ {
					reps := 6
					if pq.q == 11 && r+c > 5 {
						reps = 1
					}
					for rep := 0; rep < reps; rep++ {
						m := s.lowRank(pq.p, r, c, k)
						if m.Rank() > k {
							t.Fatalf("product of %dx%d and %dx%d has rank %d", r, k, k, c, m.Rank())
						}
						checkAgainstBruteForce(t, m, pq.q)
					}
				}
			}
		}
		// fully random (mostly full rank) matrices too
		for rep := 0; rep < 40; rep++ {
			checkAgainstBruteForce(t, s.mat(pq.p, 1+s.intn(3), 1+s.intn(3)), pq.q)
		}
	}
}

// leibniz computes the determinant by the permutation formula.
func leibniz(m *Mat) *big.Int {
	n := m.R
	perm := make([]int, n)
	for i := range perm {
		perm[i] = i
	}
	sum := new(big.Int)
	var rec func(k int, sign int)
	rec = func(k int, sign int) {
		if k == n {
			t := big.NewInt(int64(sign))
			for i := 0; i < n; i++ {
				t.Mul(t, m.A[i][perm[i]])
			}
			sum.Add(sum, t)
			return
		}
		for i := k; i < n; i++ {
			perm[k], perm[i] = perm[i], perm[k]
			sg := sign
			if i != k {
				sg = -sign
			}
			rec(k+1, sg)
			perm[k], perm[i] = perm[i], perm[k]
		}
	}
	rec(0, 1)
	return sum.Mod(sum, m.P)
}

func TestDetInverseAgainstLeibniz(t *testing.T) {
	s := sm64(2)
	for _, p := range []*big.Int{p7, p11, pF4, pBig} {
		for n := 0; n <= 6; n++ {
			for rep := 0; rep < 12; rep++ {
				var m *Mat
				switch rep % 3 {
				case 0:
					m = s.mat(p, n, n)
				case 1:
					m = s.lowRank(p, n, n, max(n-1, 0))
				default:
					m = s.lowRank(p, n, n, n)
				}
				d := m.Det()
				if d.Cmp(leibniz(m)) != 0 {
					t.Fatalf("Det != Leibniz for %v mod %v", m.A, p)
				}
				if (m.Rank() == n) != (d.Sign() != 0) {
					t.Fatalf("rank %d of %dx%d but det %v", m.Rank(), n, n, d)
				}
				inv, ok := m.Inverse()
				if ok != (d.Sign() != 0) {
					t.Fatalf("Inverse ok=%v, det=%v", ok, d)
				}
				if ok {
					l, _ := inv.Mul(m)
					r, _ := m.Mul(inv)
					if !l.Equal(Identity(p, n)) || !r.Equal(Identity(p, n)) {
						t.Fatalf("inverse is not two-sided for %v", m.A)
					}
					// adjugate formula: inv[j][i] = (-1)^(i+j) det(minor(i,j)) / det
					if n >= 1 {
						i, j := s.intn(n), s.intn(n)
						mn, _ := m.Minor(i, j)
						c := mn.Det()
						if (i+j)%2 == 1 {
							c.Neg(c)
						}
						c.Mul(c, new(big.Int).ModInverse(d, p)).Mod(c, p)
						if c.Cmp(inv.A[j][i]) != 0 {
							t.Fatalf("adjugate entry (%d,%d) mismatch", j, i)
						}
					}
				}
				// Laplace expansion along a row
				if n >= 1 {
					i := s.intn(n)
					sum := new(big.Int)
					for j := 0; j < n; j++ {
						mn, _ := m.Minor(i, j)
						c := mn.Det()
						c.Mul(c, m.A[i][j])
						if (i+j)%2 == 1 {
							c.Neg(c)
						}
						sum.Add(sum, c)
					}
					if sum.Mod(sum, p).Cmp(d) != 0 {
						t.Fatalf("Laplace expansion mismatch")
					}
				}
			}
		}
	}
}

func TestIdentitiesLargePrimes(t *testing.T) {
	s := sm64(3)
	for _, p := range []*big.Int{pF4, pBig} {
		for rep := 0; rep < 150; rep++ {
			r, k, c := s.intn(8), s.intn(8), s.intn(8)
			a, b := s.mat(p, r, k), s.mat(p, k, c)
			ab, err := a.Mul(b)
			if err != nil {
				t.Fatal(err)
			}
			// (AB)ᵀ = BᵀAᵀ
			btat, _ := b.Transpose().Mul(a.Transpose())
			if !ab.Transpose().Equal(btat) {
				t.Fatalf("(AB)^T != B^T A^T")
			}
			if !a.Transpose().Transpose().Equal(a) {
				t.Fatalf("transpose is not an involution")
			}
			// rank(AB) <= min; equality for the 255-bit prime with overwhelming probability
			rk := ab.Rank()
			if rk > min(r, k, c) {
				t.Fatalf("rank(AB)=%d > %d", rk, min(r, k, c))
			}
			if p == pBig && rk != min(r, k, c) {
				t.Fatalf("rank(AB)=%d, want %d over a 255-bit prime", rk, min(r, k, c))
			}
			if ab.Transpose().Rank() != rk {
				t.Fatalf("rank(M^T) != rank(M)")
			}
			// (AB)x = A(Bx); x(AB) = (xA)B
			x := s.vec(p, c)
			bx, _ := b.MulVec(x)
			abx1, _ := a.MulVec(bx)
			abx2, _ := ab.MulVec(x)
			if !VecEqual(abx1, abx2) {
				t.Fatalf("(AB)x != A(Bx)")
			}
			y := s.vec(p, r)
			ya, _ := a.VecMul(y)
			yab1, _ := b.VecMul(ya)
			yab2, _ := ab.VecMul(y)
			if !VecEqual(yab1, yab2) {
				t.Fatalf("y(AB) != (yA)B")
			}
			// consistent systems are solved; M·x0 is in the column span, y0·M in the row span
			sol, ok, err := SolveRight(ab, abx2)
			if err != nil || !ok || !IsRightSolution(ab, sol, abx2) {
				t.Fatalf("SolveRight failed on a consistent system")
			}
			sol, ok, err = SolveLeft(ab, yab2)
			if err != nil || !ok || !IsLeftSolution(ab, sol, yab2) {
				t.Fatalf("SolveLeft failed on a consistent system")
			}
			if !ab.ColSpanContains(abx2) || !ab.RowSpanContains(yab2) {
				t.Fatalf("span membership of a constructed member is false")
			}
			// a right-hand side outside the column span: add a vector z with w·z != 0 for some w in the left kernel
			lk := ab.Transpose().Nullspace() // rows w with w·AB = 0
			if lk.R > 0 {
				w := lk.A[s.intn(lk.R)]
				z := make([]*big.Int, r)
				for i := range z {
					z[i] = new(big.Int)
				}
				for i := range w {
					if w[i].Sign() != 0 {
						z[i].SetInt64(1)
						break
					}
				}
				bad := make([]*big.Int, r)
				for i := range bad {
					bad[i] = new(big.Int).Add(abx2[i], z[i])
					bad[i].Mod(bad[i], p)
				}
				if _, ok, _ := SolveRight(ab, bad); ok {
					t.Fatalf("SolveRight solved an inconsistent system")
				}
				if ab.ColSpanContains(bad) {
					t.Fatalf("ColSpanContains accepted a vector outside the span")
				}
			}
			// det is multiplicative and transpose-invariant
			n := s.intn(7)
			u, v := s.mat(p, n, n), s.lowRank(p, n, n, n)
			uv, _ := u.Mul(v)
			d := new(big.Int).Mul(u.Det(), v.Det())
			if d.Mod(d, p).Cmp(uv.Det()) != 0 {
				t.Fatalf("det(UV) != det(U)det(V)")
			}
			if u.Det().Cmp(u.Transpose().Det()) != 0 {
				t.Fatalf("det(U^T) != det(U)")
			}
		}
	}
}

func TestHandExamples(t *testing.T) {
	m := FromInt64(p11, [][]int64{{1, 2, 3}, {4, 5, 6}, {7, 8, 9}})
	if m.Rank() != 2 || m.Det().Sign() != 0 {
		t.Fatalf("[[1 2 3][4 5 6][7 8 9]] mod 11: rank %d det %v", m.Rank(), m.Det())
	}
	m = FromInt64(p11, [][]int64{{2, 0, 1}, {1, 3, 2}, {1, 1, 1}}) // det = 2(3-2) - 0 + 1(1-3) = 0
	if m.Det().Sign() != 0 {
		t.Fatalf("det want 0 got %v", m.Det())
	}
	m = FromInt64(p11, [][]int64{{2, -1, 0}, {-1, 2, -1}, {0, -1, 2}}) // det 4
	if m.Det().Int64() != 4 {
		t.Fatalf("det want 4 got %v", m.Det())
	}
	x, ok, _ := SolveRight(m, VecInt64(p11, 1, 0, 1)) // solution (1,1,1)
	if !ok || !VecEqual(x, VecInt64(p11, 1, 1, 1)) {
		t.Fatalf("solve: %v %v", x, ok)
	}
	if Zero(p7, 0, 0).Det().Int64() != 1 || Zero(p7, 0, 3).Rank() != 0 || Zero(p7, 3, 0).Rank() != 0 {
		t.Fatalf("empty shapes")
	}
	// 0×n and n×0 systems: M·x = b with M 0×3 has the solution x = 0; with M 3×0 only b = 0 is solvable
	if _, ok, _ := SolveRight(Zero(p7, 0, 3), nil); !ok {
		t.Fatalf("0x3 system must be solvable")
	}
	if _, ok, _ := SolveRight(Zero(p7, 3, 0), VecInt64(p7, 0, 0, 0)); !ok {
		t.Fatalf("3x0 system with b=0 must be solvable")
	}
	if _, ok, _ := SolveRight(Zero(p7, 3, 0), VecInt64(p7, 0, 1, 0)); ok {
		t.Fatalf("3x0 system with b!=0 must be unsolvable")
	}
	if _, _, err := SolveRight(Zero(p7, 2, 2), VecInt64(p7, 1)); err == nil {
		t.Fatalf("shape error expected")
	}
	if _, err := Zero(p7, 2, 3).Mul(Zero(p7, 2, 3)); err == nil {
		t.Fatalf("shape error expected")
	}
	if _, err := New(p7, 2, 2, [][]*big.Int{{big.NewInt(1), big.NewInt(2)}, {big.NewInt(1)}}); err == nil {
		t.Fatalf("ragged rows must be refused")
	}
	if got := FromInt64(p7, [][]int64{{-1, 8}}); got.A[0][0].Int64() != 6 || got.A[0][1].Int64() != 1 {
		t.Fatalf("reduction of inputs: %v", got.A)
	}
}

func TestPolynomials(t *testing.T) {
	s := sm64(4)
	for _, p := range []*big.Int{p7, p11, pF4, pBig} {
		for rep := 0; rep < 200; rep++ {
			n := s.intn(10)
			f := s.vec(p, n)
			if n > 0 && s.intn(3) == 0 {
				f[n-1].SetInt64(0) // zero leading coefficient
			}
			x := s.big(p)
			if s.intn(5) == 0 {
				x.SetInt64(0)
			}
			// Horner against the sum of powers
			naive := new(big.Int)
			for i, c := range f {
				naive.Add(naive, new(big.Int).Mul(c, new(big.Int).Exp(x, big.NewInt(int64(i)), p)))
			}
			if naive.Mod(naive, p).Cmp(PolyEval(f, x, p)) != 0 {
				t.Fatalf("Horner != naive")
			}
			// derivative: term-wise evaluation == Horner on derivative coefficients == iterated first derivatives
			for d := 0; d <= 4; d++ {
				a := PolyDerivEval(f, d, x, p)
				b := PolyEval(PolyDerivative(f, d, p), x, p)
				it := f
				for k := 0; k < d; k++ {
					it = PolyDerivative(it, 1, p)
				}
				c := PolyEval(it, x, p)
				if a.Cmp(b) != 0 || a.Cmp(c) != 0 {
					t.Fatalf("derivative order %d: %v %v %v", d, a, b, c)
				}
			}
			// product rule (fg)' = f'g + fg'
			g := s.vec(p, s.intn(6))
			fg := make([]*big.Int, max(len(f)+len(g)-1, 0))
			for i := range fg {
				fg[i] = new(big.Int)
			}
			for i := range f {
				for j := range g {
					fg[i+j].Add(fg[i+j], new(big.Int).Mul(f[i], g[j]))
				}
			}
			lhs := PolyDerivEval(fg, 1, x, p)
			rhs := new(big.Int).Mul(PolyDerivEval(f, 1, x, p), PolyEval(g, x, p))
			rhs.Add(rhs, new(big.Int).Mul(PolyEval(f, x, p), PolyDerivEval(g, 1, x, p)))
			if lhs.Cmp(rhs.Mod(rhs, p)) != 0 {
				t.Fatalf("product rule fails")
			}
		}
	}
	// literals: f = 3 + 2x + x^3 ; f' = 2 + 3x^2 ; f'' = 6x ; f''' = 6
	f := VecInt64(pF4, 3, 2, 0, 1)
	x := big.NewInt(5)
	for d, want := range []int64{138, 77, 30, 6, 0} {
		if got := PolyDerivEval(f, d, x, pF4).Int64(); got != want {
			t.Fatalf("f^(%d)(5) = %d want %d", d, got, want)
		}
	}
	if FallingFactorial(5, 2).Int64() != 20 || FallingFactorial(3, 0).Int64() != 1 || FallingFactorial(2, 3).Int64() != 0 {
		t.Fatalf("falling factorial")
	}
}

func distinctNodes(s *sm64, p *big.Int, n int) []*big.Int {
	seen := map[string]bool{}
	var out []*big.Int
	for len(out) < n {
		x := s.big(p)
		if s.intn(4) == 0 {
			x = big.NewInt(int64(s.intn(12)))
			x.Mod(x, p)
		}
		if seen[x.String()] {
			continue
		}
		seen[x.String()] = true
		out = append(out, x)
	}
	return out
}

func TestInterpolation(t *testing.T) {
	s := sm64(5)
	for _, p := range []*big.Int{p7, p11, pF4, pBig} {
		for rep := 0; rep < 150; rep++ {
			n := 1 + s.intn(6) // <= 7 distinct nodes exist mod 7
			nodes := distinctNodes(&s, p, n)
			f := s.vec(p, n)
			vals := make([]*big.Int, n)
			for i := range vals {
				vals[i] = PolyEval(f, nodes[i], p)
			}
			// Newton recovers the coefficients
			got, ok := NewtonInterpolate(nodes, vals, p)
			if !ok || !VecEqual(got, f) {
				t.Fatalf("Newton: %v want %v (nodes %v)", got, f, nodes)
			}
			// Lagrange recovers the value anywhere, including at a node
			at := s.big(p)
			if s.intn(3) == 0 {
				at = nodes[s.intn(n)]
			}
			v, ok := LagrangeAt(nodes, vals, at, p)
			if !ok || v.Cmp(PolyEval(f, at, p)) != 0 {
				t.Fatalf("Lagrange at %v: %v", at, v)
			}
			// basis sums to one and is an indicator at the nodes
			basis, _ := LagrangeBasisAt(nodes, at, p)
			sum := new(big.Int)
			for _, b := range basis {
				sum.Add(sum, b)
			}
			if sum.Mod(sum, p).Int64() != 1 {
				t.Fatalf("basis does not sum to one")
			}
			bn, _ := LagrangeBasisAt(nodes, nodes[0], p)
			for i, b := range bn {
				if (i == 0) != (b.Int64() == 1) || (i != 0 && b.Sign() != 0) {
					t.Fatalf("basis at a node is not an indicator: %v", bn)
				}
			}
			// Vandermonde·coeffs = values; the square Vandermonde on distinct nodes is invertible and solves for f
			vm := Vandermonde(p, nodes, n)
			ev, _ := vm.MulVec(f)
			if !VecEqual(ev, vals) {
				t.Fatalf("Vandermonde·f != values")
			}
			sol, ok, _ := SolveRight(vm, vals)
			if !ok || !VecEqual(sol, f) {
				t.Fatalf("Vandermonde solve does not recover f")
			}
			// Birkhoff with all orders 0 is Vandermonde; Birkhoff·coeffs = derivative values
			js := make([]int, n)
			bm, _ := Birkhoff(p, nodes, js, n)
			if !bm.Equal(vm) {
				t.Fatalf("Birkhoff(j=0) != Vandermonde")
			}
			for i := range js {
				js[i] = s.intn(n + 1)
			}
			bm, _ = Birkhoff(p, nodes, js, n)
			dv, _ := bm.MulVec(f)
			for i := range dv {
				if dv[i].Cmp(PolyDerivEval(f, js[i], nodes[i], p)) != 0 {
					t.Fatalf("Birkhoff row %d (order %d) != derivative value", i, js[i])
				}
			}
			// duplicates are refused
			dup := append(append([]*big.Int{}, nodes...), new(big.Int).Add(nodes[0], p))
			if _, ok := LagrangeAt(dup, append(vals, vals[0]), at, p); ok {
				t.Fatalf("duplicate node mod p accepted")
			}
			if _, ok := NewtonInterpolate(dup, append(vals, vals[0]), p); ok {
				t.Fatalf("duplicate node mod p accepted by Newton")
			}
		}
	}
	// literal: Birkhoff row for x=2, j=1, 4 columns: (0, 1, 2x, 3x²) = (0,1,4,12)
	bm, _ := Birkhoff(pF4, VecInt64(pF4, 2), []int{1}, 4)
	if !VecEqual(bm.A[0], VecInt64(pF4, 0, 1, 4, 12)) {
		t.Fatalf("Birkhoff literal: %v", bm.A[0])
	}
	// literal: j=2 at x=3, 5 columns: (0,0,2,6x,12x²) = (0,0,2,18,108)
	bm, _ = Birkhoff(pF4, VecInt64(pF4, 3), []int{2}, 5)
	if !VecEqual(bm.A[0], VecInt64(pF4, 0, 0, 2, 18, 108)) {
		t.Fatalf("Birkhoff literal: %v", bm.A[0])
	}
	// Pólya violation: no order-0 node makes the first column zero, hence singular
	bm, _ = Birkhoff(pF4, VecInt64(pF4, 1, 2), []int{1, 1}, 2)
	if bm.Det().Sign() != 0 {
		t.Fatalf("pattern without an order-0 row must be singular")
	}
}
