// Package refmat is an INDEPENDENT linear-algebra and polynomial reference over a prime field
// F_p, written on math/big only (DESIGN.md §4.2). It must never import
// github.com/bronlabs/bron-crypto: it is the oracle for C20 (solver exactness), C02 (MSP
// privacy / rank criterion) and C05 (VSS algebra).
//
// # Conventions
//
//   - Every value is a *big.Int in canonical form 0 <= v < p. Constructors reduce their inputs
//     (negative inputs are allowed and mean -v mod p). Results never alias inputs.
//   - p must be a prime > 1 (not checked beyond p > 1; inverses use Fermat-free ModInverse).
//   - A matrix is Mat{P, R, C, A}: R rows, C columns, A[i][j] row-major. R or C may be 0.
//   - Vectors are plain []*big.Int.
//   - Methods that can fail on shapes return an error; "no solution"/"singular" is reported as
//     ok=false, not as an error.
//
// # API
//
//	constructors   New(p, r, c, rows) FromRows(p, rows) FromInt64(p, rows) Zero(p, r, c) Identity(p, n)
//	               Vec(p, vals) VecInt64(p, vals...)
//	structure      (*Mat) Clone Equal Transpose Minor(i, j) Row(i) Col(j) SubRows(idx...) SubCols(idx...)
//	products       (*Mat) Mul(o) MulVec(v) VecMul(v);  Dot(p, a, b)
//	elimination    (*Mat) RREF() (reduced copy, pivot columns)  Rank()  Det()  Inverse()
//	spans          (*Mat) RowSpanContains(v)  ColSpanContains(v)  Nullspace()
//	systems        SolveRight(M, b) -> x with M·x = b    SolveLeft(M, b) -> x with x·M = b
//	               IsRightSolution(M, x, b)  IsLeftSolution(M, x, b)
//	polynomials    PolyEval(coeffs, x, p)  PolyDerivEval(coeffs, order, x, p)  PolyDerivative(coeffs, order, p)
//	               FallingFactorial(n, k)
//	interpolation  LagrangeBasisAt(nodes, at, p)  LagrangeAt(nodes, values, at, p)
//	               NewtonInterpolate(nodes, values, p) (coefficients, by divided differences)
//	               Vandermonde(p, nodes, cols)  Birkhoff(p, xs, js, cols)
//
// All elimination is plain Gaussian elimination with the first non-zero entry as pivot
// (exact arithmetic: no numerical pivoting is needed). The self-tests cross-check it against
// brute-force enumeration over F_7 / F_11, against the Leibniz permutation formula for the
// determinant, and against algebraic identities over 65537 and a 255-bit prime.
package refmat

import (
	"errors"
	"fmt"
	"math/big"
)

// ErrShape is returned when operand shapes do not fit.
var ErrShape = errors.New("refmat: shape mismatch")

// Mat is an R×C matrix over F_P.
type Mat struct {
	P    *big.Int
	R, C int
	A    [][]*big.Int
}

func red(v, p *big.Int) *big.Int { return new(big.Int).Mod(v, p) }

func checkP(p *big.Int) {
	if p == nil || p.Cmp(big.NewInt(1)) <= 0 {
		panic("refmat: modulus must be a prime > 1")
	}
}

// New builds an r×c matrix from rows (len(rows) must be r, every row of length c). Entries are
// reduced mod p. r or c may be 0.
func New(p *big.Int, r, c int, rows [][]*big.Int) (*Mat, error) {
	checkP(p)
	if r < 0 || c < 0 || len(rows) != r {
		return nil, fmt.Errorf("%w: want %d rows, got %d", ErrShape, r, len(rows))
	}
	m := &Mat{P: new(big.Int).Set(p), R: r, C: c, A: make([][]*big.Int, r)}
	for i, row := range rows {
		if len(row) != c {
			return nil, fmt.Errorf("%w: row %d has %d entries, want %d", ErrShape, i, len(row), c)
		}
		m.A[i] = make([]*big.Int, c)
		for j, v := range row {
			if v == nil {
				return nil, fmt.Errorf("%w: nil entry (%d,%d)", ErrShape, i, j)
			}
			m.A[i][j] = red(v, p)
		}
	}
	return m, nil
}

// FromRows builds a matrix whose shape is inferred from rows (no rows: 0×0).
func FromRows(p *big.Int, rows [][]*big.Int) (*Mat, error) {
	c := 0
	if len(rows) > 0 {
		c = len(rows[0])
	}
	return New(p, len(rows), c, rows)
}

// FromInt64 is FromRows for small literals; it panics on ragged input (test convenience).
func FromInt64(p *big.Int, rows [][]int64) *Mat {
	bs := make([][]*big.Int, len(rows))
	for i, row := range rows {
		bs[i] = make([]*big.Int, len(row))
		for j, v := range row {
			bs[i][j] = big.NewInt(v)
		}
	}
	m, err := FromRows(p, bs)
	if err != nil {
		panic(err)
	}
	return m
}

// Zero returns the r×c zero matrix.
func Zero(p *big.Int, r, c int) *Mat {
	checkP(p)
	m := &Mat{P: new(big.Int).Set(p), R: r, C: c, A: make([][]*big.Int, r)}
	for i := range m.A {
		m.A[i] = make([]*big.Int, c)
		for j := range m.A[i] {
			m.A[i][j] = new(big.Int)
		}
	}
	return m
}

// Identity returns the n×n identity matrix.
func Identity(p *big.Int, n int) *Mat {
	m := Zero(p, n, n)
	for i := 0; i < n; i++ {
		m.A[i][i].SetInt64(1)
	}
	return m
}

// Vec returns a reduced copy of vals.
func Vec(p *big.Int, vals []*big.Int) []*big.Int {
	out := make([]*big.Int, len(vals))
	for i, v := range vals {
		out[i] = red(v, p)
	}
	return out
}

// VecInt64 builds a reduced vector from small literals.
func VecInt64(p *big.Int, vals ...int64) []*big.Int {
	out := make([]*big.Int, len(vals))
	for i, v := range vals {
		out[i] = red(big.NewInt(v), p)
	}
	return out
}

// VecEqual compares two vectors entry-wise (values must be canonical).
func VecEqual(a, b []*big.Int) bool {
	if len(a) != len(b) {
		return false
	}
	for i := range a {
		if a[i].Cmp(b[i]) != 0 {
			return false
		}
	}
	return true
}

// Clone returns a deep copy.
func (m *Mat) Clone() *Mat {
	o := &Mat{P: new(big.Int).Set(m.P), R: m.R, C: m.C, A: make([][]*big.Int, m.R)}
	for i := range m.A {
		o.A[i] = make([]*big.Int, m.C)
		for j := range m.A[i] {
			o.A[i][j] = new(big.Int).Set(m.A[i][j])
		}
	}
	return o
}

// Equal reports equal modulus, shape and entries.
func (m *Mat) Equal(o *Mat) bool {
	if m.P.Cmp(o.P) != 0 || m.R != o.R || m.C != o.C {
		return false
	}
	for i := range m.A {
		for j := range m.A[i] {
			if m.A[i][j].Cmp(o.A[i][j]) != 0 {
				return false
			}
		}
	}
	return true
}

// Transpose returns the C×R transpose.
func (m *Mat) Transpose() *Mat {
	o := Zero(m.P, m.C, m.R)
	for i := 0; i < m.R; i++ {
		for j := 0; j < m.C; j++ {
			o.A[j][i].Set(m.A[i][j])
		}
	}
	return o
}

// Row returns a copy of row i.
func (m *Mat) Row(i int) []*big.Int { return Vec(m.P, m.A[i]) }

// Col returns a copy of column j.
func (m *Mat) Col(j int) []*big.Int {
	out := make([]*big.Int, m.R)
	for i := range out {
		out[i] = new(big.Int).Set(m.A[i][j])
	}
	return out
}

// SubRows returns the matrix made of the listed rows (in that order; repeats allowed).
func (m *Mat) SubRows(idx ...int) *Mat {
	o := Zero(m.P, len(idx), m.C)
	for k, i := range idx {
		for j := 0; j < m.C; j++ {
			o.A[k][j].Set(m.A[i][j])
		}
	}
	return o
}

// SubCols returns the matrix made of the listed columns.
func (m *Mat) SubCols(idx ...int) *Mat {
	o := Zero(m.P, m.R, len(idx))
	for i := 0; i < m.R; i++ {
		for k, j := range idx {
			o.A[i][k].Set(m.A[i][j])
		}
	}
	return o
}

// Minor returns the matrix with row i and column j removed.
func (m *Mat) Minor(i, j int) (*Mat, error) {
	if i < 0 || i >= m.R || j < 0 || j >= m.C {
		return nil, fmt.Errorf("%w: minor (%d,%d) of %dx%d", ErrShape, i, j, m.R, m.C)
	}
	o := Zero(m.P, m.R-1, m.C-1)
	for a, oa := 0, 0; a < m.R; a++ {
		if a == i {
			continue
		}
		for b, ob := 0, 0; b < m.C; b++ {
			if b == j {
				continue
			}
			o.A[oa][ob].Set(m.A[a][b])
			ob++
		}
		oa++
	}
	return o, nil
}

// Dot returns Σ a[i]·b[i] mod p.
func Dot(p *big.Int, a, b []*big.Int) (*big.Int, error) {
	if len(a) != len(b) {
		return nil, fmt.Errorf("%w: dot of lengths %d and %d", ErrShape, len(a), len(b))
	}
	s := new(big.Int)
	t := new(big.Int)
	for i := range a {
		s.Add(s, t.Mul(a[i], b[i]))
	}
	return s.Mod(s, p), nil
}

// Mul returns m·o.
func (m *Mat) Mul(o *Mat) (*Mat, error) {
	if m.C != o.R || m.P.Cmp(o.P) != 0 {
		return nil, fmt.Errorf("%w: %dx%d times %dx%d", ErrShape, m.R, m.C, o.R, o.C)
	}
	out := Zero(m.P, m.R, o.C)
	t := new(big.Int)
	for i := 0; i < m.R; i++ {
		for j := 0; j < o.C; j++ {
			s := out.A[i][j]
			for k := 0; k < m.C; k++ {
				s.Add(s, t.Mul(m.A[i][k], o.A[k][j]))
			}
			s.Mod(s, m.P)
		}
	}
	return out, nil
}

// MulVec returns m·v (v of length C, result of length R).
func (m *Mat) MulVec(v []*big.Int) ([]*big.Int, error) {
	if len(v) != m.C {
		return nil, fmt.Errorf("%w: %dx%d times vector of length %d", ErrShape, m.R, m.C, len(v))
	}
	rv := Vec(m.P, v)
	out := make([]*big.Int, m.R)
	for i := range out {
		out[i], _ = Dot(m.P, m.A[i], rv)
	}
	return out, nil
}

// VecMul returns v·m (v of length R, result of length C).
func (m *Mat) VecMul(v []*big.Int) ([]*big.Int, error) {
	if len(v) != m.R {
		return nil, fmt.Errorf("%w: vector of length %d times %dx%d", ErrShape, len(v), m.R, m.C)
	}
	return m.Transpose().MulVec(v)
}

// eliminate brings a copy of m into row echelon form (reduced when full is true), looking for
// pivots only in the first limit columns. It returns the reduced matrix, the pivot columns
// (one per pivot row, ascending) and the product of the pivots times the sign of the row
// swaps (meaningful as a determinant factor only when !full).
func (m *Mat) eliminate(limit int, full bool) (*Mat, []int, *big.Int) {
	a := m.Clone()
	p := m.P
	var pivots []int
	scale := big.NewInt(1)
	row := 0
	t := new(big.Int)
	for col := 0; col < limit && row < a.R; col++ {
		pr := -1
		for r := row; r < a.R; r++ {
			if a.A[r][col].Sign() != 0 {
				pr = r
				break
			}
		}
		if pr < 0 {
			continue
		}
		if pr != row {
			a.A[pr], a.A[row] = a.A[row], a.A[pr]
			scale.Neg(scale)
		}
		piv := a.A[row][col]
		scale.Mul(scale, piv).Mod(scale, p)
		inv := new(big.Int).ModInverse(piv, p)
		if inv == nil {
			panic("refmat: modulus is not prime")
		}
		if full {
			for j := col; j < a.C; j++ {
				a.A[row][j].Mul(a.A[row][j], inv).Mod(a.A[row][j], p)
			}
			inv.SetInt64(1)
		}
		from := row + 1
		if full {
			from = 0
		}
		for r := from; r < a.R; r++ {
			if r == row || a.A[r][col].Sign() == 0 {
				continue
			}
			f := new(big.Int).Mul(a.A[r][col], inv)
			f.Mod(f, p)
			for j := col; j < a.C; j++ {
				t.Mul(f, a.A[row][j])
				a.A[r][j].Sub(a.A[r][j], t).Mod(a.A[r][j], p)
			}
		}
		pivots = append(pivots, col)
		row++
	}
	return a, pivots, scale
}

// RREF returns the reduced row echelon form of m and its pivot columns.
func (m *Mat) RREF() (*Mat, []int) {
	a, piv, _ := m.eliminate(m.C, true)
	return a, piv
}

// Rank returns the rank of m (0 for an empty matrix).
func (m *Mat) Rank() int {
	_, piv, _ := m.eliminate(m.C, false)
	return len(piv)
}

// Det returns the determinant; it panics when m is not square. The determinant of the 0×0
// matrix is 1.
func (m *Mat) Det() *big.Int {
	if m.R != m.C {
		panic(fmt.Sprintf("refmat: Det of %dx%d", m.R, m.C))
	}
	_, piv, scale := m.eliminate(m.C, false)
	if len(piv) < m.R {
		return new(big.Int)
	}
	return scale.Mod(scale, m.P)
}

// Inverse returns the inverse of a square matrix; ok is false iff m is singular. It panics
// when m is not square.
func (m *Mat) Inverse() (inv *Mat, ok bool) {
	if m.R != m.C {
		panic(fmt.Sprintf("refmat: Inverse of %dx%d", m.R, m.C))
	}
	n := m.R
	aug := Zero(m.P, n, 2*n)
	for i := 0; i < n; i++ {
		for j := 0; j < n; j++ {
			aug.A[i][j].Set(m.A[i][j])
		}
		aug.A[i][n+i].SetInt64(1)
	}
	red, piv, _ := aug.eliminate(n, true)
	if len(piv) < n {
		return nil, false
	}
	cols := make([]int, n)
	for j := range cols {
		cols[j] = n + j
	}
	return red.SubCols(cols...), true
}

// Nullspace returns a basis of {x : m·x = 0} as the rows of a (C-rank)×C matrix.
func (m *Mat) Nullspace() *Mat {
	r, piv := m.RREF()
	isPiv := make(map[int]int, len(piv))
	for i, c := range piv {
		isPiv[c] = i
	}
	out := Zero(m.P, m.C-len(piv), m.C)
	k := 0
	for free := 0; free < m.C; free++ {
		if _, ok := isPiv[free]; ok {
			continue
		}
		out.A[k][free].SetInt64(1)
		for i, c := range piv {
			out.A[k][c].Neg(r.A[i][free]).Mod(out.A[k][c], m.P)
		}
		k++
	}
	return out
}

// SolveRight finds x (length M.C) with M·x = b (b of length M.R). ok is false iff no solution
// exists. Free variables are set to zero; callers must not rely on which solution is returned.
func SolveRight(m *Mat, b []*big.Int) (x []*big.Int, ok bool, err error) {
	if len(b) != m.R {
		return nil, false, fmt.Errorf("%w: %dx%d system with right-hand side of length %d", ErrShape, m.R, m.C, len(b))
	}
	aug := Zero(m.P, m.R, m.C+1)
	for i := 0; i < m.R; i++ {
		for j := 0; j < m.C; j++ {
			aug.A[i][j].Set(m.A[i][j])
		}
		aug.A[i][m.C].Mod(b[i], m.P)
	}
	r, piv, _ := aug.eliminate(m.C, true)
	for i := len(piv); i < m.R; i++ {
		if r.A[i][m.C].Sign() != 0 {
			return nil, false, nil
		}
	}
	x = make([]*big.Int, m.C)
	for j := range x {
		x[j] = new(big.Int)
	}
	for i, c := range piv {
		x[c].Set(r.A[i][m.C])
	}
	return x, true, nil
}

// SolveLeft finds x (length M.R) with x·M = b (b of length M.C); ok is false iff none exists.
func SolveLeft(m *Mat, b []*big.Int) (x []*big.Int, ok bool, err error) {
	if len(b) != m.C {
		return nil, false, fmt.Errorf("%w: %dx%d system with left right-hand side of length %d", ErrShape, m.R, m.C, len(b))
	}
	return SolveRight(m.Transpose(), b)
}

// IsRightSolution reports M·x = b.
func IsRightSolution(m *Mat, x, b []*big.Int) bool {
	y, err := m.MulVec(x)
	return err == nil && VecEqual(y, Vec(m.P, b))
}

// IsLeftSolution reports x·M = b.
func IsLeftSolution(m *Mat, x, b []*big.Int) bool {
	y, err := m.VecMul(x)
	return err == nil && VecEqual(y, Vec(m.P, b))
}

// ColSpanContains reports whether v (length R) is a linear combination of the columns of m.
// It is decided by a rank comparison, independently of SolveRight's back-substitution.
func (m *Mat) ColSpanContains(v []*big.Int) bool {
	if len(v) != m.R {
		return false
	}
	aug := Zero(m.P, m.R, m.C+1)
	for i := 0; i < m.R; i++ {
		for j := 0; j < m.C; j++ {
			aug.A[i][j].Set(m.A[i][j])
		}
		aug.A[i][m.C].Mod(v[i], m.P)
	}
	return aug.Rank() == m.Rank()
}

// RowSpanContains reports whether v (length C) is a linear combination of the rows of m.
func (m *Mat) RowSpanContains(v []*big.Int) bool {
	if len(v) != m.C {
		return false
	}
	return m.Transpose().ColSpanContains(v)
}

// ---- polynomials --------------------------------------------------------------------------

// PolyEval evaluates Σ coeffs[i]·x^i mod p by Horner's rule (coeffs[0] is the constant term;
// the empty polynomial is 0).
func PolyEval(coeffs []*big.Int, x, p *big.Int) *big.Int {
	acc := new(big.Int)
	for i := len(coeffs) - 1; i >= 0; i-- {
		acc.Mul(acc, x).Add(acc, coeffs[i]).Mod(acc, p)
	}
	return acc
}

// FallingFactorial returns n·(n-1)···(n-k+1) as an integer (1 for k = 0, 0 for k > n).
func FallingFactorial(n, k int) *big.Int {
	out := big.NewInt(1)
	for i := 0; i < k; i++ {
		out.Mul(out, big.NewInt(int64(n-i)))
	}
	return out
}

// PolyDerivative returns the coefficients of the order-th formal derivative mod p:
// coefficient i of the result is coeffs[i+order]·(i+order)!/i!. The result has at least one
// coefficient (the zero polynomial is [0]).
func PolyDerivative(coeffs []*big.Int, order int, p *big.Int) []*big.Int {
	if order < 0 {
		panic("refmat: negative derivative order")
	}
	if len(coeffs) <= order {
		return []*big.Int{new(big.Int)}
	}
	out := make([]*big.Int, len(coeffs)-order)
	for i := range out {
		out[i] = new(big.Int).Mul(coeffs[i+order], FallingFactorial(i+order, order))
		out[i].Mod(out[i], p)
	}
	return out
}

// PolyDerivEval evaluates the order-th formal derivative at x: Σ_{i>=order} coeffs[i]·
// i·(i-1)···(i-order+1)·x^(i-order) mod p. It is computed term by term (not through
// PolyDerivative + Horner) so that the two can cross-check each other.
func PolyDerivEval(coeffs []*big.Int, order int, x, p *big.Int) *big.Int {
	if order < 0 {
		panic("refmat: negative derivative order")
	}
	acc := new(big.Int)
	t := new(big.Int)
	for i := order; i < len(coeffs); i++ {
		t.Exp(x, big.NewInt(int64(i-order)), p)
		t.Mul(t, FallingFactorial(i, order)).Mul(t, coeffs[i])
		acc.Add(acc, t)
	}
	return acc.Mod(acc, p)
}

func distinctMod(nodes []*big.Int, p *big.Int) bool {
	seen := make(map[string]bool, len(nodes))
	for _, n := range nodes {
		k := red(n, p).String()
		if seen[k] {
			return false
		}
		seen[k] = true
	}
	return true
}

// LagrangeBasisAt returns ℓ_i(at) = Π_{j≠i} (at - x_j)/(x_i - x_j) for every node. ok is false
// iff two nodes coincide mod p (the basis is then undefined).
func LagrangeBasisAt(nodes []*big.Int, at, p *big.Int) (basis []*big.Int, ok bool) {
	if !distinctMod(nodes, p) {
		return nil, false
	}
	basis = make([]*big.Int, len(nodes))
	for i := range nodes {
		num, den := big.NewInt(1), big.NewInt(1)
		for j := range nodes {
			if j == i {
				continue
			}
			num.Mul(num, new(big.Int).Sub(at, nodes[j])).Mod(num, p)
			den.Mul(den, new(big.Int).Sub(nodes[i], nodes[j])).Mod(den, p)
		}
		den.ModInverse(den, p)
		basis[i] = num.Mul(num, den).Mod(num, p)
	}
	return basis, true
}

// LagrangeAt returns the value at `at` of the unique polynomial of degree < len(nodes) through
// (nodes[i], values[i]). ok is false iff the nodes are not distinct mod p or the lengths differ.
func LagrangeAt(nodes, values []*big.Int, at, p *big.Int) (v *big.Int, ok bool) {
	if len(nodes) != len(values) {
		return nil, false
	}
	basis, ok := LagrangeBasisAt(nodes, at, p)
	if !ok {
		return nil, false
	}
	v, _ = Dot(p, basis, Vec(p, values))
	return v, true
}

// NewtonInterpolate returns the coefficients (ascending, exactly len(nodes) of them) of the
// unique polynomial of degree < len(nodes) through the points, by divided differences and
// expansion of the Newton form. ok is false iff the nodes are not distinct mod p or the
// lengths differ. It shares no formula with LagrangeAt.
func NewtonInterpolate(nodes, values []*big.Int, p *big.Int) (coeffs []*big.Int, ok bool) {
	n := len(nodes)
	if n != len(values) || !distinctMod(nodes, p) {
		return nil, false
	}
	dd := Vec(p, values)
	for k := 1; k < n; k++ {
		for i := n - 1; i >= k; i-- {
			den := new(big.Int).Sub(nodes[i], nodes[i-k])
			den.Mod(den, p).ModInverse(den, p)
			dd[i].Sub(dd[i], dd[i-1]).Mul(dd[i], den).Mod(dd[i], p)
		}
	}
	// expand dd[0] + dd[1](x-x0) + dd[2](x-x0)(x-x1) + ... from the inside out
	coeffs = make([]*big.Int, n)
	for i := range coeffs {
		coeffs[i] = new(big.Int)
	}
	t := new(big.Int)
	for k := n - 1; k >= 0; k-- {
		// coeffs = coeffs·(x - nodes[k]) + dd[k]
		for i := n - 1; i >= 1; i-- {
			t.Mul(coeffs[i], nodes[k])
			coeffs[i].Sub(coeffs[i-1], t).Mod(coeffs[i], p)
		}
		if n > 0 {
			t.Mul(coeffs[0], nodes[k])
			coeffs[0].Sub(dd[k], t).Mod(coeffs[0], p)
		}
	}
	return coeffs, true
}

// Vandermonde returns the len(nodes)×cols matrix with entry (r, c) = nodes[r]^c (0^0 = 1).
func Vandermonde(p *big.Int, nodes []*big.Int, cols int) *Mat {
	m := Zero(p, len(nodes), cols)
	for r, x := range nodes {
		for c := 0; c < cols; c++ {
			m.A[r][c].Exp(red(x, p), big.NewInt(int64(c)), p)
		}
	}
	return m
}

// Birkhoff returns the generalised Vandermonde matrix of Birkhoff interpolation: row r is the
// js[r]-th derivative of (1, x, x², …, x^(cols-1)) at xs[r], i.e. entry (r, c) =
// c·(c-1)···(c-js[r]+1) · xs[r]^(c-js[r]) for c >= js[r] and 0 otherwise.
func Birkhoff(p *big.Int, xs []*big.Int, js []int, cols int) (*Mat, error) {
	if len(xs) != len(js) {
		return nil, fmt.Errorf("%w: %d nodes, %d derivative orders", ErrShape, len(xs), len(js))
	}
	m := Zero(p, len(xs), cols)
	for r, x := range xs {
		j := js[r]
		if j < 0 {
			return nil, fmt.Errorf("%w: negative derivative order", ErrShape)
		}
		for c := j; c < cols; c++ {
			e := m.A[r][c]
			e.Exp(red(x, p), big.NewInt(int64(c-j)), p)
			e.Mul(e, FallingFactorial(c, j)).Mod(e, p)
		}
	}
	return m, nil
}
