package c20

import (
	"fmt"
	"math/big"
	"slices"
	"strings"
	"testing"

	"pgregory.net/rapid"

	"github.com/bronlabs/bron-crypto/pkg/base/algebra"
	"github.com/bronlabs/bron-crypto/pkg/base/curves/edwards25519"
	"github.com/bronlabs/bron-crypto/pkg/base/curves/k256"
	"github.com/bronlabs/bron-crypto/pkg/base/curves/p256"
	"github.com/bronlabs/bron-crypto/pkg/base/curves/pairable/bls12381"
	"github.com/bronlabs/bron-crypto/pkg/base/curves/pasta"
	"github.com/bronlabs/bron-crypto/pkg/base/mat"
	"verif/harness/vlib/refmat"
)

// C20: every library computation is repeated in vlib/refmat (math/big) on values read out of
// the library objects through Bytes(); results are compared as integers. The group-valued
// ("in the exponent") variants are judged by lifting the *reference* scalar result with the
// library's ScalarBaseOp and comparing points with Equal (the curve arithmetic itself is C14).

// Scalar-field orders typed in from the standards (SEC 2, FIPS 186-4, RFC 8032, the Pasta
// specification, the BLS12-381 specification) — not read from /repo.
const (
	orderK256    = "fffffffffffffffffffffffffffffffebaaedce6af48a03bbfd25e8cd0364141"
	orderP256    = "ffffffff00000000ffffffffffffffffbce6faada7179e84f3b9cac2fc632551"
	orderEd25519 = "1000000000000000000000000000000014def9dea2f79cd65812631a5cf5d3ed"
	orderPallas  = "40000000000000000000000000000000224698fc0994a8dd8c46eb2100000001"
	orderBLS     = "73eda753299d7d483339d80809a1d80553bda402fffe5bfeffffffff00000001"
)

// env ties one scalar field and its prime-order group to the reference modulus.
type env[S algebra.PrimeFieldElement[S], G algebra.PrimeGroupElement[G, S]] struct {
	name  string
	field algebra.PrimeField[S]
	group algebra.PrimeGroup[G, S]
	p     *big.Int
	size  int
	le    bool // Bytes() is little-endian (detected from FromUint64(1).Bytes())
}

func newEnv[S algebra.PrimeFieldElement[S], G algebra.PrimeGroupElement[G, S]](name, orderHex string, f algebra.PrimeField[S], g algebra.PrimeGroup[G, S]) *env[S, G] {
	p, ok := new(big.Int).SetString(orderHex, 16)
	if !ok || !p.ProbablyPrime(32) {
		panic("c20: bad typed-in order for " + name)
	}
	e := &env[S, G]{name: name, field: f, group: g, p: p, size: f.ElementSize()}
	one := f.FromUint64(1).Bytes()
	if len(one) != e.size {
		panic(fmt.Sprintf("c20: %s: Bytes() has %d bytes, ElementSize %d", name, len(one), e.size))
	}
	switch {
	case one[len(one)-1] == 1 && allZero(one[:len(one)-1]):
		e.le = false
	case one[0] == 1 && allZero(one[1:]):
		e.le = true
	default:
		panic(fmt.Sprintf("c20: %s: cannot determine endianness from FromUint64(1).Bytes() = %x", name, one))
	}
	return e
}

func allZero(b []byte) bool {
	for _, x := range b {
		if x != 0 {
			return false
		}
	}
	return true
}

// fe converts a reference value (any integer; reduced mod p) to a library field element.
func (e *env[S, G]) fe(v *big.Int) S {
	b := new(big.Int).Mod(v, e.p).FillBytes(make([]byte, e.size))
	if e.le {
		slices.Reverse(b)
	}
	s, err := e.field.FromBytes(b)
	if err != nil {
		panic(fmt.Sprintf("c20: %s.FromBytes(%x): %v", e.name, b, err))
	}
	return s
}

// bi reads a library field element out as an integer.
func (e *env[S, G]) bi(s S) *big.Int {
	b := slices.Clone(s.Bytes())
	if e.le {
		slices.Reverse(b)
	}
	return new(big.Int).SetBytes(b)
}

func (e *env[S, G]) fes(vs []*big.Int) []S {
	out := make([]S, len(vs))
	for i, v := range vs {
		out[i] = e.fe(v)
	}
	return out
}

func (e *env[S, G]) bis(ss []S) []*big.Int {
	out := make([]*big.Int, len(ss))
	for i, s := range ss {
		out[i] = e.bi(s)
	}
	return out
}

// lift is the reference lift: the library's ScalarBaseOp applied to a reference scalar.
func (e *env[S, G]) lift(v *big.Int) G { return e.group.ScalarBaseOp(e.fe(v)) }

// libMat builds a library matrix from a reference matrix (both dimensions >= 1).
func (e *env[S, G]) libMat(t fataler, m *refmat.Mat) *mat.Matrix[S] {
	mod, err := mat.NewMatrixModule(uint(m.R), uint(m.C), e.field)
	if err != nil {
		t.Fatalf("NewMatrixModule(%d,%d): %v", m.R, m.C, err)
	}
	rows := make([][]S, m.R)
	for i := range rows {
		rows[i] = e.fes(m.A[i])
	}
	out, err := mod.New(rows)
	if err != nil {
		t.Fatalf("MatrixModule(%d,%d).New: %v", m.R, m.C, err)
	}
	return out
}

// libSquare builds a library square matrix from a square reference matrix.
func (e *env[S, G]) libSquare(t fataler, m *refmat.Mat) *mat.SquareMatrix[S] {
	alg, err := mat.NewMatrixAlgebra(uint(m.R), e.field)
	if err != nil {
		t.Fatalf("NewMatrixAlgebra(%d): %v", m.R, err)
	}
	rows := make([][]S, m.R)
	for i := range rows {
		rows[i] = e.fes(m.A[i])
	}
	out, err := alg.New(rows)
	if err != nil {
		t.Fatalf("MatrixAlgebra(%d).New: %v", m.R, err)
	}
	return out
}

type dimGetter[S any] interface {
	Dimensions() (int, int)
	Get(row, col int) (S, error)
}

// refOf reads a library matrix (rectangular or square) out into a reference matrix.
func (e *env[S, G]) refOf(t fataler, m dimGetter[S]) *refmat.Mat {
	r, c := m.Dimensions()
	out := refmat.Zero(e.p, r, c)
	for i := 0; i < r; i++ {
		for j := 0; j < c; j++ {
			v, err := m.Get(i, j)
			if err != nil {
				t.Fatalf("Get(%d,%d) of a %dx%d matrix: %v", i, j, r, c, err)
			}
			out.A[i][j] = e.bi(v)
		}
	}
	return out
}

type fataler interface {
	Helper()
	Fatalf(format string, args ...any)
}

// ---- generators ---------------------------------------------------------------------------

// genScalar draws a field value as an integer in [0,p) together with its class.
func genScalar(t *rapid.T, label string, p *big.Int) (*big.Int, string) {
	switch rapid.IntRange(0, 11).Draw(t, label+".kind") {
	case 0:
		return new(big.Int), "zero"
	case 1:
		return big.NewInt(1), "one"
	case 2:
		return new(big.Int).Sub(p, big.NewInt(1)), "minus-one"
	case 3:
		v := int64(rapid.IntRange(-2, 2).Draw(t, label+".small"))
		return new(big.Int).Mod(big.NewInt(v), p), "pm2"
	case 4:
		return new(big.Int).SetUint64(uint64(rapid.IntRange(0, 1<<16).Draw(t, label+".u16"))), "u16"
	case 5:
		return new(big.Int).SetUint64(rapid.Uint64().Draw(t, label+".u64")), "u64"
	case 6:
		// just below p
		d := int64(rapid.IntRange(1, 1000).Draw(t, label+".below"))
		return new(big.Int).Sub(p, big.NewInt(d)), "near-p"
	default:
		return genUniform(t, label, p), "uniform"
	}
}

// genUniform draws 320 bits and reduces them mod p.
func genUniform(t *rapid.T, label string, p *big.Int) *big.Int {
	v := new(big.Int)
	for i := 0; i < 5; i++ {
		v.Lsh(v, 64)
		v.Or(v, new(big.Int).SetUint64(rapid.Uint64().Draw(t, fmt.Sprintf("%s.w%d", label, i))))
	}
	return v.Mod(v, p)
}

// genSize draws a size parameter (number of nodes / coefficients / rows / columns). Normally it
// is lo..hi, the range the quick tier is budgeted for; one draw in oneIn takes a value from tail
// instead. The library (mat, polynomials, lagrange, vandermonde, birkhoff) imposes no upper
// limit on any of these sizes (only >= 1), so the tails reach past the small range: 9..17 are
// the party counts of larger deployments, 12/13 straddle the insertion-sort cut-off of sort.Sort
// (birkhoff SortNodes), 15..17 / 31..33 / 63..65 straddle the bit lengths of the native
// multiplier in Polynomial.Derivative (algebrautils.ScalarMulNative(coeff, uint64(i))).
func genSize(t *rapid.T, label string, lo, hi, oneIn int, tail []int) int {
	if rapid.IntRange(1, oneIn).Draw(t, label+".tail") == oneIn {
		return rapid.SampledFrom(tail).Draw(t, label+".big")
	}
	return rapid.IntRange(lo, hi).Draw(t, label)
}

// matDimTail: matrix dimensions above the usual 1..7 (pure field arithmetic, O(n^3) in the
// library and in refmat alike, so still cheap).
var matDimTail = []int{8, 9, 12, 13, 16, 17, 24}

func genVec(t *rapid.T, label string, p *big.Int, n int) []*big.Int {
	out := make([]*big.Int, n)
	for i := range out {
		out[i], _ = genScalar(t, fmt.Sprintf("%s[%d]", label, i), p)
	}
	return out
}

// genEntries fills an r×c matrix in one of three entry styles.
func genEntries(t *rapid.T, label string, p *big.Int, r, c int, style string) *refmat.Mat {
	m := refmat.Zero(p, r, c)
	for i := 0; i < r; i++ {
		for j := 0; j < c; j++ {
			l := fmt.Sprintf("%s[%d,%d]", label, i, j)
			switch style {
			case "tiny":
				m.A[i][j].Mod(big.NewInt(int64(rapid.IntRange(-2, 2).Draw(t, l))), p)
			case "uniform":
				m.A[i][j] = genUniform(t, l, p)
			default:
				m.A[i][j], _ = genScalar(t, l, p)
			}
		}
	}
	return m
}

// genMatrix draws an r×c matrix with a constructed rank. The returned class names the
// construction; the actual rank is computed by the caller with refmat.
func genMatrix(t *rapid.T, label string, p *big.Int, r, c int) (*refmat.Mat, string) {
	var m *refmat.Mat
	var class string
	switch rapid.IntRange(0, 11).Draw(t, label+".how") {
	case 0:
		m, class = genEntries(t, label, p, r, c, "uniform"), "uniform"
	case 1:
		m, class = genEntries(t, label, p, r, c, "mixed"), "mixed"
	case 2, 3:
		m, class = genEntries(t, label, p, r, c, "tiny"), "tiny"
	case 4:
		m, class = refmat.Zero(p, r, c), "zero"
	default:
		// product of an r×k and a k×c factor: rank <= k; k = 0 is rare, k = min(r,c) common
		k := min(r, c)
		if k > 1 && rapid.IntRange(0, 3).Draw(t, label+".deficient") > 0 {
			k = rapid.IntRange(1, k-1).Draw(t, label+".k")
		} else if rapid.IntRange(0, 19).Draw(t, label+".k0") == 0 {
			k = 0
		}
		style := rapid.SampledFrom([]string{"tiny", "uniform", "mixed"}).Draw(t, label+".style")
		u := genEntries(t, label+".U", p, r, k, style)
		v := genEntries(t, label+".V", p, k, c, style)
		var err error
		m, err = u.Mul(v)
		if err != nil {
			t.Fatalf("harness: %v", err)
		}
		class = "product-" + style
	}
	// structural edits that create dependent rows / columns
	nEdits := rapid.IntRange(0, 2).Draw(t, label+".edits")
	for e := 0; e < nEdits; e++ {
		l := fmt.Sprintf("%s.edit%d", label, e)
		switch rapid.SampledFrom([]string{"dup-row", "zero-row", "dup-col", "zero-col", "scaled-row", "swap-rows", "lead-zero"}).Draw(t, l) {
		case "dup-row":
			if r > 1 {
				i, j := rapid.IntRange(0, r-1).Draw(t, l+".i"), rapid.IntRange(0, r-1).Draw(t, l+".j")
				for x := 0; x < c; x++ {
					m.A[i][x].Set(m.A[j][x])
				}
				class += "+dup-row"
			}
		case "zero-row":
			i := rapid.IntRange(0, r-1).Draw(t, l+".i")
			for x := 0; x < c; x++ {
				m.A[i][x].SetInt64(0)
			}
			class += "+zero-row"
		case "dup-col":
			if c > 1 {
				i, j := rapid.IntRange(0, c-1).Draw(t, l+".i"), rapid.IntRange(0, c-1).Draw(t, l+".j")
				for x := 0; x < r; x++ {
					m.A[x][i].Set(m.A[x][j])
				}
				class += "+dup-col"
			}
		case "zero-col":
			i := rapid.IntRange(0, c-1).Draw(t, l+".i")
			for x := 0; x < r; x++ {
				m.A[x][i].SetInt64(0)
			}
			class += "+zero-col"
		case "scaled-row":
			if r > 1 {
				i, j := rapid.IntRange(0, r-1).Draw(t, l+".i"), rapid.IntRange(0, r-1).Draw(t, l+".j")
				k := genUniform(t, l+".k", p)
				for x := 0; x < c; x++ {
					m.A[i][x].Mul(m.A[j][x], k).Mod(m.A[i][x], p)
				}
				class += "+scaled-row"
			}
		case "swap-rows":
			if r > 1 {
				i, j := rapid.IntRange(0, r-1).Draw(t, l+".i"), rapid.IntRange(0, r-1).Draw(t, l+".j")
				m.A[i], m.A[j] = m.A[j], m.A[i]
				class += "+swap-rows"
			}
		case "lead-zero":
			// zero the top-left entry so that the first pivot needs a row exchange
			m.A[0][0].SetInt64(0)
			class += "+lead-zero"
		}
	}
	return m, class
}

// rankClass names the shape/rank situation of an r×c system of rank k.
func rankClass(r, c, k int) string {
	switch {
	case k == 0:
		return "rank0"
	case k < min(r, c):
		return "deficient"
	case r == c:
		return "full-square"
	case r < c:
		return "full-underdetermined"
	default:
		return "full-overdetermined"
	}
}

func shapeClass(r, c int) string {
	switch {
	case r == c:
		return "square"
	case r < c:
		return "wide"
	default:
		return "tall"
	}
}

func fmtVec(v []*big.Int) string {
	ss := make([]string, len(v))
	for i, x := range v {
		ss[i] = x.Text(16)
	}
	return "[" + strings.Join(ss, " ") + "]"
}

func fmtMat(m *refmat.Mat) string {
	ss := make([]string, m.R)
	for i := range ss {
		ss[i] = fmtVec(m.A[i])
	}
	return fmt.Sprintf("%dx%d[%s]", m.R, m.C, strings.Join(ss, "; "))
}

// ---- the five field/group pairs -----------------------------------------------------------

// suite is the type-erased view of env used to pick a field with a rapid draw.
type suite interface {
	Name() string
	FieldBridge(t *rapid.T)
	PolyEval(t *rapid.T)
	Lagrange(t *rapid.T)
	Vandermonde(t *rapid.T)
	Birkhoff(t *rapid.T)
	Solve(t *rapid.T)
	Square(t *rapid.T)
	Rect(t *rapid.T)
	Lift(t *rapid.T)
	Dims(t *rapid.T)
	BirkhoffSingleNodeInExponent(t *testing.T)
}

func (e *env[S, G]) Name() string { return e.name }

var suites = []suite{
	newEnv("k256", orderK256, k256.NewScalarField(), k256.NewCurve()),
	newEnv("p256", orderP256, p256.NewScalarField(), p256.NewCurve()),
	newEnv("edwards25519", orderEd25519, edwards25519.NewScalarField(), edwards25519.NewPrimeSubGroup()),
	newEnv("pallas", orderPallas, pasta.NewPallasScalarField(), pasta.NewPallasCurve()),
	newEnv("bls12381", orderBLS, bls12381.NewScalarField(), bls12381.NewG1()),
}

func drawSuite(t *rapid.T) suite {
	return suites[rapid.IntRange(0, len(suites)-1).Draw(t, "field")]
}
