package c20

import (
	"fmt"
	"math/big"
	"testing"

	"pgregory.net/rapid"

	"github.com/bronlabs/bron-crypto/pkg/base/mat"
	"verif/harness/vlib"
	"verif/harness/vlib/refmat"
)

// ---- SolveRight / SolveLeft ---------------------------------------------------------------

// genRHS draws a right-hand side of length len for the system (right: M·x = b, b in F^R; left:
// x·M = b, b in F^C). "inside" is M·x0 (resp. x0·M) for a drawn x0, "outside" adds a drawn
// perturbation to it; whether the result really lies in the span is decided by refmat.
func genRHS(t *rapid.T, p *big.Int, m *refmat.Mat, left bool) ([]*big.Int, string) {
	n, other := m.R, m.C
	if left {
		n, other = m.C, m.R
	}
	inside := func(label string) []*big.Int {
		x0 := genVec(t, label, p, other)
		var b []*big.Int
		var err error
		if left {
			b, err = m.VecMul(x0)
		} else {
			b, err = m.MulVec(x0)
		}
		if err != nil {
			t.Fatalf("harness: %v", err)
		}
		return b
	}
	switch rapid.IntRange(0, 9).Draw(t, "rhsKind") {
	case 0:
		return refmat.Zero(p, 1, n).A[0], "zero"
	case 1, 2, 3:
		return inside("x0"), "inside"
	case 4, 5, 6, 7:
		b := inside("x0")
		// perturb one or several coordinates
		k := rapid.IntRange(1, n).Draw(t, "perturbCount")
		for c := 0; c < k; c++ {
			i := rapid.IntRange(0, n-1).Draw(t, fmt.Sprintf("perturbAt%d", c))
			d, _ := genScalar(t, fmt.Sprintf("perturb%d", c), p)
			b[i].Add(b[i], d).Mod(b[i], p)
		}
		return b, "perturbed"
	case 8:
		// a unit vector
		b := refmat.Zero(p, 1, n).A[0]
		b[rapid.IntRange(0, n-1).Draw(t, "unit")].SetInt64(1)
		return b, "unit"
	default:
		return genVec(t, "b", p, n), "drawn"
	}
}

func (e *env[S, G]) Solve(t *rapid.T) {
	const test = "Solve"
	left := rapid.Bool().Draw(t, "left")
	r := genSize(t, "rows", 1, 7, 25, matDimTail)
	c := r
	if rapid.IntRange(0, 4).Draw(t, "nonSquare") > 0 {
		c = genSize(t, "cols", 1, 7, 25, matDimTail)
	}
	M, mc := genMatrix(t, "M", e.p, r, c)
	b, bc := genRHS(t, e.p, M, left)
	rank := M.Rank()
	op := "SolveRight"
	if left {
		op = "SolveLeft"
	}
	in := func() string {
		return fmt.Sprintf("%s: %s M=%s b=%s (rank %d)", e.name, op, fmtMat(M), fmtVec(b), rank)
	}

	// oracle: solvable iff b lies in the column (row) span — decided by rank comparison and,
	// independently, by the reference elimination; the two must agree
	var want bool
	var refSol []*big.Int
	var err error
	if left {
		want = M.RowSpanContains(b)
		refSol, _, err = refmat.SolveLeft(M, b)
	} else {
		want = M.ColSpanContains(b)
		refSol, _, err = refmat.SolveRight(M, b)
	}
	if err != nil || (refSol != nil) != want {
		t.Fatalf("harness: reference span test %v and reference solver %v/%v disagree: %s", want, refSol != nil, err, in())
	}

	lm := e.libMat(t, M)
	var sol *mat.Matrix[S]
	if left {
		sol, err = mat.SolveLeft(lm, e.libMat(t, &refmat.Mat{P: e.p, R: 1, C: c, A: [][]*big.Int{b}}))
	} else {
		col := refmat.Zero(e.p, r, 1)
		for i := range b {
			col.A[i][0].Set(b[i])
		}
		sol, err = mat.SolveRight(lm, e.libMat(t, col))
	}
	switch {
	case want && err != nil:
		t.Fatalf("%s reports no solution (%v) but %s solves the system: %s", op, firstLine(err.Error()), fmtVec(refSol), in())
	case !want && err == nil:
		t.Fatalf("%s returned %s for a system without a solution: %s", op, fmtMat(e.refOf(t, sol)), in())
	case err == nil:
		got := e.refOf(t, sol)
		unknowns := c
		if left {
			unknowns = r
		}
		// documented result shape: an (unknowns)×1 column in both directions
		if got.R != unknowns || got.C != 1 {
			t.Fatalf("%s returned a %dx%d matrix, documented is %dx1: %s", op, got.R, got.C, unknowns, in())
		}
		x := got.Col(0)
		ok := refmat.IsRightSolution(M, x, b)
		if left {
			ok = refmat.IsLeftSolution(M, x, b)
		}
		if !ok {
			t.Fatalf("%s returned %s which does not satisfy the equation: %s", op, fmtVec(x), in())
		}
	}
	// mat/doc.go: operations without the Assign suffix are the immutable variants
	if !e.refOf(t, lm).Equal(M) {
		t.Fatalf("%s modified its matrix argument: %s", op, in())
	}
	rc := rankClass(r, c, rank)
	cons := "inconsistent"
	if want {
		cons = "consistent"
	}
	nt := r+c >= 3
	vlib.Case(test, vlib.Desc(e.name, op, r, c, rc, cons), nt,
		"field="+e.name, "op="+op, "shape="+shapeClass(r, c), "rank="+rc, cons, "rhs="+bc, "rhs="+bc+"/"+cons, "gen="+mc, fmt.Sprintf("dims=%dx%d", r, c))
	vlib.Sample("solve-"+cons, map[string]any{"field": e.name, "op": op, "M": fmtMat(M), "b": fmtVec(b), "rank": rank, "solvable": want})
}

func TestSolve(t *testing.T) {
	vlib.Check(t, 8000, func(t *rapid.T) { drawSuite(t).Solve(t) })
}

// ---- square matrices: determinant, inverse, product, transpose, minor ------------------------

func (e *env[S, G]) Square(t *rapid.T) {
	const test = "Square"
	n := genSize(t, "n", 1, 7, 25, matDimTail)
	A, ac := genMatrix(t, "A", e.p, n, n)
	la := e.libSquare(t, A)
	in := func() string { return fmt.Sprintf("%s: A=%s", e.name, fmtMat(A)) }

	det := A.Det()
	if got := e.bi(la.Determinant()); got.Cmp(det) != 0 {
		t.Fatalf("Determinant = %x want %x: %s", got, det, in())
	}
	inv, err := la.TryInv()
	wantInv, regular := A.Inverse()
	switch {
	case regular && err != nil:
		t.Fatalf("TryInv fails (%v) on a matrix of determinant %x: %s", firstLine(err.Error()), det, in())
	case !regular && err == nil:
		t.Fatalf("TryInv returned %s for a singular matrix: %s", fmtMat(e.refOf(t, inv)), in())
	case regular:
		if got := e.refOf(t, inv); !got.Equal(wantInv) {
			t.Fatalf("TryInv = %s want %s: %s", fmtMat(got), fmtMat(wantInv), in())
		}
	}
	if !e.refOf(t, la).Equal(A) {
		t.Fatalf("Determinant/TryInv modified the receiver: %s", in())
	}
	// product with a second matrix, both orders
	B, _ := genMatrix(t, "B", e.p, n, n)
	lb := e.libSquare(t, B)
	for _, o := range []struct {
		name   string
		l, r   *mat.SquareMatrix[S]
		rl, rr *refmat.Mat
	}{{"A·B", la, lb, A, B}, {"B·A", lb, la, B, A}} {
		want, _ := o.rl.Mul(o.rr)
		got, err := o.l.TryMul(o.r)
		if err != nil {
			t.Fatalf("TryMul(%s) on equal dimensions: %v: %s B=%s", o.name, err, in(), fmtMat(B))
		}
		if g := e.refOf(t, got); !g.Equal(want) {
			t.Fatalf("TryMul(%s) = %s want %s: %s B=%s", o.name, fmtMat(g), fmtMat(want), in(), fmtMat(B))
		}
	}
	if got := e.refOf(t, la.Transpose()); !got.Equal(A.Transpose()) {
		t.Fatalf("Transpose = %s: %s", fmtMat(got), in())
	}
	i, j := rapid.IntRange(0, n-1).Draw(t, "minorRow"), rapid.IntRange(0, n-1).Draw(t, "minorCol")
	mn, err := la.Minor(i, j)
	if n == 1 {
		// documented: "minor is undefined" for a 1×1 matrix (the library has no 0×0 matrices)
		if err == nil {
			t.Fatalf("Minor of a 1x1 matrix returned %s", fmtMat(e.refOf(t, mn)))
		}
	} else {
		want, _ := A.Minor(i, j)
		if err != nil {
			t.Fatalf("Minor(%d,%d): %v: %s", i, j, err, in())
		}
		if got := e.refOf(t, mn); !got.Equal(want) {
			t.Fatalf("Minor(%d,%d) = %s want %s: %s", i, j, fmtMat(got), fmtMat(want), in())
		}
		// the cofactor is what birkhoff.InterpolateInExponent uses
		if got, want := e.bi(mn.Determinant()), want.Det(); got.Cmp(want) != 0 {
			t.Fatalf("Minor(%d,%d).Determinant() = %x want %x: %s", i, j, got, want, in())
		}
	}
	rc := "regular"
	if !regular {
		rc = rankClass(n, n, A.Rank())
	}
	vlib.Case(test, vlib.Desc(e.name, n, rc), n >= 2, "field="+e.name, fmt.Sprintf("n=%d", n), "rank="+rc, "gen="+ac)
	vlib.Sample("square-"+rc, map[string]any{"field": e.name, "A": fmtMat(A), "det": det.Text(16)})
}

func TestSquare(t *testing.T) {
	vlib.Check(t, 3000, func(t *rapid.T) { drawSuite(t).Square(t) })
}

// ---- rectangular matrices: product, transpose, minor, augment, stack ------------------------

func (e *env[S, G]) Rect(t *rapid.T) {
	const test = "Rect"
	r := genSize(t, "r", 1, 7, 30, matDimTail)
	k := genSize(t, "k", 1, 7, 30, matDimTail)
	c := genSize(t, "c", 1, 7, 30, matDimTail)
	k2 := k
	if rapid.IntRange(0, 3).Draw(t, "mismatch") == 0 {
		k2 = genSize(t, "k2", 1, 7, 30, matDimTail)
	}
	A, _ := genMatrix(t, "A", e.p, r, k)
	B, _ := genMatrix(t, "B", e.p, k2, c)
	la, lb := e.libMat(t, A), e.libMat(t, B)
	in := func() string { return fmt.Sprintf("%s: A=%s B=%s", e.name, fmtMat(A), fmtMat(B)) }

	var prod *mat.Matrix[S]
	var err error
	vlib.NoPanic(t, "TryMul "+in(), func() { prod, err = la.TryMul(lb) })
	want, refErr := A.Mul(B)
	switch {
	case refErr != nil && err == nil:
		t.Fatalf("TryMul of %dx%d and %dx%d returned %s without an error", r, k, k2, c, fmtMat(e.refOf(t, prod)))
	case refErr == nil && err != nil:
		t.Fatalf("TryMul on fitting dimensions: %v: %s", err, in())
	case refErr == nil:
		if got := e.refOf(t, prod); !got.Equal(want) {
			t.Fatalf("TryMul = %s want %s: %s", fmtMat(got), fmtMat(want), in())
		}
	}
	if got := e.refOf(t, la.Transpose()); !got.Equal(A.Transpose()) {
		t.Fatalf("Transpose = %s: %s", fmtMat(got), in())
	}
	// Augment [A | B'] needs equal row counts, Stack [A ; B'] equal column counts
	var aug, stk *mat.Matrix[S]
	var augErr, stkErr error
	vlib.NoPanic(t, "Augment "+in(), func() { aug, augErr = la.Augment(lb) })
	vlib.NoPanic(t, "Stack "+in(), func() { stk, stkErr = la.Stack(lb) })
	if (augErr == nil) != (r == k2) {
		t.Fatalf("Augment of %dx%d with %dx%d: err=%v", r, k, k2, c, augErr)
	}
	if augErr == nil {
		got := e.refOf(t, aug)
		if got.R != r || got.C != k+c || !got.SubCols(seq(k)...).Equal(A) || !got.SubCols(seqFrom(k, c)...).Equal(B) {
			t.Fatalf("Augment = %s: %s", fmtMat(got), in())
		}
	}
	if (stkErr == nil) != (k == c) {
		t.Fatalf("Stack of %dx%d with %dx%d: err=%v", r, k, k2, c, stkErr)
	}
	if stkErr == nil {
		got := e.refOf(t, stk)
		if got.R != r+k2 || got.C != k || !got.SubRows(seq(r)...).Equal(A) || !got.SubRows(seqFrom(r, k2)...).Equal(B) {
			t.Fatalf("Stack = %s: %s", fmtMat(got), in())
		}
	}
	// Minor with in- and out-of-range indices
	i, j := rapid.IntRange(-1, r).Draw(t, "minorRow"), rapid.IntRange(-1, k).Draw(t, "minorCol")
	var mn *mat.Matrix[S]
	vlib.NoPanic(t, "Minor "+in(), func() { mn, err = la.Minor(i, j) })
	if wantMinor, refErr := A.Minor(i, j); refErr != nil || r == 1 || k == 1 {
		if err == nil {
			t.Fatalf("Minor(%d,%d) of a %dx%d matrix returned %s", i, j, r, k, fmtMat(e.refOf(t, mn)))
		}
	} else if err != nil || !e.refOf(t, mn).Equal(wantMinor) {
		t.Fatalf("Minor(%d,%d) = %v (err %v) want %s: %s", i, j, mn, err, fmtMat(wantMinor), in())
	}
	// AsSquare
	sq, err := la.AsSquare()
	if (err == nil) != (r == k) {
		t.Fatalf("AsSquare of a %dx%d matrix: err=%v", r, k, err)
	}
	if err == nil {
		if got, want := e.bi(sq.Determinant()), A.Det(); got.Cmp(want) != 0 {
			t.Fatalf("AsSquare().Determinant() = %x want %x: %s", got, want, in())
		}
	}
	mm := "fit"
	if k != k2 {
		mm = "mismatch"
	}
	vlib.Case(test, vlib.Desc(e.name, r, k, k2, c), r*k*c > 1, "field="+e.name, "mul="+mm, "shapeA="+shapeClass(r, k), "shapeB="+shapeClass(k2, c))
}

func seqFrom(from, n int) []int {
	out := make([]int, n)
	for i := range out {
		out[i] = from + i
	}
	return out
}

func TestRect(t *testing.T) {
	vlib.Check(t, 2000, func(t *rapid.T) { drawSuite(t).Rect(t) })
}

// ---- Lift, LeftAction, RightAction commute with the reference lift ---------------------------

func (e *env[S, G]) checkLifted(t *rapid.T, what string, got *mat.ModuleValuedMatrix[G, S], want *refmat.Mat, k *big.Int) {
	r, c := got.Dimensions()
	if r != want.R || c != want.C {
		t.Fatalf("%s has shape %dx%d want %dx%d", what, r, c, want.R, want.C)
	}
	for i := 0; i < r; i++ {
		for j := 0; j < c; j++ {
			pt, err := got.Get(i, j)
			if err != nil {
				t.Fatalf("%s.Get(%d,%d): %v", what, i, j, err)
			}
			w := new(big.Int).Mul(k, want.A[i][j])
			if !pt.Equal(e.lift(w)) {
				t.Fatalf("%s entry (%d,%d) != lift(%x·%x)", what, i, j, k, want.A[i][j])
			}
		}
	}
}

func (e *env[S, G]) Lift(t *rapid.T) {
	const test = "Lift"
	r := rapid.IntRange(1, 4).Draw(t, "r")
	k := rapid.IntRange(1, 4).Draw(t, "k")
	c := rapid.IntRange(1, 4).Draw(t, "c")
	// tail: one of the three dimensions is long (the library has no limit; every entry of the
	// result is a sum of k group scalar multiplications, so only ONE dimension grows and the other
	// two stay <= 2 to keep the number of group operations of a case below ~100)
	if rapid.IntRange(1, 25).Draw(t, "long") == 25 {
		long := rapid.SampledFrom([]int{5, 8, 9, 16, 17}).Draw(t, "longDim")
		r, k, c = rapid.IntRange(1, 2).Draw(t, "r'"), rapid.IntRange(1, 2).Draw(t, "k'"), rapid.IntRange(1, 2).Draw(t, "c'")
		switch rapid.SampledFrom([]string{"r", "k", "k", "c"}).Draw(t, "which") {
		case "r":
			r = long
		case "k":
			k = long // length of the inner sums of LeftAction / rows of the lifted operand
		default:
			c = long
		}
	}
	A, _ := genMatrix(t, "A", e.p, r, k) // scalar actor
	X, _ := genMatrix(t, "X", e.p, k, c) // lifted operand
	s, sc := big.NewInt(1), "G"
	if rapid.Bool().Draw(t, "otherBase") {
		s, sc = genUniform(t, "s", e.p), "sG"
	}
	base := e.lift(s)
	in := func() string { return fmt.Sprintf("%s: A=%s X=%s base=%x·G", e.name, fmtMat(A), fmtMat(X), s) }

	lx, err := mat.Lift(e.libMat(t, X), base)
	if err != nil {
		t.Fatalf("Lift: %v: %s", err, in())
	}
	e.checkLifted(t, "Lift(X) "+in(), lx, X, s)

	dir := rapid.SampledFrom([]string{"left", "right", "left-mismatch", "right-mismatch"}).Draw(t, "dir")
	switch dir {
	case "left":
		got, err := mat.LeftAction(e.libMat(t, A), lx)
		if err != nil {
			t.Fatalf("LeftAction: %v: %s", err, in())
		}
		want, _ := A.Mul(X)
		e.checkLifted(t, "LeftAction(A, Lift(X)) "+in(), got, want, s)
	case "right":
		// X is k×c, so the actor must have c rows
		Act, _ := genMatrix(t, "Act", e.p, c, r)
		got, err := mat.RightAction(lx, e.libMat(t, Act))
		if err != nil {
			t.Fatalf("RightAction: %v: %s Act=%s", err, in(), fmtMat(Act))
		}
		want, _ := X.Mul(Act)
		e.checkLifted(t, "RightAction(Lift(X), Act) "+in()+" Act="+fmtMat(Act), got, want, s)
	case "left-mismatch":
		k2 := rapid.IntRange(1, 5).Filter(func(v int) bool { return v != k }).Draw(t, "k2")
		Bad, _ := genMatrix(t, "Bad", e.p, r, k2)
		var err error
		vlib.NoPanic(t, "LeftAction with mismatched dimensions", func() { _, err = mat.LeftAction(e.libMat(t, Bad), lx) })
		if err == nil {
			t.Fatalf("LeftAction of a %dx%d actor on a %dx%d matrix returned no error", r, k2, k, c)
		}
	case "right-mismatch":
		c2 := rapid.IntRange(1, 5).Filter(func(v int) bool { return v != c }).Draw(t, "c2")
		Bad, _ := genMatrix(t, "Bad", e.p, c2, r)
		var err error
		vlib.NoPanic(t, "RightAction with mismatched dimensions", func() { _, err = mat.RightAction(lx, e.libMat(t, Bad)) })
		if err == nil {
			t.Fatalf("RightAction of a %dx%d matrix with a %dx%d actor returned no error", k, c, c2, r)
		}
	}
	vlib.Case(test, vlib.Desc(e.name, dir, r, k, c, sc), true, "field="+e.name, "dir="+dir, "base="+sc, fmt.Sprintf("dims=%dx%dx%d", r, k, c))
}

func TestLift(t *testing.T) {
	vlib.Check(t, 1200, func(t *rapid.T) { drawSuite(t).Lift(t) })
}

// ---- dimension mismatches are errors, never panics -----------------------------------------

func (e *env[S, G]) Dims(t *rapid.T) {
	const test = "Dims"
	r := rapid.IntRange(0, 7).Draw(t, "r")
	c := rapid.IntRange(0, 7).Draw(t, "c")
	op := rapid.SampledFrom([]string{"module-zero-dim", "algebra-zero-dim", "new-ragged", "new-rowcount", "rowmajor-count",
		"solve-right-shape", "solve-left-shape", "mv-module-zero-dim", "get-out-of-range", "vandermonde-empty", "square-new-nonsquare"}).Draw(t, "op")
	var err error
	must := true // an error is required
	what := op
	vlib.NoPanic(t, op, func() {
		switch op {
		case "module-zero-dim":
			_, err = mat.NewMatrixModule(uint(r), uint(c), e.field)
			must = r == 0 || c == 0
			what = fmt.Sprintf("NewMatrixModule(%d,%d)", r, c)
		case "algebra-zero-dim":
			_, err = mat.NewMatrixAlgebra(uint(r), e.field)
			must = r == 0
			what = fmt.Sprintf("NewMatrixAlgebra(%d)", r)
		case "mv-module-zero-dim":
			_, err = mat.NewModuleValuedMatrixModule(uint(r), uint(c), e.group)
			must = r == 0 || c == 0
			what = fmt.Sprintf("NewModuleValuedMatrixModule(%d,%d)", r, c)
		case "new-ragged", "new-rowcount", "rowmajor-count", "square-new-nonsquare":
			rr, cc := max(r, 1), max(c, 1)
			rows := make([][]S, rr)
			for i := range rows {
				rows[i] = e.fes(genVec(t, fmt.Sprintf("row%d", i), e.p, cc))
			}
			mod, e2 := mat.NewMatrixModule(uint(rr), uint(cc), e.field)
			if e2 != nil {
				t.Fatalf("NewMatrixModule(%d,%d): %v", rr, cc, e2)
			}
			switch op {
			case "new-ragged":
				i := rapid.IntRange(0, rr-1).Draw(t, "raggedRow")
				if rapid.Bool().Draw(t, "longer") {
					rows[i] = append(rows[i], e.field.One())
				} else {
					rows[i] = rows[i][:cc-1]
				}
				_, err = mod.New(rows)
				what = fmt.Sprintf("MatrixModule(%d,%d).New with row %d of length %d", rr, cc, i, len(rows[i]))
			case "new-rowcount":
				if rapid.Bool().Draw(t, "more") {
					rows = append(rows, rows[0])
				} else {
					rows = rows[:rr-1]
				}
				_, err = mod.New(rows)
				what = fmt.Sprintf("MatrixModule(%d,%d).New with %d rows", rr, cc, len(rows))
			case "rowmajor-count":
				flat := e.fes(genVec(t, "flat", e.p, rapid.IntRange(0, rr*cc+3).Filter(func(v int) bool { return v != rr*cc }).Draw(t, "count")))
				_, err = mod.NewRowMajor(flat...)
				what = fmt.Sprintf("MatrixModule(%d,%d).NewRowMajor with %d elements", rr, cc, len(flat))
			case "square-new-nonsquare":
				alg, e2 := mat.NewMatrixAlgebra(uint(rr), e.field)
				if e2 != nil {
					t.Fatalf("NewMatrixAlgebra(%d): %v", rr, e2)
				}
				_, err = alg.New(rows)
				must = rr != cc
				what = fmt.Sprintf("MatrixAlgebra(%d).New with %dx%d rows", rr, rr, cc)
			}
		case "solve-right-shape", "solve-left-shape":
			rr, cc := max(r, 1), max(c, 1)
			M, _ := genMatrix(t, "M", e.p, rr, cc)
			br := rapid.IntRange(1, 7).Draw(t, "bRows")
			bcs := rapid.IntRange(1, 7).Draw(t, "bCols")
			Bv, _ := genMatrix(t, "b", e.p, br, bcs)
			if op == "solve-right-shape" {
				_, err = mat.SolveRight(e.libMat(t, M), e.libMat(t, Bv))
				must = !(bcs == 1 && br == rr)
				what = fmt.Sprintf("SolveRight(%dx%d, %dx%d)", rr, cc, br, bcs)
			} else {
				_, err = mat.SolveLeft(e.libMat(t, M), e.libMat(t, Bv))
				must = !(br == 1 && bcs == cc)
				what = fmt.Sprintf("SolveLeft(%dx%d, %dx%d)", rr, cc, br, bcs)
			}
			if !must {
				err = nil // solvability of well-shaped systems is judged by Solve
			}
		case "get-out-of-range":
			rr, cc := max(r, 1), max(c, 1)
			M, _ := genMatrix(t, "M", e.p, rr, cc)
			i, j := rapid.IntRange(-2, rr+1).Draw(t, "i"), rapid.IntRange(-2, cc+1).Draw(t, "j")
			lm := e.libMat(t, M)
			_, err = lm.Get(i, j)
			must = i < 0 || i >= rr || j < 0 || j >= cc
			what = fmt.Sprintf("Get(%d,%d) on %dx%d", i, j, rr, cc)
			if _, e2 := lm.GetRow(i); (e2 != nil) != (i < 0 || i >= rr) {
				t.Fatalf("GetRow(%d) on %dx%d: err=%v", i, rr, cc, e2)
			}
			if _, e2 := lm.GetColumn(j); (e2 != nil) != (j < 0 || j >= cc) {
				t.Fatalf("GetColumn(%d) on %dx%d: err=%v", j, rr, cc, e2)
			}
		case "vandermonde-empty":
			// vandermonde.Interpolate / BuildVandermondeMatrix on empty input: tested through the Vandermonde suite's API
			err = e.vandermondeEmpty(c)
			what = "vandermonde with no nodes / no columns"
		}
	})
	if must && err == nil {
		t.Fatalf("%s: %s returned no error", e.name, what)
	}
	if !must && err != nil {
		t.Fatalf("%s: %s failed on valid dimensions: %v", e.name, what, err)
	}
	vlib.Case(test, vlib.Desc(e.name, op, must), must, "field="+e.name, "op="+op, fmt.Sprintf("mustErr=%v", must))
}

func TestDims(t *testing.T) {
	vlib.Check(t, 1000, func(t *rapid.T) { drawSuite(t).Dims(t) })
}
