package c20

import (
	"fmt"
	"math/big"
	"testing"

	"pgregory.net/rapid"

	"github.com/bronlabs/bron-crypto/pkg/base/polynomials"
	"verif/harness/vlib"
	"verif/harness/vlib/refmat"
)

// ---- the bridge between library field elements and integers ---------------------------------

// TestFieldOrders pins the typed-in orders against what the library reports (plain test: a
// mismatch means every oracle below would judge in the wrong field).
func TestFieldOrders(t *testing.T) {
	for _, s := range suites {
		s.(interface{ checkOrder(t *testing.T) }).checkOrder(t)
	}
}

func (e *env[S, G]) checkOrder(t *testing.T) {
	if got := e.field.Order().Big(); got.Cmp(e.p) != 0 {
		t.Fatalf("%s: library field order %x, standard says %x", e.name, got, e.p)
	}
	if e.le {
		vlib.Note(e.name + ": scalar Bytes() is little-endian")
	}
}

// FieldBridge: conversion round trips and the four field operations against math/big. This is
// the trust base of all later comparisons (the field arithmetic proper belongs to C14/C17).
func (e *env[S, G]) FieldBridge(t *rapid.T) {
	const test = "FieldBridge"
	a, ca := genScalar(t, "a", e.p)
	b, cb := genScalar(t, "b", e.p)
	fa, fb := e.fe(a), e.fe(b)
	if e.bi(fa).Cmp(a) != 0 {
		t.Fatalf("%s: round trip of %x gives %x", e.name, a, e.bi(fa))
	}
	if a.IsUint64() {
		if got := e.bi(e.field.FromUint64(a.Uint64())); got.Cmp(a) != 0 {
			t.Fatalf("%s: FromUint64(%d) reads back as %x", e.name, a.Uint64(), got)
		}
	}
	mod := func(v *big.Int) *big.Int { return v.Mod(v, e.p) }
	if got, want := e.bi(fa.Add(fb)), mod(new(big.Int).Add(a, b)); got.Cmp(want) != 0 {
		t.Fatalf("%s: %x + %x = %x want %x", e.name, a, b, got, want)
	}
	if got, want := e.bi(fa.Sub(fb)), mod(new(big.Int).Sub(a, b)); got.Cmp(want) != 0 {
		t.Fatalf("%s: %x - %x = %x want %x", e.name, a, b, got, want)
	}
	if got, want := e.bi(fa.Mul(fb)), mod(new(big.Int).Mul(a, b)); got.Cmp(want) != 0 {
		t.Fatalf("%s: %x * %x = %x want %x", e.name, a, b, got, want)
	}
	if got, want := e.bi(fa.Neg()), mod(new(big.Int).Neg(a)); got.Cmp(want) != 0 {
		t.Fatalf("%s: -%x = %x want %x", e.name, a, got, want)
	}
	q, err := fa.TryDiv(fb)
	if b.Sign() == 0 {
		if err == nil {
			t.Fatalf("%s: %x / 0 returned %x without an error", e.name, a, e.bi(q))
		}
	} else {
		want := mod(new(big.Int).Mul(a, new(big.Int).ModInverse(b, e.p)))
		if err != nil || e.bi(q).Cmp(want) != 0 {
			t.Fatalf("%s: %x / %x = %v (err %v) want %x", e.name, a, b, q, err, want)
		}
	}
	if fa.IsZero() != (a.Sign() == 0) || fa.Equal(fb) != (a.Cmp(b) == 0) {
		t.Fatalf("%s: IsZero/Equal disagree with the integers for %x, %x", e.name, a, b)
	}
	vlib.Case(test, vlib.Desc(e.name, ca, cb), ca != "zero" || cb != "zero", "field="+e.name, "a="+ca, "b="+cb)
}

func TestFieldBridge(t *testing.T) {
	vlib.Check(t, 1000, func(t *rapid.T) { drawSuite(t).FieldBridge(t) })
}

// ---- Polynomial.Eval, Derivative, LiftPolynomial -------------------------------------------

// genPoly draws coefficient vectors of length 1..maxLen (degree 0..maxLen-1) whose leading
// coefficients may be zero.
func genPoly(t *rapid.T, label string, p *big.Int, minLen, maxLen int) ([]*big.Int, string) {
	n := rapid.IntRange(minLen, maxLen).Draw(t, label+".len")
	coeffs := genVec(t, label, p, n)
	class := "dense"
	switch rapid.IntRange(0, 5).Draw(t, label+".shape") {
	case 0:
		// zero leading coefficients
		z := rapid.IntRange(1, n).Draw(t, label+".zlead")
		for i := n - z; i < n; i++ {
			coeffs[i].SetInt64(0)
		}
		class = "zero-leading"
		if z == n {
			class = "zero-poly"
		}
	case 1:
		// sparse: one monomial
		k := rapid.IntRange(0, n-1).Draw(t, label+".mono")
		for i := range coeffs {
			if i != k {
				coeffs[i].SetInt64(0)
			}
		}
		class = "monomial"
	}
	return coeffs, class
}

func refDegree(coeffs []*big.Int) int {
	for i := len(coeffs) - 1; i >= 0; i-- {
		if coeffs[i].Sign() != 0 {
			return i
		}
	}
	return -1
}

func (e *env[S, G]) PolyEval(t *rapid.T) {
	const test = "PolyEval"
	// 1..9 coefficients, rarely up to 65: Derivative multiplies coefficient i by the native integer
	// i through a double-and-add loop (ScalarMulNative), 16/17, 32/33 and 64/65 coefficients put the
	// largest multiplier just below / at a new bit length. The lifted Eval costs one group scalar
	// multiplication per coefficient, which bounds the tail's weight.
	maxLen := 9
	if rapid.IntRange(1, 40).Draw(t, "longPoly") == 40 {
		maxLen = rapid.SampledFrom([]int{10, 16, 17, 32, 33, 64, 65}).Draw(t, "maxLen")
	}
	minLen := 1
	if maxLen > 9 {
		minLen = maxLen - 1
	}
	coeffs, pc := genPoly(t, "c", e.p, minLen, maxLen)
	x, xc := genScalar(t, "x", e.p)
	ring, err := polynomials.NewPolynomialRing(e.field)
	if err != nil {
		t.Fatalf("NewPolynomialRing: %v", err)
	}
	poly, err := ring.New(e.fes(coeffs)...)
	if err != nil {
		t.Fatalf("PolynomialRing.New(%s): %v", fmtVec(coeffs), err)
	}
	in := fmt.Sprintf("%s: p=%s x=%x", e.name, fmtVec(coeffs), x)

	want := refmat.PolyEval(coeffs, x, e.p)
	if got := e.bi(poly.Eval(e.fe(x))); got.Cmp(want) != 0 {
		t.Fatalf("Eval: %s: got %x want %x", in, got, want)
	}
	if got, want := poly.Degree(), refDegree(coeffs); got != want {
		t.Fatalf("Degree: %s: got %d want %d", in, got, want)
	}
	// formal derivatives, iterated up to order 3
	d := poly
	for order := 1; order <= 3; order++ {
		d = d.Derivative()
		wantD := refmat.PolyDerivEval(coeffs, order, x, e.p)
		if got := e.bi(d.Eval(e.fe(x))); got.Cmp(wantD) != 0 {
			t.Fatalf("Derivative^%d then Eval: %s: got %x want %x", order, in, got, wantD)
		}
	}
	// occasionally a deeper derivative (orders 4 .. len+1; from order len on it is the zero polynomial)
	if rapid.IntRange(0, 7).Draw(t, "deep") == 0 {
		upTo := rapid.IntRange(4, len(coeffs)+4).Draw(t, "deepOrder")
		for order := 4; order <= upTo; order++ {
			d = d.Derivative()
		}
		wantD := refmat.PolyDerivEval(coeffs, upTo, x, e.p)
		if got := e.bi(d.Eval(e.fe(x))); got.Cmp(wantD) != 0 {
			t.Fatalf("Derivative^%d then Eval: %s: got %x want %x", upTo, in, got, wantD)
		}
	}
	// in the exponent: lift with base point k·G, evaluate, compare with the lift of k·p(x)
	k, kc := big.NewInt(1), "G"
	if rapid.Bool().Draw(t, "otherBase") {
		k, kc = genUniform(t, "k", e.p), "kG"
	}
	base := e.lift(k)
	lifted, err := polynomials.LiftPolynomial(poly, base)
	if err != nil {
		t.Fatalf("LiftPolynomial: %s: %v", in, err)
	}
	kv := func(v *big.Int) *big.Int { return new(big.Int).Mod(new(big.Int).Mul(k, v), e.p) }
	if !lifted.Eval(e.fe(x)).Equal(e.lift(kv(want))) {
		t.Fatalf("LiftPolynomial(p, %x·G).Eval(x) != lift(k·p(x)): %s", k, in)
	}
	if !lifted.Derivative().Eval(e.fe(x)).Equal(e.lift(kv(refmat.PolyDerivEval(coeffs, 1, x, e.p)))) {
		t.Fatalf("LiftPolynomial(p, %x·G).Derivative().Eval(x) != lift(k·p'(x)): %s", k, in)
	}
	nt := len(coeffs) >= 2 && pc != "zero-poly"
	vlib.Case(test, vlib.Desc(e.name, len(coeffs), pc, xc, kc), nt, "field="+e.name, fmt.Sprintf("len=%d", len(coeffs)), "poly="+pc, "x="+xc, "base="+kc)
	vlib.Sample("poly-eval", map[string]any{"field": e.name, "coeffs": fmtVec(coeffs), "x": x.Text(16), "value": want.Text(16), "base": kc})
}

func TestPolyEval(t *testing.T) {
	vlib.Check(t, 2000, func(t *rapid.T) { drawSuite(t).PolyEval(t) })
}
