package c20

import (
	"fmt"
	"math/big"
	"testing"

	"pgregory.net/rapid"

	"github.com/bronlabs/bron-crypto/pkg/base/polynomials/interpolation/birkhoff"
	"github.com/bronlabs/bron-crypto/pkg/base/polynomials/interpolation/lagrange"
	"github.com/bronlabs/bron-crypto/pkg/base/polynomials/interpolation/vandermonde"
	"verif/harness/vlib"
	"verif/harness/vlib/refmat"
)

// ---- node sets ----------------------------------------------------------------------------

type node struct {
	v     *big.Int
	class string
}

func genNode(p *big.Int) *rapid.Generator[node] {
	return rapid.Custom(func(t *rapid.T) node {
		switch rapid.IntRange(0, 9).Draw(t, "nodeKind") {
		case 0:
			return node{new(big.Int), "zero"}
		case 1, 2, 3, 4:
			return node{big.NewInt(int64(rapid.IntRange(1, 24).Draw(t, "id"))), "id"}
		case 5:
			// large identifiers, up to 2^64-1
			return node{new(big.Int).SetUint64(^uint64(0) - uint64(rapid.IntRange(0, 1000).Draw(t, "fromTop"))), "u64-top"}
		case 6:
			return node{new(big.Int).SetUint64(rapid.Uint64().Draw(t, "u64")), "u64"}
		case 7:
			return node{new(big.Int).Sub(p, big.NewInt(int64(rapid.IntRange(1, 50).Draw(t, "below")))), "near-p"}
		default:
			return node{genUniform(t, "u", p), "uniform"}
		}
	})
}

// nodeCountTail: node counts above the usual 1..8 (see genSize).
var nodeCountTail = []int{9, 12, 13, 16, 17, 33}

// genNodes draws n distinct nodes in drawn (unsorted) order; the class says which kinds occur.
func genNodes(t *rapid.T, label string, p *big.Int, n int) ([]*big.Int, string) {
	ns := rapid.SliceOfNDistinct(genNode(p), n, n, func(x node) string { return x.v.String() }).Draw(t, label)
	out := make([]*big.Int, n)
	has := map[string]bool{}
	for i, x := range ns {
		out[i] = x.v
		has[x.class] = true
	}
	class := ""
	for _, k := range []string{"zero", "id", "u64-top", "u64", "near-p", "uniform"} {
		if has[k] {
			class += k + ","
		}
	}
	sorted := true
	for i := 1; i < n; i++ {
		if out[i-1].Cmp(out[i]) > 0 {
			sorted = false
		}
	}
	if !sorted {
		class += "unsorted"
	} else {
		class += "sorted"
	}
	return out, class
}

// nodeFE converts a node, going through FromUint64 when it fits (identifiers are turned into
// nodes that way by the sharing schemes).
func (e *env[S, G]) nodeFE(v *big.Int) S {
	if v.IsUint64() {
		return e.field.FromUint64(v.Uint64())
	}
	return e.fe(v)
}

func (e *env[S, G]) nodeFEs(vs []*big.Int) []S {
	out := make([]S, len(vs))
	for i, v := range vs {
		out[i] = e.nodeFE(v)
	}
	return out
}

func genAt(t *rapid.T, p *big.Int, nodes []*big.Int) (*big.Int, string) {
	switch rapid.IntRange(0, 4).Draw(t, "atKind") {
	case 0:
		return new(big.Int), "zero"
	case 1:
		if len(nodes) > 0 {
			return nodes[rapid.IntRange(0, len(nodes)-1).Draw(t, "atNode")], "a-node"
		}
		return big.NewInt(1), "one"
	case 2:
		return big.NewInt(int64(rapid.IntRange(1, 40).Draw(t, "atSmall"))), "small"
	default:
		return genUniform(t, "at", p), "uniform"
	}
}

func evalAll(coeffs, xs []*big.Int, p *big.Int) []*big.Int {
	out := make([]*big.Int, len(xs))
	for i, x := range xs {
		out[i] = refmat.PolyEval(coeffs, x, p)
	}
	return out
}

// samePoly compares coefficient vectors up to trailing zeros.
func samePoly(a, b []*big.Int) bool {
	for i := 0; i < max(len(a), len(b)); i++ {
		var x, y big.Int
		if i < len(a) {
			x.Set(a[i])
		}
		if i < len(b) {
			y.Set(b[i])
		}
		if x.Cmp(&y) != 0 {
			return false
		}
	}
	return true
}

// ---- Lagrange -----------------------------------------------------------------------------

func (e *env[S, G]) Lagrange(t *rapid.T) {
	const test = "Lagrange"
	// 1..8 nodes, rarely 9..33 (no limit in the library; the in-exponent variant costs 2n group
	// scalar multiplications per case, which bounds the tail's weight)
	n := genSize(t, "n", 1, 8, 25, nodeCountTail)
	nodes, nc := genNodes(t, "nodes", e.p, n)
	coeffs, pc := genPoly(t, "c", e.p, 1, n) // degree < n
	values := evalAll(coeffs, nodes, e.p)
	at, ac := genAt(t, e.p, nodes)
	mode := rapid.SampledFrom([]string{"distinct", "distinct", "distinct", "distinct", "distinct", "dup-consistent", "dup-inconsistent", "len-mismatch"}).Draw(t, "mode")
	in := func() string {
		return fmt.Sprintf("%s: nodes=%s values=%s at=%x (poly %s)", e.name, fmtVec(nodes), fmtVec(values), at, fmtVec(coeffs))
	}
	want := refmat.PolyEval(coeffs, at, e.p)

	switch mode {
	case "dup-consistent", "dup-inconsistent":
		// repeat one node at a drawn position; the repeated value agrees or not
		i := rapid.IntRange(0, n-1).Draw(t, "dupOf")
		pos := rapid.IntRange(0, n).Draw(t, "dupAt")
		v := new(big.Int).Set(values[i])
		if mode == "dup-inconsistent" {
			v.Add(v, big.NewInt(int64(rapid.IntRange(1, 5).Draw(t, "off")))).Mod(v, e.p)
		}
		nodes = append(nodes[:pos:pos], append([]*big.Int{nodes[i]}, nodes[pos:]...)...)
		values = append(values[:pos:pos], append([]*big.Int{v}, values[pos:]...)...)
		got, err := lagrange.InterpolateAt(e.nodeFEs(nodes), e.fes(values), e.fe(at))
		if err == nil {
			// no polynomial passes through two different values at one node: any answer is wrong;
			// with equal values the only acceptable answer is the polynomial's value
			if mode == "dup-inconsistent" || e.bi(got).Cmp(want) != 0 {
				t.Fatalf("InterpolateAt with a repeated node returned %x without an error: %s", e.bi(got), in())
			}
		}
		pts := make([]G, len(values))
		for i, v := range values {
			pts[i] = e.lift(v)
		}
		gotG, err := lagrange.InterpolateInExponentAt(e.group, e.nodeFEs(nodes), pts, e.fe(at))
		if err == nil && (mode == "dup-inconsistent" || !gotG.Equal(e.lift(want))) {
			t.Fatalf("InterpolateInExponentAt with a repeated node returned a point without an error: %s", in())
		}
		if _, err := lagrange.BasisAt(e.nodeFEs(nodes), e.fe(at)); err == nil {
			// a Lagrange basis over a node set with a repetition does not exist
			t.Fatalf("BasisAt with a repeated node returned a basis: %s", in())
		}
		vlib.Case(test, vlib.Desc(e.name, mode, n), true, "field="+e.name, "mode="+mode)
		return
	case "len-mismatch":
		short := values[:rapid.IntRange(0, n-1).Draw(t, "short")]
		if _, err := lagrange.InterpolateAt(e.nodeFEs(nodes), e.fes(short), e.fe(at)); err == nil {
			t.Fatalf("InterpolateAt with %d nodes and %d values returned no error", n, len(short))
		}
		pts := make([]G, len(short))
		for i, v := range short {
			pts[i] = e.lift(v)
		}
		if _, err := lagrange.InterpolateInExponentAt(e.group, e.nodeFEs(nodes), pts, e.fe(at)); err == nil {
			t.Fatalf("InterpolateInExponentAt with %d nodes and %d values returned no error", n, len(short))
		}
		vlib.Case(test, vlib.Desc(e.name, mode, n, len(short)), true, "field="+e.name, "mode="+mode)
		return
	}

	// the independent Lagrange formula must agree with Horner on the drawn polynomial (oracle self-check)
	if v, ok := refmat.LagrangeAt(nodes, values, at, e.p); !ok || v.Cmp(want) != 0 {
		t.Fatalf("harness: reference Lagrange %v/%v disagrees with Horner %x: %s", v, ok, want, in())
	}
	got, err := lagrange.InterpolateAt(e.nodeFEs(nodes), e.fes(values), e.fe(at))
	if err != nil {
		t.Fatalf("InterpolateAt failed on distinct nodes: %v: %s", err, in())
	}
	if e.bi(got).Cmp(want) != 0 {
		t.Fatalf("InterpolateAt = %x, the polynomial's value is %x: %s", e.bi(got), want, in())
	}
	basis, err := lagrange.BasisAt(e.nodeFEs(nodes), e.fe(at))
	if err != nil {
		t.Fatalf("BasisAt failed on distinct nodes: %v: %s", err, in())
	}
	wantBasis, _ := refmat.LagrangeBasisAt(nodes, at, e.p)
	if gotBasis := e.bis(basis.Coefficients()); !refmat.VecEqual(gotBasis, wantBasis) {
		t.Fatalf("BasisAt = %s want %s: %s", fmtVec(gotBasis), fmtVec(wantBasis), in())
	}
	// in the exponent
	pts := make([]G, n)
	for i, v := range values {
		pts[i] = e.lift(v)
	}
	gotG, err := lagrange.InterpolateInExponentAt(e.group, e.nodeFEs(nodes), pts, e.fe(at))
	if err != nil {
		t.Fatalf("InterpolateInExponentAt failed on distinct nodes: %v: %s", err, in())
	}
	if !gotG.Equal(e.lift(want)) {
		t.Fatalf("InterpolateInExponentAt != lift of the polynomial's value %x: %s", want, in())
	}
	vlib.Case(test, vlib.Desc(e.name, mode, n, nc, pc, ac), n >= 2, "field="+e.name, "mode="+mode, fmt.Sprintf("n=%d", n), "nodes="+nc, "poly="+pc, "at="+ac)
	vlib.Sample("lagrange", map[string]any{"field": e.name, "nodes": fmtVec(nodes), "poly": fmtVec(coeffs), "at": at.Text(16), "value": want.Text(16)})
}

func TestLagrange(t *testing.T) {
	vlib.Check(t, 2500, func(t *rapid.T) { drawSuite(t).Lagrange(t) })
}

// ---- Vandermonde --------------------------------------------------------------------------

func (e *env[S, G]) Vandermonde(t *rapid.T) {
	const test = "Vandermonde"
	n := genSize(t, "n", 1, 8, 20, nodeCountTail) // field arithmetic only: a slightly heavier tail
	nodes, nc := genNodes(t, "nodes", e.p, n)
	coeffs, pc := genPoly(t, "c", e.p, 1, n)
	values := evalAll(coeffs, nodes, e.p)
	mode := rapid.SampledFrom([]string{"distinct", "distinct", "distinct", "distinct", "dup-consistent", "dup-inconsistent", "len-mismatch", "matrix"}).Draw(t, "mode")
	at := e.field.Zero() // the third parameter only selects the field
	in := func() string {
		return fmt.Sprintf("%s: nodes=%s values=%s (poly %s)", e.name, fmtVec(nodes), fmtVec(values), fmtVec(coeffs))
	}
	switch mode {
	case "matrix":
		cols := rapid.IntRange(1, n+2).Draw(t, "cols")
		m, err := vandermonde.BuildVandermondeMatrix(e.nodeFEs(nodes), uint(cols))
		if err != nil {
			t.Fatalf("BuildVandermondeMatrix(%s, %d): %v", fmtVec(nodes), cols, err)
		}
		if got, want := e.refOf(t, m), refmat.Vandermonde(e.p, nodes, cols); !got.Equal(want) {
			t.Fatalf("BuildVandermondeMatrix(%s, %d) = %s want %s", fmtVec(nodes), cols, fmtMat(got), fmtMat(want))
		}
		vlib.Case(test, vlib.Desc(e.name, mode, n, cols, nc), true, "field="+e.name, "mode="+mode)
		return
	case "len-mismatch":
		short := values[:rapid.IntRange(0, n-1).Draw(t, "short")]
		if _, err := vandermonde.Interpolate(e.nodeFEs(nodes), e.fes(short), at); err == nil {
			t.Fatalf("vandermonde.Interpolate with %d nodes and %d values returned no error", n, len(short))
		}
		vlib.Case(test, vlib.Desc(e.name, mode, n, len(short)), true, "field="+e.name, "mode="+mode)
		return
	case "dup-consistent", "dup-inconsistent":
		i := rapid.IntRange(0, n-1).Draw(t, "dupOf")
		pos := rapid.IntRange(0, n).Draw(t, "dupAt")
		v := new(big.Int).Set(values[i])
		if mode == "dup-inconsistent" {
			v.Add(v, big.NewInt(int64(rapid.IntRange(1, 5).Draw(t, "off")))).Mod(v, e.p)
		}
		nodes = append(nodes[:pos:pos], append([]*big.Int{nodes[i]}, nodes[pos:]...)...)
		values = append(values[:pos:pos], append([]*big.Int{v}, values[pos:]...)...)
		poly, err := vandermonde.Interpolate(e.nodeFEs(nodes), e.fes(values), at)
		if err == nil {
			if mode == "dup-inconsistent" {
				t.Fatalf("vandermonde.Interpolate returned a polynomial through two values at one node: %s", in())
			}
			// any returned polynomial must at least pass through the given points
			got := e.bis(poly.Coefficients())
			for k, x := range nodes {
				if refmat.PolyEval(got, x, e.p).Cmp(values[k]) != 0 {
					t.Fatalf("vandermonde.Interpolate returned %s which misses point %d: %s", fmtVec(got), k, in())
				}
			}
		}
		vlib.Case(test, vlib.Desc(e.name, mode, n, err == nil), true, "field="+e.name, "mode="+mode, fmt.Sprintf("%s-err=%v", mode, err != nil))
		return
	}
	// oracle self-check: Newton's divided differences recover the drawn coefficients
	if nw, ok := refmat.NewtonInterpolate(nodes, values, e.p); !ok || !samePoly(nw, coeffs) {
		t.Fatalf("harness: Newton interpolation %s/%v does not recover %s", fmtVec(nw), ok, fmtVec(coeffs))
	}
	poly, err := vandermonde.Interpolate(e.nodeFEs(nodes), e.fes(values), at)
	if err != nil {
		t.Fatalf("vandermonde.Interpolate failed on distinct nodes: %v: %s", err, in())
	}
	got := e.bis(poly.Coefficients())
	if !samePoly(got, coeffs) {
		t.Fatalf("vandermonde.Interpolate = %s, the polynomial is %s: %s", fmtVec(got), fmtVec(coeffs), in())
	}
	x, xc := genAt(t, e.p, nodes)
	if got, want := e.bi(poly.Eval(e.fe(x))), refmat.PolyEval(coeffs, x, e.p); got.Cmp(want) != 0 {
		t.Fatalf("vandermonde.Interpolate(...).Eval(%x) = %x want %x: %s", x, got, want, in())
	}
	vlib.Case(test, vlib.Desc(e.name, mode, n, nc, pc, xc), n >= 2, "field="+e.name, "mode="+mode, fmt.Sprintf("n=%d", n), "nodes="+nc, "poly="+pc)
	vlib.Sample("vandermonde", map[string]any{"field": e.name, "nodes": fmtVec(nodes), "poly": fmtVec(coeffs)})
}

func TestVandermonde(t *testing.T) {
	vlib.Check(t, 2000, func(t *rapid.T) { drawSuite(t).Vandermonde(t) })
}

// ---- Birkhoff -----------------------------------------------------------------------------

// birkhoffLayout is a set of k nodes (x, derivative order) drawn the way the hierarchical
// (Tassa) access structure lays them out: levels with strictly increasing thresholds
// t_1 < … < t_L = k, a party of level l carries the derivative of order t_{l-1} (t_0 = 0).
type birkhoffLayout struct {
	xs    []*big.Int
	js    []int
	k     int
	class string // how the layout was drawn
}

func genBirkhoff(t *rapid.T, p *big.Int) birkhoffLayout {
	levels := rapid.IntRange(1, 3).Draw(t, "levels")
	// strictly increasing thresholds, the last one is k <= 7
	var thr []int
	cur := 0
	if rapid.IntRange(1, 33).Draw(t, "bigK") == 33 {
		// tail: k in 8..16 with up to 5 levels and unbounded steps (the library has no limit on k,
		// on the number of levels or on the derivative orders; 12 / 13 straddle the insertion-sort
		// cut-off of sort.Sort in birkhoff's SortNodes). InterpolateInExponent evaluates k^2 minors
		// and k^2 group scalar multiplications, hence the cap at 16 and the low weight.
		kBig := rapid.SampledFrom([]int{8, 9, 9, 12, 13, 13, 16}).Draw(t, "kBig")
		levels = rapid.IntRange(1, 5).Draw(t, "levelsBig")
		for l := 0; l < levels-1; l++ {
			room := kBig - cur - (levels - 1 - l)
			cur += rapid.IntRange(1, room).Draw(t, fmt.Sprintf("thrBig%d", l))
			thr = append(thr, cur)
		}
		thr = append(thr, kBig)
	} else {
		for l := 0; l < levels; l++ {
			room := 7 - cur - (levels - 1 - l)
			cur += rapid.IntRange(1, min(room, 3)).Draw(t, fmt.Sprintf("thr%d", l))
			thr = append(thr, cur)
		}
	}
	k := thr[levels-1]
	ranks := make([]int, levels)
	for l := 1; l < levels; l++ {
		ranks[l] = thr[l-1]
	}
	kind := rapid.SampledFrom([]string{"qualified", "qualified", "qualified", "qualified", "qualified", "qualified",
		"unqualified", "no-order0", "dup-node", "free-orders"}).Draw(t, "layout")

	// number of parties taken per level: cumulative counts C_l >= t_l (Pólya), C_L = k
	counts := make([]int, levels)
	switch kind {
	case "unqualified":
		// too few parties in the low levels: everything from the last level
		if levels == 1 {
			kind = "qualified"
			counts[0] = k
		} else {
			short := rapid.IntRange(0, thr[0]-1).Draw(t, "lowCount")
			counts[0] = short
			counts[levels-1] = k - short
		}
	default:
		cum := 0
		for l := 0; l < levels; l++ {
			lo := thr[l] - cum // at least this many more
			if lo < 0 {
				lo = 0
			}
			hi := k - cum
			c := lo
			if l == levels-1 {
				c = hi
			} else if hi > lo {
				c = rapid.IntRange(lo, hi).Draw(t, fmt.Sprintf("cnt%d", l))
			}
			counts[l] = c
			cum += c
		}
	}
	// identifiers: level by level increasing ("ordered", Tassa's requirement) or arbitrary
	idKind := rapid.SampledFrom([]string{"ordered-small", "ordered-small", "ordered-spread", "arbitrary", "field"}).Draw(t, "ids")
	var xs []*big.Int
	var js []int
	seen := map[string]bool{}
	next := uint64(0)
	for l := 0; l < levels; l++ {
		for c := 0; c < counts[l]; c++ {
			var x *big.Int
			for {
				switch idKind {
				case "ordered-small":
					next += uint64(rapid.IntRange(1, 3).Draw(t, "gap"))
					x = new(big.Int).SetUint64(next)
				case "ordered-spread":
					next += uint64(rapid.IntRange(1, 1<<20).Draw(t, "gap"))
					x = new(big.Int).SetUint64(next)
				case "arbitrary":
					x = new(big.Int).SetUint64(uint64(rapid.IntRange(1, 40).Draw(t, "id")))
				default:
					x = genNode(p).Draw(t, "x").v
				}
				if !seen[x.String()] {
					break
				}
			}
			seen[x.String()] = true
			xs = append(xs, x)
			js = append(js, ranks[l])
		}
	}
	switch kind {
	case "no-order0":
		// shift every order up by one: the constant coefficient becomes invisible
		for i := range js {
			js[i]++
		}
	case "dup-node":
		if k >= 2 {
			i, j := rapid.IntRange(0, k-1).Draw(t, "dupI"), rapid.IntRange(0, k-1).Draw(t, "dupJ")
			if i != j {
				xs[i], js[i] = xs[j], js[j]
			}
		}
	case "free-orders":
		// orders drawn freely in 0..k: Pólya's condition may or may not hold
		for i := range js {
			js[i] = rapid.IntRange(0, k).Draw(t, fmt.Sprintf("j%d", i))
		}
	}
	// drawn (unsorted) presentation order
	perm := rapid.Permutation(seq(k)).Draw(t, "order")
	lay := birkhoffLayout{k: k, class: fmt.Sprintf("%s/L%d/%s", kind, levels, idKind)}
	for _, i := range perm {
		lay.xs = append(lay.xs, xs[i])
		lay.js = append(lay.js, js[i])
	}
	return lay
}

func seq(n int) []int {
	out := make([]int, n)
	for i := range out {
		out[i] = i
	}
	return out
}

func (e *env[S, G]) Birkhoff(t *rapid.T) {
	const test = "Birkhoff"
	lay := genBirkhoff(t, e.p)
	k := lay.k
	coeffs, pc := genPoly(t, "c", e.p, k, k) // exactly k coefficients, degree <= k-1
	ys := make([]*big.Int, k)
	for i := range ys {
		ys[i] = refmat.PolyDerivEval(coeffs, lay.js[i], lay.xs[i], e.p)
	}
	js64 := make([]uint64, k)
	for i, j := range lay.js {
		js64[i] = uint64(j)
	}
	in := func() string {
		return fmt.Sprintf("%s: xs=%s js=%v ys=%s (poly %s)", e.name, fmtVec(lay.xs), lay.js, fmtVec(ys), fmtVec(coeffs))
	}
	B, err := refmat.Birkhoff(e.p, lay.xs, lay.js, k)
	if err != nil {
		t.Fatalf("harness: %v", err)
	}
	regular := B.Det().Sign() != 0
	if regular {
		// oracle self-check: the system determines the drawn polynomial
		sol, ok, _ := refmat.SolveRight(B, ys)
		if !ok || !refmat.VecEqual(sol, coeffs) {
			t.Fatalf("harness: reference Birkhoff system does not recover the polynomial: %s", in())
		}
	}
	mode := rapid.SampledFrom([]string{"interpolate", "interpolate", "interpolate", "exponent", "exponent", "matrix", "len-mismatch"}).Draw(t, "mode")
	satisfies := func(got []*big.Int) (int, bool) {
		for i := range ys {
			if refmat.PolyDerivEval(got, lay.js[i], lay.xs[i], e.p).Cmp(ys[i]) != 0 {
				return i, false
			}
		}
		return 0, true
	}
	regClass := "singular"
	if regular {
		regClass = "regular"
	}
	switch mode {
	case "matrix":
		cols := rapid.IntRange(1, k+2).Draw(t, "cols")
		m, err := birkhoff.BuildVandermondeMatrix(e.nodeFEs(lay.xs), js64, cols)
		if err != nil {
			t.Fatalf("birkhoff.BuildVandermondeMatrix(cols=%d): %v: %s", cols, err, in())
		}
		want, _ := refmat.Birkhoff(e.p, lay.xs, lay.js, cols)
		if got := e.refOf(t, m); !got.Equal(want) {
			t.Fatalf("birkhoff.BuildVandermondeMatrix(cols=%d) = %s want %s: %s", cols, fmtMat(got), fmtMat(want), in())
		}
	case "len-mismatch":
		cut := rapid.IntRange(0, k-1).Draw(t, "cut")
		which := rapid.IntRange(0, 2).Draw(t, "which")
		xs, js, vs := e.nodeFEs(lay.xs), js64, e.fes(ys)
		switch which {
		case 0:
			xs = xs[:cut]
		case 1:
			js = js[:cut]
		default:
			vs = vs[:cut]
		}
		if _, err := birkhoff.Interpolate(xs, js, vs); err == nil {
			t.Fatalf("birkhoff.Interpolate with lengths %d/%d/%d returned no error", len(xs), len(js), len(vs))
		}
		if _, err := birkhoff.Interpolate([]S{}, []uint64{}, []S{}); err == nil {
			t.Fatalf("birkhoff.Interpolate with no nodes returned no error")
		}
	case "interpolate":
		poly, err := birkhoff.Interpolate(e.nodeFEs(lay.xs), js64, e.fes(ys))
		switch {
		case regular && err != nil:
			t.Fatalf("birkhoff.Interpolate failed although the Birkhoff matrix is regular (det %x): %v: %s", B.Det(), err, in())
		case err == nil:
			got := e.bis(poly.Coefficients())
			if regular && !samePoly(got, coeffs) {
				t.Fatalf("birkhoff.Interpolate = %s, the polynomial is %s: %s", fmtVec(got), fmtVec(coeffs), in())
			}
			// singular pattern: an answer is tolerated only if it meets every interpolation condition
			if i, ok := satisfies(got); !ok {
				t.Fatalf("birkhoff.Interpolate returned %s which violates condition %d: %s", fmtVec(got), i, in())
			}
			x, _ := genAt(t, e.p, lay.xs)
			if regular {
				if got, want := e.bi(poly.Eval(e.fe(x))), refmat.PolyEval(coeffs, x, e.p); got.Cmp(want) != 0 {
					t.Fatalf("birkhoff.Interpolate(...).Eval(%x) = %x want %x: %s", x, got, want, in())
				}
			}
		}
		regClass += fmt.Sprintf("/err=%v", err != nil)
	case "exponent":
		pts := make([]G, k)
		for i, y := range ys {
			pts[i] = e.lift(y)
		}
		poly, err := birkhoff.InterpolateInExponent(e.nodeFEs(lay.xs), js64, pts)
		switch {
		case regular && err != nil:
			t.Fatalf("birkhoff.InterpolateInExponent failed although the Birkhoff matrix is regular: %v: %s", err, in())
		case err == nil:
			if !regular {
				// a group-valued answer for a singular pattern cannot be judged by the conditions without
				// discrete logs of the coefficients; check the conditions in the exponent instead
				for i := range ys {
					d := poly
					for o := 0; o < lay.js[i]; o++ {
						d = d.Derivative()
					}
					if !d.Eval(e.nodeFE(lay.xs[i])).Equal(pts[i]) {
						t.Fatalf("birkhoff.InterpolateInExponent returned a polynomial violating condition %d: %s", i, in())
					}
				}
				break
			}
			cs := poly.Coefficients()
			for i := 0; i < max(len(cs), k); i++ {
				want := new(big.Int)
				if i < k {
					want = coeffs[i]
				}
				if i >= len(cs) {
					if want.Sign() != 0 {
						t.Fatalf("birkhoff.InterpolateInExponent returned %d coefficients, coefficient %d is %x: %s", len(cs), i, want, in())
					}
					continue
				}
				if !cs[i].Equal(e.lift(want)) {
					t.Fatalf("birkhoff.InterpolateInExponent coefficient %d != lift(%x): %s", i, want, in())
				}
			}
			x, _ := genAt(t, e.p, lay.xs)
			if !poly.Eval(e.fe(x)).Equal(e.lift(refmat.PolyEval(coeffs, x, e.p))) {
				t.Fatalf("birkhoff.InterpolateInExponent(...).Eval(%x) != lift(p(x)): %s", x, in())
			}
		}
		regClass += fmt.Sprintf("/err=%v", err != nil)
	}
	vlib.Case(test, vlib.Desc(e.name, mode, lay.class, regClass, k), k >= 2, "field="+e.name, "mode="+mode, "layout="+lay.class, "matrix="+regClass, fmt.Sprintf("k=%d", k), "poly="+pc)
	vlib.Sample("birkhoff-"+mode, map[string]any{"field": e.name, "xs": fmtVec(lay.xs), "js": lay.js, "poly": fmtVec(coeffs), "layout": lay.class, "matrix": regClass})
}

func TestBirkhoff(t *testing.T) {
	vlib.Check(t, 3000, func(t *rapid.T) { drawSuite(t).Birkhoff(t) })
}

// BirkhoffSingleNodeInExponent is the regression for a repaired defect (repository commit
// f0fd78f): with one node (x, order 0) InterpolateInExponent used to fail in Minor (1×1)
// although Interpolate returned the constant polynomial.
func (e *env[S, G]) BirkhoffSingleNodeInExponent(t *testing.T) {
	x, y := e.field.FromUint64(5), big.NewInt(7)
	sp, err := birkhoff.Interpolate([]S{x}, []uint64{0}, []S{e.fe(y)})
	if err != nil || e.bi(sp.Eval(e.field.FromUint64(11))).Cmp(y) != 0 {
		t.Fatalf("%s: birkhoff.Interpolate([5],[0],[7]): %v %v", e.name, sp, err)
	}
	poly, err := birkhoff.InterpolateInExponent([]S{x}, []uint64{0}, []G{e.lift(y)})
	if err != nil {
		t.Fatalf("%s: birkhoff.InterpolateInExponent([5],[0],[7·G]) fails (%v) while birkhoff.Interpolate([5],[0],[7]) returns the constant polynomial 7", e.name, firstLine(err.Error()))
	}
	if !poly.Eval(x).Equal(e.lift(y)) || !poly.Eval(e.field.FromUint64(11)).Equal(e.lift(y)) || !poly.Coefficients()[0].Equal(e.lift(y)) {
		t.Fatalf("%s: birkhoff.InterpolateInExponent([5],[0],[7·G]) is not the constant polynomial 7·G", e.name)
	}
}

func firstLine(s string) string {
	for i, c := range s {
		if c == '\n' {
			return s[:i]
		}
	}
	return s
}

func TestBirkhoffSingleNodeInExponent(t *testing.T) {
	for i, s := range suites {
		if vlib.Mine(i) {
			s.BirkhoffSingleNodeInExponent(t)
		}
	}
}

// vandermondeEmpty returns a non-nil error iff every degenerate Vandermonde call is refused.
func (e *env[S, G]) vandermondeEmpty(cols int) error {
	_, e1 := vandermonde.Interpolate([]S{}, []S{}, e.field.Zero())
	_, e2 := vandermonde.BuildVandermondeMatrix([]S{}, uint(cols+1))
	_, e3 := vandermonde.BuildVandermondeMatrix([]S{e.field.One()}, 0)
	if e1 == nil || e2 == nil || e3 == nil {
		return nil
	}
	return e1
}
