package c12

// The REGISTRY: one table of every serialisable type this package checks. An entry knows how to
// decode / re-encode the type (serde.UnmarshalCBOR[T] / serde.MarshalCBOR), where valid values
// come from (lazily evaluated sources: protocol runs, dealers, samplers — see sources_test.go and
// gen_test.go), how to compare two values (the type's Equal where it exists, canonical
// re-encoding otherwise) and which validity predicate a decoded value must satisfy (valid_test.go;
// the predicates are written from the constructors' rules and are looked up by type while the
// decoded object is walked, so a message is valid iff every component in it is).

import (
	"bytes"
	"fmt"
	"reflect"
	"sort"
	"sync"

	"github.com/bronlabs/bron-crypto/pkg/base/serde"
)

// Families (one fuzz target each).
const (
	famMessages    = "messages"
	famShares      = "shares"
	famAccess      = "accessstructures"
	famShards      = "shards"
	famKeysSigs    = "keys_signatures"
	famProofs      = "proofs"
	famCommitments = "commitments"
	famEncryption  = "encryption"
	famNumbers     = "numbers"
	famCurves      = "curves"
)

var families = []string{famMessages, famShares, famAccess, famShards, famKeysSigs, famProofs, famCommitments, famEncryption, famNumbers, famCurves}

type sample struct {
	v    any
	enc  []byte // serde.MarshalCBOR(v)
	wire []byte // bytes seen on the wire (protocol messages), nil otherwise
	src  string
}

type entry struct {
	name    string
	family  string
	typ     reflect.Type
	sources []string
	decode  func([]byte) (any, error)
	encode  func(any) ([]byte, error)
	// tagged: the type is registered with serde.Register (outer tag required).
	tagged bool
	// mirror: a harness-side mirror of an unexported library type (router message).
	mirror bool
	// maxSamples caps the number of distinct samples kept (0 = default).
	maxSamples int

	once    sync.Once
	samples []sample
	genErr  error
}

var (
	registry   []*entry
	byType     = map[reflect.Type]*entry{}
	byName     = map[string]*entry{}
	registryMu sync.Mutex
)

// reg registers T. prefix disambiguates equally named types of different packages.
func reg[T any](family, prefix string, sources ...string) *entry {
	typ := reflect.TypeFor[T]()
	e := &entry{
		name:    prefix + shortType(typ),
		family:  family,
		typ:     typ,
		sources: sources,
		decode: func(b []byte) (any, error) {
			v, err := serde.UnmarshalCBOR[T](b)
			if err != nil {
				return nil, err
			}
			return v, nil
		},
		encode: func(v any) ([]byte, error) {
			t, ok := v.(T)
			if !ok {
				return nil, fmt.Errorf("harness: %T is not %s", v, typ)
			}
			return serde.MarshalCBOR(t)
		},
	}
	registryMu.Lock()
	defer registryMu.Unlock()
	if old, dup := byType[typ]; dup {
		// the same type reached from two registration sites: merge the sources
		old.sources = appendUnique(old.sources, sources...)
		return old
	}
	if _, dup := byName[e.name]; dup {
		panic("harness: duplicate registry name " + e.name)
	}
	registry = append(registry, e)
	byType[typ] = e
	byName[e.name] = e
	return e
}

func appendUnique(dst []string, xs ...string) []string {
	for _, x := range xs {
		found := false
		for _, d := range dst {
			if d == x {
				found = true
				break
			}
		}
		if !found {
			dst = append(dst, x)
		}
	}
	return dst
}

func (e *entry) withTag() *entry           { e.tagged = true; return e }
func (e *entry) withMax(n int) *entry      { e.maxSamples = n; return e }
func (e *entry) from(src ...string) *entry { e.sources = appendUnique(e.sources, src...); return e }

// ---- sources and the pool ---------------------------------------------------------------------

// root is one value produced by a source. The harvester walks it and files every registered
// component under its type.
type root struct {
	v    any
	wire []byte
}

type source struct {
	name string
	run  func() ([]root, error)
	once sync.Once
	err  error
	dur  float64
}

var (
	sources  = map[string]*source{}
	poolMu   sync.Mutex
	pool     = map[reflect.Type][]sample{}
	poolSeen = map[reflect.Type]map[string]bool{}
)

func defSource(name string, run func() ([]root, error)) {
	if _, dup := sources[name]; dup {
		panic("harness: duplicate source " + name)
	}
	sources[name] = &source{name: name, run: run}
}

const poolCapPerTypeAndSource = 24

func (s *source) ensure() error {
	s.once.Do(func() {
		defer func() {
			if r := recover(); r != nil {
				s.err = fmt.Errorf("source %s panicked: %v", s.name, r)
			}
		}()
		roots, err := s.run()
		if err != nil {
			s.err = fmt.Errorf("source %s: %w", s.name, err)
			return
		}
		for _, r := range roots {
			harvest(s.name, r)
		}
	})
	return s.err
}

// harvest files r.v and every registered component reachable from it.
func harvest(src string, r root) {
	if isNilAny(r.v) {
		return
	}
	count := map[reflect.Type]int{}
	add := func(p reflect.Value, wire []byte) {
		e := byType[p.Type()]
		if e == nil {
			return
		}
		if count[p.Type()] >= 8 && wire == nil { // per root: a shard holds hundreds of scalars
			return
		}
		enc, err := safeEncode(e, p.Interface())
		if err != nil {
			return // reported by the round-trip test through the explicit roots
		}
		poolMu.Lock()
		defer poolMu.Unlock()
		seen := poolSeen[p.Type()]
		if seen == nil {
			seen = map[string]bool{}
			poolSeen[p.Type()] = seen
		}
		k := src + "|" + string(enc)
		if seen[k] {
			return
		}
		n := 0
		for _, s := range pool[p.Type()] {
			if s.src == src {
				n++
			}
		}
		if n >= poolCapPerTypeAndSource {
			return
		}
		seen[k] = true
		count[p.Type()]++
		pool[p.Type()] = append(pool[p.Type()], sample{v: p.Interface(), enc: enc, wire: wire, src: src})
	}
	rv := reflect.ValueOf(r.v)
	add(rv, r.wire)
	isRoot := rv.Kind() == reflect.Pointer
	w := &walker{seen: map[seenKey]bool{}, budget: 400000}
	w.ptr = func(p reflect.Value) bool {
		if isRoot && p.Pointer() == rv.Pointer() && p.Type() == rv.Type() {
			return true // filed above, with its wire bytes
		}
		add(p, nil)
		return true
	}
	w.walk(rv, 0)
}

func safeEncode(e *entry, v any) (b []byte, err error) {
	defer func() {
		if r := recover(); r != nil {
			err = fmt.Errorf("MarshalCBOR panicked: %v", r)
		}
	}()
	return e.encode(v)
}

const defaultMaxSamples = 6

// load evaluates the entry's sources (once) and returns its samples: distinct encodings, a
// deterministic selection spread over the sources.
func (e *entry) load() ([]sample, error) {
	e.once.Do(func() {
		// leaf types occur in nearly every source: two are enough (and keep the runs per shard few)
		switch e.family {
		case famCurves, famNumbers, famShares:
			if len(e.sources) > 2 {
				e.sources = e.sources[:2]
			}
		}
		for _, sn := range e.sources {
			s := sources[sn]
			if s == nil {
				e.genErr = fmt.Errorf("entry %s names unknown source %q", e.name, sn)
				return
			}
			if err := s.ensure(); err != nil {
				e.genErr = err
				return
			}
		}
		poolMu.Lock()
		all := append([]sample(nil), pool[e.typ]...)
		poolMu.Unlock()
		want := map[string]bool{}
		for _, sn := range e.sources {
			want[sn] = true
		}
		bySrc := map[string][]sample{}
		for _, s := range all {
			if want[s.src] {
				bySrc[s.src] = append(bySrc[s.src], s)
			}
		}
		for _, ss := range bySrc {
			sort.SliceStable(ss, func(i, j int) bool {
				if (ss[i].wire != nil) != (ss[j].wire != nil) {
					return ss[i].wire != nil
				}
				if len(ss[i].enc) != len(ss[j].enc) {
					return len(ss[i].enc) > len(ss[j].enc)
				}
				return bytes.Compare(ss[i].enc, ss[j].enc) < 0
			})
		}
		max := e.maxSamples
		if max == 0 {
			max = defaultMaxSamples
		}
		seen := map[string]bool{}
		for round := 0; len(e.samples) < max; round++ {
			progressed := false
			for _, sn := range e.sources {
				ss := bySrc[sn]
				if round < len(ss) && len(e.samples) < max {
					progressed = true
					if !seen[string(ss[round].enc)] {
						seen[string(ss[round].enc)] = true
						e.samples = append(e.samples, ss[round])
					}
				}
			}
			if !progressed {
				break
			}
		}
	})
	return e.samples, e.genErr
}

// entriesOf lists the entries of one family.
func entriesOf(family string) []*entry {
	var out []*entry
	for _, e := range registry {
		if e.family == family {
			out = append(out, e)
		}
	}
	return out
}
