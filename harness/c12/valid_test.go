package c12

// Validity predicates, written from the constructors' rules (file and function named at each
// rule). A decoded object is walked completely (pointers, library structs including unexported
// fields, slices, maps, interfaces); every value whose type has a rule is judged by it, so a
// message is valid iff every share, vector, point, ciphertext ... inside it is. The rules READ the
// object (fields through reflection, values through accessor methods, big integers through
// Big()); curve membership is judged by the independent curve model vlib/refcurve on the
// canonical encoding of the point.

import (
	"fmt"
	"math/big"
	"reflect"
	"sort"
	"sync"

	"verif/harness/vlib/refcurve"
)

type vctx struct {
	modelSubgroupBudget int // model scalar multiplications by the group order are expensive
	modelCurveBudget    int
}

type rule func(c *vctx, v reflect.Value) error

var (
	ruleHitsMu sync.Mutex
	ruleHits   = map[string]int{}
)

// deepValid walks x and applies every rule. A panic while reading a decoded object is a broken
// object and reported as such.
func deepValid(x any) (err error) {
	if isNilAny(x) {
		return nil
	}
	defer func() {
		if r := recover(); r != nil {
			err = fmt.Errorf("reading the decoded object panicked: %v", r)
		}
	}()
	c := &vctx{modelSubgroupBudget: 6, modelCurveBudget: 64}
	w := &walker{seen: map[seenKey]bool{}, budget: 300000}
	w.strct = func(s reflect.Value) bool {
		if err != nil {
			return false
		}
		name := baseName(s.Type())
		if r, ok := rules[name]; ok {
			ruleHitsMu.Lock()
			ruleHits[name]++
			ruleHitsMu.Unlock()
			if e := r(c, s); e != nil {
				err = fmt.Errorf("%s: %w", shortType(s.Type()), e)
				return false
			}
		}
		return true
	}
	w.walk(reflect.ValueOf(x), 0)
	return err
}

// ---- small readers ---------------------------------------------------------------------------------

func bigOf(v reflect.Value) *big.Int {
	if isNilValue(v) {
		return nil
	}
	out := callM(v, "Big")
	b, _ := out[0].Interface().(*big.Int)
	return b
}

func u64(v reflect.Value) uint64 {
	switch v.Kind() {
	case reflect.Uint, reflect.Uint8, reflect.Uint16, reflect.Uint32, reflect.Uint64:
		return v.Uint()
	case reflect.Int, reflect.Int8, reflect.Int16, reflect.Int32, reflect.Int64:
		return uint64(v.Int())
	}
	panic("harness: not an integer: " + v.Type().String())
}

func boolM(v reflect.Value, name string) bool { return callM(v, name)[0].Bool() }

func nonNilAll(what string, s reflect.Value) error {
	for i := 0; i < s.Len(); i++ {
		if isNilValue(s.Index(i)) {
			return fmt.Errorf("%s[%d] is nil", what, i)
		}
	}
	return nil
}

// setIDs lists the members of a ds.Set[ID] / []ID / map[ID]bool value, sorted.
func setIDs(v reflect.Value) []uint64 {
	for v.Kind() == reflect.Interface {
		if v.IsNil() {
			return nil
		}
		v = v.Elem()
	}
	var out []uint64
	switch v.Kind() {
	case reflect.Slice:
		for i := 0; i < v.Len(); i++ {
			out = append(out, u64(v.Index(i)))
		}
	case reflect.Map:
		for _, k := range v.MapKeys() {
			out = append(out, u64(k))
		}
	default:
		l := callM(v, "List")[0]
		for i := 0; i < l.Len(); i++ {
			out = append(out, u64(l.Index(i)))
		}
	}
	sort.Slice(out, func(i, j int) bool { return out[i] < out[j] })
	return out
}

func hasZero(ids []uint64) bool { return len(ids) > 0 && ids[0] == 0 }

func subset(a, b []uint64) bool {
	m := map[uint64]bool{}
	for _, x := range b {
		m[x] = true
	}
	for _, x := range a {
		if !m[x] {
			return false
		}
	}
	return true
}

func distinct(ids []uint64) bool {
	for i := 1; i < len(ids); i++ {
		if ids[i] == ids[i-1] {
			return false
		}
	}
	return true
}

// ---- rules -----------------------------------------------------------------------------------------

var rules map[string]rule

func init() {
	rules = map[string]rule{
		// sharing/scheme/kw/share.go NewShare: id != 0, non-empty, no nil component
		"kw.Share": func(_ *vctx, v reflect.Value) error {
			if u64(fld(v, "id")) == 0 {
				return fmt.Errorf("share ID 0")
			}
			if fld(v, "v").Len() == 0 {
				return fmt.Errorf("empty share value")
			}
			return nonNilAll("value", fld(v, "v"))
		},
		// sharing/scheme/shamir/share.go NewShare
		"shamir.Share": func(_ *vctx, v reflect.Value) error {
			if u64(fld(v, "id")) == 0 {
				return fmt.Errorf("share ID 0")
			}
			if isNilValue(fld(v, "v")) {
				return fmt.Errorf("nil share value")
			}
			return nil
		},
		// sharing/scheme/isn/share.go NewShare
		"isn.Share": func(_ *vctx, v reflect.Value) error {
			if u64(fld(v, "id")) == 0 {
				return fmt.Errorf("share ID 0")
			}
			m := fld(v, "v")
			if m.IsNil() || m.Len() == 0 {
				return fmt.Errorf("empty share map")
			}
			it := m.MapRange()
			for it.Next() {
				if u64(it.Key()) == 0 {
					return fmt.Errorf("empty clause in the share map")
				}
				if isNilValue(it.Value()) {
					return fmt.Errorf("nil component in the share map")
				}
			}
			return nil
		},
		// sharing/vss/pedersen/share.go NewShare / UnmarshalCBOR
		"pedersen.Share": func(_ *vctx, v reflect.Value) error {
			if u64(fld(v, "id")) == 0 {
				return fmt.Errorf("share ID 0")
			}
			s, b := fld(v, "secret"), fld(v, "blinding")
			if s.Len() == 0 || s.Len() != b.Len() {
				return fmt.Errorf("secret / blinding lengths %d / %d", s.Len(), b.Len())
			}
			if err := nonNilAll("secret", s); err != nil {
				return err
			}
			return nonNilAll("blinding", b)
		},
		// sharing/vss/feldman/share.go NewLiftedShare
		"feldman.LiftedShare": liftedShareRule,
		// sharing/vss/pedersen/share.go NewLiftedShare
		"pedersen.LiftedShare": liftedShareRule,
		// sharing/vss/feldman/verification_vector.go NewVerificationVector: non-nil column vector
		"feldman.VerificationVector": func(_ *vctx, v reflect.Value) error {
			m := fld(v, "value")
			if isNilValue(m) {
				return fmt.Errorf("nil value")
			}
			if !boolM(m, "IsColumnVector") {
				return fmt.Errorf("not a column vector")
			}
			return nil
		},
		// base/mat/cbor.go: positive dimensions, data length = rows*cols, no nil entry
		"mat.Matrix":             matrixRule(false),
		"mat.SquareMatrix":       matrixRule(true),
		"mat.ModuleValuedMatrix": matrixRule(false),
		// base/polynomials/cbor.go: at least one coefficient, none nil
		"polynomials.Polynomial":             polyRule,
		"polynomials.ModuleValuedPolynomial": polyRule,
		// sharing/scheme/kw/msp/msp.go NewMSP
		"msp.MSP": func(_ *vctx, v reflect.Value) error {
			m := fld(v, "matrix")
			if isNilValue(m) {
				return fmt.Errorf("nil matrix")
			}
			d := callM(m, "Dimensions")
			rows := int(d[0].Int())
			r2h := fld(v, "rowsToHolders")
			if isNilValue(r2h) {
				return fmt.Errorf("nil rows-to-holders map")
			}
			keys := callM(r2h.Elem(), "Keys")[0]
			if keys.Len() != rows {
				return fmt.Errorf("%d rows but %d row labels", rows, keys.Len())
			}
			for i := 0; i < keys.Len(); i++ {
				k := keys.Index(i)
				if k.Int() < 0 || int(k.Int()) >= rows {
					return fmt.Errorf("row label %d out of range", k.Int())
				}
				g := callM(r2h.Elem(), "Get", k)
				if u64(g[0]) == 0 {
					return fmt.Errorf("row %d labelled with ID 0", k.Int())
				}
			}
			return nil
		},
		// accessstructures/threshold/threshold.go NewThresholdAccessStructure
		"threshold.Threshold": func(_ *vctx, v reflect.Value) error {
			t := u64(fld(v, "t"))
			ids := setIDs(fld(v, "ps"))
			if hasZero(ids) {
				return fmt.Errorf("shareholder ID 0")
			}
			if t < 2 || t > uint64(len(ids)) {
				return fmt.Errorf("threshold %d outside 2..%d", t, len(ids))
			}
			return nil
		},
		// accessstructures/unanimity/unanimity.go NewUnanimityAccessStructure
		"unanimity.Unanimity": func(_ *vctx, v reflect.Value) error {
			ids := setIDs(fld(v, "ps"))
			if hasZero(ids) || len(ids) < 2 {
				return fmt.Errorf("shareholders %v (need >= 2, no 0)", ids)
			}
			return nil
		},
		// accessstructures/cnf/cnf.go NewCNFAccessStructure / normaliseCNF
		"cnf.CNF": func(_ *vctx, v reflect.Value) error {
			sets := fld(v, "maximalUnqualifiedSets")
			if sets.Len() == 0 {
				return fmt.Errorf("no unqualified set")
			}
			var all [][]uint64
			union := map[uint64]bool{}
			for i := 0; i < sets.Len(); i++ {
				if isNilValue(sets.Index(i)) {
					return fmt.Errorf("nil unqualified set")
				}
				ids := setIDs(sets.Index(i))
				if len(ids) == 0 || hasZero(ids) {
					return fmt.Errorf("unqualified set %v (empty or contains 0)", ids)
				}
				all = append(all, ids)
				for _, x := range ids {
					union[x] = true
				}
			}
			for i := range all {
				for j := range all {
					if i != j && subset(all[i], all[j]) {
						return fmt.Errorf("unqualified set %v is contained in %v (not maximal / duplicate)", all[i], all[j])
					}
				}
			}
			sh := setIDs(fld(v, "shareholders"))
			if len(sh) < 2 || len(sh) != len(union) {
				return fmt.Errorf("shareholders %v are not the union of the sets (%d members) or fewer than 2", sh, len(union))
			}
			return nil
		},
		// accessstructures/hierarchical/cbor.go ThresholdLevel.UnmarshalCBOR
		"hierarchical.ThresholdLevel": func(_ *vctx, v reflect.Value) error {
			if fld(v, "threshold").Int() <= 0 {
				return fmt.Errorf("level threshold %d", fld(v, "threshold").Int())
			}
			ids := setIDs(fld(v, "parties"))
			if len(ids) == 0 || hasZero(ids) {
				return fmt.Errorf("level parties %v", ids)
			}
			return nil
		},
		// accessstructures/hierarchical/hierarchical.go NewHierarchicalConjunctiveThresholdAccessStructure
		"hierarchical.HierarchicalConjunctiveThreshold": func(_ *vctx, v reflect.Value) error {
			ls := fld(v, "levels")
			if ls.Len() < 1 {
				return fmt.Errorf("no level")
			}
			cum := map[uint64]bool{}
			prev := int64(0)
			for i := 0; i < ls.Len(); i++ {
				l := ls.Index(i)
				if l.IsNil() {
					return fmt.Errorf("nil level")
				}
				t := fld(l.Elem(), "threshold").Int()
				if t <= prev {
					return fmt.Errorf("thresholds not strictly increasing (%d after %d)", t, prev)
				}
				prev = t
				ids := setIDs(fld(l.Elem(), "parties"))
				if hasZero(ids) {
					return fmt.Errorf("ID 0 in a level")
				}
				for _, x := range ids {
					if cum[x] {
						return fmt.Errorf("party %d in two levels (or twice in one)", x)
					}
					cum[x] = true
				}
				if int64(len(cum)) < t {
					return fmt.Errorf("threshold %d exceeds the %d parties of the levels so far", t, len(cum))
				}
			}
			return nil
		},
		// accessstructures/boolexpr/cbor.go Node.UnmarshalCBOR (local rules)
		"boolexpr.Node": func(_ *vctx, v reflect.Value) error {
			kind := fld(v, "kind").Uint()
			switch kind {
			case 1: // gate
				t, n := fld(v, "threshold").Int(), fld(v, "children").Len()
				if t < 1 || n == 0 || int(t) > n {
					return fmt.Errorf("gate threshold %d with %d children", t, n)
				}
			case 2: // attribute
				if u64(fld(v, "attr")) == 0 {
					return fmt.Errorf("attribute 0")
				}
			}
			return nil
		},
		// accessstructures/boolexpr/boolexpr.go NewThresholdGateAccessStructure / checkTree
		"boolexpr.ThresholdGateAccessStructure": func(_ *vctx, v reflect.Value) error {
			leaves := map[uint64]bool{}
			var check func(n reflect.Value) error
			check = func(n reflect.Value) error {
				if n.IsNil() {
					return fmt.Errorf("nil node")
				}
				n = n.Elem()
				switch fld(n, "kind").Uint() {
				case 2:
					a := u64(fld(n, "attr"))
					if a == 0 {
						return fmt.Errorf("attribute 0")
					}
					leaves[a] = true
					return nil
				case 1:
					ch := fld(n, "children")
					t := fld(n, "threshold").Int()
					if t <= 0 || int(t) > ch.Len() {
						return fmt.Errorf("gate threshold %d with %d children", t, ch.Len())
					}
					attrs := map[uint64]bool{}
					for i := 0; i < ch.Len(); i++ {
						c := ch.Index(i)
						if c.IsNil() {
							return fmt.Errorf("nil child")
						}
						if fld(c.Elem(), "kind").Uint() == 2 {
							a := u64(fld(c.Elem(), "attr"))
							if attrs[a] {
								return fmt.Errorf("duplicate attribute %d under one gate", a)
							}
							attrs[a] = true
						}
						if err := check(c); err != nil {
							return err
						}
					}
					return nil
				}
				return fmt.Errorf("unknown node kind %d", fld(n, "kind").Uint())
			}
			if err := check(fld(v, "root")); err != nil {
				return err
			}
			sh := fld(v, "shareholders")
			if sh.Len() != len(leaves) {
				return fmt.Errorf("%d shareholders but %d distinct leaves", sh.Len(), len(leaves))
			}
			it := sh.MapRange()
			for it.Next() {
				if !leaves[u64(it.Key())] || !it.Value().Bool() {
					return fmt.Errorf("shareholder %d not a leaf of the tree (or mapped to false)", u64(it.Key()))
				}
			}
			return nil
		},
		// mpc/base.go NewBasePublicMaterial
		"mpc.BasePublicMaterial": func(_ *vctx, v reflect.Value) error {
			m, fv := fld(v, "msp"), fld(v, "fv")
			if isNilValue(m) || isNilValue(fv) {
				return fmt.Errorf("nil MSP or verification vector")
			}
			d := callM(callM(fv, "Value")[0], "Dimensions")
			cols := callM(callM(m, "Matrix")[0], "Dimensions")[1].Int()
			if d[1].Int() != 1 || d[0].Int() != cols {
				return fmt.Errorf("verification vector %dx%d against %d MSP columns", d[0].Int(), d[1].Int(), cols)
			}
			if isNilValue(fld(v, "pkShares")) || isNilValue(fld(v, "pkValue")) {
				return fmt.Errorf("derived public values missing")
			}
			return nil
		},
		// mpc/base.go NewBaseShard (the semantic part is the typed rule baseShardConsistent)
		"mpc.BaseShard": func(_ *vctx, v reflect.Value) error {
			if isNilValue(fld(v, "share")) {
				return fmt.Errorf("nil share")
			}
			return baseShardConsistent(v)
		},
		// mpc/signatures/ecdsa/dkls23/dkls23.go NewPartialSignature
		"dkls23.PartialSignature": func(_ *vctx, v reflect.Value) error {
			r, u, w := fld(v, "r"), fld(v, "u"), fld(v, "w")
			if isNilValue(r) || isNilValue(u) || isNilValue(w) {
				return fmt.Errorf("nil component")
			}
			if boolM(r, "IsOpIdentity") || boolM(u, "IsZero") || boolM(w, "IsZero") {
				return fmt.Errorf("identity nonce or zero u / w")
			}
			return nil
		},
		// mpc/signatures/ecdsa/lindell17/shard.go NewAuxiliaryInfo
		"lindell17.AuxiliaryInfo": func(_ *vctx, v reflect.Value) error {
			if isNilValue(fld(v, "paillierSecretKey")) {
				return fmt.Errorf("nil Paillier secret key")
			}
			pks, cts := fld(v, "paillierPublicKeys"), fld(v, "encryptedShares")
			if isNilValue(pks) || isNilValue(cts) {
				return fmt.Errorf("nil map")
			}
			a, b := setIDs(callM(pks.Elem(), "Keys")[0]), setIDs(callM(cts.Elem(), "Keys")[0])
			if fmt.Sprint(a) != fmt.Sprint(b) {
				return fmt.Errorf("public keys of %v but encrypted shares of %v", a, b)
			}
			for _, id := range callMKeys(pks.Elem()) {
				pk := callM(pks.Elem(), "Get", id)[0]
				ct := callM(cts.Elem(), "Get", id)[0]
				if pk.IsNil() || ct.Len() == 0 {
					return fmt.Errorf("nil key or empty ciphertext list for %d", u64(id))
				}
				n := bigOf(callM(callM(pk, "Group")[0], "N")[0])
				for i := 0; i < ct.Len(); i++ {
					if ct.Index(i).IsNil() {
						return fmt.Errorf("nil ciphertext for %d", u64(id))
					}
					cn := bigOf(callM(callM(ct.Index(i), "Group")[0], "N")[0])
					if n == nil || cn == nil || n.Cmp(cn) != 0 {
						return fmt.Errorf("ciphertext for %d lives in another group than the holder's key", u64(id))
					}
				}
			}
			return nil
		},
		// signatures/ecdsa/signature.go NewSignature
		"ecdsa.Signature": func(_ *vctx, v reflect.Value) error {
			r, s := fld(v, "r"), fld(v, "s")
			if isNilValue(r) || isNilValue(s) {
				return fmt.Errorf("nil r / s")
			}
			if boolM(r, "IsZero") || boolM(s, "IsZero") {
				return fmt.Errorf("r or s is zero")
			}
			if rv := fld(v, "v"); !rv.IsNil() && (rv.Elem().Int() < 0 || rv.Elem().Int() > 3) {
				return fmt.Errorf("recovery id %d", rv.Elem().Int())
			}
			return nil
		},
		// signatures/ecdsa/pk.go NewPublicKey
		"ecdsa.PublicKey": func(_ *vctx, v reflect.Value) error {
			p := fld(v, "pk")
			if isNilValue(p) {
				return fmt.Errorf("nil point")
			}
			if boolM(p, "IsOpIdentity") {
				return fmt.Errorf("identity public key")
			}
			return nil
		},
		// signatures/schnorrlike/schnorrlike.go NewPublicKey, signatures/bls/types.go NewPublicKey
		"schnorrlike.PublicKey": keyPointRule("PublicKeyTrait"),
		"bls.PublicKey":         keyPointRule("PublicKeyTrait"),
		// signatures/bls/types.go NewSignature / NewProofOfPossession
		"bls.Signature":         sigPointRule,
		"bls.ProofOfPossession": sigPointRule,
		// commitments/pedersencom/key.go NewCommitmentKeyUnchecked
		"pedersencom.CommitmentKey": func(_ *vctx, v reflect.Value) error {
			g, h := fld(v, "g"), fld(v, "h")
			if isNilValue(g) || isNilValue(h) {
				return fmt.Errorf("nil generator")
			}
			if boolM(g, "IsOpIdentity") || boolM(h, "IsOpIdentity") {
				return fmt.Errorf("identity generator")
			}
			if callM(g, "Equal", h)[0].Bool() {
				return fmt.Errorf("g = h")
			}
			return nil
		},
		// commitments/pedersencom/trapdoor.go NewTrapdoorKey
		"pedersencom.TrapdoorKey": func(_ *vctx, v reflect.Value) error {
			l := fld(v, "lambda")
			if isNilValue(l) {
				return fmt.Errorf("nil trapdoor")
			}
			if boolM(l, "IsZero") || boolM(l, "IsOne") {
				return fmt.Errorf("trapdoor 0 or 1")
			}
			ck := fld(v, "CommitmentKey")
			g, h := fld(ck, "g"), fld(ck, "h")
			if isNilValue(g) || isNilValue(h) {
				return fmt.Errorf("nil generator")
			}
			if !callM(callM(g, "ScalarOp", l)[0], "Equal", h)[0].Bool() {
				return fmt.Errorf("h != [lambda]g")
			}
			return nil
		},
		"pedersencom.Commitment":  nonNilField("v"),
		"pedersencom.Witness":     nonNilField("r"),
		"pedersencom.Message":     nonNilField("m"),
		"indcpacom.Commitment":    nonNilField("c"),
		"indcpacom.Witness":       nonNilField("s"),
		"indcpacom.Message":       nonNilField("m"),
		"indcpacom.CommitmentKey": nonNilField("encryptionKey"),
		"intcom.Commitment":       nonNilField("v"),
		"intcom.Witness":          nonNilField("r"),
		"intcom.Message":          nonNilField("m"),
		// encryption/paillier: NewPublicKey / NewSecretKey (group not nil), ciphertext / nonce / plaintext components not nil
		"paillier.PublicKey":  nonNilField("group"),
		"paillier.Ciphertext": nonNilField("c"),
		"paillier.Nonce":      nonNilField("r"),
		"paillier.Plaintext":  nonNilField("p"),
		"paillier.SecretKey": func(_ *vctx, v reflect.Value) error {
			if isNilValue(fld(v, "group")) {
				return fmt.Errorf("nil group")
			}
			return nil
		},
		// base/nt/num/cbor.go
		"num.NatPlus": func(_ *vctx, v reflect.Value) error {
			if isNilValue(fld(v, "v")) {
				return fmt.Errorf("nil value")
			}
			if bigOf(v).Sign() <= 0 {
				return fmt.Errorf("NatPlus is zero")
			}
			return nil
		},
		"num.Nat": nonNilField("v"),
		"num.Int": nonNilField("v"),
		"num.Uint": func(_ *vctx, v reflect.Value) error {
			if isNilValue(fld(v, "v")) || isNilValue(fld(v, "m")) {
				return fmt.Errorf("nil value or modulus")
			}
			val, m := bigOf(fld(v, "v")), bigOf(fld(v, "m"))
			if m.Sign() <= 0 || val.Sign() < 0 || val.Cmp(m) >= 0 {
				return fmt.Errorf("value %s not in [0, %s)", val, m)
			}
			return nil
		},
		"num.Rat": func(_ *vctx, v reflect.Value) error {
			if isNilValue(fld(v, "a")) || isNilValue(fld(v, "b")) {
				return fmt.Errorf("nil numerator or denominator")
			}
			return nil
		},
		"num.ZMod": nonNilField("n"),
		// base/nt/modular/unknown.go NewSimple
		"modular.SimpleModulus": nonNilField("m"),
		// base/nt/znstar: elements are units of their group (FromUint)
		"znstar.UnitTrait": func(_ *vctx, v reflect.Value) error {
			u := fld(v, "v")
			if isNilValue(u) {
				return fmt.Errorf("nil value")
			}
			if isNilValue(fld(u.Elem(), "v")) || isNilValue(fld(u.Elem(), "m")) {
				return fmt.Errorf("nil value or modulus inside the element")
			}
			val, m := bigOf(fld(u.Elem(), "v")), bigOf(fld(u.Elem(), "m"))
			if m.Sign() <= 0 || val.Cmp(m) >= 0 {
				return fmt.Errorf("element %s not below its modulus", val)
			}
			if new(big.Int).GCD(nil, nil, val, m).Cmp(big.NewInt(1)) != 0 {
				return fmt.Errorf("element is not coprime to the modulus")
			}
			return nil
		},
		// proofs/sigma/compiler/fiatshamir/zkmodule/zkmodule.go Proof.UnmarshalCBOR
		"zkmodule.Proof": func(_ *vctx, v reflect.Value) error {
			if isNilValue(fld(v, "a")) || fld(v, "e").Len() == 0 || isNilValue(fld(v, "z")) {
				return fmt.Errorf("missing component")
			}
			return nil
		},
		// proofs/sigma/compiler/fischlin, randfischlin: Proof.UnmarshalCBOR
		"fischlin.Proof":     fischlinRule(0),
		"randfischlin.Proof": fischlinRule(16),
		// proofs/internal/meta/maurer09/protocol.go
		"maurer09.Statement":  nonNilField("X"),
		"maurer09.Commitment": nonNilField("A"),
		"maurer09.Response":   nonNilField("Z"),
		"maurer09.Witness":    nonNilField("W"),
		"maurer09.State":      nonNilField("S"),
		// curves: every decoded point is on its curve; the prime-subgroup types are in the subgroup
		"k256.Point":                      pointRule(refcurve.K256(), "sec1", false),
		"p256.Point":                      pointRule(refcurve.P256(), "sec1", false),
		"pasta.PallasPoint":               pointRule(refcurve.PallasMina(), "pasta", false),
		"pasta.VestaPoint":                pointRule(refcurve.VestaMina(), "pasta", false),
		"edwards25519.Point":              pointRule(refcurve.Ed25519(), "ed", false),
		"edwards25519.PrimeSubGroupPoint": pointRule(refcurve.Ed25519(), "ed", true),
		"bls12381.PointG1":                pointRule(refcurve.BLS12381G1(), "zcash", true),
		"bls12381.PointG2":                pointRule(refcurve.BLS12381G2(), "zcash", true),
		"curve25519.PrimeSubGroupPoint":   libTorsionRule,
	}
}

func callMKeys(m reflect.Value) []reflect.Value {
	ks := callM(m, "Keys")[0]
	out := make([]reflect.Value, ks.Len())
	for i := range out {
		out[i] = ks.Index(i)
	}
	return out
}

func nonNilField(name string) rule {
	return func(_ *vctx, v reflect.Value) error {
		if isNilValue(fld(v, name)) {
			return fmt.Errorf("nil %s", name)
		}
		return nil
	}
}

func liftedShareRule(_ *vctx, v reflect.Value) error {
	if u64(fld(v, "id")) == 0 {
		return fmt.Errorf("share ID 0")
	}
	if fld(v, "v").Len() == 0 {
		return fmt.Errorf("empty value")
	}
	return nonNilAll("value", fld(v, "v"))
}

func polyRule(_ *vctx, v reflect.Value) error {
	c := fld(v, "coeffs")
	if c.Len() == 0 {
		return fmt.Errorf("no coefficient")
	}
	return nonNilAll("coefficient", c)
}

func matrixRule(square bool) rule {
	return func(_ *vctx, v reflect.Value) error {
		d := callM(v, "Dimensions")
		rows, cols := int(d[0].Int()), int(d[1].Int())
		if rows <= 0 || cols <= 0 {
			return fmt.Errorf("dimensions %dx%d", rows, cols)
		}
		if square && rows != cols {
			return fmt.Errorf("square matrix of %dx%d", rows, cols)
		}
		n := 0
		for i := 0; i < rows; i++ {
			for j := 0; j < cols; j++ {
				g := callM(v, "Get", reflect.ValueOf(i), reflect.ValueOf(j))
				if !g[1].IsNil() {
					return fmt.Errorf("entry (%d,%d) unreadable: %v", i, j, g[1].Interface())
				}
				if isNilValue(g[0]) {
					return fmt.Errorf("entry (%d,%d) is nil", i, j)
				}
				n++
				if n > 4096 {
					return nil
				}
			}
		}
		return nil
	}
}

func keyPointRule(trait string) rule {
	return func(_ *vctx, v reflect.Value) error {
		p := fld(fld(v, trait), "V")
		if isNilValue(p) {
			return fmt.Errorf("nil key point")
		}
		if boolM(p, "IsOpIdentity") {
			return fmt.Errorf("identity key")
		}
		if !boolM(p, "IsTorsionFree") {
			return fmt.Errorf("key outside the prime-order subgroup")
		}
		return nil
	}
}

func sigPointRule(_ *vctx, v reflect.Value) error {
	p := fld(v, "v")
	if isNilValue(p) {
		return fmt.Errorf("nil point")
	}
	if boolM(p, "IsOpIdentity") {
		return fmt.Errorf("identity point")
	}
	if !boolM(p, "IsTorsionFree") {
		return fmt.Errorf("point outside the prime-order subgroup")
	}
	return nil
}

func fischlinRule(exact int) rule {
	return func(_ *vctx, v reflect.Value) error {
		a, e, z := fld(v, "A"), fld(v, "E"), fld(v, "Z")
		if a.Len() == 0 || a.Len() != e.Len() || a.Len() != z.Len() {
			return fmt.Errorf("repetition counts %d / %d / %d", a.Len(), e.Len(), z.Len())
		}
		if exact != 0 && a.Len() != exact {
			return fmt.Errorf("%d repetitions, the compiler fixes %d", a.Len(), exact)
		}
		for i := 0; i < a.Len(); i++ {
			if isNilValue(a.Index(i)) || e.Index(i).Len() == 0 || isNilValue(z.Index(i)) {
				return fmt.Errorf("repetition %d has a missing component", i)
			}
		}
		return nil
	}
}

func libTorsionRule(_ *vctx, v reflect.Value) error {
	if !boolM(v, "IsTorsionFree") {
		return fmt.Errorf("point outside the prime-order subgroup (library check)")
	}
	return nil
}

// pointRule decodes the point's canonical encoding in the independent curve model: it must denote
// a point of the curve, and (for the types that promise it) a point of the prime-order subgroup.
func pointRule(c *refcurve.Curve, format string, promisesSubgroup bool) rule {
	return func(x *vctx, v reflect.Value) error {
		if boolM(v, "IsOpIdentity") {
			return nil // the neutral element is a value of every point type (its encoding is a convention of the library)
		}
		enc := callM(v, "ToCompressed")[0].Bytes()
		if x.modelCurveBudget > 0 {
			x.modelCurveBudget--
			var p refcurve.Point
			var err error
			switch format {
			case "sec1":
				p, _, err = c.DecodeSEC1(enc)
			case "pasta":
				p, _, err = c.DecodePasta(enc)
			case "ed":
				p, _, err = refcurve.DecodeEd25519(enc)
			case "zcash":
				p, _, err = c.DecodeZcash(enc)
			}
			if err != nil {
				return fmt.Errorf("encoding %x is not a point of %s in the reference model: %v", enc, c.Name, err)
			}
			if promisesSubgroup && x.modelSubgroupBudget > 0 {
				x.modelSubgroupBudget--
				if !c.IsInPrimeSubgroup(p) {
					return fmt.Errorf("point %x is outside the prime-order subgroup of %s (reference model)", enc, c.Name)
				}
				return nil
			}
		}
		if promisesSubgroup && !boolM(v, "IsTorsionFree") {
			return fmt.Errorf("point %x is outside the prime-order subgroup (library check)", enc)
		}
		return nil
	}
}

// baseShardConsistent recomputes, with the group operations only, the public share of the
// shard's holder from the verification vector and the MSP rows (sum_j M[i][j] * V[j]) and compares
// it with the lifted private share and with the stored public share.
func baseShardConsistent(v reflect.Value) error {
	pm := fld(v, "BasePublicMaterial")
	share := fld(v, "share")
	if isNilValue(fld(pm, "msp")) || isNilValue(fld(pm, "fv")) {
		return fmt.Errorf("nil MSP or verification vector")
	}
	id := callM(share, "ID")[0]
	vals := callM(share, "Value")[0]
	mspV := fld(pm, "msp")
	matrix := callM(mspV, "Matrix")[0]
	d := callM(matrix, "Dimensions")
	rows, cols := int(d[0].Int()), int(d[1].Int())
	r2h := callM(mspV, "RowsToHolders")[0]
	var myRows []int
	for i := 0; i < rows; i++ {
		g := callM(r2h, "Get", reflect.ValueOf(i))
		if g[1].Bool() && u64(g[0]) == u64(id) {
			myRows = append(myRows, i)
		}
	}
	if len(myRows) == 0 {
		return fmt.Errorf("share ID %d labels no MSP row", u64(id))
	}
	if len(myRows) != vals.Len() {
		return fmt.Errorf("holder %d owns %d rows but the share has %d components", u64(id), len(myRows), vals.Len())
	}
	vv := callM(fld(pm, "fv"), "Value")[0]
	pks := fld(pm, "pkShares")
	got := callM(pks.Elem(), "Get", id)
	if !got[1].Bool() || got[0].IsNil() {
		return fmt.Errorf("no public share stored for the holder %d", u64(id))
	}
	pubVals := callM(got[0], "Value")[0]
	if pubVals.Len() != vals.Len() {
		return fmt.Errorf("public share has %d components, private share %d", pubVals.Len(), vals.Len())
	}
	var gen reflect.Value
	for k, i := range myRows {
		var acc reflect.Value
		for j := 0; j < cols; j++ {
			mij := callM(matrix, "Get", reflect.ValueOf(i), reflect.ValueOf(j))[0]
			vj := callM(vv, "Get", reflect.ValueOf(j), reflect.ValueOf(0))[0]
			term := callM(vj, "ScalarOp", mij)[0]
			if !acc.IsValid() {
				acc = term
			} else {
				acc = callM(acc, "Op", term)[0]
			}
			if !gen.IsValid() {
				gen = callM(callM(vj, "Structure")[0], "Generator")[0]
			}
		}
		lifted := callM(gen, "ScalarOp", vals.Index(k))[0]
		if !callM(lifted, "Equal", acc)[0].Bool() {
			return fmt.Errorf("component %d of the private share of holder %d does not lift to the public share derived from the verification vector", k, u64(id))
		}
		if !callM(pubVals.Index(k), "Equal", acc)[0].Bool() {
			return fmt.Errorf("stored public share component %d of holder %d differs from the one derived from the verification vector", k, u64(id))
		}
	}
	return nil
}
