package c12

import (
	"bytes"
	"fmt"
	"hash/fnv"
	"sort"
	"strings"
	"testing"

	"pgregory.net/rapid"

	"verif/harness/vlib"
	"verif/harness/vlib/cbormut"
)

// mine shards the registry: all entries with the same primary source go to the same shard, so
// that a protocol run is (mostly) paid for by one shard only.
func mine(i int, e *entry) bool {
	_, n := vlib.Shard()
	if n <= 1 || len(e.sources) == 0 {
		return vlib.Mine(i)
	}
	h := fnv.New32a()
	_, _ = h.Write([]byte(e.sources[0]))
	return vlib.Mine(int(h.Sum32() % 65521))
}

// mustSamples loads the samples of an entry; a source that fails or an entry without samples is a
// failure of the harness' own corpus (reported as a test failure, never silently skipped).
func mustSamples(t testing.TB, e *entry) []sample {
	t.Helper()
	ss, err := e.load()
	if err != nil {
		t.Errorf("corpus: %s: %v", e.name, err)
		return nil
	}
	if len(ss) == 0 {
		t.Errorf("corpus: no sample of %s was produced by its sources %v", e.name, e.sources)
		return nil
	}
	return ss
}

// TestRegistry: the registry covers what it says and every validity rule was exercised on valid
// values (a rule that never fires checks nothing).
func TestRegistry(t *testing.T) {
	const test = "Registry"
	seen := map[string]int{}
	for i, e := range registry {
		seen[e.family]++
		if !mine(i, e) {
			continue
		}
		ss := mustSamples(t, e)
		if ss == nil {
			continue
		}
		vlib.Case(test, e.name, compositeEncoding(ss[0].enc), "family="+e.family, fmt.Sprintf("samples=%d", len(ss)))
	}
	for _, f := range families {
		if seen[f] == 0 {
			t.Fatalf("family %s has no entry", f)
		}
	}
	t.Logf("registry: %d entries %v", len(registry), seen)
	vlib.Exhaustive(fmt.Sprintf("registry of %d serialisable types (entry list in TestRegistry)", len(registry)))
}

// TestRoundTrip is oracle (R) on every sample of every entry, plus the self-check of the validity
// predicates (every honestly produced value must satisfy them).
func TestRoundTrip(t *testing.T) {
	const test = "RoundTrip"
	for i, e := range registry {
		if !mine(i, e) {
			continue
		}
		for k, s := range mustSamples(t, e) {
			failed := false
			fail := func(f string, a ...any) { failed = true; t.Errorf(f, a...) }
			what := fmt.Sprintf("%s sample %d (from %s) encoding %s", e.name, k, s.src, hx(s.enc))
			b2, err := safeEncode(e, s.v)
			if err != nil || !bytes.Equal(b2, s.enc) {
				fail("%s: encoding twice gives different bytes (second %s err=%v)", what, hx(b2), err)
			}
			if s.wire != nil && !sameEncoding(e, s.wire, s.enc) {
				fail("%s: the message as sent on the wire is %s, the decoded message re-encodes differently", what, hx(s.wire))
			}
			if failed {
				continue
			}
			if err := deepValid(s.v); err != nil {
				fail("harness or library: %s: an honestly produced value fails its validity predicate: %v", what, err)
			}
			if failed {
				continue
			}
			v := judge(e, s.enc)
			if v.viol != "" {
				fail("%s: %s", what, v.viol)
				continue
			}
			if v.class != "accepted-same" {
				fail("%s: decoding the valid encoding gives class %q (want accepted and re-encoded to the same bytes)", what, v.class)
			}
			if failed {
				continue
			}
			var dec any
			if p, _ := safely(func() { dec, err = e.decode(s.enc) }); p != nil || err != nil {
				fail("%s: does not decode: %v %v", what, p, err)
				continue
			}
			eq, how, err := equalAny(e, s.v, dec)
			if err != nil || !eq {
				fail("%s: the decoded value is not equal (%s) to the encoded one (err=%v)", what, how, err)
				continue
			}
			comp := compositeEncoding(s.enc)
			vlib.Case(test, vlib.Desc(e.name, "R"), comp, "family="+e.family, "equality="+how)
			if k == 0 {
				vlib.Sample("roundtrip", map[string]any{"type": e.name, "source": s.src, "bytes": len(s.enc), "equality": how})
			}
		}
	}
	ruleHitsMu.Lock()
	var hit []string
	for n, c := range ruleHits {
		hit = append(hit, fmt.Sprintf("%s:%d", n, c))
	}
	ruleHitsMu.Unlock()
	sort.Strings(hit)
	t.Logf("validity rules exercised on valid samples: %s", strings.Join(hit, " "))
	vlib.Exhaustive("oracle R on every corpus sample of every registry entry")
}

// TestKnownFindings re-observes the catalogued deviations that are not tied to a structural
// placement (those are re-observed by TestStructural).
func TestKnownFindings(t *testing.T) {
	const test = "KnownFindings"
	if e := byName["*hierarchical.HierarchicalConjunctiveThreshold"]; e == nil || !mine(0, e) {
		t.Skip("observed by the shard that owns the access structures")
	}
	present, what := observeHierOrder()
	vlib.Known(knownHierOrder, present, what)
	vlib.Case(test, knownHierOrder, true, fmt.Sprintf("present=%v", present))
	t.Logf("%s present=%v: %s", knownHierOrder, present, what)
}

// ---- (M) malformed containers --------------------------------------------------------------------------------

func limitPos(ps []pos, n int) []pos {
	if len(ps) <= n {
		return ps
	}
	out := []pos{ps[0], ps[len(ps)-1]}
	step := len(ps) / (n - 1)
	for i := step; len(out) < n && i < len(ps)-1; i += step {
		out = append(out, ps[i])
	}
	return out
}

// TestMalformed is oracle (M): duplicate map key, unknown field, indefinite-length array / map /
// string and trailing bytes, derived mechanically from valid encodings, must be rejected. Other
// strictness options are recorded per type.
func TestMalformed(t *testing.T) {
	const test = "Malformed"
	for i, e := range registry {
		if !mine(i, e) {
			continue
		}
		ss := mustSamples(t, e)
		if ss == nil {
			continue
		}
		if len(ss) > 2 {
			ss = ss[:2]
		}
		for _, s := range ss {
			comp := compositeEncoding(s.enc)
			mustReject := func(class, where string, b []byte) {
				var obj any
				var err error
				if p, st := safely(func() { obj, err = e.decode(b) }); p != nil {
					if !tolerated(e, "malformed-"+class, where, "panic", b) {
						t.Fatalf("%s: decoding a %s (%s) PANICKED: %v\n%s\ninput %s", e.name, class, where, p, trimStack(st), hx(b))
					}
					return
				}
				if err == nil {
					t.Errorf("%s: a malformed container was ACCEPTED: %s at %s (decoded %T nil=%v)\nvalid   %s\ninput   %s", e.name, class, where, obj, isNilAny(obj), hx(s.enc), hx(b))
					return
				}
				vlib.Case(test, vlib.Desc(e.name, "M", class), comp, "class="+class, "family="+e.family)
			}
			record := func(class string, b []byte) {
				var err error
				if p, _ := safely(func() { _, err = e.decode(b) }); p != nil {
					vlib.Class(test, "recorded:"+class+"=panic")
					return
				}
				if err != nil {
					vlib.Class(test, "recorded:"+class+"=rejected")
				} else {
					vlib.Class(test, "recorded:"+class+"=accepted")
				}
			}
			parse := func() (*cbormut.Node, []pos) {
				r, err := cbormut.Parse(s.enc)
				if err != nil {
					t.Fatalf("harness: valid encoding of %s does not parse: %v", e.name, err)
				}
				return r, positions(r)
			}
			// trailing bytes
			mustReject("trailing-bytes", "00", append(append([]byte(nil), s.enc...), 0x00))
			mustReject("trailing-bytes", "copy", append(append([]byte(nil), s.enc...), s.enc...))
			mustReject("trailing-bytes", "break", append(append([]byte(nil), s.enc...), 0xff))
			// duplicate key / unknown field at (a selection of) the maps
			_, ps := parse()
			var maps, conts []int
			for k, p := range ps {
				if p.node.Major == 5 && len(p.node.Items) >= 2 {
					maps = append(maps, k)
				}
				if p.node.Major == 4 || p.node.Major == 5 || p.node.Major == 2 || p.node.Major == 3 {
					conts = append(conts, k)
				}
			}
			pick := func(idx []int, n int) []int {
				if len(idx) <= n {
					return idx
				}
				out := []int{idx[0], idx[len(idx)-1]}
				for k := 1; len(out) < n; k++ {
					out = append(out, idx[k*len(idx)/n])
				}
				return out
			}
			for _, k := range pick(maps, 4) {
				r, ps := parse()
				m := ps[k].node
				m.Items = append(m.Items, m.Items[0].Clone(), m.Items[1].Clone())
				mustReject("duplicate-key", ps[k].class, r.Encode())
				r, ps = parse()
				m = ps[k].node
				m.Items = append(m.Items, m.Items[len(m.Items)-2].Clone(), simple(22))
				mustReject("duplicate-key", ps[k].class+"(last,null)", r.Encode())
				if m.Items[0].Major == 3 { // a struct: text keys
					r, ps = parse()
					m = ps[k].node
					m.Items = append(m.Items, &cbormut.Node{Major: 3, Bytes: []byte("zzUnknownField")}, &cbormut.Node{Major: 0, Val: 1})
					mustReject("unknown-field", ps[k].class, r.Encode())
					r, ps = parse()
					m = ps[k].node
					m.Items = append([]*cbormut.Node{{Major: 3, Bytes: []byte("a")}, simple(22)}, m.Items...)
					mustReject("unknown-field", ps[k].class+"(first,null)", r.Encode())
				}
			}
			// indefinite lengths
			for _, k := range pick(conts, 6) {
				r, ps := parse()
				ps[k].node.Indef = true
				kind := map[byte]string{2: "bytes", 3: "text", 4: "array", 5: "map"}[ps[k].node.Major]
				mustReject("indefinite-"+kind, ps[k].class, r.Encode())
			}
			// indefinite map KEY strings
			for _, k := range pick(maps, 2) {
				r, ps := parse()
				if key := ps[k].node.Items[0]; key.Major == 3 {
					key.Indef = true
					mustReject("indefinite-text", ps[k].class+"(key)", r.Encode())
				}
			}
			// recorded only
			r, ps := parse()
			if r.Major == 6 {
				record("registered-tag-removed", r.Items[0].Encode())
			}
			record("foreign-outer-tag", (&cbormut.Node{Major: 6, Val: 59999, Items: []*cbormut.Node{r}}).Encode())
			for _, p := range ps {
				if p.node.Major == 0 && p.parent != nil {
					r2, ps2 := parse()
					for _, q := range ps2 {
						if q.path == p.path {
							q.node.PadArg = 8
							record("non-minimal-integer", r2.Encode())
							r3, ps3 := parse()
							for _, q3 := range ps3 {
								if q3.path == p.path {
									be := []byte{byte(q3.node.Val >> 8), byte(q3.node.Val)}
									q3.parent.Items[q3.idx] = &cbormut.Node{Major: 6, Val: 2, Items: []*cbormut.Node{{Major: 2, Bytes: be}}}
									record("bignum-tag-for-integer", r3.Encode())
								}
							}
						}
					}
					break
				}
			}
			for _, p := range ps {
				if p.node.Major == 5 && len(p.node.Items) >= 2 && p.node.Items[0].Major == 3 {
					r2, ps2 := parse()
					for _, q := range ps2 {
						if q.path == p.path {
							q.node.Items[0].Major = 2
							record("byte-string-field-name", r2.Encode())
						}
					}
					break
				}
			}
		}
	}
	vlib.Exhaustive("oracle M (duplicate key, unknown field, indefinite lengths, trailing bytes) on the first two samples of every registry entry")
}

// ---- (V) enumerated structural alterations -------------------------------------------------------------------

// TestStructural enumerates, for the first sample of every entry, every (field class, structural
// operator) placement: null / undefined / missing field / empty container / wrong kind /
// self-described tag. All results are well-formed CBOR. Oracle V.
func TestStructural(t *testing.T) {
	const test = "Structural"
	for i, e := range registry {
		if !mine(i, e) {
			continue
		}
		ss0 := mustSamples(t, e)
		if ss0 == nil {
			continue
		}
		type obs struct {
			example string
			sites   map[string]bool
			n       int
		}
		failing := map[string]*obs{} // pin key -> what was seen
		seen := map[string]bool{}
		// all samples: a later sample contributes the field classes the earlier ones do not have
		for _, s := range ss0 {
			root, err := cbormut.Parse(s.enc)
			if err != nil {
				t.Fatalf("harness: valid encoding of %s does not parse: %v", e.name, err)
			}
			for _, p0 := range positions(root) {
				if seen[p0.class] {
					continue
				}
				seen[p0.class] = true
				for _, op := range structuralOps {
					r := root.Clone()
					var target pos
					for _, q := range positions(r) {
						if q.path == p0.path {
							target = q
							break
						}
					}
					if !applyStructural(&r, target, op) {
						continue
					}
					b := r.Encode()
					v := judge(e, b)
					if v.viol != "" {
						key := pinString(e, op, p0.class, v.kind)
						o := failing[key]
						if o == nil {
							o = &obs{sites: map[string]bool{}}
							failing[key] = o
						}
						o.n++
						if v.site != "" {
							o.sites[v.site] = true
						}
						if o.example == "" || len(b) < 24 {
							o.example = fmt.Sprintf("%s@%s input %s", op, p0.class, vlib.Hex(b))
						}
						if collectMode && v.site != "" {
							fmt.Printf("SITE %s %s\n", key, v.site)
						}
						if !tolerated(e, op, p0.class, v.kind, b) {
							t.Fatalf("%s: %s at %s of a valid encoding: %s\nvalid %s\ninput %s", e.name, op, p0.path, v.viol, hx(s.enc), hx(b))
						}
						vlib.Case(test, vlib.Desc(e.name, "V", op, p0.class), true, "op="+op, "outcome=KNOWN-"+v.kind, "family="+e.family)
						continue
					}
					cls := []string{"op=" + op, "outcome=" + v.class, "family=" + e.family}
					if v.note != "" {
						cls = append(cls, "note="+v.note)
					}
					vlib.Case(test, vlib.Desc(e.name, "V", op, p0.class), true, cls...)
				}
			}
		}
		// report, per pinned (type, class, operator group, kind), whether it was still observed
		prefix := e.pinKey() + "|"
		for _, k := range pinned {
			if !strings.HasPrefix(k, prefix) {
				continue
			}
			parts := strings.Split(k, "|")
			if len(parts) != 4 {
				t.Fatalf("harness: malformed pin %q", k)
			}
			id := "C12-" + parts[2] + "-" + parts[3]
			if o := failing[k]; o != nil {
				var sites []string
				for st := range o.sites {
					sites = append(sites, st)
				}
				sort.Strings(sites)
				observe(id, true, fmt.Sprintf("%s: %d placements, e.g. %s%s", e.name, o.n, o.example, sitesNote(sites)))
			} else {
				observe(id, false, "")
			}
		}
	}
	reportKnown()
	vlib.Exhaustive("every (field class, structural operator) placement over the samples of every registry entry")
}

func sitesNote(sites []string) string {
	if len(sites) == 0 {
		return ""
	}
	if len(sites) > 3 {
		sites = sites[:3]
	}
	return " (panics in " + strings.Join(sites, ", ") + ")"
}

// ---- (V) drawn mutations ----------------------------------------------------------------------------------------

const mutationsPerType = 20

// TestMutate: per entry, drawn structure-preserving mutations (cbormut operators over a drawn
// leaf class, the structural operators of this package at a drawn position), oracle V.
func TestMutate(t *testing.T) {
	const test = "Mutate"
	_, nShards := vlib.Shard()
	for i, e := range registry {
		if !mine(i, e) {
			continue
		}
		e := e
		t.Run(sanitize(e.name), func(t *testing.T) {
			ss := mustSamples(t, e)
			if ss == nil {
				return
			}
			var trees []*cbormut.Node
			for _, s := range ss {
				r, err := cbormut.Parse(s.enc)
				if err != nil {
					t.Fatalf("harness: valid encoding does not parse: %v", err)
				}
				trees = append(trees, r)
			}
			vlib.Check(t, mutationsPerType*nShards, func(rt *rapid.T) {
				k := rapid.IntRange(0, len(ss)-1).Draw(rt, "sample")
				root := trees[k].Clone()
				var op, class string
				applied := false
				if rapid.IntRange(0, 9).Draw(rt, "mode") < 7 {
					classes := cbormut.Classes(root)
					arr := cbormut.ArrayClasses(root)
					want := ""
					ops := []string{cbormut.OpBitFlip, cbormut.OpReplace, cbormut.OpSwap, cbormut.OpIntStep, cbormut.OpZero}
					if len(arr) > 0 && rapid.IntRange(0, 4).Draw(rt, "arrayOp") == 0 {
						ops = []string{cbormut.OpTruncate, cbormut.OpExtend}
						want = strings.TrimSuffix(rapid.SampledFrom(arr).Draw(rt, "arrayClass"), "[]")
					} else if len(classes) > 0 {
						want = rapid.SampledFrom(classes).Draw(rt, "leafClass")
					}
					var donors []*cbormut.Node
					for j, d := range trees {
						if j != k {
							donors = append(donors, d)
						}
					}
					m, ok := cbormut.Mutate(rt, root, donors, ops, want)
					op, class, applied = m.Op, m.Class, ok
				} else {
					ps := positions(root)
					p := ps[rapid.IntRange(0, len(ps)-1).Draw(rt, "position")]
					op = rapid.SampledFrom(structuralOps).Draw(rt, "structuralOp")
					class = p.class
					applied = applyStructural(&root, p, op)
				}
				if !applied {
					vlib.Case(test, vlib.Desc(e.name, "V", op, "n/a"), false, "op="+op, "outcome=not-applicable")
					return
				}
				b := root.Encode()
				_, perr := cbormut.Parse(b)
				v := judge(e, b)
				if v.viol != "" {
					if !tolerated(e, op, class, v.kind, b) {
						rt.Fatalf("%s: %s at class %s of a valid encoding: %s\nvalid %s\ninput %s", e.name, op, class, v.viol, hx(ss[k].enc), hx(b))
					}
					vlib.Case(test, vlib.Desc(e.name, "V", op, class), perr == nil, "op="+op, "outcome=KNOWN-"+v.kind, "family="+e.family)
					return
				}
				cls := []string{"op=" + op, "outcome=" + v.class, "family=" + e.family}
				if v.note != "" {
					cls = append(cls, "note="+v.note)
				}
				vlib.Case(test, vlib.Desc(e.name, "V", op, class), perr == nil, cls...)
				vlib.Sample("mutation", map[string]any{"type": e.name, "op": op, "class": class, "outcome": v.class})
			})
		})
	}
}

func sanitize(s string) string {
	r := strings.NewReplacer("/", "_", " ", "", "*", "", "[", "(", "]", ")", ",", "+")
	return r.Replace(s)
}

// hostile constants (also the fuzz seed corpus).
func hostileInputs() map[string][]byte {
	deep := func(n int, major byte) []byte {
		var b []byte
		for i := 0; i < n; i++ {
			b = append(b, major<<5|1)
			if major == 5 {
				b = append(b, 0x00)
			}
		}
		return append(b, 0x00)
	}
	big := append([]byte{0x9a, 0x00, 0x02, 0x00, 0x01}, bytes.Repeat([]byte{0x00}, 131073)...)
	bigMap := []byte{0xba, 0x00, 0x02, 0x00, 0x01}
	for i := 0; i < 131073; i++ {
		bigMap = append(bigMap, 0x1a, byte(i>>24), byte(i>>16), byte(i>>8), byte(i), 0x00)
	}
	return map[string][]byte{
		"empty":              {},
		"null":               {0xf6},
		"undefined":          {0xf7},
		"selfdescribed-null": {0xd9, 0xd9, 0xf7, 0xf6},
		"empty-map":          {0xa0},
		"empty-array":        {0x80},
		"zero":               {0x00},
		"break":              {0xff},
		"huge-array-header":  {0x9b, 0x7f, 0xff, 0xff, 0xff, 0xff, 0xff, 0xff, 0xff},
		"huge-map-header":    {0xbb, 0x7f, 0xff, 0xff, 0xff, 0xff, 0xff, 0xff, 0xff},
		"huge-bytes-header":  {0x5b, 0x7f, 0xff, 0xff, 0xff, 0xff, 0xff, 0xff, 0xff},
		"huge-text-header":   {0x7b, 0xff, 0xff, 0xff, 0xff, 0xff, 0xff, 0xff, 0xff},
		"array-2^32":         {0x9a, 0xff, 0xff, 0xff, 0xff},
		"nest-33-arrays":     deep(33, 4),
		"nest-40-maps":       deep(40, 5),
		"nest-200-tags":      append(bytes.Repeat([]byte{0xc6}, 200), 0x00),
		"array-131073":       big,
		"map-131073":         bigMap,
		"float-nan":          {0xf9, 0x7e, 0x00},
		"float-inf":          {0xf9, 0x7c, 0x00},
		"float-neg-inf":      {0xfb, 0xff, 0xf0, 0, 0, 0, 0, 0, 0},
		"bignum":             {0xc2, 0x49, 1, 0, 0, 0, 0, 0, 0, 0, 0},
		"neg-bignum":         {0xc3, 0x41, 0x01},
		"time-tag":           {0xc1, 0x1a, 0x51, 0x4b, 0x67, 0xb0},
		"tag-2^64-1":         {0xdb, 0xff, 0xff, 0xff, 0xff, 0xff, 0xff, 0xff, 0xff, 0xa0},
		"indef-array":        {0x9f, 0xff},
		"indef-map":          {0xbf, 0xff},
		"indef-bytes":        {0x5f, 0x41, 0x00, 0xff},
		"invalid-utf8-key":   {0xa1, 0x62, 0xc3, 0x28, 0x00},
		"simple-255":         {0xf8, 0xff},
		"reserved-info-28":   {0x1c},
		"map-bytes-key":      {0xa1, 0x41, 0x00, 0x00},
		"negative-int":       {0x3b, 0xff, 0xff, 0xff, 0xff, 0xff, 0xff, 0xff, 0xff},
		"uint64-max":         {0x1b, 0xff, 0xff, 0xff, 0xff, 0xff, 0xff, 0xff, 0xff},
	}
}

// TestRawBytes: drawn byte strings (random, truncations / byte-level edits of valid encodings,
// hostile constants), oracle V. Non-trivial iff the input is still well-formed CBOR.
func TestRawBytes(t *testing.T) {
	const test = "RawBytes"
	_, nShards := vlib.Shard()
	hostile := hostileInputs()
	var hnames []string
	for n := range hostile {
		hnames = append(hnames, n)
	}
	sort.Strings(hnames)
	for i, e := range registry {
		if !mine(i, e) {
			continue
		}
		e := e
		t.Run(sanitize(e.name), func(t *testing.T) {
			ss := mustSamples(t, e)
			if ss == nil {
				return
			}
			// every hostile constant once
			for _, hn := range hnames {
				b := hostile[hn]
				v := judge(e, b)
				_, perr := cbormut.Parse(b)
				if v.viol != "" {
					if !tolerated(e, "hostile:"+hn, hn, v.kind, b) {
						t.Fatalf("%s: hostile constant %s: %s\ninput %s", e.name, hn, v.viol, hx(b))
					}
					continue
				}
				vlib.Case(test, vlib.Desc(e.name, "V", "hostile", hn), perr == nil, "raw=hostile", "outcome="+v.class)
			}
			vlib.Check(t, 8*nShards, func(rt *rapid.T) {
				kind := rapid.SampledFrom([]string{"random", "truncate", "byteflip", "insert", "delete", "splice"}).Draw(rt, "kind")
				s := ss[rapid.IntRange(0, len(ss)-1).Draw(rt, "sample")].enc
				var b []byte
				switch kind {
				case "random":
					b = rapid.SliceOfN(rapid.Byte(), 0, 96).Draw(rt, "bytes")
				case "truncate":
					b = append([]byte(nil), s[:rapid.IntRange(0, len(s)-1).Draw(rt, "len")]...)
				case "byteflip":
					b = append([]byte(nil), s...)
					// the head bytes steer the structure: prefer them
					lim := len(b)
					if rapid.Bool().Draw(rt, "head") && lim > 24 {
						lim = 24
					}
					b[rapid.IntRange(0, lim-1).Draw(rt, "pos")] ^= 1 << uint(rapid.IntRange(0, 7).Draw(rt, "bit"))
				case "insert":
					p := rapid.IntRange(0, len(s)).Draw(rt, "pos")
					b = append(append(append([]byte(nil), s[:p]...), rapid.Byte().Draw(rt, "byte")), s[p:]...)
				case "delete":
					p := rapid.IntRange(0, len(s)-1).Draw(rt, "pos")
					b = append(append([]byte(nil), s[:p]...), s[p+1:]...)
				case "splice":
					o := ss[rapid.IntRange(0, len(ss)-1).Draw(rt, "other")].enc
					p := rapid.IntRange(0, len(s)).Draw(rt, "cut")
					q := rapid.IntRange(0, len(o)).Draw(rt, "cut2")
					b = append(append([]byte(nil), s[:p]...), o[q:]...)
				}
				v := judge(e, b)
				_, perr := cbormut.Parse(b)
				if v.viol != "" {
					if !toleratedRaw(e, v.kind, b) {
						rt.Fatalf("%s: %s byte string: %s\ninput %s", e.name, kind, v.viol, hx(b))
					}
					vlib.Case(test, vlib.Desc(e.name, "V", "raw", kind), perr == nil, "raw="+kind, "outcome=KNOWN-"+v.kind)
					return
				}
				vlib.Case(test, vlib.Desc(e.name, "V", "raw", kind), perr == nil, "raw="+kind, "outcome="+v.class, fmt.Sprintf("wellformed=%v", perr == nil))
			})
		})
	}
}
