package c12

// Reflection helpers shared by the sample harvester and the validity walker. Both need to look
// INSIDE library values (a verification vector inside a message, a Paillier group element inside
// a ciphertext inside an auxiliary-info map, ...), most of whose fields are unexported. Reading an
// unexported field through reflect + unsafe is a pure observation of the object's state; nothing is
// ever written.

import (
	"fmt"
	"reflect"
	"regexp"
	"strings"
	"unsafe"
)

const libPrefix = "github.com/bronlabs/bron-crypto/"

// readable returns f in a form that can be Interface()d / iterated even when it was reached
// through an unexported field. The parent must be addressable.
func readable(f reflect.Value) reflect.Value {
	if f.CanInterface() {
		return f
	}
	if f.CanAddr() {
		return reflect.NewAt(f.Type(), unsafe.Pointer(f.UnsafeAddr())).Elem()
	}
	return f
}

// addressable returns an addressable copy of v (for values taken out of maps / interfaces).
func addressable(v reflect.Value) reflect.Value {
	if v.CanAddr() {
		return v
	}
	if !v.CanInterface() {
		return v
	}
	c := reflect.New(v.Type()).Elem()
	c.Set(v)
	return c
}

// fld reads a (possibly unexported) field by name; a missing field is a harness error (the rule
// would otherwise silently check nothing).
func fld(v reflect.Value, name string) reflect.Value {
	f := v.FieldByName(name)
	if !f.IsValid() {
		panic(fmt.Sprintf("harness: type %s has no field %q (validity rule out of date)", v.Type(), name))
	}
	return readable(f)
}

func isLibStruct(t reflect.Type) bool {
	return t.Kind() == reflect.Struct && strings.HasPrefix(t.PkgPath(), libPrefix)
}

// baseName is "<last package path element>.<type name without type arguments>".
func baseName(t reflect.Type) string {
	for t.Kind() == reflect.Pointer {
		t = t.Elem()
	}
	n := t.Name()
	if i := strings.IndexByte(n, '['); i >= 0 {
		n = n[:i]
	}
	p := t.PkgPath()
	if i := strings.LastIndexByte(p, '/'); i >= 0 {
		p = p[i+1:]
	}
	return p + "." + n
}

var pathRe = regexp.MustCompile(`github\.com/bronlabs/bron-crypto/pkg/[A-Za-z0-9_/]*/`)

// shortType prints a type with the repository's import paths reduced to package names.
func shortType(t reflect.Type) string {
	s := pathRe.ReplaceAllString(t.String(), "")
	return strings.ReplaceAll(s, "github.com/bronlabs/bron-crypto/pkg/", "")
}

type seenKey struct {
	p uintptr
	t reflect.Type
}

type walker struct {
	seen   map[seenKey]bool
	budget int
	// ptr is called for every non-nil pointer (before descending); strct for every struct value
	// of a library type (addressable). Returning false stops the descent below that value.
	ptr   func(p reflect.Value) bool
	strct func(s reflect.Value) bool
}

func (w *walker) walk(v reflect.Value, depth int) {
	if depth > 48 || w.budget <= 0 || !v.IsValid() {
		return
	}
	w.budget--
	switch v.Kind() {
	case reflect.Pointer:
		if v.IsNil() {
			return
		}
		key := seenKey{v.Pointer(), v.Type()}
		if w.seen[key] {
			return
		}
		w.seen[key] = true
		if w.ptr != nil && v.CanInterface() && !w.ptr(v) {
			return
		}
		w.walk(v.Elem(), depth+1)
	case reflect.Interface:
		if v.IsNil() {
			return
		}
		e := v.Elem()
		if e.Kind() != reflect.Pointer {
			e = addressable(e)
		}
		w.walk(e, depth+1)
	case reflect.Struct:
		if !isLibStruct(v.Type()) {
			return
		}
		if !v.CanAddr() {
			v = addressable(v)
			if !v.CanAddr() {
				return
			}
		}
		if w.strct != nil && !w.strct(v) {
			return
		}
		for i := 0; i < v.NumField(); i++ {
			w.walk(readable(v.Field(i)), depth+1)
		}
	case reflect.Slice, reflect.Array:
		if v.Kind() == reflect.Slice && v.IsNil() {
			return
		}
		switch v.Type().Elem().Kind() {
		case reflect.Pointer, reflect.Interface, reflect.Struct, reflect.Slice, reflect.Array, reflect.Map:
		default:
			return // bytes, limbs, ...
		}
		n := v.Len()
		if n > 4096 {
			n = 4096
		}
		for i := 0; i < n; i++ {
			w.walk(readable(v.Index(i)), depth+1)
		}
	case reflect.Map:
		if v.IsNil() {
			return
		}
		it := v.MapRange()
		n := 0
		for it.Next() && n < 4096 {
			n++
			switch v.Type().Key().Kind() {
			case reflect.Pointer, reflect.Interface, reflect.Struct:
				w.walk(addressable(it.Key()), depth+1)
			}
			val := it.Value()
			switch val.Kind() {
			case reflect.Pointer, reflect.Interface, reflect.Slice, reflect.Map:
				w.walk(val, depth+1)
			case reflect.Struct, reflect.Array:
				w.walk(addressable(val), depth+1)
			}
		}
	}
}

// isNilValue reports whether v (any kind) is a nil pointer / interface / map / slice.
func isNilValue(v reflect.Value) bool {
	if !v.IsValid() {
		return true
	}
	switch v.Kind() {
	case reflect.Pointer, reflect.Interface, reflect.Map, reflect.Slice, reflect.Func, reflect.Chan:
		return v.IsNil()
	}
	return false
}

// isNilAny reports whether x is nil or a nil pointer wrapped in an interface.
func isNilAny(x any) bool {
	if x == nil {
		return true
	}
	return isNilValue(reflect.ValueOf(x))
}

// callM calls an exported method by name on (the address of) v and returns its results.
func callM(v reflect.Value, name string, args ...reflect.Value) []reflect.Value {
	recv := v
	for recv.Kind() == reflect.Interface && !recv.IsNil() {
		recv = recv.Elem()
	}
	if recv.Kind() != reflect.Pointer && recv.CanAddr() {
		recv = recv.Addr()
	}
	m := recv.MethodByName(name)
	if !m.IsValid() {
		panic(fmt.Sprintf("harness: type %s has no method %q (validity rule out of date)", recv.Type(), name))
	}
	return m.Call(args)
}

func hasMethod(v reflect.Value, name string) bool {
	recv := v
	for recv.Kind() == reflect.Interface && !recv.IsNil() {
		recv = recv.Elem()
	}
	if recv.Kind() != reflect.Pointer && recv.CanAddr() {
		recv = recv.Addr()
	}
	return recv.MethodByName(name).IsValid()
}
