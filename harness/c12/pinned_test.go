package c12

// Pinned deviations (see findings_test.go): "<type>|<operator>|<field class>|<failure kind>".
// Produced with VERIF_C12_COLLECT=1 on the unchanged tree and reviewed; every line is a decoder
// that panics, or accepts an object its constructor would refuse, for the smallest alteration of a
// valid encoding named by the operator at the field named by the class.
var pinned = []string{}
