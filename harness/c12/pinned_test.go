package c12

// Pinned deviations (see findings_test.go) - EMPTY since /repo 043d51a: all 340 placements collected on ead8bd4
// (126 decoders panicking on 55799(null), missing / null / wrong-type fields, zero prime factors, ...) were
// repaired by the nine `fix:` commits 479adeb..043d51a (known_findings.json, C12-* entries of kind fixed).
// Format of an entry, should one ever be needed again: "<type>|<field class>|<operator group>|<failure kind>",
// collected with VERIF_C12_COLLECT=1 and an empty list on /repo ead8bd4, with the smallest example
// seen. Field class: the path of the altered value inside the valid encoding (map keys by name,
// array items as *, tag contents as @tag; "" is the whole value); "*" for the two groups that are
// pinned per type (selfdescribed-null: one missing `dto == nil` check per decoder makes EVERY
// position of the type fail, 621 placements; altered-value: drawn, not enumerated). Operator
// groups: selfdescribed-null = value replaced by 55799(null) (d9d9f7f6 at top level); null-field =
// value replaced by null / undefined; missing-field = map entry removed; wrong-type-field = value
// replaced by an empty array / map / byte string or 0 (a0 at top level); selfdescribed-wrap = value
// wrapped in tag 55799; array-length = array truncated / extended by one element; altered-value =
// a leaf altered (bit flip, zeroed, +-1, copied). Failure kinds: panic; invalid-object = the decoder
// returns an object its constructor would refuse; not-reencodable.
var pinned = []string{}
