package c12

// Pinned deviations (see findings_test.go): "<type>|<field class>|<operator group>|<failure kind>".
var pinned = []string{}
