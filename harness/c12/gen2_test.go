package c12

import (
	"github.com/bronlabs/bron-crypto/pkg/base/curves/k256"
	"github.com/bronlabs/bron-crypto/pkg/key_agreement"
	"github.com/bronlabs/bron-crypto/pkg/key_agreement/dh/dhc"
	"verif/harness/vlib/lx"
)

func init() {
	defSource("gen/keyagreement", func() ([]root, error) {
		r := prng("keyagreement")
		c := k256.NewCurve()
		sf := fieldOf[kP, kS](c)
		var roots []root
		for i := 0; i < 3; i++ {
			esk, err := dhc.SampleExtendedPrivateKey(sf, r)
			if err != nil {
				return nil, err
			}
			pk, err := dhc.PublicKeyOf[kP, kB, kS](c, esk)
			if err != nil {
				return nil, err
			}
			sk, err := dhc.NewPrivateKey(esk.PrivateKey.Value())
			if err != nil {
				return nil, err
			}
			ksk, err := key_agreement.NewPrivateKey[kS](lx.FE(sf, bigFrom(r, 300)), dhc.Type)
			if err != nil {
				return nil, err
			}
			shared, err := key_agreement.NewSharedKey(bigFrom(r, 256).FillBytes(make([]byte, 32)), dhc.Type)
			if err != nil {
				return nil, err
			}
			roots = append(roots, root{v: esk}, root{v: pk}, root{v: sk}, root{v: ksk}, root{v: shared})
		}
		return roots, nil
	})
}

func regKeyAgreementTypes() {
	src := "gen/keyagreement"
	reg[*dhc.ExtendedPrivateKey[kS]](famKeysSigs, "", src)
	reg[*dhc.PrivateKey](famKeysSigs, "", src)
	reg[*key_agreement.PublicKey[kP, kS]](famKeysSigs, "", src)
	reg[*key_agreement.PrivateKey[kS]](famKeysSigs, "", src)
	reg[*key_agreement.SharedKey](famKeysSigs, "", src)
}
