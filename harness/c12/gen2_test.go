package c12

import (
	"fmt"
	"math/big"

	"github.com/bronlabs/bron-crypto/pkg/base/curves/k256"
	"github.com/bronlabs/bron-crypto/pkg/base/nt/num"
	"github.com/bronlabs/bron-crypto/pkg/base/nt/znstar"
	"github.com/bronlabs/bron-crypto/pkg/commitments/intcom"
	"github.com/bronlabs/bron-crypto/pkg/key_agreement"
	"github.com/bronlabs/bron-crypto/pkg/key_agreement/dh/dhc"
	"verif/harness/vlib"
	"verif/harness/vlib/lx"
)

func init() {
	defSource("gen/keyagreement", func() ([]root, error) {
		r := prng("keyagreement")
		c := k256.NewCurve()
		sf := fieldOf[kP, kS](c)
		var roots []root
		for i := 0; i < 3; i++ {
			esk, err := dhc.SampleExtendedPrivateKey(sf, r)
			if err != nil {
				return nil, err
			}
			pk, err := dhc.PublicKeyOf[kP, kB, kS](c, esk)
			if err != nil {
				return nil, err
			}
			sk, err := dhc.NewPrivateKey(esk.PrivateKey.Value())
			if err != nil {
				return nil, err
			}
			ksk, err := key_agreement.NewPrivateKey[kS](lx.FE(sf, bigFrom(r, 300)), dhc.Type)
			if err != nil {
				return nil, err
			}
			shared, err := key_agreement.NewSharedKey(bigFrom(r, 256).FillBytes(make([]byte, 32)), dhc.Type)
			if err != nil {
				return nil, err
			}
			roots = append(roots, root{v: esk}, root{v: pk}, root{v: sk}, root{v: ksk}, root{v: shared})
		}
		return roots, nil
	})
}

// Ring-Pedersen (integer commitment) material over two fixture SAFE primes, through the library's
// constructors: t a random square of Z*_N, lambda a unit modulo phi(N)/4, s = t^lambda.
func init() {
	defSource("gen/intcom", func() ([]root, error) {
		r := prng("intcom")
		ps := vlib.Primes(512, "safe")
		if len(ps) < 2 {
			return nil, fmt.Errorf("need two 512-bit safe fixture primes")
		}
		grp, err := znstar.NewRSAGroup(natPlus(ps[0]), natPlus(ps[1]))
		if err != nil {
			return nil, err
		}
		phi4 := new(big.Int).Mul(new(big.Int).Rsh(ps[0], 1), new(big.Int).Rsh(ps[1], 1))
		zm, err := num.NewZMod(natPlus(phi4))
		if err != nil {
			return nil, err
		}
		var roots []root
		for i := 0; i < 2; i++ {
			u, err := grp.Random(r)
			if err != nil {
				return nil, err
			}
			lambda, err := zm.FromBig(new(big.Int).Add(new(big.Int).Mod(bigFrom(r, 900), new(big.Int).Sub(phi4, big.NewInt(3))), big.NewInt(2)))
			if err != nil {
				return nil, err
			}
			td, err := intcom.NewTrapdoorKey(u.Square(), lambda)
			if err != nil {
				continue // lambda not a unit / t degenerate: draw again
			}
			ck := td.Export()
			w, err := ck.SampleWitness(r)
			if err != nil {
				return nil, err
			}
			mv, err := num.Z().FromBig(new(big.Int).Neg(bigFrom(r, 200)))
			if err != nil {
				return nil, err
			}
			m, err := intcom.NewMessage(mv)
			if err != nil {
				return nil, err
			}
			c, err := ck.CommitWithWitness(m, w)
			if err != nil {
				return nil, err
			}
			roots = append(roots, root{v: td}, root{v: ck}, root{v: w}, root{v: m}, root{v: c})
		}
		if len(roots) == 0 {
			return nil, fmt.Errorf("no ring-Pedersen key could be built from the fixtures")
		}
		return roots, nil
	})
}

func regIntcomTypes() {
	src := "gen/intcom"
	reg[*intcom.TrapdoorKey](famCommitments, "", src)
	reg[*intcom.CommitmentKey](famCommitments, "", src)
	reg[*intcom.Commitment](famCommitments, "", src)
	reg[*intcom.Witness](famCommitments, "", src)
	reg[*intcom.Message](famCommitments, "", src)
}

func regKeyAgreementTypes() {
	src := "gen/keyagreement"
	reg[*dhc.ExtendedPrivateKey[kS]](famKeysSigs, "", src)
	reg[*dhc.PrivateKey](famKeysSigs, "", src)
	reg[*key_agreement.PublicKey[kP, kS]](famKeysSigs, "", src)
	reg[*key_agreement.PrivateKey[kS]](famKeysSigs, "", src)
	reg[*key_agreement.SharedKey](famKeysSigs, "", src)
}
