package c12

// Sample sources that do not need a protocol run: enumerated access structures, dealers of the
// sharing schemes, curve elements, number types, Paillier / ElGamal material built from fixture
// primes through the library's constructors, commitments, signatures.

import (
	"crypto/sha256"
	"encoding/hex"
	"fmt"
	"hash"
	"io"
	"math/big"

	"github.com/bronlabs/bron-crypto/pkg/base/algebra"
	"github.com/bronlabs/bron-crypto/pkg/base/curves"
	"github.com/bronlabs/bron-crypto/pkg/base/curves/curve25519"
	"github.com/bronlabs/bron-crypto/pkg/base/curves/edwards25519"
	"github.com/bronlabs/bron-crypto/pkg/base/curves/k256"
	"github.com/bronlabs/bron-crypto/pkg/base/curves/p256"
	"github.com/bronlabs/bron-crypto/pkg/base/curves/pairable"
	"github.com/bronlabs/bron-crypto/pkg/base/curves/pairable/bls12381"
	"github.com/bronlabs/bron-crypto/pkg/base/curves/pasta"
	"github.com/bronlabs/bron-crypto/pkg/base/mat"
	"github.com/bronlabs/bron-crypto/pkg/base/nt/modular"
	"github.com/bronlabs/bron-crypto/pkg/base/nt/num"
	"github.com/bronlabs/bron-crypto/pkg/base/nt/numct"
	"github.com/bronlabs/bron-crypto/pkg/base/nt/znstar"
	"github.com/bronlabs/bron-crypto/pkg/base/polynomials"
	"github.com/bronlabs/bron-crypto/pkg/commitments/hashcom"
	"github.com/bronlabs/bron-crypto/pkg/commitments/indcpacom"
	"github.com/bronlabs/bron-crypto/pkg/commitments/pedersencom"
	"github.com/bronlabs/bron-crypto/pkg/encryption/elgamal"
	"github.com/bronlabs/bron-crypto/pkg/encryption/paillier"
	"github.com/bronlabs/bron-crypto/pkg/mpc/dkg/trusteddealer"
	"github.com/bronlabs/bron-crypto/pkg/mpc/sharing"
	"github.com/bronlabs/bron-crypto/pkg/mpc/sharing/accessstructures"
	"github.com/bronlabs/bron-crypto/pkg/mpc/sharing/accessstructures/boolexpr"
	"github.com/bronlabs/bron-crypto/pkg/mpc/sharing/accessstructures/cnf"
	"github.com/bronlabs/bron-crypto/pkg/mpc/sharing/accessstructures/hierarchical"
	"github.com/bronlabs/bron-crypto/pkg/mpc/sharing/accessstructures/threshold"
	"github.com/bronlabs/bron-crypto/pkg/mpc/sharing/accessstructures/unanimity"
	"github.com/bronlabs/bron-crypto/pkg/mpc/sharing/scheme/isn"
	"github.com/bronlabs/bron-crypto/pkg/mpc/sharing/scheme/kw"
	"github.com/bronlabs/bron-crypto/pkg/mpc/sharing/scheme/shamir"
	"github.com/bronlabs/bron-crypto/pkg/mpc/sharing/scheme/tassa"
	pedersenVSS "github.com/bronlabs/bron-crypto/pkg/mpc/sharing/vss/pedersen"
	mpcbls "github.com/bronlabs/bron-crypto/pkg/mpc/signatures/bls"
	"github.com/bronlabs/bron-crypto/pkg/mpc/signatures/bls/boldyreva02"
	blskeygen "github.com/bronlabs/bron-crypto/pkg/mpc/signatures/bls/boldyreva02/keygen"
	"github.com/bronlabs/bron-crypto/pkg/signatures/bls"
	"github.com/bronlabs/bron-crypto/pkg/signatures/ecdsa"
	"verif/harness/vlib"
	"verif/harness/vlib/lx"
	"verif/harness/vlib/policy"
)

func bigFrom(r io.Reader, bits int) *big.Int {
	b := make([]byte, (bits+7)/8)
	if _, err := io.ReadFull(r, b); err != nil {
		panic(err)
	}
	return new(big.Int).SetBytes(b)
}

func fieldOf[G algebra.PrimeGroupElement[G, S], S algebra.PrimeFieldElement[S]](g algebra.PrimeGroup[G, S]) algebra.PrimeField[S] {
	return algebra.StructureMustBeAs[algebra.PrimeField[S]](g.ScalarStructure())
}

// ---- access structures ------------------------------------------------------------------------------

func accessPolicies() []*policy.Policy {
	var ps []*policy.Policy
	ps = append(ps, policy.AllThresholds(4)...)
	ps = append(ps, policy.AllCNF(3)...)
	ps = append(ps, policy.AllHier(3)...)
	if h4 := policy.AllHier(4); len(h4) > 6 {
		ps = append(ps, h4[:6]...)
	}
	g := policy.AllGates(3, 4)
	if len(g) > 24 {
		g = g[:24]
	}
	ps = append(ps, g...)
	ps = append(ps, &policy.Policy{Family: policy.Unanimity, N: 2}, &policy.Policy{Family: policy.Unanimity, N: 4})
	return ps
}

func idsFor(n int, regime int) []uint64 {
	out := make([]uint64, n)
	for i := range out {
		switch regime {
		case 0:
			out[i] = uint64(i + 1)
		case 1:
			out[i] = uint64(7 + 13*i)
		default:
			out[i] = 1<<62 + uint64(i)*3 + 1
		}
	}
	return out
}

func init() {
	defSource("gen/access", func() ([]root, error) {
		var roots []root
		for i, p := range accessPolicies() {
			ac, err := policy.Build(p, idsFor(p.N, i%3))
			if err != nil {
				continue // not every enumerated policy is admissible for every ID regime
			}
			roots = append(roots, root{v: ac})
		}
		if len(roots) < 20 {
			return nil, fmt.Errorf("only %d access structures could be built", len(roots))
		}
		return roots, nil
	})
}

// ---- sharing schemes over a group -----------------------------------------------------------------------

func defSharingSource[G algebra.PrimeGroupElement[G, S], S algebra.PrimeFieldElement[S]](g *groupEnv[G, S]) {
	defSource("gen/sharing/"+g.name, func() ([]root, error) {
		f := fieldOf(g.group)
		r := prng("sharing/" + g.name)
		secret := lx.FE(f, bigFrom(r, 300))
		var roots []root
		th, err := threshold.NewThresholdAccessStructure(2, policy.IDSet([]uint64{1, 2, 3}, 7))
		if err != nil {
			return nil, err
		}
		// Shamir
		ss, err := shamir.NewScheme(f, th)
		if err != nil {
			return nil, err
		}
		so, err := ss.Deal(shamir.NewSecret(secret), r)
		if err != nil {
			return nil, err
		}
		roots = append(roots, root{v: so})
		// ISN over a CNF structure
		cn, err := cnf.NewCNFAccessStructure(policy.IDSet([]uint64{1, 2, 3}, 1), policy.IDSet([]uint64{1, 2, 3}, 6))
		if err != nil {
			return nil, err
		}
		is, err := isn.NewFiniteScheme[S](f, cn)
		if err != nil {
			return nil, err
		}
		io_, err := is.Deal(isn.NewSecret(secret), r)
		if err != nil {
			return nil, err
		}
		roots = append(roots, root{v: io_})
		// KW over a threshold-gate tree and a hierarchy (non-ideal: several rows per holder)
		gate, err := boolexpr.NewThresholdGateAccessStructure(boolexpr.Threshold(2, boolexpr.ID(1), boolexpr.Threshold(1, boolexpr.ID(2), boolexpr.ID(3)), boolexpr.Threshold(2, boolexpr.ID(1), boolexpr.ID(3))))
		if err != nil {
			return nil, err
		}
		hier, err := hierarchical.NewHierarchicalConjunctiveThresholdAccessStructure(hierarchical.WithLevel(1, 1), hierarchical.WithLevel(2, 2, 3))
		if err != nil {
			return nil, err
		}
		for _, ac := range []accessstructures.Monotone{gate, hier, cn} {
			ks, err := kw.NewScheme(f, ac)
			if err != nil {
				return nil, fmt.Errorf("kw.NewScheme(%T): %w", ac, err)
			}
			ko, err := ks.Deal(kw.NewSecret(secret), r)
			if err != nil {
				return nil, err
			}
			roots = append(roots, root{v: ko}, root{v: ks.MSP()})
			m, err := trustedDeal(g, ac, r)
			if err != nil {
				return nil, err
			}
			roots = append(roots, m...)
		}
		// Tassa (reveals the dealing polynomial)
		ts, err := tassa.NewScheme(hier, f)
		if err != nil {
			return nil, err
		}
		to, poly, err := ts.DealAndRevealDealerFunc(tassa.NewSecret(secret), r)
		if err != nil {
			return nil, err
		}
		roots = append(roots, root{v: to}, root{v: poly})
		lifted, err := polynomials.LiftPolynomial[G, S](poly, g.group.Generator())
		if err != nil {
			return nil, err
		}
		roots = append(roots, root{v: lifted})
		// Pedersen VSS
		key, err := pedersencom.SampleCommitmentKey(g.group, r)
		if err != nil {
			return nil, err
		}
		ps, err := pedersenVSS.NewScheme(key, th)
		if err != nil {
			return nil, err
		}
		po, err := ps.Deal(kw.NewSecret(secret), r)
		if err != nil {
			return nil, err
		}
		roots = append(roots, root{v: po}, root{v: key})
		for _, sh := range po.Shares().Values() {
			ls, err := pedersenVSS.LiftShare(sh, key)
			if err != nil {
				return nil, err
			}
			roots = append(roots, root{v: ls})
		}
		// Pedersen commitments, trapdoor key
		td, err := pedersencom.SampleTrapdoorKey(g.group, r)
		if err != nil {
			return nil, err
		}
		msg, err := pedersencom.NewMessage(secret)
		if err != nil {
			return nil, err
		}
		wit, err := pedersencom.NewWitness(lx.FE(f, bigFrom(r, 300)))
		if err != nil {
			return nil, err
		}
		com, err := key.CommitWithWitness(msg, wit)
		if err != nil {
			return nil, err
		}
		roots = append(roots, root{v: td}, root{v: msg}, root{v: wit}, root{v: com})
		// matrices
		alg, err := mat.NewMatrixAlgebra(3, algebra.FiniteRing[S](f))
		if err != nil {
			return nil, err
		}
		sq, err := alg.Random(r)
		if err != nil {
			return nil, err
		}
		roots = append(roots, root{v: sq}, root{v: alg.Identity()})
		return roots, nil
	})
}

func trustedDeal[G algebra.PrimeGroupElement[G, S], S algebra.PrimeFieldElement[S]](g *groupEnv[G, S], ac accessstructures.Monotone, r io.Reader) ([]root, error) {
	var roots []root
	m, err := trusteddealer.Deal(g.group, ac, r)
	if err != nil {
		return nil, fmt.Errorf("trusted dealer over %T: %w", ac, err)
	}
	for _, sh := range m.Values() {
		roots = append(roots, root{v: sh})
	}
	return roots, nil
}

func regSharingGenTypes[G algebra.PrimeGroupElement[G, S], S algebra.PrimeFieldElement[S]](g *groupEnv[G, S]) {
	src := "gen/sharing/" + g.name
	reg[*shamir.Share[S]](famShares, "", src)
	reg[*isn.Share[S]](famShares, "", src)
	reg[*kw.Share[S]](famShares, "", src)
	reg[*pedersenVSS.Share[S]](famShares, "", src)
	reg[*pedersenVSS.LiftedShare[G, S]](famShares, "", src)
	reg[*pedersencom.CommitmentKey[G, S]](famCommitments, "", src)
	reg[*pedersencom.TrapdoorKey[G, S]](famCommitments, "", src)
	reg[*pedersencom.Commitment[G, S]](famCommitments, "", src)
	reg[*pedersencom.Witness[S]](famCommitments, "", src)
	reg[*pedersencom.Message[S]](famCommitments, "", src)
	reg[*polynomials.Polynomial[S]](famNumbers, "", src)
	reg[*polynomials.ModuleValuedPolynomial[G, S]](famNumbers, "", src)
	reg[*mat.SquareMatrix[S]](famNumbers, "", src)
	regSharingTypes[G, S]([]string{src})
}

// ---- curves -------------------------------------------------------------------------------------------

// groupElements: identity, generator, small and large multiples.
func groupRoots[G algebra.PrimeGroupElement[G, S], S algebra.PrimeFieldElement[S]](name string, g algebra.PrimeGroup[G, S]) []root {
	f := fieldOf(g)
	r := prng("curve/" + name)
	q := lx.Order(f)
	var roots []root
	ks := []*big.Int{big.NewInt(0), big.NewInt(1), big.NewInt(2), big.NewInt(3), new(big.Int).Sub(q, big.NewInt(1)), bigFrom(r, 400), bigFrom(r, 400)}
	for _, k := range ks {
		s := lx.FE(f, k)
		roots = append(roots, root{v: s}, root{v: g.Generator().ScalarOp(s)})
	}
	roots = append(roots, root{v: g.OpIdentity()})
	return roots
}

// baseFieldRoots takes the affine coordinates of a few points.
func baseFieldRoots[P curves.Point[P, B, S], B algebra.FiniteFieldElement[B], S algebra.PrimeFieldElement[S]](name string, c curves.Curve[P, B, S]) []root {
	var roots []root
	f := algebra.StructureMustBeAs[algebra.PrimeField[S]](c.ScalarStructure())
	for _, k := range []int64{1, 2, 5, 77} {
		p := c.Generator().ScalarOp(lx.FE(f, big.NewInt(k)))
		if x, err := p.AffineX(); err == nil {
			roots = append(roots, root{v: x})
		}
		if y, err := p.AffineY(); err == nil {
			roots = append(roots, root{v: y})
		}
	}
	return roots
}

func init() {
	defSource("gen/curves", func() ([]root, error) {
		var roots []root
		roots = append(roots, groupRoots("k256", k256.NewCurve())...)
		roots = append(roots, groupRoots("p256", p256.NewCurve())...)
		roots = append(roots, groupRoots("ed25519", edwards25519.NewPrimeSubGroup())...)
		roots = append(roots, groupRoots("pallas", pasta.NewPallasCurve())...)
		roots = append(roots, groupRoots("vesta", pasta.NewVestaCurve())...)
		roots = append(roots, groupRoots("g1", bls12381.NewG1())...)
		roots = append(roots, groupRoots("g2", bls12381.NewG2())...)
		roots = append(roots, groupRoots("x25519", curve25519.NewPrimeSubGroup())...)
		roots = append(roots, baseFieldRoots("k256", k256.NewCurve())...)
		roots = append(roots, baseFieldRoots("p256", p256.NewCurve())...)
		roots = append(roots, baseFieldRoots("pallas", pasta.NewPallasCurve())...)
		roots = append(roots, baseFieldRoots("vesta", pasta.NewVestaCurve())...)
		roots = append(roots, baseFieldRoots("g1", bls12381.NewG1())...)
		roots = append(roots, baseFieldRoots("g2", bls12381.NewG2())...)
		// full-curve points of the curves with a cofactor (not promised to be in the subgroup)
		edg, xg := edwards25519.NewPrimeSubGroup(), curve25519.NewPrimeSubGroup()
		edf, xf := fieldOf(edg), fieldOf(xg)
		for _, k := range []int64{0, 1, 2, 9} {
			ep := edg.Generator().ScalarOp(lx.FE(edf, big.NewInt(k))).AsPoint()
			roots = append(roots, root{v: ep})
			if x, err := ep.AffineX(); err == nil {
				roots = append(roots, root{v: x})
			}
			roots = append(roots, root{v: xg.Generator().ScalarOp(lx.FE(xf, big.NewInt(k))).AsPoint()})
		}
		// small-order points of edwards25519 (valid elements of the full curve type)
		for _, h := range []string{
			"ecffffffffffffffffffffffffffffffffffffffffffffffffffffffffffff7f", // order 2
			"0000000000000000000000000000000000000000000000000000000000000000", // order 4
		} {
			b, _ := hex.DecodeString(h)
			if p, err := edwards25519.NewCurve().FromCompressed(b); err == nil {
				roots = append(roots, root{v: p})
			}
		}
		return roots, nil
	})
}

func regCurveTypes() {
	src := "gen/curves"
	reg[*k256.Point](famCurves, "", src)
	reg[*k256.Scalar](famCurves, "", src)
	reg[*k256.BaseFieldElement](famCurves, "", src)
	reg[*p256.Point](famCurves, "", src)
	reg[*p256.Scalar](famCurves, "", src)
	reg[*p256.BaseFieldElement](famCurves, "", src)
	reg[*edwards25519.Point](famCurves, "", src)
	reg[*edwards25519.PrimeSubGroupPoint](famCurves, "", src)
	reg[*edwards25519.Scalar](famCurves, "", src)
	reg[*edwards25519.BaseFieldElement](famCurves, "", src)
	reg[*curve25519.Point](famCurves, "", src)
	reg[*curve25519.PrimeSubGroupPoint](famCurves, "", src)
	reg[*pasta.PallasPoint](famCurves, "", src)
	reg[*pasta.VestaPoint](famCurves, "", src)
	reg[*pasta.FpFieldElement](famCurves, "", src)
	reg[*pasta.FqFieldElement](famCurves, "", src)
	reg[*bls12381.PointG1](famCurves, "", src)
	reg[*bls12381.PointG2](famCurves, "", src)
	reg[*bls12381.Scalar](famCurves, "", src)
	reg[*bls12381.BaseFieldElementG1](famCurves, "", src)
	reg[*bls12381.BaseFieldElementG2](famCurves, "", src)
}

// ---- Paillier, numbers ------------------------------------------------------------------------------------

func natPlus(b *big.Int) *num.NatPlus {
	n, err := num.NPlus().FromBig(b)
	if err != nil {
		panic(err)
	}
	return n
}

// paillierKey builds a secret key from two fixture primes through the library constructors.
func paillierKey(bits int, kind string, i, j int) (*paillier.SecretKey, error) {
	ps := vlib.Primes(bits, kind)
	if len(ps) <= i || len(ps) <= j {
		return nil, fmt.Errorf("no %d-bit %s fixture primes %d,%d", bits, kind, i, j)
	}
	grp, err := znstar.NewPaillierGroup(natPlus(ps[i]), natPlus(ps[j]))
	if err != nil {
		return nil, err
	}
	return paillier.NewSecretKey(grp)
}

func init() {
	defSource("gen/paillier", func() ([]root, error) {
		r := prng("paillier")
		var roots []root
		for _, kind := range []string{"ord", "blum"} {
			sk, err := paillierKey(512, kind, 0, 1)
			if err != nil {
				return nil, err
			}
			pk := sk.Public()
			roots = append(roots, root{v: sk}, root{v: pk})
			for _, m := range []*big.Int{big.NewInt(0), big.NewInt(1), bigFrom(r, 900)} {
				nat, err := num.N().FromBig(m)
				if err != nil {
					return nil, err
				}
				pt, err := paillier.NewPlaintextFromNat(nat, pk.Group().N())
				if err != nil {
					return nil, err
				}
				nonce, err := pk.SampleNonce(r)
				if err != nil {
					return nil, err
				}
				ct, err := pk.EncryptWithNonce(pt, nonce)
				if err != nil {
					return nil, err
				}
				ct2, err := sk.EncryptWithNonce(pt, nonce)
				if err != nil {
					return nil, err
				}
				roots = append(roots, root{v: pt}, root{v: nonce}, root{v: ct}, root{v: ct2})
				// commitments under an IND-CPA encryption key
				cm, err := indcpacom.NewCommitment(ct)
				if err != nil {
					return nil, err
				}
				cw, err := indcpacom.NewWitness(nonce)
				if err != nil {
					return nil, err
				}
				cmsg, err := indcpacom.NewMessage(pt)
				if err != nil {
					return nil, err
				}
				roots = append(roots, root{v: cm}, root{v: cw}, root{v: cmsg})
			}
			ck, err := indcpacom.NewCommitmentKey[*paillier.PublicKey, *paillier.Plaintext, *paillier.Nonce, *paillier.Ciphertext](pk)
			if err != nil {
				return nil, err
			}
			roots = append(roots, root{v: ck})
			// RSA groups over the same primes
			ps := vlib.Primes(512, kind)
			rg, err := znstar.NewRSAGroup(natPlus(ps[0]), natPlus(ps[1]))
			if err != nil {
				return nil, err
			}
			roots = append(roots, root{v: rg}, root{v: rg.ForgetOrder()}, root{v: sk.Group()}, root{v: pk.Group()})
			for k := 0; k < 2; k++ {
				e, err := rg.Random(r)
				if err != nil {
					return nil, err
				}
				roots = append(roots, root{v: e}, root{v: e.ForgetOrder()})
				pe, err := sk.Group().Random(r)
				if err != nil {
					return nil, err
				}
				roots = append(roots, root{v: pe}, root{v: pe.ForgetOrder()})
			}
		}
		return roots, nil
	})
	defSource("gen/numbers", func() ([]root, error) {
		r := prng("numbers")
		var roots []root
		for _, b := range []*big.Int{big.NewInt(0), big.NewInt(1), big.NewInt(255), big.NewInt(256), bigFrom(r, 64), bigFrom(r, 521), bigFrom(r, 2048)} {
			n, err := num.N().FromBig(b)
			if err != nil {
				return nil, err
			}
			z, err := num.Z().FromBig(new(big.Int).Neg(b))
			if err != nil {
				return nil, err
			}
			zp, _ := num.Z().FromBig(b)
			roots = append(roots, root{v: n}, root{v: z}, root{v: zp})
			roots = append(roots, root{v: numct.NewNatFromBig(b, b.BitLen())}, root{v: numct.NewIntFromBig(new(big.Int).Neg(b), b.BitLen())})
			if b.Sign() > 0 {
				np := natPlus(b)
				roots = append(roots, root{v: np})
				zm, err := num.NewZMod(np)
				if err != nil {
					return nil, err
				}
				roots = append(roots, root{v: zm}, root{v: zm.FromUint64(0)})
				if u, err := zm.FromBig(new(big.Int).Sub(b, big.NewInt(1))); err == nil {
					roots = append(roots, root{v: u})
				}
				if q, err := num.Q().New(z, np); err == nil {
					roots = append(roots, root{v: q})
				}
				if m, ok := numct.NewModulus(numct.NewNatFromBig(b, b.BitLen())); ok == 1 {
					roots = append(roots, root{v: m})
					if sm, ok := modular.NewSimple(m); ok == 1 {
						roots = append(roots, root{v: sm})
					}
				}
			}
		}
		ps := vlib.Primes(512, "ord")
		p, q := numct.NewNatFromBig(ps[0], 512), numct.NewNatFromBig(ps[1], 512)
		if opf, ok := modular.NewOddPrimeFactors(p, q); ok == 1 {
			roots = append(roots, root{v: opf})
		}
		if ops, ok := modular.NewOddPrimeSquareFactors(p, q); ok == 1 {
			roots = append(roots, root{v: ops})
		}
		return roots, nil
	})
	defSource("gen/hashcom", func() ([]root, error) {
		r := prng("hashcom")
		var roots []root
		for i := 0; i < 3; i++ {
			k, err := hashcom.SampleCommitmentKey(r)
			if err != nil {
				return nil, err
			}
			w, err := k.SampleWitness(r)
			if err != nil {
				return nil, err
			}
			m := hashcom.Message(fmt.Sprintf("message %d", i))
			c, err := k.CommitWithWitness(m, w)
			if err != nil {
				return nil, err
			}
			roots = append(roots, root{v: k}, root{v: w}, root{v: m}, root{v: c})
		}
		return roots, nil
	})
}

func regNumberTypes() {
	pa, nu := "gen/paillier", "gen/numbers"
	reg[*paillier.SecretKey](famEncryption, "", pa)
	reg[*paillier.PublicKey](famEncryption, "", pa)
	reg[*paillier.Plaintext](famEncryption, "", pa)
	reg[*paillier.Nonce](famEncryption, "", pa)
	reg[*paillier.Ciphertext](famEncryption, "", pa)
	reg[*indcpacom.Commitment[*paillier.Ciphertext]](famCommitments, "", pa)
	reg[*indcpacom.Witness[*paillier.Nonce]](famCommitments, "", pa)
	reg[*indcpacom.Message[*paillier.Plaintext]](famCommitments, "", pa)
	reg[*indcpacom.CommitmentKey[*paillier.PublicKey, *paillier.Plaintext, *paillier.Nonce, *paillier.Ciphertext]](famCommitments, "", pa)
	reg[*znstar.PaillierGroupKnownOrder](famNumbers, "", pa)
	reg[*znstar.PaillierGroupUnknownOrder](famNumbers, "", pa)
	reg[*znstar.PaillierGroupElementKnownOrder](famNumbers, "", pa)
	reg[*znstar.PaillierGroupElementUnknownOrder](famNumbers, "", pa)
	reg[*znstar.RSAGroupKnownOrder](famNumbers, "", pa)
	reg[*znstar.RSAGroupUnknownOrder](famNumbers, "", pa)
	reg[*znstar.RSAGroupElementKnownOrder](famNumbers, "", pa)
	reg[*znstar.RSAGroupElementUnknownOrder](famNumbers, "", pa)
	reg[*num.NatPlus](famNumbers, "", nu, pa)
	reg[*num.Nat](famNumbers, "", nu)
	reg[*num.Int](famNumbers, "", nu)
	reg[*num.Uint](famNumbers, "", nu, pa)
	reg[*num.Rat](famNumbers, "", nu)
	reg[*num.ZMod](famNumbers, "", nu)
	reg[*numct.Nat](famNumbers, "", nu, pa)
	reg[*numct.Int](famNumbers, "", nu)
	reg[*numct.Modulus](famNumbers, "", nu, pa)
	reg[*modular.SimpleModulus](famNumbers, "", nu, pa)
	reg[*modular.OddPrimeFactors](famNumbers, "", nu, pa)
	reg[*modular.OddPrimeSquareFactors](famNumbers, "", nu, pa)
	hc := "gen/hashcom"
	reg[*hashcom.CommitmentKey](famCommitments, "", hc)
	reg[hashcom.Commitment](famCommitments, "", hc)
	reg[hashcom.Witness](famCommitments, "", hc)
	reg[hashcom.Message](famCommitments, "", hc)
}

// ---- ElGamal, ECDSA, BLS --------------------------------------------------------------------------------------

func init() {
	defSource("gen/elgamal", func() ([]root, error) {
		c := k256.NewCurve()
		f := fieldOf[kP, kS](c)
		r := prng("elgamal")
		sk, err := elgamal.NewSecretKey[kP, kS](c.Generator(), lx.FE(f, bigFrom(r, 300)))
		if err != nil {
			return nil, err
		}
		pk := sk.Public()
		roots := []root{{v: sk}, {v: pk}}
		for i := 0; i < 3; i++ {
			pt, err := elgamal.NewPlaintext[kP, kS](c.Generator().ScalarOp(lx.FE(f, bigFrom(r, 300))))
			if err != nil {
				return nil, err
			}
			n, err := elgamal.NewNonce[kS](lx.FE(f, bigFrom(r, 300)))
			if err != nil {
				return nil, err
			}
			ct, err := pk.EncryptWithNonce(pt, n)
			if err != nil {
				return nil, err
			}
			roots = append(roots, root{v: pt}, root{v: n}, root{v: ct})
		}
		return roots, nil
	})
	defSource("gen/ecdsa", func() ([]root, error) {
		var roots []root
		r := prng("ecdsa")
		c := k256.NewCurve()
		suite, err := ecdsa.NewSuite(c, func() hash.Hash { return sha256.New() })
		if err != nil {
			return nil, err
		}
		f := fieldOf[kP, kS](c)
		for i := 0; i < 3; i++ {
			d := lx.FE(f, bigFrom(r, 300))
			pk, err := ecdsa.NewPublicKey[kP, kB, kS](c.Generator().ScalarOp(d))
			if err != nil {
				return nil, err
			}
			sk, err := ecdsa.NewPrivateKey(d, pk)
			if err != nil {
				return nil, err
			}
			signer, err := ecdsa.NewSigner(suite, sk, r)
			if err != nil {
				return nil, err
			}
			sig, err := signer.Sign([]byte(fmt.Sprint("msg", i)))
			if err != nil {
				return nil, err
			}
			roots = append(roots, root{v: pk}, root{v: sig})
		}
		return roots, nil
	})
	defSource("gen/bls", func() ([]root, error) {
		var roots []root
		fam := pairable.NewBLS12381()
		r := prng("bls")
		short, err := bls.NewShortKeyScheme(fam, bls.POP)
		if err != nil {
			return nil, err
		}
		kg, err := short.Keygen()
		if err != nil {
			return nil, err
		}
		sk, pk, err := kg.Generate(r)
		if err != nil {
			return nil, err
		}
		sg, err := short.Signer(sk)
		if err != nil {
			return nil, err
		}
		sig, err := sg.Sign([]byte("c12 bls short"))
		if err != nil {
			return nil, err
		}
		roots = append(roots, root{v: pk}, root{v: sig}, root{v: sig.Pop()})
		long, err := bls.NewLongKeyScheme(fam, bls.Basic)
		if err != nil {
			return nil, err
		}
		kgl, err := long.Keygen()
		if err != nil {
			return nil, err
		}
		skl, pkl, err := kgl.Generate(r)
		if err != nil {
			return nil, err
		}
		sgl, err := long.Signer(skl)
		if err != nil {
			return nil, err
		}
		sigl, err := sgl.Sign([]byte("c12 bls long"))
		if err != nil {
			return nil, err
		}
		roots = append(roots, root{v: pkl}, root{v: sigl})
		// threshold BLS shards from base shards over G1 (short keys)
		bs, err := envG1.dealt()
		if err != nil {
			return nil, err
		}
		for _, id := range ids3 {
			sh, err := blskeygen.NewShortKeyShard[*bls12381.PointG1, *bls12381.BaseFieldElementG1, *bls12381.PointG2, *bls12381.BaseFieldElementG2, *bls12381.GtElement, *bls12381.Scalar](bs[id])
			if err != nil {
				return nil, err
			}
			roots = append(roots, root{v: sh}, root{v: sh.PublicKeyMaterial()})
		}
		return roots, nil
	})
}

type (
	g1  = *bls12381.PointG1
	g1f = *bls12381.BaseFieldElementG1
	g2  = *bls12381.PointG2
	g2f = *bls12381.BaseFieldElementG2
	gt  = *bls12381.GtElement
	bsc = *bls12381.Scalar
)

func regSigTypes() {
	eg := "gen/elgamal"
	reg[*elgamal.SecretKey[kP, kS]](famEncryption, "", eg)
	reg[*elgamal.PublicKey[kP, kS]](famEncryption, "", eg)
	reg[*elgamal.Plaintext[kP, kS]](famEncryption, "", eg)
	reg[*elgamal.Nonce[kS]](famEncryption, "", eg)
	reg[*elgamal.Ciphertext[kP, kS]](famEncryption, "", eg)
	reg[*ecdsa.PublicKey[kP, kB, kS]](famKeysSigs, "", "gen/ecdsa")
	reg[*ecdsa.Signature[kS]](famKeysSigs, "", "gen/ecdsa")
	b := "gen/bls"
	reg[*bls.PublicKey[g1, g1f, g2, g2f, gt, bsc]](famKeysSigs, "", b)
	reg[*bls.Signature[g2, g2f, g1, g1f, gt, bsc]](famKeysSigs, "", b)
	reg[*bls.ProofOfPossession[g2, g2f, g1, g1f, gt, bsc]](famKeysSigs, "", b)
	reg[*bls.PublicKey[g2, g2f, g1, g1f, gt, bsc]](famKeysSigs, "", b)
	reg[*bls.Signature[g1, g1f, g2, g2f, gt, bsc]](famKeysSigs, "", b)
	reg[*boldyreva02.Shard[g1, g1f, g2, g2f, gt, bsc]](famShards, "", b)
	reg[*mpcbls.PublicMaterial[g1, g1f, g2, g2f, gt, bsc]](famShards, "", b)
}

func hierarchicalSample() (any, error) {
	return hierarchical.NewHierarchicalConjunctiveThresholdAccessStructure(hierarchical.WithLevel(1, 11, 12, 13, 14, 15, 16, 17, 18))
}

func regAccessTypes() {
	src := "gen/access"
	reg[*threshold.Threshold](famAccess, "", src)
	reg[*unanimity.Unanimity](famAccess, "", src)
	reg[*cnf.CNF](famAccess, "", src)
	reg[*hierarchical.HierarchicalConjunctiveThreshold](famAccess, "", src)
	reg[*hierarchical.ThresholdLevel](famAccess, "", src)
	reg[*boolexpr.ThresholdGateAccessStructure](famAccess, "", src)
	reg[*boolexpr.Node](famAccess, "", src)
}

func regGenerated() {
	defSharingSource(envK256)
	defSharingSource(envG1)
	regAccessTypes()
	regSharingGenTypes(envK256)
	regSharingGenTypes(envG1)
	regCurveTypes()
	regNumberTypes()
	regSigTypes()
	regKeyAgreementTypes()
	regIntcomTypes()
}

var _ sharing.ID
