package c12

// Sample sources that RUN REAL PROTOCOLS over the harness switch (vlib/netsim) and harvest every
// wire message (decoded with the message type of its round), every proof carried inside a message
// (decoded with the proof type of its compiler), and every output (shards, signatures, contexts).
// Each source runs at most once per process.

import (
	"context"
	"crypto/sha256"
	"fmt"
	"hash"
	"reflect"
	"sync"
	"time"

	"github.com/bronlabs/bron-crypto/pkg/base/algebra"
	"github.com/bronlabs/bron-crypto/pkg/base/curves"
	"github.com/bronlabs/bron-crypto/pkg/base/serde"
	"github.com/bronlabs/bron-crypto/pkg/mpc"
	"github.com/bronlabs/bron-crypto/pkg/mpc/aor"
	"github.com/bronlabs/bron-crypto/pkg/mpc/dkg/canetti"
	"github.com/bronlabs/bron-crypto/pkg/mpc/dkg/gennaro"
	"github.com/bronlabs/bron-crypto/pkg/mpc/dkg/trusteddealer"
	"github.com/bronlabs/bron-crypto/pkg/mpc/redistribute"
	"github.com/bronlabs/bron-crypto/pkg/mpc/session"
	"github.com/bronlabs/bron-crypto/pkg/mpc/sharing"
	"github.com/bronlabs/bron-crypto/pkg/mpc/sharing/accessstructures"
	"github.com/bronlabs/bron-crypto/pkg/mpc/sharing/accessstructures/threshold"
	"github.com/bronlabs/bron-crypto/pkg/mpc/signatures/ecdsa/dkls23"
	dklskeygen "github.com/bronlabs/bron-crypto/pkg/mpc/signatures/ecdsa/dkls23/keygen"
	"github.com/bronlabs/bron-crypto/pkg/mpc/signatures/ecdsa/dkls23/signing_bbot"
	"github.com/bronlabs/bron-crypto/pkg/mpc/signatures/ecdsa/dkls23/signing_softspoken"
	"github.com/bronlabs/bron-crypto/pkg/mpc/signatures/ecdsa/lindell17"
	l17dkg "github.com/bronlabs/bron-crypto/pkg/mpc/signatures/ecdsa/lindell17/keygen/dkg"
	l17dealer "github.com/bronlabs/bron-crypto/pkg/mpc/signatures/ecdsa/lindell17/keygen/trusted_dealer"
	l17signing "github.com/bronlabs/bron-crypto/pkg/mpc/signatures/ecdsa/lindell17/signing"
	"github.com/bronlabs/bron-crypto/pkg/mpc/zero/hjky"
	"github.com/bronlabs/bron-crypto/pkg/network"
	"github.com/bronlabs/bron-crypto/pkg/network/echo"
	"github.com/bronlabs/bron-crypto/pkg/ot/base/vsot"
	"github.com/bronlabs/bron-crypto/pkg/proofs/dlog/batch_schnorr"
	"github.com/bronlabs/bron-crypto/pkg/proofs/dlog/schnorr"
	"github.com/bronlabs/bron-crypto/pkg/proofs/okamoto"
	"github.com/bronlabs/bron-crypto/pkg/proofs/sigma"
	"github.com/bronlabs/bron-crypto/pkg/proofs/sigma/compiler"
	"github.com/bronlabs/bron-crypto/pkg/proofs/sigma/compiler/fiatshamir"
	"github.com/bronlabs/bron-crypto/pkg/proofs/sigma/compiler/fiatshamir/zkmodule"
	"github.com/bronlabs/bron-crypto/pkg/proofs/sigma/compiler/fischlin"
	"github.com/bronlabs/bron-crypto/pkg/proofs/sigma/compiler/randfischlin"
	"github.com/bronlabs/bron-crypto/pkg/proofs/sigma/compose/sigand"
	"github.com/bronlabs/bron-crypto/pkg/signatures/ecdsa"
	"github.com/bronlabs/bron-crypto/pkg/transcripts/hagrid"
	"verif/harness/vlib"
	"verif/harness/vlib/netsim"
	"verif/harness/vlib/proto"
)

// ---- running ------------------------------------------------------------------------------------

// recDelivery records the exact bytes every party hands to the transport (router messages).
type recDelivery struct {
	network.Delivery
	rec *wireRec
}

type wireRec struct {
	mu    sync.Mutex
	wires [][]byte
}

func (d recDelivery) Send(ctx context.Context, to sharing.ID, b []byte) error {
	d.rec.mu.Lock()
	if len(d.rec.wires) < 64 {
		d.rec.wires = append(d.rec.wires, append([]byte(nil), b...))
	}
	d.rec.mu.Unlock()
	return d.Delivery.Send(ctx, to, b)
}

type runResult[O any] struct {
	outs  map[sharing.ID]O
	log   []*netsim.Msg
	wires [][]byte
}

// runHonest executes one runner per party over the harness switch; an honest run must finish.
func runHonest[O any](what string, ids []sharing.ID, mk func(id sharing.ID) (network.Runner[O], error)) (*runResult[O], error) {
	net := netsim.New(ids)
	rec := &wireRec{}
	ctx, cancel := context.WithTimeout(context.Background(), 10*time.Minute)
	defer cancel()
	type res struct {
		id  sharing.ID
		out O
		err error
	}
	ch := make(chan res, len(ids))
	routers := map[sharing.ID]*network.Router{}
	for _, id := range ids {
		r, err := mk(id)
		if err != nil {
			return nil, fmt.Errorf("%s: building the runner of party %d: %w", what, id, err)
		}
		rt := network.NewRouter(recDelivery{net.Delivery(id), rec})
		routers[id] = rt
		go func(id sharing.ID, r network.Runner[O], rt *network.Router) {
			defer func() {
				if p := recover(); p != nil {
					var zero O
					ch <- res{id, zero, fmt.Errorf("panic: %v", p)}
				}
			}()
			out, err := r.Run(ctx, rt, func(network.Notification) {})
			ch <- res{id, out, err}
		}(id, r, rt)
	}
	out := &runResult[O]{outs: map[sharing.ID]O{}}
	var firstErr error
	for range ids {
		r := <-ch
		if r.err != nil && firstErr == nil {
			firstErr = fmt.Errorf("%s: honest run failed at party %d: %w", what, r.id, r.err)
			cancel()
			net.Close()
		}
		out.outs[r.id] = r.out
	}
	for _, rt := range routers {
		rt.Close()
	}
	net.Close()
	if firstErr != nil {
		return nil, firstErr
	}
	out.log = net.Log()
	rec.mu.Lock()
	out.wires = rec.wires
	rec.mu.Unlock()
	return out, nil
}

// msgDec maps (round id, broadcast?) to the Go type of the round message.
type msgDec struct {
	round string
	bcast bool
	dec   func([]byte) (any, error)
}

func md[T any](round string, bcast bool) msgDec {
	return msgDec{round, bcast, func(b []byte) (any, error) {
		v, err := serde.UnmarshalCBOR[T](b)
		if err != nil {
			return nil, err
		}
		return v, nil
	}}
}

// messageRoots decodes every round message of the log with the type of its round. A message of
// an unlisted round is a harness error (a message type would silently stay out of the registry).
func messageRoots(what string, log []*netsim.Msg, decs []msgDec) ([]root, error) {
	var out []root
	seen := map[string]bool{}
	for _, m := range log {
		var bcast bool
		switch m.Kind {
		case netsim.Unicast:
		case netsim.Echo1, netsim.Broadcast2:
			bcast = true
		default:
			continue
		}
		k := fmt.Sprintf("%v|%x", bcast, m.Body)
		if seen[k] {
			continue
		}
		seen[k] = true
		var d *msgDec
		for i := range decs {
			if decs[i].round == m.Round() && decs[i].bcast == bcast {
				d = &decs[i]
			}
		}
		if d == nil {
			return nil, fmt.Errorf("%s: no message type registered for round %q (broadcast=%v)", what, m.Round(), bcast)
		}
		v, err := d.dec(m.Body)
		if err != nil {
			return nil, fmt.Errorf("%s: an honestly produced message of round %q does not decode: %w", what, m.Round(), err)
		}
		out = append(out, root{v: v, wire: m.Body})
	}
	return out, nil
}

// echoAndRouterRoots turns the echo-broadcast envelopes and the router messages of a run into roots.
func echoAndRouterRoots[B network.Message[BP], BP any](log []*netsim.Msg, wires [][]byte) ([]root, error) {
	var out []root
	n1, n2 := 0, 0
	for _, m := range log {
		switch m.Kind {
		case netsim.Echo1:
			if n1 >= 4 {
				continue
			}
			n1++
			env := (&echoEnvelope{Payload: m.Body}).encode()
			v, err := serde.UnmarshalCBOR[*echo.Round1P2P[B, BP]](env)
			if err != nil {
				return nil, fmt.Errorf("echo round 1 envelope does not decode: %w", err)
			}
			out = append(out, root{v: v, wire: env})
		case netsim.Echo2:
			if n2 >= 4 {
				continue
			}
			n2++
			v, err := serde.UnmarshalCBOR[*echo.Round2P2P[B, BP]](m.Body)
			if err != nil {
				return nil, fmt.Errorf("echo round 2 message does not decode: %w", err)
			}
			out = append(out, root{v: v, wire: m.Body})
		}
	}
	for i, w := range wires {
		if i >= 8 {
			break
		}
		v, err := serde.UnmarshalCBOR[*routerMessageMirror](w)
		if err != nil {
			return nil, fmt.Errorf("router message does not decode into its mirror: %w", err)
		}
		out = append(out, root{v: v, wire: w})
	}
	return out, nil
}

// routerMessageMirror mirrors network.routerMessage (unexported): same fields, same tags. The
// registry entry decodes through the REAL router (see routerDecode) and uses the mirror only to
// hold the fields.
type routerMessageMirror struct {
	From          sharing.ID `cbor:"from"`
	CorrelationID string     `cbor:"correlationID"`
	Payload       []byte     `cbor:"payload"`
}

func proofRoot[T any](b []byte) (root, error) {
	v, err := serde.UnmarshalCBOR[T](b)
	if err != nil {
		return root{}, fmt.Errorf("an honestly produced proof does not decode as %s: %w", shortTypeOf[T](), err)
	}
	return root{v: v, wire: b}, nil
}

// ---- shared fixtures ------------------------------------------------------------------------------

var ids3 = []sharing.ID{1, 2, 3}

func thr(t uint, ids ...sharing.ID) accessstructures.Monotone {
	ac, err := threshold.NewThresholdAccessStructure(t, proto.SetOf(ids...))
	if err != nil {
		panic(err)
	}
	return ac
}

func prng(label string) *vlib.PRNG { return vlib.NewPRNG(vlib.Seed(), "c12/"+label) }

func ctxs(ids []sharing.ID, label string) map[sharing.ID]*session.Context {
	m, err := proto.Contexts(ids, vlib.Seed(), "c12/"+label)
	if err != nil {
		panic(err)
	}
	return m
}

type memo[T any] struct {
	once sync.Once
	v    T
	err  error
}

func (m *memo[T]) get(f func() (T, error)) (T, error) {
	m.once.Do(func() { m.v, m.err = f() })
	return m.v, m.err
}

// ---- session / AOR ----------------------------------------------------------------------------------

func init() {
	defSource("run/session", func() ([]root, error) {
		r, err := runHonest("session", ids3, func(id sharing.ID) (network.Runner[*session.Context], error) {
			return session.NewSessionRunner(id, proto.SetOf(ids3...), prng(fmt.Sprint("session/", id)))
		})
		if err != nil {
			return nil, err
		}
		roots, err := messageRoots("session", r.log, []msgDec{
			md[*session.Round1Broadcast]("SessionSetupR1", true),
			md[*session.Round2Broadcast]("SessionSetupR2", true),
			md[*session.Round2P2P]("SessionSetupR2", false),
			md[*session.Round3P2P]("SessionSetupR3", false),
		})
		if err != nil {
			return nil, err
		}
		er, err := echoAndRouterRoots[*session.Round1Broadcast, *session.Participant](r.log, r.wires)
		if err != nil {
			return nil, err
		}
		return append(roots, er...), nil
	})
	defSource("run/aor", func() ([]root, error) {
		r, err := runHonest("aor", ids3, func(id sharing.ID) (network.Runner[[]byte], error) {
			return aor.NewAgreeOnRandomRunner(id, proto.SetOf(ids3...), 32, hagrid.NewTranscript("c12"), prng(fmt.Sprint("aor/", id)))
		})
		if err != nil {
			return nil, err
		}
		return messageRoots("aor", r.log, []msgDec{
			md[*aor.Round1Broadcast]("AgreeOnRandomRound1Broadcast", true),
			md[*aor.Round2Broadcast]("AgreeOnRandomRound2Broadcast", true),
		})
	})
}

// ---- group-generic protocols --------------------------------------------------------------------

type groupEnv[G algebra.PrimeGroupElement[G, S], S algebra.PrimeFieldElement[S]] struct {
	name   string
	group  algebra.PrimeGroup[G, S]
	shards memo[map[sharing.ID]*mpc.BaseShard[G, S]]
}

func (g *groupEnv[G, S]) dealt() (map[sharing.ID]*mpc.BaseShard[G, S], error) {
	return g.shards.get(func() (map[sharing.ID]*mpc.BaseShard[G, S], error) {
		m, err := trusteddealer.Deal(g.group, thr(2, ids3...), prng("deal/"+g.name))
		if err != nil {
			return nil, err
		}
		out := map[sharing.ID]*mpc.BaseShard[G, S]{}
		for id, sh := range m.Iter() {
			out[id] = sh
		}
		return out, nil
	})
}

type okCom[G algebra.PrimeGroupElement[G, S], S algebra.PrimeFieldElement[S]] = sigand.Commitment[*okamoto.Commitment[G, S]]
type okResp[S algebra.PrimeFieldElement[S]] = sigand.Response[*okamoto.Response[S]]

func gennaroProofRoots[G algebra.PrimeGroupElement[G, S], S algebra.PrimeFieldElement[S]](comp compiler.Name, r1, r2 []byte) ([]root, error) {
	var a, b root
	var err error
	switch comp {
	case fiatshamir.Name:
		if a, err = proofRoot[*zkmodule.Proof[okCom[G, S], okResp[S]]](r1); err != nil {
			return nil, err
		}
		b, err = proofRoot[*zkmodule.Proof[*batch_schnorr.Commitment[G, S], *batch_schnorr.Response[S]]](r2)
	case fischlin.Name:
		if a, err = proofRoot[*fischlin.Proof[okCom[G, S], okResp[S]]](r1); err != nil {
			return nil, err
		}
		b, err = proofRoot[*fischlin.Proof[*batch_schnorr.Commitment[G, S], *batch_schnorr.Response[S]]](r2)
	case randfischlin.Name:
		if a, err = proofRoot[*randfischlin.Proof[okCom[G, S], okResp[S]]](r1); err != nil {
			return nil, err
		}
		b, err = proofRoot[*randfischlin.Proof[*batch_schnorr.Commitment[G, S], *batch_schnorr.Response[S]]](r2)
	}
	if err != nil {
		return nil, err
	}
	return []root{a, b}, nil
}

func schnorrProofRoot[G algebra.PrimeGroupElement[G, S], S algebra.PrimeFieldElement[S]](comp compiler.Name, p []byte) (root, error) {
	switch comp {
	case fischlin.Name:
		return proofRoot[*fischlin.Proof[*schnorr.Commitment[G, S], *schnorr.Response[S]]](p)
	case randfischlin.Name:
		return proofRoot[*randfischlin.Proof[*schnorr.Commitment[G, S], *schnorr.Response[S]]](p)
	}
	return proofRoot[*zkmodule.Proof[*schnorr.Commitment[G, S], *schnorr.Response[S]]](p)
}

func compShort(c compiler.Name) string {
	switch c {
	case fischlin.Name:
		return "fischlin"
	case randfischlin.Name:
		return "randfischlin"
	}
	return "fs"
}

func defGroupSources[G algebra.PrimeGroupElement[G, S], S algebra.PrimeFieldElement[S]](g *groupEnv[G, S], comps []compiler.Name, withCanettiRedist bool) {
	for _, comp := range comps {
		comp := comp
		defSource("run/gennaro/"+g.name+"/"+compShort(comp), func() ([]root, error) {
			cx := ctxs(ids3, "gennaro/"+g.name+string(comp))
			ac := thr(2, ids3...)
			r, err := runHonest("gennaro", ids3, func(id sharing.ID) (network.Runner[*mpc.BaseShard[G, S]], error) {
				return gennaro.NewRunner(cx[id], g.group, ac, comp, prng(fmt.Sprint("gennaro/", g.name, comp, id)))
			})
			if err != nil {
				return nil, err
			}
			roots, err := messageRoots("gennaro", r.log, []msgDec{
				md[*gennaro.Round1Broadcast[G, S]]("GennaroDKGRound1", true),
				md[*gennaro.Round1Unicast[G, S]]("GennaroDKGRound1", false),
				md[*gennaro.Round2Broadcast[G, S]]("GennaroDKGRound2", true),
			})
			if err != nil {
				return nil, err
			}
			var p1, p2 []byte
			for _, rt := range roots {
				switch m := rt.v.(type) {
				case *gennaro.Round1Broadcast[G, S]:
					p1 = m.Proof
				case *gennaro.Round2Broadcast[G, S]:
					p2 = m.Proof
				}
			}
			pr, err := gennaroProofRoots[G, S](comp, p1, p2)
			if err != nil {
				return nil, err
			}
			roots = append(roots, pr...)
			for _, sh := range r.outs {
				roots = append(roots, root{v: sh})
			}
			return roots, nil
		})
	}
	defSource("deal/"+g.name, func() ([]root, error) {
		m, err := g.dealt()
		if err != nil {
			return nil, err
		}
		var roots []root
		for _, id := range ids3 {
			roots = append(roots, root{v: m[id]})
			pm, err := mpc.NewBasePublicMaterial(m[id].MSP(), m[id].VerificationVector())
			if err != nil {
				return nil, err
			}
			roots = append(roots, root{v: pm})
		}
		return roots, nil
	})
	if !withCanettiRedist {
		return
	}
	defSource("run/canetti/"+g.name, func() ([]root, error) {
		cx := ctxs(ids3, "canetti/"+g.name)
		ac := thr(2, ids3...)
		r, err := runHonest("canetti", ids3, func(id sharing.ID) (network.Runner[*mpc.BaseShard[G, S]], error) {
			return canetti.NewRunner(cx[id], ac, g.group, prng(fmt.Sprint("canetti/", g.name, id)))
		})
		if err != nil {
			return nil, err
		}
		roots, err := messageRoots("canetti", r.log, []msgDec{
			md[*canetti.Round1Broadcast[G, S]]("BRON_CRYPTO_DKG_CANETTI_R1", true),
			md[*canetti.Round2Broadcast[G, S]]("BRON_CRYPTO_DKG_CANETTI_R2", true),
			md[*canetti.Round2P2P[G, S]]("BRON_CRYPTO_DKG_CANETTI_R2", false),
			md[*canetti.Round3Broadcast[G, S]]("BRON_CRYPTO_DKG_CANETTI_R3", true),
		})
		if err != nil {
			return nil, err
		}
		for _, sh := range r.outs {
			roots = append(roots, root{v: sh})
		}
		return roots, nil
	})
	defSource("run/redistribute/"+g.name, func() ([]root, error) {
		shards, err := g.dealt()
		if err != nil {
			return nil, err
		}
		cx := ctxs(ids3, "redistribute/"+g.name)
		ac := thr(2, ids3...)
		r, err := runHonest("redistribute", ids3, func(id sharing.ID) (network.Runner[*mpc.BaseShard[G, S]], error) {
			return redistribute.NewRunner(cx[id], proto.SetOf(ids3...), shards[id], ac, prng(fmt.Sprint("redistribute/", g.name, id)))
		})
		if err != nil {
			return nil, err
		}
		roots, err := messageRoots("redistribute", r.log, []msgDec{
			md[*redistribute.Round1Broadcast[G, S]]("RedistributeRound1", true),
			md[*redistribute.Round1P2P[G, S]]("RedistributeRound1", false),
			md[*redistribute.Round2Broadcast[G, S]]("RedistributeRound2", true),
			md[*redistribute.Round2P2P[G, S]]("RedistributeRound2", false),
		})
		if err != nil {
			return nil, err
		}
		for _, sh := range r.outs {
			roots = append(roots, root{v: sh})
		}
		return roots, nil
	})
}

func regGroupTypes[G algebra.PrimeGroupElement[G, S], S algebra.PrimeFieldElement[S]](g *groupEnv[G, S], comps []compiler.Name, withCanettiRedist bool) {
	var gen []string
	for _, c := range comps {
		gen = append(gen, "run/gennaro/"+g.name+"/"+compShort(c))
	}
	deal := "deal/" + g.name
	if len(gen) > 0 {
		reg[*gennaro.Round1Broadcast[G, S]](famMessages, "gennaro/", gen...)
		reg[*gennaro.Round1Unicast[G, S]](famMessages, "gennaro/", gen...)
		reg[*gennaro.Round2Broadcast[G, S]](famMessages, "gennaro/", gen...)
	}
	for _, c := range comps {
		src := "run/gennaro/" + g.name + "/" + compShort(c)
		switch c {
		case fiatshamir.Name:
			reg[*zkmodule.Proof[okCom[G, S], okResp[S]]](famProofs, "fs/", src)
			reg[*zkmodule.Proof[*batch_schnorr.Commitment[G, S], *batch_schnorr.Response[S]]](famProofs, "fs/", src)
		case fischlin.Name:
			reg[*fischlin.Proof[okCom[G, S], okResp[S]]](famProofs, "", src)
			reg[*fischlin.Proof[*batch_schnorr.Commitment[G, S], *batch_schnorr.Response[S]]](famProofs, "", src)
		case randfischlin.Name:
			reg[*randfischlin.Proof[okCom[G, S], okResp[S]]](famProofs, "", src)
			reg[*randfischlin.Proof[*batch_schnorr.Commitment[G, S], *batch_schnorr.Response[S]]](famProofs, "", src)
		}
	}
	all := append([]string{deal}, gen...)
	reg[*mpc.BaseShard[G, S]](famShards, "", all...)
	reg[*mpc.BasePublicMaterial[G, S]](famShards, "", deal)
	regSharingTypes[G, S](all)
	if withCanettiRedist {
		can, red := "run/canetti/"+g.name, "run/redistribute/"+g.name
		reg[*canetti.Round1Broadcast[G, S]](famMessages, "canetti/", can)
		reg[*canetti.Round2Broadcast[G, S]](famMessages, "canetti/", can)
		reg[*canetti.Round2P2P[G, S]](famMessages, "canetti/", can)
		reg[*canetti.Round3Broadcast[G, S]](famMessages, "canetti/", can)
		reg[*canetti.CommitmentMessage[G, S]](famMessages, "canetti/", can)
		reg[*zkmodule.Proof[*batch_schnorr.Commitment[G, S], *batch_schnorr.Response[S]]](famProofs, "fs/", can)
		reg[*redistribute.Round1Broadcast[G, S]](famMessages, "redistribute/", red)
		reg[*redistribute.Round1P2P[G, S]](famMessages, "redistribute/", red)
		reg[*redistribute.Round2Broadcast[G, S]](famMessages, "redistribute/", red)
		reg[*redistribute.Round2P2P[G, S]](famMessages, "redistribute/", red)
		reg[*hjky.Round1Broadcast[G, S]](famMessages, "hjky/", red)
		reg[*hjky.Round1P2P[G, S]](famMessages, "hjky/", red)
		reg[*mpc.BaseShard[G, S]](famShards, "", can, red)
	}
}

// ---- ECDSA protocols --------------------------------------------------------------------------------

type ecdsaEnv[P curves.Point[P, B, S], B algebra.PrimeFieldElement[B], S algebra.PrimeFieldElement[S]] struct {
	name  string
	curve ecdsa.Curve[P, B, S]
	base  *groupEnv[P, S]
	l17   memo[map[sharing.ID]*lindell17.Shard[P, B, S]]
}

func (e *ecdsaEnv[P, B, S]) suite() *ecdsa.Suite[P, B, S] {
	s, err := ecdsa.NewSuite(e.curve, func() hash.Hash { return sha256.New() })
	if err != nil {
		panic(err)
	}
	return s
}

const l17KeyBits = 1024

// Lindell17 signing needs a straight-line extractable compiler (it refuses Fiat-Shamir).
var l17Compilers = []compiler.Name{fischlin.Name, randfischlin.Name}

func (e *ecdsaEnv[P, B, S]) l17Shards() (map[sharing.ID]*lindell17.Shard[P, B, S], error) {
	return e.l17.get(func() (map[sharing.ID]*lindell17.Shard[P, B, S], error) {
		m, _, err := l17dealer.DealRandom(e.curve, thr(2, ids3...), l17KeyBits, prng("l17deal/"+e.name))
		if err != nil {
			return nil, err
		}
		out := map[sharing.ID]*lindell17.Shard[P, B, S]{}
		for id, sh := range m.Iter() {
			out[id] = sh
		}
		return out, nil
	})
}

var signMessage = []byte("c12: the message that is signed in every harvested signing run")

func defECDSASources[P curves.Point[P, B, S], B algebra.PrimeFieldElement[B], S algebra.PrimeFieldElement[S]](e *ecdsaEnv[P, B, S]) {
	quorum := []sharing.ID{1, 3}
	dklsShards := func() (map[sharing.ID]*dkls23.Shard[P, B, S], error) {
		bs, err := e.base.dealt()
		if err != nil {
			return nil, err
		}
		out := map[sharing.ID]*dkls23.Shard[P, B, S]{}
		for id, b := range bs {
			sh, err := dklskeygen.NewShard[P, B, S](b)
			if err != nil {
				return nil, err
			}
			out[id] = sh
		}
		return out, nil
	}
	defSource("run/dkls23-softspoken/"+e.name, func() ([]root, error) {
		shards, err := dklsShards()
		if err != nil {
			return nil, err
		}
		cx := ctxs(quorum, "dkls-ss/"+e.name)
		r, err := runHonest("dkls23 softspoken", quorum, func(id sharing.ID) (network.Runner[*dkls23.PartialSignature[P, B, S]], error) {
			return signing_softspoken.NewRunner(cx[id], e.suite(), shards[id], signMessage, prng(fmt.Sprint("dkls-ss/", e.name, id)))
		})
		if err != nil {
			return nil, err
		}
		roots, err := messageRoots("dkls23 softspoken", r.log, []msgDec{
			md[*signing_softspoken.Round1P2P[P, B, S]]("DKLS23SignRound1", false),
			md[*signing_softspoken.Round2P2P[P, B, S]]("DKLS23SignRound2", false),
			md[*signing_softspoken.Round3Broadcast[P, B, S]]("DKLS23SignRound3", true),
			md[*signing_softspoken.Round3P2P[P, B, S]]("DKLS23SignRound3", false),
			md[*signing_softspoken.Round4Broadcast[P, B, S]]("DKLS23SignRound4", true),
			md[*signing_softspoken.Round4P2P[P, B, S]]("DKLS23SignRound4", false),
		})
		if err != nil {
			return nil, err
		}
		var ps []*dkls23.PartialSignature[P, B, S]
		for _, id := range quorum {
			roots = append(roots, root{v: r.outs[id]}, root{v: shards[id]})
			ps = append(ps, r.outs[id])
		}
		pk, err := ecdsa.NewPublicKey[P, B, S](shards[1].PublicKeyValue())
		if err != nil {
			return nil, err
		}
		sig, err := dkls23.Aggregate(e.suite(), pk, signMessage, ps...)
		if err != nil {
			return nil, fmt.Errorf("dkls23 aggregate: %w", err)
		}
		return append(roots, root{v: sig}, root{v: pk}), nil
	})
	defSource("run/dkls23-bbot/"+e.name, func() ([]root, error) {
		shards, err := dklsShards()
		if err != nil {
			return nil, err
		}
		cx := ctxs(quorum, "dkls-bbot/"+e.name)
		r, err := runHonest("dkls23 bbot", quorum, func(id sharing.ID) (network.Runner[*dkls23.PartialSignature[P, B, S]], error) {
			return signing_bbot.NewRunner(cx[id], e.suite(), shards[id], signMessage, prng(fmt.Sprint("dkls-bbot/", e.name, id)))
		})
		if err != nil {
			return nil, err
		}
		roots, err := messageRoots("dkls23 bbot", r.log, []msgDec{
			md[*signing_bbot.Round1Broadcast[P, B, S]]("DKLS23SignBBOTRound1", true),
			md[*signing_bbot.Round1P2P[P, B, S]]("DKLS23SignBBOTRound1", false),
			md[*signing_bbot.Round2Broadcast[P, B, S]]("DKLS23SignBBOTRound2", true),
			md[*signing_bbot.Round2P2P[P, B, S]]("DKLS23SignBBOTRound2", false),
			md[*signing_bbot.Round3Broadcast[P, B, S]]("DKLS23SignBBOTRound3", true),
			md[*signing_bbot.Round3P2P[P, B, S]]("DKLS23SignBBOTRound3", false),
		})
		if err != nil {
			return nil, err
		}
		for _, id := range quorum {
			roots = append(roots, root{v: r.outs[id]})
		}
		return roots, nil
	})
	defSource("deal/lindell17/"+e.name, func() ([]root, error) {
		shards, err := e.l17Shards()
		if err != nil {
			return nil, err
		}
		var roots []root
		for _, id := range ids3 {
			roots = append(roots, root{v: shards[id]})
			aux := shards[id].AuxiliaryInfo
			roots = append(roots, root{v: &aux})
		}
		return roots, nil
	})
	for _, comp := range l17Compilers {
		comp := comp
		defSource("run/lindell17-sign/"+e.name+"/"+compShort(comp), func() ([]root, error) {
			shards, err := e.l17Shards()
			if err != nil {
				return nil, err
			}
			prim, sec := sharing.ID(1), sharing.ID(2)
			q := []sharing.ID{prim, sec}
			cx := ctxs(q, "l17/"+e.name+string(comp))
			r, err := runHonest("lindell17 signing", q, func(id sharing.ID) (network.Runner[*ecdsa.Signature[S]], error) {
				if id == prim {
					return l17signing.NewPrimaryRunner(cx[id], e.suite(), sec, shards[id], comp, prng(fmt.Sprint("l17/", e.name, comp, id)), signMessage)
				}
				return l17signing.NewSecondaryRunner(cx[id], e.suite(), prim, shards[id], comp, prng(fmt.Sprint("l17/", e.name, comp, id)), signMessage)
			})
			if err != nil {
				return nil, err
			}
			roots, err := messageRoots("lindell17 signing", r.log, []msgDec{
				md[*l17signing.Round1OutputP2P[P, B, S]]("Lindell17SignRound1", false),
				md[*l17signing.Round2OutputP2P[P, B, S]]("Lindell17SignRound2", false),
				md[*l17signing.Round3OutputP2P[P, B, S]]("Lindell17SignRound3", false),
				md[*l17signing.Round4OutputP2P[P, B, S]]("Lindell17SignRound4", false),
			})
			if err != nil {
				return nil, err
			}
			for _, rt := range append([]root(nil), roots...) {
				var pb []byte
				switch m := rt.v.(type) {
				case *l17signing.Round2OutputP2P[P, B, S]:
					pb = m.BigR2Proof
				case *l17signing.Round3OutputP2P[P, B, S]:
					pb = m.BigR1Proof
				}
				if pb != nil {
					pr, err := schnorrProofRoot[P, S](comp, pb)
					if err != nil {
						return nil, err
					}
					roots = append(roots, pr)
				}
			}
			for _, id := range q {
				if !isNilAny(r.outs[id]) {
					roots = append(roots, root{v: r.outs[id]})
				}
			}
			return roots, nil
		})
	}
	defSource("run/lindell17-dkg/"+e.name, func() ([]root, error) {
		bs, err := e.base.dealt()
		if err != nil {
			return nil, err
		}
		cx := ctxs(ids3, "l17dkg/"+e.name)
		r, err := runHonest("lindell17 dkg", ids3, func(id sharing.ID) (network.Runner[*lindell17.Shard[P, B, S]], error) {
			return l17dkg.NewRunner(cx[id], bs[id], l17KeyBits, e.curve, prng(fmt.Sprint("l17dkg/", e.name, id)), fiatshamir.Name)
		})
		if err != nil {
			return nil, err
		}
		roots, err := messageRoots("lindell17 dkg", r.log, []msgDec{
			md[*l17dkg.Round1Broadcast[P, B, S]]("BRON_CRYPTO_LINDELL17_DKG_R1", true),
			md[*l17dkg.Round2Broadcast[P, B, S]]("BRON_CRYPTO_LINDELL17_DKG_R2", true),
			md[*l17dkg.Round3Broadcast[P, B, S]]("BRON_CRYPTO_LINDELL17_DKG_R3", true),
			md[*l17dkg.Round4P2P[P, B, S]]("BRON_CRYPTO_LINDELL17_DKG_R4", false),
			md[*l17dkg.Round5P2P[P, B, S]]("BRON_CRYPTO_LINDELL17_DKG_R5", false),
			md[*l17dkg.Round6P2P[P, B, S]]("BRON_CRYPTO_LINDELL17_DKG_R6", false),
			md[*l17dkg.Round7P2P[P, B, S]]("BRON_CRYPTO_LINDELL17_DKG_R7", false),
		})
		if err != nil {
			return nil, err
		}
		for _, id := range ids3 {
			roots = append(roots, root{v: r.outs[id]})
		}
		return roots, nil
	})
	defSource("run/vsot/"+e.name, func() ([]root, error) {
		return runVSOT[P, B, S](e)
	})
}

func runVSOT[P curves.Point[P, B, S], B algebra.PrimeFieldElement[B], S algebra.PrimeFieldElement[S]](e *ecdsaEnv[P, B, S]) ([]root, error) {
	suite, err := vsot.NewSuite(16, 1, curves.Curve[P, B, S](e.curve), func() hash.Hash { return sha256.New() })
	if err != nil {
		return nil, err
	}
	q := []sharing.ID{1, 2}
	cx := ctxs(q, "vsot/"+e.name)
	snd, err := vsot.NewSender(cx[1], suite, prng("vsot/s/"+e.name))
	if err != nil {
		return nil, err
	}
	rcv, err := vsot.NewReceiver(cx[2], suite, prng("vsot/r/"+e.name))
	if err != nil {
		return nil, err
	}
	var roots []root
	r1, err := snd.Round1()
	if err != nil {
		return nil, err
	}
	r2, _, err := rcv.Round2(r1, []byte{0xa5, 0x3c})
	if err != nil {
		return nil, err
	}
	r3, _, err := snd.Round3(r2)
	if err != nil {
		return nil, err
	}
	r4, err := rcv.Round4(r3)
	if err != nil {
		return nil, err
	}
	r5, err := snd.Round5(r4)
	if err != nil {
		return nil, err
	}
	if err := rcv.Round6(r5); err != nil {
		return nil, err
	}
	roots = append(roots, root{v: r1}, root{v: r2}, root{v: r3}, root{v: r4}, root{v: r5})
	pr, err := schnorrProofRoot[P, S](fiatshamir.Name, r1.Proof)
	if err != nil {
		return nil, err
	}
	return append(roots, pr), nil
}

var _ sigma.ChallengeBytes

func shortTypeOf[T any]() string { return shortType(reflect.TypeFor[T]()) }
