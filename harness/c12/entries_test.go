package c12

// Registration of every entry of the registry (init) and the sources that are not generic.

import (
	"context"
	"fmt"
	"reflect"
	"sync"
	"time"

	"github.com/bronlabs/bron-crypto/pkg/base/algebra"
	"github.com/bronlabs/bron-crypto/pkg/base/curves"
	"github.com/bronlabs/bron-crypto/pkg/base/curves/edwards25519"
	"github.com/bronlabs/bron-crypto/pkg/base/curves/k256"
	"github.com/bronlabs/bron-crypto/pkg/base/curves/p256"
	"github.com/bronlabs/bron-crypto/pkg/base/curves/pairable/bls12381"
	"github.com/bronlabs/bron-crypto/pkg/base/datastructures/hashmap"
	"github.com/bronlabs/bron-crypto/pkg/base/mat"
	"github.com/bronlabs/bron-crypto/pkg/base/serde"
	"github.com/bronlabs/bron-crypto/pkg/commitments/hashcom"
	"github.com/bronlabs/bron-crypto/pkg/encryption/paillier"
	"github.com/bronlabs/bron-crypto/pkg/mpc/aor"
	rvole_bbot "github.com/bronlabs/bron-crypto/pkg/mpc/rvole/bbot"
	rvole_softspoken "github.com/bronlabs/bron-crypto/pkg/mpc/rvole/softspoken"
	"github.com/bronlabs/bron-crypto/pkg/mpc/session"
	"github.com/bronlabs/bron-crypto/pkg/mpc/sharing"
	"github.com/bronlabs/bron-crypto/pkg/mpc/sharing/scheme/kw"
	"github.com/bronlabs/bron-crypto/pkg/mpc/sharing/scheme/kw/msp"
	"github.com/bronlabs/bron-crypto/pkg/mpc/sharing/vss/feldman"
	"github.com/bronlabs/bron-crypto/pkg/mpc/signatures/ecdsa/dkls23"
	"github.com/bronlabs/bron-crypto/pkg/mpc/signatures/ecdsa/dkls23/signing_bbot"
	"github.com/bronlabs/bron-crypto/pkg/mpc/signatures/ecdsa/dkls23/signing_softspoken"
	"github.com/bronlabs/bron-crypto/pkg/mpc/signatures/ecdsa/lindell17"
	l17dkg "github.com/bronlabs/bron-crypto/pkg/mpc/signatures/ecdsa/lindell17/keygen/dkg"
	l17signing "github.com/bronlabs/bron-crypto/pkg/mpc/signatures/ecdsa/lindell17/signing"
	"github.com/bronlabs/bron-crypto/pkg/mpc/signatures/schnorr/lindell22"
	l22keygen "github.com/bronlabs/bron-crypto/pkg/mpc/signatures/schnorr/lindell22/keygen"
	l22signing "github.com/bronlabs/bron-crypto/pkg/mpc/signatures/schnorr/lindell22/signing"
	"github.com/bronlabs/bron-crypto/pkg/mpc/zero/hjky"
	"github.com/bronlabs/bron-crypto/pkg/network"
	"github.com/bronlabs/bron-crypto/pkg/network/echo"
	"github.com/bronlabs/bron-crypto/pkg/ot/base/ecbbot"
	"github.com/bronlabs/bron-crypto/pkg/ot/base/vsot"
	"github.com/bronlabs/bron-crypto/pkg/ot/extension/softspoken"
	"github.com/bronlabs/bron-crypto/pkg/proofs/dlog/schnorr"
	"github.com/bronlabs/bron-crypto/pkg/proofs/sigma/compiler"
	"github.com/bronlabs/bron-crypto/pkg/proofs/sigma/compiler/fiatshamir"
	"github.com/bronlabs/bron-crypto/pkg/proofs/sigma/compiler/fiatshamir/zkmodule"
	"github.com/bronlabs/bron-crypto/pkg/proofs/sigma/compiler/fischlin"
	"github.com/bronlabs/bron-crypto/pkg/proofs/sigma/compiler/randfischlin"
	"github.com/bronlabs/bron-crypto/pkg/signatures/ecdsa"
	"github.com/bronlabs/bron-crypto/pkg/signatures/schnorrlike"
	"github.com/bronlabs/bron-crypto/pkg/signatures/schnorrlike/bip340"
	"verif/harness/vlib/cbormut"
)

var allCompilers = []compiler.Name{fiatshamir.Name, fischlin.Name, randfischlin.Name}

type (
	kP = *k256.Point
	kS = *k256.Scalar
	kB = *k256.BaseFieldElement
)

var (
	envK256    = &groupEnv[kP, kS]{name: "k256", group: k256.NewCurve()}
	envEd25519 = &groupEnv[*edwards25519.PrimeSubGroupPoint, *edwards25519.Scalar]{name: "ed25519", group: edwards25519.NewPrimeSubGroup()}
	envG1      = &groupEnv[*bls12381.PointG1, *bls12381.Scalar]{name: "bls12381g1", group: bls12381.NewG1()}
	envP256    = &groupEnv[*p256.Point, *p256.Scalar]{name: "p256", group: p256.NewCurve()}
	ecdsaK256  = &ecdsaEnv[kP, kB, kS]{name: "k256", curve: k256.NewCurve(), base: envK256}
)

// regSharingTypes registers the sharing-layer types that base shards and DKG messages are made of.
func regSharingTypes[G algebra.PrimeGroupElement[G, S], S algebra.PrimeFieldElement[S]](srcs []string) {
	reg[*kw.Share[S]](famShares, "", srcs...)
	reg[*feldman.LiftedShare[G, S]](famShares, "", srcs...)
	reg[*feldman.VerificationVector[G, S]](famShares, "", srcs...)
	reg[*msp.MSP[S]](famShares, "", srcs...)
	reg[*mat.Matrix[S]](famNumbers, "", srcs...)
	reg[*mat.ModuleValuedMatrix[G, S]](famNumbers, "", srcs...)
	reg[G](famCurves, "", srcs...)
	reg[S](famCurves, "", srcs...)
}

func regECDSATypes[P curves.Point[P, B, S], B algebra.PrimeFieldElement[B], S algebra.PrimeFieldElement[S]](e *ecdsaEnv[P, B, S]) {
	ss, bb := "run/dkls23-softspoken/"+e.name, "run/dkls23-bbot/"+e.name
	reg[*signing_softspoken.Round1P2P[P, B, S]](famMessages, "dkls23/", ss)
	reg[*signing_softspoken.Round2P2P[P, B, S]](famMessages, "dkls23/", ss)
	reg[*signing_softspoken.Round3Broadcast[P, B, S]](famMessages, "dkls23/", ss)
	reg[*signing_softspoken.Round3P2P[P, B, S]](famMessages, "dkls23/", ss)
	reg[*signing_softspoken.Round4Broadcast[P, B, S]](famMessages, "dkls23/", ss)
	reg[*signing_softspoken.Round4P2P[P, B, S]](famMessages, "dkls23/", ss)
	reg[*signing_bbot.Round1Broadcast[P, B, S]](famMessages, "dkls23/", bb)
	reg[*signing_bbot.Round1P2P[P, B, S]](famMessages, "dkls23/", bb)
	reg[*signing_bbot.Round2Broadcast[P, B, S]](famMessages, "dkls23/", bb)
	reg[*signing_bbot.Round2P2P[P, B, S]](famMessages, "dkls23/", bb)
	reg[*signing_bbot.Round3Broadcast[P, B, S]](famMessages, "dkls23/", bb)
	reg[*signing_bbot.Round3P2P[P, B, S]](famMessages, "dkls23/", bb)
	// OT / multiplication layer messages carried inside the signing messages
	reg[*ecbbot.Round1P2P[P, S]](famMessages, "ot/", ss, bb)
	reg[*ecbbot.Round2P2P[P, S]](famMessages, "ot/", ss, bb).withMax(3)
	reg[*softspoken.Round1P2P](famMessages, "ot/", ss).withMax(3)
	reg[*rvole_softspoken.Round1P2P[P, B, S]](famMessages, "rvole/", ss).withMax(3)
	reg[*rvole_softspoken.Round2P2P[P, B, S]](famMessages, "rvole/", ss).withMax(3)
	reg[*rvole_bbot.Round1P2P[P, S]](famMessages, "rvole/", bb)
	reg[*rvole_bbot.Round2P2P[P, S]](famMessages, "rvole/", bb).withMax(3)
	reg[*rvole_bbot.Round3P2P[P, S]](famMessages, "rvole/", bb).withMax(3)
	reg[*dkls23.Shard[P, B, S]](famShards, "", ss)
	reg[*dkls23.PartialSignature[P, B, S]](famKeysSigs, "", ss, bb)
	reg[*ecdsa.Signature[S]](famKeysSigs, "", ss)
	reg[*ecdsa.PublicKey[P, B, S]](famKeysSigs, "", ss)

	deal := "deal/lindell17/" + e.name
	var l17 []string
	for _, c := range l17Compilers {
		l17 = append(l17, "run/lindell17-sign/"+e.name+"/"+compShort(c))
	}
	reg[*l17signing.Round1OutputP2P[P, B, S]](famMessages, "lindell17/", l17...)
	reg[*l17signing.Round2OutputP2P[P, B, S]](famMessages, "lindell17/", l17...)
	reg[*l17signing.Round3OutputP2P[P, B, S]](famMessages, "lindell17/", l17...)
	reg[*l17signing.Round4OutputP2P[P, B, S]](famMessages, "lindell17/", l17...)
	reg[*zkmodule.Proof[*schnorr.Commitment[P, S], *schnorr.Response[S]]](famProofs, "fs/", "run/vsot/"+e.name)
	reg[*fischlin.Proof[*schnorr.Commitment[P, S], *schnorr.Response[S]]](famProofs, "", l17[0])
	reg[*randfischlin.Proof[*schnorr.Commitment[P, S], *schnorr.Response[S]]](famProofs, "", l17[1])
	reg[*schnorr.Commitment[P, S]](famProofs, "maurer09/", l17[0])
	reg[*schnorr.Response[S]](famProofs, "maurer09/", l17[0])
	reg[*ecdsa.Signature[S]](famKeysSigs, "", l17[0])
	reg[*lindell17.Shard[P, B, S]](famShards, "", deal).withMax(3)
	reg[*lindell17.AuxiliaryInfo](famShards, "", deal).withMax(3)
	reg[*paillier.SecretKey](famEncryption, "", deal).withMax(3)
	reg[*paillier.PublicKey](famEncryption, "", deal).withMax(3)
	reg[*paillier.Ciphertext](famEncryption, "", deal, l17[0]).withMax(4)

	dkg := "run/lindell17-dkg/" + e.name
	reg[*l17dkg.Round1Broadcast[P, B, S]](famMessages, "lindell17/", dkg).withMax(2)
	reg[*l17dkg.Round2Broadcast[P, B, S]](famMessages, "lindell17/", dkg).withMax(2)
	reg[*l17dkg.Round3Broadcast[P, B, S]](famMessages, "lindell17/", dkg).withMax(2)
	reg[*l17dkg.Round4P2P[P, B, S]](famMessages, "lindell17/", dkg).withMax(2)
	reg[*l17dkg.Round5P2P[P, B, S]](famMessages, "lindell17/", dkg).withMax(2)
	reg[*l17dkg.Round6P2P[P, B, S]](famMessages, "lindell17/", dkg).withMax(2)
	reg[*l17dkg.Round7P2P[P, B, S]](famMessages, "lindell17/", dkg).withMax(2)

	vs := "run/vsot/" + e.name
	reg[*vsot.Round1P2P[P, B, S]](famMessages, "ot/", vs)
	reg[*vsot.Round2P2P[P, B, S]](famMessages, "ot/", vs)
	reg[*vsot.Round3P2P[P, B, S]](famMessages, "ot/", vs)
	reg[*vsot.Round4P2P[P, B, S]](famMessages, "ot/", vs)
	reg[*vsot.Round5P2P[P, B, S]](famMessages, "ot/", vs)
}

// ---- Lindell22 (BIP-340 over k256) --------------------------------------------------------------------

type l22M = bip340.Message

func defL22Sources() {
	quorum := []sharing.ID{2, 3}
	for _, comp := range allCompilers {
		comp := comp
		defSource("run/lindell22/"+compShort(comp), func() ([]root, error) {
			bs, err := envK256.dealt()
			if err != nil {
				return nil, err
			}
			cx := ctxs(quorum, "l22/"+string(comp))
			shards := map[sharing.ID]*lindell22.Shard[kP, kS]{}
			for _, id := range quorum {
				if shards[id], err = l22keygen.NewShard(bs[id]); err != nil {
					return nil, err
				}
			}
			msg := l22M(signMessage)
			r, err := runHonest("lindell22", quorum, func(id sharing.ID) (network.Runner[*lindell22.PartialSignature[kP, kS]], error) {
				sc, err := bip340.NewScheme(prng(fmt.Sprint("l22/scheme/", comp, id)))
				if err != nil {
					return nil, err
				}
				return l22signing.NewRunner(cx[id], shards[id], comp, sc.Variant(), msg, prng(fmt.Sprint("l22/", comp, id)))
			})
			if err != nil {
				return nil, err
			}
			roots, err := messageRoots("lindell22", r.log, []msgDec{
				md[*l22signing.Round1Broadcast[kP, kS, l22M]]("Lindell22SigningRound1", true),
				md[*l22signing.Round1P2P[kP, kS, l22M]]("Lindell22SigningRound1", false),
				md[*l22signing.Round2Broadcast[kP, kS, l22M]]("Lindell22SigningRound2", true),
			})
			if err != nil {
				return nil, err
			}
			for _, rt := range append([]root(nil), roots...) {
				if m, ok := rt.v.(*l22signing.Round2Broadcast[kP, kS, l22M]); ok {
					pr, err := schnorrProofRoot[kP, kS](comp, m.BigRProof)
					if err != nil {
						return nil, err
					}
					roots = append(roots, pr)
				}
			}
			ps := map[sharing.ID]*lindell22.PartialSignature[kP, kS]{}
			for _, id := range quorum {
				ps[id] = r.outs[id]
				roots = append(roots, root{v: r.outs[id]}, root{v: shards[id]}, root{v: shards[id].PublicKeyMaterial()}, root{v: shards[id].PublicKey()})
			}
			sc, err := bip340.NewScheme(prng("l22/agg"))
			if err != nil {
				return nil, err
			}
			agg, err := l22signing.NewAggregator(shards[quorum[0]].PublicKeyMaterial(), sc)
			if err != nil {
				return nil, err
			}
			sig, err := agg.Aggregate(hashmap.NewImmutableComparableFromNativeLike(ps), msg)
			if err != nil {
				return nil, fmt.Errorf("lindell22 aggregate: %w", err)
			}
			return append(roots, root{v: sig}), nil
		})
	}
}

func regL22Types() {
	var l22 []string
	for _, c := range allCompilers {
		l22 = append(l22, "run/lindell22/"+compShort(c))
	}
	reg[*l22signing.Round1Broadcast[kP, kS, l22M]](famMessages, "lindell22/", l22...)
	reg[*l22signing.Round1P2P[kP, kS, l22M]](famMessages, "lindell22/", l22...)
	reg[*l22signing.Round2Broadcast[kP, kS, l22M]](famMessages, "lindell22/", l22...)
	reg[*hjky.Round1Broadcast[kP, kS]](famMessages, "hjky/", l22[0])
	reg[*hjky.Round1P2P[kP, kS]](famMessages, "hjky/", l22[0])
	reg[*lindell22.PartialSignature[kP, kS]](famKeysSigs, "lindell22/", l22[0])
	reg[*lindell22.Shard[kP, kS]](famShards, "lindell22/", l22[0])
	reg[*lindell22.PublicMaterial[kP, kS]](famShards, "lindell22/", l22[0])
	reg[*schnorrlike.PublicKey[kP, kS]](famKeysSigs, "", l22[0])
	reg[*schnorrlike.Signature[kP, kS]](famKeysSigs, "", l22[0])
	reg[*schnorr.Statement[kP, kS]](famProofs, "maurer09/", l22[0])
	reg[*zkmodule.Proof[*schnorr.Commitment[kP, kS], *schnorr.Response[kS]]](famProofs, "fs/", l22[0])
	reg[*fischlin.Proof[*schnorr.Commitment[kP, kS], *schnorr.Response[kS]]](famProofs, "", l22[1])
	reg[*randfischlin.Proof[*schnorr.Commitment[kP, kS], *schnorr.Response[kS]]](famProofs, "", l22[2])
}

// ---- echo envelope, router ------------------------------------------------------------------------

type echoEnvelope struct{ Payload []byte }

func (e *echoEnvelope) encode() []byte {
	n := &cbormut.Node{Major: 5, Items: []*cbormut.Node{
		{Major: 3, Bytes: []byte("payload")},
		{Major: 2, Bytes: e.Payload},
	}}
	return n.Encode()
}

// oneShotDelivery hands a fixed list of wire messages to a router, then blocks.
type oneShotDelivery struct {
	mu    sync.Mutex
	wires [][]byte
	from  sharing.ID
}

func (d *oneShotDelivery) PartyID() sharing.ID  { return 2 }
func (d *oneShotDelivery) Quorum() []sharing.ID { return []sharing.ID{1, 2} }
func (d *oneShotDelivery) Send(context.Context, sharing.ID, []byte) error {
	return nil
}
func (d *oneShotDelivery) Receive(ctx context.Context) (sharing.ID, []byte, error) {
	d.mu.Lock()
	if len(d.wires) > 0 {
		w := d.wires[0]
		d.wires = d.wires[1:]
		d.mu.Unlock()
		return d.from, w, nil
	}
	d.mu.Unlock()
	<-ctx.Done()
	return 0, nil, ctx.Err()
}

var routerSentinel = func() []byte {
	b, err := serde.MarshalCBOR(&routerMessageMirror{From: 1, CorrelationID: "c12-sentinel", Payload: []byte{1}})
	if err != nil {
		panic(err)
	}
	return b
}()

// routerAccepts feeds b to a REAL network.Router followed by a well-formed sentinel message: the
// router latches a fatal error at the first message it cannot decode, so the sentinel arrives
// iff b was accepted by the decoder of the (unexported) router message type.
func routerAccepts(b []byte) (ok bool) {
	d := &oneShotDelivery{wires: [][]byte{b, routerSentinel}, from: 1}
	rt := network.NewRouter(d)
	defer rt.Close()
	ctx, cancel := context.WithTimeout(context.Background(), 20*time.Second)
	defer cancel()
	got, err := rt.ReceiveFrom(ctx, "c12-sentinel", 1)
	return err == nil && len(got) == 1
}

func regRouter() {
	e := reg[*routerMessageMirror](famMessages, "router/", "run/session")
	e.mirror = true
	// the router decodes into a VALUE of its message struct (CBOR null gives the zero message), so
	// does the mirror
	inner := func(b []byte) (any, error) {
		v, err := serde.UnmarshalCBOR[routerMessageMirror](b)
		if err != nil {
			return nil, err
		}
		return &v, nil
	}
	e.decode = func(b []byte) (any, error) {
		real := routerAccepts(b)
		v, err := inner(b)
		if real != (err == nil) {
			// the mirror is only a view: the verdict is the real router's
			if !real {
				return nil, fmt.Errorf("the router refuses the message (mirror accepts)")
			}
			return nil, errMirrorDiverges
		}
		return v, err
	}
}

var errMirrorDiverges = fmt.Errorf("harness: the real router accepts a message that its harness mirror refuses")

func init() {
	// protocols
	defGroupSources(envK256, allCompilers, true)
	defGroupSources(envEd25519, []compiler.Name{fiatshamir.Name}, false)
	defGroupSources(envG1, []compiler.Name{fiatshamir.Name}, false)
	defGroupSources(envP256, nil, false)
	defECDSASources(ecdsaK256)
	defL22Sources()

	// messages without type parameters
	reg[*session.Round1Broadcast](famMessages, "session/", "run/session")
	reg[*session.Round2Broadcast](famMessages, "session/", "run/session")
	reg[*session.Round2P2P](famMessages, "session/", "run/session")
	reg[*session.Round3P2P](famMessages, "session/", "run/session")
	reg[*aor.Round1Broadcast](famMessages, "aor/", "run/aor")
	reg[*aor.Round2Broadcast](famMessages, "aor/", "run/aor")
	reg[*echo.Round1P2P[*session.Round1Broadcast, *session.Participant]](famMessages, "echo/", "run/session")
	reg[*echo.Round2P2P[*session.Round1Broadcast, *session.Participant]](famMessages, "echo/", "run/session")
	regRouter()
	reg[*hashcom.CommitmentKey](famCommitments, "", "run/session")

	regGroupTypes(envK256, allCompilers, true)
	regGroupTypes(envEd25519, []compiler.Name{fiatshamir.Name}, false)
	regGroupTypes(envG1, []compiler.Name{fiatshamir.Name}, false)
	regGroupTypes(envP256, nil, false)
	regECDSATypes(ecdsaK256)
	regL22Types()
	regGenerated()
}

var _ = reflect.TypeOf
