package c12

// Catalogue of the deviations this package found on the unchanged tree, kept as the conventions
// say: every deviation is PINNED by (type, operator, field class, failure kind) in pinned_test.go,
// grouped under a finding id; the enumerating test (TestStructural) re-runs every pinned placement
// and reports per id whether it is still present (vlib.Known); the generated tests count an input
// that lands exactly on a pinned placement with vlib.Excluded instead of failing. Once a decoder is
// repaired its placements stop failing and nothing is excluded any more.
//
// VERIF_C12_COLLECT=1 (development aid) logs unpinned deviations as `PIN "<key>"` lines instead of
// failing, which is how pinned_test.go was produced and then reviewed.

import (
	"fmt"
	"os"
	"sort"
	"strings"
	"sync"

	"verif/harness/vlib"
	"verif/harness/vlib/cbormut"
)

var collectMode = os.Getenv("VERIF_C12_COLLECT") != ""

// pinKey names the type of an entry independently of its type arguments.
func (e *entry) pinKey() string {
	prefix := ""
	if i := strings.IndexByte(e.name, '/'); i >= 0 && i < strings.IndexAny(e.name+"*[", "*[") {
		prefix = e.name[:i+1]
	}
	return prefix + baseName(e.typ)
}

func opGroup(op string) string {
	switch op {
	case opSelfDescNu:
		return "selfdescribed-null"
	case opSelfDesc:
		return "selfdescribed-wrap"
	case opDropKey:
		return "missing-field"
	case opNull, opUndef:
		return "null-field"
	case opEmptyArr, opEmptyMap, opZeroInt, opEmptyBstr:
		return "wrong-type-field"
	case cbormut.OpTruncate, cbormut.OpExtend:
		return "array-length"
	}
	return "altered-value"
}

func findingID(op, kind string) string {
	k := kind
	switch kind {
	case "panic":
		k = "panic"
	case "invalid":
		k = "invalid-object"
	case "reencode", "idempotence":
		k = "not-reencodable"
	}
	return "C12-" + opGroup(op) + "-" + k
}

func pinString(e *entry, op, class, kind string) string {
	return e.pinKey() + "|" + op + "|" + class + "|" + kind
}

var (
	pinnedOnce sync.Once
	pinnedSet  map[string]bool
)

func isPinned(key string) bool {
	pinnedOnce.Do(func() {
		pinnedSet = map[string]bool{}
		for _, k := range pinned {
			pinnedSet[k] = true
		}
	})
	return pinnedSet[key]
}

// observations of pinned placements made by this process (for vlib.Known).
var (
	obsMu      sync.Mutex
	obsPresent = map[string][]string{} // finding id -> examples still failing
	obsChecked = map[string]int{}      // finding id -> pinned placements re-run
	collected  = map[string]string{}   // unpinned deviations seen in collect mode
)

func observe(id string, failing bool, example string) {
	obsMu.Lock()
	defer obsMu.Unlock()
	obsChecked[id]++
	if failing && len(obsPresent[id]) < 400 {
		obsPresent[id] = append(obsPresent[id], example)
	}
}

// tolerated decides what to do with a deviation at a described placement: (true) it is a pinned,
// catalogued one and is counted as excluded; (false) the caller must fail.
func tolerated(e *entry, op, class, kind string, input []byte) bool {
	key := pinString(e, op, class, kind)
	if isPinned(key) {
		vlib.Excluded(findingID(op, kind))
		return true
	}
	if collectMode {
		obsMu.Lock()
		if _, dup := collected[key]; !dup {
			collected[key] = hx(input)
			fmt.Printf("PIN %q, // %s\n", key, vlib.Hex(input))
		}
		obsMu.Unlock()
		return true
	}
	return false
}

// toleratedRaw is the input-based variant for inputs without a mutation descriptor (raw bytes,
// fuzzing): the input is explained by a pinned placement of the same type when it contains the
// construct of that placement (a null / undefined value, a self-described tag, an empty container
// or a map that lacks a field of the type's valid encodings).
func toleratedRaw(e *entry, kind string, input []byte) bool {
	root, err := cbormut.Parse(input)
	if err != nil {
		if collectMode {
			fmt.Printf("RAWFAIL %s %s %s\n", e.name, kind, hx(input))
			return true
		}
		return false
	}
	has := map[string]bool{}
	for _, p := range positions(root) {
		n := p.node
		switch {
		case n.Major == 7 && (n.Val == 22 || n.Val == 23):
			has["null-field"] = true
		case n.Major == 6 && n.Val == 55799:
			has["selfdescribed-null"], has["selfdescribed-wrap"] = true, true
		case (n.Major == 4 || n.Major == 5 || n.Major == 2) && len(n.Items) == 0 && len(n.Bytes) == 0:
			has["wrong-type-field"], has["array-length"] = true, true
		}
		if n.Major == 5 {
			has["missing-field"] = true // any map may lack a field
		}
		if n.Major == 0 || n.Major == 4 {
			has["wrong-type-field"] = true
		}
	}
	prefix := e.pinKey() + "|"
	for _, k := range pinned {
		if !strings.HasPrefix(k, prefix) || !strings.HasSuffix(k, "|"+kind) {
			continue
		}
		parts := strings.Split(k, "|")
		if len(parts) == 4 && has[opGroup(parts[1])] {
			vlib.Excluded(findingID(parts[1], kind))
			return true
		}
	}
	if collectMode {
		fmt.Printf("RAWFAIL %s %s %s\n", e.name, kind, hx(input))
		return true
	}
	return false
}

// reportKnown publishes the observations of this process.
func reportKnown() {
	obsMu.Lock()
	defer obsMu.Unlock()
	var ids []string
	for id := range obsChecked {
		ids = append(ids, id)
	}
	sort.Strings(ids)
	for _, id := range ids {
		ex := obsPresent[id]
		what := fmt.Sprintf("%d of %d pinned placements re-run by this shard still deviate", len(ex), obsChecked[id])
		if len(ex) > 0 {
			show := ex
			if len(show) > 12 {
				show = show[:12]
			}
			what += ": " + strings.Join(show, "; ")
		}
		vlib.Known(id, len(ex) > 0, what)
	}
}
