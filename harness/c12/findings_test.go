package c12

// Catalogue of the deviations this package found on the unchanged tree, kept as the conventions
// say: every deviation is PINNED by (type, field class, operator group, failure kind) in pinned_test.go,
// grouped under a finding id; the enumerating test (TestStructural) re-runs every pinned placement
// and reports per id whether it is still present (vlib.Known); the generated tests count an input
// that lands exactly on a pinned placement with vlib.Excluded instead of failing. Once a decoder is
// repaired its placements stop failing and nothing is excluded any more.
//
// VERIF_C12_COLLECT=1 (development aid) logs unpinned deviations as `PIN "<key>"` lines instead of
// failing, which is how pinned_test.go was produced and then reviewed.

import (
	"fmt"
	"os"
	"sort"
	"strings"
	"sync"

	"verif/harness/vlib"
	"verif/harness/vlib/cbormut"
)

var collectMode = os.Getenv("VERIF_C12_COLLECT") != ""

// pinKey names the type of an entry independently of its type arguments.
func (e *entry) pinKey() string {
	prefix := ""
	if i := strings.IndexByte(e.name, '/'); i >= 0 && i < strings.IndexAny(e.name+"*[", "*[") {
		prefix = e.name[:i+1]
	}
	return prefix + baseName(e.typ)
}

func opGroup(op string) string {
	switch op {
	case opSelfDescNu:
		return "selfdescribed-null"
	case opSelfDesc:
		return "selfdescribed-wrap"
	case opDropKey:
		return "missing-field"
	case opNull, opUndef:
		return "null-field"
	case opEmptyArr, opEmptyMap, opZeroInt, opEmptyBstr:
		return "wrong-type-field"
	case cbormut.OpTruncate, cbormut.OpExtend, opTruncArr, opExtendArr:
		return "array-length"
	case opZeroBytes:
		return "altered-value"
	case cbormut.OpBitFlip, cbormut.OpReplace, cbormut.OpSwap, cbormut.OpIntStep, cbormut.OpZero:
		return "altered-value"
	case "hostile:selfdescribed-null":
		return "selfdescribed-null"
	case "hostile:empty-map", "hostile:tag-2^64-1":
		return "wrong-type-field" // {} in place of the whole value, as the enumerated emptymap at the root
	}
	if op == "selfdescribed-null" || op == "selfdescribed-wrap" || op == "missing-field" || op == "null-field" || op == "wrong-type-field" || op == "array-length" || op == "altered-value" {
		return op // already a group name
	}
	return op
}

func findingID(op, kind string) string {
	return "C12-" + opGroup(op) + "-" + pinKind(kind)
}

// pinString is the key of a pinned deviation: type | field class | operator GROUP | failure kind.
// The field class is part of the key for the groups whose placements TestStructural enumerates
// completely (null / missing / wrong-type field, self-described tag, array length), so that a new
// panic at another field of an already pinned type is still reported. Two groups are pinned per type
// (class "*"): altered-value (bit flips, copied / zeroed / stepped leaves: drawn, not enumerated) and
// selfdescribed-null (a decoder without a `dto == nil` check fails at EVERY position of the type:
// 621 placements on ead8bd4, one root cause per decoder).
func pinString(e *entry, op, class, kind string) string {
	g := opGroup(op)
	class = strings.TrimSuffix(class, "[]")
	if strings.HasPrefix(op, "hostile:") {
		class = "" // the hostile constants are top-level values
	}
	if g == "altered-value" || g == "selfdescribed-null" {
		class = "*"
	}
	return e.pinKey() + "|" + class + "|" + g + "|" + pinKind(kind)
}

func pinKind(kind string) string {
	switch kind {
	case "reencode", "idempotence":
		return "not-reencodable"
	case "invalid":
		return "invalid-object"
	}
	return kind
}

var (
	pinnedOnce sync.Once
	pinnedSet  map[string]bool
)

func isPinned(key string) bool {
	pinnedOnce.Do(func() {
		pinnedSet = map[string]bool{}
		if os.Getenv("VERIF_C12_NOPINS") != "" { // development aid: re-collect from scratch
			return
		}
		for _, k := range pinned {
			pinnedSet[k] = true
		}
	})
	return pinnedSet[key]
}

// observations of pinned placements made by this process (for vlib.Known).
var (
	obsMu      sync.Mutex
	obsPresent = map[string][]string{} // finding id -> examples still failing
	obsChecked = map[string]int{}      // finding id -> pinned placements re-run
	collected  = map[string]string{}   // unpinned deviations seen in collect mode
)

func observe(id string, failing bool, example string) {
	obsMu.Lock()
	defer obsMu.Unlock()
	obsChecked[id]++
	if failing && len(obsPresent[id]) < 400 {
		obsPresent[id] = append(obsPresent[id], example)
	}
}

// tolerated decides what to do with a deviation at a described placement: (true) it is a pinned,
// catalogued one and is counted as excluded; (false) the caller must fail.
func tolerated(e *entry, op, class, kind string, input []byte) bool {
	key := pinString(e, op, class, kind)
	if isPinned(key) {
		vlib.Excluded(findingID(op, kind))
		return true
	}
	if collectMode {
		obsMu.Lock()
		if _, dup := collected[key]; !dup {
			collected[key] = hx(input)
			fmt.Printf("PIN %q, // %s@%s %s\n", key, op, class, vlib.Hex(input))
		}
		obsMu.Unlock()
		return true
	}
	return false
}

// toleratedRaw is the input-based variant for inputs without a mutation descriptor (raw bytes,
// fuzzing): the input is explained by a pinned placement of the same type when it contains the
// construct of that placement (a null / undefined value, a self-described tag, an empty container
// or a map that lacks a field of the type's valid encodings).
func toleratedRaw(e *entry, kind string, input []byte) bool {
	root, err := cbormut.Parse(input)
	if err != nil {
		if collectMode {
			fmt.Printf("RAWFAIL %s %s %s\n", e.name, kind, hx(input))
			return true
		}
		return false
	}
	has := map[string]bool{}
	for _, p := range positions(root) {
		n := p.node
		switch {
		case n.Major == 7 && (n.Val == 22 || n.Val == 23):
			has["null-field"] = true
		case n.Major == 6 && n.Val == 55799:
			has["selfdescribed-null"], has["selfdescribed-wrap"] = true, true
		case (n.Major == 4 || n.Major == 5 || n.Major == 2) && len(n.Items) == 0 && len(n.Bytes) == 0:
			has["wrong-type-field"], has["array-length"] = true, true
		}
		if n.Major == 4 {
			has["array-length"] = true
		}
		if n.Major <= 3 {
			has["altered-value"] = true
		}
		if n.Major == 5 {
			has["missing-field"] = true // any map may lack a field
		}
		if n.Major == 0 || n.Major == 4 {
			has["wrong-type-field"] = true
		}
	}
	prefix := e.pinKey() + "|"
	for _, k := range pinned {
		if !strings.HasPrefix(k, prefix) {
			continue
		}
		parts := strings.Split(k, "|")
		if len(parts) == 4 && parts[3] == pinKind(kind) && has[parts[2]] {
			vlib.Excluded("C12-" + parts[2] + "-" + parts[3])
			return true
		}
	}
	if collectMode {
		fmt.Printf("RAWFAIL %s %s %s\n", e.name, kind, hx(input))
		return true
	}
	return false
}

// reportKnown publishes the observations of this process.
func reportKnown() {
	obsMu.Lock()
	defer obsMu.Unlock()
	var ids []string
	for id := range obsChecked {
		ids = append(ids, id)
	}
	sort.Strings(ids)
	for _, id := range ids {
		ex := obsPresent[id]
		what := fmt.Sprintf("%d of %d pinned placements re-run by this shard still deviate", len(ex), obsChecked[id])
		if len(ex) > 0 {
			show := ex
			if len(show) > 12 {
				show = show[:12]
			}
			what += ": " + strings.Join(show, "; ")
		}
		vlib.Known(id, len(ex) > 0, what)
	}
}

// ---- C12-hierarchical-party-order-unstable ---------------------------------------------------------
//
// NewHierarchicalConjunctiveThresholdAccessStructure stores the parties of a level in the iteration
// order of a hash set, and the encoding writes them as an array in that order. Decoding a valid
// encoding and encoding the result again therefore permutes the parties of a level at random: the
// wire format of this type is not canonical (Unmarshal(Marshal(v)) does not re-marshal to the same
// bytes). While the deviation is present, encodings of this type are compared modulo the order of
// the "parties" arrays.

const knownHierOrder = "C12-hierarchical-party-order-unstable"

var (
	hierOnce    sync.Once
	hierPresent bool
	hierWhat    string
)

func observeHierOrder() (bool, string) {
	hierOnce.Do(func() {
		e := byName["*hierarchical.HierarchicalConjunctiveThreshold"]
		if e == nil {
			hierWhat = "type not in the registry"
			return
		}
		ac, err := hierarchicalSample()
		if err != nil {
			hierWhat = "cannot build the sample: " + err.Error()
			return
		}
		first, err := e.encode(ac)
		if err != nil {
			hierWhat = "cannot encode the sample: " + err.Error()
			return
		}
		for i := 0; i < 12; i++ {
			v, err := e.decode(first)
			if err != nil {
				hierWhat = "valid encoding refused: " + err.Error()
				return
			}
			again, err := e.encode(v)
			if err != nil {
				hierWhat = "cannot re-encode: " + err.Error()
				return
			}
			if string(again) != string(first) {
				hierPresent = true
				hierWhat = fmt.Sprintf("hierarchical structure {1 of {11..18}}: encoding %s decodes and re-encodes to %s (parties of the level permuted; try %d)", hx(first), hx(again), i+1)
				return
			}
		}
		hierWhat = "12 decode / re-encode cycles of a level with 8 parties reproduced the encoding"
	})
	return hierPresent, hierWhat
}

// canonParties sorts every array found under a map key "parties".
func canonParties(b []byte) []byte {
	root, err := cbormut.Parse(b)
	if err != nil {
		return b
	}
	for _, p := range positions(root) {
		n := p.node
		if n.Major == 4 && strings.HasSuffix(p.path, "/parties") {
			sort.SliceStable(n.Items, func(i, j int) bool { return string(n.Items[i].Encode()) < string(n.Items[j].Encode()) })
		}
	}
	return root.Encode()
}

// sameEncoding is byte equality, modulo the catalogued party-order instability of hierarchical
// access structures while it is present.
func sameEncoding(e *entry, x, y []byte) bool {
	if string(x) == string(y) {
		return true
	}
	if e.pinKey() != "hierarchical.HierarchicalConjunctiveThreshold" {
		return false
	}
	if present, _ := observeHierOrder(); !present || os.Getenv("VERIF_C12_NOEXCLUDE") != "" {
		return false
	}
	if string(canonParties(x)) == string(canonParties(y)) {
		vlib.Excluded(knownHierOrder)
		return true
	}
	return false
}
