package c12

// The oracles shared by all tests of this package.

import (
	"bytes"
	"encoding/hex"
	"errors"
	"fmt"
	"reflect"
	"runtime/debug"
	"strings"

	"verif/harness/vlib/cbormut"
)

func safely(f func()) (panicked any, stack string) {
	defer func() {
		if r := recover(); r != nil {
			panicked, stack = r, string(debug.Stack())
		}
	}()
	f()
	return nil, ""
}

// equalAny compares two decoded values: with the type's own Equal where it has one that takes the
// same type (or an interface the type implements), by canonical re-encoding otherwise.
func equalAny(e *entry, a, b any) (eq bool, how string, err error) {
	av, bv := reflect.ValueOf(a), reflect.ValueOf(b)
	if m := av.MethodByName("Equal"); m.IsValid() {
		mt := m.Type()
		if mt.NumIn() == 1 && mt.NumOut() == 1 && mt.Out(0).Kind() == reflect.Bool && bv.Type().AssignableTo(mt.In(0)) {
			var out []reflect.Value
			if p, _ := safely(func() { out = m.Call([]reflect.Value{bv}) }); p != nil {
				return false, "Equal", fmt.Errorf("Equal panicked: %v", p)
			}
			return out[0].Bool(), "Equal", nil
		}
	}
	ea, err := safeEncode(e, a)
	if err != nil {
		return false, "encoding", err
	}
	eb, err := safeEncode(e, b)
	if err != nil {
		return false, "encoding", err
	}
	return sameEncoding(e, ea, eb), "encoding", nil
}

// verdict of oracle V on one input.
type verdict struct {
	class string // rejected | nil | accepted-same | accepted-other
	viol  string // non-empty: the property is violated
	kind  string // panic | invalid | reencode | idempotence
	site  string // for panics: the innermost library function on the stack
	note  string // recorded, not asserted
}

// judge is oracle (V): decoding b never panics; if it succeeds the object satisfies its validity
// rules, re-encodes, and the re-encoding decodes to an Equal object with the same encoding.
func judge(e *entry, b []byte) verdict {
	var obj any
	var derr error
	if p, st := safely(func() { obj, derr = e.decode(b) }); p != nil {
		return verdict{viol: fmt.Sprintf("decoding PANICKED: %v\n%s", p, trimStack(st)), kind: "panic", site: panicSite(st)}
	}
	if derr != nil {
		if errors.Is(derr, errMirrorDiverges) {
			return verdict{viol: derr.Error(), kind: "invalid"}
		}
		return verdict{class: "rejected"}
	}
	if isNilAny(obj) {
		return verdict{class: "nil"}
	}
	if err := deepValid(obj); err != nil {
		return verdict{viol: "the decoder ACCEPTED the input but the object violates a rule its constructor enforces: " + err.Error(), kind: "invalid"}
	}
	re, err := safeEncode(e, obj)
	if err != nil {
		return verdict{viol: "the accepted object cannot be re-encoded: " + err.Error(), kind: "reencode"}
	}
	var obj2 any
	if p, st := safely(func() { obj2, derr = e.decode(re) }); p != nil {
		return verdict{viol: fmt.Sprintf("decoding the re-encoding %x PANICKED: %v\n%s", re, p, trimStack(st)), kind: "idempotence"}
	}
	if derr != nil {
		return verdict{viol: fmt.Sprintf("the re-encoding %x of the accepted object is refused: %v", re, derr), kind: "idempotence"}
	}
	if isNilAny(obj2) {
		return verdict{viol: fmt.Sprintf("the re-encoding %x decodes to nil", re), kind: "idempotence"}
	}
	eq, _, eqErr := equalAny(e, obj, obj2)
	re2, err := safeEncode(e, obj2)
	if err != nil || !sameEncoding(e, re, re2) {
		return verdict{viol: fmt.Sprintf("encoding is not stable: %x then %x (err=%v)", re, re2, err), kind: "idempotence"}
	}
	note := ""
	if eqErr != nil {
		// Equal panics on this accepted object. For a type with a constructor the validity rules above
		// have already refused nil components; what is left are plain data structs without a
		// constructor (e.g. schnorrlike.Signature{E,R,S}), whose emptiness is the verifier's business.
		note = "equal-panics-on-accepted-object"
	} else if !eq {
		// Both objects have the same canonical encoding but the type's Equal says "different":
		// Equal is not reflexive on this (degenerate, e.g. nil-component) object. Types without a
		// constructor have no rule that forbids such an object, so this is recorded, not asserted;
		// on honestly produced values oracle R does assert Equal.
		note = "equal-false-on-identical-encoding"
	}
	if sameEncoding(e, re, b) {
		return verdict{class: "accepted-same", note: note}
	}
	return verdict{class: "accepted-other", note: note}
}

// panicSite names the innermost function of the library on a panic stack.
func panicSite(st string) string {
	lines := strings.Split(st, "\n")
	for i := 0; i+1 < len(lines); i++ {
		l := lines[i]
		if strings.HasPrefix(l, "github.com/bronlabs/bron-crypto/pkg/") && !strings.Contains(l, "/serde.") {
			f := strings.TrimPrefix(l, "github.com/bronlabs/bron-crypto/pkg/")
			if j := strings.LastIndex(f, "("); j > 0 {
				f = f[:j]
			}
			return f
		}
	}
	return "?"
}

func trimStack(st string) string {
	lines := strings.Split(st, "\n")
	var keep []string
	for i := 0; i < len(lines); i++ {
		if strings.Contains(lines[i], "bron-crypto/pkg") && !strings.Contains(lines[i], "/serde.") {
			keep = append(keep, strings.TrimSpace(lines[i]))
			if i+1 < len(lines) {
				keep = append(keep, "    "+strings.TrimSpace(lines[i+1]))
			}
			if len(keep) >= 8 {
				break
			}
		}
	}
	return strings.Join(keep, "\n")
}

func hx(b []byte) string {
	if len(b) > 6000 {
		return hex.EncodeToString(b[:3000]) + fmt.Sprintf("...(%d bytes)...", len(b)) + hex.EncodeToString(b[len(b)-400:])
	}
	return hex.EncodeToString(b)
}

// ---- positions in a CBOR tree --------------------------------------------------------------------------

// pos is one value position of a tree: the root, a map value, an array item or a tag's content.
type pos struct {
	path, class string
	node        *cbormut.Node
	parent      *cbormut.Node
	idx         int // index of node in parent.Items
}

func positions(root *cbormut.Node) []pos {
	var out []pos
	var rec func(n, parent *cbormut.Node, idx int, path, class string)
	rec = func(n, parent *cbormut.Node, idx int, path, class string) {
		out = append(out, pos{path, class, n, parent, idx})
		switch n.Major {
		case 4:
			for i, c := range n.Items {
				rec(c, n, i, fmt.Sprintf("%s/%d", path, i), class+"/*")
			}
		case 5:
			for i := 0; i+1 < len(n.Items); i += 2 {
				k := n.Items[i]
				name, cname := "?", "<key>"
				switch k.Major {
				case 3:
					name = string(k.Bytes)
					cname = name
				case 0:
					name = fmt.Sprint(k.Val)
				}
				rec(n.Items[i+1], n, i+1, path+"/"+name, class+"/"+cname)
			}
		case 6:
			if len(n.Items) == 1 {
				rec(n.Items[0], n, 0, fmt.Sprintf("%s@%d", path, n.Val), fmt.Sprintf("%s@%d", class, n.Val))
			}
		}
	}
	rec(root, nil, 0, "", "")
	return out
}

// Structural operators of this package (every result is well-formed CBOR).
const (
	opNull       = "null"               // value := null
	opUndef      = "undefined"          // value := undefined
	opDropKey    = "dropkey"            // remove the map entry (a missing field)
	opEmptyArr   = "emptyarray"         // value := []
	opEmptyMap   = "emptymap"           // value := {}
	opZeroInt    = "int0"               // value := 0
	opEmptyBstr  = "emptybytes"         // value := h''
	opSelfDesc   = "selfdescribed"      // value := 55799(value)  (the tag every CBOR decoder strips)
	opSelfDescNu = "selfdescribed-null" // value := 55799(null)
	opZeroBytes  = "zerobytes"          // byte string := all zero (same length)
	opTruncArr   = "truncate-array"     // array loses its last element
	opExtendArr  = "extend-array"       // array's last element duplicated
)

var structuralOps = []string{opNull, opUndef, opDropKey, opEmptyArr, opEmptyMap, opZeroInt, opEmptyBstr, opSelfDesc, opSelfDescNu, opZeroBytes, opTruncArr, opExtendArr}

func simple(v uint64) *cbormut.Node { return &cbormut.Node{Major: 7, Val: v} }

// applyStructural performs op at position p of the tree rooted at *root. ok=false: not applicable.
func applyStructural(root **cbormut.Node, p pos, op string) bool {
	var repl *cbormut.Node
	switch op {
	case opNull:
		repl = simple(22)
	case opUndef:
		repl = simple(23)
	case opEmptyArr:
		repl = &cbormut.Node{Major: 4}
	case opEmptyMap:
		repl = &cbormut.Node{Major: 5}
	case opZeroInt:
		repl = &cbormut.Node{Major: 0}
	case opEmptyBstr:
		repl = &cbormut.Node{Major: 2}
	case opSelfDesc:
		repl = &cbormut.Node{Major: 6, Val: 55799, Items: []*cbormut.Node{p.node}}
	case opSelfDescNu:
		repl = &cbormut.Node{Major: 6, Val: 55799, Items: []*cbormut.Node{simple(22)}}
	case opZeroBytes:
		if p.node.Major != 2 || len(p.node.Bytes) == 0 || bytes.Equal(p.node.Bytes, make([]byte, len(p.node.Bytes))) {
			return false
		}
		p.node.Bytes = make([]byte, len(p.node.Bytes))
		return true
	case opTruncArr:
		if p.node.Major != 4 || len(p.node.Items) == 0 {
			return false
		}
		p.node.Items = p.node.Items[:len(p.node.Items)-1]
		return true
	case opExtendArr:
		if p.node.Major != 4 || len(p.node.Items) == 0 {
			return false
		}
		p.node.Items = append(p.node.Items, p.node.Items[len(p.node.Items)-1].Clone())
		return true
	case opDropKey:
		if p.parent == nil || p.parent.Major != 5 {
			return false
		}
		p.parent.Items = append(p.parent.Items[:p.idx-1:p.idx-1], p.parent.Items[p.idx+1:]...)
		return true
	default:
		return false
	}
	// a replacement identical in kind to the original is no mutation
	if repl.Major == p.node.Major && op != opSelfDesc && op != opSelfDescNu {
		switch repl.Major {
		case 4, 5:
			if len(p.node.Items) == 0 {
				return false
			}
		case 2:
			if len(p.node.Bytes) == 0 {
				return false
			}
		case 0:
			if p.node.Val == 0 {
				return false
			}
		case 7:
			if p.node.Val == repl.Val {
				return false
			}
		}
	}
	if p.parent == nil {
		*root = repl
		return true
	}
	p.parent.Items[p.idx] = repl
	return true
}

// compositeEncoding: the valid encoding is a container (or a tagged container).
func compositeEncoding(b []byte) bool {
	n, err := cbormut.Parse(b)
	if err != nil {
		return false
	}
	for n.Major == 6 && len(n.Items) == 1 {
		n = n.Items[0]
	}
	return n.Major == 4 || n.Major == 5
}
