package c12

import (
	"fmt"
	"sort"
	"testing"
	"time"

	"github.com/bronlabs/bron-crypto/pkg/base/curves/k256"
	"github.com/bronlabs/bron-crypto/pkg/mpc"
	"github.com/bronlabs/bron-crypto/pkg/mpc/aor"
	"github.com/bronlabs/bron-crypto/pkg/mpc/dkg/canetti"
	"github.com/bronlabs/bron-crypto/pkg/mpc/dkg/gennaro"
	"github.com/bronlabs/bron-crypto/pkg/mpc/redistribute"
	"github.com/bronlabs/bron-crypto/pkg/mpc/session"
	"github.com/bronlabs/bron-crypto/pkg/mpc/sharing/accessstructures/threshold"
	"github.com/bronlabs/bron-crypto/pkg/network"
	"github.com/bronlabs/bron-crypto/pkg/proofs/sigma/compiler/fiatshamir"
	"github.com/bronlabs/bron-crypto/pkg/transcripts/hagrid"
	"verif/harness/vlib"
	"verif/harness/vlib/netsim"
	"verif/harness/vlib/proto"
)

func dumpLog(t *testing.T, what string, net *netsim.Net, dt time.Duration) {
	type k struct {
		r    string
		kind netsim.Kind
	}
	cnt := map[k]int{}
	sz := map[k]int{}
	for _, m := range net.Log() {
		kk := k{m.Round(), m.Kind}
		cnt[kk]++
		sz[kk] = len(m.Body)
	}
	var ks []k
	for kk := range cnt {
		ks = append(ks, kk)
	}
	sort.Slice(ks, func(i, j int) bool { return ks[i].r+ks[i].kind.String() < ks[j].r+ks[j].kind.String() })
	t.Logf("== %s (%v)", what, dt)
	for _, kk := range ks {
		t.Logf("   %-10s %4d x %6d B  %q", kk.kind, cnt[kk], sz[kk], kk.r)
	}
}

func run[O any](t *testing.T, what string, ids []proto.ID, mk func(id proto.ID) (network.Runner[O], error)) (map[proto.ID]O, *netsim.Net) {
	runners := map[proto.ID]network.Runner[O]{}
	for _, id := range ids {
		r, err := mk(id)
		if err != nil {
			t.Fatalf("%s: runner %d: %v", what, id, err)
		}
		runners[id] = r
	}
	net := netsim.New(ids)
	t0 := time.Now()
	res, _ := netsim.RunAll(net, runners, netsim.Options{Idle: 30 * time.Second, Hard: 5 * time.Minute})
	out := map[proto.ID]O{}
	for id, r := range res {
		if r.Err != nil || r.Panic != nil {
			t.Fatalf("%s: party %d: err=%v panic=%v", what, id, r.Err, r.Panic)
		}
		out[id] = r.Out
	}
	dumpLog(t, what, net, time.Since(t0))
	return out, net
}

func TestZZProbe(t *testing.T) {
	ids := []proto.ID{1, 2, 3}
	ac, err := threshold.NewThresholdAccessStructure(2, proto.SetOf(ids...))
	if err != nil {
		t.Fatal(err)
	}
	curve := k256.NewCurve()
	ctxs, _ := proto.Contexts(ids, 1, "probe")
	shards, _ := run(t, "gennaro", ids, func(id proto.ID) (network.Runner[*mpc.BaseShard[*k256.Point, *k256.Scalar]], error) {
		return gennaro.NewRunner(ctxs[id], curve, ac, fiatshamir.Name, vlib.NewPRNG(1, fmt.Sprint("g", id)))
	})
	ctxs, _ = proto.Contexts(ids, 2, "probe")
	run(t, "canetti", ids, func(id proto.ID) (network.Runner[*mpc.BaseShard[*k256.Point, *k256.Scalar]], error) {
		return canetti.NewRunner(ctxs[id], ac, curve, vlib.NewPRNG(1, fmt.Sprint("c", id)))
	})
	ctxs, _ = proto.Contexts(ids, 3, "probe")
	run(t, "redistribute", ids, func(id proto.ID) (network.Runner[*mpc.BaseShard[*k256.Point, *k256.Scalar]], error) {
		return redistribute.NewRunner(ctxs[id], proto.SetOf(ids...), shards[id], ac, vlib.NewPRNG(1, fmt.Sprint("r", id)))
	})
	run(t, "session", ids, func(id proto.ID) (network.Runner[*session.Context], error) {
		return session.NewSessionRunner(id, proto.SetOf(ids...), vlib.NewPRNG(1, fmt.Sprint("s", id)))
	})
	run(t, "aor", ids, func(id proto.ID) (network.Runner[[]byte], error) {
		return aor.NewAgreeOnRandomRunner(id, proto.SetOf(ids...), 32, hagrid.NewTranscript("x"), vlib.NewPRNG(1, fmt.Sprint("a", id)))
	})
}
