package c12

// Oracle (F): "moduli of admissible size". The library enforces the key-size floor (3072-bit
// Paillier modulus) only outside test binaries (testing.Testing()), so the decoders are probed in
// a separately built non-test program, c12/floorprobe.

import (
	"bytes"
	"encoding/hex"
	"fmt"
	"math/big"
	"os"
	"os/exec"
	"path/filepath"
	"runtime"
	"strings"
	"testing"

	"github.com/bronlabs/bron-crypto/pkg/base/serde"
	"verif/harness/vlib"
)

func harnessRoot() string {
	_, file, _, _ := runtime.Caller(0)
	return filepath.Dir(filepath.Dir(file))
}

func buildFloorProbe(t *testing.T) string {
	t.Helper()
	root := harnessRoot()
	if _, err := os.Stat(filepath.Join(root, "go.mod")); err != nil {
		t.Skipf("harness sources not found at %s (test binary moved?): %v", root, err)
	}
	goBin, err := exec.LookPath("go1.26")
	if err != nil {
		goBin = "/usr/local/bin/go1.26"
	}
	dir := t.TempDir()
	out := filepath.Join(dir, "floorprobe")
	args := []string{"build", "-tags", "purego", "-o", out}
	if alt := os.Getenv("VERIF_REPO"); alt != "" {
		src, err := os.ReadFile(filepath.Join(root, "go.mod"))
		if err != nil {
			t.Fatalf("reading go.mod: %v", err)
		}
		abs, _ := filepath.Abs(alt)
		mf := filepath.Join(dir, "alt.go.mod")
		if err := os.WriteFile(mf, []byte(strings.ReplaceAll(string(src), "=> /repo", "=> "+abs)), 0o644); err != nil {
			t.Fatal(err)
		}
		sum, _ := os.ReadFile(filepath.Join(root, "go.sum"))
		_ = os.WriteFile(filepath.Join(dir, "alt.go.sum"), sum, 0o644)
		args = append(args, "-modfile="+mf)
	}
	args = append(args, "./c12/floorprobe")
	cmd := exec.Command(goBin, args...)
	cmd.Dir = root
	cmd.Env = append(os.Environ(), "GOFLAGS=-mod=mod", "GOPROXY=off", "GOSUMDB=off", "GOTOOLCHAIN=local", "CGO_ENABLED=0")
	if b, err := cmd.CombinedOutput(); err != nil {
		t.Fatalf("infrastructure: building floorprobe failed: %v\n%s", err, b)
	}
	return out
}

func TestKeySizeFloor(t *testing.T) {
	const test = "KeySizeFloor"
	if byName["*paillier.SecretKey"] == nil || !mine(0, byName["*paillier.SecretKey"]) {
		t.Skip("run by one shard only (one build of the probe)")
	}
	type probe struct {
		typ, what string
		enc       []byte
		want      string
		bits      int
	}
	var probes []probe
	add := func(typ, what string, v any, want string, bits int) {
		b, err := serde.MarshalCBOR(v)
		if err != nil {
			t.Fatalf("encoding %s: %v", what, err)
		}
		probes = append(probes, probe{typ, what, b, want, bits})
	}
	for _, c := range []struct {
		bits int
		kind string
	}{{512, "ord"}, {512, "blum"}, {768, "ord"}, {1024, "ord"}, {1024, "safe"}} {
		sk, err := paillierKey(c.bits, c.kind, 0, 1)
		if err != nil {
			t.Fatalf("building a %d-bit-prime Paillier key: %v", c.bits, err)
		}
		n := sk.Group().N().Big().BitLen()
		add("paillier.SecretKey", fmt.Sprintf("secret key, N of %d bits (%s primes)", n, c.kind), sk, "rejected", n)
		add("paillier.PublicKey", fmt.Sprintf("public key, N of %d bits (%s primes)", n, c.kind), sk.Public(), "rejected", n)
	}
	// full size: two 1536-bit primes whose product has 3072 bits
	ps := vlib.Primes(1536, "ord")
	full := false
	for i := 0; i < len(ps) && !full; i++ {
		for j := i + 1; j < len(ps) && !full; j++ {
			if new(big.Int).Mul(ps[i], ps[j]).BitLen() >= 3072 {
				sk, err := paillierKey(1536, "ord", i, j)
				if err != nil {
					t.Fatalf("building the full-size Paillier key: %v", err)
				}
				add("paillier.SecretKey", "secret key, N of 3072 bits", sk, "accepted", 3072)
				add("paillier.PublicKey", "public key, N of 3072 bits", sk.Public(), "accepted", 3072)
				full = true
			}
		}
	}
	if !full {
		t.Fatalf("harness: no pair of 1536-bit fixture primes gives a 3072-bit modulus")
	}
	// Lindell17 material dealt with 1024-bit Paillier keys (sub-floor)
	shards, err := ecdsaK256.l17Shards()
	if err != nil {
		t.Fatalf("corpus: lindell17 dealer: %v", err)
	}
	sh := shards[1]
	aux := sh.AuxiliaryInfo
	add("lindell17.AuxiliaryInfo", fmt.Sprintf("auxiliary info with %d-bit Paillier keys", l17KeyBits), &aux, "rejected", l17KeyBits)
	add("lindell17.Shard/k256", fmt.Sprintf("shard with %d-bit Paillier keys", l17KeyBits), sh, "rejected", l17KeyBits)

	bin := buildFloorProbe(t)
	var in bytes.Buffer
	for _, p := range probes {
		fmt.Fprintf(&in, "%s %s\n", p.typ, hex.EncodeToString(p.enc))
	}
	cmd := exec.Command(bin)
	cmd.Stdin = &in
	outB, err := cmd.CombinedOutput()
	if err != nil {
		t.Fatalf("infrastructure: running floorprobe: %v\n%s", err, outB)
	}
	lines := strings.Split(strings.TrimSpace(string(outB)), "\n")
	if len(lines) != len(probes) {
		t.Fatalf("infrastructure: floorprobe printed %d lines for %d inputs:\n%s", len(lines), len(probes), outB)
	}
	for i, p := range probes {
		got := strings.TrimSpace(strings.TrimPrefix(lines[i], p.typ))
		// inside this test binary the same encoding must decode (the floor is the only objection)
		if p.want == "rejected" {
			if e := byName[map[string]string{"paillier.SecretKey": "*paillier.SecretKey", "paillier.PublicKey": "*paillier.PublicKey", "lindell17.AuxiliaryInfo": "*lindell17.AuxiliaryInfo"}[p.typ]]; e != nil {
				if _, err := e.decode(p.enc); err != nil {
					t.Fatalf("harness: %s does not even decode inside the test binary: %v", p.what, err)
				}
			}
		}
		if got != p.want {
			t.Fatalf("key-size floor: %s (%s) is %s outside a test binary, want %s\nencoding %s", p.what, p.typ, got, p.want, hx(p.enc))
		}
		vlib.Case(test, vlib.Desc(p.typ, "F", p.bits, p.want), true, "floor="+p.want, fmt.Sprintf("bits=%d", p.bits))
	}
	vlib.Exhaustive("key-size floor probes outside a test binary: Paillier keys with 1024 / 1536 / 2048 / 3072-bit moduli, Lindell17 auxiliary info and shard")
}
