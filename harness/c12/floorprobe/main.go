// Command floorprobe decodes CBOR encodings OUTSIDE a test binary, where the library's key-size
// floors are active (they are switched off by testing.Testing() inside `go test`). It reads lines
// "<typename> <hex>" from standard input and prints "<typename> accepted" or "<typename> rejected"
// (and "<typename> panicked" should a decoder panic) for each. Used by TestKeySizeFloor.
package main

import (
	"bufio"
	"encoding/hex"
	"fmt"
	"os"
	"strings"
	"testing"

	"github.com/bronlabs/bron-crypto/pkg/base/curves/k256"
	"github.com/bronlabs/bron-crypto/pkg/base/serde"
	"github.com/bronlabs/bron-crypto/pkg/encryption/paillier"
	"github.com/bronlabs/bron-crypto/pkg/mpc/signatures/ecdsa/lindell17"
)

func try[T any](b []byte) (verdict string) {
	defer func() {
		if r := recover(); r != nil {
			verdict = fmt.Sprintf("panicked (%v)", r)
		}
	}()
	v, err := serde.UnmarshalCBOR[T](b)
	if err != nil {
		return "rejected"
	}
	_ = v
	return "accepted"
}

var decoders = map[string]func([]byte) string{
	"paillier.SecretKey":      try[*paillier.SecretKey],
	"paillier.PublicKey":      try[*paillier.PublicKey],
	"lindell17.AuxiliaryInfo": try[*lindell17.AuxiliaryInfo],
	"lindell17.Shard/k256":    try[*lindell17.Shard[*k256.Point, *k256.BaseFieldElement, *k256.Scalar]],
}

func main() {
	if testing.Testing() {
		fmt.Println("floorprobe must not run inside a test binary")
		os.Exit(3)
	}
	sc := bufio.NewScanner(os.Stdin)
	sc.Buffer(make([]byte, 1<<20), 1<<26)
	for sc.Scan() {
		f := strings.Fields(sc.Text())
		if len(f) != 2 {
			continue
		}
		d, ok := decoders[f[0]]
		if !ok {
			fmt.Printf("%s unknown-type\n", f[0])
			continue
		}
		b, err := hex.DecodeString(f[1])
		if err != nil {
			fmt.Printf("%s bad-hex\n", f[0])
			continue
		}
		fmt.Printf("%s %s\n", f[0], d(b))
	}
}
