package c12

// Native fuzz targets, one per registry family, with oracle V inside the target. Seed corpus: the
// valid encodings of the family's entries and the hostile constants. Under plain `go test` (quick
// tier) the targets run over their seed corpus only, and every shard adds only the seeds of its
// own entries; under -fuzz the coordinator adds all seeds and the workers add none (they receive
// their inputs from the coordinator), so a worker start does not pay for the protocol runs.

import (
	"flag"
	"fmt"
	"testing"

	"verif/harness/vlib"
	"verif/harness/vlib/cbormut"
)

func flagSet(name string) bool {
	f := flag.Lookup(name)
	return f != nil && f.Value.String() != "" && f.Value.String() != "false"
}

func fuzzFamily(f *testing.F, family string) {
	test := "Fuzz_" + family
	es := entriesOf(family)
	if len(es) == 0 {
		f.Fatalf("family %s has no entry", family)
	}
	fuzzing := flagSet("test.fuzz")
	worker := flagSet("test.fuzzworker")
	seedKind := map[string]string{}
	if !worker {
		hostile := hostileInputs()
		for i, e := range es {
			if !fuzzing && !mine(globalIndex(e), e) {
				continue
			}
			ss := mustSamples(f, e)
			if ss == nil {
				f.Fatalf("corpus of %s is empty", e.name)
			}
			for _, s := range ss {
				f.Add(uint16(i), s.enc)
				seedKind[fmt.Sprintf("%d|%x", i, s.enc)] = "valid"
			}
			for n, b := range hostile {
				if len(b) > 4096 && i >= 2 {
					continue // the two very large constants only for the first entries of a family
				}
				f.Add(uint16(i), b)
				seedKind[fmt.Sprintf("%d|%x", i, b)] = "hostile:" + n
			}
		}
	}
	f.Fuzz(func(t *testing.T, which uint16, data []byte) {
		i := int(which) % len(es)
		e := es[i]
		v := judge(e, data)
		_, perr := cbormut.Parse(data)
		kind := seedKind[fmt.Sprintf("%d|%x", i, data)]
		if kind == "" {
			kind = "generated"
		}
		if v.viol != "" {
			if !toleratedRaw(e, v.kind, data) {
				t.Fatalf("%s: %s\ninput %s", e.name, v.viol, hx(data))
			}
			return
		}
		if kind == "valid" && v.class != "accepted-same" {
			t.Fatalf("%s: a valid encoding is not accepted unchanged (class %s): %s", e.name, v.class, hx(data))
		}
		vlib.Case(test, vlib.Desc(e.name, "V", "seed", kind), perr == nil, "seed="+kindClass(kind), "outcome="+v.class)
	})
}

func globalIndex(e *entry) int {
	for i, x := range registry {
		if x == e {
			return i
		}
	}
	return 0
}

func kindClass(k string) string {
	if len(k) > 7 && k[:7] == "hostile" {
		return "hostile"
	}
	return k
}

func FuzzDecode_messages(f *testing.F)         { fuzzFamily(f, famMessages) }
func FuzzDecode_shares(f *testing.F)           { fuzzFamily(f, famShares) }
func FuzzDecode_accessstructures(f *testing.F) { fuzzFamily(f, famAccess) }
func FuzzDecode_shards(f *testing.F)           { fuzzFamily(f, famShards) }
func FuzzDecode_keys_signatures(f *testing.F)  { fuzzFamily(f, famKeysSigs) }
func FuzzDecode_proofs(f *testing.F)           { fuzzFamily(f, famProofs) }
func FuzzDecode_commitments(f *testing.F)      { fuzzFamily(f, famCommitments) }
func FuzzDecode_encryption(f *testing.F)       { fuzzFamily(f, famEncryption) }
func FuzzDecode_numbers(f *testing.F)          { fuzzFamily(f, famNumbers) }
func FuzzDecode_curves(f *testing.F)           { fuzzFamily(f, famCurves) }
